(* C02_doc.v — document level of C02: the map walker accepts every conformant instance of a loop
   (Spec/C02_doc_spec.v): it finds every item at its node, reports nothing, and leaves the
   predicted counts. *)
From Coq Require Import String Lia.
From PX.Lib Require Import Base PyStr PyInt Regex Xml.
From PX.Model Require Import Path Segment Syntax MapLoad MapTree Element Counter Walker.
From PX.Spec Require Import C07_walker_wf C02_doc_spec.
From PX.Proofs Require Import Counter_keys C07_walker_lemmas C07_walker C02_doc_counter C02_doc_walk.

Scheme conf_inst_mind := Minimality for conf_inst Sort Prop
  with conf_body_mind := Minimality for conf_body Sort Prop.
Combined Scheme conf_mutind from conf_inst_mind, conf_body_mind.

(* ------------------------------------------------------------------ *)
(* lists                                                                *)

Lemma app_eq_self {A} (L x : list A) : L ++ x = L -> x = [].
Proof. intros H. rewrite <- (app_nil_r L) in H at 2. apply app_inv_head in H. exact H. Qed.

Lemma repeat_snoc {A} (x : A) n : repeat x (S n) = repeat x n ++ [x].
Proof. induction n as [|n IH]; [reflexivity|]. cbn [repeat app] in *. rewrite <- IH. reflexivity. Qed.

Lemma last_ref_app U V dflt : V <> [] -> last_ref (U ++ V) dflt = last_ref V dflt.
Proof.
  intros HV. unfold last_ref. rewrite map_app. destruct (exists_last HV) as [V' [x ->]].
  rewrite !map_app. cbn [map]. rewrite app_assoc, !last_last. reflexivity.
Qed.

Lemma last_cons {A} (l : list A) : forall a d, last (a :: l) d = last l a.
Proof.
  induction l as [|b l IH]; intros a d; [reflexivity|].
  change (last (a :: b :: l) d) with (last (b :: l) d). rewrite (IH b d), (IH b a). reflexivity.
Qed.

Lemma last_ref_cons it U dflt : last_ref (it :: U) dflt = last_ref U (fst it).
Proof. unfold last_ref. cbn [map]. apply last_cons. Qed.

Lemma last_ref_nil dflt : last_ref [] dflt = dflt.
Proof. reflexivity. Qed.

Section Doc.
Variable m : xmap.
Variable d : delims.
Hypothesis WF : walker_wf m = true.
Hypothesis KO : keys_ok m = true.

Notation ns := (root_nodes m).
Notation kid L := (children_of m L).

Lemma kids_children r : kids m r = children_of m r.
Proof. reflexivity. Qed.

Lemma node_at_child L nL j : node_at ns L = Some nL -> node_at ns (L ++ [j]) = nth_error (children_of m L) j.
Proof.
  intros H. rewrite (node_at_snoc _ _ _ _ H). unfold children_of. destruct L; [discriminate|]. rewrite H. reflexivity.
Qed.

Lemma pos_at_child L nL j n :
  node_at ns L = Some nL -> nth_error (children_of m L) j = Some n -> pos_at m (L ++ [j]) = node_pos n.
Proof. intros H Hj. unfold pos_at. rewrite (node_at_child _ _ _ H), Hj. reflexivity. Qed.

Lemma in_cands cur npos ic :
  In ic (cands m cur npos) -> nth_error (children_of m cur) (fst ic) = Some (snd ic) /\ (npos <= node_pos (snd ic))%Z.
Proof.
  destruct ic as [i c]. intros H. unfold cands in H. apply filter_In in H as [H P].
  apply enumerate_nth in H as [_ H]. rewrite Nat.sub_0_r in H. cbn [fst snd] in *. split; [exact H | apply Z.leb_le, P].
Qed.

(* ------------------------------------------------------------------ *)
(* the rivals, level by level                                           *)

Definition scb (cur : nref) (npos : Z) (L : nref) (j : nat) (lp : bool) : bool :=
  lp && nref_eqb cur (L ++ [j]) && match cands m cur npos with (0, NSeg _) :: _ => true | _ => false end.

Lemma rivals_up_top f npos L j lp :
  rivals_up m (S f) L npos L j lp = heads_of L (filter (fun ic => fst ic <? j) (cands m L npos)).
Proof. cbn [rivals_up]. rewrite nref_eqb_refl. reflexivity. Qed.

Lemma rivals_up_below f cur npos L j lp :
  cur <> L -> scb cur npos L j lp = false ->
  rivals_up m (S f) cur npos L j lp = heads_of cur (cands m cur npos) ++ rivals_up m f (removelast cur) (pos_at m cur) L j lp.
Proof.
  intros Hne Hs. cbn [rivals_up]. apply nref_eqb_neq in Hne. rewrite Hne. unfold scb in Hs. rewrite Hs. reflexivity.
Qed.

Section Levels.
Variables (L : nref) (y : list nat) (j : nat) (lp : bool).
Hypothesis Hy : y <> [].

Let lv (k : nat) : nref := L ++ firstn k y.
Let np (k : nat) : Z := pos_at m (L ++ firstn (S k) y).

Lemma lv_ne k : 0 < k -> lv k <> L.
Proof.
  intros K E. unfold lv in E. apply app_eq_self in E. destruct k; [lia|]. exact (firstn_S_nonnil y k Hy E).
Qed.

Lemma rivals_up_level n :
  n < length y -> forall k, 0 < k -> k <= n ->
  (forall k', k <= k' -> k' <= n -> scb (lv k') (np k') L j lp = false) ->
  forall fuel, n < fuel ->
  incl (heads_of (lv k) (cands m (lv k) (np k))) (rivals_up m fuel (lv n) (np n) L j lp).
Proof.
  induction n as [|n IH]; intros Hn k K1 K2 SC fuel Hf; [lia|].
  destruct fuel as [|fuel]; [lia|].
  rewrite (rivals_up_below fuel (lv (S n)) (np (S n)) L j lp (lv_ne (S n) ltac:(lia)) (SC (S n) ltac:(lia) ltac:(lia))).
  destruct (Nat.eq_dec k (S n)) as [->|Hk].
  - apply incl_appl, incl_refl.
  - apply incl_appr. change (lv (S n)) with (L ++ firstn (S n) y). rewrite (removelast_app_firstn L y n ltac:(lia)).
    apply (IH ltac:(lia) k K1 ltac:(lia)); [|lia]. intros k' A B. apply SC; lia.
Qed.

Lemma rivals_up_level0 n :
  n < length y ->
  (forall k', 0 < k' -> k' <= n -> scb (lv k') (np k') L j lp = false) ->
  forall fuel, n < fuel ->
  incl (heads_of L (filter (fun ic => fst ic <? j) (cands m L (np 0)))) (rivals_up m fuel (lv n) (np n) L j lp).
Proof.
  induction n as [|n IH]; intros Hn SC fuel Hf; (destruct fuel as [|fuel]; [lia|]).
  - unfold lv. cbn [firstn]. rewrite app_nil_r, rivals_up_top. apply incl_refl.
  - rewrite (rivals_up_below fuel (lv (S n)) (np (S n)) L j lp (lv_ne (S n) ltac:(lia)) (SC (S n) ltac:(lia) ltac:(lia))).
    apply incl_appr. change (lv (S n)) with (L ++ firstn (S n) y). rewrite (removelast_app_firstn L y n ltac:(lia)).
    apply (IH ltac:(lia)); [|lia]. intros k' A B. apply SC; lia.
Qed.

(* the shortcut can only be taken one level below L *)
Lemma scb_level k : 1 < k -> k <= length y -> scb (lv k) (np k) L j lp = false.
Proof.
  intros K K'. unfold scb. replace (nref_eqb (lv k) (L ++ [j])) with false; [rewrite andb_false_r; reflexivity|].
  symmetry. apply nref_eqb_neq. intros E. unfold lv in E. apply app_inv_head in E.
  apply (f_equal (@length nat)) in E. rewrite firstn_length in E. cbn [length] in E. lia.
Qed.

End Levels.

(* ------------------------------------------------------------------ *)
(* the invariant between two items of an instance of loop L             *)

Definition Wc (c : counter) : wstate := {| w_counter := c; w_missing := [] |}.

Definition vseg (p : nref) : Prop := exists sn, node_at ns p = Some (NSeg sn).
Definition vloop (L : nref) : Prop := exists nL, node_at ns L = Some nL /\ node_is_loop nL = true.

(* every child of `cur` that is looked at again after position npos is passed without being missed *)
Definition exh (c : counter) (cur : nref) (npos : Z) : Prop :=
  forall ic, In ic (cands m cur npos) -> cq m 40 c (cur ++ [fst ic]) (snd ic).

(* the loops from C down to the one holding C ++ y can all be left *)
Definition closed (c : counter) (C : nref) (y : list nat) : Prop :=
  forall k, k < length y -> exh c (C ++ firstn k y) (pos_at m (C ++ firstn (S k) y)).

(* the last item is at p, inside the cn-th unit of child i of L, and that unit is complete *)
Record InvB (c : counter) (L p : nref) (i : nat) (cn : Z) : Prop := {
  ib_L : vloop L;
  ib_p : vseg p;
  ib_child : exists ni, nth_error (kid L) i = Some ni /\
     ((node_is_loop ni = false /\ p = L ++ [i]) \/
      (node_is_loop ni = true /\
       exists y, y <> [] /\ p = (L ++ [i]) ++ y /\ closed c (L ++ [i]) y /\ cq m 40 c (L ++ [i]) ni /\
                 (* every child of the unit's loop is present as far as it is required: asked by
                    _note_missing_children when that loop starts again at once *)
                 allq m c (L ++ [i])));
  ib_passed : forall k nk, k < i -> nth_error (kid L) k = Some nk -> cq m 40 c (L ++ [k]) nk;
  ib_fresh : forall k x nx, i < k -> node_at ns ((L ++ [k]) ++ x) = Some nx -> cnt m c ((L ++ [k]) ++ x) = 0%Z;
  ib_count : forall ni, nth_error (kid L) i = Some ni -> node_is_loop ni = false \/ seg_first ni = true ->
                        cnt m c (L ++ [i]) = cn;
  ib_cn : (1 <= cn)%Z;
  ib_own : forall nL, node_at ns L = Some nL -> seg_first nL = true -> (1 <= cnt m c L)%Z
}.

(* the path from L to p *)
Lemma invb_path c L p i cn :
  InvB c L p i cn ->
  exists y, p = L ++ i :: y /\
    forall k, 0 < k -> k < length (i :: y) ->
              exh c (L ++ firstn k (i :: y)) (pos_at m (L ++ firstn (S k) (i :: y))).
Proof.
  intros I. destruct (ib_child _ _ _ _ _ I) as [ni [Hi [[Ln ->] | [Ln [y [Hy [-> [Cl _]]]]]]]].
  - exists []. split; [reflexivity|]. intros k K1 K2. cbn [length] in K2. lia.
  - exists y. split; [rewrite <- app_assoc; reflexivity|].
    intros k K1 K2. destruct k as [|k]; [lia|]. cbn [length] in K2.
    change (firstn (S k) (i :: y)) with (i :: firstn k y). change (firstn (S (S k)) (i :: y)) with (i :: firstn (S k) y).
    replace (L ++ i :: firstn k y) with ((L ++ [i]) ++ firstn k y) by (rewrite <- app_assoc; reflexivity).
    replace (L ++ i :: firstn (S k) y) with ((L ++ [i]) ++ firstn (S k) y) by (rewrite <- app_assoc; reflexivity).
    apply Cl. lia.
Qed.

(* the child the last unit instantiated is not missed either *)
Lemma invb_cq_i c L p i cn ni :
  InvB c L p i cn -> nth_error (kid L) i = Some ni -> cq m 40 c (L ++ [i]) ni.
Proof.
  intros I Hi. destruct (ib_child _ _ _ _ _ I) as [ni' [Hi' [[Ln _] | [Ln [y [_ [_ [_ [Q _]]]]]]]]];
    rewrite Hi in Hi'; injection Hi' as <-; [|exact Q].
  destruct ni as [id ty nm u q rep pm | sn]; [discriminate|].
  cbn [cq]. intros _. rewrite (ib_count _ _ _ _ _ I _ Hi (or_introl eq_refl)). exact (ib_cn _ _ _ _ _ I).
Qed.

(* the children of L up to j (j excluded) are not missed *)
Lemma invb_cq_before c L p i cn j k nk :
  InvB c L p i cn -> between_skippable m L i j -> k < j -> nth_error (kid L) k = Some nk -> cq m 40 c (L ++ [k]) nk.
Proof.
  intros I B Kj Hk. destruct (lt_eq_lt_dec k i) as [[K|K]|K].
  - exact (ib_passed _ _ _ _ _ I _ _ K Hk).
  - subst k. exact (invb_cq_i _ _ _ _ _ _ I Hk).
  - apply skippable_cq. exact (B _ _ K Kj Hk).
Qed.

Lemma forallb_nomatch sg rs : forallb (nomatch_b m d sg) rs = true -> forall h, In h rs -> nomatch_b m d sg h = true.
Proof. intros H. rewrite forallb_forall in H. exact H. Qed.

Lemma heads_of_in cur cs ic h : In ic cs -> In h (heads 40 (cur ++ [fst ic]) (snd ic)) -> In h (heads_of cur cs).
Proof. intros H1 H2. unfold heads_of. apply in_flat_map. exists ic. split; assumption. Qed.

(* the loops strictly between L and p are left without a trace *)
Lemma levels_quiet a c L y :
  (forall k, 0 < k -> k < length y -> exh c (L ++ firstn k y) (pos_at m (L ++ firstn (S k) y))) ->
  (forall k, 0 < k -> k < length y ->
     forall h, In h (heads_of (L ++ firstn k y) (cands m (L ++ firstn k y) (pos_at m (L ++ firstn (S k) y)))) ->
               nomatch_b m (xg_d (a_x a)) (xg_s (a_x a)) h = true) ->
  forall k, 0 < k -> k < length y ->
    Forall (child_quiet m a c (L ++ firstn k y)) (cands m (L ++ firstn k y) (pos_at m (L ++ firstn (S k) y))).
Proof.
  intros E R k K1 K2. apply Forall_forall. intros ic Hin. split; [|split].
  - apply (in_cands _ _ _ Hin).
  - apply (E k K1 K2 ic Hin).
  - intros h Hh. apply (R k K1 K2). exact (heads_of_in _ _ _ _ Hin Hh).
Qed.

(* the rivals seen from p = L ++ y *)
Lemma rivals_up_from L y j lp :
  y <> [] ->
  (forall k, 0 < k -> k < length y -> scb (L ++ firstn k y) (pos_at m (L ++ firstn (S k) y)) L j lp = false) ->
  let R := rivals_up m (S (length (L ++ y))) (removelast (L ++ y)) (pos_at m (L ++ y)) L j lp in
  (forall k, 0 < k -> k < length y ->
     incl (heads_of (L ++ firstn k y) (cands m (L ++ firstn k y) (pos_at m (L ++ firstn (S k) y)))) R) /\
  incl (heads_of L (filter (fun ic => fst ic <? j) (cands m L (pos_at m (L ++ firstn 1 y))))) R.
Proof.
  intros Hy SC R.
  assert (Ly : 0 < length y) by (destruct y; [congruence | cbn [length]; lia]).
  assert (ER : R = rivals_up m (S (length (L ++ y))) (L ++ firstn (length y - 1) y)
                             (pos_at m (L ++ firstn (S (length y - 1)) y)) L j lp).
  { unfold R. rewrite <- (removelast_app_firstn L y (length y - 1)) by lia.
    replace (S (length y - 1)) with (length y) by lia. rewrite firstn_all. reflexivity. }
  rewrite ER. split.
  - intros k K1 K2. apply (rivals_up_level L y j lp Hy (length y - 1)); try lia.
    + intros k' A B. apply SC; lia.
    + rewrite app_length. lia.
  - apply (rivals_up_level0 L y j lp Hy (length y - 1)); try lia.
    + intros k' A B. apply SC; lia.
    + rewrite app_length. lia.
Qed.

Lemma scb_false_seg cur npos L j : scb cur npos L j false = false.
Proof. reflexivity. Qed.

(* ------------------------------------------------------------------ *)
(* one more unit: a segment child                                       *)

Lemma is_head_snoc L j : j <> 0 -> is_head (L ++ [j]) = false.
Proof. intros H. unfold is_head. rewrite rev_app_distr. cbn [rev app]. destruct j; [congruence | reflexivity]. Qed.

Lemma is_head_snoc0 L : L <> [] -> is_head (L ++ [0]) = true.
Proof.
  intros H. unfold is_head. rewrite rev_app_distr. cbn [rev app].
  destruct (rev L) eqn:E; [|reflexivity]. apply (f_equal (@rev nat)) in E. rewrite rev_involutive in E. contradiction.
Qed.

Lemma snoc_inj {A} (L : list A) (a b : A) : L ++ [a] = L ++ [b] -> a = b.
Proof. intros H. apply app_inv_head in H. congruence. Qed.

Lemma child_ne_sub (L : nref) (k j : nat) (x : list nat) : k <> j -> (L ++ [k]) ++ x <> L ++ [j].
Proof. intros H E. rewrite <- app_assoc in E. apply app_inv_head in E. cbn [app] in E. congruence. Qed.

Lemma cq_own c L nL p i cn j :
  InvB c L p i cn -> node_at ns L = Some nL -> i <= j ->
  between_skippable m L i j ->
  (exists sn, nth_error (kid L) j = Some (NSeg sn)) ->
  (wrapper nL = true ->
     forall k n, j < k -> nth_error (kid L) k = Some n -> node_is_loop n = true -> skippable 40 n = true) ->
  cq m 40 c L nL.
Proof.
  intros I HL Le B [sn Hj] Wp.
  assert (KL : kid L = node_children nL).
  { unfold children_of. destruct L; [discriminate HL|]. rewrite HL. reflexivity. }
  destruct (wf_ref _ _ _ WF HL) as [_ D].
  destruct nL as [id ty nm u q rep pm | sx]; [|cbn [node_children] in KL; rewrite KL in Hj; destruct j; discriminate].
  cbn [node_children] in KL.
  change (forallb (depth_ok 39) (pm_nodes pm) = true) in D. rewrite forallb_forall in D.
  change (cq m 40 c L (NLoop id ty nm u q rep pm)) with
    (match pm_nodes pm with
     | [] => True
     | NSeg _ :: _ => usage_is u "R" = true -> (1 <= cnt m c L)%Z
     | NLoop _ _ _ _ _ _ _ :: _ =>
         forall i ch, nth_error (pm_nodes pm) i = Some ch -> node_is_loop ch = true -> cq m 39 c (L ++ [i]) ch
     end).
  destruct (pm_nodes pm) as [|[id1 ty1 nm1 u1 q1 rep1 pm1 | s0] rest] eqn:E; [constructor | |].
  - intros k ch Hk Lk. rewrite <- KL in Hk.
    apply (cq_fuel m 39 c _ _ (D _ ltac:(rewrite <- KL; apply (nth_error_In _ _ Hk)))).
    destruct (lt_eq_lt_dec k j) as [[K|K]|K].
    + exact (invb_cq_before _ _ _ _ _ _ _ _ I B K Hk).
    + subst k. rewrite Hj in Hk. injection Hk as <-. discriminate.
    + apply skippable_cq. apply (Wp ltac:(unfold wrapper; cbn [node_children]; rewrite E; reflexivity) _ _ K Hk Lk).
  - intros _. apply (ib_own _ _ _ _ _ I _ HL). unfold seg_first. cbn [node_children]. rewrite E. reflexivity.
Qed.

(* the children of L looked at before child j are passed without a trace *)
Lemma pre_quiet a c L p i cn j y :
  InvB c L p i cn -> between_skippable m L i j ->
  (forall h, In h (heads_of L (filter (fun ic => fst ic <? j) (cands m L (pos_at m (L ++ firstn 1 (i :: y)))))) ->
             nomatch_b m (xg_d (a_x a)) (xg_s (a_x a)) h = true) ->
  forall ic, In ic (cands m L (pos_at m (L ++ firstn 1 (i :: y)))) -> fst ic < j -> child_quiet m a c L ic.
Proof.
  intros I B R ic Hin Hlt. destruct (in_cands _ _ _ Hin) as [Hk _]. split; [|split].
  - exact Hk.
  - exact (invb_cq_before _ _ _ _ _ _ _ _ I B Hlt Hk).
  - intros h Hh. apply R. apply (heads_of_in L _ ic); [|exact Hh].
    apply filter_In. split; [exact Hin | apply Nat.ltb_lt; exact Hlt].
Qed.

Lemma next_count_ge i j cn : (1 <= cn)%Z -> (1 <= next_count i j cn)%Z.
Proof. intros H. unfold next_count. destruct (Nat.eqb j i); lia. Qed.

Lemma step_seg c L p i cn j sn mx sg w :
  w_counter w = c -> L <> [] -> InvB c L p i cn ->
  i <= j -> j <> 0 -> nth_error (kid L) j = Some (NSeg sn) ->
  (pos_at m (L ++ [i]) <= pos_at m (L ++ [j]))%Z ->
  between_skippable m L i j ->
  (forall nL, node_at ns L = Some nL -> wrapper nL = true ->
     forall k n, j < k -> nth_error (kid L) k = Some n -> node_is_loop n = true -> skippable 40 n = true) ->
  used (s_usage sn) = true -> seg_max_repeat sn = Ok mx -> (next_count i j cn <= mx)%Z ->
  seg_is_match d (m_dataele m) sn sg = Ok true -> rival_free m d p L j sg = true ->
  exists c', step_ok m d w p (L ++ [j], sg) (Wc c') /\ counts_step m w (L ++ [j], sg) (Wc c') /\
             InvB c' L (L ++ [j]) j (next_count i j cn) /\
             (forall r n, node_at ns r = Some n -> r <> L ++ [j] -> cnt m c' r = cnt m c r).
Proof.
  intros Hw HLne I Le Hj0 Hj Hpos B Wp U MX Lmx M RF.
  destruct (ib_L _ _ _ _ _ I) as [nL [HL LnL]].
  assert (Ht : node_at ns (L ++ [j]) = Some (NSeg sn)) by (rewrite (node_at_child _ _ _ HL); exact Hj).
  destruct (wf_seg m WF _ _ Ht) as [_ [[xp X] _]].
  set (c' := increment c xp).
  assert (CF : forall r n, node_at ns r = Some n ->
                 cnt m c' r = if nref_eqb r (L ++ [j]) then (cnt m c (L ++ [j]) + 1)%Z else cnt m c r).
  { intros r n Hr. apply (cnt_increment m WF KO c _ _ xp r n Ht X Hr). }
  assert (Cj : (cnt m c (L ++ [j]) + 1)%Z = next_count i j cn).
  { unfold next_count. destruct (Nat.eqb_spec j i) as [->|Hne].
    - rewrite (ib_count _ _ _ _ _ I _ Hj (or_introl eq_refl)). reflexivity.
    - rewrite <- (app_nil_r (L ++ [j])). rewrite (ib_fresh _ _ _ _ _ I j [] (NSeg sn) ltac:(lia)); [reflexivity|].
      rewrite app_nil_r. exact Ht. }
  assert (FR : forall r n, node_at ns r = Some n -> r <> L ++ [j] -> cnt m c' r = cnt m c r).
  { intros r n Hr Hne. rewrite (CF _ _ Hr). apply nref_eqb_neq in Hne. rewrite Hne. reflexivity. }
  exists c'. split; [|split; [|split]].
  - (* the walk *)
    intros sc cl ls. cbn [fst snd]. set (a := mk_args d sg sc cl ls).
    destruct (invb_path _ _ _ _ _ I) as [y [Ep Ex]].
    destruct (ib_p _ _ _ _ _ I) as [snp Hp].
    pose proof (forallb_nomatch sg _ RF) as RF'. unfold rivals in RF'. rewrite Hj, HL in RF'.
    destruct (rivals_up_from L (i :: y) j false ltac:(discriminate) ltac:(intros; reflexivity)) as [R1 R0].
    rewrite <- Ep in R1, R0.
    apply (walk_st_via m WF w p d sg sc cl ls L (i :: y) snp c' (L ++ [j]) Hp Ep ltac:(discriminate)).
    + rewrite Hw. apply (levels_quiet a c L (i :: y) Ex).
      intros k K1 K2 h Hh. apply RF'. apply in_or_app. right. apply (R1 k K1 K2). exact Hh.
    + intros f pop. exists pop, []. rewrite Hw.
      apply (found_seg_at m WF a p (removelast p) L _ c [] j sn xp mx).
      * right. eauto.
      * exact Hj.
      * cbn [firstn]. rewrite (pos_at_child _ _ _ _ HL Hj) in Hpos. exact Hpos.
      * apply (pre_quiet a c L p i cn j y I B).
        intros h Hh. apply RF'. apply in_or_app. right. apply R0. exact Hh.
      * exact M.
      * intros n Hn. rewrite HL in Hn. injection Hn as <-.
        apply (ilm_quiet m WF a c [] [] 40 L nL HL LnL (proj2 (wf_ref _ _ _ WF HL))).
        -- apply (cq_own c L nL p i cn j I HL Le B (ex_intro _ sn Hj) (Wp nL HL)).
        -- intros h Hh. apply RF'. apply in_or_app. left. exact Hh.
      * exact U.
      * exact X.
      * exact MX.
      * change (get_count (increment c xp) xp) with (get_count c' xp).
        assert (E : cnt m c' (L ++ [j]) = get_count c' xp) by (unfold cnt; rewrite X; reflexivity).
        rewrite <- E, (CF _ _ Ht), nref_eqb_refl, Cj. exact Lmx.
  - (* the counts *)
    intros r n Hr. cbn [fst w_counter Wc]. rewrite Hw. unfold upd. rewrite (is_head_snoc L j Hj0).
    apply (CF _ _ Hr).
  - (* the invariant *)
    constructor.
    + exact (ib_L _ _ _ _ _ I).
    + exists sn. exact Ht.
    + exists (NSeg sn). split; [exact Hj|]. left. split; reflexivity.
    + intros k nk K Hk.
      assert (Hkn : node_at ns (L ++ [k]) = Some nk) by (rewrite (node_at_child _ _ _ HL); exact Hk).
      apply (cq_frame m 40 c c' _ _ Hkn).
      * intros x nx Hx. apply (FR _ _ Hx). apply child_ne_sub. lia.
      * exact (invb_cq_before _ _ _ _ _ _ _ _ I B K Hk).
    + intros k x nx K Hx. rewrite (FR _ _ Hx); [|apply child_ne_sub; lia].
      apply (ib_fresh _ _ _ _ _ I k x nx ltac:(lia) Hx).
    + intros ni Hni _. rewrite (CF _ _ Ht), nref_eqb_refl. exact Cj.
    + apply next_count_ge, (ib_cn _ _ _ _ _ I).
    + intros nL' HL' SF. rewrite (FR _ _ HL'); [apply (ib_own _ _ _ _ _ I _ HL' SF)|].
      intros E. apply (f_equal (@length nat)) in E. rewrite app_length in E. cbn [length] in E. lia.
  - exact FR.
Qed.

(* ------------------------------------------------------------------ *)
(* how an instance is entered                                           *)

Definition entry_prem (c0 : node) : Prop :=
  seg_first c0 = true ->
  match c0 with
  | NLoop _ _ _ u _ rep _ => used u = true /\ exists mx, loop_max_repeat rep = Ok mx /\ (1 <= mx)%Z
  | NSeg _ => False
  end.

(* the instance starts z wrappers below C, at the first segment of the seg-first loop C ++ 0^z *)
Inductive shape (sg : seg) : nat -> nref -> node -> Prop :=
| sh_seg C id ty nm u q rep pm s0 rest :
    pm_nodes pm = NSeg s0 :: rest -> seg_is_match d (m_dataele m) s0 sg = Ok true ->
    shape sg 0 C (NLoop id ty nm u q rep pm)
| sh_wrap z W id ty nm u q rep pm c0 rest :
    pm_nodes pm = c0 :: rest -> node_is_loop c0 = true -> entry_prem c0 ->
    shape sg z (W ++ [0]) c0 -> shape sg (S z) W (NLoop id ty nm u q rep pm).

Lemma children_of_node C nC : node_at ns C = Some nC -> children_of m C = node_children nC.
Proof. intros H. unfold children_of. destruct C; [discriminate|]. rewrite H. reflexivity. Qed.

Lemma repeat0_shift (W : nref) z : (W ++ [0]) ++ repeat 0 z = W ++ repeat 0 (S z).
Proof. rewrite <- app_assoc. reflexivity. Qed.

Lemma inst_shape C U :
  conf_inst m d C U -> forall nC, node_at ns C = Some nC ->
  exists z sg U', U = (C ++ repeat 0 (S z), sg) :: U' /\ shape sg z C nC.
Proof.
  intros H.
  induction H using conf_inst_mind with (P0 := fun _ _ _ _ _ => True); try exact Logic.I.
  - intros nC HC. exists 0, sg, body. split; [reflexivity|].
    rewrite (children_of_node _ _ HC) in H0.
    destruct nC as [id ty nm u q rep pm | sx]; [|discriminate]. cbn [node_children] in H0.
    exact (sh_seg sg C id ty nm u q rep pm s0 rest H0 H1).
  - intros nW HW. rewrite (children_of_node _ _ HW) in H0.
    destruct nW as [id ty nm u q rep pm | sx]; [|discriminate]. cbn [node_children] in H0.
    assert (H0' : node_at ns (W ++ [0]) = Some c0).
    { rewrite (node_at_snoc _ _ _ _ HW). cbn [node_children]. rewrite H0. reflexivity. }
    destruct (IHconf_inst c0 H0') as [z [sg [U' [-> Sh]]]].
    exists (S z), sg, (U' ++ body). split.
    + rewrite repeat0_shift. reflexivity.
    + exact (sh_wrap sg z W id ty nm u q rep pm c0 rest H0 H1 H2 Sh).
Qed.

(* the counts after an item at the head t of loop B *)
Definition after_entry (c c2 : counter) (t : nref) : Prop :=
  forall r n, node_at ns r = Some n -> cnt m c2 r = upd t (cnt m c) r.

Lemma removelast_snoc0 (B : nref) : removelast (B ++ [0]) = B.
Proof. apply removelast_last. Qed.

Lemma shape_echain sg z C nC :
  shape sg z C nC -> node_at ns C = Some nC ->
  forall c,
    (seg_first nC = true ->
       match nC with
       | NLoop _ _ _ u _ rep _ =>
           used u = true /\ exists mx, loop_max_repeat rep = Ok mx /\ (cnt m c C + 1 <= mx)%Z
       | NSeg _ => False
       end) ->
    (wrapper nC = true ->
       forall x nx, x <> [] -> node_at ns (C ++ x) = Some nx -> cnt m c (C ++ x) = 0%Z) ->
    exists c2,
      (forall sc cl ls, echain m (mk_args d sg sc cl ls) c c2 z C nC) /\
      after_entry c c2 (C ++ repeat 0 (S z)).
Proof.
  induction 1 as [C id ty nm u q rep pm s0 rest E M | z W id ty nm u q rep pm c0 rest E L0 EP Sh IH];
    intros HC c Top Fresh.
  - assert (SF : seg_first (NLoop id ty nm u q rep pm) = true) by (unfold seg_first; cbn [node_children]; rewrite E; reflexivity).
    destruct (Top SF) as [U [mx [MX Le]]].
    destruct (wf_loop_seg m WF _ _ _ _ _ _ _ _ _ _ HC E) as [_ N].
    destruct (N (proj2 (used_facts _ U))) as [[xC XC] _].
    assert (H0 : node_at ns (C ++ [0]) = Some (NSeg s0)).
    { rewrite (node_at_snoc _ _ _ _ HC). cbn [node_children]. rewrite E. reflexivity. }
    destruct (wf_seg m WF _ _ H0) as [_ [[x0 X0] _]].
    set (c1 := reset_to_node c xC). set (c1' := increment c1 xC). set (c2 := increment c1' x0).
    assert (R1 : forall r n, node_at ns r = Some n -> cnt m c1 r = if strict_prefix_b C r then 0%Z else cnt m c r).
    { intros r n Hr. apply (cnt_reset m WF KO c C _ xC r n HC XC Hr). }
    assert (R2 : forall r n, node_at ns r = Some n ->
                   cnt m c1' r = if nref_eqb r C then (cnt m c1 C + 1)%Z else cnt m c1 r).
    { intros r n Hr. apply (cnt_increment m WF KO c1 C _ xC r n HC XC Hr). }
    assert (R3 : forall r n, node_at ns r = Some n ->
                   cnt m c2 r = if nref_eqb r (C ++ [0]) then (cnt m c1' (C ++ [0%nat]) + 1)%Z else cnt m c1' r).
    { intros r n Hr. apply (cnt_increment m WF KO c1' (C ++ [0]) _ x0 r n H0 X0 Hr). }
    assert (NE : nref_eqb (C ++ [0]) C = false).
    { apply nref_eqb_neq. intros E'. apply (f_equal (@length nat)) in E'. rewrite app_length in E'. cbn [length] in E'. lia. }
    assert (CC : cnt m c1' C = (cnt m c C + 1)%Z).
    { rewrite (R2 _ _ HC), nref_eqb_refl, (R1 _ _ HC), strict_prefix_irrefl. reflexivity. }
    exists c2. split.
    + intros sc cl ls. apply ec_seg. cbn [enter_ok]. exists s0, rest, xC, x0, mx.
      repeat split; try assumption.
      change (get_count (increment (reset_to_node c xC) xC) xC) with (get_count c1' xC).
      assert (Q : cnt m c1' C = get_count c1' xC) by (unfold cnt; rewrite XC; reflexivity).
      rewrite <- Q, CC. exact Le.
    + intros r n Hr. cbn [repeat]. unfold upd.
      assert (Cne : C <> []) by (intros ->; discriminate).
      rewrite (is_head_snoc0 C Cne), removelast_snoc0. cbv zeta.
      rewrite (R3 _ _ Hr).
      destruct (nref_eqb r C) eqn:Q1.
      * apply nref_eqb_eq in Q1. subst r.
        replace (nref_eqb C (C ++ [0])) with false; [exact CC|].
        symmetry. apply nref_eqb_neq. intros E'. apply (f_equal (@length nat)) in E'. rewrite app_length in E'. cbn [length] in E'. lia.
      * destruct (nref_eqb r (C ++ [0])) eqn:Q2.
        -- rewrite (R2 _ _ H0), NE, (R1 _ _ H0), strict_prefix_app. reflexivity.
        -- rewrite (R2 _ _ Hr), Q1, (R1 _ _ Hr). reflexivity.
  - assert (H0 : node_at ns (W ++ [0]) = Some c0).
    { rewrite (node_at_snoc _ _ _ _ HC). cbn [node_children]. rewrite E. reflexivity. }
    assert (WR : wrapper (NLoop id ty nm u q rep pm) = true).
    { unfold wrapper. cbn [node_children]. rewrite E. destruct c0; [reflexivity | discriminate]. }
    specialize (Fresh WR).
    destruct (IH H0 c) as [c2 [EC AE]].
    + intros SF. specialize (EP SF). destruct c0 as [id1 ty1 nm1 u1 q1 rep1 pm1 | sx]; [|exact EP].
      destruct EP as [U [mx [MX Le]]]. split; [exact U|]. exists mx. split; [exact MX|].
      rewrite (Fresh [0] _ ltac:(discriminate) H0). lia.
    + intros _ x nx Hx Hn. rewrite <- app_assoc in *. apply (Fresh _ nx); [discriminate | exact Hn].
    + exists c2. split.
      * intros sc cl ls. exact (ec_wrap m _ c c2 z W id ty nm u q rep pm c0 rest E L0 (EC sc cl ls)).
      * rewrite repeat0_shift in AE. exact AE.
Qed.

(* ------------------------------------------------------------------ *)
(* one more unit: a loop child                                          *)

Lemma wrapper_not_seg_first n : wrapper n = true -> seg_first n = false.
Proof. unfold wrapper, seg_first. destruct (node_children n) as [|[|] ?]; congruence. Qed.

(* the search that goes up to L and enters child j there *)
Lemma step_loop_generic c c2 L p i cn j n z y sg w sc cl ls :
  w_counter w = c -> InvB c L p i cn -> p = L ++ i :: y ->
  (forall k, 0 < k -> k < length (i :: y) ->
     exh c (L ++ firstn k (i :: y)) (pos_at m (L ++ firstn (S k) (i :: y)))) ->
  (forall k, 0 < k -> k < length (i :: y) ->
     scb (L ++ firstn k (i :: y)) (pos_at m (L ++ firstn (S k) (i :: y))) L j true = false) ->
  (forall h, In h (rivals_up m (S (length p)) (removelast p) (pos_at m p) L j true) -> nomatch_b m d sg h = true) ->
  nth_error (kid L) j = Some n -> (pos_at m (L ++ [i]) <= pos_at m (L ++ [j]))%Z ->
  between_skippable m L i j ->
  echain m (mk_args d sg sc cl ls) c c2 z (L ++ [j]) n ->
  exists pop push,
    walk_st m w p d sg sc cl ls = (Wc c2, [], Ok (Some ((L ++ [j]) ++ repeat 0 (S z)), pop, push)).
Proof.
  intros Hw I Ep Ex SC RF' Hj Hpos B EC.
  destruct (ib_L _ _ _ _ _ I) as [nL [HL LnL]]. destruct (ib_p _ _ _ _ _ I) as [snp Hp].
  set (a := mk_args d sg sc cl ls).
  destruct (rivals_up_from L (i :: y) j true ltac:(discriminate) SC) as [R1 R0].
  rewrite <- Ep in R1, R0.
  apply (walk_st_via m WF w p d sg sc cl ls L (i :: y) snp c2 _ Hp Ep ltac:(discriminate)).
  - rewrite Hw. apply (levels_quiet a c L (i :: y) Ex).
    intros k K1 K2 h Hh. apply RF'. apply (R1 k K1 K2). exact Hh.
  - intros f pop. rewrite Hw.
    destruct (found_loop_at m WF a p (removelast p) L (pos_at m (L ++ firstn 1 (i :: y))) c c2 [] j n z) with (f := f) (pop := pop)
      as [push [s1 [G _]]].
    + right. eauto.
    + exact Hj.
    + cbn [firstn]. rewrite (pos_at_child _ _ _ _ HL Hj) in Hpos. exact Hpos.
    + apply (pre_quiet a c L p i cn j y I B). intros h Hh. apply RF'. apply R0. exact Hh.
    + exact EC.
    + exists pop, push. exact G.
Qed.

Lemma shape_seg_first sg z C nC s0 rest :
  shape sg z C nC -> node_children nC = NSeg s0 :: rest -> z = 0.
Proof.
  intros Sh E. destruct Sh as [| z W id ty nm u q rep pm c0 rest' E' L0 _ _]; [reflexivity|].
  cbn [node_children] in E. rewrite E' in E. injection E as -> _. discriminate.
Qed.

Lemma step_loop c L p i cn j n sg z w :
  w_counter w = c -> L <> [] -> InvB c L p i cn ->
  i <= j -> nth_error (kid L) j = Some n -> node_is_loop n = true ->
  (pos_at m (L ++ [i]) <= pos_at m (L ++ [j]))%Z ->
  between_skippable m L i j ->
  (match n with
   | NLoop _ _ _ u _ rep _ =>
       if seg_first n
       then used u = true /\ exists mx, loop_max_repeat rep = Ok mx /\ (next_count i j cn <= mx)%Z
       else i < j
   | NSeg _ => False
   end) ->
  shape sg z (L ++ [j]) n ->
  rival_free m d p L j sg = true ->
  exists c2, step_ok m d w p ((L ++ [j]) ++ repeat 0 (S z), sg) (Wc c2) /\
             after_entry c c2 ((L ++ [j]) ++ repeat 0 (S z)).
Proof.
  intros Hw HLne I Le Hj Ln Hpos B Prem Sh RF.
  destruct (ib_L _ _ _ _ _ I) as [nL [HL LnL]].
  assert (Hn : node_at ns (L ++ [j]) = Some n) by (rewrite (node_at_child _ _ _ HL); exact Hj).
  destruct (shape_echain sg z (L ++ [j]) n Sh Hn c) as [c2 [EC AE]].
  { intros SF. destruct n as [id ty nm u q rep pm | sx]; [|exact Prem]. rewrite SF in Prem.
    destruct Prem as [U [mx [MX Lmx]]]. split; [exact U|]. exists mx. split; [exact MX|].
    replace (cnt m c (L ++ [j]) + 1)%Z with (next_count i j cn); [exact Lmx|].
    unfold next_count. destruct (Nat.eqb_spec j i) as [->|Hne].
    - rewrite (ib_count _ _ _ _ _ I _ Hj (or_intror SF)). reflexivity.
    - rewrite <- (app_nil_r (L ++ [j])). rewrite (ib_fresh _ _ _ _ _ I j [] (NLoop id ty nm u q rep pm) ltac:(lia)); [reflexivity|].
      rewrite app_nil_r. exact Hn. }
  { intros WR x nx Hx Hnx. destruct n as [id ty nm u q rep pm | sx]; [|destruct Prem].
    rewrite (wrapper_not_seg_first _ WR) in Prem. apply (ib_fresh _ _ _ _ _ I j x nx Prem Hnx). }
  exists c2. split; [|exact AE].
  intros sc cl ls. cbn [fst snd].
  pose proof (forallb_nomatch sg _ RF) as RF'. unfold rivals in RF'. rewrite Hj in RF'.
  destruct n as [id ty nm u q rep pm | sx]; [|discriminate].
  destruct (ib_p _ _ _ _ _ I) as [snp Hp].
  destruct (ib_child _ _ _ _ _ I) as [ni [Hi [[Lni Epi] | [Lni [y0 [Hy0 [Epi [Cl [Qi AQ]]]]]]]]].
  - (* the last unit was a segment child *)
    apply (step_loop_generic c c2 L p i cn j (NLoop id ty nm u q rep pm) z [] sg w sc cl ls Hw I Epi); try assumption.
    + intros k K1 K2. cbn [length] in K2. lia.
    + intros k K1 K2. cbn [length] in K2. lia.
    + apply EC.
  - (* the last unit was a loop child *)
    assert (Ep : p = L ++ i :: y0) by (rewrite Epi, <- app_assoc; reflexivity).
    assert (Ex : forall k, 0 < k -> k < length (i :: y0) ->
                   exh c (L ++ firstn k (i :: y0)) (pos_at m (L ++ firstn (S k) (i :: y0)))).
    { destruct (invb_path _ _ _ _ _ I) as [y [Ep' Ex]]. rewrite Ep in Ep'. apply app_inv_head in Ep'.
      injection Ep' as <-. exact Ex. }
    destruct (scb (L ++ [i]) (pos_at m ((L ++ [i]) ++ firstn 1 y0)) L j true) eqn:SC1.
    + (* the loop is found again from inside *)
      unfold scb in SC1. cbn [andb] in SC1. apply andb_true_iff in SC1 as [Eij Cd].
      apply nref_eqb_eq in Eij. apply snoc_inj in Eij. subst i.
      destruct (cands m (L ++ [j]) (pos_at m ((L ++ [j]) ++ firstn 1 y0))) as [|[[|k0] [|s0]] rest] eqn:Ec; try discriminate.
      assert (K0 : node_children (NLoop id ty nm u q rep pm) = NSeg s0 :: skipn 1 (pm_nodes pm)).
      { assert (Hin : In (0, NSeg s0) (cands m (L ++ [j]) (pos_at m ((L ++ [j]) ++ firstn 1 y0)))) by (rewrite Ec; left; reflexivity).
        destruct (in_cands _ _ _ Hin) as [H0 _]. cbn [fst snd] in H0. rewrite (children_of_node _ _ Hn) in H0.
        cbn [node_children] in *. destruct (pm_nodes pm); [discriminate|]. injection H0 as ->. reflexivity. }
      pose proof (shape_seg_first _ _ _ _ _ _ Sh K0) as ->.
      assert (Cne : L ++ [j] <> []) by apply snoc_not_nil.
      assert (Hol : exists no, node_at ns (removelast p) = Some no).
      { destruct (node_at_removelast _ _ _ Hp) as [E0 | [q0 [Hq _]]]; [|eauto].
        exfalso. rewrite Epi in E0. destruct (exists_last Hy0) as [y1 [x1 Ey]]. rewrite Ey, app_assoc, removelast_last in E0.
        apply app_eq_nil in E0 as [E0 _]. exact (Cne E0). }
      destruct Hol as [no Hol].
      apply (walk_st_via m WF w p d sg sc cl ls (L ++ [j]) y0 snp c2 _ Hp Epi Hy0).
      * rewrite Hw. apply (levels_quiet (mk_args d sg sc cl ls) c (L ++ [j]) y0).
        -- intros k K1 K2. apply Cl. exact K2.
        -- intros k K1 K2 h Hh. apply RF'.
           pose proof (rivals_up_level L (j :: y0) j true ltac:(discriminate) (length (j :: y0) - 1) ltac:(cbn [length]; lia)
                         (S k) ltac:(lia) ltac:(cbn [length]; lia)) as Inc.
           cbv beta zeta in Inc.
           assert (SCk : forall k', S k <= k' -> k' <= length (j :: y0) - 1 ->
                         scb (L ++ firstn k' (j :: y0)) (pos_at m (L ++ firstn (S k') (j :: y0))) L j true = false).
           { intros k' A A'. apply (scb_level L (j :: y0) j true); [lia | cbn [length] in *; lia]. }
           specialize (Inc SCk (S (length p)) ltac:(rewrite Ep, app_length; cbn [length]; lia)).
           assert (E1 : L ++ firstn (length (j :: y0) - 1) (j :: y0) = removelast p).
           { rewrite Ep. rewrite <- (removelast_app_firstn L (j :: y0) (length (j :: y0) - 1)) by (cbn [length]; lia).
             replace (S (length (j :: y0) - 1)) with (length (j :: y0)) by (cbn [length]; lia). rewrite firstn_all. reflexivity. }
           assert (E2 : L ++ firstn (S (length (j :: y0) - 1)) (j :: y0) = p).
           { replace (S (length (j :: y0) - 1)) with (length (j :: y0)) by (cbn [length]; lia). rewrite firstn_all. symmetry. exact Ep. }
           rewrite E1, E2 in Inc. apply Inc.
           change (firstn (S k) (j :: y0)) with (j :: firstn k y0).
           change (firstn (S (S k)) (j :: y0)) with (j :: firstn (S k) y0).
           replace (L ++ j :: firstn k y0) with ((L ++ [j]) ++ firstn k y0) by (rewrite <- app_assoc; reflexivity).
           replace (L ++ j :: firstn (S k) y0) with ((L ++ [j]) ++ firstn (S k) y0) by (rewrite <- app_assoc; reflexivity).
           exact Hh.
      * intros f pop. rewrite Hw.
        destruct (found_restart_at m WF (mk_args d sg sc cl ls) p (removelast p) (L ++ [j]) _ c c2 [] _ s0 rest no snp Cne Hn Ec Hol Hp AQ (EC sc cl ls) f pop)
          as [pop' [push G]].
        exists pop', push. exact G.
    + (* the loop is found from L *)
      apply (step_loop_generic c c2 L p i cn j (NLoop id ty nm u q rep pm) z y0 sg w sc cl ls Hw I Ep Ex); try assumption; [|apply EC].
      * intros k K1 K2. destruct k as [|[|k]]; [lia | |].
        -- change (firstn 1 (i :: y0)) with [i]. change (firstn 2 (i :: y0)) with (i :: firstn 1 y0).
           replace (L ++ i :: firstn 1 y0) with ((L ++ [i]) ++ firstn 1 y0) by (rewrite <- app_assoc; reflexivity).
           exact SC1.
        -- apply (scb_level L (i :: y0) j true); lia.
Qed.

(* ------------------------------------------------------------------ *)
(* after the entry                                                      *)

(* the state in which the instance of C has just been entered z wrappers down *)
Definition PreInst (c : counter) (C : nref) (z : nat) : Prop :=
  cnt m c (C ++ repeat 0 (S z)) = 1%Z /\ (1 <= cnt m c (C ++ repeat 0%nat z))%Z /\
  (0 < z -> cnt m c (C ++ repeat 0 z) = 1%Z) /\
  forall r n, node_at ns r = Some n -> strict_prefix_b C r = true -> r <> C ++ repeat 0 (S z) ->
              (forall k, k <= z -> r <> C ++ repeat 0 k) -> cnt m c r = 0%Z.

(* what an instance of C leaves: the last item is below C and every loop from there up to C can be left *)
Definition PostInst (c : counter) (C : nref) (nC : node) (p : nref) : Prop :=
  vseg p /\ exists y, y <> [] /\ p = C ++ y /\ closed c C y /\ cq m 40 c C nC /\ allq m c C.

Lemma shape_valid sg z C nC :
  shape sg z C nC -> node_at ns C = Some nC ->
  (exists nB, node_at ns (C ++ repeat 0 z) = Some nB /\ seg_first nB = true /\ node_is_loop nB = true) /\
  vseg (C ++ repeat 0 (S z)).
Proof.
  induction 1 as [C id ty nm u q rep pm s0 rest E M | z W id ty nm u q rep pm c0 rest E L0 EP Sh IH]; intros HC.
  - cbn [repeat]. rewrite app_nil_r. split.
    + eexists. split; [exact HC|]. split; [|reflexivity]. unfold seg_first. cbn [node_children]. rewrite E. reflexivity.
    + exists s0. rewrite (node_at_snoc _ _ _ _ HC). cbn [node_children]. rewrite E. reflexivity.
  - assert (H0 : node_at ns (W ++ [0]) = Some c0).
    { rewrite (node_at_snoc _ _ _ _ HC). cbn [node_children]. rewrite E. reflexivity. }
    destruct (IH H0) as [A B]. rewrite !repeat0_shift in *. split; assumption.
Qed.

Lemma len_ne (a b : nref) : length a <> length b -> a <> b.
Proof. intros H E. apply H. rewrite E. reflexivity. Qed.

Lemma strict_prefix_trans a b c : strict_prefix_b a b = true -> strict_prefix_b b c = true -> strict_prefix_b a c = true.
Proof.
  intros H1 H2. apply strict_prefix_inv in H1 as [x [y ->]]. apply strict_prefix_inv in H2 as [x' [y' ->]].
  rewrite <- app_assoc. cbn [app]. apply strict_prefix_app.
Qed.

Lemma strict_prefix_len a b : strict_prefix_b a b = true -> length a < length b.
Proof. intros H. apply strict_prefix_inv in H as [x [y ->]]. rewrite app_length. cbn [length]. lia. Qed.

(* below C ++ 0^z means below C *)
Lemma below_chain C z r : strict_prefix_b (C ++ repeat 0 z) r = true -> strict_prefix_b C r = true.
Proof.
  intros H. apply strict_prefix_inv in H as [x [y ->]]. rewrite <- app_assoc.
  destruct (repeat 0 z ++ x :: y) eqn:E; [destruct (repeat 0 z); discriminate|]. apply strict_prefix_app.
Qed.

Lemma is_head_chain C z : C <> [] -> is_head (C ++ repeat 0 (S z)) = true /\ removelast (C ++ repeat 0 (S z)) = C ++ repeat 0 z.
Proof.
  intros HC. rewrite repeat_snoc, app_assoc. split; [|apply removelast_last].
  apply is_head_snoc0. intros E. apply app_eq_nil in E as [E _]. exact (HC E).
Qed.

(* the entry does not touch what is neither C nor below C *)
Lemma ae_frame c c2 C z :
  C <> [] -> after_entry c c2 (C ++ repeat 0 (S z)) ->
  forall r n, node_at ns r = Some n -> r <> C -> strict_prefix_b C r = false -> cnt m c2 r = cnt m c r.
Proof.
  intros HC AE r n Hr Hne Hnb. rewrite (AE _ _ Hr). unfold upd.
  destruct (is_head_chain C z HC) as [-> ->]. cbv zeta.
  assert (NB : strict_prefix_b (C ++ repeat 0 z) r = false).
  { destruct (strict_prefix_b (C ++ repeat 0 z) r) eqn:E; [|reflexivity]. rewrite (below_chain _ _ _ E) in Hnb. discriminate. }
  assert (N1 : nref_eqb r (C ++ repeat 0 z) = false).
  { apply nref_eqb_neq. intros ->. destruct z as [|z]; [cbn [repeat] in Hne; rewrite app_nil_r in Hne; congruence|].
    cbn [repeat] in Hnb. rewrite strict_prefix_app in Hnb. discriminate. }
  assert (N2 : nref_eqb r (C ++ repeat 0 (S z)) = false).
  { apply nref_eqb_neq. intros ->. cbn [repeat] in Hnb. rewrite strict_prefix_app in Hnb. discriminate. }
  rewrite N1, N2, NB. reflexivity.
Qed.

Lemma ae_values c c2 C z nB nt :
  C <> [] -> after_entry c c2 (C ++ repeat 0 (S z)) ->
  node_at ns (C ++ repeat 0 z) = Some nB -> node_at ns (C ++ repeat 0 (S z)) = Some nt ->
  cnt m c2 (C ++ repeat 0 z) = (cnt m c (C ++ repeat 0%nat z) + 1)%Z /\ cnt m c2 (C ++ repeat 0 (S z)) = 1%Z /\
  forall r n, node_at ns r = Some n -> r <> C ++ repeat 0 z -> r <> C ++ repeat 0 (S z) ->
              cnt m c2 r = if strict_prefix_b (C ++ repeat 0 z) r then 0%Z else cnt m c r.
Proof.
  intros HC AE HB Ht.
  assert (NE : nref_eqb (C ++ repeat 0 (S z)) (C ++ repeat 0 z) = false).
  { apply nref_eqb_neq, len_ne. rewrite !app_length, !repeat_length. lia. }
  split; [|split].
  - rewrite (AE _ _ HB). unfold upd. destruct (is_head_chain C z HC) as [-> ->]. cbv zeta. rewrite nref_eqb_refl. reflexivity.
  - rewrite (AE _ _ Ht). unfold upd. destruct (is_head_chain C z HC) as [-> ->]. cbv zeta. rewrite NE, nref_eqb_refl. reflexivity.
  - intros r n Hr N1 N2. rewrite (AE _ _ Hr). unfold upd. destruct (is_head_chain C z HC) as [-> ->]. cbv zeta.
    apply nref_eqb_neq in N1, N2. rewrite N1, N2. reflexivity.
Qed.

Lemma pre_inst_of c c2 L p i cn j n sg z :
  InvB c L p i cn -> i <= j -> nth_error (kid L) j = Some n ->
  (match n with
   | NLoop _ _ _ u _ rep _ =>
       if seg_first n
       then used u = true /\ exists mx, loop_max_repeat rep = Ok mx /\ (next_count i j cn <= mx)%Z
       else i < j
   | NSeg _ => False
   end) ->
  shape sg z (L ++ [j]) n -> after_entry c c2 ((L ++ [j]) ++ repeat 0 (S z)) ->
  PreInst c2 (L ++ [j]) z /\
  (seg_first n = true -> cnt m c2 (L ++ [j]) = next_count i j cn).
Proof.
  intros I Le Hj Prem Sh AE.
  destruct (ib_L _ _ _ _ _ I) as [nL [HL LnL]].
  assert (Hn : node_at ns (L ++ [j]) = Some n) by (rewrite (node_at_child _ _ _ HL); exact Hj).
  assert (Cne : L ++ [j] <> []) by apply snoc_not_nil.
  destruct (shape_valid _ _ _ _ Sh Hn) as [[nB [HB [SFB LB]]] [st Ht]].
  destruct (ae_values c c2 (L ++ [j]) z nB _ Cne AE HB Ht) as [VB [Vt Vr]].
  (* the count of the bottom loop before the entry *)
  assert (CB : (z = 0 /\ (cnt m c (L ++ [j]) + 1)%Z = next_count i j cn) \/ (0 < z /\ cnt m c ((L ++ [j]) ++ repeat 0 z) = 0%Z /\ i < j)).
  { destruct z as [|z].
    - left. split; [reflexivity|]. cbn [repeat] in HB. rewrite app_nil_r in HB. rewrite Hn in HB. injection HB as <-.
      unfold next_count. destruct (Nat.eqb_spec j i) as [->|Hne].
      + rewrite (ib_count _ _ _ _ _ I _ Hj (or_intror SFB)). reflexivity.
      + rewrite <- (app_nil_r (L ++ [j])). rewrite (ib_fresh _ _ _ _ _ I j [] n ltac:(lia)); [reflexivity|].
        rewrite app_nil_r. exact Hn.
    - right. split; [lia|].
      assert (Lt : i < j).
      { inversion Sh as [|z' W id ty nm u q rep pm c0 rest E L0 EP Sh' Ez EW En]; subst.
        replace (seg_first (NLoop id ty nm u q rep pm)) with false in Prem; [exact Prem|].
        unfold seg_first. cbn [node_children]. rewrite E. destruct c0; [reflexivity | discriminate]. }
      split; [|exact Lt]. apply (ib_fresh _ _ _ _ _ I j _ nB Lt HB). }
  split.
  - split; [exact Vt|]. split; [|split].
    + rewrite VB. destruct CB as [[-> E] | [_ [E _]]].
      * cbn [repeat]. rewrite app_nil_r. rewrite E. apply next_count_ge, (ib_cn _ _ _ _ _ I).
      * rewrite E. lia.
    + intros Hz. rewrite VB. destruct CB as [[-> _] | [_ [E _]]]; [lia|]. rewrite E. reflexivity.
    + intros r nr Hr SP N1 N2. rewrite (Vr _ _ Hr (N2 z (le_n z)) N1).
      destruct (strict_prefix_b ((L ++ [j]) ++ repeat 0 z) r) eqn:E; [reflexivity|].
      destruct CB as [[-> _] | [_ [_ Lt]]].
      * cbn [repeat] in E. rewrite app_nil_r in E. congruence.
      * apply strict_prefix_inv in SP as [x [y ->]]. apply (ib_fresh _ _ _ _ _ I j (x :: y) nr Lt Hr).
  - intros SF. destruct (shape_valid _ _ _ _ Sh Hn) as [_ _].
    assert (z = 0) as ->.
    { destruct n as [id ty nm u q rep pm | sx]; [|discriminate]. unfold seg_first in SF. cbn [node_children] in SF.
      destruct (pm_nodes pm) as [|[|s0] rest] eqn:E; try discriminate.
      apply (shape_seg_first _ _ _ _ s0 rest Sh). cbn [node_children]. exact E. }
    cbn [repeat] in VB. rewrite app_nil_r in VB. rewrite VB.
    destruct CB as [[_ E] | [Hz _]]; [exact E | lia].
Qed.

Lemma pre_inst_down c W z : PreInst c W (S z) -> PreInst c (W ++ [0]) z.
Proof.
  intros [A [B [C0 D]]]. unfold PreInst. rewrite !repeat0_shift. split; [exact A|]. split; [|split].
  - rewrite (C0 ltac:(lia)). lia.
  - intros _. apply C0. lia.
  - intros r n Hr SP N1 N2. apply (D r n Hr).
    + apply strict_prefix_inv in SP as [x [y ->]]. rewrite <- app_assoc. apply strict_prefix_app.
    + exact N1.
    + intros k K. destruct k as [|k].
      * cbn [repeat]. rewrite app_nil_r. intros ->. apply strict_prefix_len in SP. rewrite app_length in SP. cbn [length] in SP. lia.
      * rewrite <- repeat0_shift. apply N2. lia.
Qed.

(* the instance of a seg-first loop has been entered: the invariant of its body *)
Lemma preinst_invb c C nC s0 rest :
  node_at ns C = Some nC -> node_children nC = NSeg s0 :: rest -> PreInst c C 0 -> InvB c C (C ++ [0]) 0 1.
Proof.
  intros HC E [A [B [_ D]]]. cbn [repeat] in A, B. rewrite app_nil_r in B.
  assert (K : kid C = NSeg s0 :: rest) by (rewrite (children_of_node _ _ HC); exact E).
  assert (H0 : node_at ns (C ++ [0]) = Some (NSeg s0)) by (rewrite (node_at_child _ _ _ HC), K; reflexivity).
  constructor.
  - exists nC. split; [exact HC|]. destruct nC; [reflexivity | discriminate].
  - exists s0. exact H0.
  - exists (NSeg s0). split; [rewrite K; reflexivity|]. left. split; reflexivity.
  - intros k nk Hk. lia.
  - intros k x nx Hk Hx. apply (D _ _ Hx).
    + rewrite <- app_assoc. apply strict_prefix_app.
    + cbn [repeat]. apply child_ne_sub. lia.
    + intros k' K'. assert (k' = 0) as -> by lia. cbn [repeat]. rewrite app_nil_r.
      apply len_ne. rewrite !app_length. cbn [length]. lia.
  - intros ni Hni _. exact A.
  - lia.
  - intros nL HL _. exact B.
Qed.

(* leaving: the invariant of a finished body closes the loop *)
Lemma close_body c L p i cn nL :
  InvB c L p i cn -> rest_skippable m L i -> node_at ns L = Some nL -> PostInst c L nL p.
Proof.
  intros I RS HL. split; [exact (ib_p _ _ _ _ _ I)|].
  destruct (invb_path _ _ _ _ _ I) as [y [Ep Ex]].
  assert (Qall : forall k nk, nth_error (kid L) k = Some nk -> cq m 40 c (L ++ [k]) nk).
  { intros k nk Hk. destruct (lt_eq_lt_dec k i) as [[K|K]|K].
    - exact (ib_passed _ _ _ _ _ I _ _ K Hk).
    - subst k. exact (invb_cq_i _ _ _ _ _ _ I Hk).
    - apply skippable_cq. exact (RS _ _ K Hk). }
  exists (i :: y). split; [discriminate|]. split; [exact Ep|]. split; [|split; [|exact Qall]].
  - intros k K. destruct k as [|k].
    + cbn [firstn]. rewrite app_nil_r. intros ic Hin. apply Qall. apply (in_cands _ _ _ Hin).
    + apply Ex; [lia | exact K].
  - assert (KL : kid L = node_children nL) by apply (children_of_node _ _ HL).
    destruct (wf_ref _ _ _ WF HL) as [_ D].
    destruct nL as [id ty nm u q rep pm | sx]; [|cbn [cq]; destruct (ib_L _ _ _ _ _ I) as [n' [Hn' Ln']]; rewrite HL in Hn'; injection Hn' as <-; discriminate].
    cbn [node_children] in KL.
    change (forallb (depth_ok 39) (pm_nodes pm) = true) in D. rewrite forallb_forall in D.
    change (cq m 40 c L (NLoop id ty nm u q rep pm)) with
      (match pm_nodes pm with
       | [] => True
       | NSeg _ :: _ => usage_is u "R" = true -> (1 <= cnt m c L)%Z
       | NLoop _ _ _ _ _ _ _ :: _ =>
           forall i ch, nth_error (pm_nodes pm) i = Some ch -> node_is_loop ch = true -> cq m 39 c (L ++ [i]) ch
       end).
    destruct (pm_nodes pm) as [|[id1 ty1 nm1 u1 q1 rep1 pm1 | s0] rest] eqn:E; [constructor | |].
    + intros k ch Hk Lk. rewrite <- KL in Hk.
      apply (cq_fuel m 39 c _ _ (D _ ltac:(rewrite <- KL; apply (nth_error_In _ _ Hk)))). exact (Qall _ _ Hk).
    + intros _. apply (ib_own _ _ _ _ _ I _ HL). unfold seg_first. cbn [node_children]. rewrite E. reflexivity.
Qed.

(* ------------------------------------------------------------------ *)
(* runs                                                                 *)

Lemma run_app w p U w1 V w2 :
  run m d w p U w1 -> run m d w1 (last_ref U p) V w2 -> run m d w p (U ++ V) w2.
Proof.
  induction 1 as [w p | w p it w1' rest w' S1 S2 R IH]; intros RV.
  - exact RV.
  - cbn [app]. apply (run_cons m d w p it w1' (rest ++ V) w2 S1 S2). apply IH. rewrite last_ref_cons in RV. exact RV.
Qed.

Lemma last_ref_app2 U V dflt : last_ref (U ++ V) dflt = last_ref V (last_ref U dflt).
Proof.
  revert dflt. induction U as [|it U IH]; intros dflt; [reflexivity|].
  cbn [app]. rewrite !last_ref_cons. apply IH.
Qed.

(* ------------------------------------------------------------------ *)
(* the induction                                                        *)

Lemma sibling_not_below (L : nref) (k j : nat) (x : list nat) : k <> j -> strict_prefix_b (L ++ [j]) ((L ++ [k]) ++ x) = false.
Proof.
  intros H. destruct (strict_prefix_b (L ++ [j]) ((L ++ [k]) ++ x)) eqn:E; [|reflexivity].
  apply strict_prefix_inv in E as [a [b E]]. rewrite <- !app_assoc in E. apply app_inv_head in E. cbn [app] in E. congruence.
Qed.

Lemma sibling_ne (L : nref) (k j : nat) (x y : list nat) : k <> j -> (L ++ [k]) ++ x <> (L ++ [j]) ++ y.
Proof. intros H E. rewrite <- !app_assoc in E. apply app_inv_head in E. cbn [app] in E. congruence. Qed.

Lemma not_below_shorter (a b : nref) : length b <= length a -> strict_prefix_b a b = false.
Proof.
  intros H. destruct (strict_prefix_b a b) eqn:E; [|reflexivity]. apply strict_prefix_len in E. lia.
Qed.

Definition P_inst (C : nref) (U : list item) : Prop :=
  forall nC z sg U', node_at ns C = Some nC -> U = (C ++ repeat 0 (S z), sg) :: U' -> shape sg z C nC ->
  forall w, PreInst (w_counter w) C z ->
  exists w', run m d w (C ++ repeat 0 (S z)) U' w' /\
             PostInst (w_counter w') C nC (last_ref U' (C ++ repeat 0 (S z))) /\
             (forall r n, node_at ns r = Some n -> strict_prefix_b C r = false ->
                          cnt m (w_counter w') r = cnt m (w_counter w) r).

Definition P_body (L p : nref) (i : nat) (cn : Z) (B : list item) : Prop :=
  forall w, L <> [] -> InvB (w_counter w) L p i cn ->
  exists w' i' cn', run m d w p B w' /\ InvB (w_counter w') L (last_ref B p) i' cn' /\ rest_skippable m L i' /\
             (forall r n, node_at ns r = Some n -> strict_prefix_b L r = false ->
                          cnt m (w_counter w') r = cnt m (w_counter w) r).

Lemma repeat0_one z : [0] = repeat 0 (S z) -> z = 0.
Proof. destruct z; [reflexivity | discriminate]. Qed.

Theorem conf_run :
  (forall C U, conf_inst m d C U -> P_inst C U) /\
  (forall L p i cn B, conf_body m d L p i cn B -> P_body L p i cn B).
Proof.
  apply conf_mutind.
  - (* CI_seg *)
    intros C s0 rest sg body HCne HK M Hbody IHbody nC z sg' U' HC EU Sh w PI.
    injection EU as Et <- <-. apply app_inv_head in Et. apply repeat0_one in Et. subst z.
    assert (K : node_children nC = NSeg s0 :: rest) by (rewrite <- (children_of_node _ _ HC); exact HK).
    pose proof (preinst_invb _ _ _ _ _ HC K PI) as I.
    destruct (IHbody w HCne I) as [w' [i' [cn' [R [I' [RS FR]]]]]].
    exists w'. split; [exact R|]. split; [|exact FR].
    exact (close_body _ _ _ _ _ _ I' RS HC).
  - (* CI_wrap *)
    intros W c0 rest U0 body HWne HK L0 EP Hinst IHinst Hbody IHbody nW z sg U' HW EU Sh w PI.
    assert (H0 : node_at ns (W ++ [0]) = Some c0) by (rewrite (node_at_child _ _ _ HW), HK; reflexivity).
    destruct (inst_shape _ _ Hinst c0 H0) as [z0 [sg0 [U0' [EU0 Sh0]]]]. subst U0.
    cbn [app] in EU. injection EU as Et -> <-.
    assert (z = S z0) as ->.
    { apply (f_equal (@length nat)) in Et. rewrite !app_length in Et. cbn [length] in Et. rewrite !repeat_length in Et. lia. }
    pose proof (pre_inst_down _ _ _ PI) as PI0.
    destruct (IHinst c0 z0 sg U0' H0 eq_refl Sh0 w PI0) as [w1 [R1 [[VP [y [Hy [Ey [Cl [Q AQ]]]]]] FR1]]].
    rewrite last_ref_cons in IHbody. cbn [fst] in IHbody.
    assert (KW : kid W = c0 :: rest) by exact HK.
    assert (I : InvB (w_counter w1) W (last_ref U0' ((W ++ [0]) ++ repeat 0 (S z0))) 0 1).
    { destruct PI as [A [B [C0 D]]]. constructor.
      - exists nW. split; [exact HW|]. destruct nW; [reflexivity|].
        rewrite (children_of_node _ _ HW) in KW. discriminate.
      - exact VP.
      - exists c0. split; [rewrite KW; reflexivity|]. right. split; [exact L0|]. exists y. repeat split; assumption.
      - intros k nk Hk. lia.
      - intros k x nx Hk Hx. rewrite (FR1 _ _ Hx (sibling_not_below W k 0 x ltac:(lia))).
        apply (D _ _ Hx).
        + rewrite <- app_assoc. apply strict_prefix_app.
        + intros E. rewrite <- repeat0_shift in E. revert E. apply sibling_ne. lia.
        + intros k' K' E. destruct k' as [|k'].
          * cbn [repeat] in E. rewrite app_nil_r in E. apply (f_equal (@length nat)) in E. rewrite !app_length in E. cbn [length] in E. lia.
          * rewrite <- repeat0_shift in E. revert E. apply sibling_ne. lia.
      - intros ni Hni [Ln|SF]; rewrite KW in Hni; injection Hni as <-; [congruence|].
        rewrite (FR1 _ _ H0 (strict_prefix_irrefl _)).
        assert (z0 = 0) as ->.
        { destruct c0 as [id ty nm u q rep pm | sx]; [|discriminate]. unfold seg_first in SF. cbn [node_children] in SF.
          destruct (pm_nodes pm) as [|[|s0] rest0] eqn:E; try discriminate.
          apply (shape_seg_first _ _ _ _ s0 rest0 Sh0). cbn [node_children]. exact E. }
        rewrite <- (C0 ltac:(lia)). reflexivity.
      - lia.
      - intros nL HL SF. rewrite HW in HL. injection HL as <-. exfalso.
        rewrite (children_of_node _ _ HW) in KW. unfold seg_first in SF. rewrite KW in SF. destruct c0; discriminate. }
    destruct (IHbody w1 HWne I) as [w' [i' [cn' [R2 [I' [RS FR2]]]]]].
    exists w'. split; [|split].
    + rewrite <- repeat0_shift. exact (run_app _ _ _ _ _ _ R1 R2).
    + rewrite <- repeat0_shift, last_ref_app2. exact (close_body _ _ _ _ _ _ I' RS HW).
    + intros r n Hr NB. rewrite (FR2 _ _ Hr NB). apply (FR1 _ _ Hr).
      destruct (strict_prefix_b (W ++ [0]) r) eqn:E; [|reflexivity].
      apply strict_prefix_inv in E as [a [b ->]]. rewrite <- app_assoc in NB. cbn [app] in NB.
      rewrite strict_prefix_app in NB. discriminate.
  - (* CB_end *)
    intros L p i cn RS w HL I. exists w, i, cn. split; [apply run_nil|]. split; [exact I|]. split; [exact RS|]. reflexivity.
  - (* CB_seg *)
    intros L p i cn j sn mx sg body Le Hj0 Hj Hpos B Wp U MX Lmx M RF Hbody IHbody w HL I.
    destruct (step_seg (w_counter w) L p i cn j sn mx sg w eq_refl HL I Le Hj0 Hj Hpos B Wp U MX Lmx M RF)
      as [c' [SO [CS [I' FR]]]].
    destruct (IHbody (Wc c') HL I') as [w' [i' [cn' [R [I'' [RS FR']]]]]].
    exists w', i', cn'. split; [|split; [|split]].
    + exact (run_cons m d w p (L ++ [j], sg) (Wc c') body w' SO CS R).
    + rewrite last_ref_cons. exact I''.
    + exact RS.
    + intros r n Hr NB. rewrite (FR' _ _ Hr NB). apply (FR _ _ Hr).
      intros ->. rewrite strict_prefix_app in NB. discriminate.
  - (* CB_loop *)
    intros L p i cn j n t sg U' body Le Hj Ln Hpos B Prem Hinst IHinst RF Hbody IHbody w HL I.
    destruct (ib_L _ _ _ _ _ I) as [nL [HLv LnL]].
    assert (Hn : node_at ns (L ++ [j]) = Some n) by (rewrite (node_at_child _ _ _ HLv); exact Hj).
    destruct (inst_shape _ _ Hinst n Hn) as [z [sg' [U'' [EU Sh]]]]. injection EU as -> <- <-.
    destruct (step_loop (w_counter w) L p i cn j n sg z w eq_refl HL I Le Hj Ln Hpos B Prem Sh RF) as [c2 [SO AE]].
    destruct (pre_inst_of _ _ _ _ _ _ _ _ _ _ I Le Hj Prem Sh AE) as [PI Cnt].
    destruct (IHinst n z sg U' Hn eq_refl Sh (Wc c2) PI) as [w1 [R1 [[VP [y [Hy [Ey [Cl [Q AQ]]]]]] FR1]]].
    rewrite last_ref_cons in IHbody. cbn [fst] in IHbody.
    assert (Cne : L ++ [j] <> []) by apply snoc_not_nil.
    assert (F : forall r nr, node_at ns r = Some nr -> r <> L ++ [j] -> strict_prefix_b (L ++ [j]) r = false ->
                  cnt m (w_counter w1) r = cnt m (w_counter w) r).
    { intros r nr Hr N1 N2. rewrite (FR1 _ _ Hr N2). exact (ae_frame _ _ _ _ Cne AE r nr Hr N1 N2). }
    assert (I1 : InvB (w_counter w1) L (last_ref U' ((L ++ [j]) ++ repeat 0 (S z))) j (next_count i j cn)).
    { constructor.
      - exact (ib_L _ _ _ _ _ I).
      - exact VP.
      - exists n. split; [exact Hj|]. right. split; [exact Ln|]. exists y. repeat split; assumption.
      - intros k nk K Hk.
        assert (Hkn : node_at ns (L ++ [k]) = Some nk) by (rewrite (node_at_child _ _ _ HLv); exact Hk).
        apply (cq_frame m 40 (w_counter w) (w_counter w1) _ _ Hkn).
        + intros x nx Hx. apply (F _ _ Hx); [apply child_ne_sub; lia | apply sibling_not_below; lia].
        + exact (invb_cq_before _ _ _ _ _ _ _ _ I B K Hk).
      - intros k x nx K Hx. rewrite (F _ _ Hx); [|apply child_ne_sub; lia | apply sibling_not_below; lia].
        apply (ib_fresh _ _ _ _ _ I k x nx ltac:(lia) Hx).
      - intros ni Hni [Lf|SF]; rewrite Hj in Hni; injection Hni as <-; [congruence|].
        rewrite (FR1 _ _ Hn (strict_prefix_irrefl _)). exact (Cnt SF).
      - apply next_count_ge, (ib_cn _ _ _ _ _ I).
      - intros nL' HL' SF. rewrite (F _ _ HL').
        + exact (ib_own _ _ _ _ _ I _ HL' SF).
        + apply len_ne. rewrite app_length. cbn [length]. lia.
        + apply not_below_shorter. rewrite app_length. cbn [length]. lia. }
    destruct (IHbody w1 HL I1) as [w' [i' [cn' [R2 [I'' [RS FR2]]]]]].
    exists w', i', cn'. split; [|split; [|split]].
    + cbn [app]. apply (run_cons m d w p ((L ++ [j]) ++ repeat 0 (S z), sg) (Wc c2) (U' ++ body) w' SO).
      * exact AE.
      * exact (run_app _ _ _ _ _ _ R1 R2).
    + cbn [app]. rewrite last_ref_cons, last_ref_app2. exact I''.
    + exact RS.
    + intros r nr Hr NB. rewrite (FR2 _ _ Hr NB). apply (F _ _ Hr).
      * intros ->. rewrite strict_prefix_app in NB. discriminate.
      * destruct (strict_prefix_b (L ++ [j]) r) eqn:E; [|reflexivity].
        apply strict_prefix_inv in E as [a [b ->]]. rewrite <- app_assoc in NB. cbn [app] in NB.
        rewrite strict_prefix_app in NB. discriminate.
Qed.

(* ------------------------------------------------------------------ *)
(* the predicted counts                                                 *)

Definition agree (f g : nref -> Z) : Prop := forall r n, node_at ns r = Some n -> f r = g r.

Lemma upd_ext t f g : agree f g -> agree (upd t f) (upd t g).
Proof.
  intros A r n Hr. unfold upd. destruct (is_head t).
  - cbv zeta. destruct (nref_eqb r (removelast t)) eqn:E1.
    + apply nref_eqb_eq in E1. subst r. rewrite (A _ _ Hr). reflexivity.
    + destruct (nref_eqb r t); [reflexivity|]. destruct (strict_prefix_b (removelast t) r); [reflexivity|]. exact (A _ _ Hr).
  - destruct (nref_eqb r t) eqn:E1.
    + apply nref_eqb_eq in E1. subst r. rewrite (A _ _ Hr). reflexivity.
    + exact (A _ _ Hr).
Qed.

Lemma predicted_ext items : forall f g, agree f g -> agree (predicted items f) (predicted items g).
Proof.
  induction items as [|it items IH]; intros f g A; [exact A|].
  unfold predicted. cbn [fold_left]. apply IH. apply upd_ext. exact A.
Qed.

Lemma run_predicted w p items w' :
  run m d w p items w' -> agree (cnt m (w_counter w')) (predicted items (cnt m (w_counter w))).
Proof.
  induction 1 as [w p | w p it w1 rest w' S1 S2 R IH].
  - intros r n Hr. reflexivity.
  - intros r n Hr. rewrite (IH r n Hr). unfold predicted. cbn [fold_left].
    apply (predicted_ext rest _ _ S2 r n Hr).
Qed.

(* ------------------------------------------------------------------ *)
(* THE THEOREMS                                                         *)

(* every step of a run finds its node and reports nothing: in particular no seg_error *)
Lemma run_no_error w p items w' :
  run m d w p items w' ->
  forall pre it post, items = pre ++ it :: post ->
  exists wk wk', forall sc cl ls, exists pop push,
    walk_st m wk (last_ref pre p) d (snd it) sc cl ls = (wk', [], Ok (Some (fst it), pop, push)).
Proof.
  induction 1 as [w p | w p it0 w1 rest w' S1 S2 R IH]; intros pre it post E.
  - destruct pre; discriminate.
  - destruct pre as [|x pre].
    + cbn [app] in E. injection E as <- <-. exists w, w1. exact S1.
    + cbn [app] in E. injection E as <- ->. destruct (IH pre it post eq_refl) as [wk [wk' H]].
      exists wk, wk'. rewrite last_ref_cons. exact H.
Qed.

(* An instance of a seg-first loop C: once the walker has found the first segment of the instance (state
   `opened`), it finds every further item of the instance at its node, reports nothing, and ends with the
   predicted counts. *)
Theorem conformant_instance_accepted :
  forall C sg0 body w,
    conf_inst m d C ((C ++ [0], sg0) :: body) ->
    (exists s0 rest, children_of m C = NSeg s0 :: rest) ->
    opened m w C ->
    exists w',
      run m d w (C ++ [0]) body w' /\
      (forall r n, node_at ns r = Some n ->
         cnt m (w_counter w') r = predicted body (cnt m (w_counter w)) r).
Proof.
  intros C sg0 body w CI [s0 [rest K]] [O1 [O2 O3]].
  assert (HC : exists nC, node_at ns C = Some nC).
  { unfold children_of in K. destruct C; [inversion CI; congruence|]. destruct (node_at ns (n :: C)); [eauto | discriminate]. }
  destruct HC as [nC HC].
  destruct (inst_shape _ _ CI nC HC) as [z [sg [U' [EU Sh]]]].
  assert (z = 0) as ->.
  { apply (shape_seg_first _ _ _ _ s0 rest Sh). rewrite <- (children_of_node _ _ HC). exact K. }
  destruct (proj1 conf_run C _ CI nC 0 sg U' HC EU Sh w) as [w' [R _]].
  { unfold PreInst. cbn [repeat]. rewrite app_nil_r. split; [exact O2|]. split; [exact O1|]. split; [lia|].
    intros r n Hr SP N1 N2. apply (O3 r n); assumption. }
  injection EU as <- <-. exists w'. split; [exact R|]. exact (run_predicted _ _ _ _ R).
Qed.

(* the counter operations of _goto_seg_match / forceWalkCounterToLoopStart on loop C (forget what is below C,
   count C, count its first segment) produce an `opened` state *)
Lemma opened_by_entry c0 C nC s0 rest xC x0 :
  node_at ns C = Some nC -> node_children nC = NSeg s0 :: rest ->
  node_x12path m C = Ok xC -> node_x12path m (C ++ [0]) = Ok x0 -> (0 <= cnt m c0 C)%Z ->
  opened m (Wc (increment (increment (reset_to_node c0 xC) xC) x0)) C.
Proof.
  intros HC E XC X0 Pos.
  assert (H0 : node_at ns (C ++ [0]) = Some (NSeg s0)).
  { rewrite (node_at_snoc _ _ _ _ HC), E. reflexivity. }
  set (c1 := reset_to_node c0 xC). set (c1' := increment c1 xC). set (c2 := increment c1' x0).
  assert (R1 : forall r n, node_at ns r = Some n -> cnt m c1 r = if strict_prefix_b C r then 0%Z else cnt m c0 r).
  { intros r n Hr. apply (cnt_reset m WF KO c0 C _ xC r n HC XC Hr). }
  assert (R2 : forall r n, node_at ns r = Some n ->
                 cnt m c1' r = if nref_eqb r C then (cnt m c1 C + 1)%Z else cnt m c1 r).
  { intros r n Hr. apply (cnt_increment m WF KO c1 C _ xC r n HC XC Hr). }
  assert (R3 : forall r n, node_at ns r = Some n ->
                 cnt m c2 r = if nref_eqb r (C ++ [0]) then (cnt m c1' (C ++ [0%nat]) + 1)%Z else cnt m c1' r).
  { intros r n Hr. apply (cnt_increment m WF KO c1' (C ++ [0]) _ x0 r n H0 X0 Hr). }
  assert (NE : nref_eqb (C ++ [0]) C = false).
  { apply nref_eqb_neq, len_ne. rewrite app_length. cbn [length]. lia. }
  assert (NE' : nref_eqb C (C ++ [0]) = false).
  { apply nref_eqb_neq, len_ne. rewrite app_length. cbn [length]. lia. }
  unfold opened. cbn [w_counter Wc]. fold c1 c1' c2. split; [|split].
  - rewrite (R3 _ _ HC), NE', (R2 _ _ HC), nref_eqb_refl, (R1 _ _ HC), strict_prefix_irrefl. lia.
  - rewrite (R3 _ _ H0), nref_eqb_refl, (R2 _ _ H0), NE, (R1 _ _ H0), strict_prefix_app. reflexivity.
  - intros r n Hr SP Nt. rewrite (R3 _ _ Hr). apply nref_eqb_neq in Nt. rewrite Nt.
    rewrite (R2 _ _ Hr). replace (nref_eqb r C) with false.
    + rewrite (R1 _ _ Hr), SP. reflexivity.
    + symmetry. apply nref_eqb_neq. intros ->. rewrite strict_prefix_irrefl in SP. discriminate.
Qed.

(* the same for the continuation of an instance: the general form of the induction *)
Theorem conformant_body_accepted :
  forall L p i cn B w,
    conf_body m d L p i cn B -> L <> [] -> InvB (w_counter w) L p i cn ->
    exists w', run m d w p B w' /\
      (forall r n, node_at ns r = Some n -> cnt m (w_counter w') r = predicted B (cnt m (w_counter w)) r).
Proof.
  intros L p i cn B w CB HL I. destruct (proj2 conf_run L p i cn B CB w HL I) as [w' [i' [cn' [R _]]]].
  exists w'. split; [exact R | exact (run_predicted _ _ _ _ R)].
Qed.

End Doc.

Print Assumptions conformant_instance_accepted.
Print Assumptions conformant_body_accepted.
Print Assumptions run_no_error.
