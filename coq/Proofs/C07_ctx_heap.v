(* C07_ctx_heap.v — totality of _add_segment (CtxReader.add_segment_node) on a well-formed store:
   under HWF and with the current loop object on a parent chain that ends in the root of the requested
   tree, no exception other than EngineError escapes, and the store stays well-formed. *)
From Coq Require Import String List Lia.
From PX.Lib Require Import Base PyStr PyInt Regex Xml.
From PX.Model Require Import Show Path Segment Raw Reader Syntax MapLoad MapTree Element Counter Walker MapEnv Driver Context CtxReader.
From PX.Spec Require Import C07_walker_wf C07_valid_wf C07_spec C07_ctx_spec.
From PX.Proofs Require Import C09_heap C09_addseg C07_ctx_defs.
From PX.Proofs Require Import C17_path.
Import ListNotations.

(* ------------------------------------------------------------------ *)
(* 1. Hoare rules *)

Lemma hsafe_ret {A} (a : A) h (Q : A -> heap -> Prop) : Q a h -> hsafe (h_ret a) h Q.
Proof. intros q. exact q. Qed.

Lemma hsafe_bind {A B} (m : H A) (f : A -> H B) h (Q : B -> heap -> Prop) :
  hsafe m h (fun a h1 => hsafe (f a) h1 Q) -> hsafe (h_bind m f) h Q.
Proof. unfold hsafe, h_bind. destruct (m h) as [h1 [a|e]]; auto. Qed.

Lemma hsafe_lift_ok {A} (r : result A) a h (Q : A -> heap -> Prop) : r = Ok a -> Q a h -> hsafe (h_lift r) h Q.
Proof. intros -> q. exact q. Qed.

Lemma hsafe_read_ok {A} (f : heap -> result A) a h (Q : A -> heap -> Prop) : f h = Ok a -> Q a h -> hsafe (h_read f) h Q.
Proof. intros E q. unfold hsafe, h_read. rewrite E. exact q. Qed.

Lemma hsafe_raise {A} e h (Q : A -> heap -> Prop) : allowed e = true -> hsafe (h_raise e) h Q.
Proof. intros a. exact a. Qed.

Lemma hsafe_conseq {A} (c : H A) h (P Q : A -> heap -> Prop) :
  hsafe c h P -> (forall a h', P a h' -> Q a h') -> hsafe c h Q.
Proof. unfold hsafe. destruct (c h) as [h1 [a|e]]; auto. Qed.

Lemma hsafe_obj o h x (Q : dobj -> heap -> Prop) : nth_error h o = Some x -> Q x h -> hsafe (h_obj o) h Q.
Proof. intros E q. unfold h_obj. apply hsafe_read_ok with (a := x); auto. unfold h_get. rewrite E. reflexivity. Qed.

Lemma h_new_safe h x (Q : oid -> heap -> Prop) : Q (length h) (h ++ [x]) -> hsafe (h_new x) h Q.
Proof. intros q. exact q. Qed.

Lemma h_mod_safe h o x f (Q : unit -> heap -> Prop) :
  nth_error h o = Some x -> Q tt (set_nth h o (f x)) -> hsafe (h_mod o f) h Q.
Proof.
  intros E q. unfold h_mod. apply hsafe_bind. apply hsafe_obj with (x := x); auto.
Qed.

(* ------------------------------------------------------------------ *)
(* map nodes *)

Lemma mn_view_ok mn : MnOK mn -> exists n, mn_view mn = Ok (MNode n).
Proof.
  intros (Nn & (n & En) & _). exists n. unfold mn_view. destruct (mn_ref mn) as [|i r] eqn:Er; [congruence|].
  unfold get_node. rewrite En. reflexivity.
Qed.

Lemma mn_id_ok mn : MnOK mn -> exists i, mn_id mn = Ok i.
Proof. intros M. destruct (mn_view_ok mn M) as (n & E). unfold mn_id. rewrite E. eexists. reflexivity. Qed.

Lemma mn_pos_ok mn : MnOK mn -> exists z, mn_pos mn = Ok z.
Proof. intros M. destruct (mn_view_ok mn M) as (n & E). unfold mn_pos. rewrite E. eexists. reflexivity. Qed.

Lemma mn_first_ok mn : MnOK mn -> exists b, mn_is_first_seg mn = Ok b.
Proof.
  intros M. destruct (mn_view_ok mn M) as (n & E). unfold mn_is_first_seg. rewrite E. destruct n; eexists; reflexivity.
Qed.

Lemma mn_x12path_ok mn : MnOK mn -> exists xp, mn_x12path mn = Ok xp.
Proof. intros (_ & _ & X). exact X. Qed.

Lemma ostr_eqb_true a b : ostr_eqb a b = true -> a = b.
Proof.
  unfold ostr_eqb. destruct a, b; cbn; try congruence. intros E. apply str_eqb_eq in E. congruence.
Qed.

(* ------------------------------------------------------------------ *)
(* 2. the store *)

Definition cext (h h' : heap) : Prop :=
  length h <= length h' /\
  forall p px, nth_error h p = Some px -> exists py, nth_error h' p = Some py /\ o_class py = o_class px.

Lemma ObjOK_cext h h' x : cext h h' -> ObjOK h x -> ObjOK h' x.
Proof.
  intros [Le C] (L & M & K & P & R).
  split; [exact L|]. split; [exact M|]. split; [|split; [|exact R]].
  - eapply Forall_impl; [|exact K]. cbn beta. intros; lia.
  - intros p Ep. destruct (P p Ep) as (px & E & Cl). destruct (C p px E) as (py & E' & Cl').
    exists py. split; congruence.
Qed.

Lemma hext_cext h h' : hext h h' -> cext h h'.
Proof.
  intros [Le X]. split; auto. intros p px E. destruct (X p px E) as (y & Ey & Cy & _). eauto.
Qed.

Lemma hext_refl h : hext h h.
Proof. split; auto. intros o x E. exists x. auto. Qed.

Lemma hext_trans a b c : hext a b -> hext b c -> hext a c.
Proof.
  intros [L1 X1] [L2 X2]. split; [lia|]. intros o x E.
  destruct (X1 o x E) as (y & Ey & A1 & A2 & A3 & A4). destruct (X2 o y Ey) as (z & Ez & B1 & B2 & B3 & B4).
  exists z. repeat split; congruence.
Qed.

Lemma hext_new h x : hext h (h ++ [x]).
Proof.
  split; [rewrite app_length; lia|]. intros o y E. exists y. split; [apply nth_app_old; exact E|auto].
Qed.

Lemma HWF_nil : HWF [].
Proof. intros o x E. destruct o; discriminate. Qed.

Lemma HWF_new h x : HWF h -> ObjOK (h ++ [x]) x -> HWF (h ++ [x]).
Proof.
  intros W Ox o y E. destruct (Nat.lt_ge_cases o (length h)) as [Lt|Ge].
  - rewrite nth_error_app1 in E by exact Lt. eapply ObjOK_cext; [apply hext_cext, hext_new|]. eapply W; eauto.
  - rewrite nth_error_app2 in E by exact Ge. destruct (o - length h) as [|k]; cbn in E.
    + injection E as <-. exact Ox.
    + destruct k; discriminate.
Qed.

Lemma chain_hext h h' lid o : hext h h' -> chain h lid o -> chain h' lid o.
Proof.
  intros [Le X] Ch. induction Ch as [o x mn E C P M I | o x p E C P Ch IH].
  - destruct (X o x E) as (y & Ey & A1 & A2 & A3 & A4).
    eapply chain_root with (x := y) (mn := mn); congruence.
  - destruct (X o x E) as (y & Ey & A1 & A2 & A3 & A4).
    eapply chain_up with (x := y) (p := p); congruence.
Qed.

Lemma cext_set h o x y : nth_error h o = Some x -> o_class y = o_class x -> cext h (set_nth h o y).
Proof.
  intros E C. split; [rewrite set_nth_length; lia|]. intros p px Ep.
  destruct (Nat.eq_dec o p) as [<-|N].
  - exists y. split; [apply nth_set_nth_eq; eapply nth_lt; eauto|]. congruence.
  - exists px. split; [rewrite nth_set_nth_ne; auto|reflexivity].
Qed.

Lemma hext_set h o x y :
  nth_error h o = Some x -> o_class y = o_class x -> o_live y = o_live x -> o_map y = o_map x -> o_parent y = o_parent x ->
  hext h (set_nth h o y).
Proof.
  intros E C1 C2 C3 C4. split; [rewrite set_nth_length; lia|]. intros p px Ep.
  destruct (Nat.eq_dec o p) as [<-|N].
  - exists y. split; [apply nth_set_nth_eq; eapply nth_lt; eauto|]. rewrite E in Ep. injection Ep as <-. auto.
  - exists px. split; [rewrite nth_set_nth_ne; auto|auto].
Qed.

Lemma HWF_set h o x y : HWF h -> nth_error h o = Some x -> ObjOK h y -> o_class y = o_class x -> HWF (set_nth h o y).
Proof.
  intros W E Oy C p z Ez. pose proof (cext_set h o x y E C) as CE.
  destruct (Nat.eq_dec o p) as [<-|N].
  - rewrite nth_set_nth_eq in Ez by (eapply nth_lt; eauto). injection Ez as <-. eapply ObjOK_cext; eauto.
  - rewrite nth_set_nth_ne in Ez by exact N. eapply ObjOK_cext; eauto.
Qed.

Lemma HWF_set_same h o x y : HWF h -> nth_error h o = Some x ->
  o_live y = o_live x -> o_map y = o_map x -> o_children y = o_children x -> o_parent y = o_parent x -> o_class y = o_class x ->
  HWF (set_nth h o y) /\ hext h (set_nth h o y).
Proof.
  intros W E C1 C2 C3 C4 C5. split; [|eapply hext_set; eauto].
  eapply HWF_set; eauto. destruct (W o x E) as (L & M & K & P & R).
  unfold ObjOK. rewrite C1, C2, C3, C4, C5. repeat split; auto.
Qed.

Lemma ObjOK_upd_children h x cs : ObjOK h x -> Forall (fun c => c < length h) cs -> ObjOK h (upd_children x cs).
Proof. intros (L & M & K & P & R) F. unfold ObjOK, upd_children. cbn. repeat split; auto. Qed.

Lemma HWF_all_live h : HWF h -> all_live h.
Proof.
  intros W. apply Forall_forall. intros x I. apply In_nth_error in I. destruct I as [o E].
  destruct (W o x E) as [L _]. exact L.
Qed.

Lemma Forall_insert_at {A} (P : A -> Prop) xs i v : Forall P xs -> P v -> Forall P (insert_at xs i v).
Proof.
  revert i. induction xs as [|a xs IH]; intros [|i] F Pv; cbn; auto.
  inversion F; subst. constructor; auto.
Qed.

(* ------------------------------------------------------------------ *)
(* 3. _cleanup and _get_insert_idx *)

Lemma live_of_ok h cs : Forall (fun c => c < length h) cs -> exists kids, live_of h cs = Ok kids.
Proof.
  induction 1 as [|c cs Lc F IH]; cbn [live_of]; [eauto|]. destruct IH as (k & Ek). unfold h_get.
  destruct (nth_error h c) as [x|] eqn:E; [|apply nth_error_None in E; lia].
  cbn [bind]. rewrite Ek. cbn [bind]. eauto.
Qed.

Lemma cleanup_ok h self x : HWF h -> nth_error h self = Some x -> cleanup self h = (h, Ok tt).
Proof.
  intros W E. pose proof (HWF_all_live h W) as L. destruct (W _ _ E) as (_ & _ & K & _).
  destruct (live_of_ok h _ K) as (kids & Ek).
  unfold cleanup, h_bind, h_obj, h_read, h_get. rewrite E, Ek. unfold h_put.
  rewrite (live_of_all_live _ _ _ L Ek), upd_children_same, (set_nth_same _ _ _ E). reflexivity.
Qed.

Lemma gii_go_ok h map_idx : HWF h -> forall cs i acc, Forall (fun c => c < length h) cs ->
  exists r, (fix go (i : nat) (cs : list oid) (acc : option nat) : result (option nat) :=
               match cs with
               | [] => Ok acc
               | c :: r =>
                   do cx <- h_get h c;
                   match o_map cx with
                   | None => Raise AttributeError
                   | Some cm => do p <- mn_pos cm; go (S i) r (if (p <=? map_idx)%Z then Some i else acc)
                   end
               end) i cs acc = Ok r.
Proof.
  intros W cs. induction cs as [|c cs IH]; intros i acc F; [eexists; reflexivity|].
  inversion F as [|? ? Lc F']; subst. unfold h_get at 1.
  destruct (nth_error h c) as [x|] eqn:E; [|apply nth_error_None in E; lia].
  cbn [bind]. destruct (W _ _ E) as (_ & (cm & Em & Mk) & _). rewrite Em.
  destruct (mn_pos_ok cm Mk) as (z & Ez). rewrite Ez. cbn [bind]. apply IH. exact F'.
Qed.

Lemma get_insert_idx_ok h self x lm :
  HWF h -> nth_error h self = Some x -> MnOK lm -> exists idx, get_insert_idx self lm h = (h, Ok idx).
Proof.
  intros W E M. destruct (mn_pos_ok lm M) as (z & Ez). destruct (W _ _ E) as (_ & _ & K & _).
  destruct (gii_go_ok h z W (o_children x) 0 None K) as (r & Er).
  unfold get_insert_idx. unfold h_bind at 1. rewrite (cleanup_ok h self x W E).
  unfold h_bind at 1. unfold h_lift. rewrite Ez.
  unfold h_bind at 1. unfold h_obj, h_read at 1, h_get at 1. rewrite E.
  unfold h_bind, h_read. rewrite Er. unfold h_ret. eexists. reflexivity.
Qed.

(* ------------------------------------------------------------------ *)
(* 4. _add_loop_node *)

Lemma add_loop_node_run h self sx lm : HWF h -> nth_error h self = Some sx -> o_class sx = CLoop -> MnOK lm ->
  exists idx, add_loop_node self lm h =
    (set_nth (h ++ [new_loop (Some lm) [] (RObj self)]) self
       (upd_children sx (insert_at (o_children sx) idx (length h))), Ok (length h)).
Proof.
  intros W E C M. set (nl := new_loop (Some lm) [] (RObj self)).
  assert (nth_error (h ++ [nl]) self = Some sx) as E1 by (apply nth_app_old; exact E).
  assert (HWF (h ++ [nl])) as W1.
  { apply HWF_new; auto. unfold ObjOK, nl. cbn. split; [reflexivity|]. split; [eauto|]. split; [constructor|].
    split; [|discriminate]. intros p Ep. injection Ep as <-. eauto. }
  destruct (get_insert_idx_ok _ _ _ _ W1 E1 M) as (idx & Ei). exists idx.
  unfold add_loop_node. unfold h_bind at 1. unfold h_new at 1. fold nl.
  unfold h_bind at 1. rewrite Ei.
  unfold h_bind at 1. unfold insert_child, h_mod. unfold h_bind at 1. unfold h_obj, h_read, h_get. rewrite E1.
  unfold h_put, h_ret. reflexivity.
Qed.

Lemma add_loop_node_safe lid h self sx lm :
  HWF h -> nth_error h self = Some sx -> o_class sx = CLoop -> MnOK lm ->
  hsafe (add_loop_node self lm) h (fun n h' =>
    HWF h' /\ hext h h' /\
    (exists nx, nth_error h' n = Some nx /\ o_class nx = CLoop /\ o_parent nx = RObj self /\ o_map nx = Some lm) /\
    (chain h lid self -> chain h' lid n)).
Proof.
  intros W E C M. destruct (add_loop_node_run h self sx lm W E C M) as (idx & R).
  unfold hsafe. rewrite R. clear R. set (nl := new_loop (Some lm) [] (RObj self)).
  pose proof (nth_lt _ _ _ E) as Ls.
  assert (nth_error (h ++ [nl]) self = Some sx) as E1 by (apply nth_app_old; exact E).
  assert (HWF (h ++ [nl])) as W1.
  { apply HWF_new; auto. unfold ObjOK, nl. cbn. split; [reflexivity|]. split; [eauto|]. split; [constructor|].
    split; [|discriminate]. intros p Ep. injection Ep as <-. eauto. }
  set (sx' := upd_children sx (insert_at (o_children sx) idx (length h))).
  assert (hext h (set_nth (h ++ [nl]) self sx')) as X.
  { eapply hext_trans; [apply hext_new|]. eapply hext_set; eauto. }
  assert (nth_error (set_nth (h ++ [nl]) self sx') (length h) = Some nl) as En.
  { rewrite nth_set_nth_ne by lia. apply nth_app_new. }
  split; [|split; [exact X|split]].
  - eapply HWF_set; eauto. apply ObjOK_upd_children; [eapply W1; eauto|].
    destruct (W1 _ _ E1) as (_ & _ & K & _). apply Forall_insert_at; auto. rewrite app_length. cbn. lia.
  - exists nl. auto.
  - intros Ch. eapply chain_up with (x := nl) (p := self); auto. eapply chain_hext; eauto.
Qed.

Lemma chain_inv h lid o : chain h lid o ->
  exists x, nth_error h o = Some x /\ o_class x = CLoop /\
    ((o_parent x = RNone /\ exists mn, o_map x = Some mn /\ mn_id mn = Ok (Some lid)) \/
     (exists p, o_parent x = RObj p /\ chain h lid p)).
Proof.
  intros Ch. inversion Ch as [o' x mn E C P M I | o' x p E C P Ch']; subst; exists x; eauto 8.
Qed.

Lemma ref_add_loop_node_safe lid h cur p :
  HWF h -> chain h lid cur -> MnOK p ->
  hsafe (ref_add_loop_node (RObj cur) p) h (fun c h' =>
    HWF h' /\ hext h h' /\ exists n, c = RObj n /\ chain h' lid n).
Proof.
  intros W Ch M. destruct (chain_inv _ _ _ Ch) as (x & E & C & _).
  unfold ref_add_loop_node. apply hsafe_bind. apply hsafe_obj with (x := x); auto. rewrite C.
  apply hsafe_bind. eapply hsafe_conseq; [apply (add_loop_node_safe lid h cur x p W E C M)|].
  intros n h' (W' & X' & _ & Ch'). apply hsafe_ret. split; [exact W'|]. split; [exact X'|]. exists n. split; [reflexivity|apply Ch'; exact Ch].
Qed.

(* ------------------------------------------------------------------ *)
(* 5. the two loops of _add_segment *)

Lemma pops_safe lid h : HWF h -> forall pop cur,
  chain h lid cur -> Forall MnOK pop -> Forall (fun p => mn_id p <> Ok (Some lid)) pop ->
  hsafe (pops_f (RObj cur) pop) h (fun c h' => h' = h /\ exists d1, c = RObj d1 /\ chain h lid d1).
Proof.
  intros W pop. induction pop as [|p r IH]; intros cur Ch Fm Fi.
  - cbn [pops_f]. apply hsafe_ret. eauto.
  - cbn [pops_f]. inversion Fm as [|? ? Mp Fm']; subst. inversion Fi as [|? ? Ip Fi']; subst.
    destruct (chain_inv _ _ _ Ch) as (x & E & C & Cases).
    destruct (W _ _ E) as (_ & (mn & Em & Mk) & _).
    destruct (mn_id_ok mn Mk) as (i & Ei). destruct (mn_id_ok p Mp) as (pi & Epi).
    apply hsafe_bind. apply hsafe_read_ok with (a := i).
    { unfold ref_id, h_get. rewrite E. cbn [bind]. unfold obj_id. rewrite Em. exact Ei. }
    apply hsafe_bind. apply hsafe_lift_ok with (a := pi); [exact Epi|].
    destruct (ostr_eqb i pi) eqn:Eq; cbn [negb]; [|apply hsafe_raise; reflexivity].
    apply hsafe_bind. apply hsafe_read_ok with (a := o_parent x).
    { unfold ref_parent, h_get. rewrite E. reflexivity. }
    destruct Cases as [(Pn & mn' & Em' & Il) | (q & Pq & Chq)].
    + exfalso. apply Ip. rewrite Em in Em'. injection Em' as <-. rewrite Ei in Il. injection Il as ->.
      apply ostr_eqb_true in Eq. congruence.
    + rewrite Pq. apply IH; auto.
Qed.

Lemma pushes_safe lid : forall push h cur,
  HWF h -> chain h lid cur -> Forall MnOK push ->
  hsafe (pushes_f (RObj cur) push) h (fun c h' =>
    HWF h' /\ hext h h' /\ exists d1, c = RObj d1 /\ chain h' lid d1).
Proof.
  induction push as [|p r IH]; intros h cur W Ch Fm.
  - cbn [pushes_f]. apply hsafe_ret. split; auto. split; [apply hext_refl|eauto].
  - change (pushes_f (RObj cur) (p :: r)) with (doh nxt <- ref_add_loop_node (RObj cur) p; pushes_f nxt r).
    inversion Fm as [|? ? Mp Fm']; subst.
    apply hsafe_bind. eapply hsafe_conseq; [apply (ref_add_loop_node_safe lid h cur p W Ch Mp)|].
    intros c h1 (W1 & X1 & n & -> & Ch1). eapply hsafe_conseq; [apply (IH h1 n W1 Ch1 Fm')|].
    intros c h2 (W2 & X2 & D). split; auto. split; [eapply hext_trans; eauto|exact D].
Qed.

Lemma asn_tail_safe lid h o seg_mn x :
  HWF h -> chain h lid o -> MnOK seg_mn ->
  hsafe (asn_tail seg_mn x (RObj o)) h (fun n h' =>
    HWF h' /\ hext h h' /\
    exists nx, nth_error h' n = Some nx /\ o_class nx = CSeg /\ o_live nx = true /\
               o_map nx = Some seg_mn /\ o_parent nx = RObj o /\ chain h' lid o).
Proof.
  intros W Ch M. destruct (chain_inv _ _ _ Ch) as (ox & E & C & _).
  unfold asn_tail. apply hsafe_bind. apply hsafe_obj with (x := ox); auto.
  unfold obj_children. rewrite C.
  set (ns := new_seg (Some seg_mn) x (RObj o) [] []).
  apply hsafe_bind. apply h_new_safe. apply hsafe_bind. unfold hsafe, h_put, h_ret.
  pose proof (nth_lt _ _ _ E) as Lo.
  assert (nth_error (h ++ [ns]) o = Some ox) as E1 by (apply nth_app_old; exact E).
  assert (HWF (h ++ [ns])) as W1.
  { apply HWF_new; auto. unfold ObjOK, ns. cbn. split; [reflexivity|]. split; [eauto|]. split; [constructor|].
    split; [|discriminate]. intros p Ep. injection Ep as <-. eauto. }
  set (ox' := upd_children ox (o_children ox ++ [length h])).
  assert (hext h (set_nth (h ++ [ns]) o ox')) as X.
  { eapply hext_trans; [apply hext_new|]. eapply hext_set; eauto. }
  split; [|split; [exact X|]].
  - eapply HWF_set; eauto. apply ObjOK_upd_children; [eapply W1; eauto|].
    destruct (W1 _ _ E1) as (_ & _ & K & _). apply Forall_app. split; auto. constructor; auto.
    rewrite app_length. cbn. lia.
  - exists ns. split; [rewrite nth_set_nth_ne by lia; apply nth_app_new|].
    repeat split. eapply chain_hext; eauto.
Qed.

Lemma asn_cur_safe lid h d dx last_mn seg_mn pop push lp np :
  HWF h -> chain h lid d -> nth_error h d = Some dx -> o_map dx = Some last_mn ->
  MnOK seg_mn -> MnOK (mn_parent seg_mn) -> Forall MnOK pop -> Forall MnOK push ->
  mn_x12path last_mn = Ok lp -> mn_x12path (mn_parent seg_mn) = Ok np ->
  (last_mn = mn_parent seg_mn \/ Forall (fun p => mn_id p <> Ok (Some lid)) pop) ->
  hsafe (asn_cur seg_mn (RObj d) pop push (negb (path_eqb lp np))) h (fun c h' =>
    HWF h' /\ hext h h' /\ exists d1, c = RObj d1 /\ chain h' lid d1).
Proof.
  intros W Ch E Em Ms Mp Fpop Fpush Elp Enp Dis.
  assert (hsafe (h_ret (RObj d)) h (fun c h' => HWF h' /\ hext h h' /\ exists d1, c = RObj d1 /\ chain h' lid d1)) as Same.
  { apply hsafe_ret. split; auto. split; [apply hext_refl|eauto]. }
  unfold asn_cur. destruct (negb (path_eqb lp np)) eqn:Df.
  - destruct Dis as [->|Fi].
    { rewrite Elp in Enp. injection Enp as <-. rewrite path_eqb_refl in Df. discriminate. }
    apply hsafe_bind. eapply hsafe_conseq; [apply (pops_safe lid h W pop d Ch Fpop Fi)|].
    intros c h1 (-> & d1 & -> & Ch1). apply pushes_safe; auto.
  - destruct (chain_inv _ _ _ Ch) as (x & E' & C & Cases). rewrite E in E'. injection E' as <-.
    destruct (mn_first_ok seg_mn Ms) as (first & Ef).
    apply hsafe_bind. apply hsafe_read_ok with (a := o_parent dx).
    { unfold ref_parent, h_get. rewrite E. reflexivity. }
    apply hsafe_bind. apply hsafe_lift_ok with (a := first); [exact Ef|].
    destruct Cases as [(Pn & _) | (q & Pq & Chq)].
    + rewrite Pn. exact Same.
    + rewrite Pq. destruct first; [|exact Same]. apply ref_add_loop_node_safe; auto.
Qed.

(* ------------------------------------------------------------------ *)
(* _add_segment *)

Lemma add_segment_node_safe lid h cdn cdx d seg_mn x pop push :
  HWF h -> nth_error h cdn = Some cdx ->
  (if is_seg_typed cdx then o_parent cdx else RObj cdn) = RObj d ->
  chain h lid d ->
  MnOK seg_mn -> mn_is_segment seg_mn = Ok true -> MnOK (mn_parent seg_mn) ->
  Forall MnOK pop -> Forall MnOK push ->
  ((exists dx, nth_error h d = Some dx /\ o_map dx = Some (mn_parent seg_mn))
   \/ Forall (fun p => mn_id p <> Ok (Some lid)) pop) ->
  hsafe (add_segment_node cdn seg_mn x pop push) h (fun n h' =>
    HWF h' /\ hext h h' /\
    exists nx d', nth_error h' n = Some nx /\ o_class nx = CSeg /\ o_live nx = true /\
                  o_map nx = Some seg_mn /\ o_parent nx = RObj d' /\ chain h' lid d').
Proof.
  intros W Ecd Ecur Ch Ms Eseg Mp Fpop Fpush Dis. rewrite asn_unfold.
  apply hsafe_bind. apply hsafe_lift_ok with (a := true); [exact Eseg|]. cbn [negb].
  apply hsafe_bind. apply hsafe_obj with (x := cdx); [exact Ecd|]. cbv zeta. rewrite Ecur.
  destruct (mn_x12path_ok _ Mp) as (np & Enp).
  apply hsafe_bind. apply hsafe_lift_ok with (a := np); [exact Enp|].
  destruct (chain_inv _ _ _ Ch) as (dx & Ed & Cd & _).
  destruct (W _ _ Ed) as (_ & (last_mn & Em & Ml) & _).
  apply hsafe_bind. apply hsafe_read_ok with (a := last_mn).
  { unfold ref_map_node, h_get. rewrite Ed. cbn [bind]. rewrite Em. reflexivity. }
  destruct (mn_x12path_ok _ Ml) as (lp & Elp).
  apply hsafe_bind. apply hsafe_lift_ok with (a := lp); [exact Elp|].
  apply hsafe_bind. eapply hsafe_conseq.
  { apply (asn_cur_safe lid h d dx last_mn seg_mn pop push lp np); auto.
    destruct Dis as [(dx' & Ed' & Em')|Fi]; [left|right; exact Fi].
    rewrite Ed in Ed'. injection Ed' as <-. congruence. }
  intros c h1 (W1 & X1 & d1 & -> & Ch1).
  eapply hsafe_conseq; [apply (asn_tail_safe lid h1 d1 seg_mn x W1 Ch1 Ms)|].
  intros n h2 (W2 & X2 & nx & A1 & A2 & A3 & A4 & A5 & A6).
  split; auto. split; [eapply hext_trans; eauto|]. exists nx, d1. auto 10.
Qed.

(* ------------------------------------------------------------------ *)
(* the same with a weaker hypothesis on the pop list: only the pops before the LAST one are known not to
   carry the id of the root.  The last pop may leave the tree (cur = None); then a non-empty push list,
   and in any case the final attachment, raise EngineError. *)

Lemma pops_safe' lid h : HWF h -> forall pop cur,
  chain h lid cur -> Forall MnOK pop -> Forall (fun p => mn_id p <> Ok (Some lid)) (removelast pop) ->
  hsafe (pops_f (RObj cur) pop) h (fun c h' => h' = h /\ (c = RNone \/ exists d1, c = RObj d1 /\ chain h lid d1)).
Proof.
  intros W pop. induction pop as [|p r IH]; intros cur Ch Fm Fi.
  - cbn [pops_f]. apply hsafe_ret. eauto.
  - cbn [pops_f]. inversion Fm as [|? ? Mp Fm']; subst.
    destruct (chain_inv _ _ _ Ch) as (x & E & C & Cases).
    destruct (W _ _ E) as (_ & (mn & Em & Mk) & _).
    destruct (mn_id_ok mn Mk) as (i & Ei). destruct (mn_id_ok p Mp) as (pi & Epi).
    apply hsafe_bind. apply hsafe_read_ok with (a := i).
    { unfold ref_id, h_get. rewrite E. cbn [bind]. unfold obj_id. rewrite Em. exact Ei. }
    apply hsafe_bind. apply hsafe_lift_ok with (a := pi); [exact Epi|].
    destruct (ostr_eqb i pi) eqn:Eq; cbn [negb]; [|apply hsafe_raise; reflexivity].
    apply hsafe_bind. apply hsafe_read_ok with (a := o_parent x).
    { unfold ref_parent, h_get. rewrite E. reflexivity. }
    destruct r as [|p' r'].
    + cbn [pops_f]. apply hsafe_ret. split; [reflexivity|].
      destruct Cases as [(Pn & _) | (q & Pq & Chq)]; [left; exact Pn | right; eauto].
    + change (removelast (p :: p' :: r')) with (p :: removelast (p' :: r')) in Fi.
      inversion Fi as [|? ? Ip Fi']; subst.
      destruct Cases as [(Pn & mn' & Em' & Il) | (q & Pq & Chq)].
      * exfalso. apply Ip. rewrite Em in Em'. injection Em' as <-. rewrite Ei in Il. injection Il as ->.
        apply ostr_eqb_true in Eq. congruence.
      * rewrite Pq. apply IH; auto.
Qed.

Lemma pushes_none_safe push h (Q : pyref -> heap -> Prop) : Q RNone h -> hsafe (pushes_f RNone push) h Q.
Proof. intros q. destruct push as [|p r]; cbn [pushes_f]; [apply hsafe_ret; exact q | apply hsafe_raise; reflexivity]. Qed.

Lemma asn_cur_safe' lid h d dx last_mn seg_mn pop push lp np :
  HWF h -> chain h lid d -> nth_error h d = Some dx -> o_map dx = Some last_mn ->
  MnOK seg_mn -> MnOK (mn_parent seg_mn) -> Forall MnOK pop -> Forall MnOK push ->
  mn_x12path last_mn = Ok lp -> mn_x12path (mn_parent seg_mn) = Ok np ->
  (last_mn = mn_parent seg_mn \/ Forall (fun p => mn_id p <> Ok (Some lid)) (removelast pop)) ->
  hsafe (asn_cur seg_mn (RObj d) pop push (negb (path_eqb lp np))) h (fun c h' =>
    HWF h' /\ hext h h' /\ (c = RNone \/ exists d1, c = RObj d1 /\ chain h' lid d1)).
Proof.
  intros W Ch E Em Ms Mp Fpop Fpush Elp Enp Dis.
  destruct (negb (path_eqb lp np)) eqn:Df.
  - destruct Dis as [->|Fi].
    { rewrite Elp in Enp. injection Enp as <-. rewrite path_eqb_refl in Df. discriminate. }
    unfold asn_cur. apply hsafe_bind. eapply hsafe_conseq; [apply (pops_safe' lid h W pop d Ch Fpop Fi)|].
    intros c h1 (-> & [-> | (d1 & -> & Ch1)]).
    + apply pushes_none_safe. split; auto. split; [apply hext_refl|auto].
    + eapply hsafe_conseq; [apply pushes_safe; eauto|]. intros c h2 (W2 & X2 & D). auto.
  - unfold asn_cur.
    assert (hsafe (h_ret (RObj d)) h (fun c h' => HWF h' /\ hext h h' /\ (c = RNone \/ exists d1, c = RObj d1 /\ chain h' lid d1))) as Same.
    { apply hsafe_ret. split; auto. split; [apply hext_refl|eauto]. }
    destruct (chain_inv _ _ _ Ch) as (x & E' & C & Cases). rewrite E in E'. injection E' as <-.
    destruct (mn_first_ok seg_mn Ms) as (first & Ef).
    apply hsafe_bind. apply hsafe_read_ok with (a := o_parent dx).
    { unfold ref_parent, h_get. rewrite E. reflexivity. }
    apply hsafe_bind. apply hsafe_lift_ok with (a := first); [exact Ef|].
    destruct Cases as [(Pn & _) | (q & Pq & Chq)].
    + rewrite Pn. exact Same.
    + rewrite Pq. destruct first; [|exact Same].
      eapply hsafe_conseq; [apply ref_add_loop_node_safe; eauto|]. intros c h2 (W2 & X2 & D). auto.
Qed.

Lemma add_segment_node_safe' lid h cdn cdx d seg_mn x pop push :
  HWF h -> nth_error h cdn = Some cdx ->
  (if is_seg_typed cdx then o_parent cdx else RObj cdn) = RObj d ->
  chain h lid d ->
  MnOK seg_mn -> mn_is_segment seg_mn = Ok true -> MnOK (mn_parent seg_mn) ->
  Forall MnOK pop -> Forall MnOK push ->
  ((exists dx, nth_error h d = Some dx /\ o_map dx = Some (mn_parent seg_mn))
   \/ Forall (fun p => mn_id p <> Ok (Some lid)) (removelast pop)) ->
  hsafe (add_segment_node cdn seg_mn x pop push) h (fun n h' =>
    HWF h' /\ hext h h' /\
    exists nx d', nth_error h' n = Some nx /\ o_class nx = CSeg /\ o_live nx = true /\
                  o_map nx = Some seg_mn /\ o_parent nx = RObj d' /\ chain h' lid d').
Proof.
  intros W Ecd Ecur Ch Ms Eseg Mp Fpop Fpush Dis. rewrite asn_unfold.
  apply hsafe_bind. apply hsafe_lift_ok with (a := true); [exact Eseg|]. cbn [negb].
  apply hsafe_bind. apply hsafe_obj with (x := cdx); [exact Ecd|]. cbv zeta. rewrite Ecur.
  destruct (mn_x12path_ok _ Mp) as (np & Enp).
  apply hsafe_bind. apply hsafe_lift_ok with (a := np); [exact Enp|].
  destruct (chain_inv _ _ _ Ch) as (dx & Ed & Cd & _).
  destruct (W _ _ Ed) as (_ & (last_mn & Em & Ml) & _).
  apply hsafe_bind. apply hsafe_read_ok with (a := last_mn).
  { unfold ref_map_node, h_get. rewrite Ed. cbn [bind]. rewrite Em. reflexivity. }
  destruct (mn_x12path_ok _ Ml) as (lp & Elp).
  apply hsafe_bind. apply hsafe_lift_ok with (a := lp); [exact Elp|].
  apply hsafe_bind. eapply hsafe_conseq.
  { apply (asn_cur_safe' lid h d dx last_mn seg_mn pop push lp np); auto.
    destruct Dis as [(dx' & Ed' & Em')|Fi]; [left|right; exact Fi].
    rewrite Ed in Ed'. injection Ed' as <-. congruence. }
  intros c h1 (W1 & X1 & [-> | (d1 & -> & Ch1)]).
  { unfold asn_tail. apply hsafe_raise. reflexivity. }
  eapply hsafe_conseq; [apply (asn_tail_safe lid h1 d1 seg_mn x W1 Ch1 Ms)|].
  intros n h2 (W2 & X2 & nx & A1 & A2 & A3 & A4 & A5 & A6).
  split; auto. split; [eapply hext_trans; eauto|]. exists nx, d1. auto 10.
Qed.

Print Assumptions add_segment_node_safe.
Print Assumptions add_segment_node_safe'.
