(* C07_ctx_walker.v — the pop and push lists returned by the map walker (Model/Walker.v):
   `pop` is the list of the loops that enclose the start node and lie strictly below the loop in
   which the new node was found (innermost first), or that loop alone when the segment opens the
   current loop again; every element of `push` is a non-empty proper prefix of the node found. *)
From Coq Require Import String List Lia.
From PX.Lib Require Import Base PyStr PyInt Regex Xml.
From PX.Model Require Import Path Segment Syntax MapLoad MapTree Element Counter Walker.
From PX.Spec Require Import C07_walker_wf.
From PX.Proofs Require Import C07_walker_lemmas C07_walker C07_ctx_defs.
Import ListNotations.

(* ------------------------------------------------------------------ *)
(* 1. partial correctness for the W monad                               *)

Definition pc {A} (c : W A) (Q : A -> Prop) : Prop :=
  forall s s' x, c s = (s', Ok x) -> Q x.

Lemma pc_ret {A} (x : A) (Q : A -> Prop) : Q x -> pc (w_ret x) Q.
Proof. intros H s s' y E. unfold w_ret in E. injection E as _ <-. exact H. Qed.

Lemma pc_raise {A} e (Q : A -> Prop) : pc (w_raise e) Q.
Proof. intros s s' y E. discriminate E. Qed.

Lemma pc_bind {A B} (c : W A) (k : A -> W B) (Q : A -> Prop) (P : B -> Prop) :
  pc c Q -> (forall x, Q x -> pc (k x) P) -> pc (w_bind c k) P.
Proof.
  intros H1 H2 s s' y E. unfold w_bind in E.
  destruct (c s) as [s1 [x|e]] eqn:Ec; [|discriminate E].
  exact (H2 x (H1 _ _ _ Ec) _ _ _ E).
Qed.

Lemma pc_any {A} (c : W A) : pc c T.
Proof. intros s s' y _. exact I. Qed.

Lemma pc_skip {A B} (c : W A) (k : A -> W B) (P : B -> Prop) :
  (forall x, pc (k x) P) -> pc (w_bind c k) P.
Proof. intros H. eapply pc_bind; [apply pc_any | intros x _; apply H]. Qed.

Lemma wp_pc {A} (c : W A) (P Q : A -> Prop) : wp c P -> pc c Q -> wp c (fun x => P x /\ Q x).
Proof.
  intros H1 H2 s. specialize (H1 s). specialize (H2 s).
  destruct (c s) as [s' [x|e]]; [|exact H1]. split; [exact H1 | exact (H2 _ _ eq_refl)].
Qed.

(* ------------------------------------------------------------------ *)
(* 2. the list of prefixes                                              *)

Lemma ups_self P : ups P P = [].
Proof. unfold ups. rewrite Nat.sub_diag. reflexivity. Qed.

Lemma ups_step cur P : cur <> [] -> pfx cur P -> ups (removelast cur) P = ups cur P ++ [cur].
Proof.
  intros Hne [n [L E]]. unfold ups. pose proof (length_removelast cur Hne) as Hl.
  rewrite Hl. replace (length P - length (removelast cur)) with (S (length P - length cur)) by lia.
  cbn [seq rev]. rewrite map_app. cbn [map]. rewrite <- E. reflexivity.
Qed.

(* a non-empty proper prefix of r' *)
Definition good (r' p : nref) : Prop := p <> [] /\ exists q, q <> [] /\ r' = p ++ q.

(* ------------------------------------------------------------------ *)
(* 3. the second component of _goto_seg_match                           *)

Section Walk2.
Variable m : xmap.
Hypothesis WF : walker_wf m = true.
Variable a : wargs.

Notation ns := (root_nodes m).

Definition glist (r : nref) (res : option nref * list nref) : Prop :=
  match fst res with
  | Some r1 => (exists js, js <> [] /\ r1 = r ++ js) /\ Forall (good r1) (snd res)
  | None => True
  end.

Lemma goto_go_pc f r :
  r <> [] ->
  (forall r' c, r' <> [] -> pc (goto_seg_match f m a r' c) (glist r')) ->
  forall cs i, pc (goto_go m a f r i cs) (glist r).
Proof.
  intros Hr IH. induction cs as [|c cs IHcs]; intros i.
  - apply pc_ret. exact I.
  - destruct c as [id ty nm u p rep pm | s0]; [|apply IHcs].
    change (pc (dow res <- goto_seg_match f m a (r ++ [i]) (NLoop id ty nm u p rep pm);
                match fst res with
                | Some r1 =>
                    dow t <- w_lift (node_truthy m r1);
                    if t then w_ret (Some r1, r :: snd res) else goto_go m a f r (S i) cs
                | None => goto_go m a f r (S i) cs
                end) (glist r)).
    eapply pc_bind; [apply IH, snoc_not_nil|].
    intros res G. unfold glist in G. destruct (fst res) as [r1|]; [|apply IHcs].
    apply pc_skip. intros t. destruct t; [|apply IHcs].
    apply pc_ret. unfold glist. cbn [fst snd]. destruct G as [[js [Hjs E1]] F].
    assert (E2 : r1 = r ++ i :: js) by (rewrite E1, <- app_assoc; reflexivity).
    split.
    + exists (i :: js). split; [discriminate | exact E2].
    + constructor; [|exact F]. split; [exact Hr|]. exists (i :: js). split; [discriminate | exact E2].
Qed.

Lemma goto_pc f : forall r n, r <> [] -> pc (goto_seg_match f m a r n) (glist r).
Proof.
  induction f as [|f IHf]; intros r n Hr; [apply pc_raise|].
  destruct n as [id ty nm u p rep pm | s]; [|apply pc_raise].
  cbn [goto_seg_match]. destruct (pm_nodes pm) as [|first rest] eqn:E; [apply pc_raise|].
  change (pc (dow hit <- (match first with
                          | NSeg s0 => w_lift (seg_is_match (xg_d (a_x a)) (m_dataele m) s0 (xg_s (a_x a)))
                          | NLoop _ _ _ _ _ _ _ => w_ret false
                          end);
              if hit then
                dow_ check_loop_usage m r (NLoop id ty nm u p rep pm) a;
                dow xp <- w_lift (node_x12path m (r ++ [0]));
                dow c <- w_counter_get;
                dow_ w_counter_set (increment c xp);
                dow_ flush_mandatory_segs None;
                w_ret (Some (r ++ [0]), [r])
              else goto_go m a f r 0 (first :: rest))
             (glist r)).
  apply pc_skip. intros hit. destruct hit.
  - do 5 (apply pc_skip; intro). apply pc_ret. unfold glist. cbn [fst snd].
    split; [exists [0]; split; [discriminate | reflexivity]|].
    constructor; [|constructor]. split; [exact Hr|]. exists [0]. split; [discriminate | reflexivity].
  - apply goto_go_pc; [exact Hr | exact IHf].
Qed.

(* ------------------------------------------------------------------ *)
(* 4. one turn of `while True` with the lists                           *)

Definition spost (cur : nref) (pop : list nref) (res : walk_result) : Prop :=
  match res with
  | (Some r', pop', push) =>
      found_ok m a cur r' /\ (pop' = pop \/ (pop' = [cur] /\ cur <> [])) /\ Forall (good r') push
  | (None, _, _) => False
  end.

Lemma good_self cur r' : cur <> [] -> found_ok m a cur r' -> good r' cur.
Proof.
  intros Hne [_ [[[i E] | [i [js E]]] _]]; (split; [exact Hne|]).
  - exists [i]. split; [discriminate | exact E].
  - exists (i :: js ++ [0]). split; [discriminate|]. rewrite E, <- app_assoc. reflexivity.
Qed.

Lemma scan_wp2 orig orig_loop cur pop :
  lref m cur -> (cur <> [] -> exists no, node_at ns orig_loop = Some no) ->
  forall cs, (forall i c, In (i, c) cs -> nth_error (kids m cur) i = Some c) ->
  wp (wl_scan m a orig orig_loop cur pop cs)
     (fun found => match found with Some res => spost cur pop res | None => True end).
Proof.
  intros Hl Horig. induction cs as [|[i c] rest IH]; intros Hc; [apply wp_ret; exact I|].
  assert (Tail : wp (wl_scan m a orig orig_loop cur pop rest)
                    (fun found => match found with Some res => spost cur pop res | None => True end)).
  { apply IH. intros i' c' Hin. apply Hc. right. exact Hin. }
  assert (Hcr : node_at ns (cur ++ [i]) = Some c).
  { rewrite (node_at_kids _ _ _ Hl). apply Hc. left. reflexivity. }
  destruct c as [id ty nm u p rep pm | s0]; cbn [wl_scan].
  - eapply wp_bind.
    + apply (is_loop_match_wp m WF a 40 _ _ Hcr); [reflexivity | apply (wf_ref _ _ _ WF Hcr)].
    + intros lm Hlm. destruct lm; [|exact Tail].
      eapply wp_bind.
      { apply wp_pc; [apply (goto_top m WF a _ _ Hcr); apply Hlm; reflexivity|].
        apply (goto_pc 40 (cur ++ [i])). apply snoc_not_nil. }
      intros g [Hg Gl]. apply wp_ret. unfold spost.
      pose proof (found_child _ _ _ _ _ _ Hg (Hlm eq_refl)) as F. unfold glist in Gl.
      destruct (fst g) as [r'|]; [|exact F].
      split; [exact F|]. split; [left; reflexivity | exact (proj2 Gl)].
  - destruct (smatch_ok m WF a _ _ Hcr) as [b Hb]. eapply wp_bind_lift; [exact Hb|].
    destruct (wf_seg m WF _ _ Hcr) as [_ [[xp Hxp] _]].
    destruct b.
    + eapply wp_bind; [apply (lm_wp m WF a cur Hl)|]. intros lm Hlm. destruct lm.
      * destruct (Hlm eq_refl) as [Hne [n [Hn LH]]].
        apply wp_seq; [destruct (orig_is_segment m orig); [apply (note_missing_children_wp m WF a cur Hl) | wunit] | intros _].
        eapply wp_bind_lift; [apply get_node_ok, Hn|].
        eapply wp_bind.
        { apply wp_pc; [apply (goto_top m WF a _ _ Hn LH) | apply (goto_pc 40 cur _ Hne)]. }
        intros g [Hg Gl].
        destruct (Horig Hne) as [no Hno]. destruct (node_eq_ok _ _ _ _ _ Hn Hno) as [same Hsame].
        eapply wp_bind_lift; [exact Hsame|].
        pose proof (found_self _ _ _ _ _ Hg LH) as F. unfold glist in Gl.
        destruct same; apply wp_ret; unfold spost; (destruct (fst g) as [r'|]; [|exact F]).
        -- split; [exact F|]. split; [right; split; [reflexivity | exact Hne]|].
           constructor; [|constructor]. exact (good_self _ _ Hne F).
        -- split; [exact F|]. split; [left; reflexivity | exact (proj2 Gl)].
      * eapply wp_bind_lift; [exact Hxp|]. wstep. wstep.
        apply wp_seq; [apply (check_seg_usage_wp m WF a _ _ Hcr)|intros _].
        destruct (parent_id_ok m (cur ++ [i])) as [pid Hpid]; [rewrite removelast_snoc; exact Hl|].
        eapply wp_bind_lift; [exact Hpid|]. wstep. wstep.
        apply wp_seq; [apply flush_mandatory_segs_wp|intros _].
        apply wp_ret. unfold spost. split; [|split; [left; reflexivity | constructor]].
        split; [eauto|]. split; [left; eauto | intros _; left; eauto].
    + destruct (usage_is (s_usage s0) "R"); [|exact Tail].
      eapply wp_bind_lift; [exact Hxp|]. wstep.
      apply wp_seq; [|intros _; exact Tail].
      destruct (get_count c xp <? 1)%Z; [|wunit].
      apply append_missing_wp. rewrite removelast_snoc. exact Hl.
Qed.

(* ------------------------------------------------------------------ *)
(* 5. walk                                                              *)

Definition wpost2 (start : nref) (res : walk_result) : Prop :=
  match res with
  | (Some r', pop, push) =>
      exists anc, pfx anc (removelast start) /\ found_ok m a anc r' /\
        (pop = ups anc (removelast start) \/ (pop = [anc] /\ anc <> [])) /\ Forall (good r') push
  | (None, pop, push) => pop = [] /\ push = []
  end.

Lemma walk_loop_wp2 start sn :
  node_at ns start = Some (NSeg sn) ->
  forall fuel cur npos pop,
    length cur < fuel -> lref m cur -> pfx cur (removelast start) -> pop = ups cur (removelast start) ->
    wp (walk_loop fuel m a start (removelast start) cur npos pop) (wpost2 start).
Proof.
  intros Hstart. induction fuel as [|fuel IH]; intros cur npos pop Hlen Hl Hp Hpop; [lia|].
  rewrite walk_loop_S.
  eapply wp_bind_lift; [apply container_children_kids, Hl|].
  eapply wp_bind.
  - apply (scan_wp2 start (removelast start) cur pop Hl).
    + intros Hne. pose proof (pfx_nil_inv _ _ Hp Hne) as Hne'.
      destruct (node_at_removelast _ _ _ Hstart) as [E | [q [Hq _]]]; [congruence | eauto].
    + intros i c Hin. apply filter_In in Hin as [Hin _]. apply enumerate_nth in Hin as [_ Hin].
      rewrite Nat.sub_0_r in Hin. exact Hin.
  - intros found Hf. destruct found as [res|].
    + apply wp_ret. unfold wpost2. unfold spost in Hf. destruct res as [[[r'|] pop'] push]; [|destruct Hf].
      destruct Hf as [F [Hpp Hpush]]. exists cur. split; [exact Hp|]. split; [exact F|]. split; [|exact Hpush].
      destruct Hpp as [-> | R]; [left; exact Hpop | right; exact R].
    + destruct Hl as [-> | [n [Hn Ln]]].
      * apply wp_seq; [apply (seg_not_found_error_wp m WF a _ _ Hstart) | intros _; apply wp_ret; split; reflexivity].
      * assert (Hne : cur <> []) by (intros ->; discriminate).
        rewrite (list_case _ _ _ Hne).
        eapply wp_bind_lift; [apply get_node_ok, Hn|]. unfold pop_to_parent_loop.
        apply IH.
        -- pose proof (length_removelast _ Hne). lia.
        -- apply lref_removelast. right. eauto.
        -- apply pfx_removelast, Hp.
        -- rewrite Hpop. symmetry. apply ups_step; assumption.
Qed.

Lemma walk_body_wp2 start sn :
  node_at ns start = Some (NSeg sn) ->
  wp (dow_ w_missing_set [];
      match start with
      | [] => w_raise AttributeError
      | _ =>
          dow n0 <- w_lift (get_node m start);
          let cur0 := if node_is_loop n0 then start else pop_to_parent_loop start in
          walk_loop (S (length start)) m a start cur0 cur0 (node_pos n0) []
      end) (wpost2 start).
Proof.
  intros Hstart. wstep.
  assert (Hne : start <> []) by (intros ->; discriminate).
  rewrite (list_case _ _ _ Hne).
  eapply wp_bind_lift; [apply get_node_ok, Hstart|]. cbn [node_is_loop]. cbv zeta. unfold pop_to_parent_loop.
  apply (walk_loop_wp2 _ _ Hstart).
  - pose proof (length_removelast _ Hne). lia.
  - destruct (node_at_removelast _ _ _ Hstart) as [E | [q [Hq Lq]]]; [left; exact E | right; eauto].
  - apply pfx_refl.
  - symmetry. apply ups_self.
Qed.

End Walk2.

(* ------------------------------------------------------------------ *)
(* 6. the theorem                                                       *)

Lemma walk_w_wp2 m start d sg seg_count cur_line ls_id :
  walker_wf m = true -> seg_ref m start ->
  wp (walk_w m start d sg seg_count cur_line ls_id) (wpost2 m (mk_args d sg seg_count cur_line ls_id) start).
Proof. intros WF [sn Hs]. exact (walk_body_wp2 m WF (mk_args d sg seg_count cur_line ls_id) start sn Hs). Qed.

Theorem walker_poppush :
  forall m w start d sg sc cl ls o pop push,
    walker_wf m = true -> walker_first_wf m = true -> seg_ref m start ->
    snd (walk_st m w start d sg sc cl ls) = Ok (o, pop, push) ->
    match o with
    | None => pop = [] /\ push = []
    | Some r' =>
        exists anc, pfx anc (removelast start) /\
          (exists i k, r' = (anc ++ [i]) ++ repeat 0 k) /\
          (pop = ups anc (removelast start) \/ (pop = [anc] /\ anc <> [])) /\
          Forall (fun p => p <> [] /\ exists q, q <> [] /\ r' = p ++ q) push
    end.
Proof.
  intros m w start d sg sc cl ls o pop push WF FW Hs. unfold walk_st.
  pose proof (walk_w_wp2 m start d sg sc cl ls WF Hs {| ws := w; wlog := [] |}) as H.
  destruct (walk_w m start d sg sc cl ls {| ws := w; wlog := [] |}) as [st [res|e]]; [|destruct H].
  cbn [snd]. intros E. injection E as ->. unfold wpost2 in H.
  destruct o as [r'|]; [|exact H].
  destruct H as [anc [P [[_ [_ HS]] [Hpop Hpush]]]]. exists anc. split; [exact P|]. split; [|split; [exact Hpop | exact Hpush]].
  destruct HS as [[i HS] | [i [k HS]]].
  - intros r n Hn. exact (wf_first m r n WF FW Hn).
  - exists i, 0. rewrite HS. cbn [repeat]. rewrite app_nil_r. reflexivity.
  - exists i, (S k). exact HS.
Qed.

Print Assumptions walker_poppush.
