(* C07_valid.v — segment validation (Model/Element.v: seg_is_valid) never raises on a
   map that satisfies the static predicate valid_wf (Spec/C07_valid_wf.v), for EVERY data
   segment and every choice of delimiters; and the boolean it returns is true exactly when
   no error event was reported (under the additional static predicate fmt_wf). *)
From Coq Require Import String.
From PX.Lib Require Import Base PyStr PyInt Regex Xml.
From PX.Model Require Import Path Segment Syntax Validation MapLoad MapTree Element.
From PX.Spec Require Import C13_spec C13_dec C15_spec C15_link C07_valid_wf.
From PX.Proofs Require Import C13_main C14_syntax C15_element.

(* ---------------- the result monad ---------------- *)
Lemma bind_ok {A B} (r : result A) (f : A -> result B) y :
  bind r f = Ok y -> exists a, r = Ok a /\ f a = Ok y.
Proof. destruct r as [a|e]; cbn [bind]; [eauto | discriminate]. Qed.

Definition total {A} (r : result A) : Prop := exists a, r = Ok a.

Lemma total_bind {A B} (r : result A) (f : A -> result B) :
  total r -> (forall a, r = Ok a -> total (f a)) -> total (bind r f).
Proof. intros [a Ha] H. rewrite Ha. cbn [bind]. apply H. exact Ha. Qed.

Lemma total_pair (r : result (bool * list hev)) : total r <-> exists b evs, r = Ok (b, evs).
Proof.
  split.
  - intros [[b evs] H]. eauto.
  - intros (b & evs & H). exists (b, evs). exact H.
Qed.

Definition cset_ok (c : ectx) : Prop := x_charset c = cs "B" \/ x_charset c = cs "E".

Lemma charset_ok_b_true s : charset_ok_b s = true -> s = cs "B" \/ s = cs "E".
Proof.
  unfold charset_ok_b. intros H. apply orb_true_iff in H as [H|H]; apply str_eqb_eq in H; auto.
Qed.

(* ---------------- elements ---------------- *)
(* an element node given no component at all behaves as on one empty component *)
Lemma elem_nil_data sub c e pc fs :
  elem_is_valid sub c e pc (Some []) fs = elem_is_valid sub c e pc (Some [[]]) fs.
Proof. reflexivity. Qed.

Lemma elem_ok_wf c e : cset_ok c -> elem_ok c e = true -> MapTree.usage_is (e_usage e) "N" = false ->
  exists de, wf_def c e de.
Proof.
  intros Hc H HN. unfold elem_ok in H. rewrite HN in H. cbn [orb] in H.
  apply andb_true_iff in H as [H Hext]. apply andb_true_iff in H as [Hu Hde].
  unfold de_ok in Hde. destruct (get_by_elem_num (x_de c) (e_data_ele e)) as [de|] eqn:G; [|discriminate].
  exists de. unfold wf_def. split; [exact G|]. split.
  { apply orb_true_iff in Hu as [Hu|Hu]; [left | right; left]; exact Hu. }
  split.
  { intros E. rewrite E in Hde. discriminate. }
  split; [|exact Hc].
  unfold ext_ok in Hext. destruct (e_external e) as [k|]; [|exact I].
  destruct k as [|k0 k]; [discriminate|]. split; [discriminate|].
  apply orb_true_iff in Hext as [Hx|Hx]; [left; exact Hx|].
  right. destruct (cs_find _ _ _); [discriminate | discriminate Hx].
Qed.

(* a not-used element: only emptiness is tested *)
Lemma elem_notused_total sub c e pc d fs : MapTree.usage_is (e_usage e) "N" = true ->
  total (elem_is_valid sub c e pc d fs).
Proof.
  intros HN. unfold elem_is_valid.
  destruct d as [[|v [|w r]]|]; try (eexists; reflexivity).
  - cbn [ed_value]. rewrite HN. cbn [orb]. eexists; reflexivity.
  - cbn [ed_value]. destruct v as [|a x].
    + rewrite HN. cbn [orb]. eexists; reflexivity.
    + rewrite HN. cbn [andb negb]. eexists; reflexivity.
  - rewrite HN. cbn [orb]. eexists; reflexivity.
Qed.

Lemma elem_ok_total sub c e pc d fs : cset_ok c -> elem_ok c e = true ->
  total (elem_is_valid sub c e pc d fs).
Proof.
  intros Hc H. destruct (MapTree.usage_is (e_usage e) "N") eqn:HN; [apply elem_notused_total; exact HN|].
  destruct (elem_ok_wf c e Hc H HN) as [de Hwf].
  assert (T : forall v, total (elem_is_valid sub c e pc (edata_of v) fs)).
  { intros v. apply total_pair. apply (elem_total sub c e de pc v fs Hwf). }
  destruct d as [[|v [|w r]]|].
  - rewrite elem_nil_data. exact (T (Some [])).
  - exact (T (Some v)).
  - unfold elem_is_valid. eexists; reflexivity.
  - exact (T None).
Qed.

(* ---------------- composites ---------------- *)
Definition comp_go (sub : ascii) (c : ectx) (cn : comp) :=
  fix go (i : nat) (kids : list elem) (vals : list str) (valid : bool) (acc : list hev) : result (bool * list hev) :=
    match kids with
    | [] => Ok (valid, acc)
    | k :: kids' =>
        let (dv, vals') := match vals with v :: r => (Some [v], r) | [] => (None, []) end in
        do r <- elem_is_valid sub c k (Some (c_usage cn, c_seq cn)) dv [];
        go (S i) kids' vals' (valid && fst r) (acc ++ snd r)
    end.

Definition comp_empty_b (d : edata) : bool :=
  match d with None => true | Some dd => forallb (fun v => match v with [] => true | _ => false end) dd end.

Definition comp_many (cn : comp) (dd : list str) : list hev :=
  if length (c_children cn) <? length dd
  then [HEleErr (cs "3") (cs "Too many sub-elements in composite " ++ (q (c_name cn) ++ cs " (" ++ ostr0 (c_refdes cn) ++ cs ")")) None (c_refdes cn)]
  else [].

Lemma comp_unfold sub c cn d :
  comp_is_valid sub c cn d =
  if comp_empty_b d && (MapTree.usage_is (c_usage cn) "N" || MapTree.usage_is (c_usage cn) "S") then Ok (true, [])
  else if MapTree.usage_is (c_usage cn) "R" && comp_empty_b d then
    Ok (false, [HEleErr (cs "2") (cs "At least one component of composite " ++ (q (c_name cn) ++ cs " (" ++ ostr0 (c_refdes cn) ++ cs ")") ++ cs " is required") None (c_refdes cn)])
  else
    match d with
    | None => Raise TypeError
    | Some dd =>
        if MapTree.usage_is (c_usage cn) "N" && negb (comp_empty_b d) then
          Ok (false, [HEleErr (cs "5") (cs "Composite " ++ (q (c_name cn) ++ cs " (" ++ ostr0 (c_refdes cn) ++ cs ")") ++ cs " is marked as Not Used") None (c_refdes cn)])
        else comp_go sub c cn 0 (c_children cn) dd (match comp_many cn dd with [] => true | _ => false end) (comp_many cn dd)
    end.
Proof. reflexivity. Qed.

Lemma comp_go_total sub c cn kids : cset_ok c -> forallb (elem_ok c) kids = true ->
  forall i vals valid acc, total (comp_go sub c cn i kids vals valid acc).
Proof.
  intros Hc. induction kids as [|k kids IH]; intros Hk i vals valid acc.
  - eexists; reflexivity.
  - cbn [forallb] in Hk. apply andb_true_iff in Hk as [Hk1 Hk2].
    cbn [comp_go]. fold (comp_go sub c cn).
    destruct vals as [|v r]; (apply total_bind; [apply elem_ok_total; assumption|]); intros a _; apply IH; exact Hk2.
Qed.

Lemma comp_ok_total sub c cn d : cset_ok c -> comp_ok c cn = true -> total (comp_is_valid sub c cn d).
Proof.
  intros Hc H. rewrite comp_unfold. unfold comp_ok in H.
  destruct (MapTree.usage_is (c_usage cn) "N") eqn:HN.
  - cbn [orb]. destruct (comp_empty_b d) eqn:E; cbn [andb].
    + eexists; reflexivity.
    + rewrite andb_false_r. destruct d as [dd|]; [|discriminate E]. cbn [negb]. eexists; reflexivity.
  - cbn [orb] in H. apply andb_true_iff in H as [Hu Hk]. cbn [orb].
    destruct (comp_empty_b d) eqn:E; cbn [andb].
    + destruct (MapTree.usage_is (c_usage cn) "S"); [eexists; reflexivity|]. rewrite orb_false_r in Hu. rewrite Hu.
      cbn [andb]. eexists; reflexivity.
    + rewrite andb_false_r. destruct d as [dd|]; [|discriminate E].
      apply comp_go_total; assumption.
Qed.

(* ---------------- children by index ---------------- *)
Lemma child_by_idx_ok c sn i : seq_ok sn = true -> forallb (sub_ok c) (s_children sn) = true ->
  i < length (s_children sn) -> exists ch, child_by_idx sn i = Ok ch /\ sub_ok c ch = true.
Proof.
  intros Hs Hk Hi. unfold seq_ok in Hs. rewrite forallb_forall in Hs.
  specialize (Hs i). rewrite in_seq in Hs. specialize (Hs ltac:(lia)).
  unfold child_by_idx. change (fun ch : sub => (match ch with SubE e => e_seq e | SubC c0 => c_seq c0 end =? Z.of_nat i + 1)%Z)
    with (fun ch => (sub_seq ch =? Z.of_nat i + 1)%Z).
  destruct (filter _ (s_children sn)) as [|ch [|ch2 r]] eqn:F; try discriminate Hs.
  exists ch. split; [reflexivity|].
  assert (Hin : In ch (filter (fun ch => (sub_seq ch =? Z.of_nat i + 1)%Z) (s_children sn))) by (rewrite F; left; reflexivity).
  apply filter_In in Hin as [Hin _]. rewrite forallb_forall in Hk. apply Hk. exact Hin.
Qed.

(* ---------------- syntax notes ---------------- *)
Lemma present_total d sg i : idx_ok i -> total (present d sg i).
Proof. intros H. unfold present. rewrite (value_at d sg i H). cbn [bind]. eexists; reflexivity. Qed.

Lemma first_present_total d sg i : idx_ok i -> total (first_present d sg i).
Proof.
  intros H. unfold first_present. destruct (i <=? N.of_nat (seg_len sg))%N; [|eexists; reflexivity].
  rewrite (value_at d sg i H). cbn [bind]. eexists; reflexivity.
Qed.

Lemma count_present_total d sg idxs : Forall idx_ok idxs -> total (count_present d sg idxs).
Proof.
  intros H. induction H as [|i idxs Hi _ IH]; [eexists; reflexivity|].
  cbn [count_present]. apply total_bind; [apply present_total; exact Hi|]. intros b _.
  apply total_bind; [exact IH|]. intros n _. eexists; reflexivity.
Qed.

Lemma is_syntax_valid_total d sg code idxs : (length idxs <? 2) = true \/ Forall idx_ok idxs ->
  total (is_syntax_valid d sg code idxs).
Proof.
  intros [H|H]; unfold is_syntax_valid.
  { rewrite H. eexists; reflexivity. }
  destruct (length idxs <? 2); [eexists; reflexivity|].
  pose proof (count_present_total d sg idxs H) as C.
  destruct (Ascii.eqb code "P"%char); [apply total_bind; [exact C|]; intros; eexists; reflexivity|].
  destruct (Ascii.eqb code "R"%char); [apply total_bind; [exact C|]; intros; eexists; reflexivity|].
  destruct (Ascii.eqb code "E"%char); [apply total_bind; [exact C|]; intros; eexists; reflexivity|].
  destruct (Ascii.eqb code "C"%char).
  { destruct idxs as [|i0 rest]; [eexists; reflexivity|]. inversion H as [|? ? H0 Hr]; subst.
    apply total_bind; [apply first_present_total; exact H0|]. intros [|] _; [|eexists; reflexivity].
    apply total_bind; [apply count_present_total; exact Hr|]. intros; eexists; reflexivity. }
  destruct (Ascii.eqb code "L"%char).
  { destruct idxs as [|i0 rest]; [eexists; reflexivity|]. inversion H as [|? ? H0 Hr]; subst.
    apply total_bind; [apply first_present_total; exact H0|]. intros [|] _; [|eexists; reflexivity].
    apply total_bind; [apply count_present_total; exact Hr|]. intros; eexists; reflexivity. }
  eexists; reflexivity.
Qed.

Lemma syn_note_idx nt : syn_note_ok nt = true ->
  (length (map Z.to_N (snd nt)) <? 2) = true \/ Forall idx_ok (map Z.to_N (snd nt)).
Proof.
  unfold syn_note_ok. intros H. apply orb_true_iff in H as [H|H].
  - left. rewrite map_length. exact H.
  - right. rewrite forallb_forall in H. apply Forall_forall. intros n Hn.
    apply in_map_iff in Hn as (z & <- & Hz). specialize (H z Hz). apply andb_true_iff in H as [H1 H2].
    apply Z.leb_le in H1, H2. unfold idx_ok. lia.
Qed.

Lemma syntax_loop_total d sg notes : forallb syn_note_ok notes = true ->
  total (syntax_loop d sg (map (fun nt => (fst nt, map Z.to_N (snd nt))) notes)).
Proof.
  induction notes as [|nt notes IH]; intros H; [eexists; reflexivity|].
  cbn [forallb] in H. apply andb_true_iff in H as [H1 H2].
  cbn [map syntax_loop]. apply total_bind; [apply is_syntax_valid_total, syn_note_idx; exact H1|]. intros ok _.
  apply total_bind; [apply IH; exact H2|]. intros more _. eexists; reflexivity.
Qed.

(* ---------------- the segment loops, named ---------------- *)
Definition seg_missing (d : delims) (c : ectx) (sn : segm) (sg : seg) :=
  fix missing (j : nat) (fuel : nat) (valid : bool) (acc : list hev) : result (bool * list hev) :=
    match fuel with
    | 0 =>
        do syn <- syntax_loop d sg (map (fun nt => (fst nt, map Z.to_N (snd nt))) (s_syntax sn));
        Ok (valid && (match syn with [] => true | _ => false end),
            acc ++ map (fun code => HEleErr code (cs "Syntax Error") None None) syn)
    | S f =>
        do ch <- child_by_idx sn j;
        do r <- (match ch with
                 | SubE e => elem_is_valid (subele_term d) c e None None []
                 | SubC cn => comp_is_valid (subele_term d) c cn None
                 end);
        missing (S j) f (valid && fst r) (acc ++ snd r)
    end.

Definition comp_sub_ev (d : delims) (sg : seg) (cn : comp) (i : nat) (v : composite) : list hev :=
  if (length (c_children cn) <? length v) && negb (MapTree.usage_is (c_usage cn) "N")
  then [HEleErr (cs "3") (cs "Too many sub-elements in composite " ++ q (c_name cn) ++ cs " (" ++ ostr0 (c_refdes cn) ++ cs ")")
                (seg_val d sg (S i)) (Some (fmt_02 (N.of_nat (S i))))]
  else [].

Definition dtp_formats (d : delims) (sg : seg) (i : nat) (dtype : list (option str)) : list (option str) :=
  if (i =? 1) && ostr_eqb (sid sg) (Some (cs "DTP")) &&
     match seg_val d sg 2 with
     | Some x => mem_str x [cs "RD8"; cs "D8"; cs "D6"; cs "DT"; cs "TM"]
     | None => false end
  then [seg_val d sg 2] else dtype.

Definition qual_formats (e : elem) (type_list : list (option str)) : list (option str) :=
  if ostr_eqb (e_data_ele e) (Some (cs "1250")) then type_list ++ e_codes e else type_list.

(* the formats handed to the element at index i *)
Definition elem_formats (sg : seg) (e : elem) (i : nat) (dtype' type_list' : list (option str)) : list (option str) :=
  if (i =? 2) && ostr_eqb (sid sg) (Some (cs "DTP")) then dtype'
  else if ostr_eqb (e_data_ele e) (Some (cs "1251")) && negb (match type_list' with [] => true | _ => false end)
  then type_list' else [].

Definition seg_present (d : delims) (c : ectx) (sn : segm) (sg : seg) :=
  fix present (i : nat) (vals : list composite) (dtype : list (option str)) (type_list : list (option str))
              (valid : bool) (acc : list hev) : result (bool * list hev) :=
    match vals with
    | [] => seg_missing d c sn sg i (length (s_children sn) - i) valid acc
    | v :: vals' =>
        if length (s_children sn) <=? i then present (S i) vals' dtype type_list valid acc
        else
          do ch <- child_by_idx sn i;
          match ch with
          | SubC cn =>
              do r <- comp_is_valid (subele_term d) c cn (Some v);
              present (S i) vals' dtype type_list (valid && fst r) (acc ++ comp_sub_ev d sg cn i v ++ snd r)
          | SubE e =>
              do r <- elem_is_valid (subele_term d) c e None (Some v)
                        (elem_formats sg e i (dtp_formats d sg i dtype) (qual_formats e type_list));
              present (S i) vals' (dtp_formats d sg i dtype) (qual_formats e type_list) (valid && fst r) (acc ++ snd r)
          end
    end.

Definition seg_many (d : delims) (sn : segm) (sg : seg) : list hev :=
  if length (s_children sn) <? length (els sg) then
    [HEleErr (cs "3") (cs "Too many elements in segment " ++ q (s_name sn) ++ cs " (" ++ ostr0 (sid sg) ++ cs "). Has " ++
                       fmt_i (Z.of_nat (length (els sg))) ++ cs ", should have " ++ fmt_i (Z.of_nat (length (s_children sn))))
             (seg_val d sg (S (length (s_children sn)))) (Some (fmt_02 (N.of_nat (S (length (s_children sn))))))]
  else [].

Lemma elem_formats_eq d c e sg i v dtype' type_list' :
  (if (i =? 2) && ostr_eqb (sid sg) (Some (cs "DTP")) then elem_is_valid (subele_term d) c e None (Some v) dtype'
   else if ostr_eqb (e_data_ele e) (Some (cs "1251")) && negb (match type_list' with [] => true | _ => false end)
   then elem_is_valid (subele_term d) c e None (Some v) type_list'
   else elem_is_valid (subele_term d) c e None (Some v) []) =
  elem_is_valid (subele_term d) c e None (Some v) (elem_formats sg e i dtype' type_list').
Proof.
  unfold elem_formats. destruct ((i =? 2) && _); [reflexivity|]. destruct (_ && _); reflexivity.
Qed.

Lemma seg_present_step d c sn sg i v vals' dtype type_list valid acc :
  seg_present d c sn sg i (v :: vals') dtype type_list valid acc =
  if length (s_children sn) <=? i then seg_present d c sn sg (S i) vals' dtype type_list valid acc
  else
    do ch <- child_by_idx sn i;
    match ch with
    | SubC cn =>
        do r <- comp_is_valid (subele_term d) c cn (Some v);
        seg_present d c sn sg (S i) vals' dtype type_list (valid && fst r) (acc ++ comp_sub_ev d sg cn i v ++ snd r)
    | SubE e =>
        do r <- elem_is_valid (subele_term d) c e None (Some v)
                  (elem_formats sg e i (dtp_formats d sg i dtype) (qual_formats e type_list));
        seg_present d c sn sg (S i) vals' (dtp_formats d sg i dtype) (qual_formats e type_list) (valid && fst r) (acc ++ snd r)
    end.
Proof. reflexivity. Qed.

Lemma seg_missing_step d c sn sg j f valid acc :
  seg_missing d c sn sg j (S f) valid acc =
  do ch <- child_by_idx sn j;
  do r <- (match ch with
           | SubE e => elem_is_valid (subele_term d) c e None None []
           | SubC cn => comp_is_valid (subele_term d) c cn None
           end);
  seg_missing d c sn sg (S j) f (valid && fst r) (acc ++ snd r).
Proof. reflexivity. Qed.

Lemma seg_missing_zero d c sn sg j valid acc :
  seg_missing d c sn sg j 0 valid acc =
  do syn <- syntax_loop d sg (map (fun nt => (fst nt, map Z.to_N (snd nt))) (s_syntax sn));
  Ok (valid && (match syn with [] => true | _ => false end),
      acc ++ map (fun code => HEleErr code (cs "Syntax Error") None None) syn).
Proof. reflexivity. Qed.

Lemma seg_unfold d c sn sg :
  seg_is_valid d c sn sg =
  seg_present d c sn sg 0 (els sg) [] [] (match seg_many d sn sg with [] => true | _ => false end) (seg_many d sn sg).
Proof.
  unfold seg_is_valid, seg_present, seg_many.
  (* the only difference is the inlined choice of the format list *)
  set (P1 := fix present (i : nat) (vals : list composite) (dtype type_list : list (option str)) (valid : bool) (acc : list hev)
               {struct vals} : result (bool * list hev) := _).
  set (P2 := fix present (i : nat) (vals : list composite) (dtype type_list : list (option str)) (valid : bool) (acc : list hev)
               {struct vals} : result (bool * list hev) := _).
  assert (E : forall vals i dtype type_list valid acc, P1 i vals dtype type_list valid acc = P2 i vals dtype type_list valid acc).
  { induction vals as [|v vals IH]; intros; [reflexivity|].
    change (P1 i (v :: vals) dtype type_list valid acc) with
      (if length (s_children sn) <=? i then P1 (S i) vals dtype type_list valid acc
       else do ch <- child_by_idx sn i;
            match ch with
            | SubC cn =>
                do r <- comp_is_valid (subele_term d) c cn (Some v);
                P1 (S i) vals dtype type_list (valid && fst r) (acc ++ comp_sub_ev d sg cn i v ++ snd r)
            | SubE e =>
                do r <- (if (i =? 2) && ostr_eqb (sid sg) (Some (cs "DTP"))
                         then elem_is_valid (subele_term d) c e None (Some v) (dtp_formats d sg i dtype)
                         else if ostr_eqb (e_data_ele e) (Some (cs "1251")) && negb (match qual_formats e type_list with [] => true | _ => false end)
                         then elem_is_valid (subele_term d) c e None (Some v) (qual_formats e type_list)
                         else elem_is_valid (subele_term d) c e None (Some v) []);
                P1 (S i) vals (dtp_formats d sg i dtype) (qual_formats e type_list) (valid && fst r) (acc ++ snd r)
            end).
    change (P2 i (v :: vals) dtype type_list valid acc) with
      (if length (s_children sn) <=? i then P2 (S i) vals dtype type_list valid acc
       else do ch <- child_by_idx sn i;
            match ch with
            | SubC cn =>
                do r <- comp_is_valid (subele_term d) c cn (Some v);
                P2 (S i) vals dtype type_list (valid && fst r) (acc ++ comp_sub_ev d sg cn i v ++ snd r)
            | SubE e =>
                do r <- elem_is_valid (subele_term d) c e None (Some v)
                          (elem_formats sg e i (dtp_formats d sg i dtype) (qual_formats e type_list));
                P2 (S i) vals (dtp_formats d sg i dtype) (qual_formats e type_list) (valid && fst r) (acc ++ snd r)
            end).
    destruct (length (s_children sn) <=? i); [apply IH|].
    destruct (child_by_idx sn i) as [[e|cn]|]; cbn [bind]; [| |reflexivity].
    - rewrite elem_formats_eq. destruct (elem_is_valid _ _ _ _ _ _); cbn [bind]; [apply IH | reflexivity].
    - destruct (comp_is_valid _ _ _ _); cbn [bind]; [apply IH | reflexivity]. }
  apply E.
Qed.

(* ---------------- totality of the segment loops ---------------- *)
Definition seg_okP (c : ectx) (sn : segm) : Prop :=
  seq_ok sn = true /\ forallb (sub_ok c) (s_children sn) = true /\ forallb syn_note_ok (s_syntax sn) = true.

Lemma seg_ok_P c sn : seg_ok c sn = true -> seg_okP c sn.
Proof.
  unfold seg_ok, seg_okP. intros H. apply andb_true_iff in H as [H H3]. apply andb_true_iff in H as [H1 H2]. auto.
Qed.

Lemma seg_missing_total d c sn sg : cset_ok c -> seg_okP c sn ->
  forall fuel j valid acc, fuel <= length (s_children sn) - j -> total (seg_missing d c sn sg j fuel valid acc).
Proof.
  intros Hc (H1 & H2 & H3). induction fuel as [|f IH]; intros j valid acc Hf.
  - rewrite seg_missing_zero. apply total_bind; [apply syntax_loop_total; exact H3|]. intros; eexists; reflexivity.
  - rewrite seg_missing_step.
    destruct (child_by_idx_ok c sn j H1 H2 ltac:(lia)) as (ch & Hch & Hok). rewrite Hch. cbn [bind].
    apply total_bind.
    + destruct ch as [e|cn]; cbn [sub_ok] in Hok; [apply elem_ok_total | apply comp_ok_total]; assumption.
    + intros r _. apply IH. lia.
Qed.

Lemma seg_present_total d c sn sg : cset_ok c -> seg_okP c sn ->
  forall vals i dtype type_list valid acc, total (seg_present d c sn sg i vals dtype type_list valid acc).
Proof.
  intros Hc Hok. pose proof Hok as (H1 & H2 & H3).
  induction vals as [|v vals IH]; intros i dtype type_list valid acc.
  - apply seg_missing_total; auto.
  - rewrite seg_present_step. destruct (Nat.leb_spec (length (s_children sn)) i) as [L|L]; [apply IH|].
    destruct (child_by_idx_ok c sn i H1 H2 L) as (ch & Hch & Hs). rewrite Hch. cbn [bind].
    destruct ch as [e|cn]; cbn [sub_ok] in Hs.
    + apply total_bind; [apply elem_ok_total; assumption|]. intros r _. apply IH.
    + apply total_bind; [apply comp_ok_total; assumption|]. intros r _. apply IH.
Qed.

Theorem seg_total d c sn sg : cset_ok c -> seg_ok c sn = true ->
  exists b evs, seg_is_valid d c sn sg = Ok (b, evs).
Proof.
  intros Hc H. apply total_pair. rewrite seg_unfold. apply seg_present_total; [exact Hc | apply seg_ok_P; exact H].
Qed.

(* ---------------- the segment nodes of a map ---------------- *)
Definition seg_node_of (m : xmap) (sn : segm) : Prop := exists r, node_at (root_nodes m) r = Some (NSeg sn).

Lemma forallb_nth {A} (f : A -> bool) (xs : list A) i x : forallb f xs = true -> nth_error xs i = Some x -> f x = true.
Proof. intros H E. rewrite forallb_forall in H. apply H. eapply nth_error_In; eauto. Qed.

Lemma node_children_ok c n : node_ok c n = true -> forallb (node_ok c) (node_children n) = true.
Proof.
  destruct n as [i t nm u p rp pm|sn]; [|reflexivity]. cbn [node_ok node_children]. unfold pm_nodes.
  induction pm as [|[k ns] pm IH]; [reflexivity|]. cbn [forallb flat_map snd]. intros H.
  apply andb_true_iff in H as [Ha Hb]. rewrite forallb_app, Ha. cbn [andb]. apply IH. exact Hb.
Qed.

Lemma node_at_ok c r : forall ns n, forallb (node_ok c) ns = true -> node_at ns r = Some n -> node_ok c n = true.
Proof.
  induction r as [|i rest IH]; intros ns n H E; [discriminate E|].
  cbn [node_at] in E. destruct (nth_error ns i) as [n0|] eqn:N; [|discriminate E].
  pose proof (forallb_nth _ _ _ _ H N) as H0.
  destruct rest as [|j rest']; [injection E as <-; exact H0|].
  apply (IH (node_children n0) n); [apply node_children_ok; exact H0 | exact E].
Qed.

Lemma valid_wf_seg m sn : valid_wf m = true -> seg_node_of m sn -> cset_ok (ctx_of m) /\ seg_ok (ctx_of m) sn = true.
Proof.
  unfold valid_wf. intros H [r Hr]. apply andb_true_iff in H as [Hc Hn]. split.
  - apply charset_ok_b_true. exact Hc.
  - exact (node_at_ok (ctx_of m) r _ _ Hn Hr).
Qed.

(* THE THEOREM: on a well-formed map, validation of ANY data segment against any segment node returns *)
Theorem validation_total :
  forall m sn d sg, valid_wf m = true -> seg_node_of m sn ->
    exists b evs, seg_is_valid d (ctx_of m) sn sg = Ok (b, evs).
Proof.
  intros m sn d sg H Hs. destruct (valid_wf_seg m sn H Hs) as [Hc Hok]. apply seg_total; assumption.
Qed.

(* ================= consistency of the boolean with the reported events ================= *)
(* no error event (ele_error call) among the handler calls *)
Definition no_err (evs : list hev) : bool := forallb (fun h => negb (is_err h)) evs.

Lemma no_err_app a b : no_err (a ++ b) = no_err a && no_err b.
Proof. apply forallb_app. Qed.

Lemma no_err_all_err l : forallb is_err l = true -> no_err l = isnil l.
Proof. destruct l as [|h l]; [reflexivity|]. cbn. destruct (is_err h); [reflexivity | discriminate]. Qed.

Lemma no_err_spec evs : no_err evs = true <-> forall h, In h evs -> is_err h = false.
Proof.
  unfold no_err. rewrite forallb_forall. split; intros H h Hh; specialize (H h Hh).
  - destruct (is_err h); [discriminate | reflexivity].
  - rewrite H. reflexivity.
Qed.

(* the qualifier-selected formats: the pair returned is consistent when the list is empty or names TM / a date type *)
Lemma tl_bool c v fs r m9 m8 v9 v8 tl :
  fmt_list_ok fs = true ->
  match fs with
  | [] => Ok (true, [])
  | _ :: _ =>
      do anyv <- any_valid_type c v fs;
      if anyv then Ok (true, [])
      else if existsb (ostr_eqb (Some (cs "TM"))) fs then Ok (false, [mk_ev r "9" m9 v9])
      else if existsb is_date_type fs then Ok (false, [mk_ev r "8" m8 v8])
      else Ok (false, [])
  end = Ok tl ->
  fst tl = isnil (snd tl) /\ forallb is_err (snd tl) = true.
Proof.
  intros Hf H. destruct fs as [|f fs'].
  - injection H as <-. split; reflexivity.
  - apply bind_ok in H as (anyv & _ & H). destruct anyv; [injection H as <-; split; reflexivity|].
    unfold fmt_list_ok in Hf. change C07_valid_wf.l with cs in Hf.
    destruct (existsb (ostr_eqb (Some (cs "TM"))) (f :: fs')); [injection H as <-; split; reflexivity|].
    destruct (existsb is_date_type (f :: fs')); [injection H as <-; split; reflexivity|].
    discriminate Hf.
Qed.

(* the checks of element_if.is_valid on a value (after the emptiness / usage shortcuts), named *)
Definition elem_main (c : ectx) (e : elem) (pre : list hev) (v : str) (type_list : list (option str)) : result (bool * list hev) :=
  let refdes := e_id e in
  let nm := q (e_name e) ++ cs " (" ++ ostr0 refdes ++ cs ")" in
  if MapTree.usage_is (e_usage e) "N" && negb (match v with [] => true | _ => false end) then
    Ok (false, pre ++ [mk_ev refdes "10" (cs "Data element " ++ nm ++ cs " is marked as Not Used") None])
  else
    do de <- get_by_elem_num (x_de c) (e_data_ele e);
    let ty := de_type de in
    do numeric <- (match ty with
                   | None => Ok false
                   | Some t => if str_eqb t (cs "R") then Ok true
                               else match t with c0 :: _ => Ok (Ascii.eqb c0 "N"%char) | [] => Raise IndexError end
                   end);
    let measured := if numeric then replace_char "."%char (replace_char "-"%char v) else v in
    let len := Z.of_nat (length measured) in
    let e_short := if (len <? de_min de)%Z then [mk_ev refdes "4" (lenmsg nm v len "short" "<" (de_min de) "min_len") (Some v)] else [] in
    let e_long := if (de_max de <? len)%Z then [mk_ev refdes "5" (lenmsg nm v len "long" ">" (de_max de) "max_len") (Some v)] else [] in
    let valid0 := match e_short ++ e_long with [] => true | _ => false end in
    match contains_control_character v with
    | Some bad =>
        Ok (false, pre ++ e_short ++ e_long ++
                   [mk_ev refdes "6" (cs "Data element " ++ nm ++ cs ", contains an invalid control character(" ++ bad ++ cs ")") (Some bad)])
    | None =>
      do lastc <- last_char v;
      let is_an_id := match ty with Some t => mem_str t [cs "AN"; cs "ID"] | None => false end in
      let e_trail :=
        if is_an_id && Ascii.eqb lastc " "%char && (de_min de <=? Z.of_nat (length (rstrip_ws v)))%Z
        then [mk_ev refdes "6" (cs "Data element " ++ nm ++ cs " has unnecessary trailing spaces. (" ++ v ++ cs ")") (Some v)] else [] in
      do code_ok <- is_valid_code c e v;
      let e_code := if code_ok then []
                    else [mk_ev refdes "7" (cs "(" ++ v ++ cs ") is not a valid code for " ++ ostr0 (e_name e) ++ cs " (" ++ ostr0 refdes ++ cs ")") (Some v)] in
      do type_ok <- valid_type c v ty true;
      let e_type :=
        if type_ok then []
        else if is_date_type ty then [mk_ev refdes "8" (cs "Data element " ++ nm ++ cs " contains an invalid date (" ++ v ++ cs ")") (Some v)]
        else if ostr_eqb ty (Some (cs "TM")) then [mk_ev refdes "9" (cs "Data element " ++ nm ++ cs " contains an invalid time (" ++ v ++ cs ")") (Some v)]
        else [mk_ev refdes "6" (cs "Data element " ++ nm ++ cs " is type " ++ ostr0 ty ++ cs ", contains an invalid character(" ++ v ++ cs ")") (Some v)] in
      do tl <- (match type_list with
                | [] => Ok (true, [])
                | _ =>
                    do anyv <- any_valid_type c v type_list;
                    if anyv then Ok (true, [])
                    else if existsb (ostr_eqb (Some (cs "TM"))) type_list
                    then Ok (false, [mk_ev refdes "9" (cs "Data element " ++ nm ++ cs " contains an invalid time (" ++ v ++ cs ")") (Some v)])
                    else if existsb is_date_type type_list
                    then Ok (false, [mk_ev refdes "8" (cs "Data element " ++ nm ++ cs " contains an invalid date (" ++ v ++ cs ")") (Some v)])
                    else Ok (false, [])
                end);
      let e_rx := match e_rec e with
                  | Some r => match search r v with
                              | Some _ => []
                              | None => [mk_ev refdes "7" (cs "Data element " ++ q (e_name e) ++ cs " with a value of (" ++ v ++ cs ")" ++
                                                  cs " failed to match the regular expression """ ++ ostr0 (e_res e) ++ cs """") (Some v)]
                              end
                  | None => []
                  end in
      let errs := e_short ++ e_long ++ e_trail ++ e_code ++ e_type ++ snd tl ++ e_rx in
      Ok (valid0 && (match e_trail ++ e_code ++ e_type ++ e_rx with [] => true | _ => false end) && fst tl, pre ++ errs)
    end.

Definition elem_pre (e : elem) (pc : option (option str * Z)) : list hev :=
  [HAddEle {| ei_data_ele := e_data_ele e; ei_name := e_name e; ei_seq := e_seq e;
              ei_parent_is_composite := match pc with Some _ => true | None => false end;
              ei_parent_seq := match pc with Some (_, s0) => s0 | None => 0%Z end |}].

(* every evaluation of element_if.is_valid is one of: a shortcut with a consistent pair, the
   AttributeError, or the named checks on a value *)
Lemma elem_cases sub c e pc d fs :
  (exists b evs, elem_is_valid sub c e pc d fs = Ok (b, evs) /\ b = no_err evs) \/
  (exists x, elem_is_valid sub c e pc d fs = Raise x) \/
  (exists v, elem_is_valid sub c e pc d fs = elem_main c e (elem_pre e pc) v fs).
Proof.
  unfold elem_is_valid.
  destruct d as [[|v [|w r]]|]; cbn [ed_value].
  - (* Some [] *)
    destruct (MapTree.usage_is (e_usage e) "N" || MapTree.usage_is (e_usage e) "S").
    { left. eexists; eexists; split; reflexivity. }
    destruct (MapTree.usage_is (e_usage e) "R").
    { left; eexists; eexists; split; reflexivity. }
    right; right. exists []. reflexivity.
  - (* Some [v] *)
    destruct v as [|a x].
    + destruct (MapTree.usage_is (e_usage e) "N" || MapTree.usage_is (e_usage e) "S").
      { left. eexists; eexists; split; reflexivity. }
      destruct (MapTree.usage_is (e_usage e) "R").
      { left; eexists; eexists; split; reflexivity. }
      right; right. exists []. reflexivity.
    + right; right. exists (a :: x). reflexivity.
  - left. eexists; eexists; split; reflexivity.
  - destruct (MapTree.usage_is (e_usage e) "N" || MapTree.usage_is (e_usage e) "S").
    { left. eexists; eexists; split; reflexivity. }
    destruct (MapTree.usage_is (e_usage e) "R").
    { left; eexists; eexists; split; reflexivity. }
    right; left. eexists; reflexivity.
Qed.

Lemma all_err_ifb (b : bool) r code m v : forallb is_err (if b then [mk_ev r code m v] else []) = true.
Proof. destruct b; reflexivity. Qed.

Lemma all_err_ifn (b : bool) r code m v : forallb is_err (if b then [] else [mk_ev r code m v]) = true.
Proof. destruct b; reflexivity. Qed.

Lemma elem_main_bool c e pre v fs b evs :
  fmt_list_ok fs = true -> no_err pre = true -> elem_main c e pre v fs = Ok (b, evs) -> b = no_err evs.
Proof.
  intros Hf Hp H. unfold elem_main in H. cbv zeta in H.
  destruct (MapTree.usage_is (e_usage e) "N" && _).
  { injection H as <- <-. rewrite no_err_app, andb_comm. reflexivity. }
  apply bind_ok in H as (de & _ & H). apply bind_ok in H as (numeric & _ & H).
  destruct (contains_control_character v) as [bad|].
  { injection H as <- <-. rewrite !no_err_app. cbn [no_err forallb is_err mk_ev negb]. rewrite !andb_false_r. reflexivity. }
  apply bind_ok in H as (lastc & _ & H). apply bind_ok in H as (code_ok & _ & H).
  apply bind_ok in H as (type_ok & _ & H). apply bind_ok in H as (tl & Htl & H).
  apply (tl_bool c v fs _ _ _ _ _ tl Hf) in Htl as [Htl1 Htl2].
  injection H as <- <-.
  match goal with |- context [ pre ++ ?E4 ++ ?E5 ++ ?E6 ++ ?E7 ++ ?ET ++ snd tl ++ ?ER ] =>
    set (e4 := E4); set (e5 := E5); set (e6 := E6); set (e7 := E7); set (eT := ET); set (eR := ER) end.
  assert (G4 : forallb is_err e4 = true) by apply all_err_ifb.
  assert (G5 : forallb is_err e5 = true) by apply all_err_ifb.
  assert (G6 : forallb is_err e6 = true) by apply all_err_ifb.
  assert (G7 : forallb is_err e7 = true) by apply all_err_ifn.
  assert (GT : forallb is_err eT = true).
  { subst eT. destruct type_ok; [reflexivity|]. destruct (is_date_type _); [reflexivity|]. destruct (ostr_eqb _ _); reflexivity. }
  assert (GR : forallb is_err eR = true).
  { subst eR. destruct (e_rec e) as [r|]; [|reflexivity]. destruct (search r v); reflexivity. }
  change (match e4 ++ e5 with [] => true | _ :: _ => false end) with (isnil (e4 ++ e5)).
  change (match e6 ++ e7 ++ eT ++ eR with [] => true | _ :: _ => false end) with (isnil (e6 ++ e7 ++ eT ++ eR)).
  rewrite !no_err_app, !isnil_app, Hp, Htl1.
  rewrite (no_err_all_err e4 G4), (no_err_all_err e5 G5), (no_err_all_err e6 G6), (no_err_all_err e7 G7),
          (no_err_all_err eT GT), (no_err_all_err eR GR), (no_err_all_err _ Htl2).
  destruct (isnil e4), (isnil e5), (isnil e6), (isnil e7), (isnil eT), (isnil eR), (isnil (snd tl)); reflexivity.
Qed.

(* element_if.is_valid: the boolean is true exactly when no error was reported *)
Lemma elem_bool_gen sub c e pc d fs b evs :
  fmt_list_ok fs = true -> elem_is_valid sub c e pc d fs = Ok (b, evs) -> b = no_err evs.
Proof.
  intros Hf H. destruct (elem_cases sub c e pc d fs) as [(b' & evs' & E & Hb)|[(x & E)|(v & E)]]; rewrite E in H.
  - injection H as <- <-. exact Hb.
  - discriminate H.
  - apply (elem_main_bool c e (elem_pre e pc) v fs b evs Hf eq_refl H).
Qed.

Lemma fmt_nil : fmt_list_ok [] = true.
Proof. reflexivity. Qed.

(* composite_if.is_valid *)
Lemma comp_go_bool sub c cn kids : forall i vals valid acc b evs,
  valid = no_err acc -> comp_go sub c cn i kids vals valid acc = Ok (b, evs) -> b = no_err evs.
Proof.
  induction kids as [|k kids IH]; intros i vals valid acc b evs Hv H.
  - injection H as <- <-. exact Hv.
  - cbn [comp_go] in H. fold (comp_go sub c cn) in H.
    destruct vals as [|v r]; apply bind_ok in H as ([b1 e1] & H1 & H); cbn [fst snd] in H;
      apply (elem_bool_gen _ _ _ _ _ _ _ _ fmt_nil) in H1;
      apply IH in H; [exact H | rewrite no_err_app; congruence | exact H | rewrite no_err_app; congruence].
Qed.

Lemma comp_bool_gen sub c cn d b evs : comp_is_valid sub c cn d = Ok (b, evs) -> b = no_err evs.
Proof.
  rewrite comp_unfold. intros H.
  destruct (comp_empty_b d && _); [injection H as <- <-; reflexivity|].
  destruct (MapTree.usage_is (c_usage cn) "R" && _); [injection H as <- <-; reflexivity|].
  destruct d as [dd|]; [|discriminate H].
  destruct (MapTree.usage_is (c_usage cn) "N" && _); [injection H as <- <-; reflexivity|].
  apply comp_go_bool in H; [exact H|].
  unfold comp_many. destruct (_ <? _); reflexivity.
Qed.

Lemma child_by_idx_in sn i ch : child_by_idx sn i = Ok ch -> In ch (s_children sn).
Proof.
  unfold child_by_idx. intros H.
  destruct (filter _ (s_children sn)) as [|ch0 [|ch2 r]] eqn:F; try discriminate H. injection H as <-.
  assert (Hin : In ch0 (filter (fun ch => (match ch with SubE e => e_seq e | SubC c0 => c_seq c0 end =? Z.of_nat i + 1)%Z) (s_children sn)))
    by (rewrite F; left; reflexivity).
  apply filter_In in Hin as [Hin _]. exact Hin.
Qed.

(* the format lists stay well formed along the segment *)
Lemma fmt_list_ok_app a b : fmt_list_ok a = true -> fmt_list_ok b = true -> fmt_list_ok (a ++ b) = true.
Proof.
  intros Ha Hb. destruct a as [|x a]; [exact Hb|].
  change ((x :: a) ++ b) with (x :: (a ++ b)). unfold fmt_list_ok in *.
  change (x :: a ++ b) with ((x :: a) ++ b). rewrite !existsb_app.
  apply orb_true_iff in Ha as [Ha|Ha]; rewrite Ha; cbn [orb]; [reflexivity | apply orb_true_r].
Qed.

Lemma five_formats_ok x : mem_str x [cs "RD8"; cs "D8"; cs "D6"; cs "DT"; cs "TM"] = true -> fmt_list_ok [Some x] = true.
Proof.
  intros H. apply mem_str_In in H. cbn [In] in H.
  destruct H as [<-|[<-|[<-|[<-|[<-|[]]]]]]; vm_compute; reflexivity.
Qed.

Lemma dtp_formats_ok d sg i dtype : fmt_list_ok dtype = true -> fmt_list_ok (dtp_formats d sg i dtype) = true.
Proof.
  intros H. unfold dtp_formats. destruct ((i =? 1) && _); cbn [andb]; [|exact H].
  destruct (seg_val d sg 2) as [x|]; [|exact H].
  destruct (mem_str x _) eqn:M; [|exact H]. apply five_formats_ok. exact M.
Qed.

Lemma qual_formats_ok sn e tl : seg_fmt_ok sn = true -> In (SubE e) (s_children sn) ->
  fmt_list_ok tl = true -> fmt_list_ok (qual_formats e tl) = true.
Proof.
  intros Hs Hin H. unfold qual_formats. unfold seg_fmt_ok in Hs. rewrite forallb_forall in Hs.
  specialize (Hs _ Hin). cbn beta iota in Hs. change C07_valid_wf.l with cs in Hs.
  destruct (ostr_eqb (e_data_ele e) (Some (cs "1250"))); [|exact H].
  apply fmt_list_ok_app; assumption.
Qed.

Lemma elem_formats_ok sg e i a b : fmt_list_ok a = true -> fmt_list_ok b = true -> fmt_list_ok (elem_formats sg e i a b) = true.
Proof.
  intros Ha Hb. unfold elem_formats. destruct ((i =? 2) && _); [exact Ha|]. destruct (_ && _); [exact Hb | reflexivity].
Qed.

(* a relation between the running boolean and "no error so far" that every exact step preserves *)
Definition step_closed (P : bool -> bool -> Prop) : Prop := forall x y t, P x y -> P (x && t) (y && t).

Lemma seg_missing_rel d c sn sg (P : bool -> bool -> Prop) : step_closed P ->
  forall fuel j valid acc b evs,
  P valid (no_err acc) -> seg_missing d c sn sg j fuel valid acc = Ok (b, evs) -> P b (no_err evs).
Proof.
  intros HP. induction fuel as [|f IH]; intros j valid acc b evs Hv H.
  - rewrite seg_missing_zero in H. apply bind_ok in H as (syn & _ & H). injection H as <- <-.
    rewrite no_err_app. replace (no_err (map _ syn)) with (match syn with [] => true | _ => false end) by (destruct syn; reflexivity).
    apply HP. exact Hv.
  - rewrite seg_missing_step in H. apply bind_ok in H as (ch & _ & H). apply bind_ok in H as ([b1 e1] & H1 & H).
    cbn [fst snd] in H. apply IH in H; [exact H|]. rewrite no_err_app.
    replace (no_err e1) with b1; [apply HP; exact Hv|].
    destruct ch as [e|cn]; [apply (elem_bool_gen _ _ _ _ _ _ _ _ fmt_nil H1) | apply (comp_bool_gen _ _ _ _ _ _ H1)].
Qed.

Lemma seg_present_rel d c sn sg (P : bool -> bool -> Prop) : step_closed P -> seg_fmt_ok sn = true ->
  forall vals i dtype type_list valid acc b evs,
  (forall k v cn r, nth_error vals k = Some v -> child_by_idx sn (i + k) = Ok (SubC cn) ->
     comp_is_valid (subele_term d) c cn (Some v) = Ok r ->
     forall x y, P x y -> P (x && fst r) (y && no_err (comp_sub_ev d sg cn (i + k) v) && fst r)) ->
  fmt_list_ok dtype = true -> fmt_list_ok type_list = true -> P valid (no_err acc) ->
  seg_present d c sn sg i vals dtype type_list valid acc = Ok (b, evs) -> P b (no_err evs).
Proof.
  intros HP Hs. induction vals as [|v vals IH]; intros i dtype type_list valid acc b evs Hsub Hd Ht Hv H.
  - apply (seg_missing_rel d c sn sg P HP) in H; assumption.
  - assert (Hsub' : forall k v0 cn r, nth_error vals k = Some v0 -> child_by_idx sn (S i + k) = Ok (SubC cn) ->
              comp_is_valid (subele_term d) c cn (Some v0) = Ok r ->
              forall x y, P x y -> P (x && fst r) (y && no_err (comp_sub_ev d sg cn (S i + k) v0) && fst r)).
    { intros k v0 cn r Hk. replace (S i + k) with (i + S k) by lia. apply Hsub. exact Hk. }
    rewrite seg_present_step in H. destruct (length (s_children sn) <=? i); [apply IH in H; assumption|].
    apply bind_ok in H as (ch & Hch & H).
    destruct ch as [e|cn]; apply bind_ok in H as ([b1 e1] & H1 & H); cbn [fst snd] in H.
    + apply child_by_idx_in in Hch.
      pose proof (dtp_formats_ok d sg i dtype Hd) as Hd'.
      pose proof (qual_formats_ok sn e type_list Hs Hch Ht) as Ht'.
      apply elem_bool_gen in H1; [|apply elem_formats_ok; assumption].
      apply IH in H; [exact H | exact Hsub' | exact Hd' | exact Ht' |]. rewrite no_err_app, <- H1. apply HP. exact Hv.
    + pose proof (Hsub 0 v cn (b1, e1) eq_refl) as S0. rewrite Nat.add_0_r in S0. specialize (S0 Hch H1 _ _ Hv).
      cbn [fst] in S0. apply comp_bool_gen in H1.
      apply IH in H; [exact H | exact Hsub' | exact Hd | exact Ht |].
      rewrite !no_err_app, <- H1, andb_assoc. exact S0.
Qed.

(* ---- direction 1: a False result is always accompanied by an error event ---- *)
Definition imp_rel (x y : bool) : Prop := y = true -> x = true.

Lemma imp_rel_closed : step_closed imp_rel.
Proof. intros x y t H E. apply andb_true_iff in E as [E1 E2]. rewrite (H E1), E2. reflexivity. Qed.

Lemma seg_many_no_err d sn sg : no_err (seg_many d sn sg) = match seg_many d sn sg with [] => true | _ => false end.
Proof. unfold seg_many. destruct (_ <? _); reflexivity. Qed.

Theorem seg_bool_sound d c sn sg b evs : seg_fmt_ok sn = true ->
  seg_is_valid d c sn sg = Ok (b, evs) -> no_err evs = true -> b = true.
Proof.
  intros Hs H. rewrite seg_unfold in H.
  apply (seg_present_rel d c sn sg imp_rel imp_rel_closed Hs) in H; [exact H | | reflexivity | reflexivity |].
  - intros k v cn r _ _ _ x y Hxy E. apply andb_true_iff in E as [E E2]. apply andb_true_iff in E as [E1 _].
    rewrite (Hxy E1), E2. reflexivity.
  - intros E. rewrite seg_many_no_err in E. exact E.
Qed.

(* ---- direction 2 fails for exactly one shape of data: a situational composite all of whose
   components are empty but that has more components than the node has children; the segment reports
   "Too many sub-elements" while the composite itself is accepted as empty ---- *)
Definition no_overlong_empty_comp (sn : segm) (sg : seg) : Prop :=
  forall i v cn, nth_error (els sg) i = Some v -> child_by_idx sn i = Ok (SubC cn) ->
    MapTree.usage_is (c_usage cn) "S" = true -> comp_empty v = true -> length v <= length (c_children cn).

Lemma comp_go_false sub c cn kids : forall i vals acc b evs,
  comp_go sub c cn i kids vals false acc = Ok (b, evs) -> b = false.
Proof.
  induction kids as [|k kids IH]; intros i vals acc b evs H.
  - injection H as <- _. reflexivity.
  - cbn [comp_go] in H. fold (comp_go sub c cn) in H.
    destruct vals as [|v r]; apply bind_ok in H as (r1 & _ & H); cbn [andb] in H; apply IH in H; exact H.
Qed.

Lemma comp_overlong_false sub c cn v b evs :
  length (c_children cn) < length v ->
  (MapTree.usage_is (c_usage cn) "S" = true -> comp_empty v = true -> length v <= length (c_children cn)) ->
  MapTree.usage_is (c_usage cn) "N" = false ->
  comp_is_valid sub c cn (Some v) = Ok (b, evs) -> b = false.
Proof.
  intros Hlen Hhyp HN. rewrite comp_unfold. rewrite HN. cbn [orb andb].
  change (comp_empty_b (Some v)) with (comp_empty v).
  destruct (comp_empty v) eqn:E; cbn [andb].
  - destruct (MapTree.usage_is (c_usage cn) "S") eqn:HS; [specialize (Hhyp eq_refl eq_refl); lia|].
    rewrite andb_true_r. destruct (MapTree.usage_is (c_usage cn) "R"); [intros H; injection H as <- _; reflexivity|].
    unfold comp_many. destruct (Nat.ltb_spec (length (c_children cn)) (length v)) as [_|L]; [|lia].
    apply comp_go_false.
  - rewrite andb_false_r. unfold comp_many.
    destruct (Nat.ltb_spec (length (c_children cn)) (length v)) as [_|L]; [|lia].
    apply comp_go_false.
Qed.

Lemma eq_closed : step_closed (@eq bool).
Proof. intros x y t ->. reflexivity. Qed.

Theorem seg_bool_exact d c sn sg b evs : seg_fmt_ok sn = true -> no_overlong_empty_comp sn sg ->
  seg_is_valid d c sn sg = Ok (b, evs) -> b = no_err evs.
Proof.
  intros Hs Hov H. rewrite seg_unfold in H.
  apply (seg_present_rel d c sn sg (@eq bool) eq_closed Hs) in H; [exact H | | reflexivity | reflexivity |].
  - intros k v cn [b1 e1] Hk Hch Hr x y ->. cbn [fst]. rewrite Nat.add_0_l in *.
    unfold comp_sub_ev. destruct (Nat.ltb_spec (length (c_children cn)) (length v)) as [L|L]; cbn [andb]; [|rewrite andb_true_r; reflexivity].
    destruct (MapTree.usage_is (c_usage cn) "N") eqn:HN; cbn [negb]; [rewrite andb_true_r; reflexivity|].
    rewrite (comp_overlong_false _ _ _ _ _ _ L (Hov k v cn Hk Hch) HN Hr). rewrite !andb_false_r. reflexivity.
  - symmetry. apply seg_many_no_err.
Qed.

(* ---------------- on a map ---------------- *)
Lemma node_children_fmt n : node_fmt_ok n = true -> forallb node_fmt_ok (node_children n) = true.
Proof.
  destruct n as [i t nm u p rp pm|sn]; [|reflexivity]. cbn [node_fmt_ok node_children]. unfold pm_nodes.
  induction pm as [|[k ns] pm IH]; [reflexivity|]. cbn [forallb flat_map snd]. intros H.
  apply andb_true_iff in H as [Ha Hb]. rewrite forallb_app, Ha. cbn [andb]. apply IH. exact Hb.
Qed.

Lemma node_at_fmt r : forall ns n, forallb node_fmt_ok ns = true -> node_at ns r = Some n -> node_fmt_ok n = true.
Proof.
  induction r as [|i rest IH]; intros ns n H E; [discriminate E|].
  cbn [node_at] in E. destruct (nth_error ns i) as [n0|] eqn:N; [|discriminate E].
  pose proof (forallb_nth _ _ _ _ H N) as H0.
  destruct rest as [|j rest']; [injection E as <-; exact H0|].
  apply (IH (node_children n0) n); [apply node_children_fmt; exact H0 | exact E].
Qed.

Lemma fmt_wf_seg m sn : fmt_wf m = true -> seg_node_of m sn -> seg_fmt_ok sn = true.
Proof. intros H [r Hr]. exact (node_at_fmt r _ _ H Hr). Qed.

Definition no_error_event (evs : list hev) : Prop := forall h, In h evs -> is_err h = false.

(* a False result always comes with at least one reported error *)
Theorem validation_false_has_error :
  forall m sn d sg b evs, fmt_wf m = true -> seg_node_of m sn ->
    seg_is_valid d (ctx_of m) sn sg = Ok (b, evs) -> no_error_event evs -> b = true.
Proof.
  intros m sn d sg b evs Hf Hs H Hn. apply (seg_bool_sound d (ctx_of m) sn sg b evs (fmt_wf_seg m sn Hf Hs) H).
  apply no_err_spec. exact Hn.
Qed.

(* the boolean is true exactly when no error was reported, for every segment without an over-long empty
   situational composite *)
Theorem validation_bool :
  forall m sn d sg b evs, fmt_wf m = true -> seg_node_of m sn -> no_overlong_empty_comp sn sg ->
    seg_is_valid d (ctx_of m) sn sg = Ok (b, evs) -> (b = true <-> no_error_event evs).
Proof.
  intros m sn d sg b evs Hf Hs Hov H.
  rewrite (seg_bool_exact d (ctx_of m) sn sg b evs (fmt_wf_seg m sn Hf Hs) Hov H). apply no_err_spec.
Qed.

(* ---------------- the hypothesis fmt_wf is needed ---------------- *)
(* A qualifier (data element 1250) whose code list names no date/time format, followed by a 1251 element:
   a value of none of the listed formats makes is_valid return False without reporting anything. *)
Module FmtCounterexample.
  Definition mk_elem (id de : string) (sq : Z) (codes : list (option str)) : elem :=
    {| e_id := Some (cs id); e_data_ele := Some (cs de); e_usage := Some (cs "R"); e_name := Some (cs id);
       e_seq := sq; e_path := None; e_max_use := None; e_res := None; e_rec := None;
       e_codes := codes; e_external := None |}.
  Definition c0 : ectx :=
    {| x_de := [ {| de_num := Some (cs "1250"); de_type := Some (cs "ID"); de_min := 2; de_max := 3; de_name := None |};
                 {| de_num := Some (cs "1251"); de_type := Some (cs "AN"); de_min := 1; de_max := 35; de_name := None |} ];
       x_codes := []; x_exclude := []; x_charset := cs "B"; x_icvn := None |}.
  Definition sn0 : segm :=
    {| s_id := Some (cs "XX"); s_path := Some (cs "XX"); s_type := None; s_name := Some (cs "Example"); s_usage := Some (cs "R");
       s_pos := 10; s_max_use := None; s_repeat := None; s_end_tag := None; s_syntax := [];
       s_children := [SubE (mk_elem "XX01" "1250" 1 [Some (cs "UN")]); SubE (mk_elem "XX02" "1251" 2 [])] |}.
  Definition d0 : delims := {| seg_term := "~"%char; ele_term := "*"%char; subele_term := ":"%char |}.

  Example false_without_error :
    seg_ok c0 sn0 = true /\ seg_fmt_ok sn0 = false /\
    exists evs, seg_is_valid d0 c0 sn0 (parse_seg d0 (cs "XX*UN*HELLO~")) = Ok (false, evs) /\ no_err evs = true.
  Proof. split; [vm_compute; reflexivity|]. split; [vm_compute; reflexivity|]. eexists. split; vm_compute; reflexivity. Qed.
End FmtCounterexample.

Print Assumptions validation_total.
Print Assumptions validation_false_has_error.
Print Assumptions validation_bool.
