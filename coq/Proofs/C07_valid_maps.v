(* C07_valid_maps.v — the static predicates of Spec/C07_valid_wf.v evaluated on the shipped maps
   (loaded with charset "B", no excluded code sets), and the data segments that witness the
   two findings: a shipped map on which validation raises, and a shipped map on which the
   boolean result disagrees with the reported events. *)
From Coq Require Import String.
From PX.Lib Require Import Base PyStr Xml.
From PX.Gen Require Import MapRegexes.
From PX.Gen.Maps Require M_dataele M_codes.
From PX.Gen.Maps Require M_x12_control_00401.
From PX.Gen.Maps Require M_x12_control_00501.
From PX.Gen.Maps Require M_837_4010_X098_A1.
From PX.Gen.Maps Require M_837_5010_X222_A1.
From PX.Gen.Maps Require M_834_5010_X220_A1.
From PX.Gen.Maps Require M_835_4010_X091_A1.
From PX.Gen.Maps Require M_270_4010_X092_A1.
From PX.Gen.Maps Require M_278_4010_X094_A1.
From PX.Gen.Maps Require M_997_4010.
From PX.Gen.Maps Require M_999_5010.
From PX.Gen.Maps Require M_277_5010_X214.
From PX.Gen.Maps Require M_271_4010_X092_A1.
From PX.Gen.Maps Require M_276_4010_X093_A1.
From PX.Gen.Maps Require M_277U_4010_X070.
From PX.Gen.Maps Require M_277_4010_X093_A1.
From PX.Gen.Maps Require M_277_5010_X212.
From PX.Gen.Maps Require M_278_4010_X094_27_A1.
From PX.Gen.Maps Require M_820_4010_X061_A1.
From PX.Gen.Maps Require M_820_5010_X218.
From PX.Gen.Maps Require M_820_5010_X218_v2.
From PX.Gen.Maps Require M_834_4010_X095_A1.
From PX.Gen.Maps Require M_834_5010_X220_A1_v2.
From PX.Gen.Maps Require M_835_5010_X221_A1.
From PX.Gen.Maps Require M_835_5010_X221_A1_v2.
From PX.Gen.Maps Require M_837Q3_I_5010_X223_A1.
From PX.Gen.Maps Require M_837Q3_I_5010_X223_A1_v2.
From PX.Gen.Maps Require M_837_4010_X096_A1.
From PX.Gen.Maps Require M_837_4010_X097_A1.
From PX.Gen.Maps Require M_999_5010X231_A1.
From PX.Gen.Maps Require M_830_4010_PS.
From PX.Gen.Maps Require M_841_4010_XXXC.
From PX.Model Require Import Path Segment Syntax MapLoad MapTree Element.
From PX.Spec Require Import C07_valid_wf.
From PX.Proofs Require Import C15_element C07_valid.

(* ---------------- valid_wf = true: validation_total applies ---------------- *)
Example wf_x12_control_00401 : map_valid_wf map_regexes M_dataele.tree M_codes.tree M_x12_control_00401.tree = true.
Proof. vm_compute. reflexivity. Qed.
Example wf_x12_control_00501 : map_valid_wf map_regexes M_dataele.tree M_codes.tree M_x12_control_00501.tree = true.
Proof. vm_compute. reflexivity. Qed.
Example wf_837_4010_X098_A1 : map_valid_wf map_regexes M_dataele.tree M_codes.tree M_837_4010_X098_A1.tree = true.
Proof. vm_compute. reflexivity. Qed.
Example wf_837_5010_X222_A1 : map_valid_wf map_regexes M_dataele.tree M_codes.tree M_837_5010_X222_A1.tree = true.
Proof. vm_compute. reflexivity. Qed.
Example wf_834_5010_X220_A1 : map_valid_wf map_regexes M_dataele.tree M_codes.tree M_834_5010_X220_A1.tree = true.
Proof. vm_compute. reflexivity. Qed.
Example wf_835_4010_X091_A1 : map_valid_wf map_regexes M_dataele.tree M_codes.tree M_835_4010_X091_A1.tree = true.
Proof. vm_compute. reflexivity. Qed.
Example wf_270_4010_X092_A1 : map_valid_wf map_regexes M_dataele.tree M_codes.tree M_270_4010_X092_A1.tree = true.
Proof. vm_compute. reflexivity. Qed.
Example wf_278_4010_X094_A1 : map_valid_wf map_regexes M_dataele.tree M_codes.tree M_278_4010_X094_A1.tree = true.
Proof. vm_compute. reflexivity. Qed.
Example wf_997_4010 : map_valid_wf map_regexes M_dataele.tree M_codes.tree M_997_4010.tree = true.
Proof. vm_compute. reflexivity. Qed.
Example wf_999_5010 : map_valid_wf map_regexes M_dataele.tree M_codes.tree M_999_5010.tree = true.
Proof. vm_compute. reflexivity. Qed.
Example wf_277_5010_X214 : map_valid_wf map_regexes M_dataele.tree M_codes.tree M_277_5010_X214.tree = true.
Proof. vm_compute. reflexivity. Qed.

(* the other shipped maps that load *)
Example wf_271_4010_X092_A1 : map_valid_wf map_regexes M_dataele.tree M_codes.tree M_271_4010_X092_A1.tree = true.
Proof. vm_compute. reflexivity. Qed.
Example wf_276_4010_X093_A1 : map_valid_wf map_regexes M_dataele.tree M_codes.tree M_276_4010_X093_A1.tree = true.
Proof. vm_compute. reflexivity. Qed.
Example wf_277U_4010_X070 : map_valid_wf map_regexes M_dataele.tree M_codes.tree M_277U_4010_X070.tree = true.
Proof. vm_compute. reflexivity. Qed.
Example wf_277_4010_X093_A1 : map_valid_wf map_regexes M_dataele.tree M_codes.tree M_277_4010_X093_A1.tree = true.
Proof. vm_compute. reflexivity. Qed.
Example wf_277_5010_X212 : map_valid_wf map_regexes M_dataele.tree M_codes.tree M_277_5010_X212.tree = true.
Proof. vm_compute. reflexivity. Qed.
Example wf_278_4010_X094_27_A1 : map_valid_wf map_regexes M_dataele.tree M_codes.tree M_278_4010_X094_27_A1.tree = true.
Proof. vm_compute. reflexivity. Qed.
Example wf_820_4010_X061_A1 : map_valid_wf map_regexes M_dataele.tree M_codes.tree M_820_4010_X061_A1.tree = true.
Proof. vm_compute. reflexivity. Qed.
Example wf_820_5010_X218 : map_valid_wf map_regexes M_dataele.tree M_codes.tree M_820_5010_X218.tree = true.
Proof. vm_compute. reflexivity. Qed.
Example wf_820_5010_X218_v2 : map_valid_wf map_regexes M_dataele.tree M_codes.tree M_820_5010_X218_v2.tree = true.
Proof. vm_compute. reflexivity. Qed.
Example wf_834_4010_X095_A1 : map_valid_wf map_regexes M_dataele.tree M_codes.tree M_834_4010_X095_A1.tree = true.
Proof. vm_compute. reflexivity. Qed.
Example wf_834_5010_X220_A1_v2 : map_valid_wf map_regexes M_dataele.tree M_codes.tree M_834_5010_X220_A1_v2.tree = true.
Proof. vm_compute. reflexivity. Qed.
Example wf_835_5010_X221_A1 : map_valid_wf map_regexes M_dataele.tree M_codes.tree M_835_5010_X221_A1.tree = true.
Proof. vm_compute. reflexivity. Qed.
Example wf_835_5010_X221_A1_v2 : map_valid_wf map_regexes M_dataele.tree M_codes.tree M_835_5010_X221_A1_v2.tree = true.
Proof. vm_compute. reflexivity. Qed.
Example wf_837Q3_I_5010_X223_A1 : map_valid_wf map_regexes M_dataele.tree M_codes.tree M_837Q3_I_5010_X223_A1.tree = true.
Proof. vm_compute. reflexivity. Qed.
Example wf_837Q3_I_5010_X223_A1_v2 : map_valid_wf map_regexes M_dataele.tree M_codes.tree M_837Q3_I_5010_X223_A1_v2.tree = true.
Proof. vm_compute. reflexivity. Qed.
Example wf_837_4010_X096_A1 : map_valid_wf map_regexes M_dataele.tree M_codes.tree M_837_4010_X096_A1.tree = true.
Proof. vm_compute. reflexivity. Qed.
Example wf_837_4010_X097_A1 : map_valid_wf map_regexes M_dataele.tree M_codes.tree M_837_4010_X097_A1.tree = true.
Proof. vm_compute. reflexivity. Qed.
Example wf_999_5010X231_A1 : map_valid_wf map_regexes M_dataele.tree M_codes.tree M_999_5010X231_A1.tree = true.
Proof. vm_compute. reflexivity. Qed.

(* ---------------- fmt_wf = true: validation_false_has_error / validation_bool apply ---------------- *)
Example fmt_x12_control_00401 : map_fmt_wf map_regexes M_dataele.tree M_codes.tree M_x12_control_00401.tree = true.
Proof. vm_compute. reflexivity. Qed.
Example fmt_x12_control_00501 : map_fmt_wf map_regexes M_dataele.tree M_codes.tree M_x12_control_00501.tree = true.
Proof. vm_compute. reflexivity. Qed.
Example fmt_837_4010_X098_A1 : map_fmt_wf map_regexes M_dataele.tree M_codes.tree M_837_4010_X098_A1.tree = true.
Proof. vm_compute. reflexivity. Qed.
Example fmt_837_5010_X222_A1 : map_fmt_wf map_regexes M_dataele.tree M_codes.tree M_837_5010_X222_A1.tree = true.
Proof. vm_compute. reflexivity. Qed.
Example fmt_834_5010_X220_A1 : map_fmt_wf map_regexes M_dataele.tree M_codes.tree M_834_5010_X220_A1.tree = true.
Proof. vm_compute. reflexivity. Qed.
Example fmt_835_4010_X091_A1 : map_fmt_wf map_regexes M_dataele.tree M_codes.tree M_835_4010_X091_A1.tree = true.
Proof. vm_compute. reflexivity. Qed.
Example fmt_270_4010_X092_A1 : map_fmt_wf map_regexes M_dataele.tree M_codes.tree M_270_4010_X092_A1.tree = true.
Proof. vm_compute. reflexivity. Qed.
Example fmt_278_4010_X094_A1 : map_fmt_wf map_regexes M_dataele.tree M_codes.tree M_278_4010_X094_A1.tree = true.
Proof. vm_compute. reflexivity. Qed.
Example fmt_997_4010 : map_fmt_wf map_regexes M_dataele.tree M_codes.tree M_997_4010.tree = true.
Proof. vm_compute. reflexivity. Qed.
Example fmt_999_5010 : map_fmt_wf map_regexes M_dataele.tree M_codes.tree M_999_5010.tree = true.
Proof. vm_compute. reflexivity. Qed.
Example fmt_277_5010_X214 : map_fmt_wf map_regexes M_dataele.tree M_codes.tree M_277_5010_X214.tree = true.
Proof. vm_compute. reflexivity. Qed.
Example fmt_271_4010_X092_A1 : map_fmt_wf map_regexes M_dataele.tree M_codes.tree M_271_4010_X092_A1.tree = true.
Proof. vm_compute. reflexivity. Qed.
Example fmt_276_4010_X093_A1 : map_fmt_wf map_regexes M_dataele.tree M_codes.tree M_276_4010_X093_A1.tree = true.
Proof. vm_compute. reflexivity. Qed.
Example fmt_277U_4010_X070 : map_fmt_wf map_regexes M_dataele.tree M_codes.tree M_277U_4010_X070.tree = true.
Proof. vm_compute. reflexivity. Qed.
Example fmt_277_4010_X093_A1 : map_fmt_wf map_regexes M_dataele.tree M_codes.tree M_277_4010_X093_A1.tree = true.
Proof. vm_compute. reflexivity. Qed.
Example fmt_277_5010_X212 : map_fmt_wf map_regexes M_dataele.tree M_codes.tree M_277_5010_X212.tree = true.
Proof. vm_compute. reflexivity. Qed.
Example fmt_278_4010_X094_27_A1 : map_fmt_wf map_regexes M_dataele.tree M_codes.tree M_278_4010_X094_27_A1.tree = true.
Proof. vm_compute. reflexivity. Qed.
Example fmt_820_4010_X061_A1 : map_fmt_wf map_regexes M_dataele.tree M_codes.tree M_820_4010_X061_A1.tree = true.
Proof. vm_compute. reflexivity. Qed.
Example fmt_820_5010_X218 : map_fmt_wf map_regexes M_dataele.tree M_codes.tree M_820_5010_X218.tree = true.
Proof. vm_compute. reflexivity. Qed.
Example fmt_820_5010_X218_v2 : map_fmt_wf map_regexes M_dataele.tree M_codes.tree M_820_5010_X218_v2.tree = true.
Proof. vm_compute. reflexivity. Qed.
Example fmt_834_4010_X095_A1 : map_fmt_wf map_regexes M_dataele.tree M_codes.tree M_834_4010_X095_A1.tree = true.
Proof. vm_compute. reflexivity. Qed.
Example fmt_834_5010_X220_A1_v2 : map_fmt_wf map_regexes M_dataele.tree M_codes.tree M_834_5010_X220_A1_v2.tree = true.
Proof. vm_compute. reflexivity. Qed.
Example fmt_835_5010_X221_A1 : map_fmt_wf map_regexes M_dataele.tree M_codes.tree M_835_5010_X221_A1.tree = true.
Proof. vm_compute. reflexivity. Qed.
Example fmt_835_5010_X221_A1_v2 : map_fmt_wf map_regexes M_dataele.tree M_codes.tree M_835_5010_X221_A1_v2.tree = true.
Proof. vm_compute. reflexivity. Qed.
Example fmt_837Q3_I_5010_X223_A1 : map_fmt_wf map_regexes M_dataele.tree M_codes.tree M_837Q3_I_5010_X223_A1.tree = true.
Proof. vm_compute. reflexivity. Qed.
Example fmt_837Q3_I_5010_X223_A1_v2 : map_fmt_wf map_regexes M_dataele.tree M_codes.tree M_837Q3_I_5010_X223_A1_v2.tree = true.
Proof. vm_compute. reflexivity. Qed.
Example fmt_837_4010_X096_A1 : map_fmt_wf map_regexes M_dataele.tree M_codes.tree M_837_4010_X096_A1.tree = true.
Proof. vm_compute. reflexivity. Qed.
Example fmt_837_4010_X097_A1 : map_fmt_wf map_regexes M_dataele.tree M_codes.tree M_837_4010_X097_A1.tree = true.
Proof. vm_compute. reflexivity. Qed.
Example fmt_999_5010X231_A1 : map_fmt_wf map_regexes M_dataele.tree M_codes.tree M_999_5010X231_A1.tree = true.
Proof. vm_compute. reflexivity. Qed.
Example fmt_830_4010_PS : map_fmt_wf map_regexes M_dataele.tree M_codes.tree M_830_4010_PS.tree = true.
Proof. vm_compute. reflexivity. Qed.

(* ---------------- 830.4010.PS.xml after the repair of dataele.xml ---------------- *)
(* The map referred to data elements 347 (CTT02) and 367 (BFR10), which dataele.xml did not define:
   valid_wf was false on it and a data segment filling one of these elements made segment_if.is_valid
   raise EngineError (fixed in /repo: 274121a).  The examples below record the repaired behaviour. *)
Definition cs (x : string) : str := list_ascii_of_string x.
Definition d0 : delims := {| seg_term := "~"%char; ele_term := "*"%char; subele_term := ":"%char |}.

(* validate the text `txt` against the segment node at reference r of the map built from `tree` *)
Definition validate_at (tree : xml) (r : nref) (txt : string) : result (bool * list hev) :=
  match load_map map_regexes M_dataele.tree M_codes.tree None (cs "B") tree with
  | Ok m => match node_at (root_nodes m) r with
            | Some (NSeg sn) => seg_is_valid d0 (ctx_of m) sn (parse_seg d0 (cs txt))
            | _ => Raise OtherError
            end
  | Raise x => Raise OtherError
  end.

Definition seg_id_at (tree : xml) (r : nref) : option str :=
  match load_map map_regexes M_dataele.tree M_codes.tree None (cs "B") tree with
  | Ok m => match node_at (root_nodes m) r with Some (NSeg sn) => s_id sn | _ => None end
  | Raise _ => None
  end.

Example wf_830_4010_PS : map_valid_wf map_regexes M_dataele.tree M_codes.tree M_830_4010_PS.tree = true.
Proof. vm_compute. reflexivity. Qed.

Example no_raise_830_CTT :
  seg_id_at M_830_4010_PS.tree [0; 1; 0; 2; 0] = Some (cs "CTT") /\
  (exists evs, validate_at M_830_4010_PS.tree [0; 1; 0; 2; 0] "CTT*1~" = Ok (true, evs)) /\
  (exists evs, validate_at M_830_4010_PS.tree [0; 1; 0; 2; 0] "CTT*1*5~" = Ok (true, evs)).
Proof. split; [vm_compute; reflexivity|]. split; eexists; vm_compute; reflexivity. Qed.

Example no_raise_830_BFR :
  seg_id_at M_830_4010_PS.tree [0; 1; 0; 0; 0] = Some (cs "BFR") /\
  exists b evs, validate_at M_830_4010_PS.tree [0; 1; 0; 0; 0] "BFR*00*X**DL*A*20240101**20240101**X~" = Ok (b, evs).
Proof. split; [vm_compute; reflexivity|]. eexists. eexists. vm_compute. reflexivity. Qed.

(* 841.4010.XXXC.xml does not load at all (known: C16-841-unloadable), so there is no map to validate against *)
Example unloadable_841_4010_XXXC :
  load_map map_regexes M_dataele.tree M_codes.tree None (cs "B") M_841_4010_XXXC.tree = Raise EngineError.
Proof. vm_compute. reflexivity. Qed.

(* ---------------- FINDING 2: True is returned although an error was reported ---------------- *)
(* 837.4010.X098.A1, segment HI of loop 2300: HI02 is a situational composite with 7 components.  Given 8
   empty components, segment_if.is_valid reports "Too many sub-elements in composite" (code 3) but the
   composite is accepted as empty, so the segment is valid.  This is the case excluded by the hypothesis
   no_overlong_empty_comp of validation_bool. *)
Example true_with_error_837_HI :
  seg_id_at M_837_4010_X098_A1.tree [0; 1; 1; 2; 0; 5; 7; 43] = Some (cs "HI") /\
  exists evs, validate_at M_837_4010_X098_A1.tree [0; 1; 1; 2; 0; 5; 7; 43] "HI*BK:4019*:::::::~" = Ok (true, evs) /\
              existsb (fun h => match h with HEleErr code _ _ _ => str_eqb code (cs "3") | HAddEle _ => false end) evs = true /\
              no_err evs = false.
Proof. split; [vm_compute; reflexivity|]. eexists. split; [vm_compute; reflexivity|]. split; vm_compute; reflexivity. Qed.
