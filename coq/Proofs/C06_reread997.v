(* C06_reread997.v — the segments of the 997 as an explicit, computable function of the clock and the handler
   state (segs_997), so that the hypothesis "every echoed value is free of ~ * :" of Proofs/C06_reread.v becomes a
   boolean on the handler state: echo_clean_997 ck h. *)
From Coq Require Import String Lia.
From PX.Lib Require Import Base PyStr PyInt.
From PX.Model Require Import Show Path Segment Raw Reader Errh Ack997.
From PX.Spec Require Import C01_spec C04_spec C06_spec C05_spec C12_spec.
From PX.Proofs Require Import C01_roundtrip C04_reader C06_lemmas C06_ack997 C06_ack C05_ack C06_reread.

Local Notation l := list_ascii_of_string.
Local Notation LF := (ascii_of_nat 10).

(* ------------------------------------------------------------------ *)
(* the header, explicitly                                              *)
(* ------------------------------------------------------------------ *)
Definition oget (r : result (option str)) : option str := match r with Ok (Some v) => Some v | _ => None end.
Definition obind {A B} (o : option A) (f : A -> option B) : option B := match o with Some a => f a | None => None end.

Definition sp (x : str) : composite := split ":"%char x.

(* ISA: the four literal fields, then ISA07 ISA08 ISA05 ISA06 of the acknowledged ISA, the clock, ISA11 ISA12, the
   control number made from the clock, "0", ISA15, and ":" (which splits into two empty components) *)
Definition isa_x (ck : clock) (a7 a8 a5 a6 a11 a12 a15 : str) : seg :=
  {| sid := Some (l "ISA");
     els := [[l "00"]; [l "          "]; [l "00"]; [l "          "]; sp a7; sp a8; sp a5; sp a6;
             sp (ck_ymd6 ck); sp (ck_hm ck); sp a11; sp a12; sp (ctl_of ck); sp (l "0"); sp a15; sp [":"%char]] |}.

(* GS: "FA", GS03 and GS02 of the acknowledged group (right-stripped), the clock, GS06, GS07, "004010" *)
Definition gs_x (ck : clock) (b3 b2 x6 b7 : str) : seg :=
  {| sid := Some (l "GS");
     els := [sp (l "FA"); sp (rstrip_ws b3); sp (rstrip_ws b2); sp (ck_ymd8 ck); sp (ck_hms ck); sp x6; sp b7; sp (l "004010")] |}.

Definition hdr_997 (ck : clock) (h : errh) : option (seg * seg) :=
  obind (c_isa h) (fun i => obind (nth_error (h_isa h) i) (fun inode =>
  obind (c_gs h) (fun g => obind (nth_error (h_gs h) g) (fun gnode =>
  let q := in_seg inode in let p := gn_seg gnode in
  obind (oget (xget q "ISA07")) (fun a7 => obind (oget (xget q "ISA08")) (fun a8 =>
  obind (oget (xget q "ISA05")) (fun a5 => obind (oget (xget q "ISA06")) (fun a6 =>
  obind (oget (xget q "ISA11")) (fun a11 => obind (oget (xget q "ISA12")) (fun a12 =>
  obind (oget (xget q "ISA15")) (fun a15 =>
  obind (oget (xget p "GS03")) (fun b3 => obind (oget (xget p "GS02")) (fun b2 =>
  obind (oget (xget p "GS06")) (fun x6 => obind (oget (xget p "GS07")) (fun b7 =>
  Some (isa_x ck a7 a8 a5 a6 a11 a12 a15, gs_x ck b3 b2 x6 b7)))))))))))))))).

Lemma visit_root_pre_x ck h v' u : visit_root_pre ck (v997_init h) = (v', Ok u) ->
  exists isa gs, hdr_997 ck h = Some (isa, gs) /\ Inv isa gs (ctl_of ck) 0 [] v'.
Proof.
  intros H. unfold visit_root_pre in H. se_inv H. fold (ctl_of ck) in *.
  match goal with H : in_h (get_isa _) _ = (?x, Ok ?n) |- _ => apply in_h_get_isa in H as (W1 & H1 & N1); rename x into v1 end.
  match goal with H : write ?s (set_v_isa_ctl v1 _) = (?x, Ok _) |- _ =>
    pose proof (write_h _ _ _ _ H) as H2; apply wrote_write in H; rename H into W2; rename x into v2; rename s into isa end.
  match goal with H : in_h (get_gs ?g) _ = (?x, Ok ?n) |- _ =>
    apply in_h_get_gs in H as (W3 & H3 & N3); rename x into v3; rename n into gnode; rename g into gi end.
  match goal with H : write ?s v3 = (?x, Ok _) |- _ =>
    pose proof (write_h _ _ _ _ H) as H4; apply wrote_write in H; rename H into W4; rename x into v4; rename s into gs end.
  match goal with H : bind _ _ = Ok isa |- _ => r_inv H end.
  match goal with H : bind _ _ = Ok gs |- _ => r_inv H end.
  unl. rewrite parse_isa_lit in *. rewrite (parse_id_lit (l "GS")) in * by (try apply nostar; try discriminate; reflexivity).
  appends. cbn [sid els app] in *.
  cbn [v_h set_v_isa_ctl set_v_gs_loop_count v_upd v997_init] in *.
  match goal with H : c_gs h = Some _ |- _ => rename H into CG end.
  match goal with H : c_isa h = Some _ |- _ => rename H into CI end.
  match goal with H : xget (gn_seg gnode) "GS06" = Ok ?a, H' : xget (gn_seg gnode) "GS06" = Ok (Some ?x) |- _ =>
    rewrite H' in H; injection H as <-; rename x into x6; rename H' into X6 end.
  rewrite H2, H1 in N3. cbn [v_h v997_init] in N3.
  eexists _, _. split.
  - unfold hdr_997. rewrite CI. cbn [obind]. rewrite N1. cbn [obind]. rewrite CG. cbn [obind]. rewrite N3. cbn [obind].
    repeat match goal with H : xget _ _ = Ok (Some _) |- _ => rewrite H; clear H end. cbn [oget obind]. reflexivity.
  - constructor.
    + cbn [v_out set_v_gs_loop_count set_v_st_loop_count set_v_gs v_upd].
      rewrite (w_out _ _ _ W4), (w_out _ _ _ W3). cbn [v_out set_v_gs_loop_count v_upd].
      rewrite (w_out _ _ _ W2). cbn [v_out set_v_isa_ctl v_upd]. rewrite (w_out _ _ _ W1). reflexivity.
    + constructor.
    + cbn [v_st_ctl set_v_gs_loop_count set_v_st_loop_count set_v_gs v_upd].
      rewrite (w_stc _ _ _ W4), (w_stc _ _ _ W3). cbn [v_st_ctl set_v_gs_loop_count v_upd].
      rewrite (w_stc _ _ _ W2). cbn [v_st_ctl set_v_isa_ctl v_upd]. rewrite (w_stc _ _ _ W1). reflexivity.
    + reflexivity.
    + reflexivity.
    + cbn [v_isa_ctl set_v_gs_loop_count set_v_st_loop_count set_v_gs v_upd].
      rewrite (w_isa _ _ _ W4), (w_isa _ _ _ W3). cbn [v_isa_ctl set_v_gs_loop_count v_upd].
      rewrite (w_isa _ _ _ W2). reflexivity.
Qed.

Lemma obind_some {A B} (o : option A) (f : A -> option B) b : obind o f = Some b -> exists a, o = Some a /\ f a = Some b.
Proof. destruct o as [a|]; cbn [obind]; [eauto|discriminate]. Qed.
Lemma oget_some r v : oget r = Some v -> r = Ok (Some v).
Proof. destruct r as [[x|]|e]; cbn [oget]; try discriminate. intros H. injection H as ->. reflexivity. Qed.

Ltac ob_inv H :=
  lazymatch type of H with
  | obind _ _ = Some _ =>
      let a := fresh "a" in let H1 := fresh "Ho" in let H2 := fresh "Hf" in
      apply obind_some in H; destruct H as (a & H1 & H2); cbv beta zeta in H2; ob_inv H2
  | _ => idtac
  end.

Lemma hdr_997_inv ck h isa gs : hdr_997 ck h = Some (isa, gs) ->
  exists i inode a7 a8 a5 a6 a11 a12 a15 b3 b2 x6 b7,
    c_isa h = Some i /\ nth_error (h_isa h) i = Some inode /\
    isa = isa_x ck a7 a8 a5 a6 a11 a12 a15 /\ gs = gs_x ck b3 b2 x6 b7 /\ gs06_of h = Some x6.
Proof.
  intros H. unfold hdr_997 in H. ob_inv H.
  match goal with H : Some _ = Some _ |- _ => injection H as <- <- end.
  repeat match goal with H : oget _ = Some _ |- _ => apply oget_some in H end.
  eexists _, _, _, _, _, _, _, _, _, _, _, _, _. split; [exact Ho|]. split; [exact Ho0|]. split; [reflexivity|]. split; [reflexivity|].
  unfold gs06_of. rewrite Ho1, Ho2. match goal with H : xget _ "GS06" = _ |- _ => rewrite H end. reflexivity.
Qed.

(* ------------------------------------------------------------------ *)
(* the trailer, explicitly                                             *)
(* ------------------------------------------------------------------ *)
(* TA1: ISA13, ISA09, ISA10 of the acknowledged interchange, A*000 or R*<first interchange error code> *)
Definition ta1_seg_997 (h : errh) (n : isa_node) : result seg :=
  do s <- seg_append (parse_seg D (l "TA1")) (in_trn n);
  do s0 <- seg_append s (in_date n);
  do s1 <- seg_append s0 (in_time n);
  do codes <- get_isa_errors h n;
  match codes with
  | [] => do s2 <- seg_append s1 (Some (l "A")); seg_append s2 (Some (l "000"))
  | c :: _ => do s2 <- seg_append s1 (Some (l "R")); seg_append s2 (Some c)
  end.

Definition ta1_list (h : errh) (n : isa_node) : list seg :=
  if opt_eqb str_eqb (in_ta1 n) (Some (l "1"))
  then match ta1_seg_997 h n with Ok t => [t] | Raise _ => [] end
  else [].

Lemma visit_root_post_x isa gs ctl k rest v v' u : Inv isa gs ctl k rest v -> visit_root_post v = (v', Ok u) ->
  exists g06 i inode,
    seg_get_value D gs (l "GS06") = Ok g06 /\ c_isa (v_h v) = Some i /\ nth_error (h_isa (v_h v)) i = Some inode /\
    v_out v' = map line_997 (isa :: gs :: rest ++ parse_seg D (l "GE*" ++ dec k ++ l "*" ++ show_s g06) ::
                             ta1_list (v_h v) inode ++ [parse_seg D (l "IEA*" ++ dec 1 ++ l "*" ++ ctl)]).
Proof.
  intros [I1 I2 I3 I4 I5 I6] H. unfold visit_root_post in H. se_inv H.
  match goal with H : v_gs_seg v = Some ?g |- _ => rewrite I5 in H; injection H as <- end.
  match goal with H : seg_get_value D gs _ = Ok ?g |- _ => rename g into g06; rename H into G6 end.
  match goal with H : write _ v = (?x, Ok _) |- _ =>
    pose proof (write_h _ _ _ _ H) as HH1; apply wrote_write in H; rename H into W1; rename x into v1 end.
  match goal with H : in_h _ (set_v_gs_loop_count v1 1) = (?x, Ok ?n) |- _ =>
    apply in_h_get_isa in H as (W2 & HH2 & N2); rename x into v2; rename n into inode end.
  match goal with H : write _ ?y = (v', Ok _) |- _ => apply wrote_write in H; rename H into W4; rename y into v3 end.
  match goal with H : _ v2 = (v3, Ok _) |- _ => rename H into HT end.
  match goal with H : c_isa (v_h v) = Some _ |- _ => rename H into CI end.
  cbn [v_h set_v_gs_loop_count v_upd] in N2. rewrite HH1 in N2.
  rewrite I4, fmt_Zi_nat in W1.
  assert (C3 : wrote v2 v3 (ta1_list (v_h v) inode)).
  { unfold ta1_list. destruct (opt_eqb str_eqb (in_ta1 inode) _).
    - se_inv HT. unl. change (ta1_seg_997 (v_h v) inode = Ok a) in E. rewrite E.
      match goal with H : write _ v2 = _ |- _ => apply wrote_write in H; exact H end.
    - se_inv HT. apply wrote_refl. }
  assert (G : v_gs_loop_count v3 = 1%Z).
  { rewrite (w_glc _ _ _ C3), (w_glc _ _ _ W2). reflexivity. }
  assert (C : v_isa_ctl v3 = Some ctl).
  { rewrite (w_isa _ _ _ C3), (w_isa _ _ _ W2). cbn [v_isa_ctl set_v_gs_loop_count v_upd]. rewrite (w_isa _ _ _ W1). exact I6. }
  rewrite G, C in W4. change (fmt_Zi 1) with (dec 1) in W4. cbn [show_s] in W4.
  eexists g06, _, inode. split; [exact G6|]. split; [exact CI|]. split; [exact N2|].
  rewrite (w_out _ _ _ W4), (w_out _ _ _ C3), (w_out _ _ _ W2). cbn [v_out set_v_gs_loop_count v_upd].
  rewrite (w_out _ _ _ W1), I1. unl. cbn [map app]. rewrite !map_app. cbn [map app]. rewrite !map_app. cbn [map app].
  rewrite <- !app_assoc. cbn [app]. reflexivity.
Qed.

(* ------------------------------------------------------------------ *)
(* the whole acknowledgement, explicitly                               *)
(* ------------------------------------------------------------------ *)
(* GE*<number of sets>*<GS06 as the GS prints it>, IEA*1*<control number> *)
Definition ge_x (k : nat) (x6 : str) : seg := {| sid := Some (l "GE"); els := [[dec k]; sp (echo x6)] |}.
Definition iea_x (ck : clock) : seg := {| sid := Some (l "IEA"); els := [[dec 1]; sp (ctl_of ck)] |}.

(* trailing empty components of GS06 are not printed: drop them (the line is the same) *)
Definition trim_gs06 (gs : seg) : seg :=
  {| sid := sid gs;
     els := match els gs with
            | [e1; e2; e3; e4; e5; e6; e7; e8] => [e1; e2; e3; e4; e5; keep ele_empty e6; e7; e8]
            | x => x
            end |}.

Definition segs_997 (ck : clock) (h : errh) : option (list seg) :=
  obind (hdr_997 ck h) (fun p => obind (gs06_of h) (fun x6 =>
  obind (c_isa h) (fun i => obind (nth_error (h_isa h) i) (fun inode =>
  let sets := expected_sets_997 h in
  Some (fst p :: trim_gs06 (snd p) :: number_sets 1 sets ++
        ge_x (length sets) x6 :: ta1_list h inode ++ [iea_x ck]))))).

Lemma ta1_list_set_gs h x n : ta1_list (set_h_gs h x) n = ta1_list h n.
Proof. reflexivity. Qed.

Lemma ta1_list_shape h n : ta1_list h n = [] \/ exists ta1, has_sid ta1 "TA1" = true /\ ta1_list h n = [ta1].
Proof.
  unfold ta1_list. destruct (opt_eqb _ _ _); [|left; reflexivity].
  destruct (ta1_seg_997 h n) as [t|e] eqn:E; [|left; reflexivity]. right. exists t. split; [|reflexivity].
  assert (S : sid t = Some (l "TA1")).
  { unfold ta1_seg_997 in E. r_inv E.
    match goal with H : match ?c with [] => _ | _ => _ end = Ok t |- _ => destruct c; r_inv H end; repeat sid_step; reflexivity. }
  unfold has_sid. rewrite S. reflexivity.
Qed.

Theorem segs_997_spec ck h h' lines :
  clock_digits ck = true -> gs06_ok h = true ->
  render_997 ck h = (h', lines, None) ->
  exists segs, segs_997 ck h = Some segs /\ lines = map line_997 segs /\ envelope_ok segs = true.
Proof.
  intros CKD GK H. destruct (clock_digits_ok ck CKD) as [CK _].
  unfold render_997 in H. destruct (accept_root ck (v997_init h)) as [v r] eqn:E.
  destruct r as [u|e]; [|discriminate]. injection H as _ <-.
  unfold accept_root in E. apply bind_ok in E as (v1 & u1 & H1 & E).
  pose proof (visit_root_pre_keeps ck _ _ _ H1) as K1. cbn [v_h v997_init] in K1.
  apply visit_root_pre_x in H1 as (isa & gs & HD & I0).
  apply bind_ok in E as (v1' & vv & Hg & E). se_inv Hg.
  apply bind_ok in E as (v2 & u2 & H2 & H3).
  assert (IC0 : InvC h isa gs (ctl_of ck) [] [] v1).
  { split; [exact I0|]. unfold Good. rewrite norm_at_nil, set_h_gs_same. exact K1. }
  apply (iter_isa_content _ _ _ _ _ _ _ _ _ _ IC0) in H2. rewrite K1, !flat_at_all in H2. cbn [app] in H2.
  fold (visited_gs h) in H2. fold (expected_sets_997 h) in H2. destruct H2 as [I2 G2].
  apply (visit_root_post_x _ _ _ _ _ _ _ _ I2) in H3 as (g06 & i & inode & G & CI & NI & O).
  unfold Good in G2. rewrite G2 in CI, NI, O. rewrite ta1_list_set_gs in O.
  cbn [c_isa h_isa set_h_gs set_heaps] in CI, NI.
  pose proof (i_sets _ _ _ _ _ _ I2) as SF.
  destruct (hdr_997_inv ck h isa gs HD) as (i' & inode' & a7 & a8 & a5 & a6 & a11 & a12 & a15 & b3 & b2 & x6 & b7 & CI' & NI' & -> & -> & G6).
  unfold gs_x in G. rewrite get_gs06 in G. injection G as <-. cbn [show_s] in O.
  change (format_comp ":"%char (sp x6)) with (echo x6) in O.
  set (k := length (expected_sets_997 h)) in *. set (rest := number_sets 1 (expected_sets_997 h)) in *.
  unfold gs06_ok in GK. rewrite G6 in GK. apply tail_ok_E in GK as [GK1 GK2]. apply tail_ok_E in CK as [CK1 CK2].
  change (l "GE*" ++ dec k ++ l "*" ++ echo x6) with (l "GE" ++ "*"%char :: dec k ++ "*"%char :: echo x6) in O.
  rewrite parse_trailer in O by (try (apply nostar; reflexivity); try reflexivity; assumption).
  change (l "IEA*" ++ dec 1 ++ l "*" ++ ctl_of ck) with (l "IEA" ++ "*"%char :: dec 1 ++ "*"%char :: ctl_of ck) in O.
  rewrite parse_trailer in O by (try (apply nostar; reflexivity); try reflexivity; assumption).
  fold (ge_x k x6) in O. fold (iea_x ck) in O.
  set (gs := gs_x ck b3 b2 x6 b7) in *. set (isa := isa_x ck a7 a8 a5 a6 a11 a12 a15) in *.
  assert (L : line_997 gs = line_997 (trim_gs06 gs)).
  { unfold line_997, gs, gs_x, trim_gs06. cbn [sid els]. f_equal. apply format_seg_like.
    repeat (apply Forall2_cons; [first [apply comp_like_refl|apply comp_like_trim]|]). constructor. }
  eexists. split; [|split].
  - unfold segs_997. rewrite HD, G6, CI. cbn [obind]. rewrite NI. cbn [obind fst snd]. reflexivity.
  - rewrite O. cbn [map]. rewrite L. reflexivity.
  - apply (envelope_intro isa (trim_gs06 gs) rest k (ge_x k x6) (ta1_list h inode ++ [iea_x ck])).
    + reflexivity.
    + reflexivity.
    + reflexivity.
    + exact SF.
    + reflexivity.
    + apply (elc_is_intro (ge_x k x6) 1 _ [dec k]); reflexivity.
    + unfold elc_same, ge_x, gs, gs_x, trim_gs06. cbn [elc els nth_error]. unfold sp. rewrite split_echo. apply comp_eqb_refl.
    + exists (iea_x ck). split.
      * unfold iea_ok. replace (has_sid _ "IEA") with true by reflexivity.
        rewrite (elc_is_intro _ 1 (dec 1) [dec 1]) by reflexivity. cbn [andb].
        unfold elc_same, iea_x, isa, isa_x. cbn [elc els nth_error]. apply comp_eqb_refl.
      * destruct (ta1_list_shape h inode) as [->|(ta1 & T & ->)]; [left; reflexivity|right; exists ta1; auto].
Qed.

(* ================================================================== *)
(* echo_clean_997: the hypothesis of the re-read theorem, on the handler state *)
(* ================================================================== *)
Definition echo_clean_997 (ck : clock) (h : errh) : bool :=
  match segs_997 ck h with Some segs => text_ok_997 segs | None => false end.

Definition segs_or_nil_997 (ck : clock) (h : errh) : list seg := match segs_997 ck h with Some s => s | None => [] end.

(* THE 997.  Whenever the visitor completes, under the hypotheses of C06 and echo_clean_997: the text written, fed to
   the tokeniser under any read schedule and then to the reader (either setting of the 837 flag), is read to the
   end; the segments that come back are those of segs_997 in the parser's canonical form (ISA: the fifteen printed
   fields); nothing is reported at the end of input and NO envelope error is reported on any segment. *)
Theorem ack997_reread_clean ck h h' lines lx sch :
  clock_digits ck = true -> gs06_ok h = true -> echo_clean_997 ck h = true ->
  render_997 ck h = (h', lines, None) ->
  exists out,
    reading lx (concat lines) sch = Ok (version_997 (segs_or_nil_997 ck h), out, Ok []) /\
    map fst out = reread_997 (segs_or_nil_997 ck h) /\
    Forall (fun p => env_codes (snd p) = []) out.
Proof.
  intros CK GK EC H. destruct (segs_997_spec ck h h' lines CK GK H) as (segs & S & -> & EO).
  unfold echo_clean_997, segs_or_nil_997 in *. rewrite S in *. apply ack997_text_silent; assumption.
Qed.

(* echo_clean_997 subsumes the hypothesis gs06_ok of C06: a clean GS06 has no "*" and no "~" *)
Lemma echo_clean_gs06_ok ck h : echo_clean_997 ck h = true -> gs06_ok h = true.
Proof.
  unfold echo_clean_997. destruct (segs_997 ck h) as [segs|] eqn:S; [|discriminate]. intros T.
  unfold segs_997 in S. ob_inv S. destruct a as [isa gs].
  destruct (hdr_997_inv ck h isa gs Ho) as (i' & inode' & a7 & a8 & a5 & a6 & a11 & a12 & a15 & b3 & b2 & x6 & b7 & _ & _ & -> & -> & G6).
  match goal with H : Some _ = Some segs |- _ => injection H as <- end.
  unfold text_ok_997 in T. cbn [fst snd] in T. rewrite !andb_true_iff in T. destruct T as ((((_ & _) & CR) & _) & _).
  cbn [forallb] in CR. apply andb_true_iff in CR as [CG _]. apply clean_iff in CG.
  destruct CG as (id & _ & _ & _ & FT & _).
  unfold gs06_ok. rewrite G6. unfold tail_ok.
  assert (F : forall z, In z (echo x6) -> z <> "*"%char /\ z <> "~"%char).
  { intros z Hz. unfold echo, format_comp in Hz. apply join_In in Hz as [->|(v & Hv & Hz)]; [split; discriminate|].
    assert (Hc : In (keep ele_empty (sp x6)) (els (trim_gs06 (gs_x ck b3 b2 x6 b7)))) by (cbn; tauto).
    destruct (FT _ Hc v Hv) as [F1 F2]. cbn [seg_term ele_term D] in F1, F2.
    split; intros ->; auto. }
  assert (N1 : ~ In "*"%char (echo x6)) by (intros I; destruct (F _ I) as [X _]; congruence).
  assert (N2 : ~ In "~"%char (echo x6)) by (intros I; destruct (F _ I) as [_ X]; congruence).
  apply andb_true_iff. split; apply negb_true_iff.
  - destruct (mem_ascii "*"%char (echo x6)) eqn:M; [|reflexivity]. apply mem_ascii_In in M. contradiction.
  - apply ends_with_notin. exact N2.
Qed.

Corollary ack997_reread_clean_only ck h h' lines lx sch :
  clock_digits ck = true -> echo_clean_997 ck h = true ->
  render_997 ck h = (h', lines, None) ->
  exists out,
    reading lx (concat lines) sch = Ok (version_997 (segs_or_nil_997 ck h), out, Ok []) /\
    map fst out = reread_997 (segs_or_nil_997 ck h) /\
    Forall (fun p => env_codes (snd p) = []) out.
Proof. intros CK EC. apply ack997_reread_clean; [exact CK|apply (echo_clean_gs06_ok ck); exact EC|exact EC]. Qed.

Print Assumptions segs_997_spec.
Print Assumptions ack997_reread_clean.
Print Assumptions ack997_reread_clean_only.
