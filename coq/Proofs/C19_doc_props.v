(* C19_doc_props.v — property C19 at the document level: the statements, in one place (proofs: Proofs/C19_doc.v,
   C19_doc_text.v, C19_doc_errors.v, C19_doc_grow.v; definitions: Spec/C19_doc_spec.v; examples and the four
   findings on the shipped maps: Proofs/C19_doc_examples.v).  Ready to be copied into Props/C19.v. *)
From Coq Require Import String.
From PX.Lib Require Import Base PyStr PyInt.
From PX.Model Require Import Path Segment Raw Reader MapLoad MapTree Walker MapEnv Driver Pipeline.
From PX.Model Require Errh ErrIter OutW Html.
From PX.Spec Require Import C09_spec C19_spec C19_doc_spec.
From PX.Proofs Require Import C07_sink_defs C19_doc C19_doc_text C19_doc_errors C19_doc_grow.

(* 1. CALLS.  Any environment, clock, dtd, text, sink mask with the HTML sink on; the run completes.  Then html.gen_seg
   was called exactly once per source segment, in source order, with that segment and the reader's line number
   (Spec/C09_spec.v source_items), all with the delimiters of the source — or the ISA header was unreadable and there
   is no report at all (fd_html empty, verdict False). *)
Theorem C19_doc_calls :
  forall load idx clk htime dtd sk text b,
    want_html sk = true ->
    let r := run_pipeline_gen load idx clk htime dtd sk text in
    o_result r = Ok b ->
    (source_lines text = Raise X12Error /\ shown_segments r = [] /\ o_html r = [] /\ b = false)
    \/
    (source_lines text = Ok (shown_segments r) /\
     exists ra, raw_all {| rest := text; sched := [] |} = Ok ra /\
                Forall (fun c => Errh.xs_d (fst (fst c)) = delims_of (fst ra)) (o_html_calls r)).
Proof. exact doc_calls. Qed.

(* 2. TEXT.  ... the report is header() ++ the writes of those calls, in order ++ footer(); the calls are those of the
   views of the SINK-LESS run (doc_views: handler snapshot, err_iter's nodes, pending heading), each completing on an
   error_html object whose pending heading is the escaped sv_info — the premise of C19_segment_text. *)
Theorem C19_doc_text :
  forall load idx clk htime dtd sk text b,
    want_html sk = true ->
    let r := run_pipeline_gen load idx clk htime dtd sk text in
    o_result r = Ok b ->
    (raw_all {| rest := text; sched := [] |} = Raise X12Error /\ r = no_output (Ok false))
    \/
    exists E lines d0 views d1 d2 b' fw,
      doc_setup load idx text = Ok (E, lines, d0) /\
      doc_views E lines d0 ErrIter.iter_init = Ok (views, d1) /\
      finish d1 = (d2, Ok b') /\
      Html.html_footer (ds_errh d2) tt = (tt, fw, Ok tt) /\
      Forall (view_ok (de_d E)) views /\
      o_html_calls r = map (view_call (de_d E)) views /\
      o_html r = concat (Html.html_header htime) ++
                 concat (map (fun v => concat (view_writes (de_d E) v)) views) ++
                 concat fw.
Proof. exact doc_structure. Qed.

(* ... and stripped of its markup it is plain_report: the header texts, per segment what C19_segment_text says, the
   footer texts; every tag is one of the template's.  Hypotheses kept: the date string holds no markup character
   (header() does not escape it), and codes_plain for every call (the side condition of C19_segment_text). *)
Theorem C19_doc_strip :
  forall load idx clk htime dtd sk text b,
    want_html sk = true ->
    let r := run_pipeline_gen load idx clk htime dtd sk text in
    o_result r = Ok b ->
    raw_all {| rest := text; sched := [] |} <> Raise X12Error ->
    markup_free htime = true ->
    exists E lines d0 views d1 d2 b',
      doc_setup load idx text = Ok (E, lines, d0) /\
      doc_views E lines d0 ErrIter.iter_init = Ok (views, d1) /\
      finish d1 = (d2, Ok b') /\
      o_html_calls r = map (view_call (de_d E)) views /\
      (Forall view_codes_plain views ->
       strip_markup (o_html r) = plain_report (de_d E) htime views (ds_errh d2) /\
       forall t, In t (tags (o_html r)) -> In t (header_tags ++ report_tags)).
Proof. exact doc_report_chunk. Qed.

(* 3. ERRORS.  For the views of any document: every node handed to a call is, in the handler at that moment, a node of
   the error tree (so gen_seg reads its errors and elements there); a segment node is handed over at most once in the
   whole run; the handler is a forest at every call and at the end.  The converse (every error of the final tree is
   handed over / printed) is FALSE: Proofs/C19_doc_examples.v F1-F4. *)
Theorem C19_doc_nodes :
  forall load idx text E lines d0 views d1,
    doc_setup load idx text = Ok (E, lines, d0) ->
    doc_views E lines d0 ErrIter.iter_init = Ok (views, d1) ->
    Forall view_sound views /\
    NoDup (filter is_seg_ref (concat (map sv_nodes views))) /\
    H2 (ds_errh d1) /\ Forall (fun v => ext (sv_errh v) (ds_errh d1)) views.
Proof. exact doc_nodes. Qed.

(* ... and whatever a call can print for a node is still in the tree when the run ends, same node, same order:
   the handler only appends. *)
Theorem C19_doc_errors_kept :
  forall E lines d0 views d1 d2 b',
    doc_views E lines d0 ErrIter.iter_init = Ok (views, d1) ->
    finish d1 = (d2, Ok b') ->
    Forall (fun v => forall o r,
              pre (node_errors (sv_errh v) o r) (node_errors (ds_errh d2) o r) /\
              pre (node_elements (sv_errh v) r) (node_elements (ds_errh d2) r)) views.
Proof. exact doc_errors_kept. Qed.

Print Assumptions C19_doc_calls.
Print Assumptions C19_doc_text.
Print Assumptions C19_doc_strip.
Print Assumptions C19_doc_nodes.
Print Assumptions C19_doc_errors_kept.
