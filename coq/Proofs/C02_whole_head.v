(* C02_whole_head.v — C02 composed: the two header segments the driver handles without the walker.
   ISA: node of the control map, walker counters forced to the start of ISA_LOOP, add_isa_loop, ISA12 kept.
   GS : walker counters forced to the start of GS_LOOP, map selected by (ISA12, GS08, GS01) and loaded,
        node = the GS node of THAT map, add_gs_loop.  Both are then validated against the node. *)
From Coq Require Import String Lia.
From PX.Lib Require Import Base PyStr PyInt Regex Xml.
From PX.Model Require Import Path Segment Raw Reader Syntax MapLoad MapTree Element Counter Walker MapEnv Driver.
From PX.Model Require Errh.
From PX.Spec Require Import C01_spec C12_spec C12_doc_spec C07_walker_wf C07_valid_wf C07_spec C0203_spec C02_doc_spec C04_spec C02_whole_spec.
From PX.Proofs Require Import C07_errh C02_whole_errh C02_whole_reader C02_whole_step.
Import Driver.

Local Definition l (x : string) : str := list_ascii_of_string x.

Lemma force_eq w x c px pc :
  parse_path x = Ok px -> parse_path c = Ok pc ->
  forceWalkCounterToLoopStart w x c =
  Ok {| w_counter := increment (increment (reset_to_node (w_counter w) px) px) pc; w_missing := w_missing w |}.
Proof.
  intros Hx Hc. unfold forceWalkCounterToLoopStart, reset_to_node_str, increment_str.
  rewrite Hx. cbn [bind]. rewrite Hc. cbn [bind]. reflexivity.
Qed.

(* the walker state after forceWalkCounterToLoopStart(loop, first segment) *)
Definition forced (w : wstate) (lp sg : string) : wstate :=
  {| w_counter := increment (increment (reset_to_node (w_counter w) (pp lp)) (pp lp)) (pp sg); w_missing := w_missing w |}.

Lemma force_isa w :
  forceWalkCounterToLoopStart w (list_ascii_of_string "/ISA_LOOP") (list_ascii_of_string "/ISA_LOOP/ISA") =
  Ok (forced w "/ISA_LOOP" "/ISA_LOOP/ISA").
Proof. apply force_eq; vm_compute; reflexivity. Qed.

Lemma force_gs w :
  forceWalkCounterToLoopStart w (list_ascii_of_string "/ISA_LOOP/GS_LOOP") (list_ascii_of_string "/ISA_LOOP/GS_LOOP/GS") =
  Ok (forced w "/ISA_LOOP/GS_LOOP" "/ISA_LOOP/GS_LOOP/GS").
Proof. apply force_eq; vm_compute; reflexivity. Qed.

Lemma Clean_ext s s' :
  ds_pending s' = ds_pending s -> ds_valid s' = ds_valid s -> ds_errh s' = ds_errh s -> ds_trace s' = ds_trace s ->
  Clean s -> Clean s'.
Proof. intros a b c e [C1 C2 C3 C4]. constructor; congruence. Qed.

Lemma with_lx_id x b : check_837_lx x = b -> with_lx x b = x.
Proof. intros <-. destruct x. reflexivity. Qed.

Lemma ostr_eqb_refl a : ostr_eqb a a = true.
Proof. destruct a; [apply str_eqb_refl | reflexivity]. Qed.

Lemma ostr_eqb_neq a b : a <> b -> ostr_eqb a b = false.
Proof.
  intros H. destruct a as [a|], b as [b|]; try reflexivity; [|congruence].
  cbn. apply str_eqb_neq. congruence.
Qed.

Lemma isa12_value d f : length f = 15 -> seg_get_value d (isa_for d f) (list_ascii_of_string "ISA12") = Ok (Some (nth 11 f [])).
Proof. intros H. unfold isa_for. do 16 (destruct f as [|? f]; try discriminate). vm_compute. reflexivity. Qed.

Lemma isa_fields_len f : isa_fields_ok f = true -> length f = 15.
Proof.
  unfold isa_fields_ok. intros H. apply andb_true_iff in H as [H _]. apply andb_true_iff in H as [H _].
  apply Nat.eqb_eq. exact H.
Qed.

Section Head.
Variables (load : str -> result xmap) (ix : list map_entry) (cm : xmap) (d : delims).
Notation E := (mkE load ix cm d).

(* ------------------------------------------------------------------ *)
(* ISA                                                                  *)

Theorem isa_step f r_isa s x' :
  length f = 15 ->
  getnode cm "/ISA_LOOP/ISA" = Ok r_isa -> valid_wf cm = true -> fmt_wf cm = true ->
  item_conf cm d (r_isa, isa_for d f) = true ->
  Clean s ->
  exists s', step E (isa_for d f) (after_read s x') = (s', Ok tt) /\ Clean s' /\
             ds_x s' = x' /\ ds_w s' = forced (ds_w s) "/ISA_LOOP" "/ISA_LOOP/ISA" /\ ds_node s' = (cm, r_isa) /\
             ms_icvn (ds_sel s') = Some (nth 11 f []) /\ ms_file (ds_sel s') = ms_file (ds_sel s) /\
             ms_cur (ds_sel s') = ms_cur (ds_sel s) /\
             mono (ds_errh s) (ds_errh s') /\ Errh.c_isa (ds_errh s') <> None /\ Errh.c_seg (ds_errh s') <> None.
Proof.
  intros Lf G VW FW IC C.
  pose proof (Clean_after_read s x' C) as C0. set (s0 := after_read s x') in *.
  set (sg := isa_for d f) in *.
  assert (Hi : sid_is sg "ISA" = true) by reflexivity.
  (* find_node *)
  set (s1 := with_w (with_node s0 (cm, r_isa)) (forced (ds_w s0) "/ISA_LOOP" "/ISA_LOOP/ISA")).
  assert (F : find_node E sg s0 = (s1, Ok true)).
  { unfold find_node. rewrite Hi. cbn [de_cm mkE]. rewrite (bind_lift_ok _ _ _ _ G).
    unfold set_node. rewrite bind_mod, bind_get. unfold Driver.l. cbn [with_node ds_w].
    rewrite (bind_lift_ok _ _ _ _ (force_isa (ds_w s0))). rewrite bind_mod. reflexivity. }
  assert (C1 : Clean s1) by (apply (Clean_ext s0); [reflexivity..|exact C0]).
  (* dispatch *)
  assert (Dp : exists s2, dispatch_seg E sg s1 = (s2, Ok tt) /\ Clean s2 /\
             ds_x s2 = ds_x s1 /\ ds_w s2 = ds_w s1 /\ ds_node s2 = ds_node s1 /\
             ms_icvn (ds_sel s2) = Some (nth 11 f []) /\ ms_file (ds_sel s2) = ms_file (ds_sel s1) /\
             ms_cur (ds_sel s2) = ms_cur (ds_sel s1) /\
             mono (ds_errh s1) (ds_errh s2) /\ Errh.c_isa (ds_errh s2) <> None /\ Errh.c_seg (ds_errh s2) <> None).
  { unfold dispatch_seg. rewrite Hi. cbv zeta. rewrite bind_get.
    destruct (add_isa_loop_ok (to_xseg {| xg_d := de_d E; xg_s := sg |}) (src_of (ds_x s1)) (ds_errh s1) (cl_hok s1 C1))
      as (h' & A & H' & M & Q1 & Q2); [discriminate | reflexivity |].
    destruct (call_ok (DAddIsa {| xg_d := de_d E; xg_s := sg |} (src_of (ds_x s1))) s1 h' C1 A H' M eq_refl) as (s2 & R2 & C2 & K2 & E2).
    rewrite (bind_ok _ _ _ _ _ R2). unfold Driver.l. cbn [de_d mkE].
    rewrite (bind_lift_ok _ _ _ _ (isa12_value d f Lf)). unfold sel_upd. rewrite bind_mod.
    match goal with |- context [handle_popped ?st] => set (s3 := st) end.
    assert (C3 : Clean s3) by (apply (Clean_ext s2); [reflexivity..|exact C2]).
    destruct (handle_popped_clean s3 C3) as (s4 & R4 & C4 & K4 & E4).
    exists s4. split; [exact R4|]. split; [exact C4|].
    destruct K2 as [a1 a2 a3 a4 a5]. destruct K4 as [b1 b2 b3 b4 b5].
    split; [rewrite b1; exact a1|]. split; [rewrite b2; exact a2|]. split; [rewrite b3; exact a3|].
    rewrite b4. cbn [s3 with_sel ds_sel ms_icvn ms_file ms_cur]. rewrite a4.
    split; [reflexivity|]. split; [reflexivity|]. split; [reflexivity|].
    rewrite E4. cbn [s3 with_sel ds_errh]. rewrite E2. auto. }
  destruct Dp as (s2 & D2 & C2 & X2 & W2 & N2 & I2 & F2 & U2 & M2 & Q1 & Q2).
  destruct (validate_ok load ix cm d cm r_isa sg s2 VW FW IC) as (s3 & V3 & C3 & K3); [rewrite N2; reflexivity | exact C2 | exact Q2 |].
  exists s3. split.
  { unfold step. rewrite (bind_ok _ _ _ _ _ F). rewrite (bind_ok _ _ _ _ _ D2). exact V3. }
  destruct K3 as [k1 k2 k3 k4 k5].
  split; [exact C3|]. split; [rewrite k1, X2; reflexivity|]. split; [rewrite k2, W2; reflexivity|].
  split; [rewrite k3, N2; reflexivity|]. rewrite k4.
  split; [exact I2|]. split; [rewrite F2; reflexivity|]. split; [rewrite U2; reflexivity|].
  split; [eapply mono_trans; [exact M2 | exact k5]|].
  destruct k5 as (m1 & _ & _ & m4 & _). split; [apply m1, Q1 | apply m4, Q2].
Qed.

(* ------------------------------------------------------------------ *)
(* GS                                                                   *)

Theorem gs_step (gs : seg) file m icvn r_gs_cm gs_ref s x' :
  sid_is gs "GS" = true ->
  getnode cm "/ISA_LOOP/GS_LOOP/GS" = Ok r_gs_cm ->
  ms_icvn (ds_sel s) = Some icvn ->
  index_filename ix (Some icvn) (gval d gs "GS08") (gval d gs "GS01") None = Some file ->
  load file = Ok m ->
  ((ms_file (ds_sel s) = Some file /\ ms_cur (ds_sel s) = Some m /\ check_837_lx x' = is837 m) \/
   ms_file (ds_sel s) <> Some file) ->
  getnode m "/ISA_LOOP/GS_LOOP/GS" = Ok gs_ref -> valid_wf m = true -> fmt_wf m = true ->
  item_conf m d (gs_ref, gs) = true ->
  Clean s -> Errh.c_isa (ds_errh s) <> None -> Link (ds_x s) (ds_errh s) ->
  reader_step d (ds_x s) gs = Ok (x', []) ->
  exists s', step E gs (after_read s x') = (s', Ok tt) /\ Clean s' /\
             ds_x s' = with_lx x' (is837 m) /\
             ds_w s' = forced (ds_w s) "/ISA_LOOP/GS_LOOP" "/ISA_LOOP/GS_LOOP/GS" /\ ds_node s' = (m, gs_ref) /\
             ms_icvn (ds_sel s') = Some icvn /\ ms_file (ds_sel s') = Some file /\ ms_cur (ds_sel s') = Some m /\
             ms_vriic (ds_sel s') = gval d gs "GS08" /\
             mono (ds_errh s) (ds_errh s') /\ Link x' (ds_errh s') /\ Errh.c_seg (ds_errh s') <> None.
Proof.
  intros Hg G Icv Sel Ld Cur Gm VW FW IC C Ci [Lg Lt] R.
  pose proof (sid_is_sid _ _ Hg) as Hs.
  pose proof (Clean_after_read s x' C) as C0. set (s0 := after_read s x') in *.
  assert (Ni : sid_is gs "ISA" = false) by (unfold sid_is; rewrite Hs; reflexivity).
  set (s1 := with_w (with_node s0 (cm, r_gs_cm)) (forced (ds_w s0) "/ISA_LOOP/GS_LOOP" "/ISA_LOOP/GS_LOOP/GS")).
  assert (F : find_node E gs s0 = (s1, Ok true)).
  { unfold find_node. rewrite Ni, Hg. cbn [de_cm mkE]. rewrite (bind_lift_ok _ _ _ _ G).
    unfold set_node. rewrite bind_mod, bind_get. unfold Driver.l. cbn [with_node ds_w].
    rewrite (bind_lift_ok _ _ _ _ (force_gs (ds_w s0))). rewrite bind_mod. reflexivity. }
  assert (C1 : Clean s1) by (apply (Clean_ext s0); [reflexivity..|exact C0]).
  destruct (gvo_GS01 d gs Hs) as [fic Efic]. destruct (gvo_GS08 d gs Hs) as [vriic Evr].
  assert (Gf : gval d gs "GS01" = fic) by (unfold gval; change (C02_whole_spec.l "GS01") with (C02_whole_errh.l "GS01"); rewrite Efic; reflexivity).
  assert (Gv : gval d gs "GS08" = vriic) by (unfold gval; change (C02_whole_spec.l "GS08") with (C02_whole_errh.l "GS08"); rewrite Evr; reflexivity).
  rewrite Gf, Gv in Sel.
  (* the selection *)
  set (sel1 := {| ms_file := ms_file (ds_sel s1); ms_cur := ms_cur (ds_sel s1); ms_icvn := ms_icvn (ds_sel s1);
                  ms_fic := fic; ms_vriic := vriic |}).
  set (s2 := with_sel s1 sel1).
  assert (Sw : exists s3, (if negb (ostr_eqb (ms_file (ds_sel s2)) (Some file)) then dod _ <- switch_map E (Some file); d_ret tt else d_ret tt) s2
                          = (s3, Ok tt) /\
                 ds_pending s3 = ds_pending s2 /\ ds_valid s3 = ds_valid s2 /\ ds_errh s3 = ds_errh s2 /\ ds_trace s3 = ds_trace s2 /\
                 ds_w s3 = ds_w s2 /\ ds_x s3 = with_lx x' (is837 m) /\
                 ms_icvn (ds_sel s3) = Some icvn /\ ms_file (ds_sel s3) = Some file /\ ms_cur (ds_sel s3) = Some m /\
                 ms_vriic (ds_sel s3) = vriic).
  { destruct Cur as [(Cf & Cc & Cl) | Cf].
    - exists s2. cbn [s2 with_sel ds_sel sel1 ms_file]. change (ms_file (ds_sel s1)) with (ms_file (ds_sel s)).
      rewrite Cf, ostr_eqb_refl. cbn [negb]. split; [reflexivity|].
      repeat (split; [reflexivity|]). split; [symmetry; apply with_lx_id; exact Cl|].
      cbn [ms_icvn ms_cur ms_vriic]. auto.
    - cbn [s2 with_sel ds_sel sel1 ms_file]. change (ms_file (ds_sel s1)) with (ms_file (ds_sel s)).
      rewrite (ostr_eqb_neq _ _ Cf). cbn [negb]. unfold switch_map, sel_upd, d_bind, d_mod, d_lift, d_ret. cbn [de_load mkE].
      rewrite Ld. eexists. split; [reflexivity|].
      repeat split; try reflexivity. exact Icv. }
  destruct Sw as (s3 & W3 & P3 & V3 & H3 & T3 & Ww3 & X3 & I3 & F3 & U3 & Vr3).
  assert (C3 : Clean s3) by (apply (Clean_ext s1); [assumption..|exact C1]).
  assert (Ci3 : Errh.c_isa (ds_errh s3) <> None) by (rewrite H3; exact Ci).
  (* add_gs_loop *)
  set (s4 := with_node s3 (m, gs_ref)).
  assert (C4 : Clean s4) by (apply (Clean_ext s3); [reflexivity..|exact C3]).
  destruct (add_gs_loop_ok (to_xseg {| xg_d := d; xg_s := gs |}) (src_of (ds_x s3)) (ds_errh s4) (cl_hok s4 C4))
    as (h' & A & H' & M & Q1 & Q2); [discriminate | exact Ci3 | exact Hs |].
  destruct (call_ok (DAddGs {| xg_d := d; xg_s := gs |} (src_of (ds_x s3))) s4 h' C4 A H' M eq_refl) as (s5 & R5 & C5 & K5 & E5).
  destruct (handle_popped_clean s5 C5) as (s6 & R6 & C6 & K6 & E6).
  assert (Dp : dispatch_seg E gs s1 = (s6, Ok tt)).
  { unfold dispatch_seg. rewrite Ni, Hg. assert (Ne : sid_is gs "IEA" = false) by (unfold sid_is; rewrite Hs; reflexivity).
    rewrite Ne. cbv zeta. unfold Driver.l. cbn [de_d mkE de_idx].
    rewrite (bind_lift_ok _ _ _ _ Efic), (bind_lift_ok _ _ _ _ Evr). unfold sel_upd at 1. rewrite bind_mod.
    fold sel1. fold s2. rewrite bind_get.
    replace (ms_icvn (ds_sel s2)) with (Some icvn) by (symmetry; exact Icv). rewrite Sel.
    rewrite (bind_ok _ _ _ _ _ W3). rewrite bind_get, U3. rewrite (bind_lift_ok _ _ _ _ Gm).
    unfold set_node. rewrite bind_mod. fold s4. rewrite (bind_ok _ _ _ _ _ R5). exact R6. }
  assert (K : Keep s4 s6) by (eapply Keep_trans; eauto).
  assert (Nd6 : ds_node s6 = (m, gs_ref)) by (rewrite (kp_node _ _ K); reflexivity).
  assert (Q6 : Errh.c_seg (ds_errh s6) <> None) by (rewrite E6, E5; exact Q2).
  destruct (validate_ok load ix cm d m gs_ref gs s6 VW FW IC Nd6 C6 Q6) as (s7 & V7 & C7 & K7).
  exists s7. split.
  { unfold step. rewrite (bind_ok _ _ _ _ _ F). rewrite (bind_ok _ _ _ _ _ Dp). exact V7. }
  pose proof (Keep_trans _ _ _ K K7) as K'. destruct K' as [k1 k2 k3 k4 k5].
  split; [exact C7|]. split; [rewrite k1; exact X3|]. split; [rewrite k2; cbn [s4 with_node ds_w]; rewrite Ww3; reflexivity|].
  split; [rewrite k3; reflexivity|]. rewrite k4. cbn [s4 with_node ds_sel].
  split; [exact I3|]. split; [exact F3|]. split; [exact U3|]. split; [rewrite <- Gv in Vr3; exact Vr3|].
  assert (M' : mono (ds_errh s) (ds_errh s7)) by (cbn [s4 with_node ds_errh] in k5; rewrite H3 in k5; exact k5).
  split; [exact M'|].
  assert (Qg : Errh.c_gs (ds_errh s7) <> None).
  { destruct (kp_mono _ _ K7) as (_ & m2 & _). apply m2. rewrite E6, E5. exact Q1. }
  destruct (silent_GS d (ds_x s) gs x' Hg R) as (_ & i & L1).
  split; [|destruct (kp_mono _ _ K7) as (_ & _ & _ & m4 & _); apply m4, Q6].
  split; [intros _; exact Qg|].
  intros Ht. destruct M' as (_ & _ & m3 & _). apply m3, Lt.
  unfold has_kind in *. rewrite L1 in Ht. cbn [existsb fst] in Ht. apply orb_true_iff in Ht as [Ht|Ht]; [discriminate | exact Ht].
Qed.

End Head.

Print Assumptions isa_step.
Print Assumptions gs_step.
