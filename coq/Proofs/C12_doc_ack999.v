(* C12_doc_ack999.v — layer (c) for the 999: the same three steps as Proofs/C12_doc_ack.v for the 997 visitor
   (Model/Ack999.v reads the stored segments through get_value('ISA05'..'ISA08', 'ISA12', 'ISA15') and
   get_value('GS02', 'GS03', 'GS07')). *)
From Coq Require Import String Lia.
From PX.Lib Require Import Base PyStr PyInt.
From PX.Model Require Import Path Segment Raw Reader MapLoad MapTree Element Walker MapEnv Driver.
From PX.Model Require Import Errh Ack997 Ack999.
From PX.Spec Require Import C01_spec C12_spec C12b_spec C12_doc_spec.
From PX.Proofs Require Import C01_roundtrip C12_lemmas C12_layers C12_doc_errh C12_doc_step C12_doc_run C12_doc_ack.

Local Definition l (s : string) : str := list_ascii_of_string s.

Section Visitor.
  Variables fi fg ft : xseg -> xseg.
  Hypothesis Hi : forall x r, In r isa_refs -> xget (fi x) r = xget x r.
  Hypothesis Hg : forall x r, In r gs_refs -> xget (fg x) r = xget x r.
  Notation Phi := (map_errh fi fg ft).
  Notation relH := (relR fi fg ft).

  Definition PhiV (v : v999) : v999 := set_y_h v (Phi (y_h v)).

  Definition relV {A} (g : A -> A) (m' m : SE v999 A) : Prop :=
    forall v, m' (PhiV v) = (PhiV (fst (m v)), rmap g (snd (m v))).

  Lemma relV_ret {A} (a : A) : relV same (se_ret a) (se_ret a).
  Proof. intros v. reflexivity. Qed.
  Lemma relV_raise {A} (g : A -> A) e : relV g (se_raise e) (se_raise e).
  Proof. intros v. reflexivity. Qed.
  Lemma relV_lift {A} (r : result A) : relV same (se_lift r) (se_lift r).
  Proof. intros v. unfold se_lift. cbn [fst snd]. destruct r; reflexivity. Qed.
  Lemma relV_deref {A} (o : option A) : relV same (deref o) (deref o).
  Proof. apply relV_lift. Qed.
  Lemma relV_get : relV PhiV se_get se_get.
  Proof. intros v. reflexivity. Qed.
  Lemma relV_mod f' f : (forall v, f' (PhiV v) = PhiV (f v)) -> relV same (se_mod f') (se_mod f).
  Proof. intros H v. unfold se_mod. cbn [fst snd rmap]. rewrite H. reflexivity. Qed.
  Lemma relV_bind {A B} (g : A -> A) (g2 : B -> B) (m' m : SE v999 A) (f' f : A -> SE v999 B) :
    relV g m' m -> (forall a, relV g2 (f' (g a)) (f a)) -> relV g2 (se_bind m' f') (se_bind m f).
  Proof.
    intros Hm Hf v. unfold se_bind. rewrite (Hm v). destruct (m v) as [v1 [a|e]]; cbn [fst snd rmap]; [apply Hf | reflexivity].
  Qed.
  Lemma relV_iter {A} (f' f : A -> SE v999 unit) xs : (forall x, relV same (f' x) (f x)) -> relV same (se_iter f' xs) (se_iter f xs).
  Proof.
    intros H. induction xs as [|x r IH]; cbn [se_iter]; [apply relV_ret|].
    apply (relV_bind same); [apply H | intros _; exact IH].
  Qed.
  Lemma relV_in_hy {A} (g : A -> A) (m' m : SE errh A) : relH g m' m -> relV g (in_hy m') (in_hy m).
  Proof.
    intros H v. unfold in_hy. cbn [PhiV set_y_h y_h]. rewrite (H (y_h v)).
    destruct (m (y_h v)) as [h1 r1]. reflexivity.
  Qed.
  Lemma relV_write s : relV same (wr_write s) (wr_write s).
  Proof.
    intros v. unfold wr_write. cbn [PhiV set_y_h y_wr y_h y_out y_isa_ctl y_gs_ctl y_st_ctl].
    destruct (Writer.w_write (y_wr v) D s) as [[w' lines]|e]; reflexivity.
  Qed.

  (* ---- what the visitor computes from the heap does not see the rewriting ---- *)
  Lemma gs_count_failed_Phi h n : gs_count_failed_st (Phi h) (map_gs fg n) = gs_count_failed_st h n.
  Proof.
    unfold gs_count_failed_st. cbn [map_gs gn_children map_errh h_st]. f_equal.
    apply filter_ext. intros i. rewrite nth_error_map'. destruct (nth_error (h_st h) i); reflexivity.
  Qed.

  Ltac vstep :=
    lazymatch goal with
    | |- relV _ (se_ret _) (se_ret _) => apply relV_ret
    | |- relV _ (se_raise _) (se_raise _) => apply relV_raise
    | |- relV _ (se_lift _) (se_lift _) => apply relV_lift
    | |- relV _ (deref _) (deref _) => apply relV_deref
    | |- relV _ (wr_write _) (wr_write _) => apply relV_write
    | |- relV _ (se_bind se_get _) (se_bind se_get _) => apply (relV_bind PhiV); [apply relV_get | intros ?]
    | |- relV _ (se_bind (in_hy (get_isa _)) _) (se_bind (in_hy (get_isa _)) _) =>
        apply (relV_bind (map_isa fi)); [apply relV_in_hy, relR_get_isa | intros ?]
    | |- relV _ (se_bind (in_hy (get_gs _)) _) (se_bind (in_hy (get_gs _)) _) =>
        apply (relV_bind (map_gs fg)); [apply relV_in_hy, relR_get_gs | intros ?]
    | |- relV _ (se_bind (in_hy (get_st _)) _) (se_bind (in_hy (get_st _)) _) =>
        apply (relV_bind (map_st ft)); [apply relV_in_hy, relR_get_st | intros ?]
    | |- relV _ (se_bind (in_hy (get_seg _)) _) (se_bind (in_hy (get_seg _)) _) =>
        apply (relV_bind same); [apply relV_in_hy, relR_get_seg | intros ?]
    | |- relV _ (se_bind (in_hy (get_ele _)) _) (se_bind (in_hy (get_ele _)) _) =>
        apply (relV_bind same); [apply relV_in_hy, relR_get_ele | intros ?]
    | |- relV _ (se_bind _ _) (se_bind _ _) => apply (relV_bind same); [| intros ?]
    | |- relV _ (se_iter _ ?xs) (se_iter _ ?xs) => apply relV_iter; intros ?
    | |- relV _ (se_mod _) (se_mod _) => apply relV_mod; intros ?; reflexivity
    | |- relV _ (if ?b then _ else _) (if ?b then _ else _) => destruct b
    | |- relV _ (match ?x with _ => _ end) (match ?x with _ => _ end) => destruct x
    end.

  Ltac vnorm :=
    unfold same;
    cbn [PhiV set_y_h y_h y_out y_wr y_isa_ctl y_gs_ctl y_st_ctl
         map_errh c_isa c_gs c_st c_seg seg_added c_ele ele_added h_seg h_ele
         map_isa map_gs map_st in_seg gn_seg in_ta1 in_trn in_date in_time gn_fic gn_ctl gn_vriic tn_vriic gn_ack gn_orig gn_recv
         tn_id tn_ctl tn_ack tn_children gn_children in_children] in *.

  Ltac vgo tac :=
    repeat first [ tac | (vstep; vnorm; rewrite ?Hi, ?Hg by (cbn; tauto); rewrite ?gs_count_failed_Phi) ].

  Lemma visit_root_pre_comm ck : relV same (visit_root_pre9 ck) (visit_root_pre9 ck).
  Proof. unfold visit_root_pre9. cbv zeta. vgo fail. Qed.

  Lemma visit_root_post_comm : relV same visit_root_post9 visit_root_post9.
  Proof. unfold visit_root_post9. cbv zeta. vgo fail. Qed.

  Lemma visit_gs_pre_comm n : relV same (visit_gs_pre9 (map_gs fg n)) (visit_gs_pre9 n).
  Proof. unfold visit_gs_pre9. vnorm. vgo fail. Qed.

  Lemma visit_gs_post_comm g : relV same (visit_gs_post9 g) (visit_gs_post9 g).
  Proof.
    unfold visit_gs_post9. vstep. vnorm. vstep.
    { destruct (negb _); [|vstep]. destruct (negb _); [|vstep].
      apply relV_in_hy, relR_mod_gs. intros n. reflexivity. }
    cbv zeta. vgo fail.
  Qed.

  Lemma visit_st_pre_comm n : relV same (visit_st_pre9 (map_st ft n)) (visit_st_pre9 n).
  Proof. unfold visit_st_pre9. vnorm. destruct (tn_id n), (tn_ctl n); vgo fail. Qed.

  Lemma visit_st_post_comm t : relV same (visit_st_post9 t) (visit_st_post9 t).
  Proof. unfold visit_st_post9. vstep. vnorm. vstep. vnorm. destruct (tn_ack a); vgo fail. Qed.

  Lemma visit_seg_comm n : relV same (visit_seg9 n) (visit_seg9 n).
  Proof.
    unfold visit_seg9. vstep. vnorm. vstep; [vstep|]. cbv zeta. vstep.
    - vgo fail.
    - change (seg_child_err_count (Phi (y_h a)) n) with (seg_child_err_count (y_h a) n). vgo fail.
  Qed.

  Lemma visit_ele_comm e : relV same (visit_ele9 e) (visit_ele9 e).
  Proof. unfold visit_ele9. vstep; [vstep|]. vstep. cbv zeta. vgo fail. Qed.

  Lemma accept_seg_comm k : relV same (accept_seg9 k) (accept_seg9 k).
  Proof.
    unfold accept_seg9. vstep. vnorm. vstep; [apply visit_seg_comm|]. vstep. vstep. apply visit_ele_comm.
  Qed.

  Lemma accept_st_comm t : relV same (accept_st9 t) (accept_st9 t).
  Proof.
    unfold accept_st9. vstep. vstep; [apply visit_st_pre_comm|]. vnorm.
    vstep; [vstep; apply accept_seg_comm|]. apply visit_st_post_comm.
  Qed.

  Lemma accept_gs_comm g : relV same (accept_gs9 g) (accept_gs9 g).
  Proof.
    unfold accept_gs9. vstep. vstep; [apply visit_gs_pre_comm|]. vnorm.
    vstep; [vstep; apply accept_st_comm|]. apply visit_gs_post_comm.
  Qed.

  Lemma accept_isa_comm i : relV same (accept_isa9 i) (accept_isa9 i).
  Proof. unfold accept_isa9. vstep. vnorm. vstep. apply accept_gs_comm. Qed.

  Lemma accept_root_comm ck : relV same (accept_root9 ck) (accept_root9 ck).
  Proof.
    unfold accept_root9. vstep; [apply visit_root_pre_comm|]. vstep. vnorm. cbn [h_isa map_errh]. rewrite map_length.
    vstep; [vstep; apply accept_isa_comm|]. apply visit_root_post_comm.
  Qed.

  Theorem render_999_commutes ck h :
    render_999 ck (Phi h) =
    (Phi (fst (fst (render_999 ck h))), snd (fst (render_999 ck h)), snd (render_999 ck h)).
  Proof.
    unfold render_999. change (v999_init (Phi h)) with (PhiV (v999_init h)).
    rewrite (accept_root_comm ck (v999_init h)).
    destruct (accept_root9 ck (v999_init h)) as [v [u|e]]; reflexivity.
  Qed.
End Visitor.

Notation PhiP := (map_errh strip_isa_if_plain strip_if_plain strip_if_plain).

Theorem ack_999_same ck h1 h2 :
  strip_errh h1 = strip_errh h2 -> stored_plain h1 -> stored_plain h2 ->
  snd (fst (render_999 ck h1)) = snd (fst (render_999 ck h2)) /\
  snd (render_999 ck h1) = snd (render_999 ck h2) /\
  PhiP (fst (fst (render_999 ck h1))) = PhiP (fst (fst (render_999 ck h2))).
Proof.
  intros H P1 P2.
  pose proof (render_999_commutes strip_isa_if_plain strip_if_plain strip_if_plain
                xget_strip_isa_if_plain (fun x r _ => xget_strip_if_plain x r) ck h1) as E1.
  pose proof (render_999_commutes strip_isa_if_plain strip_if_plain strip_if_plain
                xget_strip_isa_if_plain (fun x r _ => xget_strip_if_plain x r) ck h2) as E2.
  rewrite (strip_if_plain_stored h1 P1) in E1. rewrite (strip_if_plain_stored h2 P2) in E2.
  rewrite H in E1. rewrite E1 in E2.
  assert (T : forall (a b : errh * list str * option exn), a = b ->
                snd (fst a) = snd (fst b) /\ snd a = snd b /\ fst (fst a) = fst (fst b)) by (intros a b ->; auto).
  apply T in E2. cbn [fst snd] in E2. exact E2.
Qed.

Theorem ack_999_delims_layout_independent :
  forall load idx d1 d2 conv1 conv2 f body ck,
    distinct_delims d1 = true -> distinct_delims d2 = true ->
    delims_not_break d1 = true -> delims_not_break d2 = true ->
    is_break conv1 = true -> is_break conv2 = true ->
    isa_fields_ok f = true ->
    clean_seg d1 (isa_for d1 f) = true -> clean_seg d2 (isa_for d2 f) = true ->
    body_ok d1 body = true -> body_ok d2 body = true ->
    forallb id_starts_plain body = true -> forallb ctl_simple body = true ->
    isa_valid_same load d1 d2 f ->
    doc_layers_ok load idx (encode d1 conv1 (isa_for d1 f :: body)) = true ->
    match run_state load idx (encode d1 conv1 (isa_for d1 f :: body)),
          run_state load idx (encode d2 conv2 (isa_for d2 f :: body)) with
    | Some s1, Some s2 =>
        snd (fst (render_999 ck (ds_errh s1))) = snd (fst (render_999 ck (ds_errh s2))) /\
        snd (render_999 ck (ds_errh s1)) = snd (render_999 ck (ds_errh s2))
    | None, None => True
    | _, _ => False
    end.
Proof.
  intros load idx d1 d2 conv1 conv2 f body ck D1 D2 N1 N2 K1 K2 Hf C1 C2 B1 B2 Hp Hc HI HL.
  pose proof (ack_997_delims_layout_independent load idx d1 d2 conv1 conv2 f body ck D1 D2 N1 N2 K1 K2 Hf C1 C2 B1 B2 Hp Hc HI HL) as R.
  destruct (run_state load idx (encode d1 conv1 _)) as [s1|], (run_state load idx (encode d2 conv2 _)) as [s2|]; try exact R.
  destruct R as (E & P1 & P2 & _).
  destruct (ack_999_same ck (ds_errh s1) (ds_errh s2) E P1 P2) as (A & B & _). split; assumption.
Qed.

Print Assumptions render_999_commutes.
Print Assumptions ack_999_same.
Print Assumptions ack_999_delims_layout_independent.
