(* C07_pipeline_maps.v — the per-map sink facts of Spec/C07_sinks_spec.v evaluated on the shipped maps
   (the configuration of Proofs/C07_driver_maps.v: every shipped file except 277.5010.X212,
   820.4010.X061.A1, 830.4010.PS, which map_ok does not cover), `env_ok_sinks` for it, and the totality
   theorem of the whole pipeline on it.

   xml_ok and html_ok are TRUE on every shipped map that loads, except comp_test.xml (segments directly
   under the map root, so both are false); comp_test is `unusable` (none of the driver's fixed paths
   resolves in it), hence sinks_ok. 841.4010.XXXC does not load.  No finding. *)
From Coq Require Import String.
From PX.Lib Require Import Base PyStr Xml.
From PX.Model Require Import Segment MapLoad MapTree Driver Pipeline.
From PX.Model Require Ack997.
From PX.Spec Require Import C07_walker_wf C07_valid_wf C07_spec C07_sinks_spec.
From PX.Proofs Require Import C07_driver_maps C07_pipeline.

(* (unusable, xml_ok, html_ok) of every shipped file that loads *)
Definition sink_facts (p : string * xml) : string * option (bool * bool * bool) :=
  match load_tree (snd p) with
  | Ok m => (fst p, Some (unusable m, xml_ok m, html_ok m))
  | Raise _ => (fst p, None)
  end.

Example shipped_sink_facts :
  map sink_facts shipped = [
    ("270.4010.X092.A1.xml"%string, Some (false, true, true));
    ("271.4010.X092.A1.xml"%string, Some (false, true, true));
    ("276.4010.X093.A1.xml"%string, Some (false, true, true));
    ("277U.4010.X070.xml"%string, Some (false, true, true));
    ("277.4010.X093.A1.xml"%string, Some (false, true, true));
    ("277.5010.X214.xml"%string, Some (false, true, true));
    ("278.4010.X094.27.A1.xml"%string, Some (false, true, true));
    ("278.4010.X094.A1.xml"%string, Some (false, true, true));
    ("820.5010.X218.xml"%string, Some (false, true, true));
    ("820.5010.X218.v2.xml"%string, Some (true, true, true));
    ("834.4010.X095.A1.xml"%string, Some (false, true, true));
    ("834.5010.X220.A1.xml"%string, Some (false, true, true));
    ("834.5010.X220.A1.v2.xml"%string, Some (true, true, true));
    ("835.4010.X091.A1.xml"%string, Some (false, true, true));
    ("835.5010.X221.A1.xml"%string, Some (false, true, true));
    ("835.5010.X221.A1.v2.xml"%string, Some (true, true, true));
    ("837Q3.I.5010.X223.A1.xml"%string, Some (false, true, true));
    ("837Q3.I.5010.X223.A1.v2.xml"%string, Some (true, true, true));
    ("837.4010.X096.A1.xml"%string, Some (false, true, true));
    ("837.4010.X097.A1.xml"%string, Some (false, true, true));
    ("837.4010.X098.A1.xml"%string, Some (false, true, true));
    ("837.5010.X222.A1.xml"%string, Some (false, true, true));
    ("841.4010.XXXC.xml"%string, None);
    ("997.4010.xml"%string, Some (false, true, true));
    ("999.5010.xml"%string, Some (false, true, true));
    ("999.5010X231.A1.xml"%string, Some (false, true, true));
    ("codes.xml"%string, Some (true, true, true));
    ("comp_test.xml"%string, Some (true, false, false));
    ("dataele.xml"%string, Some (true, true, true));
    ("maps.xml"%string, Some (true, true, true));
    ("x12.control.00401.xml"%string, Some (false, true, true));
    ("x12.control.00501.xml"%string, Some (false, true, true)) ].
Proof. vm_compute. reflexivity. Qed.

(* the three maps map_ok does not cover: the sink facts hold on them too *)
From PX.Gen.Maps Require M_277_5010_X212 M_820_4010_X061_A1 M_830_4010_PS.
Example uncovered_sink_facts :
  map sink_facts [("277.5010.X212.xml"%string, M_277_5010_X212.tree);
                  ("820.4010.X061.A1.xml"%string, M_820_4010_X061_A1.tree);
                  ("830.4010.PS.xml"%string, M_830_4010_PS.tree)] =
  [("277.5010.X212.xml"%string, Some (false, true, true));
   ("820.4010.X061.A1.xml"%string, Some (false, true, true));
   ("830.4010.PS.xml"%string, Some (false, true, true))].
Proof. vm_compute. reflexivity. Qed.

Definition entry_sinks_ok (p : string * xml) : bool :=
  match load_tree (snd p) with Ok m => sinks_ok m | Raise _ => true end.

Lemma assoc_sinks_ok e : forallb entry_sinks_ok e = true ->
  forall name m, assoc_load e name = Ok m -> sinks_ok m = true.
Proof.
  intros H. induction e as [|[n t] e IH]; intros name m L; cbn [assoc_load] in L; [discriminate L|].
  cbn [forallb] in H. apply andb_true_iff in H as [H1 H2].
  destruct (str_eqb (sl n) name); [|exact (IH H2 name m L)].
  unfold entry_sinks_ok in H1. cbn [snd] in H1. rewrite L in H1. exact H1.
Qed.

Theorem shipped_env_ok_sinks : env_ok_sinks shipped_load shipped_idx.
Proof.
  split; [exact shipped_env_ok|]. apply assoc_sinks_ok. vm_compute. reflexivity.
Qed.

Theorem shipped_pipeline_total :
  forall clk htime dtd sk text, plain_delims text = true ->
    match o_result (run_pipeline_gen shipped_load shipped_idx clk htime dtd sk text) with
    | Ok _ => True | Raise e => allowed e = true end.
Proof. intros clk htime dtd sk text P. apply pipeline_total; [exact shipped_env_ok_sinks | exact P]. Qed.

(* ---- sanity: a run with all three sinks on returns a verdict and writes to each sink ---- *)
Definition clk0 : Ack997.clock :=
  {| Ack997.ck_ymd6 := sl "260102"; Ack997.ck_hm := sl "1201"; Ack997.ck_ymd8 := sl "20260102";
     Ack997.ck_hms := sl "120100"; Ack997.ck_rand := 12345678 |}.
Definition all_on : sinks := {| want_ack := true; want_html := true; want_xml := true |}.
Definition doc1 : str :=
  sl "ISA*00*          *00*          *ZZ*SENDER         *ZZ*RECEIVER       *030101*1253*U*00401*000000001*0*P*:~GS*HC*S*R*20030101*1253*1*X*004010X098A1~ST*837*0001~BHT*0019*00*1*20030101*1253*CH~SE*3*0001~GE*1*1~IEA*1*000000001~".

Example all_sinks_run :
  let o := run_pipeline_gen shipped_load shipped_idx clk0 (sl "01/02/2026 12:01:00") None all_on doc1 in
  (o_result o, plain_delims doc1, length (o_ack o), length (o_html o), length (o_xml o))
  = (Ok false, true, 298, 2762, 1779).
Proof. vm_compute. reflexivity. Qed.

Print Assumptions shipped_env_ok_sinks.
Print Assumptions shipped_pipeline_total.
