(* C12_doc_examples.v — the document-level theorem of C12 on the SHIPPED maps (Proofs/C07_driver_maps.v; loaded with
   the basic character set "B"), by computation.

   Here, non-vacuity (the nv_ examples): an 837 with errors and a genuine composite (CLM05), and a clean 997, written as "~*:"
   without line breaks and as "|^!" with CRLF: every hypothesis of driver_delims_layout_independent evaluated, the
   conclusion instantiated, the runs looked at.

   In Proofs/C12_doc_cex.v, why each hypothesis is there:
     delims_only_is_false      erasing the delimiters alone is not enough: the ISA segment handed to add_isa_loop carries ISA16
     isa16_validation_needed   FINDING: isa_valid_same cannot be dropped — with the basic character set the component
                               separator '>' is itself an invalid ISA16 value: the same clean 997 is valid with ':' and
                               invalid with '>'
     layers_needed             doc_layers_ok cannot be dropped: AK101 = HC<sep>X is quoted with the separator
                               ("Segment AK1*HC<sep>X not found")
     bht02_needed              the conjunct seg_values_ok (BHT02, read by the driver to choose the 278 map) cannot be dropped:
                               with it removed the remaining check passes, and one run raises where the other goes on *)
From Coq Require Import String.
From PX.Lib Require Import Base PyStr PyInt.
From PX.Model Require Import Path Segment Raw Reader MapLoad MapTree Element Walker MapEnv Driver.
From PX.Model Require Errh.
From PX.Spec Require Import C01_spec C12_spec C12b_spec C12_doc_spec.
From PX.Proofs Require Import C01_roundtrip C07_driver_maps C12_reader C12_doc_step C12_doc_run.

Local Definition l (s : string) : str := list_ascii_of_string s.

Definition da : delims := {| seg_term := "~"%char; ele_term := "*"%char; subele_term := ":"%char |}.
Definition db : delims := {| seg_term := "|"%char; ele_term := "^"%char; subele_term := "!"%char |}.
Definition dgt : delims := {| seg_term := "|"%char; ele_term := "^"%char; subele_term := ">"%char |}.
Definition crlf : str := [ascii_of_nat 13; ascii_of_nat 10].

Local Open Scope string_scope.

Definition S1 (id : string) (e : list (list string)) : seg := {| sid := Some (l id); els := map (map l) e |}.

(* a clean 997 *)
Definition body_997 : list seg :=
  [ S1 "GS" [["FA"]; ["SS"]; ["RR"]; ["20030828"]; ["1128"]; ["17"]; ["X"]; ["004010"]];
    S1 "ST" [["997"]; ["0001"]];
    S1 "AK1" [["HC"]; ["1"]];
    S1 "AK9" [["A"]; ["1"]; ["1"]; ["1"]];
    S1 "SE" [["4"]; ["0001"]];
    S1 "GE" [["1"]; ["17"]];
    S1 "IEA" [["1"]; ["000000017"]] ].

Notation text d conv body := (encode d conv (isa_for d ex_fields :: body)) (only parsing).
Notation run t := (run_document_gen shipped_load shipped_idx t) (only parsing).

Lemma neq_by {A B} (f : A -> B) (x y : A) : f x <> f y -> x <> y.
Proof. intros H E. apply H. rewrite E. reflexivity. Qed.

(* small views of a trace, to tell two traces apart *)
Definition first_delims (tr : list dev) : option delims := match tr with DAddIsa x _ :: _ => Some (xg_d x) | _ => None end.
Definition first_isa16 (tr : list dev) : option composite :=
  match tr with DAddIsa x _ :: _ => nth_error (els (xg_s x)) 15 | _ => None end.
Definition ele_values (tr : list dev) : list (option str) :=
  flat_map (fun e => match e with DEleErr _ _ v _ => [v] | _ => [] end) tr.

Definition is_error (e : dev) : bool :=
  match e with DIsaErr _ _ | DGsErr _ _ | DStErr _ _ | DSegErr _ _ _ _ | DEleErr _ _ _ _ => true | _ => false end.

(* ------------------------------------------------------------------ *)
(* the hypotheses                                                       *)

Lemma isa_valid_same_ab : isa_valid_same shipped_load da db ex_fields.
Proof.
  intros cm r sn Hl Hg Hn. vm_compute in Hl. injection Hl as <-. vm_compute in Hg. injection Hg as <-.
  vm_compute in Hn. injection Hn as <-. vm_compute. reflexivity.
Qed.

Example nv_reader_hyps :
  distinct_delims da = true /\ distinct_delims db = true /\ delims_not_break da = true /\ delims_not_break db = true /\
  is_break [] = true /\ is_break crlf = true /\ isa_fields_ok ex_fields = true /\
  clean_seg da (isa_for da ex_fields) = true /\ clean_seg db (isa_for db ex_fields) = true /\
  body_ok da ex_body = true /\ body_ok db ex_body = true /\ forallb id_starts_plain ex_body = true /\ forallb ctl_simple ex_body = true /\
  body_ok da body_997 = true /\ body_ok db body_997 = true /\ forallb id_starts_plain body_997 = true /\ forallb ctl_simple body_997 = true.
Proof. vm_compute. repeat split. Qed.

(* the 837 of Proofs/C12_reader.v: CLM05 = 11::1 is a genuine composite, so body_plain is false, and the layer
   hypotheses hold along the run *)
Example nv_layers_837 : body_plain ex_body = false /\ doc_layers_ok shipped_load shipped_idx (text da [] ex_body) = true.
Proof. vm_compute. split; reflexivity. Qed.

Example nv_layers_997 : body_plain body_997 = true /\ doc_layers_ok shipped_load shipped_idx (text da [] body_997) = true.
Proof. vm_compute. split; reflexivity. Qed.

(* ------------------------------------------------------------------ *)
(* the theorem, instantiated                                            *)

Theorem nv_837_independent :
  snd (run (text da [] ex_body)) = snd (run (text db crlf ex_body)) /\
  map strip_dev (fst (run (text da [] ex_body))) = map strip_dev (fst (run (text db crlf ex_body))).
Proof.
  destruct nv_reader_hyps as (A1 & A2 & A3 & A4 & A5 & A6 & A7 & A8 & A9 & A10 & A11 & A12 & A13 & _).
  exact (driver_delims_layout_independent shipped_load shipped_idx da db [] crlf ex_fields ex_body
           A1 A2 A3 A4 A5 A6 A7 A8 A9 A10 A11 A12 A13 isa_valid_same_ab (proj2 nv_layers_837)).
Qed.

Theorem nv_997_independent :
  snd (run (text da [] body_997)) = snd (run (text db crlf body_997)) /\
  map strip_dev (fst (run (text da [] body_997))) = map strip_dev (fst (run (text db crlf body_997))).
Proof.
  destruct nv_reader_hyps as (A1 & A2 & A3 & A4 & A5 & A6 & A7 & A8 & A9 & _ & _ & _ & _ & A10 & A11 & A12 & A13).
  exact (driver_delims_layout_independent_plain shipped_load shipped_idx da db [] crlf ex_fields body_997
           A1 A2 A3 A4 A5 A6 A7 A8 A9 A10 A11 A12 A13 isa_valid_same_ab (proj1 nv_layers_997)).
Qed.

(* what the runs look like: the 837 is rejected with 8 errors reported among 55 handler calls, the 997 accepted; the
   traces themselves differ (they carry the delimiters), the stripped ones do not *)
Example nv_runs :
  (snd (run (text da [] ex_body)), snd (run (text db crlf ex_body)),
   length (fst (run (text db crlf ex_body))), length (filter is_error (fst (run (text db crlf ex_body)))),
   first_delims (fst (run (text da [] ex_body))), first_delims (fst (run (text db crlf ex_body))),
   snd (run (text da [] body_997)), snd (run (text db crlf body_997)))
  = (Ok false, Ok false, 55, 8, Some da, Some db, Ok true, Ok true).
Proof. vm_compute. reflexivity. Qed.

Example nv_traces_differ : fst (run (text da [] ex_body)) <> fst (run (text db crlf ex_body)).
Proof. apply (neq_by first_delims). vm_compute. discriminate. Qed.

Print Assumptions nv_837_independent.
Print Assumptions nv_997_independent.
