(* C01_roundtrip.v — formatting a segment and parsing it back gives the
   segment up to the documented trimming of trailing empty elements and
   components; a second round trip changes nothing; a formatted document
   tokenises back into its segments. *)
From Coq Require Import String.
From PX.Lib Require Import Base PyStr.
From PX.Model Require Import Path Segment.
From PX.Spec Require Import C01_spec.

(* canonical form: ALL trailing empty components / elements removed *)
Fixpoint drop_trailing {A} (emp : A -> bool) (xs : list A) : list A :=
  match xs with
  | [] => []
  | x :: r => match drop_trailing emp r with
              | [] => if emp x then [] else [x]
              | r' => x :: r'
              end
  end.

Definition canon (s : seg) : seg :=
  {| sid := sid s; els := drop_trailing comp_empty (map (drop_trailing ele_empty) (els s)) |}.

(* ------------------------------------------------------------------ *)
(* split / join                                                        *)
(* ------------------------------------------------------------------ *)

Lemma split_aux_free c x cur : ~ In c x -> split_aux c x cur = [rev cur ++ x].
Proof.
  revert cur; induction x as [|a x IH]; intros cur H; cbn [split_aux].
  - now rewrite app_nil_r.
  - destruct (Ascii.eqb a c) eqn:Eq.
    + apply Ascii.eqb_eq in Eq. subst. exfalso; apply H; now left.
    + rewrite IH.
      * cbn [rev]. now rewrite <- app_assoc.
      * intros HH; apply H; now right.
Qed.

Lemma split_aux_app c x rest cur : ~ In c x ->
  split_aux c (x ++ c :: rest) cur = (rev cur ++ x) :: split_aux c rest [].
Proof.
  revert cur; induction x as [|a x IH]; intros cur H; cbn [split_aux app].
  - rewrite Ascii.eqb_refl. now rewrite app_nil_r.
  - destruct (Ascii.eqb a c) eqn:Eq.
    + apply Ascii.eqb_eq in Eq. subst. exfalso; apply H; now left.
    + rewrite IH.
      * cbn [rev]. now rewrite <- app_assoc.
      * intros HH; apply H; now right.
Qed.

Lemma split_free c x : ~ In c x -> split c x = [x].
Proof. intros H. unfold split. now rewrite split_aux_free. Qed.

Lemma split_app c x rest : ~ In c x -> split c (x ++ c :: rest) = x :: split c rest.
Proof. intros H. unfold split. now rewrite split_aux_app. Qed.

Lemma split_join c l :
  l <> [] -> (forall x, In x l -> ~ In c x) -> split c (join c l) = l.
Proof.
  induction l as [|x l IH]; intros Hne H; [congruence|].
  destruct l as [|y l].
  - cbn [join]. apply split_free. apply H. now left.
  - change (join c (x :: y :: l)) with (x ++ c :: join c (y :: l)).
    rewrite split_app by (apply H; now left).
    f_equal. apply IH; [discriminate|]. intros z Hz. apply H. now right.
Qed.

Lemma split_aux_In c s cur e :
  ~ In c cur -> In e (split_aux c s cur) -> ~ In c e.
Proof.
  revert cur; induction s as [|x s IH]; intros cur Hc; cbn [split_aux].
  - intros [<-|[]]. intros HH. apply in_rev in HH. auto.
  - destruct (Ascii.eqb x c) eqn:Eq.
    + intros [<-|HI].
      * intros HH. apply in_rev in HH. auto.
      * apply (IH []); auto.
    + apply IH. intros [->|HH]; auto. rewrite Ascii.eqb_refl in Eq. discriminate.
Qed.

Lemma split_In c s e : In e (split c s) -> ~ In c e.
Proof. apply split_aux_In. intros []. Qed.

Lemma join_In z c l :
  In z (join c l) -> z = c \/ exists x, In x l /\ In z x.
Proof.
  induction l as [|x l IH]; [intros []|].
  destruct l as [|y l].
  - cbn [join]. intros H. right. exists x. split; auto. now left.
  - change (join c (x :: y :: l)) with (x ++ c :: join c (y :: l)).
    intros H. apply in_app_or in H as [H|[H|H]].
    + right. exists x. split; auto. now left.
    + now left.
    + destruct (IH H) as [E|(w & Hw & Hz)]; [now left|].
      right. exists w. split; auto. now right.
Qed.

(* ------------------------------------------------------------------ *)
(* the kept prefix                                                     *)
(* ------------------------------------------------------------------ *)

Definition keep {A} (emp : A -> bool) (xs : list A) : list A :=
  firstn (S (last_nonempty_idx emp xs)) xs.

Lemma keep_cons {A} (emp : A -> bool) x xs :
  keep emp (x :: xs) = if forallb emp xs then [x] else x :: keep emp xs.
Proof.
  unfold keep. cbn [last_nonempty_idx]. destruct (forallb emp xs); reflexivity.
Qed.

Lemma keep_nil {A} (emp : A -> bool) : keep emp [] = [].
Proof. reflexivity. Qed.

Lemma keep_split {A} (emp : A -> bool) xs :
  exists tl, xs = keep emp xs ++ tl /\ forallb emp tl = true.
Proof.
  induction xs as [|x xs (tl & H1 & H2)].
  - exists []. split; reflexivity.
  - rewrite keep_cons. destruct (forallb emp xs) eqn:E.
    + exists xs. split; auto.
    + exists tl. split; auto. cbn [app]. now rewrite <- H1.
Qed.

Lemma keep_In {A} (emp : A -> bool) xs x : In x (keep emp xs) -> In x xs.
Proof.
  intros H. destruct (keep_split emp xs) as (tl & H1 & _). rewrite H1.
  apply in_or_app. now left.
Qed.

Lemma keep_nonnil {A} (emp : A -> bool) xs : xs <> [] -> keep emp xs <> [].
Proof. destruct xs; [congruence|]. intros _. unfold keep. cbn [firstn]. discriminate. Qed.

Lemma forallb_keep {A} (emp : A -> bool) xs :
  forallb emp (keep emp xs) = forallb emp xs.
Proof.
  destruct (keep_split emp xs) as (tl & H1 & H2).
  rewrite H1 at 2. rewrite forallb_app, H2. now rewrite andb_true_r.
Qed.

Lemma keep_idem {A} (emp : A -> bool) xs : keep emp (keep emp xs) = keep emp xs.
Proof.
  induction xs as [|x xs IH]; [reflexivity|].
  rewrite keep_cons. destruct (forallb emp xs) eqn:E.
  - reflexivity.
  - rewrite keep_cons, forallb_keep, E, IH. reflexivity.
Qed.

Lemma forallb_ext' {A} (p q : A -> bool) xs :
  (forall x, p x = q x) -> forallb p xs = forallb q xs.
Proof. intros H. induction xs as [|x xs IH]; cbn; [reflexivity|]. now rewrite H, IH. Qed.

Lemma forallb_map' {A B} (f : A -> B) (p : B -> bool) xs :
  forallb p (map f xs) = forallb (fun x => p (f x)) xs.
Proof. induction xs; cbn; congruence. Qed.

Lemma keep_map {A B} (f : A -> B) (emp : A -> bool) (emp' : B -> bool) xs :
  (forall x, emp' (f x) = emp x) ->
  keep emp' (map f xs) = map f (keep emp xs).
Proof.
  intros H. induction xs as [|x xs IH]; [reflexivity|].
  cbn [map]. rewrite !keep_cons, forallb_map'.
  rewrite (forallb_ext' _ _ xs H).
  destruct (forallb emp xs); [reflexivity|]. cbn [map]. now rewrite IH.
Qed.

(* ------------------------------------------------------------------ *)
(* drop_trailing                                                       *)
(* ------------------------------------------------------------------ *)

Lemma dt_all {A} (emp : A -> bool) xs :
  forallb emp xs = true -> drop_trailing emp xs = [].
Proof.
  induction xs as [|x xs IH]; [reflexivity|].
  cbn [forallb drop_trailing]. intros H. apply andb_true_iff in H as [H1 H2].
  now rewrite IH, H1.
Qed.

Lemma dt_app_all {A} (emp : A -> bool) xs tl :
  forallb emp tl = true -> drop_trailing emp (xs ++ tl) = drop_trailing emp xs.
Proof.
  intros H. induction xs as [|x xs IH].
  - cbn [app]. now rewrite dt_all.
  - cbn [app drop_trailing]. now rewrite IH.
Qed.

Lemma dt_keep {A} (emp : A -> bool) xs :
  drop_trailing emp (keep emp xs) = drop_trailing emp xs.
Proof.
  destruct (keep_split emp xs) as (tl & H1 & H2).
  rewrite H1 at 2. now rewrite dt_app_all.
Qed.

Lemma dt_split {A} (emp : A -> bool) xs :
  exists tl, xs = drop_trailing emp xs ++ tl /\ forallb emp tl = true.
Proof.
  induction xs as [|x xs (tl & H1 & H2)].
  - exists []. split; reflexivity.
  - cbn [drop_trailing]. destruct (drop_trailing emp xs) as [|a r] eqn:D.
    + cbn [app] in H1. subst tl. destruct (emp x) eqn:Ex.
      * exists (x :: xs). split; [reflexivity|]. cbn [forallb]. now rewrite Ex, H2.
      * exists xs. split; auto.
    + exists tl. split; auto. cbn [app]. cbn [app] in H1. now rewrite <- H1.
Qed.

Lemma forallb_dt {A} (emp : A -> bool) xs :
  forallb emp (drop_trailing emp xs) = forallb emp xs.
Proof.
  destruct (dt_split emp xs) as (tl & H1 & H2).
  rewrite H1 at 2. rewrite forallb_app, H2. now rewrite andb_true_r.
Qed.

Lemma dt_len_eq {A} (emp : A -> bool) xs :
  length (drop_trailing emp xs) = length xs -> drop_trailing emp xs = xs.
Proof.
  intros H. destruct (dt_split emp xs) as (tl & H1 & H2).
  pose proof (f_equal (@length A) H1) as HL. rewrite app_length in HL.
  destruct tl as [|t tl].
  - rewrite app_nil_r in H1. auto.
  - cbn [length] in HL. lia.
Qed.

Lemma dt_fix_keep {A} (emp : A -> bool) xs :
  drop_trailing emp xs = xs -> keep emp xs = xs.
Proof.
  induction xs as [|x xs IH]; [reflexivity|].
  rewrite keep_cons. cbn [drop_trailing].
  destruct (drop_trailing emp xs) as [|a r] eqn:D.
  - destruct (emp x); [discriminate|]. intros H. injection H as <-. reflexivity.
  - intros H. injection H as H. rewrite H in D.
    destruct (forallb emp xs) eqn:E.
    + rewrite (dt_all emp xs E) in D. rewrite <- D in H. discriminate.
    + now rewrite (IH H).
Qed.

Lemma dt_map_keep {A B} (f : A -> B) (emp : A -> bool) (emp' : B -> bool) xs :
  (forall x, emp' (f x) = emp x) ->
  drop_trailing emp' (map f (keep emp xs)) = drop_trailing emp' (map f xs).
Proof.
  intros H. destruct (keep_split emp xs) as (tl & H1 & H2).
  rewrite H1 at 2. rewrite map_app. rewrite dt_app_all; [reflexivity|].
  rewrite forallb_map'. now rewrite (forallb_ext' _ _ tl H).
Qed.

Lemma map_id_in {A} (f : A -> A) xs : map f xs = xs -> forall x, In x xs -> f x = x.
Proof.
  induction xs as [|a xs IH]; [intros _ x []|].
  cbn [map]. intros H. injection H as H1 H2. intros x [<-|Hx]; auto.
Qed.

(* ------------------------------------------------------------------ *)
(* clean segments, as propositions                                     *)
(* ------------------------------------------------------------------ *)

Definition freeP (d : delims) (v : str) : Prop :=
  ~ In (seg_term d) v /\ ~ In (ele_term d) v /\ ~ In (subele_term d) v.

Lemma negb_mem_iff c v : negb (mem_ascii c v) = true <-> ~ In c v.
Proof.
  rewrite negb_true_iff. rewrite <- mem_ascii_In.
  destruct (mem_ascii c v); split; intros; congruence.
Qed.

Lemma free_of_iff d v : free_of d v = true <-> freeP d v.
Proof.
  unfold free_of, freeP. rewrite !andb_true_iff, !negb_mem_iff. tauto.
Qed.

Lemma freeP_T d v : freeP d v -> ~ In (seg_term d) v.
Proof. unfold freeP; tauto. Qed.
Lemma freeP_E d v : freeP d v -> ~ In (ele_term d) v.
Proof. unfold freeP; tauto. Qed.
Lemma freeP_S d v : freeP d v -> ~ In (subele_term d) v.
Proof. unfold freeP; tauto. Qed.

Definition freeTE (d : delims) (v : str) : Prop :=
  ~ In (seg_term d) v /\ ~ In (ele_term d) v.

Lemma free_of_TE_iff d v : free_of_TE d v = true <-> freeTE d v.
Proof.
  unfold free_of_TE, freeTE. rewrite !andb_true_iff, !negb_mem_iff. tauto.
Qed.

Lemma freeP_TE d v : freeP d v -> freeTE d v.
Proof. unfold freeP, freeTE; tauto. Qed.

(* every value avoids the terminator and the element separator; the ISA has
   singleton elements (never split at the component separator), every other
   segment has non-empty composites whose values avoid the component separator *)
Definition cleanP (d : delims) (s : seg) : Prop :=
  exists id, sid s = Some id /\ id <> [] /\ freeP d id /\
    (forall c, In c (els s) -> forall v, In v c -> freeTE d v) /\
    (id = cs "ISA" -> forall c, In c (els s) -> exists v, c = [v]) /\
    (id <> cs "ISA" -> forall c, In c (els s) ->
       c <> [] /\ forall v, In v c -> ~ In (subele_term d) v).

Lemma len1 {A} (c : list A) : (length c =? 1) = true <-> exists v, c = [v].
Proof.
  split.
  - intros H. apply Nat.eqb_eq in H. destruct c as [|v [|w c]]; try discriminate. now exists v.
  - intros (v & ->). reflexivity.
Qed.

Lemma clean_iff d s : clean_seg d s = true <-> cleanP d s.
Proof.
  unfold clean_seg, cleanP. destruct (sid s) as [id|].
  2:{ split; [discriminate|]. intros (id & H & _). discriminate. }
  split.
  - intros H. rewrite !andb_true_iff in H. destruct H as [[H1 H2] H3].
    exists id. split; [reflexivity|].
    split; [destruct id; [discriminate|discriminate]|].
    split; [now apply free_of_iff|].
    destruct (str_eqb id (cs "ISA")) eqn:E; rewrite forallb_forall in H3.
    + apply str_eqb_eq in E. split; [|split].
      * intros c Hc v Hv. specialize (H3 c Hc). apply andb_true_iff in H3 as [_ H5].
        rewrite forallb_forall in H5. apply free_of_TE_iff. auto.
      * intros _ c Hc. apply len1. specialize (H3 c Hc).
        apply andb_true_iff in H3 as [H3 _]. exact H3.
      * intros N. congruence.
    + assert (N : id <> cs "ISA").
      { intros ->. rewrite str_eqb_refl in E. discriminate. }
      split; [|split].
      * intros c Hc v Hv. specialize (H3 c Hc). apply andb_true_iff in H3 as [_ H5].
        rewrite forallb_forall in H5. apply freeP_TE, free_of_iff. auto.
      * intros E'. congruence.
      * intros _ c Hc. specialize (H3 c Hc). apply andb_true_iff in H3 as [H3 H5].
        split; [destruct c; [discriminate|discriminate]|].
        intros v Hv. rewrite forallb_forall in H5. apply freeP_S, free_of_iff. auto.
  - intros (id' & Hid & Hne & Hf & Hte & Hisa & Hnon). injection Hid as <-.
    rewrite !andb_true_iff. repeat split.
    + destruct id; [congruence|reflexivity].
    + now apply free_of_iff.
    + destruct (str_eqb id (cs "ISA")) eqn:E; apply forallb_forall; intros c Hin;
        apply andb_true_iff.
      * apply str_eqb_eq in E. split; [apply len1; eauto|].
        apply forallb_forall. intros v Hv. apply free_of_TE_iff. eauto.
      * assert (N : id <> cs "ISA").
        { intros ->. rewrite str_eqb_refl in E. discriminate. }
        destruct (Hnon N c Hin) as [Hn Hs]. split.
        -- destruct c; [congruence|reflexivity].
        -- apply forallb_forall. intros v Hv. apply free_of_iff.
           destruct (Hte c Hin v Hv) as [HT HE]. unfold freeP. auto.
Qed.

Lemma distinct_iff d : distinct_delims d = true <->
  seg_term d <> ele_term d /\ seg_term d <> subele_term d /\ ele_term d <> subele_term d.
Proof.
  unfold distinct_delims. rewrite !andb_true_iff, !negb_true_iff, !Ascii.eqb_neq. tauto.
Qed.

(* ------------------------------------------------------------------ *)
(* the text of one segment                                             *)
(* ------------------------------------------------------------------ *)

Definition seg_body (d : delims) (s : seg) : str :=
  show_sid (sid s) ++ ele_term d ::
    join (ele_term d) (map (format_comp (subele_term d)) (keep comp_empty (els s))).

Lemma format_seg_body d s : format_seg d s = seg_body d s ++ [seg_term d].
Proof.
  unfold format_seg, seg_body, keep. rewrite <- app_assoc. reflexivity.
Qed.

Lemma format_comp_In d c z :
  In z (format_comp (subele_term d) c) ->
  z = subele_term d \/ exists v, In v c /\ In z v.
Proof.
  unfold format_comp. intros H. apply join_In in H as [H|(v & Hv & Hz)]; [now left|].
  right. exists v. split; auto. eapply keep_In. exact Hv.
Qed.

Lemma format_comp_free d c z :
  z <> subele_term d -> (forall v, In v c -> ~ In z v) ->
  ~ In z (format_comp (subele_term d) c).
Proof.
  intros H1 H2 H. apply format_comp_In in H as [H|(v & Hv & Hz)]; [auto|].
  exact (H2 v Hv Hz).
Qed.

Lemma seg_body_free d s :
  distinct_delims d = true -> cleanP d s -> ~ In (seg_term d) (seg_body d s).
Proof.
  intros Hd (id & Hid & Hne & Hf & Hte & Hisa & Hnon). apply distinct_iff in Hd as (D1 & D2 & D3).
  unfold seg_body. rewrite Hid. cbn [show_sid]. intros H.
  apply in_app_or in H as [H|[H|H]].
  - exact (freeP_T _ _ Hf H).
  - auto.
  - apply join_In in H as [H|(x & Hx & Hz)]; [auto|].
    apply in_map_iff in Hx as (c & <- & Hin). apply keep_In in Hin.
    revert Hz. apply format_comp_free; auto.
    intros v Hv. apply (Hte c Hin v Hv).
Qed.

(* ------------------------------------------------------------------ *)
(* parsing a terminated text                                           *)
(* ------------------------------------------------------------------ *)

Definition parse_body (d : delims) (body : str) : seg :=
  match split (ele_term d) body with
  | [] => {| sid := None; els := [] |}
  | id :: rest =>
      {| sid := Some id;
         els := map (fun e => if str_eqb id (cs "ISA") then split (ele_term d) e
                              else split (subele_term d) e) rest |}
  end.

Lemma parse_seg_term d body : parse_seg d (body ++ [seg_term d]) = parse_body d body.
Proof.
  unfold parse_seg, parse_body.
  destruct (body ++ [seg_term d]) as [|a r] eqn:H.
  - exfalso. destruct body; discriminate.
  - rewrite <- H. rewrite rev_app_distr. cbn [rev app].
    rewrite Ascii.eqb_refl, rev_involutive. reflexivity.
Qed.

(* what comes back from one round trip *)
Definition rt_els (xs : list composite) : list composite :=
  match xs with
  | [] => [[[]]]
  | _ => map trim_comp (keep comp_empty xs)
  end.

Lemma trim_comp_keep c : trim_comp c = keep ele_empty c.
Proof. reflexivity. Qed.

Lemma parse_format d s :
  distinct_delims d = true -> cleanP d s ->
  parse_seg d (format_seg d s) = {| sid := sid s; els := rt_els (els s) |}.
Proof.
  intros Hd (id & Hid & Hne & Hf & Hte & Hisa & Hnon).
  apply distinct_iff in Hd as (D1 & D2 & D3).
  rewrite format_seg_body, parse_seg_term.
  unfold parse_body, seg_body. rewrite Hid. cbn [show_sid].
  rewrite split_app by (apply freeP_E, Hf).
  f_equal.
  destruct (els s) as [|c0 xs] eqn:Hels.
  - cbn. destruct (str_eqb _ _); reflexivity.
  - assert (Hk : keep comp_empty (c0 :: xs) <> []) by (apply keep_nonnil; discriminate).
    rewrite <- Hels in *. clear Hels c0 xs.
    rewrite split_join.
    + assert (Hr : rt_els (els s) = map trim_comp (keep comp_empty (els s))).
      { unfold rt_els. destruct (els s); [exfalso; apply Hk; reflexivity|reflexivity]. }
      rewrite Hr, map_map. apply map_ext_in. intros c Hin. apply keep_In in Hin.
      destruct (str_eqb id (cs "ISA")) eqn:E.
      * apply str_eqb_eq in E. destruct (Hisa E c Hin) as (v & ->).
        change (format_comp (subele_term d) [v]) with v.
        change (trim_comp [v]) with [v].
        apply split_free. apply (Hte [v] Hin v). now left.
      * assert (N : id <> cs "ISA").
        { intros ->. rewrite str_eqb_refl in E. discriminate. }
        destruct (Hnon N c Hin) as [Hcn Hcv].
        change (format_comp (subele_term d) c) with (join (subele_term d) (keep ele_empty c)).
        change (trim_comp c) with (keep ele_empty c).
        apply split_join; [now apply keep_nonnil|].
        intros v Hv. apply keep_In in Hv. apply (Hcv v Hv).
    + intros H. apply map_eq_nil in H. auto.
    + intros x Hx. apply in_map_iff in Hx as (c & <- & Hin). apply keep_In in Hin.
      apply format_comp_free; auto. intros v Hv. apply (Hte c Hin v Hv).
Qed.

Lemma comp_empty_trim c : comp_empty (trim_comp c) = comp_empty c.
Proof. apply (forallb_keep ele_empty). Qed.

Lemma comp_empty_dt c : comp_empty (drop_trailing ele_empty c) = comp_empty c.
Proof. apply (forallb_dt ele_empty). Qed.

Lemma dt_trim c : drop_trailing ele_empty (trim_comp c) = drop_trailing ele_empty c.
Proof. apply (dt_keep ele_empty). Qed.

(* GOAL F1: one round trip preserves the segment up to trailing empties *)
Theorem parse_format_canon d s :
  distinct_delims d = true -> clean_seg d s = true ->
  canon (parse_seg d (format_seg d s)) = canon s.
Proof.
  intros Hd Hc. apply clean_iff in Hc. rewrite (parse_format d s Hd Hc).
  unfold canon. cbn [sid els]. f_equal.
  destruct (els s) as [|c0 xs] eqn:Hels; [reflexivity|].
  unfold rt_els. rewrite map_map.
  rewrite (map_ext _ _ dt_trim).
  apply dt_map_keep. apply comp_empty_dt.
Qed.

Lemma rt_els_nonnil xs : rt_els xs <> [].
Proof.
  destruct xs as [|c xs]; [discriminate|]. unfold rt_els.
  intros H. apply map_eq_nil in H. revert H. apply keep_nonnil. discriminate.
Qed.

Lemma rt_els_idem xs : rt_els (rt_els xs) = rt_els xs.
Proof.
  destruct xs as [|c xs]; [reflexivity|].
  assert (H : rt_els (c :: xs) = map trim_comp (keep comp_empty (c :: xs))) by reflexivity.
  set (ys := c :: xs) in *. clearbody ys.
  pose proof (rt_els_nonnil ys) as Hn.
  destruct (rt_els ys) as [|c' ys'] eqn:E; [congruence|].
  rewrite <- E in *. clear E c' ys'.
  assert (H2 : rt_els (rt_els ys) = map trim_comp (keep comp_empty (rt_els ys))).
  { destruct (rt_els ys); [congruence|reflexivity]. }
  rewrite H2, H.
  rewrite (keep_map trim_comp comp_empty comp_empty _ comp_empty_trim).
  rewrite keep_idem, map_map. apply map_ext. intros a. apply (keep_idem ele_empty).
Qed.

Lemma rt_els_In xs c' :
  In c' (rt_els xs) -> c' = [[]] \/ exists c, In c xs /\ c' = trim_comp c.
Proof.
  destruct xs as [|c0 xs].
  - intros [<-|[]]. now left.
  - unfold rt_els. intros H. apply in_map_iff in H as (c & <- & Hin).
    apply keep_In in Hin. right. now exists c.
Qed.

Lemma freeP_nil d : freeP d [].
Proof. unfold freeP. cbn. tauto. Qed.

Lemma freeTE_nil d : freeTE d [].
Proof. unfold freeTE. cbn. tauto. Qed.

Lemma rt_clean d s : cleanP d s -> cleanP d {| sid := sid s; els := rt_els (els s) |}.
Proof.
  intros (id & Hid & Hne & Hf & Hte & Hisa & Hnon).
  exists id. cbn [sid els].
  split; [exact Hid|]. split; [exact Hne|]. split; [exact Hf|]. split; [|split].
  - intros c' Hin. apply rt_els_In in Hin as [->|(c & Hin & ->)].
    + intros v [<-|[]]. apply freeTE_nil.
    + intros v Hv'. apply keep_In in Hv'. exact (Hte c Hin v Hv').
  - intros E c' Hin. apply rt_els_In in Hin as [->|(c & Hin & ->)].
    + now exists [].
    + destruct (Hisa E c Hin) as (v & ->). now exists v.
  - intros N c' Hin. apply rt_els_In in Hin as [->|(c & Hin & ->)].
    + split; [discriminate|]. intros v [<-|[]]. intros [].
    + destruct (Hnon N c Hin) as [Hn Hv]. split.
      * now apply keep_nonnil.
      * intros v Hv'. apply keep_In in Hv'. auto.
Qed.

(* GOAL F2: after one round trip the segment is a fixed point *)
Theorem parse_format_fix d s :
  distinct_delims d = true -> clean_seg d s = true ->
  let s' := parse_seg d (format_seg d s) in
  clean_seg d s' = true /\ parse_seg d (format_seg d s') = s'.
Proof.
  intros Hd Hc s'. apply clean_iff in Hc. subst s'.
  rewrite (parse_format d s Hd Hc).
  pose proof (rt_clean d s Hc) as Hc'.
  split; [now apply clean_iff|].
  rewrite (parse_format d _ Hd Hc'). cbn [sid els]. now rewrite rt_els_idem.
Qed.

(* GOAL F3: every value is returned character for character: a clean segment
   without trailing empties is read back exactly *)
Theorem parse_format_exact d s :
  distinct_delims d = true -> clean_seg d s = true -> canon s = s -> els s <> [] ->
  parse_seg d (format_seg d s) = s.
Proof.
  intros Hd Hc Hcan Hne. apply clean_iff in Hc. rewrite (parse_format d s Hd Hc).
  destruct s as [i xs]. cbn [sid els] in *. f_equal.
  unfold canon in Hcan. cbn [sid els] in Hcan. injection Hcan as Hcan.
  assert (Hlen : length (drop_trailing comp_empty (map (drop_trailing ele_empty) xs))
                 = length (map (drop_trailing ele_empty) xs)).
  { rewrite Hcan at 1. now rewrite map_length. }
  apply dt_len_eq in Hlen. rewrite Hlen in Hcan.
  rewrite Hcan in Hlen.
  pose proof (map_id_in _ _ Hcan) as Hid.
  apply dt_fix_keep in Hlen.
  destruct xs as [|c xs]; [congruence|].
  unfold rt_els. rewrite Hlen.
  rewrite <- (map_id (c :: xs)) at 2. apply map_ext_in.
  intros a Ha. apply (dt_fix_keep ele_empty). auto.
Qed.

(* ------------------------------------------------------------------ *)
(* tokenising a formatted document                                     *)
(* ------------------------------------------------------------------ *)

Lemma pieces_aux_app T x rest cur : ~ In T x ->
  pieces_aux T (x ++ T :: rest) cur = (rev cur ++ x) :: pieces_aux T rest [].
Proof.
  revert cur; induction x as [|a x IH]; intros cur H; cbn [pieces_aux app].
  - rewrite Ascii.eqb_refl. now rewrite app_nil_r.
  - destruct (Ascii.eqb a T) eqn:Eq.
    + apply Ascii.eqb_eq in Eq. subst. exfalso; apply H; now left.
    + rewrite IH.
      * cbn [rev]. now rewrite <- app_assoc.
      * intros HH; apply H; now right.
Qed.

Lemma terminated_pieces_app T x rest : ~ In T x ->
  terminated_pieces T (x ++ T :: rest) = x :: terminated_pieces T rest.
Proof. intros H. unfold terminated_pieces. now rewrite pieces_aux_app. Qed.

(* GOAL F4: a formatted document tokenises back into its formatted segments *)
Definition id_starts_plain (s : seg) : bool :=
  match sid s with
  | Some (c :: _) => negb (mem_ascii c CRLF) && negb (Ascii.eqb c " "%char)
  | _ => false
  end.

Lemma seg_of_line_parse d body :
  body <> [] -> strip_blank body = body ->
  seg_of_line d body = parse_body d body.
Proof.
  intros Hne Hs. unfold seg_of_line, parse_body. rewrite Hs.
  destruct body as [|a body]; [congruence|].
  pose proof (split_In (ele_term d) (a :: body)) as HI.
  destruct (split (ele_term d) (a :: body)) as [|id rest]; [reflexivity|].
  f_equal. apply map_ext_in. intros e He.
  destruct (str_eqb id (cs "ISA")); [|reflexivity].
  symmetry. apply split_free. apply HI. now right.
Qed.

Theorem reread d segs :
  distinct_delims d = true ->
  forallb (clean_seg d) segs = true -> forallb id_starts_plain segs = true ->
  map (seg_of_line d) (raw_spec (seg_term d) (concat (map (format_seg d) segs)))
  = map (fun s => parse_seg d (format_seg d s)) segs.
Proof.
  intros Hd. induction segs as [|s segs IH]; intros Hc Hp.
  - reflexivity.
  - cbn [forallb] in Hc, Hp. apply andb_true_iff in Hc as [Hc1 Hc2].
    apply andb_true_iff in Hp as [Hp1 Hp2].
    cbn [map concat]. rewrite <- (IH Hc2 Hp2).
    rewrite (format_seg_body d s) at 1. rewrite <- app_assoc. cbn [app].
    apply clean_iff in Hc1.
    unfold raw_spec. rewrite terminated_pieces_app by (apply seg_body_free; auto).
    cbn [map filter].
    rewrite format_seg_body, parse_seg_term.
    (* the body starts with the first character of the id *)
    unfold id_starts_plain in Hp1.
    assert (Hb : exists a r, seg_body d s = a :: r /\ mem_ascii a CRLF = false /\ Ascii.eqb a " "%char = false).
    { unfold seg_body. destruct (sid s) as [[|a r]|]; try discriminate.
      apply andb_true_iff in Hp1 as [H1 H2]. apply negb_true_iff in H1, H2.
      cbn [show_sid app]. eauto. }
    destruct Hb as (a & r & Hb & H1 & H2).
    assert (Hl : lstrip_set CRLF (seg_body d s) = seg_body d s).
    { rewrite Hb. cbn [lstrip_set]. now rewrite H1. }
    rewrite Hl.
    assert (Hn : nonempty (seg_body d s) = true) by (rewrite Hb; reflexivity).
    rewrite Hn. cbn [map]. f_equal.
    apply seg_of_line_parse.
    + rewrite Hb. discriminate.
    + rewrite Hb. unfold strip_blank. now rewrite H2.
Qed.

(* non-vacuity: a real ISA segment (whose last element IS the component
   separator) is clean and round-trips exactly *)
Example isa_is_clean :
  let d := {| seg_term := "~"%char; ele_term := "*"%char; subele_term := ":"%char |} in
  let s := parse_seg d (list_ascii_of_string "ISA*00*          *00*          *ZZ*ZZ000          *ZZ*ZZ001          *030828*1128*U*00401*000010121*0*T*:~") in
  distinct_delims d = true /\ clean_seg d s = true /\ parse_seg d (format_seg d s) = s.
Proof. vm_compute. repeat split; reflexivity. Qed.

Print Assumptions parse_format_canon.
Print Assumptions parse_format_fix.
Print Assumptions parse_format_exact.
Print Assumptions reread.
