(* C03_doc_inv.v — the induction of Proofs/C02_doc.v redone so that it survives structural faults:
     - the invariant between two items of an instance (InvB there, InvR here) only asks of the children of
       the loop that were passed what the walker will ever look at again: those at or after the current
       position, and — in a loop that starts with a loop — the child loops (invb_invr: InvB implies InvR);
     - a step may pass ONE child that is missing (a required segment / seg-first loop not seen: it leaves an
       entry in mandatory_segs_missing, reported when the item is found: exc, exc_ok, gap_exc) and may exceed
       max_use / repeat (reported by the usage check): step_seg_x, step_loop_x;
     - an instance may consist of its first segment only and be followed at once by the next instance of its
       loop (_note_missing_children reports what it lacks): step_restart_cut, cut_entries_evs;
     - runs carry, for every item, what the walker reports at that item (erun).
   fault_run: every instance described by finst / fbody (Spec/C03_doc_spec.v) is located with exactly the
   annotated reports.  Side condition besides walker_wf and keys_ok: first_pos_least (the first child of a
   loop has the least position; used once: when a loop starts again from inside, every child of it lies at or
   after the position searched from, so `closed` covers all its children). *)
From Coq Require Import String Lia.
From PX.Lib Require Import Base PyStr PyInt Regex Xml.
From PX.Model Require Import Path Segment Syntax MapLoad MapTree Element Counter Walker.
From PX.Spec Require Import C07_walker_wf C02_doc_spec C03_doc_spec.
From PX.Proofs Require Import Counter_keys C07_walker_lemmas C07_walker C02_doc_counter C02_doc_walk C02_doc C03_doc_walk.

Lemma filter_all {A} (f : A -> bool) (xs : list A) : (forall x, In x xs -> f x = true) -> filter f xs = xs.
Proof.
  induction xs as [|x xs IH]; intros H; [reflexivity|]. cbn [filter]. rewrite (H x (or_introl eq_refl)).
  f_equal. apply IH. intros y Hy. apply H. right. exact Hy.
Qed.

Lemma filter_none {A} (f : A -> bool) (xs : list A) : (forall x, In x xs -> f x = false) -> filter f xs = [].
Proof.
  induction xs as [|x xs IH]; intros H; [reflexivity|]. cbn [filter]. rewrite (H x (or_introl eq_refl)).
  apply IH. intros y Hy. apply H. right. exact Hy.
Qed.

Section Inv.
Variable m : xmap.
Variable d : delims.
Hypothesis WF : walker_wf m = true.
Hypothesis KO : keys_ok m = true.
Hypothesis FPL : first_pos_least m = true.

Notation ns := (root_nodes m).
Notation kid L := (children_of m L).

(* ------------------------------------------------------------------ *)
(* the invariant                                                        *)

Record InvR (c : counter) (L p : nref) (i : nat) (cn : Z) : Prop := {
  ir_L : vloop m L;
  ir_p : vseg m p;
  ir_child : exists ni, nth_error (kid L) i = Some ni /\
     ((node_is_loop ni = false /\ p = L ++ [i]) \/
      (node_is_loop ni = true /\
       exists y, y <> [] /\ p = (L ++ [i]) ++ y /\ closed m c (L ++ [i]) y /\ cq m 40 c (L ++ [i]) ni));
  (* the children passed that are still at or after the current position are not missing *)
  ir_passed : forall k nk, k < i -> nth_error (kid L) k = Some nk ->
                           (pos_at m (L ++ [i]) <= node_pos nk)%Z -> cq m 40 c (L ++ [k]) nk;
  (* in a loop that starts with a loop, the child loops passed are not missing *)
  ir_wrap : forall nL, node_at ns L = Some nL -> wrapper nL = true ->
            forall k nk, k < i -> nth_error (kid L) k = Some nk -> node_is_loop nk = true -> cq m 40 c (L ++ [k]) nk;
  ir_fresh : forall k x nx, i < k -> node_at ns ((L ++ [k]) ++ x) = Some nx -> cnt m c ((L ++ [k]) ++ x) = 0%Z;
  ir_count : forall ni, nth_error (kid L) i = Some ni -> node_is_loop ni = false \/ seg_first ni = true ->
                        cnt m c (L ++ [i]) = cn;
  ir_cn : (1 <= cn)%Z;
  ir_own : forall nL, node_at ns L = Some nL -> seg_first nL = true -> (1 <= cnt m c L)%Z
}.

Lemma invb_invr c L p i cn : InvB m c L p i cn -> InvR c L p i cn.
Proof.
  intros I. constructor.
  - exact (ib_L _ _ _ _ _ _ I).
  - exact (ib_p _ _ _ _ _ _ I).
  - destruct (ib_child _ _ _ _ _ _ I) as [ni [Hi [A | [Ln [y [Hy [Ep [Cl [Q _]]]]]]]]].
    + exists ni. split; [exact Hi|]. left. exact A.
    + exists ni. split; [exact Hi|]. right. split; [exact Ln|]. exists y. repeat split; assumption.
  - intros k nk K Hk _. exact (ib_passed _ _ _ _ _ _ I k nk K Hk).
  - intros nL _ _ k nk K Hk _. exact (ib_passed _ _ _ _ _ _ I k nk K Hk).
  - exact (ib_fresh _ _ _ _ _ _ I).
  - exact (ib_count _ _ _ _ _ _ I).
  - exact (ib_cn _ _ _ _ _ _ I).
  - exact (ib_own _ _ _ _ _ _ I).
Qed.

Lemma invr_path c L p i cn :
  InvR c L p i cn ->
  exists y, p = L ++ i :: y /\
    forall k, 0 < k -> k < length (i :: y) ->
              exh m c (L ++ firstn k (i :: y)) (pos_at m (L ++ firstn (S k) (i :: y))).
Proof.
  intros I. destruct (ir_child _ _ _ _ _ I) as [ni [Hi [[Ln ->] | [Ln [y [Hy [-> [Cl _]]]]]]]].
  - exists []. split; [reflexivity|]. intros k K1 K2. cbn [length] in K2. lia.
  - exists y. split; [rewrite <- app_assoc; reflexivity|].
    intros k K1 K2. destruct k as [|k]; [lia|]. cbn [length] in K2.
    change (firstn (S k) (i :: y)) with (i :: firstn k y). change (firstn (S (S k)) (i :: y)) with (i :: firstn (S k) y).
    replace (L ++ i :: firstn k y) with ((L ++ [i]) ++ firstn k y) by (rewrite <- app_assoc; reflexivity).
    replace (L ++ i :: firstn (S k) y) with ((L ++ [i]) ++ firstn (S k) y) by (rewrite <- app_assoc; reflexivity).
    apply Cl. lia.
Qed.

Lemma invr_cq_i c L p i cn ni :
  InvR c L p i cn -> nth_error (kid L) i = Some ni -> cq m 40 c (L ++ [i]) ni.
Proof.
  intros I Hi. destruct (ir_child _ _ _ _ _ I) as [ni' [Hi' [[Ln _] | [Ln [y [_ [_ [_ Q]]]]]]]];
    rewrite Hi in Hi'; injection Hi' as <-; [|exact Q].
  destruct ni as [id ty nm u q rep pm | sn]; [discriminate|].
  cbn [cq]. intros _. rewrite (ir_count _ _ _ _ _ I _ Hi (or_introl eq_refl)). exact (ir_cn _ _ _ _ _ I).
Qed.

(* children i < k < j may be left out, except child x *)
Definition btw_x (L : nref) (i j : nat) (x : option nat) : Prop :=
  forall k n, i < k -> k < j -> x <> Some k -> nth_error (kid L) k = Some n -> skippable 40 n = true.

Lemma btw_none L i j : between_skippable m L i j -> btw_x L i j None.
Proof. intros B k n K1 K2 _ Hk. exact (B k n K1 K2 Hk). Qed.

Lemma invr_cq_before_x c L p i cn j x k nk :
  InvR c L p i cn -> btw_x L i j x -> k < j -> x <> Some k -> nth_error (kid L) k = Some nk ->
  (pos_at m (L ++ [i]) <= node_pos nk)%Z -> cq m 40 c (L ++ [k]) nk.
Proof.
  intros I B Kj Kx Hk Pk. destruct (lt_eq_lt_dec k i) as [[K|K]|K].
  - exact (ir_passed _ _ _ _ _ I _ _ K Hk Pk).
  - subst k. exact (invr_cq_i _ _ _ _ _ _ I Hk).
  - apply skippable_cq. exact (B _ _ K Kj Kx Hk).
Qed.

(* the loop children of L before child j are not missing (child x excepted, which is not a loop) *)
Lemma invr_cq_loops_x c L nL p i cn j x k nk :
  InvR c L p i cn -> node_at ns L = Some nL -> wrapper nL = true -> btw_x L i j x ->
  (forall nx, x = Some k -> nth_error (kid L) k = Some nx -> node_is_loop nx = false) ->
  k < j -> nth_error (kid L) k = Some nk -> node_is_loop nk = true -> cq m 40 c (L ++ [k]) nk.
Proof.
  intros I HL W B Hx Kj Hk Lk. destruct (lt_eq_lt_dec k i) as [[K|K]|K].
  - exact (ir_wrap _ _ _ _ _ I _ HL W _ _ K Hk Lk).
  - subst k. exact (invr_cq_i _ _ _ _ _ _ I Hk).
  - apply skippable_cq. apply (B _ _ K Kj); [|exact Hk].
    intros E. rewrite (Hx _ E Hk) in Lk. discriminate.
Qed.

Lemma cq_own_x c L nL p i cn j x :
  InvR c L p i cn -> node_at ns L = Some nL -> i <= j -> btw_x L i j x ->
  (wrapper nL = true -> forall k nx, x = Some k -> nth_error (kid L) k = Some nx -> node_is_loop nx = false) ->
  (exists sn, nth_error (kid L) j = Some (NSeg sn)) ->
  (wrapper nL = true ->
     forall k n, j < k -> nth_error (kid L) k = Some n -> node_is_loop n = true -> skippable 40 n = true) ->
  cq m 40 c L nL.
Proof.
  intros I HL Le B Hx [sn Hj] Wp.
  assert (KL : kid L = node_children nL).
  { unfold children_of. destruct L; [discriminate HL|]. rewrite HL. reflexivity. }
  destruct (wf_ref _ _ _ WF HL) as [_ D].
  destruct nL as [id ty nm u q rep pm | sx]; [|cbn [node_children] in KL; rewrite KL in Hj; destruct j; discriminate].
  cbn [node_children] in KL.
  change (forallb (depth_ok 39) (pm_nodes pm) = true) in D. rewrite forallb_forall in D.
  change (cq m 40 c L (NLoop id ty nm u q rep pm)) with
    (match pm_nodes pm with
     | [] => True
     | NSeg _ :: _ => usage_is u "R" = true -> (1 <= cnt m c L)%Z
     | NLoop _ _ _ _ _ _ _ :: _ =>
         forall i ch, nth_error (pm_nodes pm) i = Some ch -> node_is_loop ch = true -> cq m 39 c (L ++ [i]) ch
     end).
  destruct (pm_nodes pm) as [|[id1 ty1 nm1 u1 q1 rep1 pm1 | s0] rest] eqn:E; [constructor | |].
  - assert (WR : wrapper (NLoop id ty nm u q rep pm) = true) by (unfold wrapper; cbn [node_children]; rewrite E; reflexivity).
    intros k ch Hk Lk. rewrite <- KL in Hk.
    apply (cq_fuel m 39 c _ _ (D _ ltac:(rewrite <- KL; apply (nth_error_In _ _ Hk)))).
    destruct (lt_eq_lt_dec k j) as [[K|K]|K].
    + apply (invr_cq_loops_x c L _ p i cn j x k ch I HL WR B); try assumption.
      intros nx Ex Hnx. exact (Hx WR k nx Ex Hnx).
    + subst k. rewrite Hj in Hk. injection Hk as <-. discriminate.
    + apply skippable_cq. apply (Wp WR _ _ K Hk Lk).
  - intros _. apply (ir_own _ _ _ _ _ I _ HL). unfold seg_first. cbn [node_children]. rewrite E. reflexivity.
Qed.

(* ------------------------------------------------------------------ *)
(* the one child that may be missing                                    *)

(* child j0 of L (node n0), strictly between the last unit and the one looked for, strictly before it in
   position; when passed it leaves the entry e0 *)
Definition exc := option (nat * node * (wargs -> mentry)).
Definition xidx (X : exc) : option nat := option_map (fun t => fst (fst t)) X.
Definition xevs (X : exc) (a : wargs) : list mentry := match X with None => [] | Some (_, _, e) => [e a] end.

Definition exc_ok (c : counter) (L : nref) (i j : nat) (sg : seg) (X : exc) : Prop :=
  match X with
  | None => True
  | Some (j0, n0, e0) =>
      i < j0 /\ j0 < j /\ nth_error (kid L) j0 = Some n0 /\
      (pos_at m (L ++ [i]) <= node_pos n0)%Z /\ (node_pos n0 < pos_at m (L ++ [j]))%Z /\
      (forall sc cl ls orig ol pop,
         passes m (mk_args d sg sc cl ls) c orig ol L pop (j0, n0) [e0 (mk_args d sg sc cl ls)]) /\
      (node_is_loop n0 = true -> forall nL, node_at ns L = Some nL -> wrapper nL = false)
  end.

Lemma exc_not_loop c L i j sg X nL :
  exc_ok c L i j sg X -> node_at ns L = Some nL ->
  wrapper nL = true -> forall k nx, xidx X = Some k -> nth_error (kid L) k = Some nx -> node_is_loop nx = false.
Proof.
  intros EO HL W k nx Ek Hk. destruct X as [[[j0 n0] e0]|]; [|discriminate]. cbn in Ek. injection Ek as ->.
  destruct EO as [_ [_ [H0 [_ [_ [_ NL]]]]]]. rewrite H0 in Hk. injection Hk as <-.
  destruct (node_is_loop n0) eqn:E; [|reflexivity]. rewrite (NL eq_refl _ HL) in W. discriminate.
Qed.

(* the children of L looked at before child j are passed, leaving the entry of the missing one *)
Lemma pre_pass sg sc cl ls c L p i cn j ch X :
  let a := mk_args d sg sc cl ls in
  InvR c L p i cn -> btw_x L i j (xidx X) -> exc_ok c L i j sg X ->
  nth_error (kid L) j = Some ch -> (pos_at m (L ++ [i]) <= node_pos ch)%Z ->
  (forall h, In h (heads_of L (filter (fun ic => fst ic <? j) (cands m L (pos_at m (L ++ [i]))))) ->
             nomatch_b m d sg h = true) ->
  exists pre rest, cands m L (pos_at m (L ++ [i])) = pre ++ (j, ch) :: rest /\
                   forall orig ol pop, pass_list m a c orig ol L pop pre (xevs X a).
Proof.
  intros a I B EO Hj Pj R.
  destruct (ir_L _ _ _ _ _ I) as [nL [HL LnL]].
  assert (Hl : lref m L) by (right; eauto).
  assert (Q : forall ic, In ic (cands m L (pos_at m (L ++ [i]))) -> fst ic < j -> xidx X <> Some (fst ic) ->
                         child_quiet m a c L ic).
  { intros ic Hin Hlt Hx. destruct (in_cands m _ _ _ Hin) as [Hk Pk]. split; [exact Hk|]. split.
    - exact (invr_cq_before_x _ _ _ _ _ _ _ _ _ I B Hlt Hx Hk Pk).
    - intros h Hh. apply R. apply (heads_of_in L _ ic); [|exact Hh].
      apply filter_In. split; [exact Hin | apply Nat.ltb_lt; exact Hlt]. }
  destruct X as [[[j0 n0] e0]|].
  - destruct EO as [K1 [K2 [H0 [P0 [P0' [PS _]]]]]].
    destruct (cands_split2 m L (pos_at m (L ++ [i])) j0 n0 j ch H0 P0 Hj Pj K2) as [pre1 [pre2 [rest [E [Q1 Q2]]]]].
    exists (pre1 ++ (j0, n0) :: pre2), rest. split; [rewrite <- app_assoc; exact E|].
    intros orig ol pop. cbn [xevs].
    change [e0 a] with ([] ++ ([e0 a] ++ [])).
    apply pass_app.
    + apply (pass_quiet m WF a c orig ol L pop pre1 Hl). apply Forall_forall. intros ic Hin.
      destruct (Q1 ic Hin) as [A1 A2]. apply Q; [exact A1 | lia |]. cbn. intros Ex. injection Ex as Ex. lia.
    + apply pl_cons; [apply (PS sc cl ls)|].
      apply (pass_quiet m WF a c orig ol L pop pre2 Hl). apply Forall_forall. intros ic Hin.
      destruct (Q2 ic Hin) as [A1 [A2 A3]]. apply Q; [exact A1 | lia |]. cbn. intros Ex. injection Ex as Ex. lia.
  - destruct (cands_split m L (pos_at m (L ++ [i])) j ch Hj Pj) as [pre [rest [E Hpre]]].
    exists pre, rest. split; [exact E|]. intros orig ol pop. cbn [xevs].
    apply (pass_quiet m WF a c orig ol L pop pre Hl). apply Forall_forall. intros ic Hin.
    destruct (Hpre ic Hin) as [A1 A2]. apply Q; [exact A1 | exact A2 | discriminate].
Qed.

(* ------------------------------------------------------------------ *)
(* one more unit: a segment child                                       *)

Lemma step_seg_x c L p i cn j sn mx sg w X :
  w_counter w = c -> L <> [] -> InvR c L p i cn ->
  i <= j -> j <> 0 -> nth_error (kid L) j = Some (NSeg sn) ->
  (pos_at m (L ++ [i]) <= pos_at m (L ++ [j]))%Z ->
  btw_x L i j (xidx X) -> exc_ok c L i j sg X ->
  (forall nL, node_at ns L = Some nL -> wrapper nL = true ->
     forall k n, j < k -> nth_error (kid L) k = Some n -> node_is_loop n = true -> skippable 40 n = true) ->
  used (s_usage sn) = true -> seg_max_repeat sn = Ok mx ->
  seg_is_match d (m_dataele m) sn sg = Ok true -> rival_free m d p L j sg = true ->
  (* the entry of the missing child is neither dropped (same id and parent as the segment found) nor kept
     (same position) *)
  (forall a pid e, parent_id m (L ++ [j]) = Ok pid -> In e (xevs X a) ->
     ostr_eqb (me_id e) (s_id sn) && ostr_eqb (me_pid e) pid = false /\ pos_is e (Some (s_pos sn)) = false) ->
  exists c', step_ev m d w p (L ++ [j], sg)
               (fun sc cl ls => seg_usage_evs (mk_args d sg sc cl ls) sn (next_count i j cn) mx ++
                                flat_map report_of (xevs X (mk_args d sg sc cl ls))) (Wc c') /\
             counts_step m w (L ++ [j], sg) (Wc c') /\
             InvR c' L (L ++ [j]) j (next_count i j cn) /\
             (forall r n, node_at ns r = Some n -> r <> L ++ [j] -> cnt m c' r = cnt m c r).
Proof.
  intros Hw HLne I Le Hj0 Hj Hpos B EO Wp U MX M RF XE.
  destruct (ir_L _ _ _ _ _ I) as [nL [HL LnL]].
  assert (Ht : node_at ns (L ++ [j]) = Some (NSeg sn)) by (rewrite (node_at_child m _ _ _ HL); exact Hj).
  destruct (wf_seg m WF _ _ Ht) as [_ [[xp X0] _]].
  set (c' := increment c xp).
  assert (CF : forall r n, node_at ns r = Some n ->
                 cnt m c' r = if nref_eqb r (L ++ [j]) then (cnt m c (L ++ [j]) + 1)%Z else cnt m c r).
  { intros r n Hr. apply (cnt_increment m WF KO c _ _ xp r n Ht X0 Hr). }
  assert (Cj : (cnt m c (L ++ [j]) + 1)%Z = next_count i j cn).
  { unfold next_count. destruct (Nat.eqb_spec j i) as [->|Hne].
    - rewrite (ir_count _ _ _ _ _ I _ Hj (or_introl eq_refl)). reflexivity.
    - rewrite <- (app_nil_r (L ++ [j])). rewrite (ir_fresh _ _ _ _ _ I j [] (NSeg sn) ltac:(lia)); [reflexivity|].
      rewrite app_nil_r. exact Ht. }
  assert (FR : forall r n, node_at ns r = Some n -> r <> L ++ [j] -> cnt m c' r = cnt m c r).
  { intros r n Hr Hne. rewrite (CF _ _ Hr). apply nref_eqb_neq in Hne. rewrite Hne. reflexivity. }
  assert (Pj : pos_at m (L ++ [j]) = s_pos sn) by (rewrite (pos_at_child m _ _ _ _ HL Hj); reflexivity).
  exists c'. split; [|split; [|split]].
  - (* the walk *)
    intros sc cl ls. cbn [fst snd]. set (a := mk_args d sg sc cl ls).
    destruct (invr_path _ _ _ _ _ I) as [y [Ep Ex]].
    destruct (ir_p _ _ _ _ _ I) as [snp Hp].
    pose proof (forallb_nomatch m d sg _ RF) as RF'. unfold rivals in RF'. rewrite Hj, HL in RF'.
    destruct (rivals_up_from m L (i :: y) j false ltac:(discriminate) ltac:(intros; reflexivity)) as [R1 R0].
    rewrite <- Ep in R1, R0.
    destruct (parent_id_ok m (L ++ [j])) as [pid Hpid]; [rewrite removelast_snoc; right; eauto|].
    apply (walk_st_via_gen m WF w p d sg sc cl ls L (i :: y) snp c' [] _ (L ++ [j]) Hp Ep ltac:(discriminate)).
    + rewrite Hw. apply (levels_quiet m a c L (i :: y) Ex).
      intros k K1 K2 h Hh. apply RF'. apply in_or_app. right. apply (R1 k K1 K2). exact Hh.
    + intros f pop. exists pop, []. rewrite Hw.
      destruct (pre_pass sg sc cl ls c L p i cn j (NSeg sn) X I B EO Hj ltac:(cbn [node_pos]; rewrite <- Pj; exact Hpos))
        as [pre [rest [Ec PL]]].
      { intros h Hh. apply RF'. apply in_or_app. right. apply R0. cbn [firstn]. exact Hh. }
      cbn [firstn].
      rewrite (found_seg_at_gen m a p (removelast p) L _ pop c [] j sn xp mx pid pre rest (xevs X a)
                 ltac:(right; eauto) Hj Ec (PL _ _ _) M).
      * assert (F1 : filter (fun e => negb (ostr_eqb (me_id e) (s_id sn) && ostr_eqb (me_pid e) pid)) (xevs X a) = xevs X a).
        { apply filter_all. intros e He. destruct (XE a pid e Hpid He) as [E1 _]. rewrite E1. reflexivity. }
        rewrite F1. unfold kept, flushed.
        rewrite (filter_none (fun e => pos_is e (Some (s_pos sn)))); [|intros e He; apply (XE a pid e Hpid He)].
        rewrite (filter_all (fun e => negb (pos_is e (Some (s_pos sn))))).
        2:{ intros e He. destruct (XE a pid e Hpid He) as [_ E2]. rewrite E2. reflexivity. }
        assert (E : cnt m c' (L ++ [j]) = get_count c' xp) by (unfold cnt; rewrite X0; reflexivity).
        fold c'. rewrite <- E, (CF _ _ Ht), nref_eqb_refl, Cj. reflexivity.
      * intros n Hn. rewrite HL in Hn. injection Hn as <-.
        apply (ilm_quiet m WF a c (xevs X a) [] 40 L nL HL LnL (proj2 (wf_ref _ _ _ WF HL))).
        -- apply (cq_own_x c L nL p i cn j (xidx X) I HL Le B); [| eauto | exact (Wp nL HL)].
           intros W k nx Ek Hk. exact (exc_not_loop c L i j sg X nL EO HL W k nx Ek Hk).
        -- intros h Hh. apply RF'. apply in_or_app. left. exact Hh.
      * exact U.
      * exact X0.
      * exact MX.
      * exact Hpid.
  - (* the counts *)
    intros r n Hr. cbn [fst w_counter Wc]. rewrite Hw. unfold upd. rewrite (is_head_snoc L j Hj0).
    apply (CF _ _ Hr).
  - (* the invariant *)
    assert (QB : forall k nk, k < j -> nth_error (kid L) k = Some nk ->
                   ((pos_at m (L ++ [j]) <= node_pos nk)%Z \/
                    (node_is_loop nk = true /\ wrapper nL = true)) -> cq m 40 c' (L ++ [k]) nk).
    { intros k nk K Hk Side.
      assert (Hkn : node_at ns (L ++ [k]) = Some nk) by (rewrite (node_at_child m _ _ _ HL); exact Hk).
      apply (cq_frame m 40 c c' _ _ Hkn).
      { intros x nx Hx. apply (FR _ _ Hx). apply child_ne_sub. lia. }
      destruct Side as [Pk | [Lk W]].
      - apply (invr_cq_before_x c L p i cn j (xidx X) k nk I B K); [|exact Hk|lia].
        destruct X as [[[j0 n0] e0]|]; [|discriminate]. cbn. intros Ex. injection Ex as ->.
        destruct EO as [_ [_ [H0 [_ [P0' _]]]]]. rewrite H0 in Hk. injection Hk as <-. lia.
      - apply (invr_cq_loops_x c L nL p i cn j (xidx X) k nk I HL W B); try assumption.
        intros nx Ek Hnx. exact (exc_not_loop c L i j sg X nL EO HL W k nx Ek Hnx). }
    constructor.
    + exact (ir_L _ _ _ _ _ I).
    + exists sn. exact Ht.
    + exists (NSeg sn). split; [exact Hj|]. left. split; reflexivity.
    + intros k nk K Hk Pk. apply (QB k nk K Hk). left. exact Pk.
    + intros nL' HL' W k nk K Hk Lk. rewrite HL in HL'. injection HL' as <-. apply (QB k nk K Hk). right. split; assumption.
    + intros k x nx K Hx. rewrite (FR _ _ Hx); [|apply child_ne_sub; lia].
      apply (ir_fresh _ _ _ _ _ I k x nx ltac:(lia) Hx).
    + intros ni Hni _. rewrite (CF _ _ Ht), nref_eqb_refl. exact Cj.
    + apply next_count_ge, (ir_cn _ _ _ _ _ I).
    + intros nL' HL' SF. rewrite (FR _ _ HL'); [apply (ir_own _ _ _ _ _ I _ HL' SF)|].
      intros E. apply (f_equal (@length nat)) in E. rewrite app_length in E. cbn [length] in E. lia.
  - exact FR.
Qed.


(* ------------------------------------------------------------------ *)
(* a loop that can start again at once has been looked at completely    *)

Lemma first_least_le C nC n0 k nk :
  node_at ns C = Some nC -> nth_error (kid C) 0 = Some n0 -> nth_error (kid C) k = Some nk ->
  (node_pos n0 <= node_pos nk)%Z.
Proof.
  intros HC H0 Hk. unfold first_pos_least in FPL. rewrite forallb_forall in FPL.
  assert (Hin : In C (all_refs m)).
  { unfold walker_wf in WF. apply andb_true_iff in WF as [D _]. exact (all_refs_complete m C _ D HC). }
  specialize (FPL C Hin). rewrite HC in FPL. rewrite (children_of_node m _ _ HC) in H0, Hk.
  destruct (node_children nC) as [|c0 rest]; [destruct k; discriminate|]. cbn [nth_error] in H0. injection H0 as ->.
  destruct k as [|k]; [cbn [nth_error] in Hk; injection Hk as ->; lia|].
  cbn [nth_error] in Hk. cbn [first_least] in FPL. rewrite forallb_forall in FPL.
  apply Z.leb_le. apply FPL. exact (nth_error_In _ _ Hk).
Qed.

Lemma restart_allq c C nC y s0 rest :
  node_at ns C = Some nC -> closed m c C y -> y <> [] ->
  cands m C (pos_at m (C ++ firstn 1 y)) = (0, NSeg s0) :: rest -> allq m c C.
Proof.
  intros HC Cl Hy Ec k nk Hk. change (kids m C) with (kid C) in Hk.
  assert (Ly : 0 < length y) by (destruct y; [congruence | cbn [length]; lia]).
  pose proof (Cl 0 Ly) as E0. change (firstn 0 y) with (@nil nat) in E0. rewrite app_nil_r in E0.
  assert (H0 : In (0, NSeg s0) (cands m C (pos_at m (C ++ firstn 1 y)))) by (rewrite Ec; left; reflexivity).
  destruct (in_cands m _ _ _ H0) as [K0 P0]. cbn [fst snd] in K0, P0.
  apply (E0 (k, nk)). unfold cands. apply filter_In. split.
  - apply (enumerate_In _ 0 k _ Hk).
  - apply Z.leb_le. cbn [snd]. pose proof (first_least_le C nC _ k nk HC K0 Hk). lia.
Qed.

(* ------------------------------------------------------------------ *)
(* how an instance is entered, within the repeat limit of the loop or not *)

(* what _check_loop_usage reports when the seg-first loop n is entered for the cntv-th time *)
Definition entry_evs (a : wargs) (n : node) (cntv : Z) : list wev :=
  match n with
  | NLoop _ _ _ _ _ rep _ =>
      if seg_first n then match loop_max_repeat rep with Ok mx => loop_usage_evs a n cntv mx | Raise _ => [] end else []
  | NSeg _ => []
  end.

Lemma entry_evs_within a n cntv :
  (seg_first n = true ->
     match n with
     | NLoop _ _ _ _ _ rep _ => exists mx, loop_max_repeat rep = Ok mx /\ (cntv <= mx)%Z
     | NSeg _ => False
     end) ->
  entry_evs a n cntv = [].
Proof.
  intros H. unfold entry_evs. destruct n as [id ty nm u q rep pm | sx]; [|reflexivity].
  destruct (seg_first _) eqn:SF; [|reflexivity]. destruct (H eq_refl) as [mx [-> Le]].
  unfold loop_usage_evs. replace (mx <? cntv)%Z with false; [reflexivity|]. symmetry. apply Z.ltb_ge. exact Le.
Qed.

Lemma shape_echain_x sg z C nC :
  shape m d sg z C nC -> node_at ns C = Some nC ->
  forall c,
    (seg_first nC = true ->
       match nC with
       | NLoop _ _ _ u _ rep _ => used u = true /\ exists mx, loop_max_repeat rep = Ok mx
       | NSeg _ => False
       end) ->
    (wrapper nC = true ->
       forall x nx, x <> [] -> node_at ns (C ++ x) = Some nx -> cnt m c (C ++ x) = 0%Z) ->
    exists c2,
      (forall sc cl ls, echain_gen m (mk_args d sg sc cl ls) c c2
                          (entry_evs (mk_args d sg sc cl ls) nC (cnt m c C + 1)) z C nC) /\
      after_entry m c c2 (C ++ repeat 0 (S z)).
Proof.
  intros Sh HC c Top Fresh.
  destruct Sh as [C id ty nm u q rep pm s0 rest E M | z W id ty nm u q rep pm c0 rest E L0 EP Sh].
  - assert (SF : seg_first (NLoop id ty nm u q rep pm) = true) by (unfold seg_first; cbn [node_children]; rewrite E; reflexivity).
    destruct (Top SF) as [U [mx MX]].
    destruct (wf_loop_seg m WF _ _ _ _ _ _ _ _ _ _ HC E) as [_ N].
    destruct (N (proj2 (used_facts _ U))) as [[xC XC] _].
    assert (H0 : node_at ns (C ++ [0]) = Some (NSeg s0)).
    { rewrite (node_at_snoc _ _ _ _ HC). cbn [node_children]. rewrite E. reflexivity. }
    destruct (wf_seg m WF _ _ H0) as [_ [[x0 X0] _]].
    set (c1 := reset_to_node c xC). set (c1' := increment c1 xC). set (c2 := increment c1' x0).
    assert (R1 : forall r n, node_at ns r = Some n -> cnt m c1 r = if strict_prefix_b C r then 0%Z else cnt m c r).
    { intros r n Hr. apply (cnt_reset m WF KO c C _ xC r n HC XC Hr). }
    assert (R2 : forall r n, node_at ns r = Some n ->
                   cnt m c1' r = if nref_eqb r C then (cnt m c1 C + 1)%Z else cnt m c1 r).
    { intros r n Hr. apply (cnt_increment m WF KO c1 C _ xC r n HC XC Hr). }
    assert (R3 : forall r n, node_at ns r = Some n ->
                   cnt m c2 r = if nref_eqb r (C ++ [0]) then (cnt m c1' (C ++ [0%nat]) + 1)%Z else cnt m c1' r).
    { intros r n Hr. apply (cnt_increment m WF KO c1' (C ++ [0]) _ x0 r n H0 X0 Hr). }
    assert (NE : nref_eqb (C ++ [0]) C = false).
    { apply nref_eqb_neq. intros E'. apply (f_equal (@length nat)) in E'. rewrite app_length in E'. cbn [length] in E'. lia. }
    assert (CC : cnt m c1' C = (cnt m c C + 1)%Z).
    { rewrite (R2 _ _ HC), nref_eqb_refl, (R1 _ _ HC), strict_prefix_irrefl. reflexivity. }
    exists c2. split.
    + intros sc cl ls. apply eg_seg. cbn [enter_gen]. exists s0, rest, xC, x0, mx.
      repeat split; try assumption.
      unfold entry_evs. rewrite SF, MX.
      change (get_count (increment (reset_to_node c xC) xC) xC) with (get_count c1' xC).
      assert (Q : cnt m c1' C = get_count c1' xC) by (unfold cnt; rewrite XC; reflexivity).
      rewrite <- Q, CC. reflexivity.
    + intros r n Hr. cbn [repeat]. unfold upd.
      assert (Cne : C <> []) by (intros ->; discriminate).
      rewrite (is_head_snoc0 C Cne), removelast_snoc0. cbv zeta.
      rewrite (R3 _ _ Hr).
      destruct (nref_eqb r C) eqn:Q1.
      * apply nref_eqb_eq in Q1. subst r.
        replace (nref_eqb C (C ++ [0])) with false; [exact CC|].
        symmetry. apply nref_eqb_neq. intros E'. apply (f_equal (@length nat)) in E'. rewrite app_length in E'. cbn [length] in E'. lia.
      * destruct (nref_eqb r (C ++ [0])) eqn:Q2.
        -- rewrite (R2 _ _ H0), NE, (R1 _ _ H0), strict_prefix_app. reflexivity.
        -- rewrite (R2 _ _ Hr), Q1, (R1 _ _ Hr). reflexivity.
  - (* through a wrapper: nothing new, the limit of the loops below is that of a first entry *)
    assert (ShW : shape m d sg (S z) W (NLoop id ty nm u q rep pm)) by (exact (sh_wrap m d sg z W id ty nm u q rep pm c0 rest E L0 EP Sh)).
    assert (NSF : seg_first (NLoop id ty nm u q rep pm) = false).
    { unfold seg_first. cbn [node_children]. rewrite E. destruct c0; [reflexivity | discriminate]. }
    destruct (shape_echain m d WF KO sg (S z) W _ ShW HC c) as [c2 [EC AE]].
    + intros SF. rewrite NSF in SF. discriminate.
    + exact Fresh.
    + exists c2. split; [|exact AE]. intros sc cl ls.
      replace (entry_evs (mk_args d sg sc cl ls) (NLoop id ty nm u q rep pm) (cnt m c W + 1)) with (@nil wev).
      * apply echain_to_gen. apply EC.
      * unfold entry_evs. rewrite NSF. reflexivity.
Qed.

(* ------------------------------------------------------------------ *)
(* one more unit: a loop child                                          *)

(* the search that goes up to L and enters child j there *)
Lemma step_loop_generic_x c c2 le L p i cn j n z y sg w sc cl ls X :
  w_counter w = c -> InvR c L p i cn -> p = L ++ i :: y ->
  (forall k, 0 < k -> k < length (i :: y) ->
     exh m c (L ++ firstn k (i :: y)) (pos_at m (L ++ firstn (S k) (i :: y)))) ->
  (forall k, 0 < k -> k < length (i :: y) ->
     scb m (L ++ firstn k (i :: y)) (pos_at m (L ++ firstn (S k) (i :: y))) L j true = false) ->
  (forall h, In h (rivals_up m (S (length p)) (removelast p) (pos_at m p) L j true) -> nomatch_b m d sg h = true) ->
  nth_error (kid L) j = Some n -> (pos_at m (L ++ [i]) <= pos_at m (L ++ [j]))%Z ->
  btw_x L i j (xidx X) -> exc_ok c L i j sg X ->
  echain_gen m (mk_args d sg sc cl ls) c c2 le z (L ++ [j]) n ->
  exists pop push,
    walk_st m w p d sg sc cl ls =
    (Wc c2, le ++ flat_map report_of (xevs X (mk_args d sg sc cl ls)), Ok (Some ((L ++ [j]) ++ repeat 0 (S z)), pop, push)).
Proof.
  intros Hw I Ep Ex SC RF' Hj Hpos B EO EC.
  destruct (ir_L _ _ _ _ _ I) as [nL [HL LnL]]. destruct (ir_p _ _ _ _ _ I) as [snp Hp].
  set (a := mk_args d sg sc cl ls).
  destruct (rivals_up_from m L (i :: y) j true ltac:(discriminate) SC) as [R1 R0].
  rewrite <- Ep in R1, R0.
  apply (walk_st_via_gen m WF w p d sg sc cl ls L (i :: y) snp c2 [] _ _ Hp Ep ltac:(discriminate)).
  - rewrite Hw. apply (levels_quiet m a c L (i :: y) Ex).
    intros k K1 K2 h Hh. apply RF'. apply (R1 k K1 K2). exact Hh.
  - intros f pop. rewrite Hw. cbn [firstn].
    destruct (pre_pass sg sc cl ls c L p i cn j n X I B EO Hj ltac:(rewrite <- (pos_at_child m _ _ _ _ HL Hj); exact Hpos))
      as [pre [rest [Ec PL]]].
    { intros h Hh. apply RF'. apply R0. cbn [firstn]. exact Hh. }
    destruct (found_loop_at_gen m WF a p (removelast p) L _ pop c c2 le [] j n z pre rest (xevs X a)
                ltac:(right; eauto) Hj Ec (PL _ _ _) EC f) as [push [s1 [G _]]].
    exists pop, push. exact G.
Qed.

Definition loop_prem (n : node) (i j : nat) : Prop :=
  match n with
  | NLoop _ _ _ u _ rep _ =>
      if seg_first n then used u = true /\ exists mx, loop_max_repeat rep = Ok mx else i < j
  | NSeg _ => False
  end.

Lemma step_loop_x c L p i cn j n sg z w X :
  w_counter w = c -> L <> [] -> InvR c L p i cn ->
  i <= j -> nth_error (kid L) j = Some n -> node_is_loop n = true ->
  (pos_at m (L ++ [i]) <= pos_at m (L ++ [j]))%Z ->
  btw_x L i j (xidx X) -> exc_ok c L i j sg X ->
  loop_prem n i j ->
  shape m d sg z (L ++ [j]) n ->
  rival_free m d p L j sg = true ->
  exists c2, step_ev m d w p ((L ++ [j]) ++ repeat 0 (S z), sg)
               (fun sc cl ls => entry_evs (mk_args d sg sc cl ls) n (next_count i j cn) ++
                                flat_map report_of (xevs X (mk_args d sg sc cl ls))) (Wc c2) /\
             after_entry m c c2 ((L ++ [j]) ++ repeat 0 (S z)).
Proof.
  intros Hw HLne I Le Hj Ln Hpos B EO Prem Sh RF.
  destruct (ir_L _ _ _ _ _ I) as [nL [HL LnL]].
  assert (Hn : node_at ns (L ++ [j]) = Some n) by (rewrite (node_at_child m _ _ _ HL); exact Hj).
  assert (Cnt1 : seg_first n = true -> (cnt m c (L ++ [j]) + 1)%Z = next_count i j cn).
  { intros SF. unfold next_count. destruct (Nat.eqb_spec j i) as [->|Hne].
    - rewrite (ir_count _ _ _ _ _ I _ Hj (or_intror SF)). reflexivity.
    - rewrite <- (app_nil_r (L ++ [j])). rewrite (ir_fresh _ _ _ _ _ I j [] n ltac:(lia)); [reflexivity|].
      rewrite app_nil_r. exact Hn. }
  destruct (shape_echain_x sg z (L ++ [j]) n Sh Hn c) as [c2 [EC AE]].
  { intros SF. unfold loop_prem in Prem. destruct n as [id ty nm u q rep pm | sx]; [|exact Prem]. rewrite SF in Prem. exact Prem. }
  { intros WR x nx Hx Hnx. unfold loop_prem in Prem. destruct n as [id ty nm u q rep pm | sx]; [|destruct Prem].
    rewrite (wrapper_not_seg_first _ WR) in Prem. apply (ir_fresh _ _ _ _ _ I j x nx Prem Hnx). }
  assert (EV : forall a, entry_evs a n (cnt m c (L ++ [j]) + 1) = entry_evs a n (next_count i j cn)).
  { intros a. unfold entry_evs. destruct n as [id ty nm u q rep pm | sx]; [|reflexivity].
    destruct (seg_first _) eqn:SF; [|reflexivity]. rewrite (Cnt1 eq_refl). reflexivity. }
  exists c2. split; [|exact AE].
  intros sc cl ls. cbn [fst snd]. rewrite <- EV.
  pose proof (forallb_nomatch m d sg _ RF) as RF'. unfold rivals in RF'. rewrite Hj in RF'.
  destruct n as [id ty nm u q rep pm | sx]; [|discriminate].
  destruct (ir_p _ _ _ _ _ I) as [snp Hp].
  destruct (ir_child _ _ _ _ _ I) as [ni [Hi [[Lni Epi] | [Lni [y0 [Hy0 [Epi [Cl Qi]]]]]]]].
  - (* the last unit was a segment child *)
    apply (step_loop_generic_x c c2 _ L p i cn j (NLoop id ty nm u q rep pm) z [] sg w sc cl ls X Hw I Epi); try assumption.
    + intros k K1 K2. cbn [length] in K2. lia.
    + intros k K1 K2. cbn [length] in K2. lia.
    + apply EC.
  - (* the last unit was a loop child *)
    assert (Ep : p = L ++ i :: y0) by (rewrite Epi, <- app_assoc; reflexivity).
    assert (Ex : forall k, 0 < k -> k < length (i :: y0) ->
                   exh m c (L ++ firstn k (i :: y0)) (pos_at m (L ++ firstn (S k) (i :: y0)))).
    { destruct (invr_path _ _ _ _ _ I) as [y [Ep' Ex]]. rewrite Ep in Ep'. apply app_inv_head in Ep'.
      injection Ep' as <-. exact Ex. }
    destruct (scb m (L ++ [i]) (pos_at m ((L ++ [i]) ++ firstn 1 y0)) L j true) eqn:SC1.
    + (* the loop is found again from inside *)
      unfold scb in SC1. cbn [andb] in SC1. apply andb_true_iff in SC1 as [Eij Cd].
      apply nref_eqb_eq in Eij. apply snoc_inj in Eij. subst i.
      assert (XN : X = None).
      { destruct X as [[[j0 n0] e0]|]; [|reflexivity]. destruct EO as [K1 [K2 _]]. lia. }
      subst X. cbn [xevs flat_map]. rewrite app_nil_r.
      destruct (cands m (L ++ [j]) (pos_at m ((L ++ [j]) ++ firstn 1 y0))) as [|[[|k0] [|s0]] rest] eqn:Ec; try discriminate.
      assert (K0 : node_children (NLoop id ty nm u q rep pm) = NSeg s0 :: skipn 1 (pm_nodes pm)).
      { assert (Hin : In (0, NSeg s0) (cands m (L ++ [j]) (pos_at m ((L ++ [j]) ++ firstn 1 y0)))) by (rewrite Ec; left; reflexivity).
        destruct (in_cands m _ _ _ Hin) as [H0 _]. cbn [fst snd] in H0. rewrite (children_of_node m _ _ Hn) in H0.
        cbn [node_children] in *. destruct (pm_nodes pm); [discriminate|]. injection H0 as ->. reflexivity. }
      pose proof (shape_seg_first m d _ _ _ _ _ _ Sh K0) as ->.
      assert (Cne : L ++ [j] <> []) by apply snoc_not_nil.
      assert (Hol : exists no, node_at ns (removelast p) = Some no).
      { destruct (node_at_removelast _ _ _ Hp) as [E0 | [q0 [Hq _]]]; [|eauto].
        exfalso. rewrite Epi in E0. destruct (exists_last Hy0) as [y1 [x1 Ey]]. rewrite Ey, app_assoc, removelast_last in E0.
        apply app_eq_nil in E0 as [E0 _]. exact (Cne E0). }
      destruct Hol as [no Hol].
      apply (walk_st_via_gen m WF w p d sg sc cl ls (L ++ [j]) y0 snp c2 [] _ _ Hp Epi Hy0).
      * rewrite Hw. apply (levels_quiet m (mk_args d sg sc cl ls) c (L ++ [j]) y0).
        -- intros k K1 K2. apply Cl. exact K2.
        -- intros k K1 K2 h Hh. apply RF'.
           pose proof (rivals_up_level m L (j :: y0) j true ltac:(discriminate) (length (j :: y0) - 1) ltac:(cbn [length]; lia)
                         (S k) ltac:(lia) ltac:(cbn [length]; lia)) as Inc.
           cbv beta zeta in Inc.
           assert (SCk : forall k', S k <= k' -> k' <= length (j :: y0) - 1 ->
                         scb m (L ++ firstn k' (j :: y0)) (pos_at m (L ++ firstn (S k') (j :: y0))) L j true = false).
           { intros k' A A'. apply (scb_level m L (j :: y0) j true); [lia | cbn [length] in *; lia]. }
           specialize (Inc SCk (S (length p)) ltac:(rewrite Ep, app_length; cbn [length]; lia)).
           assert (E1 : L ++ firstn (length (j :: y0) - 1) (j :: y0) = removelast p).
           { rewrite Ep. rewrite <- (removelast_app_firstn L (j :: y0) (length (j :: y0) - 1)) by (cbn [length]; lia).
             replace (S (length (j :: y0) - 1)) with (length (j :: y0)) by (cbn [length]; lia). rewrite firstn_all. reflexivity. }
           assert (E2 : L ++ firstn (S (length (j :: y0) - 1)) (j :: y0) = p).
           { replace (S (length (j :: y0) - 1)) with (length (j :: y0)) by (cbn [length]; lia). rewrite firstn_all. symmetry. exact Ep. }
           rewrite E1, E2 in Inc. apply Inc.
           change (firstn (S k) (j :: y0)) with (j :: firstn k y0).
           change (firstn (S (S k)) (j :: y0)) with (j :: firstn (S k) y0).
           replace (L ++ j :: firstn k y0) with ((L ++ [j]) ++ firstn k y0) by (rewrite <- app_assoc; reflexivity).
           replace (L ++ j :: firstn (S k) y0) with ((L ++ [j]) ++ firstn (S k) y0) by (rewrite <- app_assoc; reflexivity).
           exact Hh.
      * intros f pop. rewrite Hw.
        pose proof (restart_allq c (L ++ [j]) _ y0 s0 rest Hn Cl Hy0 Ec) as AQ.
        destruct (found_restart_at_gen m WF (mk_args d sg sc cl ls) p (removelast p) (L ++ [j]) _ c c2 _ [] _ s0 rest no snp
                    Cne Hn Ec Hol Hp []
                    (note_missing_quiet m WF (mk_args d sg sc cl ls) (L ++ [j]) c [] [] ltac:(right; eauto) AQ)
                    (EC sc cl ls) f pop) as [pop' [push G]].
        exists pop', push. cbn [flat_map app] in G. rewrite app_nil_r in G. exact G.
    + (* the loop is found from L *)
      apply (step_loop_generic_x c c2 _ L p i cn j (NLoop id ty nm u q rep pm) z y0 sg w sc cl ls X Hw I Ep Ex); try assumption; [|apply EC].
      * intros k K1 K2. destruct k as [|[|k]]; [lia | |].
        -- change (firstn 1 (i :: y0)) with [i]. change (firstn 2 (i :: y0)) with (i :: firstn 1 y0).
           replace (L ++ i :: firstn 1 y0) with ((L ++ [i]) ++ firstn 1 y0) by (rewrite <- app_assoc; reflexivity).
           exact SC1.
        -- apply (scb_level m L (i :: y0) j true); lia.
Qed.


(* ------------------------------------------------------------------ *)
(* after the entry, leaving                                             *)

Lemma pre_inst_of_r c c2 L p i cn j n sg z :
  InvR c L p i cn -> i <= j -> nth_error (kid L) j = Some n ->
  loop_prem n i j ->
  shape m d sg z (L ++ [j]) n -> after_entry m c c2 ((L ++ [j]) ++ repeat 0 (S z)) ->
  PreInst m c2 (L ++ [j]) z /\
  (seg_first n = true -> cnt m c2 (L ++ [j]) = next_count i j cn).
Proof.
  intros I Le Hj Prem Sh AE.
  destruct (ir_L _ _ _ _ _ I) as [nL [HL LnL]].
  assert (Hn : node_at ns (L ++ [j]) = Some n) by (rewrite (node_at_child m _ _ _ HL); exact Hj).
  assert (Cne : L ++ [j] <> []) by apply snoc_not_nil.
  destruct (shape_valid m d _ _ _ _ Sh Hn) as [[nB [HB [SFB LB]]] [st Ht]].
  destruct (ae_values m c c2 (L ++ [j]) z nB _ Cne AE HB Ht) as [VB [Vt Vr]].
  assert (CB : (z = 0 /\ (cnt m c (L ++ [j]) + 1)%Z = next_count i j cn) \/ (0 < z /\ cnt m c ((L ++ [j]) ++ repeat 0 z) = 0%Z /\ i < j)).
  { destruct z as [|z].
    - left. split; [reflexivity|]. cbn [repeat] in HB. rewrite app_nil_r in HB. rewrite Hn in HB. injection HB as <-.
      unfold next_count. destruct (Nat.eqb_spec j i) as [->|Hne].
      + rewrite (ir_count _ _ _ _ _ I _ Hj (or_intror SFB)). reflexivity.
      + rewrite <- (app_nil_r (L ++ [j])). rewrite (ir_fresh _ _ _ _ _ I j [] n ltac:(lia)); [reflexivity|].
        rewrite app_nil_r. exact Hn.
    - right. split; [lia|].
      assert (Lt : i < j).
      { inversion Sh as [|z' W id ty nm u q rep pm c0 rest E L0 EP Sh' Ez EW En]; subst.
        unfold loop_prem in Prem.
        replace (seg_first (NLoop id ty nm u q rep pm)) with false in Prem; [exact Prem|].
        unfold seg_first. cbn [node_children]. rewrite E. destruct c0; [reflexivity | discriminate]. }
      split; [|exact Lt]. apply (ir_fresh _ _ _ _ _ I j _ nB Lt HB). }
  split.
  - split; [exact Vt|]. split; [|split].
    + rewrite VB. destruct CB as [[-> E] | [_ [E _]]].
      * cbn [repeat]. rewrite app_nil_r. rewrite E. apply next_count_ge, (ir_cn _ _ _ _ _ I).
      * rewrite E. lia.
    + intros Hz. rewrite VB. destruct CB as [[-> _] | [_ [E _]]]; [lia|]. rewrite E. reflexivity.
    + intros r nr Hr SP N1 N2. rewrite (Vr _ _ Hr (N2 z (le_n z)) N1).
      destruct (strict_prefix_b ((L ++ [j]) ++ repeat 0 z) r) eqn:E; [reflexivity|].
      destruct CB as [[-> _] | [_ [_ Lt]]].
      * cbn [repeat] in E. rewrite app_nil_r in E. congruence.
      * apply strict_prefix_inv in SP as [x [y ->]]. apply (ir_fresh _ _ _ _ _ I j (x :: y) nr Lt Hr).
  - intros SF.
    assert (z = 0) as ->.
    { destruct n as [id ty nm u q rep pm | sx]; [|discriminate]. unfold seg_first in SF. cbn [node_children] in SF.
      destruct (pm_nodes pm) as [|[|s0] rest] eqn:E; try discriminate.
      apply (shape_seg_first m d _ _ _ _ s0 rest Sh). cbn [node_children]. exact E. }
    cbn [repeat] in VB. rewrite app_nil_r in VB. rewrite VB.
    destruct CB as [[_ E] | [Hz _]]; [exact E | lia].
Qed.

Lemma preinst_invr c C nC s0 rest :
  node_at ns C = Some nC -> node_children nC = NSeg s0 :: rest -> PreInst m c C 0 -> InvR c C (C ++ [0]) 0 1.
Proof. intros HC E PI. apply invb_invr. exact (preinst_invb m c C nC s0 rest HC E PI). Qed.

(* what an instance leaves: the last item is below C and every loop from there up to C can be left *)
Definition PostR (c : counter) (C : nref) (nC : node) (p : nref) : Prop :=
  vseg m p /\ exists y, y <> [] /\ p = C ++ y /\ closed m c C y /\ cq m 40 c C nC.

(* leaving: the invariant of a finished body closes the loop *)
Lemma close_body_r c L p i cn nL :
  InvR c L p i cn -> rest_skippable m L i -> node_at ns L = Some nL -> PostR c L nL p.
Proof.
  intros I RS HL. split; [exact (ir_p _ _ _ _ _ I)|].
  destruct (invr_path _ _ _ _ _ I) as [y [Ep Ex]].
  assert (Qpos : forall k nk, nth_error (kid L) k = Some nk -> (pos_at m (L ++ [i]) <= node_pos nk)%Z -> cq m 40 c (L ++ [k]) nk).
  { intros k nk Hk Pk. destruct (lt_eq_lt_dec k i) as [[K|K]|K].
    - exact (ir_passed _ _ _ _ _ I _ _ K Hk Pk).
    - subst k. exact (invr_cq_i _ _ _ _ _ _ I Hk).
    - apply skippable_cq. exact (RS _ _ K Hk). }
  exists (i :: y). split; [discriminate|]. split; [exact Ep|]. split.
  - intros k K. destruct k as [|k].
    + cbn [firstn]. rewrite app_nil_r. intros ic Hin. destruct (in_cands m _ _ _ Hin) as [Hk Pk]. exact (Qpos _ _ Hk Pk).
    + apply Ex; [lia | exact K].
  - assert (KL : kid L = node_children nL) by apply (children_of_node m _ _ HL).
    destruct (wf_ref _ _ _ WF HL) as [_ D].
    destruct nL as [id ty nm u q rep pm | sx]; [|cbn [cq]; destruct (ir_L _ _ _ _ _ I) as [n' [Hn' Ln']]; rewrite HL in Hn'; injection Hn' as <-; discriminate].
    cbn [node_children] in KL.
    change (forallb (depth_ok 39) (pm_nodes pm) = true) in D. rewrite forallb_forall in D.
    change (cq m 40 c L (NLoop id ty nm u q rep pm)) with
      (match pm_nodes pm with
       | [] => True
       | NSeg _ :: _ => usage_is u "R" = true -> (1 <= cnt m c L)%Z
       | NLoop _ _ _ _ _ _ _ :: _ =>
           forall i ch, nth_error (pm_nodes pm) i = Some ch -> node_is_loop ch = true -> cq m 39 c (L ++ [i]) ch
       end).
    destruct (pm_nodes pm) as [|[id1 ty1 nm1 u1 q1 rep1 pm1 | s0] rest] eqn:E; [constructor | |].
    + assert (WR : wrapper (NLoop id ty nm u q rep pm) = true) by (unfold wrapper; cbn [node_children]; rewrite E; reflexivity).
      intros k ch Hk Lk. rewrite <- KL in Hk.
      apply (cq_fuel m 39 c _ _ (D _ ltac:(rewrite <- KL; apply (nth_error_In _ _ Hk)))).
      destruct (lt_eq_lt_dec k i) as [[K|K]|K].
      * exact (ir_wrap _ _ _ _ _ I _ HL WR _ _ K Hk Lk).
      * subst k. exact (invr_cq_i _ _ _ _ _ _ I Hk).
      * apply skippable_cq. exact (RS _ _ K Hk).
    + intros _. apply (ir_own _ _ _ _ _ I _ HL). unfold seg_first. cbn [node_children]. rewrite E. reflexivity.
Qed.

(* ------------------------------------------------------------------ *)
(* runs with reports                                                    *)

Lemma step_ev_ext w p it e1 e2 w' :
  (forall sc cl ls, e1 sc cl ls = e2 sc cl ls) -> step_ev m d w p it e1 w' -> step_ev m d w p it e2 w'.
Proof. intros E S sc cl ls. destruct (S sc cl ls) as [pop [push H]]. exists pop, push. rewrite <- E. exact H. Qed.

Lemma items_of_app (U V : list aitem) : items_of (U ++ V) = items_of U ++ items_of V.
Proof. apply map_app. Qed.

Lemma erun_app w p U w1 V w2 :
  erun m d w p U w1 -> erun m d w1 (last_ref (items_of U) p) V w2 -> erun m d w p (U ++ V) w2.
Proof.
  induction 1 as [w p | w p it fs w1' rest w' S1 S2 R IH]; intros RV.
  - exact RV.
  - cbn [app]. apply (erun_cons m d w p it fs w1' (rest ++ V) w2 S1 S2). apply IH.
    unfold items_of in RV. cbn [map fst] in RV. rewrite last_ref_cons in RV. exact RV.
Qed.

Lemma erun_predicted w p U w' :
  erun m d w p U w' -> agree m (cnt m (w_counter w')) (predicted (items_of U) (cnt m (w_counter w))).
Proof.
  induction 1 as [w p | w p it fs w1 rest w' S1 S2 R IH].
  - intros r n Hr. reflexivity.
  - intros r n Hr. rewrite (IH r n Hr). unfold items_of. cbn [map fst]. unfold predicted. cbn [fold_left].
    apply (predicted_ext m (map fst rest) _ _ S2 r n Hr).
Qed.

(* a run without annotations is a run of C02_doc_spec *)
Lemma erun_plain w p U w' : erun m d w p U w' -> faults_of U = [] -> run m d w p (items_of U) w'.
Proof.
  induction 1 as [w p | w p it fs w1 rest w' S1 S2 R IH]; intros F; [apply run_nil|].
  unfold faults_of in F. cbn [flat_map snd] in F. apply app_eq_nil in F as [-> F].
  unfold items_of. cbn [map fst]. apply (run_cons m d w p it w1 (map fst rest) w'); [|exact S2 | exact (IH F)].
  intros sc cl ls. destruct (S1 sc cl ls) as [pop [push H]]. exists pop, push. exact H.
Qed.

(* ------------------------------------------------------------------ *)
(* the rivals of a unit include the heads of every child passed in L    *)

Lemma rival_of_cand c L p i cn j found sg k nk h :
  InvR c L p i cn -> nth_error (kid L) j = Some found -> rival_free m d p L j sg = true ->
  (node_is_loop found = true -> i < j) ->
  In (k, nk) (cands m L (pos_at m (L ++ [i]))) -> k < j -> In h (heads 40 (L ++ [k]) nk) ->
  nomatch_b m d sg h = true.
Proof.
  intros I Hj RF Lt Hin Kj Hh.
  destruct (ir_L _ _ _ _ _ I) as [nL [HL LnL]].
  destruct (invr_path _ _ _ _ _ I) as [y [Ep Ex]].
  pose proof (forallb_nomatch m d sg _ RF) as RF'. unfold rivals in RF'. rewrite Hj in RF'.
  assert (Hin' : In h (heads_of L (filter (fun ic => fst ic <? j) (cands m L (pos_at m (L ++ firstn 1 (i :: y))))))).
  { cbn [firstn]. apply (heads_of_in L _ (k, nk)); [|exact Hh].
    apply filter_In. split; [exact Hin | apply Nat.ltb_lt; exact Kj]. }
  destruct found as [id ty nm u q rep pm | sn].
  - specialize (Lt eq_refl).
    destruct (rivals_up_from m L (i :: y) j true ltac:(discriminate)) as [_ R0].
    { intros k' K1 K2. destruct k' as [|[|k']]; [lia | |].
      - unfold scb. change (firstn 1 (i :: y)) with [i].
        replace (nref_eqb (L ++ [i]) (L ++ [j])) with false; [rewrite andb_false_r; reflexivity|].
        symmetry. apply nref_eqb_neq. intros E. apply snoc_inj in E. lia.
      - apply (scb_level m L (i :: y) j true); lia. }
    rewrite <- Ep in R0. apply RF'. apply R0. exact Hin'.
  - rewrite HL in RF'.
    destruct (rivals_up_from m L (i :: y) j false ltac:(discriminate) ltac:(intros; reflexivity)) as [_ R0].
    rewrite <- Ep in R0. apply RF'. apply in_or_app. right. apply R0. exact Hin'.
Qed.

(* ------------------------------------------------------------------ *)
(* from the description of a gap to the child that is passed with an entry *)

Lemma gap_exc c L p i cn j found g sg :
  InvR c L p i cn -> nth_error (kid L) j = Some found -> gap_ok m L i j found g ->
  rival_free m d p L j sg = true ->
  exists X, xidx X = gap_idx g /\ exc_ok c L i j sg X /\
    (forall sc cl ls, flat_map report_of (xevs X (mk_args d sg sc cl ls)) = faults_ev m d sg (gap_faults L g) sc cl ls) /\
    (forall sn, found = NSeg sn ->
       forall a pid e, parent_id m (L ++ [j]) = Ok pid -> In e (xevs X a) ->
         ostr_eqb (me_id e) (s_id sn) && ostr_eqb (me_pid e) pid = false /\ pos_is e (Some (s_pos sn)) = false).
Proof.
  intros I Hj G RF.
  destruct (ir_L _ _ _ _ _ I) as [nL [HL LnL]].
  assert (Hl : lref m L) by (right; eauto).
  destruct g as [|j0|j0].
  - exists None. split; [reflexivity|]. split; [exact Logic.I|]. split; [reflexivity|].
    intros sn _ a pid e _ [].
  - destruct G as [K1 [K2 [s0 [H0 [R [P0 [P0' Hid]]]]]]].
    assert (Hn0 : node_at ns (L ++ [j0]) = Some (NSeg s0)) by (rewrite (node_at_child m _ _ _ HL); exact H0).
    destruct (parent_id_ok m (L ++ [j0])) as [pid0 Hpid0]; [rewrite removelast_snoc; exact Hl|].
    exists (Some (j0, NSeg s0, fun a => seg_entry a (L ++ [j0]) s0 pid0)).
    split; [reflexivity|]. split; [|split].
    + cbn [exc_ok]. split; [exact K1|]. split; [exact K2|]. split; [exact H0|]. split; [exact P0|]. split; [exact P0'|].
      split; [|discriminate].
      intros sc cl ls orig ol pop. apply (miss_seg_passes m WF); try assumption.
      * apply (nomatch_seg m (mk_args d sg sc cl ls) _ _ Hn0).
        apply (rival_of_cand c L p i cn j found sg j0 (NSeg s0) _ I Hj RF); [| | exact K2 | left; reflexivity].
        -- intros _. lia.
        -- unfold cands. apply filter_In. split.
           ++ apply (enumerate_In _ 0 j0 _ H0).
           ++ apply Z.leb_le. exact P0.
      * rewrite <- (app_nil_r (L ++ [j0])). rewrite (ir_fresh _ _ _ _ _ I j0 [] (NSeg s0) K1); [lia|].
        rewrite app_nil_r. exact Hn0.
    + intros sc cl ls. cbn [xevs flat_map gap_faults]. unfold faults_ev. cbn [flat_map fault_ev]. rewrite Hn0. reflexivity.
    + intros sn -> a pid e Hpid He. destruct He as [<-|He]; [|destruct He]. cbn [seg_entry me_id me_pid me_info].
      split.
      * rewrite Hid. reflexivity.
      * unfold pos_is. cbn [seg_entry me_info info_of n_pos node_pos opt_eqb].
        rewrite (pos_at_child m _ _ _ _ HL Hj) in P0'. cbn [node_pos] in P0'. apply Z.eqb_neq. lia.
  - destruct G as [K1 [K2 [id [ty [nm [u [q [rep [pm [s0 [rest [H0 [E [R [P0 [P0' [NW Hid]]]]]]]]]]]]]]]]].
    assert (Hn0 : node_at ns (L ++ [j0]) = Some (NLoop id ty nm u q rep pm)) by (rewrite (node_at_child m _ _ _ HL); exact H0).
    assert (H00 : node_at ns ((L ++ [j0]) ++ [0]) = Some (NSeg s0)).
    { rewrite (node_at_snoc _ _ _ _ Hn0). cbn [node_children]. rewrite E. reflexivity. }
    exists (Some (j0, NLoop id ty nm u q rep pm, fun a => loop_entry a (L ++ [j0]) id nm s0)).
    split; [reflexivity|]. split; [|split].
    + cbn [exc_ok]. split; [exact K1|]. split; [exact K2|]. split; [exact H0|]. split; [exact P0|]. split; [exact P0'|].
      split; [|intros _ nL' HL'; exact (NW nL' HL')].
      intros sc cl ls orig ol pop. apply (miss_loop_passes m WF) with (rest0 := rest); try assumption.
      * apply (nomatch_seg m (mk_args d sg sc cl ls) _ _ H00).
        apply (rival_of_cand c L p i cn j found sg j0 (NLoop id ty nm u q rep pm) _ I Hj RF); [| | exact K2 |].
        -- intros _. lia.
        -- unfold cands. apply filter_In. split.
           ++ apply (enumerate_In _ 0 j0 _ H0).
           ++ apply Z.leb_le. exact P0.
        -- cbn [heads]. rewrite E. left. reflexivity.
      * rewrite <- (app_nil_r (L ++ [j0])). rewrite (ir_fresh _ _ _ _ _ I j0 [] (NLoop id ty nm u q rep pm) K1); [lia|].
        rewrite app_nil_r. exact Hn0.
    + intros sc cl ls. cbn [xevs flat_map gap_faults]. unfold faults_ev. cbn [flat_map fault_ev]. rewrite Hn0, E. reflexivity.
    + intros sn -> a pid e Hpid He. destruct He as [<-|He]; [|destruct He]. cbn [loop_entry me_id me_pid me_info]. destruct Hid as [Hid Hpos].
      split.
      * rewrite Hid. reflexivity.
      * unfold pos_is. cbn [loop_entry me_info info_of n_pos node_pos opt_eqb]. exact Hpos.
Qed.

Lemma seg_limit_evs L j sn sg nc mx sc cl ls :
  node_at ns (L ++ [j]) = Some (NSeg sn) ->
  seg_usage_evs (mk_args d sg sc cl ls) sn nc mx = faults_ev m d sg (seg_limit_faults (L ++ [j]) nc mx) sc cl ls.
Proof.
  intros H. unfold seg_usage_evs, seg_limit_faults, faults_ev. rewrite Z.ltb_antisym.
  destruct (nc <=? mx)%Z; cbn [negb flat_map fault_ev]; [reflexivity|]. rewrite H. reflexivity.
Qed.

Lemma loop_limit_evs L j n sg nc sc cl ls :
  node_at ns (L ++ [j]) = Some n ->
  entry_evs (mk_args d sg sc cl ls) n nc = faults_ev m d sg (loop_limit_faults n (L ++ [j]) nc) sc cl ls.
Proof.
  intros H. unfold entry_evs, loop_limit_faults, faults_ev.
  destruct n as [id ty nm u q rep pm | sx]; [|reflexivity].
  destruct (seg_first _); [|reflexivity]. destruct (loop_max_repeat rep) as [mx|e]; [|reflexivity].
  unfold loop_usage_evs. rewrite Z.ltb_antisym.
  destruct (nc <=? mx)%Z; cbn [negb flat_map fault_ev]; [reflexivity|]. rewrite H. reflexivity.
Qed.

Lemma faults_ev_app sg f1 f2 sc cl ls :
  faults_ev m d sg (f1 ++ f2) sc cl ls = faults_ev m d sg f1 sc cl ls ++ faults_ev m d sg f2 sc cl ls.
Proof. unfold faults_ev. apply flat_map_app. Qed.

(* ------------------------------------------------------------------ *)
(* the invariant of L after an instance of its child j                  *)

Lemma invr_after_inst c c1 L p i cn j n sg X p1 cn' :
  InvR c L p i cn -> i <= j -> nth_error (kid L) j = Some n -> node_is_loop n = true ->
  (pos_at m (L ++ [i]) <= pos_at m (L ++ [j]))%Z ->
  btw_x L i j (xidx X) -> exc_ok c L i j sg X ->
  (forall r nr, node_at ns r = Some nr -> r <> L ++ [j] -> strict_prefix_b (L ++ [j]) r = false ->
                cnt m c1 r = cnt m c r) ->
  PostR c1 (L ++ [j]) n p1 ->
  (seg_first n = true -> cnt m c1 (L ++ [j]) = cn') -> (1 <= cn')%Z ->
  InvR c1 L p1 j cn'.
Proof.
  intros I Le Hj Ln Hpos B EO F [VP [y [Hy [Ey [Cl Q]]]]] Cnt Pos.
  destruct (ir_L _ _ _ _ _ I) as [nL [HLv LnL]].
  assert (QB : forall k nk, k < j -> nth_error (kid L) k = Some nk ->
                 ((pos_at m (L ++ [j]) <= node_pos nk)%Z \/ (node_is_loop nk = true /\ wrapper nL = true)) ->
                 cq m 40 c1 (L ++ [k]) nk).
  { intros k nk K Hk Side.
    assert (Hkn : node_at ns (L ++ [k]) = Some nk) by (rewrite (node_at_child m _ _ _ HLv); exact Hk).
    apply (cq_frame m 40 c c1 _ _ Hkn).
    { intros x nx Hx. apply (F _ _ Hx); [apply child_ne_sub; lia | apply sibling_not_below; lia]. }
    destruct Side as [Pk | [Lk W]].
    - apply (invr_cq_before_x c L p i cn j (xidx X) k nk I B K); [|exact Hk|lia].
      destruct X as [[[j0 n0] e0]|]; [|discriminate]. cbn. intros Ex. injection Ex as ->.
      destruct EO as [_ [_ [H0 [_ [P0' _]]]]]. rewrite H0 in Hk. injection Hk as <-. lia.
    - apply (invr_cq_loops_x c L nL p i cn j (xidx X) k nk I HLv W B); try assumption.
      intros nx Ek Hnx. exact (exc_not_loop c L i j sg X nL EO HLv W k nx Ek Hnx). }
  constructor.
  - exact (ir_L _ _ _ _ _ I).
  - exact VP.
  - exists n. split; [exact Hj|]. right. split; [exact Ln|]. exists y. repeat split; assumption.
  - intros k nk K Hk Pk. apply (QB k nk K Hk). left. exact Pk.
  - intros nL' HL' W k nk K Hk Lk. rewrite HLv in HL'. injection HL' as <-. apply (QB k nk K Hk). right. split; assumption.
  - intros k x nx K Hx. rewrite (F _ _ Hx); [|apply child_ne_sub; lia | apply sibling_not_below; lia].
    apply (ir_fresh _ _ _ _ _ I k x nx ltac:(lia) Hx).
  - intros ni Hni [Lf|SF]; rewrite Hj in Hni; injection Hni as <-; [congruence|]. exact (Cnt SF).
  - exact Pos.
  - intros nL' HL' SF. rewrite (F _ _ HL').
    + exact (ir_own _ _ _ _ _ I _ HL' SF).
    + apply len_ne. rewrite app_length. cbn [length]. lia.
    + apply not_below_shorter. rewrite app_length. cbn [length]. lia.
Qed.

(* ------------------------------------------------------------------ *)
(* an instance that consists of its first segment only, and the same loop at once again *)

(* the walk from the first segment of C to the first segment of the next instance of C *)
Lemma step_restart_cut c2 C id ty nm u q rep pm s0 rest sg mx w :
  w_counter w = c2 -> C <> [] ->
  node_at ns C = Some (NLoop id ty nm u q rep pm) -> pm_nodes pm = NSeg s0 :: rest ->
  seg_is_match d (m_dataele m) s0 sg = Ok true -> used u = true -> loop_max_repeat rep = Ok mx ->
  exists c3,
    step_ev m d w (C ++ [0]) (C ++ [0], sg)
      (fun sc cl ls => entry_evs (mk_args d sg sc cl ls) (NLoop id ty nm u q rep pm) (cnt m c2 C + 1) ++
                       flat_map report_of (nm_entries m (mk_args d sg sc cl ls) c2 C)) (Wc c3) /\
    after_entry m c2 c3 (C ++ [0]).
Proof.
  intros Hw Cne HC E M U MX.
  set (nC := NLoop id ty nm u q rep pm) in *.
  assert (Sh : shape m d sg 0 C nC) by exact (sh_seg m d sg C id ty nm u q rep pm s0 rest E M).
  assert (SF : seg_first nC = true) by (unfold seg_first, nC; cbn [node_children]; rewrite E; reflexivity).
  destruct (shape_echain_x sg 0 C nC Sh HC c2) as [c3 [EC AE]].
  { intros _. unfold nC. split; [exact U | eauto]. }
  { intros WR. rewrite (wrapper_not_seg_first _ WR) in SF. discriminate. }
  cbn [repeat] in AE.
  assert (H0 : node_at ns (C ++ [0]) = Some (NSeg s0)).
  { rewrite (node_at_snoc _ _ _ _ HC). unfold nC. cbn [node_children]. rewrite E. reflexivity. }
  exists c3. split; [|exact AE].
  intros sc cl ls. cbn [fst snd]. set (a := mk_args d sg sc cl ls).
  rewrite (walk_st_unfold _ _ _ _ _ _ _ _ _ H0). rewrite removelast_snoc. rewrite Hw.
  assert (KC : kids m C = NSeg s0 :: rest).
  { unfold kids. destruct C; [congruence|]. rewrite HC. unfold nC. cbn [node_children]. exact E. }
  assert (Ec : cands m C (s_pos s0) = (0, NSeg s0) ::
                 filter (fun ic : nat * node => (s_pos s0 <=? node_pos (snd ic))%Z) (enumerate 1 rest)).
  { rewrite cands_kids, KC. cbn [enumerate filter snd node_pos]. rewrite Z.leb_refl. reflexivity. }
  destruct (found_restart_at_gen m WF a (C ++ [0]) C C (s_pos s0) c2 c3 _ [] nC s0 _ nC s0 Cne HC Ec HC H0 _
              (note_missing_eq m WF a C c2 [] ltac:(right; exists nC; split; [exact HC | reflexivity]))
              (EC sc cl ls) (length (C ++ [0])) []) as [pop' [push G]].
  subst a. cbv zeta. rewrite G. cbn [fst snd ws wlog St app]. exists pop', push. reflexivity.
Qed.

(* after the first segment of an instance of C everything below C is uncounted: what is recorded is what
   the specification lists *)
Lemma cut_entries_evs c2 C nC s0 rest sg sc cl ls :
  node_at ns C = Some nC -> kid C = NSeg s0 :: rest -> PreInst m c2 C 0 ->
  flat_map report_of (nm_entries m (mk_args d sg sc cl ls) c2 C) = faults_ev m d sg (cut_faults m C) sc cl ls.
Proof.
  intros HC K [A [_ [_ D]]]. cbn [repeat] in A, D.
  unfold nm_entries, cut_faults, faults_ev. change (kids m C) with (kid C). rewrite K.
  cbn [enumerate flat_map skipn].
  assert (E0 : nmc_entries m (mk_args d sg sc cl ls) c2 C (0, NSeg s0) = []).
  { unfold nmc_entries. cbn [fst snd]. destruct (negb (usage_is _ "R")); [reflexivity|]. rewrite A. reflexivity. }
  rewrite E0. cbn [app].
  assert (G : forall cs, (forall k ch, In (k, ch) cs -> 1 <= k /\ nth_error (kid C) k = Some ch) ->
              flat_map report_of (flat_map (nmc_entries m (mk_args d sg sc cl ls) c2 C) cs) =
              flat_map (fun f => fault_ev m d sg f sc cl ls) (flat_map (child_missing C) cs)).
  { induction cs as [|[k ch] cs IH]; intros Hc; [reflexivity|].
    cbn [flat_map]. rewrite !flat_map_app. rewrite IH by (intros k' ch' Hin; apply Hc; right; exact Hin). f_equal.
    destruct (Hc k ch (or_introl eq_refl)) as [K1 Hk].
    assert (Hn : node_at ns (C ++ [k]) = Some ch) by (rewrite (node_at_child m _ _ _ HC); exact Hk).
    assert (Z0 : cnt m c2 (C ++ [k]) = 0%Z).
    { apply (D _ _ Hn).
      - apply strict_prefix_app.
      - intros Eq. apply snoc_inj in Eq. lia.
      - intros k' K' Eq. assert (k' = 0) as -> by lia. cbn [repeat] in Eq. rewrite app_nil_r in Eq.
        apply (f_equal (@length nat)) in Eq. rewrite app_length in Eq. cbn [length] in Eq. lia. }
    unfold nmc_entries, child_missing. cbn [fst snd]. rewrite Z0.
    destruct (usage_is (node_usage ch) "R"); cbn [negb Z.ltb Z.compare flat_map]; [|reflexivity].
    destruct ch as [id ty nm u q rep pm | sn].
    - destruct (pm_nodes pm) as [|[|sf] r0] eqn:Ep; try reflexivity.
      cbn [flat_map fault_ev app]. rewrite Hn, Ep. reflexivity.
    - destruct (parent_id_ok m (C ++ [k])) as [pid Hpid]; [rewrite removelast_snoc; right; exists nC; split; [exact HC|]|].
      { destruct nC; [reflexivity|]. rewrite (children_of_node m _ _ HC) in K. discriminate. }
      rewrite Hpid. cbn [flat_map fault_ev app]. rewrite Hn. reflexivity. }
  apply G. intros k ch Hin. apply enumerate_nth in Hin as [K1 Hin]. split; [exact K1|].
  rewrite K. destruct k as [|k]; [lia|]. cbn [nth_error]. replace (S k - 1) with k in Hin by lia. exact Hin.
Qed.

End Inv.

(* ------------------------------------------------------------------ *)
(* the induction                                                        *)

Scheme finst_mind := Minimality for finst Sort Prop
  with fbody_mind := Minimality for fbody Sort Prop.
Combined Scheme f_mutind from finst_mind, fbody_mind.

Section Run.
Variable m : xmap.
Variable d : delims.
Hypothesis WF : walker_wf m = true.
Hypothesis KO : keys_ok m = true.
Hypothesis FPL : first_pos_least m = true.

Notation ns := (root_nodes m).
Notation kid L := (children_of m L).

Lemma finst_shape C U :
  finst m d C U -> forall nC, node_at ns C = Some nC ->
  exists z sg fs U', U = ((C ++ repeat 0 (S z), sg), fs) :: U' /\ shape m d sg z C nC.
Proof.
  intros H.
  induction H using finst_mind with (P0 := fun _ _ _ _ _ => True); try exact Logic.I.
  - intros nC HC. exists 0, sg, fs, body. split; [reflexivity|].
    rewrite (children_of_node m _ _ HC) in H0.
    destruct nC as [id ty nm u q rep pm | sx]; [|discriminate]. cbn [node_children] in H0.
    exact (sh_seg m d sg C id ty nm u q rep pm s0 rest H0 H1).
  - intros nW HW. rewrite (children_of_node m _ _ HW) in H0.
    destruct nW as [id ty nm u q rep pm | sx]; [|discriminate]. cbn [node_children] in H0.
    assert (H0' : node_at ns (W ++ [0]) = Some c0).
    { rewrite (node_at_snoc _ _ _ _ HW). cbn [node_children]. rewrite H0. reflexivity. }
    destruct (IHfinst c0 H0') as [z [sg [fs [U' [-> Sh]]]]].
    exists (S z), sg, fs, (U' ++ body). split.
    + rewrite repeat0_shift. reflexivity.
    + exact (sh_wrap m d sg z W id ty nm u q rep pm c0 rest H0 H1 H2 Sh).
Qed.

(* what an instance does once its first segment has been found (the annotation of the first item is the
   business of whoever found it) *)
Definition P_finst (C : nref) (U : list aitem) : Prop :=
  forall nC z sg fs U', node_at ns C = Some nC -> U = ((C ++ repeat 0 (S z), sg), fs) :: U' -> shape m d sg z C nC ->
  forall w, PreInst m (w_counter w) C z ->
  exists w', erun m d w (C ++ repeat 0 (S z)) U' w' /\
             PostR m (w_counter w') C nC (last_ref (items_of U') (C ++ repeat 0 (S z))) /\
             (forall r n, node_at ns r = Some n -> strict_prefix_b C r = false ->
                          cnt m (w_counter w') r = cnt m (w_counter w) r).

Definition P_fbody (L p : nref) (i : nat) (cn : Z) (B : list aitem) : Prop :=
  forall w, L <> [] -> InvR m (w_counter w) L p i cn ->
  exists w' i' cn', erun m d w p B w' /\ InvR m (w_counter w') L (last_ref (items_of B) p) i' cn' /\ rest_skippable m L i' /\
             (forall r n, node_at ns r = Some n -> strict_prefix_b L r = false ->
                          cnt m (w_counter w') r = cnt m (w_counter w) r).

Lemma gap_btw L i j g : between_skippable_but m L i j g -> forall X, xidx X = gap_idx g -> btw_x m L i j (xidx X).
Proof. intros B X E k n K1 K2 Hx Hk. rewrite E in Hx. exact (B k n K1 K2 Hx Hk). Qed.

Lemma not_below_sub (L : nref) (j : nat) r : strict_prefix_b L r = false -> strict_prefix_b (L ++ [j]) r = false.
Proof.
  intros NB. destruct (strict_prefix_b (L ++ [j]) r) eqn:E; [|reflexivity].
  apply strict_prefix_inv in E as [a [b ->]]. rewrite <- app_assoc in NB. cbn [app] in NB.
  rewrite strict_prefix_app in NB. discriminate.
Qed.

Theorem fault_run :
  (forall C U, finst m d C U -> P_finst C U) /\
  (forall L p i cn B, fbody m d L p i cn B -> P_fbody L p i cn B).
Proof.
  apply f_mutind.
  - (* FI_seg *)
    intros C s0 rest sg fs body HCne HK M Hbody IHbody nC z sg' fs' U' HC EU Sh w PI.
    injection EU as Et <- <- <-. apply app_inv_head in Et. apply repeat0_one in Et. subst z.
    assert (K : node_children nC = NSeg s0 :: rest) by (rewrite <- (children_of_node m _ _ HC); exact HK).
    pose proof (preinst_invr m _ _ _ _ _ HC K PI) as I.
    destruct (IHbody w HCne I) as [w' [i' [cn' [R [I' [RS FR]]]]]].
    exists w'. split; [exact R|]. split; [|exact FR].
    exact (close_body_r m WF _ _ _ _ _ _ I' RS HC).
  - (* FI_wrap *)
    intros W c0 rest U0 body HWne HK L0 EP Hinst IHinst Hbody IHbody nW z sg fs U' HW EU Sh w PI.
    assert (H0 : node_at ns (W ++ [0]) = Some c0) by (rewrite (node_at_child m _ _ _ HW), HK; reflexivity).
    destruct (finst_shape _ _ Hinst c0 H0) as [z0 [sg0 [fs0 [U0' [EU0 Sh0]]]]]. subst U0.
    cbn [app] in EU. injection EU as Et -> -> <-.
    assert (z = S z0) as ->.
    { apply (f_equal (@length nat)) in Et. rewrite !app_length in Et. cbn [length] in Et. rewrite !repeat_length in Et. lia. }
    pose proof (pre_inst_down m _ _ _ PI) as PI0.
    destruct (IHinst c0 z0 sg fs U0' H0 eq_refl Sh0 w PI0) as [w1 [R1 [[VP [y [Hy [Ey [Cl Q]]]]] FR1]]].
    unfold items_of in IHbody. cbn [map fst] in IHbody. rewrite last_ref_cons in IHbody. cbn [fst] in IHbody.
    fold (items_of U0') in IHbody.
    assert (KW : kid W = c0 :: rest) by exact HK.
    assert (I : InvR m (w_counter w1) W (last_ref (items_of U0') ((W ++ [0]) ++ repeat 0 (S z0))) 0 1).
    { destruct PI as [A [B [C0 D]]]. constructor.
      - exists nW. split; [exact HW|]. destruct nW; [reflexivity|].
        rewrite (children_of_node m _ _ HW) in KW. discriminate.
      - exact VP.
      - exists c0. split; [rewrite KW; reflexivity|]. right. split; [exact L0|]. exists y. repeat split; assumption.
      - intros k nk Hk. lia.
      - intros nL _ _ k nk Hk. lia.
      - intros k x nx Hk Hx. rewrite (FR1 _ _ Hx (sibling_not_below W k 0 x ltac:(lia))).
        apply (D _ _ Hx).
        + rewrite <- app_assoc. apply strict_prefix_app.
        + intros E. rewrite <- repeat0_shift in E. revert E. apply sibling_ne. lia.
        + intros k' K' E. destruct k' as [|k'].
          * cbn [repeat] in E. rewrite app_nil_r in E. apply (f_equal (@length nat)) in E. rewrite !app_length in E. cbn [length] in E. lia.
          * rewrite <- repeat0_shift in E. revert E. apply sibling_ne. lia.
      - intros ni Hni [Ln|SF]; rewrite KW in Hni; injection Hni as <-; [congruence|].
        rewrite (FR1 _ _ H0 (strict_prefix_irrefl _)).
        assert (z0 = 0) as ->.
        { destruct c0 as [id ty nm u q rep pm | sx]; [|discriminate]. unfold seg_first in SF. cbn [node_children] in SF.
          destruct (pm_nodes pm) as [|[|s0] rest0] eqn:E; try discriminate.
          apply (shape_seg_first m d _ _ _ _ s0 rest0 Sh0). cbn [node_children]. exact E. }
        rewrite <- (C0 ltac:(lia)). reflexivity.
      - lia.
      - intros nL HL SF. rewrite HW in HL. injection HL as <-. exfalso.
        rewrite (children_of_node m _ _ HW) in KW. unfold seg_first in SF. rewrite KW in SF. destruct c0; discriminate. }
    destruct (IHbody w1 HWne I) as [w' [i' [cn' [R2 [I' [RS FR2]]]]]].
    exists w'. split; [|split].
    + rewrite <- repeat0_shift. exact (erun_app m d _ _ _ _ _ _ R1 R2).
    + rewrite <- repeat0_shift, items_of_app, last_ref_app2. exact (close_body_r m WF _ _ _ _ _ _ I' RS HW).
    + intros r n Hr NB. rewrite (FR2 _ _ Hr NB). apply (FR1 _ _ Hr). apply not_below_sub. exact NB.
  - (* FB_end *)
    intros L p i cn RS w HL I. exists w, i, cn. split; [apply erun_nil|]. split; [exact I|]. split; [exact RS|]. reflexivity.
  - (* FB_seg *)
    intros L p i cn j sn mx sg g fs body Le Hj0 Hj Hpos B G Wp U MX M RF Efs Hbody IHbody w HL I.
    destruct (gap_exc m d WF _ _ _ _ _ _ _ _ sg I Hj G RF) as [X [EX [EO [EV XE]]]].
    destruct (step_seg_x m d WF KO (w_counter w) L p i cn j sn mx sg w X eq_refl HL I Le Hj0 Hj Hpos
                (gap_btw _ _ _ _ B X EX) EO Wp U MX M RF (XE sn eq_refl))
      as [c' [SO [CS [I' FR]]]].
    destruct (IHbody (Wc c') HL I') as [w' [i' [cn' [R [I'' [RS FR']]]]]].
    destruct (ir_L _ _ _ _ _ _ I) as [nL [HLv _]].
    assert (Ht : node_at ns (L ++ [j]) = Some (NSeg sn)) by (rewrite (node_at_child m _ _ _ HLv); exact Hj).
    exists w', i', cn'. split; [|split; [|split]].
    + apply (erun_cons m d w p (L ++ [j], sg) fs (Wc c') body w'); [|exact CS | exact R].
      refine (step_ev_ext m d _ _ _ _ _ _ _ SO). intros sc cl ls. cbn [snd].
      rewrite Efs, faults_ev_app, <- (seg_limit_evs m d L j sn sg _ mx sc cl ls Ht), <- EV. reflexivity.
    + unfold items_of. cbn [map fst]. rewrite last_ref_cons. exact I''.
    + exact RS.
    + intros r n Hr NB. rewrite (FR' _ _ Hr NB). apply (FR _ _ Hr).
      intros ->. rewrite strict_prefix_app in NB. discriminate.
  - (* FB_loop *)
    intros L p i cn j n t sg g fs fs0 U' body Le Hj Ln Hpos B G Prem Hinst IHinst RF Efs Hbody IHbody w HL I.
    destruct (ir_L _ _ _ _ _ _ I) as [nL [HLv LnL]].
    assert (Hn : node_at ns (L ++ [j]) = Some n) by (rewrite (node_at_child m _ _ _ HLv); exact Hj).
    destruct (finst_shape _ _ Hinst n Hn) as [z [sg' [fs' [U'' [EU Sh]]]]]. injection EU as -> <- <- <-.
    destruct (gap_exc m d WF _ _ _ _ _ _ _ _ sg I Hj G RF) as [X [EX [EO [EV _]]]].
    destruct (step_loop_x m d WF KO FPL (w_counter w) L p i cn j n sg z w X eq_refl HL I Le Hj Ln Hpos
                (gap_btw _ _ _ _ B X EX) EO Prem Sh RF) as [c2 [SO AE]].
    destruct (pre_inst_of_r m d _ _ _ _ _ _ _ _ _ _ I Le Hj Prem Sh AE) as [PI Cnt].
    destruct (IHinst n z sg fs0 U' Hn eq_refl Sh (Wc c2) PI) as [w1 [R1 [PR FR1]]].
    unfold items_of in IHbody. cbn [map fst] in IHbody. rewrite last_ref_cons in IHbody. cbn [fst] in IHbody.
    fold (items_of U') in IHbody.
    assert (Cne : L ++ [j] <> []) by apply snoc_not_nil.
    assert (F : forall r nr, node_at ns r = Some nr -> r <> L ++ [j] -> strict_prefix_b (L ++ [j]) r = false ->
                  cnt m (w_counter w1) r = cnt m (w_counter w) r).
    { intros r nr Hr N1 N2. rewrite (FR1 _ _ Hr N2). exact (ae_frame m _ _ _ _ Cne AE r nr Hr N1 N2). }
    assert (I1 : InvR m (w_counter w1) L (last_ref (items_of U') ((L ++ [j]) ++ repeat 0 (S z))) j (next_count i j cn)).
    { apply (invr_after_inst m d (w_counter w) (w_counter w1) L p i cn j n sg X _ _ I Le Hj Ln Hpos
               (gap_btw _ _ _ _ B X EX) EO F PR).
      - intros SF. rewrite (FR1 _ _ Hn (strict_prefix_irrefl _)). exact (Cnt SF).
      - apply next_count_ge, (ir_cn _ _ _ _ _ _ I). }
    destruct (IHbody w1 HL I1) as [w' [i' [cn' [R2 [I'' [RS FR2]]]]]].
    exists w', i', cn'. split; [|split; [|split]].
    + cbn [app]. apply (erun_cons m d w p ((L ++ [j]) ++ repeat 0 (S z), sg) fs (Wc c2) (U' ++ body) w').
      * refine (step_ev_ext m d _ _ _ _ _ _ _ SO). intros sc cl ls. cbn [snd].
        rewrite Efs, faults_ev_app, <- (loop_limit_evs m d L j n sg _ sc cl ls Hn), <- EV. reflexivity.
      * exact AE.
      * exact (erun_app m d _ _ _ _ _ _ R1 R2).
    + cbn [app]. unfold items_of. cbn [map fst]. rewrite last_ref_cons. cbn [fst].
      rewrite map_app, last_ref_app2. exact I''.
    + exact RS.
    + intros r nr Hr NB. rewrite (FR2 _ _ Hr NB). apply (F _ _ Hr).
      * intros ->. rewrite strict_prefix_app in NB. discriminate.
      * apply not_below_sub. exact NB.
  - (* FB_cut *)
    intros L p i cn j n s0 rest sgA sgB g fsA fsB fs0 U' body Le Hj Ln HK Hpos B G Prem MA RF EfsA Hinst IHinst EfsB Hbody IHbody w HL I.
    destruct (ir_L _ _ _ _ _ _ I) as [nL [HLv LnL]].
    assert (Hn : node_at ns (L ++ [j]) = Some n) by (rewrite (node_at_child m _ _ _ HLv); exact Hj).
    assert (Cne : L ++ [j] <> []) by apply snoc_not_nil.
    destruct n as [id ty nm u q rep pm | sx]; [|discriminate].
    assert (E : pm_nodes pm = NSeg s0 :: rest) by (rewrite (children_of_node m _ _ Hn) in HK; exact HK).
    destruct Prem as [U [mx MX]].
    set (n := NLoop id ty nm u q rep pm) in *.
    assert (SF : seg_first n = true) by (unfold seg_first, n; cbn [node_children]; rewrite E; reflexivity).
    assert (Prem' : loop_prem n i j) by (unfold loop_prem, n; fold n; rewrite SF; split; [exact U | eauto]).
    assert (ShA : shape m d sgA 0 (L ++ [j]) n) by exact (sh_seg m d sgA _ id ty nm u q rep pm s0 rest E MA).
    (* the unit that is cut short *)
    destruct (gap_exc m d WF _ _ _ _ _ _ _ _ sgA I Hj G RF) as [X [EX [EO [EV _]]]].
    destruct (step_loop_x m d WF KO FPL (w_counter w) L p i cn j n sgA 0 w X eq_refl HL I Le Hj Ln Hpos
                (gap_btw _ _ _ _ B X EX) EO Prem' ShA RF) as [c2 [SOA AEA]].
    destruct (pre_inst_of_r m d _ _ _ _ _ _ _ _ _ _ I Le Hj Prem' ShA AEA) as [PI2 Cnt2].
    cbn [repeat] in SOA, AEA.
    (* the same loop at once again *)
    destruct (finst_shape _ _ Hinst n Hn) as [z [sg' [fs' [U'' [EU ShB]]]]].
    assert (z = 0) as -> by (apply (shape_seg_first m d _ _ _ _ s0 rest ShB); unfold n; cbn [node_children]; exact E).
    cbn [repeat] in EU. injection EU as <- <- <-.
    assert (MB : seg_is_match d (m_dataele m) s0 sgB = Ok true).
    { inversion ShB as [C' id' ty' nm' u' q' rep' pm' s0' rest' E' M' | ]; subst.
      rewrite E in E'. injection E' as <- <-. exact M'. }
    destruct (step_restart_cut m d WF KO c2 (L ++ [j]) id ty nm u q rep pm s0 rest sgB mx (Wc c2) eq_refl Cne Hn E MB U MX)
      as [c3 [SOB AEB]].
    fold n in SOB.
    assert (H00 : node_at ns ((L ++ [j]) ++ [0]) = Some (NSeg s0)).
    { rewrite (node_at_snoc _ _ _ _ Hn). unfold n. cbn [node_children]. rewrite E. reflexivity. }
    destruct (ae_values m c2 c3 (L ++ [j]) 0 n (NSeg s0) Cne AEB) as [VB [Vt Vr]];
      [cbn [repeat]; rewrite app_nil_r; exact Hn | exact H00 |].
    cbn [repeat] in VB, Vt, Vr. rewrite app_nil_r in VB, Vr.
    assert (PI3 : PreInst m c3 (L ++ [j]) 0).
    { destruct PI2 as [A2 [B2 [_ D2]]]. cbn [repeat] in A2, B2, D2. rewrite app_nil_r in B2.
      unfold PreInst. cbn [repeat]. rewrite app_nil_r. split; [exact Vt|]. split; [rewrite VB; lia|]. split; [lia|].
      intros r nr Hr SP N1 N2. rewrite (Vr _ _ Hr); [rewrite SP; reflexivity | | exact N1].
      specialize (N2 0 (le_n 0)). cbn [repeat] in N2. rewrite app_nil_r in N2. exact N2. }
    destruct (IHinst n 0 sgB fs0 U' Hn eq_refl ShB (Wc c3) PI3) as [w1 [R1 [PR FR1]]].
    cbn [repeat] in R1, PR.
    unfold items_of in IHbody. cbn [map fst] in IHbody. rewrite last_ref_cons in IHbody. cbn [fst] in IHbody.
    fold (items_of U') in IHbody.
    assert (F : forall r nr, node_at ns r = Some nr -> r <> L ++ [j] -> strict_prefix_b (L ++ [j]) r = false ->
                  cnt m (w_counter w1) r = cnt m (w_counter w) r).
    { intros r nr Hr N1 N2. rewrite (FR1 _ _ Hr N2). cbn [w_counter Wc].
      rewrite (ae_frame m c2 c3 (L ++ [j]) 0 Cne AEB r nr Hr N1 N2).
      exact (ae_frame m _ c2 (L ++ [j]) 0 Cne AEA r nr Hr N1 N2). }
    assert (I1 : InvR m (w_counter w1) L (last_ref (items_of U') ((L ++ [j]) ++ [0])) j (next_count i j cn + 1)).
    { apply (invr_after_inst m d (w_counter w) (w_counter w1) L p i cn j n sgA X _ _ I Le Hj Ln Hpos
               (gap_btw _ _ _ _ B X EX) EO F PR).
      - intros _. rewrite (FR1 _ _ Hn (strict_prefix_irrefl _)). cbn [w_counter Wc]. rewrite VB, (Cnt2 SF). reflexivity.
      - pose proof (next_count_ge i j cn (ir_cn _ _ _ _ _ _ I)). lia. }
    destruct (IHbody w1 HL I1) as [w' [i' [cn' [R2 [I'' [RS FR2]]]]]].
    exists w', i', cn'. split; [|split; [|split]].
    + apply (erun_cons m d w p ((L ++ [j]) ++ [0], sgA) fsA (Wc c2)).
      * refine (step_ev_ext m d _ _ _ _ _ _ _ SOA). intros sc cl ls. cbn [snd].
        rewrite EfsA, faults_ev_app, <- (loop_limit_evs m d L j n sgA _ sc cl ls Hn), <- EV. reflexivity.
      * exact AEA.
      * cbn [fst app]. apply (erun_cons m d (Wc c2) ((L ++ [j]) ++ [0]) ((L ++ [j]) ++ [0], sgB) fsB (Wc c3) (U' ++ body) w').
        -- refine (step_ev_ext m d _ _ _ _ _ _ _ SOB). intros sc cl ls. cbn [snd].
           rewrite EfsB, faults_ev_app, <- (loop_limit_evs m d L j n sgB _ sc cl ls Hn).
           rewrite <- (cut_entries_evs m d c2 (L ++ [j]) n s0 rest sgB sc cl ls Hn HK PI2).
           rewrite (Cnt2 SF). reflexivity.
        -- exact AEB.
        -- exact (erun_app m d _ _ _ _ _ _ R1 R2).
    + cbn [app]. unfold items_of. cbn [map fst]. rewrite !last_ref_cons. cbn [fst].
      rewrite map_app, last_ref_app2. exact I''.
    + exact RS.
    + intros r nr Hr NB. rewrite (FR2 _ _ Hr NB). apply (F _ _ Hr).
      * intros ->. rewrite strict_prefix_app in NB. discriminate.
      * apply not_below_sub. exact NB.
Qed.

End Run.

Print Assumptions fault_run.
