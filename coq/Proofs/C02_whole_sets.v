(* C02_whole_sets.v — the functional group of Spec/C02_whole_spec.v (ONE conformant instance of GS_LOOP) built from
   its transaction sets given one by one: each set ST :: body ++ [SE] a conformant instance of ST_LOOP
   (conf_inst m d stl ((r_st, ST) :: items), as in Proofs/C02_doc_examples.v), then the GE segment.
   What has to be added to the sets is exactly what rule CB_loop / CB_seg of conf_body asks at the level of GS_LOOP:
   GS_LOOP = [GS; ST_LOOP; ...], ST_LOOP used and repeatable as many times as there are sets, each ST not
   mistaken by the walker for a node it tries first (rival_free, from the node of the segment before it), and
   the same for GE. *)
From Coq Require Import String Lia.
From PX.Lib Require Import Base PyStr PyInt Regex Xml.
From PX.Model Require Import Path Segment Syntax MapLoad MapTree Element Counter Walker.
From PX.Spec Require Import C07_walker_wf C02_doc_spec C02_whole_spec.
From PX.Proofs Require Import C07_walker_lemmas C02_doc_counter C02_doc.

Section Sets.
Variables (m : xmap) (d : delims) (gsl : nref).
Notation stl := (gsl ++ [1%nat]).

(* each ST is searched from the node of the segment before it *)
Fixpoint st_chain (p : nref) (sets : list (list item)) : Prop :=
  match sets with
  | [] => True
  | U :: rest =>
      match U with
      | (t, sg) :: _ => rival_free m d p gsl 1 sg = true /\ st_chain (last_ref U p) rest
      | [] => False
      end
  end.

Variables (s_gs : segm) (id ty nm u : option str) (q : Z) (rep : option str) (pm : list (Z * list node)) (rest_kids : list node) (mx : Z).
Notation nST := (NLoop id ty nm u q rep pm).
Hypothesis Kids : children_of m gsl = NSeg s_gs :: nST :: rest_kids.
Hypothesis Hgsl : gsl <> [].
Hypothesis SF : seg_first nST = true.
Hypothesis Used : used u = true.
Hypothesis Rep : loop_max_repeat rep = Ok mx.
Hypothesis Pos : (pos_at m (gsl ++ [0%nat]) <= pos_at m stl)%Z.

Lemma sets_body tail : forall sets p i c,
  sets <> [] -> i <= 1 -> (next_count i 1 c + Z.of_nat (length sets) - 1 <= mx)%Z ->
  Forall (fun U => conf_inst m d stl U) sets -> st_chain p sets ->
  (forall c', conf_body m d gsl (last_ref (concat sets) p) 1 c' tail) ->
  conf_body m d gsl p i c (concat sets ++ tail).
Proof.
  induction sets as [|U sets IH]; intros p i c Ne Hi Hc Fa Ch Tl; [congruence|].
  inversion Fa as [|? ? CU Fa']; subst.
  destruct U as [|[t sg] U']; [destruct Ch|]. destruct Ch as [RF Ch].
  cbn [concat]. rewrite <- app_assoc.
  assert (Hpos : (pos_at m (gsl ++ [i]) <= pos_at m stl)%Z).
  { destruct i as [|[|i]]; [exact Pos | lia | lia]. }
  apply (CB_loop m d gsl p i c 1 nST t sg U' (concat sets ++ tail)).
  - exact Hi.
  - rewrite Kids. reflexivity.
  - reflexivity.
  - exact Hpos.
  - intros k n K1 K2. lia.
  - rewrite SF. split; [exact Used|]. exists mx. split; [exact Rep|]. cbn [length] in Hc. lia.
  - exact CU.
  - exact RF.
  - rewrite last_ref_cons in *. cbn [fst] in *. destruct sets as [|U2 sets'].
    + cbn [concat app]. cbn [concat] in Tl. rewrite app_nil_r, last_ref_cons in Tl. apply Tl.
    + apply IH.
      * discriminate.
      * lia.
      * cbn [length] in *. unfold next_count at 1. rewrite Nat.eqb_refl. lia.
      * exact Fa'.
      * exact Ch.
      * intros c'. specialize (Tl c'). cbn [concat] in Tl. rewrite last_ref_app2, last_ref_cons in Tl. exact Tl.
Qed.

(* THE LEMMA: GS, the sets, GE *)
Theorem group_of_sets gs sets jge sn_ge mxg ge :
  seg_is_match d (m_dataele m) s_gs gs = Ok true ->
  sets <> [] -> (Z.of_nat (length sets) <= mx)%Z ->
  Forall (fun U => conf_inst m d stl U) sets ->
  st_chain (gsl ++ [0]) sets ->
  (* GE *)
  1 < jge -> nth_error (children_of m gsl) jge = Some (NSeg sn_ge) ->
  (pos_at m stl <= pos_at m (gsl ++ [jge]))%Z ->
  between_skippable m gsl 1 jge -> rest_skippable m gsl jge ->
  used (s_usage sn_ge) = true -> seg_max_repeat sn_ge = Ok mxg -> (1 <= mxg)%Z ->
  seg_is_match d (m_dataele m) sn_ge ge = Ok true ->
  rival_free m d (last_ref (concat sets) (gsl ++ [0])) gsl jge ge = true ->
  conf_inst m d gsl ((gsl ++ [0], gs) :: concat sets ++ [(gsl ++ [jge], ge)]).
Proof.
  intros Mgs Ne Len Fa Ch Jge Hge Pge BS RS Uge Mge Lge Mtge RFge.
  apply (CI_seg m d gsl s_gs (nST :: rest_kids) gs); [exact Hgsl | exact Kids | exact Mgs|].
  apply (sets_body [(gsl ++ [jge], ge)] sets (gsl ++ [0]) 0 1 Ne); [lia | | exact Fa | exact Ch |].
  - unfold next_count. cbn [Nat.eqb]. lia.
  - intros c'.
    apply (CB_seg m d gsl _ 1 c' jge sn_ge mxg ge []); try assumption; try lia.
    + intros nL HL W. exfalso. pose proof (children_of_node m gsl nL HL) as E. rewrite Kids in E.
      unfold wrapper in W. rewrite <- E in W. discriminate.
    + unfold next_count. replace (Nat.eqb jge 1) with false by (symmetry; apply Nat.eqb_neq; lia). exact Lge.
    + apply CB_end. exact RS.
Qed.

End Sets.

Print Assumptions group_of_sets.
