(* C10_place_del.v — property C10, delete laws: delete() of a node x and delete_segment remove
   exactly x (and its subtree) from iterate_segments and from every select / count / exists / first
   that completes, leaving the other results in their order; nothing else in the heap changes.
   Spec: Spec/C10_place_spec.v. *)
From Coq Require Import String Sorted.
From PX.Lib Require Import Base PyStr.
From PX.Model Require Import Path Segment MapLoad MapTree Walker Context.
From PX.Spec Require Import C10_spec C10_place_spec.
From PX.Proofs Require Import Ctx_basics C10_tree C10_place C10_place_iter.

(* ================================================================== *)
(* the subtree of a node, as a decidable set                           *)

Lemma reach_left_inv h x o :
  reachable_children h x o ->
  o = x \/ exists ox k, nth_error h x = Some ox /\ In k (o_children ox) /\ reachable_children h k o.
Proof.
  induction 1 as [|y k obj R IH E I]; [left; reflexivity|]. right. destruct IH as [->|(ox & k0 & Ex & Ik & Rk)].
  - exists obj, k. split; [exact E|]. split; [exact I|apply rc_refl].
  - exists ox, k0. split; [exact Ex|]. split; [exact Ik|]. eapply rc_step; eauto.
Qed.

Lemma sub_ids_reach h : forall f x o, In o (sub_ids f h x) -> reachable_children h x o.
Proof.
  induction f as [|f IH]; intros x o I; [destruct I|]. cbn [sub_ids] in I. destruct I as [<-|I]; [apply rc_refl|].
  destruct (nth_error h x) as [ox|] eqn:Ex; [|destruct I]. apply in_flat_map in I. destruct I as (k & Ik & I).
  eapply reach_trans; [eapply reach_child; eauto|apply IH, I].
Qed.

Lemma reach_sub_ids h d x : depth_le h d x -> forall f o, d <= f -> reachable_children h x o -> In o (sub_ids f h x).
Proof.
  induction 1 as [d x ox Ex _ IH]. intros [|f] o L R; [lia|]. cbn [sub_ids]. rewrite Ex.
  apply reach_left_inv in R. destruct R as [->|(ox' & k & Ex' & Ik & Rk)]; [left; reflexivity|]. right.
  rewrite Ex in Ex'. injection Ex' as <-. apply in_flat_map. exists k. split; [exact Ik|]. apply IH; [exact Ik|lia|exact Rk].
Qed.

Theorem in_subtree_iff h x o : forest h -> x < length h -> (in_subtree h x o = true <-> reachable_children h x o).
Proof.
  intros F L. unfold in_subtree, subtree. rewrite existsb_exists. split.
  - intros (y & I & E). apply Nat.eqb_eq in E. subst y. eapply sub_ids_reach, I.
  - intros R. exists o. split; [|apply Nat.eqb_refl]. eapply reach_sub_ids; [apply forest_depth; eassumption| |exact R]. lia.
Qed.

(* ================================================================== *)
(* objects up to their children list                                   *)

Definition nokids (x : dobj) : dobj := upd_children x [].

Lemma nokids_fields a b :
  nokids b = nokids a ->
  o_class b = o_class a /\ o_live b = o_live a /\ o_map b = o_map a /\ o_seg b = o_seg a /\
  o_parent b = o_parent a /\ o_seg_count b = o_seg_count a /\ o_cur_line b = o_cur_line a.
Proof. unfold nokids, upd_children. intros H. injection H. intros. repeat split; assumption. Qed.

(* ================================================================== *)
(* _select, one level at a time                                        *)

(* 216-227: the children matching the segment part of the path *)
Definition sel_seg (xp : xpath) (cx : oid * dobj) : gtrace oid :=
  let (c, cx) := cx in
  if is_seg_typed cx then
    match (match o_map cx, o_seg cx with
           | Some mn, Some sd => mn_is_match_qual mn (sd_x sd) (seg_id xp) (id_val xp)
           | _, _ => Raise AttributeError
           end) with
    | Raise e => g_fail e
    | Ok true => g_one c
    | Ok false => g_nil
    end
  else
    match obj_id cx with
    | Raise e => g_fail e
    | Ok i => if ostr_eqb i (seg_id xp) then g_one c else g_nil
    end.

(* 228-239: the children matching the first loop of the path, each continued with the rest *)
Definition sel_loop (rec : xpath -> oid -> gtrace oid) (cur : str) (rest : list str) (xp : xpath)
  (cx : oid * dobj) : gtrace oid :=
  let (c, cx) := cx in
  match obj_id cx with
  | Raise e => g_fail e
  | Ok i =>
      if ostr_eqb i (Some cur) then
        match rest, seg_id xp with
        | [], None => g_one c
        | _, _ =>
            match parse_path (format_path (set_loop_list xp (cur :: rest))) with
            | Raise e => g_fail e
            | Ok cp =>
                match o_class cx with
                | CSeg => g_nil
                | CLoop => rec (set_loop_list cp rest) c
                end
            end
        end
      else g_nil
  end.

Lemma loop_select_nil h xp o :
  loop_select h [] xp o =
  g_of_result (do x <- h_get h o; do kids <- live_of h (o_children x); Ok (g_flat (sel_seg xp) kids)).
Proof. reflexivity. Qed.

Lemma loop_select_cons h cur rest xp o :
  loop_select h (cur :: rest) xp o =
  g_of_result (do x <- h_get h o; do kids <- live_of h (o_children x);
               Ok (g_flat (sel_loop (loop_select h rest) cur rest xp) kids)).
Proof. reflexivity. Qed.

Lemma g_of_result_none {A} (r : result (gtrace A)) xs : g_of_result r = (xs, None) -> r = Ok (xs, None).
Proof. destruct r as [t|e]; cbn; [intros ->; reflexivity|discriminate]. Qed.

(* what _select yields below o is reachable from o *)
Lemma loop_select_reach h : forall ll xp o r, In r (fst (loop_select h ll xp o)) -> reachable_children h o r.
Proof.
  induction ll as [|cur rest IH]; intros xp o r I.
  - rewrite loop_select_nil in I. apply g_of_result_in in I. destruct I as (t & Et & I).
    apply bind_ok in Et. destruct Et as (x & Ex & Et). apply bind_ok in Et. destruct Et as (kids & Ek & Et). injection Et as <-.
    apply h_get_some in Ex. apply g_flat_in in I. destruct I as ([c cx] & Hc & I).
    assert (Rc : reachable_children h o c) by (eapply reach_child; [exact Ex|eapply live_of_in; eauto]).
    unfold sel_seg in I. destruct (is_seg_typed cx).
    + destruct (match o_map cx with Some mn => _ | None => _ end) as [[|]|]; cbn in I; try contradiction. destruct I as [<-|[]]. exact Rc.
    + destruct (obj_id cx) as [i|]; cbn in I; [|contradiction]. destruct (ostr_eqb i (seg_id xp)); cbn in I; [|contradiction].
      destruct I as [<-|[]]. exact Rc.
  - rewrite loop_select_cons in I. apply g_of_result_in in I. destruct I as (t & Et & I).
    apply bind_ok in Et. destruct Et as (x & Ex & Et). apply bind_ok in Et. destruct Et as (kids & Ek & Et). injection Et as <-.
    apply h_get_some in Ex. apply g_flat_in in I. destruct I as ([c cx] & Hc & I).
    assert (Rc : reachable_children h o c) by (eapply reach_child; [exact Ex|eapply live_of_in; eauto]).
    unfold sel_loop in I. destruct (obj_id cx) as [i|]; cbn in I; [|contradiction].
    destruct (ostr_eqb i (Some cur)); cbn in I; [|contradiction].
    assert (Deep : In r (fst (match parse_path (format_path (set_loop_list xp (cur :: rest))) with
                              | Ok cp => match o_class cx with CSeg => g_nil | CLoop => loop_select h rest (set_loop_list cp rest) c end
                              | Raise e => g_fail e end)) -> reachable_children h o r).
    { destruct (parse_path _) as [cp|]; cbn; [|contradiction]. destruct (o_class cx); cbn; [contradiction|].
      intros J. eapply reach_trans; [exact Rc|eapply IH, J]. }
    destruct rest as [|r0 rr]; [destruct (seg_id xp)|]; try (apply Deep, I). cbn in I. destruct I as [<-|[]]. exact Rc.
Qed.

(* ================================================================== *)
(* a generic removal: h' is h without the nodes in `gone`              *)

Section Gone.
Variables (h h' : heap) (gone : oid -> bool).

Definition keepk (a : oid * dobj) : bool := negb (gone (fst a)).
Definition Rk (a' a : oid * dobj) : Prop := fst a' = fst a /\ nokids (snd a') = nokids (snd a).

(* a node that is not gone is the same but for its children list, and its live children are the old
   ones that are not gone, in the same order *)
Hypothesis K1 : forall y oy, gone y = false -> nth_error h y = Some oy ->
  exists oy', nth_error h' y = Some oy' /\ nokids oy' = nokids oy /\
    forall kids, live_of h (o_children oy) = Ok kids ->
      exists kids', live_of h' (o_children oy') = Ok kids' /\ Forall2 Rk kids' (filter keepk kids).
(* `gone` is closed under children *)
Hypothesis K2 : forall y oy k, gone y = true -> nth_error h y = Some oy -> In k (o_children oy) -> gone k = true.

Lemma gone_reach y z : gone y = true -> reachable_children h y z -> gone z = true.
Proof. intros G R. induction R as [|x k obj R IH E I]; [exact G|]. eapply K2; eauto. Qed.

Lemma filter_none {B} (P : B -> bool) t : (forall b, In b t -> P b = false) -> filter P t = [].
Proof. induction t as [|b t IH]; intros A; [reflexivity|]. cbn [filter]. rewrite (A b (or_introl eq_refl)). apply IH. intros; apply A; right; assumption. Qed.

Lemma g_flat_gone {B} (P : B -> bool) (F F' : oid * dobj -> gtrace B) : forall kids kids' ys,
  g_flat F kids = (ys, None) -> Forall2 Rk kids' (filter keepk kids) ->
  (forall a a', In a kids -> keepk a = true -> Rk a' a -> forall t, F a = (t, None) -> F' a' = (filter P t, None)) ->
  (forall a, In a kids -> keepk a = false -> forall t b, F a = (t, None) -> In b t -> P b = false) ->
  g_flat F' kids' = (filter P ys, None).
Proof.
  induction kids as [|a r IH]; intros kids' ys E R Keep Drop.
  - cbn in E, R. injection E as <-. inversion R; subst. reflexivity.
  - rewrite g_flat_cons in E. apply g_app_none in E. destruct E as (t & ys2 & Ea & Er & ->). rewrite filter_app.
    cbn [filter] in R. destruct (keepk a) eqn:Ka.
    + inversion R as [|a' a0 r' r0 Ra Rr]; subst. rewrite g_flat_cons.
      rewrite (Keep a a' (or_introl eq_refl) Ka Ra t Ea).
      rewrite (IH r' ys2 Er Rr); [reflexivity| |].
      * intros b b' Hb. apply Keep. right. exact Hb.
      * intros b Hb. apply Drop. right. exact Hb.
    + rewrite (filter_none P t) by (intros b Hb; eapply (Drop a (or_introl eq_refl) Ka t b Ea Hb)).
      apply (IH kids' ys2 Er R).
      * intros b b' Hb. apply Keep. right. exact Hb.
      * intros b Hb. apply Drop. right. exact Hb.
Qed.

(* ---- iterate_segments ---- *)
Lemma iter_gone : forall f q xs, gone q = false -> iter_segments_tr f h q = (xs, None) ->
  iter_segments_tr f h' q = (filter (fun it => negb (gone (it_node it))) xs, None).
Proof.
  induction f as [|f IH]; intros q xs G E; [discriminate|]. rewrite iter_S in E |- *. unfold h_get in *.
  destruct (nth_error h q) as [oy|] eqn:Ey; cbn [bind] in E; [|discriminate].
  destruct (K1 q oy G Ey) as (oy' & Ey' & Nk & Kids). rewrite Ey'. cbn [bind].
  apply nokids_fields in Nk. destruct Nk as (Ec & El & Em & Es & Ep & Esc & Ecl). rewrite Ec.
  destruct (o_class oy).
  - rewrite Em, Es, Esc, Ecl. destruct (o_map oy) as [mn|]; [|discriminate].
    destruct (mn_id mn); cbn [bind] in E |- *; [|discriminate]. destruct (mn_x12path mn); cbn [bind] in E |- *; [|discriminate].
    cbn in E. injection E as <-. cbn. rewrite G. reflexivity.
  - destruct (live_of h (o_children oy)) as [kids|] eqn:Ek; cbn [bind] in E; [|discriminate]. cbn [g_of_result] in E.
    destruct (Kids kids eq_refl) as (kids' & Ek' & R). rewrite Ek'. cbn [bind g_of_result].
    eapply g_flat_gone; [exact E|exact R| |].
    + intros [c cx] [c' cx'] Hin Ka [Rc _] t Et. cbn [fst] in *. subst c'. apply IH; [|exact Et].
      unfold keepk in Ka. cbn [fst] in Ka. destruct (gone c); [discriminate|reflexivity].
    + intros [c cx] Hin Ka t b Et Hb. cbn [fst] in *. unfold keepk in Ka. cbn [fst] in Ka.
      assert (Gc : gone c = true) by (destruct (gone c); [reflexivity|discriminate]).
      assert (Rb : reachable_children h c (it_node b)) by (eapply iter_items_reach; rewrite Et; exact Hb).
      rewrite (gone_reach _ _ Gc Rb). reflexivity.
Qed.

(* ---- _select ---- *)
Lemma sel_seg_in xp c cx b : In b (fst (sel_seg xp (c, cx))) -> b = c.
Proof.
  unfold sel_seg. destruct (is_seg_typed cx).
  - destruct (match o_map cx with Some mn => _ | None => _ end) as [[|]|]; cbn; try contradiction. intros [<-|[]]. reflexivity.
  - destruct (obj_id cx) as [i|]; cbn; [|contradiction]. destruct (ostr_eqb i (seg_id xp)); cbn; [|contradiction].
    intros [<-|[]]. reflexivity.
Qed.

Lemma sel_seg_nokids xp c cx cx' : nokids cx' = nokids cx -> sel_seg xp (c, cx') = sel_seg xp (c, cx).
Proof.
  intros N. apply nokids_fields in N. destruct N as (Ec & El & Em & Es & _). unfold sel_seg, is_seg_typed, obj_id.
  rewrite Ec, El, Em, Es. reflexivity.
Qed.

Lemma sel_loop_reach cur rest xp c cx b :
  In b (fst (sel_loop (loop_select h rest) cur rest xp (c, cx))) -> reachable_children h c b.
Proof.
  unfold sel_loop. destruct (obj_id cx) as [i|]; cbn; [|contradiction].
  destruct (ostr_eqb i (Some cur)); cbn; [|contradiction].
  assert (Deep : In b (fst (match parse_path (format_path (set_loop_list xp (cur :: rest))) with
                            | Ok cp => match o_class cx with CSeg => g_nil | CLoop => loop_select h rest (set_loop_list cp rest) c end
                            | Raise e => g_fail e end)) -> reachable_children h c b).
  { destruct (parse_path _) as [cp|]; cbn; [|contradiction]. destruct (o_class cx); cbn; [contradiction|].
    apply loop_select_reach. }
  destruct rest as [|r0 rr]; [destruct (seg_id xp)|]; try exact Deep. cbn. intros [<-|[]]. apply rc_refl.
Qed.

Lemma filter_keep_all {B} (P : B -> bool) t : (forall b, In b t -> P b = true) -> filter P t = t.
Proof. induction t as [|b t IH]; intros A; [reflexivity|]. cbn [filter]. rewrite (A b (or_introl eq_refl)). f_equal. apply IH. intros; apply A; right; assumption. Qed.

Lemma sel_gone : forall ll xp q xs, gone q = false -> loop_select h ll xp q = (xs, None) ->
  loop_select h' ll xp q = (filter (fun o => negb (gone o)) xs, None).
Proof.
  induction ll as [|cur rest IH]; intros xp q xs G E.
  - rewrite loop_select_nil in E |- *. apply g_of_result_none in E.
    apply bind_ok in E. destruct E as (oy & Ey & E). apply bind_ok in E. destruct E as (kids & Ek & E). injection E as E.
    apply h_get_some in Ey. destruct (K1 q oy G Ey) as (oy' & Ey' & Nk & Kids).
    destruct (Kids kids Ek) as (kids' & Ek' & R). unfold h_get. rewrite Ey'. cbn [bind]. rewrite Ek'. cbn [bind g_of_result].
    eapply g_flat_gone; [exact E|exact R| |].
    + intros [c cx] [c' cx'] Hin Ka [Rc Rn] t Et. cbn [fst snd] in *. subst c'. rewrite (sel_seg_nokids _ _ _ _ Rn), Et.
      f_equal. symmetry. apply filter_keep_all. intros b Hb.
      assert (b = c) by (eapply sel_seg_in; rewrite Et; exact Hb). subst b. exact Ka.
    + intros [c cx] Hin Ka t b Et Hb. assert (b = c) by (eapply sel_seg_in; rewrite Et; exact Hb). subst b. exact Ka.
  - rewrite loop_select_cons in E |- *. apply g_of_result_none in E.
    apply bind_ok in E. destruct E as (oy & Ey & E). apply bind_ok in E. destruct E as (kids & Ek & E). injection E as E.
    apply h_get_some in Ey. destruct (K1 q oy G Ey) as (oy' & Ey' & Nk & Kids).
    destruct (Kids kids Ek) as (kids' & Ek' & R). unfold h_get. rewrite Ey'. cbn [bind]. rewrite Ek'. cbn [bind g_of_result].
    eapply g_flat_gone; [exact E|exact R| |].
    + intros [c cx] [c' cx'] Hin Ka [Rc Rn] t Et. cbn [fst snd] in *. subst c'.
      assert (Gc : gone c = false) by (unfold keepk in Ka; cbn [fst] in Ka; destruct (gone c); [discriminate|reflexivity]).
      apply nokids_fields in Rn. destruct Rn as (Ec & El & Em & _).
      unfold sel_loop in Et |- *. unfold obj_id in *. rewrite Em, Ec.
      destruct (match o_map cx with Some mn => mn_id mn | None => Raise EngineError end) as [i|]; [|discriminate].
      destruct (ostr_eqb i (Some cur)); [|injection Et as <-; reflexivity].
      assert (Deep : forall t0,
                (match parse_path (format_path (set_loop_list xp (cur :: rest))) with
                 | Ok cp => match o_class cx with CSeg => g_nil | CLoop => loop_select h rest (set_loop_list cp rest) c end
                 | Raise e => g_fail e end) = (t0, None) ->
                (match parse_path (format_path (set_loop_list xp (cur :: rest))) with
                 | Ok cp => match o_class cx with CSeg => g_nil | CLoop => loop_select h' rest (set_loop_list cp rest) c end
                 | Raise e => g_fail e end) = (filter (fun o => negb (gone o)) t0, None)).
      { intros t0. destruct (parse_path _) as [cp|]; [|discriminate]. destruct (o_class cx); [intros [= <-]; reflexivity|].
        apply IH, Gc. }
      destruct rest as [|r0 rr]; [destruct (seg_id xp)|]; try (apply Deep, Et).
      injection Et as <-. cbn. rewrite Gc. reflexivity.
    + intros [c cx] Hin Ka t b Et Hb. unfold keepk in Ka. cbn [fst] in Ka.
      assert (Gc : gone c = true) by (destruct (gone c); [reflexivity|discriminate]).
      assert (Rb : reachable_children h c b) by (eapply sel_loop_reach; rewrite Et; exact Hb).
      rewrite (gone_reach _ _ Gc Rb). reflexivity.
Qed.
(* ---- the public queries ---- *)
Hypothesis K0 : length h' = length h.

Lemma get_gone o : gone o = false ->
  (exists oy oy', nth_error h o = Some oy /\ nth_error h' o = Some oy' /\ nokids oy' = nokids oy) \/
  (nth_error h o = None /\ nth_error h' o = None).
Proof.
  intros G. destruct (nth_error h o) as [oy|] eqn:Ey.
  - left. destruct (K1 o oy G Ey) as (oy' & Ey' & Nk & _). eauto.
  - right. split; [reflexivity|]. apply nth_error_None. rewrite K0. apply nth_error_None, Ey.
Qed.

Lemma iterate_gone q xs : gone q = false -> node_iterate_segments h q = (xs, None) ->
  node_iterate_segments h' q = (filter (fun it => negb (gone (it_node it))) xs, None).
Proof. unfold node_iterate_segments. rewrite K0. apply iter_gone. Qed.

Section Start.
Variable q : oid.
Hypothesis Up : forall y, up_chain h q y -> gone y = false.

Lemma start_gone exn0 : forall len s, length s <= len -> forall cur,
  (forall o, cur = RObj o -> up_chain h q o) ->
  start_node_from h' exn0 cur s = start_node_from h exn0 cur s /\
  (forall r rest, start_node_from h exn0 cur s = Ok (r, rest) -> forall o, r = RObj o -> up_chain h q o).
Proof.
  induction len as [|len IH]; intros s Hl cur Hc.
  - destruct s; [|cbn in Hl; lia]. split; [reflexivity|]. cbn. intros r rest [= <- _]. exact Hc.
  - destruct s as [|c1 [|c2 [|c3 s]]]; try (split; [reflexivity|cbn; intros r rest [= <- _]; exact Hc]).
    cbn [start_node_from].
    destruct (Ascii.eqb c1 "." && Ascii.eqb c2 "." && Ascii.eqb c3 "/")%bool;
      [|split; [reflexivity|intros r rest [= <- _]; exact Hc]].
    destruct cur as [|o|ms]; try (split; [reflexivity|discriminate]).
    pose proof (Hc o eq_refl) as Uo. unfold h_get.
    destruct (get_gone o (Up o Uo)) as [(oy & oy' & Ey & Ey' & Nk)|[Ey Ey']]; rewrite Ey, Ey'; cbn [bind];
      [|split; [reflexivity|discriminate]].
    apply nokids_fields in Nk. destruct Nk as (_ & _ & _ & _ & Ep & _). rewrite Ep.
    destruct (o_parent oy) as [|z|ms] eqn:Epar; try (split; [reflexivity|discriminate]).
    + apply IH; [cbn in Hl; lia|]. intros o' [= <-]. eapply up_step; eauto.
    + apply IH; [cbn in Hl; lia|]. intros o' Q. discriminate.
Qed.

Lemma get_start_gone s :
  get_start_node h' q s = get_start_node h q s /\
  (forall r rest, get_start_node h q s = Ok (r, rest) -> forall o, r = RObj o -> up_chain h q o).
Proof.
  unfold get_start_node, h_get.
  destruct (get_gone q (Up q (up_refl h q))) as [(oy & oy' & Ey & Ey' & Nk)|[Ey Ey']]; rewrite Ey, Ey'; cbn [bind];
    [|split; [reflexivity|discriminate]].
  apply nokids_fields in Nk. destruct Nk as (_ & _ & Em & _). rewrite Em.
  apply (start_gone _ (length s) s (le_n _)). intros o [= <-]. apply up_refl.
Qed.

Lemma select_from_gone s xp xs :
  select_from h q s = Ok (xp, (xs, None)) ->
  select_from h' q s = Ok (xp, (filter (fun o => negb (gone o)) xs, None)).
Proof.
  unfold select_from. destruct (get_start_gone s) as [E U]. rewrite E.
  destruct (get_start_node h q s) as [[cur rest]|]; cbn [bind fst snd]; [|discriminate].
  destruct (parse_path rest) as [xp0|]; cbn [bind]; [|discriminate]. intros [= <- Es]. f_equal. f_equal.
  destruct cur as [|o|ms]; try discriminate. cbn [ref_select] in Es |- *. unfold h_get in *.
  pose proof (Up o (U _ _ eq_refl o eq_refl)) as Go.
  destruct (get_gone o Go) as [(oy & oy' & Ey & Ey' & Nk)|[Ey Ey']]; rewrite Ey in Es; rewrite Ey'; [|discriminate].
  apply nokids_fields in Nk. destruct Nk as (Ec & _). rewrite Ec. destruct (o_class oy).
  - injection Es as <-. reflexivity.
  - apply sel_gone; assumption.
Qed.

Lemma select_check_gone xp n : gone n = false -> select_check h' xp n = select_check h xp n.
Proof.
  intros G. unfold select_check, h_get.
  destruct (get_gone n G) as [(oy & oy' & Ey & Ey' & Nk)|[Ey Ey']]; rewrite Ey, Ey'; [|reflexivity]. cbn [bind].
  apply nokids_fields in Nk. destruct Nk as (_ & _ & Em & _ & Ep & _). unfold obj_id. rewrite Em, Ep. reflexivity.
Qed.

(* select: what it yielded, minus the nodes that are gone, in the same order *)
Theorem select_gone s xs :
  g_all (node_select h q s) = Ok xs ->
  g_all (node_select h' q s) = Ok (filter (fun o => negb (gone o)) xs).
Proof.
  intros E. apply select_completes_iff in E. destruct E as (xp & E & Chk). apply select_completes_iff.
  exists xp. split; [apply select_from_gone, E|].
  rewrite Forall_forall in *. intros n Hn. apply filter_In in Hn. destruct Hn as [Hn Gn].
  rewrite select_check_gone; [apply Chk, Hn|]. destruct (gone n); [discriminate|reflexivity].
Qed.

(* exists / count / first follow *)
Corollary queries_gone s xs :
  g_all (node_select h q s) = Ok xs ->
  let xs' := filter (fun o => negb (gone o)) xs in
  node_count h q s = Ok (length xs) /\ node_count h' q s = Ok (length xs') /\
  node_exists h' q s = Ok (negb (length xs' =? 0)) /\ node_first h' q s = Ok (hd_error xs').
Proof.
  intros E xs'. pose proof (select_gone s xs E) as E'. fold xs' in E'.
  destruct (queries_agree _ _ _ _ E) as (_ & C & _). destruct (queries_agree _ _ _ _ E') as (X' & C' & F'). auto.
Qed.
End Start.
End Gone.

(* ================================================================== *)
(* delete()                                                            *)

Lemma node_delete_eq x h :
  node_delete x h = match nth_error h x with
                    | Some ox => (set_nth h x (deleted ox), Ok tt)
                    | None => (h, Raise OtherError)
                    end.
Proof. unfold node_delete. apply h_mod_eq. Qed.

(* what delete() does to the heap: object x becomes its tombstone, nothing else changes *)
Theorem delete_frame x h h' r :
  node_delete x h = (h', r) ->
  (exists ox, nth_error h x = Some ox /\ r = Ok tt /\ h' = set_nth h x (deleted ox) /\
              length h' = length h /\ nth_error h' x = Some (deleted ox) /\
              (forall o, o <> x -> nth_error h' o = nth_error h o)) \/
  (nth_error h x = None /\ r = Raise OtherError /\ h' = h).
Proof.
  rewrite node_delete_eq. destruct (nth_error h x) as [ox|] eqn:Ex; intros [= <- <-]; [left|right; auto].
  exists ox. repeat split; auto using len_set_nth.
  - eapply nth_error_set_nth_same; eauto.
  - intros o N. apply nth_error_set_nth_other, N.
Qed.

(* a second delete() is a no-op: it succeeds and leaves the heap as it is *)
Theorem delete_twice x h h' : node_delete x h = (h', Ok tt) -> node_delete x h' = (h', Ok tt).
Proof.
  intros E. destruct (delete_frame _ _ _ _ E) as [(ox & Ex & _ & -> & _ & Ex' & _)|(_ & Q & _)]; [|discriminate].
  rewrite node_delete_eq, Ex'. f_equal. apply set_nth_id. exact Ex'.
Qed.

Lemma kids_deleted h x ox o :
  nth_error h x = Some ox -> kids_of (set_nth h x (deleted ox)) o = kids_of (set_nth h x (upd_children ox [])) o.
Proof.
  intros E. unfold kids_of. rewrite !nth_error_set_nth. destruct (o =? x); [rewrite E|]; reflexivity.
Qed.

Theorem delete_forest x h h' r : forest h -> node_delete x h = (h', r) -> forest h'.
Proof.
  intros F E. destruct (delete_frame _ _ _ _ E) as [(ox & Ex & _ & -> & _)|(_ & _ & ->)]; [|exact F].
  eapply forest_same_kids; [| |apply (forest_shrink h x ox [] F Ex); [constructor|intros c []]].
  - rewrite !len_set_nth. reflexivity.
  - intros o. apply kids_deleted, Ex.
Qed.

Lemma live_of_delete h x ox cs kids :
  nth_error h x = Some ox -> live_of h cs = Ok kids ->
  live_of (set_nth h x (deleted ox)) cs = Ok (filter (fun a => negb (fst a =? x)) kids).
Proof.
  intros Ex. revert kids. induction cs as [|c r IH]; intros kids E; cbn [live_of] in *.
  - injection E as <-. reflexivity.
  - apply bind_ok in E. destruct E as (cx & Ec & E). apply bind_ok in E. destruct E as (more & Em & E). injection E as <-.
    rewrite (IH _ Em). unfold h_get in *. rewrite nth_error_set_nth. destruct (Nat.eqb_spec c x) as [->|Ne].
    + rewrite Ex in Ec |- *. injection Ec as <-. cbn [bind deleted o_live].
      destruct (o_live ox); cbn [filter fst]; [rewrite Nat.eqb_refl|]; reflexivity.
    + destruct (nth_error h c) as [cx'|]; [|discriminate]. injection Ec as ->. cbn [bind].
      destruct (o_live cx); cbn [filter fst]; [|reflexivity]. apply Nat.eqb_neq in Ne. rewrite Ne. reflexivity.
Qed.

Lemma remove_one_filter (l : list oid) x : NoDup l -> remove_one (Nat.eqb x) l = filter (fun c => negb (c =? x)) l.
Proof.
  induction l as [|c l IH]; intros N; [reflexivity|]. inversion N; subst. cbn [remove_one filter].
  destruct (Nat.eqb_spec x c) as [->|Ne].
  - rewrite Nat.eqb_refl. cbn [negb]. symmetry. apply filter_keep_all. intros b Hb.
    destruct (Nat.eqb_spec b c) as [->|]; [contradiction|reflexivity].
  - destruct (Nat.eqb_spec c x); [congruence|]. cbn [negb]. rewrite IH by assumption. reflexivity.
Qed.

(* the live children of any other node: the same, without x *)
Theorem delete_live_ids h x ox p l :
  forest h -> nth_error h x = Some ox -> p <> x -> live_ids h p = Ok l ->
  live_ids (set_nth h x (deleted ox)) p = Ok (remove_one (Nat.eqb x) l).
Proof.
  intros F Ex Ne L. unfold live_ids, h_get in *. rewrite nth_error_set_nth_other by exact Ne.
  destruct (nth_error h p) as [me|] eqn:Eme; cbn [bind] in *; [|discriminate].
  rewrite live_ids_of_live_of in L |- *. destruct (live_of h (o_children me)) as [kids|] eqn:Ek; cbn [bind] in L; [|discriminate].
  injection L as <-. rewrite (live_of_delete _ _ _ _ _ Ex Ek). cbn [bind]. f_equal.
  rewrite remove_one_filter.
  - clear. induction kids as [|[c cx] kids IH]; [reflexivity|]. cbn [map filter fst]. destruct (negb (c =? x)); cbn [map fst]; rewrite IH; reflexivity.
  - assert (Q : live_ids_of h (o_children me) = Ok (map fst kids)) by (rewrite live_ids_of_live_of, Ek; reflexivity).
    apply live_ids_of_spec in Q. destruct Q as [-> _]. apply NoDup_filter. eapply f_nodup; eauto.
Qed.

Lemma Forall2_same {B} (R : B -> B -> Prop) l : (forall a, R a a) -> Forall2 R l l.
Proof. intros Rf. induction l; constructor; auto. Qed.

(* ---- the generic removal, instantiated ---- *)
Section Delete.
Variables (h : heap) (x : oid) (ox : dobj).
Hypothesis F : forest h.
Hypothesis Ex : nth_error h x = Some ox.
Let h' := set_nth h x (deleted ox).
Let gone := in_subtree h x.

Lemma Lx : x < length h.
Proof. apply nth_error_Some. congruence. Qed.

Lemma gone_iff o : gone o = true <-> reachable_children h x o.
Proof. apply in_subtree_iff; [exact F|exact Lx]. Qed.

Lemma not_gone_ne o : gone o = false -> o <> x.
Proof. intros G ->. assert (gone x = true) by (apply gone_iff, rc_refl). congruence. Qed.

(* among the children of a node that is not gone, only x itself is gone *)
Lemma gone_child y oy c : gone y = false -> nth_error h y = Some oy -> In c (o_children oy) -> gone c = (c =? x).
Proof.
  intros G Ey I. destruct (Nat.eqb_spec c x) as [->|Ne]; [apply gone_iff, rc_refl|].
  destruct (gone c) eqn:Gc; [|reflexivity]. exfalso. apply gone_iff in Gc.
  inversion Gc as [|z k obj R Ez Iz]; subst; [congruence|].
  assert (z = y) by (eapply (f_one_parent h F); eauto). subst z.
  apply gone_iff in R. congruence.
Qed.

Lemma delete_K1 : forall y oy, gone y = false -> nth_error h y = Some oy ->
  exists oy', nth_error h' y = Some oy' /\ nokids oy' = nokids oy /\
    forall kids, live_of h (o_children oy) = Ok kids ->
      exists kids', live_of h' (o_children oy') = Ok kids' /\ Forall2 (Rk) kids' (filter (keepk gone) kids).
Proof.
  intros y oy G Ey. exists oy. split; [unfold h'; rewrite nth_error_set_nth_other by (apply not_gone_ne, G); exact Ey|].
  split; [reflexivity|]. intros kids Ek. eexists. split; [apply (live_of_delete _ _ _ _ _ Ex Ek)|].
  rewrite (filter_ext_in (fun a => negb (fst a =? x)) (keepk gone)).
  - apply Forall2_same. intros a. split; reflexivity.
  - intros [c cx] Hin. unfold keepk. cbn [fst]. f_equal. symmetry. eapply gone_child; eauto. eapply live_of_in; eauto.
Qed.

Lemma delete_K2 : forall y oy k, gone y = true -> nth_error h y = Some oy -> In k (o_children oy) -> gone k = true.
Proof. intros y oy k G Ey I. apply gone_iff. apply gone_iff in G. eapply rc_step; eauto. Qed.

Lemma delete_K0 : length h' = length h.
Proof. apply len_set_nth. Qed.

(* ITERATION after delete(), from any node q outside the subtree of x: when it completed before, it
   completes now, with the items of x's subtree removed and the others in their order *)
Theorem delete_iterate q xs :
  in_subtree h x q = false -> node_iterate_segments h q = (xs, None) ->
  node_iterate_segments h' q = (filter (fun it => negb (in_subtree h x (it_node it))) xs, None).
Proof. apply (iterate_gone h h' gone delete_K1 delete_K2 delete_K0). Qed.

(* SELECT after delete(), from any node q such that no node met going up from q through parent
   pointers lies in the subtree of x, for any path: when select completed before, it completes now and
   yields the same nodes minus those in the subtree of x, in the same order; count, exists, first follow *)
Theorem delete_select q s xs :
  (forall y, up_chain h q y -> in_subtree h x y = false) ->
  g_all (node_select h q s) = Ok xs ->
  g_all (node_select h' q s) = Ok (filter (fun o => negb (in_subtree h x o)) xs).
Proof. intros Up. apply (select_gone h h' gone delete_K1 delete_K2 delete_K0 q Up). Qed.

Theorem delete_queries q s xs :
  (forall y, up_chain h q y -> in_subtree h x y = false) ->
  g_all (node_select h q s) = Ok xs ->
  let xs' := filter (fun o => negb (in_subtree h x o)) xs in
  node_count h q s = Ok (length xs) /\ node_count h' q s = Ok (length xs') /\
  node_exists h' q s = Ok (negb (length xs' =? 0)) /\ node_first h' q s = Ok (hd_error xs').
Proof. intros Up. apply (queries_gone h h' gone delete_K1 delete_K2 delete_K0 q Up). Qed.
End Delete.




(* ---- at the parent: the splice form ---- *)
Lemma reach_deleted h x ox c z :
  nth_error h x = Some ox -> reachable_children (set_nth h x (deleted ox)) c z -> reachable_children h c z.
Proof.
  intros Ex R. induction R as [|y k obj R IH E I]; [apply rc_refl|].
  rewrite nth_error_set_nth in E. destruct (Nat.eqb_spec y x) as [->|Ne].
  - rewrite Ex in E. injection E as <-. destruct I.
  - eapply rc_step; eauto.
Qed.

Lemma remove_one_mid (a b : list oid) x : ~ In x a -> remove_one (Nat.eqb x) (a ++ x :: b) = a ++ b.
Proof.
  induction a as [|c a IH]; intros N; cbn [app remove_one]; [rewrite Nat.eqb_refl; reflexivity|].
  destruct (Nat.eqb_spec x c) as [->|]; [exfalso; apply N; left; reflexivity|]. rewrite IH; [reflexivity|].
  intros I. apply N. right. exact I.
Qed.

(* ITERATION of the parent p of x after x.delete(): the old iteration is that of the live children
   before x, of x, and of those after x; the new one is the same without the middle part *)
Theorem delete_iterate_parent h x ox p me a b :
  forest h -> nth_error h x = Some ox -> nth_error h p = Some me -> o_class me = CLoop ->
  live_ids h p = Ok (a ++ x :: b) ->
  let h' := set_nth h x (deleted ox) in
  let G := g_flat (node_iterate_segments h) in
  live_ids h' p = Ok (a ++ b) /\
  node_iterate_segments h p = g_app (G a) (g_app (node_iterate_segments h x) (G b)) /\
  node_iterate_segments h' p = g_app (G a) (G b).
Proof.
  intros F Ex Eme C L h' G.
  assert (F' : forest h') by (eapply (delete_forest x h); [exact F|rewrite node_delete_eq, Ex; reflexivity]).
  destruct (live_ids_inv _ _ _ L) as (me0 & Eme0 & Fl). rewrite Eme in Eme0. injection Eme0 as <-.
  assert (Nd : NoDup (a ++ x :: b)) by (rewrite Fl; apply NoDup_filter; exact (f_nodup h F p me Eme)).
  assert (Ch : forall c, In c (a ++ x :: b) -> In c (o_children me)) by (intros c Hc; rewrite Fl in Hc; apply filter_In in Hc; apply Hc).
  assert (Ix : In x (o_children me)) by (apply Ch, in_or_app; right; left; reflexivity).
  assert (Npx : p <> x) by (intros ->; exact (forest_not_own_child h x me F Eme Ix)).
  assert (Nxa : ~ In x a) by (apply NoDup_remove_2 in Nd; intros I; apply Nd, in_or_app; auto).
  assert (L' : live_ids h' p = Ok (a ++ b)).
  { unfold h'. rewrite (delete_live_ids _ _ _ _ _ F Ex Npx L). f_equal. apply remove_one_mid, Nxa. }
  assert (Eme' : nth_error h' p = Some me) by (unfold h'; rewrite nth_error_set_nth_other by exact Npx; exact Eme).
  assert (Same : forall c, In c (a ++ b) -> same_under h' h c).
  { intros c Hc. apply same_under_eq. intros z R. unfold h'. symmetry. apply nth_error_set_nth_other. intros ->.
    apply (reach_deleted _ _ _ _ _ Ex) in R.
    assert (Hc' : In c (a ++ x :: b)) by (apply in_app_or in Hc; apply in_or_app; destruct Hc; [left|right; right]; assumption).
    eapply (siblings_disjoint h p me c x x F Eme); [apply Ch, Hc'|exact Ix| |exact R|apply rc_refl].
    intros ->. apply NoDup_remove_2 in Nd. contradiction. }
  destruct (iter_after_place h' h p me me a b x F' F Eme' C L' Eme C L Same) as [I1 I2]. cbn zeta in I1, I2.
  assert (Q : forall l, incl l (a ++ b) -> g_flat (node_iterate_segments h') l = G l).
  { intros l Hl. apply g_flat_ext. intros c Hc. symmetry.
    apply (iter_same_subtree h' h c F' F); [|apply Same, Hl, Hc].
    unfold h'. rewrite len_set_nth. eapply live_ids_lt; [exact F|exact L|].
    apply Hl in Hc. apply in_app_or in Hc. apply in_or_app. destruct Hc; [left|right; right]; assumption. }
  rewrite !Q in I1, I2 by (intros c Hc; apply in_or_app; auto). auto.
Qed.

(* the hypothesis on up_chain, discharged where parent pointers agree with the children lists *)
Lemma up_chain_reach h q y : parents_agree h -> up_chain h q y -> reachable_children h y q.
Proof.
  intros P U. induction U as [|y oy z U IH Ey Ep]; [apply rc_refl|].
  destruct (P _ _ _ Ey Ep) as (oz & Ez & Iz). eapply reach_trans; [eapply reach_child; eauto|exact IH].
Qed.

Lemma up_chain_outside h x q :
  forest h -> x < length h -> parents_agree h -> in_subtree h x q = false ->
  forall y, up_chain h q y -> in_subtree h x y = false.
Proof.
  intros F L P G y U. destruct (in_subtree h x y) eqn:Gy; [|reflexivity]. exfalso.
  apply in_subtree_iff in Gy; [|assumption|assumption].
  assert (in_subtree h x q = true) by (apply in_subtree_iff; [assumption|assumption|]; eapply reach_trans; [exact Gy|eapply up_chain_reach; eauto]).
  congruence.
Qed.

(* the parent of x (indeed every node that lists x below it) is outside x's subtree *)
Lemma parent_outside h x p me :
  forest h -> nth_error h p = Some me -> In x (o_children me) -> in_subtree h x p = false.
Proof.
  intros F Eme I. destruct (in_subtree h x p) eqn:G; [|reflexivity]. exfalso.
  apply in_subtree_iff in G; [eapply forest_no_cycle; eauto|exact F|]. eapply forest_heap_wf; eauto.
Qed.

(* ================================================================== *)
(* detaching: the children list of p is replaced by its live entries that are not gone *)

Lemma live_of_pairs h cs kids :
  live_of h cs = Ok kids -> Forall (fun a => nth_error h (fst a) = Some (snd a) /\ o_live (snd a) = true) kids.
Proof.
  revert kids. induction cs as [|c r IH]; intros kids E; cbn [live_of] in E.
  - injection E as <-. constructor.
  - apply bind_ok in E. destruct E as (cx & Ec & E). apply bind_ok in E. destruct E as (more & Em & E). injection E as <-.
    apply h_get_some in Ec. destruct (o_live cx) eqn:Lc; [constructor; [split; assumption|]|]; apply IH, Em.
Qed.

Lemma live_of_build h l :
  Forall (fun a => nth_error h (fst a) = Some (snd a) /\ o_live (snd a) = true) l -> live_of h (map fst l) = Ok l.
Proof.
  induction 1 as [|[c cx] l [E L] _ IH]; [reflexivity|]. cbn [map fst snd live_of] in *. unfold h_get. rewrite E. cbn [bind].
  rewrite IH. cbn [bind]. rewrite L. reflexivity.
Qed.

Lemma live_of_nokids h h' cs kids :
  (forall k, In k cs -> option_map nokids (nth_error h' k) = option_map nokids (nth_error h k)) ->
  live_of h cs = Ok kids -> exists kids', live_of h' cs = Ok kids' /\ Forall2 Rk kids' kids.
Proof.
  revert kids. induction cs as [|c r IH]; intros kids A E; cbn [live_of] in *.
  - injection E as <-. exists []. split; [reflexivity|constructor].
  - apply bind_ok in E. destruct E as (cx & Ec & E). apply bind_ok in E. destruct E as (more & Em & E). injection E as <-.
    destruct (IH more) as (more' & Em' & R); [intros; apply A; right; assumption|exact Em|].
    apply h_get_some in Ec. pose proof (A c (or_introl eq_refl)) as Q. rewrite Ec in Q. unfold h_get.
    destruct (nth_error h' c) as [cx'|]; cbn in Q; [|discriminate]. assert (N : nokids cx' = nokids cx) by congruence.
    cbn [bind]. rewrite Em'. cbn [bind]. pose proof (nokids_fields _ _ N) as (_ & El & _). rewrite El.
    destruct (o_live cx); eexists; (split; [reflexivity|]); [constructor; [split; [reflexivity|exact N]|exact R]|exact R].
Qed.

Section Detach.
Variables (h : heap) (p : oid) (me : dobj) (ids : list oid) (gone : oid -> bool).
Hypothesis F : forest h.
Hypothesis Eme : nth_error h p = Some me.
Hypothesis Lids : live_ids h p = Ok ids.
Hypothesis Gp : gone p = false.
Hypothesis K2 : forall y oy k, gone y = true -> nth_error h y = Some oy -> In k (o_children oy) -> gone k = true.
(* the gone nodes hang below p *)
Hypothesis Gunder : forall y oy k, gone y = false -> nth_error h y = Some oy -> In k (o_children oy) -> gone k = true -> y = p.
Let ids' := filter (fun k => negb (gone k)) ids.
Let h' := set_nth h p (upd_children me ids').

Lemma detach_other o : o <> p -> nth_error h' o = nth_error h o.
Proof. intros N. unfold h'. apply nth_error_set_nth_other, N. Qed.

Lemma detach_nokids k : option_map nokids (nth_error h' k) = option_map nokids (nth_error h k).
Proof.
  destruct (Nat.eq_dec k p) as [->|N]; [|rewrite detach_other by exact N; reflexivity].
  unfold h'. rewrite (nth_error_set_nth_same _ _ _ _ Eme), Eme. reflexivity.
Qed.

Lemma detach_K1 : forall y oy, gone y = false -> nth_error h y = Some oy ->
  exists oy', nth_error h' y = Some oy' /\ nokids oy' = nokids oy /\
    forall kids, live_of h (o_children oy) = Ok kids ->
      exists kids', live_of h' (o_children oy') = Ok kids' /\ Forall2 Rk kids' (filter (keepk gone) kids).
Proof.
  intros y oy G Ey. destruct (Nat.eq_dec y p) as [->|N].
  - rewrite Eme in Ey. injection Ey as <-. exists (upd_children me ids').
    split; [apply (nth_error_set_nth_same _ _ _ _ Eme)|]. split; [reflexivity|]. intros kids Ek. cbn [o_children upd_children].
    exists (filter (keepk gone) kids). split; [|apply Forall2_same; intros a; split; reflexivity].
    assert (M : map fst kids = ids).
    { unfold live_ids, h_get in Lids. rewrite Eme in Lids. cbn [bind] in Lids. rewrite live_ids_of_live_of, Ek in Lids. cbn [bind] in Lids. congruence. }
    assert (M' : map fst (filter (keepk gone) kids) = ids').
    { unfold ids'. rewrite <- M. clear. induction kids as [|[c cx] kids IH]; [reflexivity|]. cbn [map filter fst]. unfold keepk at 1. cbn [fst].
      destruct (negb (gone c)); cbn [map fst]; rewrite IH; reflexivity. }
    rewrite <- M'. apply live_of_build. pose proof (live_of_pairs _ _ _ Ek) as Pk. rewrite Forall_forall in *. intros a Ha.
    apply filter_In in Ha. destruct Ha as [Ha _]. destruct (Pk a Ha) as [Ea La]. split; [|exact La].
    rewrite detach_other; [exact Ea|]. intros Q. apply (forest_not_own_child h p me F Eme). rewrite <- Q.
    eapply live_of_in with (cx := snd a); [exact Ek|]. destruct a; exact Ha.
  - exists oy. split; [rewrite detach_other by exact N; exact Ey|]. split; [reflexivity|]. intros kids Ek.
    destruct (live_of_nokids h h' _ _ (fun k _ => detach_nokids k) Ek) as (kids' & Ek' & R). exists kids'. split; [exact Ek'|].
    rewrite (filter_keep_all (keepk gone) kids); [exact R|]. intros [c cx] Hc. unfold keepk. cbn [fst].
    destruct (gone c) eqn:Gc; [|reflexivity]. exfalso. apply N.
    apply (Gunder y oy c G Ey); [eapply (live_of_in h); [exact Ek|exact Hc]|exact Gc].
Qed.

Lemma detach_K0 : length h' = length h.
Proof. apply len_set_nth. Qed.

Theorem detach_iterate q xs : gone q = false -> node_iterate_segments h q = (xs, None) ->
  node_iterate_segments h' q = (filter (fun it => negb (gone (it_node it))) xs, None).
Proof. apply (iterate_gone h h' gone detach_K1 K2 detach_K0). Qed.

Theorem detach_select q s xs :
  (forall y, up_chain h q y -> gone y = false) -> g_all (node_select h q s) = Ok xs ->
  g_all (node_select h' q s) = Ok (filter (fun o => negb (gone o)) xs).
Proof. intros Up. apply (select_gone h h' gone detach_K1 K2 detach_K0 q Up). Qed.

Theorem detach_queries q s xs :
  (forall y, up_chain h q y -> gone y = false) -> g_all (node_select h q s) = Ok xs ->
  let xs' := filter (fun o => negb (gone o)) xs in
  node_count h q s = Ok (length xs) /\ node_count h' q s = Ok (length xs') /\
  node_exists h' q s = Ok (negb (length xs' =? 0)) /\ node_first h' q s = Ok (hd_error xs').
Proof. intros Up. apply (queries_gone h h' gone detach_K1 K2 detach_K0 q Up). Qed.
End Detach.

(* ================================================================== *)
(* delete_segment                                                      *)

(* `self.children[i].type == 'seg' and self.children[i].seg_data == seg_data` *)
Definition seg_matches (h : heap) (x : xsg) (c : oid) : bool :=
  match nth_error h c with
  | Some cx => is_seg_typed cx && match o_seg cx with
                                  | Some sd => seg_data_eqb (xg_s (sd_x sd)) (xg_s x)
                                  | None => false
                                  end
  | None => false
  end.

Definition find_go (h : heap) (x : xsg) : nat -> list oid -> result (option nat) :=
  fix go (i : nat) (cs : list oid) : result (option nat) :=
    match cs with
    | [] => Ok None
    | c :: r =>
        do cx <- h_get h c;
        if is_seg_typed cx && match o_seg cx with
                              | Some sd => seg_data_eqb (xg_s (sd_x sd)) (xg_s x)
                              | None => false
                              end
        then Ok (Some i) else go (S i) r
    end.

Lemma find_go_spec h x : forall cs i r, find_go h x i cs = Ok r ->
  match r with
  | None => Forall (fun c => seg_matches h x c = false) cs
  | Some j => exists bf c af, cs = bf ++ c :: af /\ j = i + length bf /\
                              Forall (fun c => seg_matches h x c = false) bf /\ seg_matches h x c = true
  end.
Proof.
  induction cs as [|c cs IH]; intros i r E.
  - cbn in E. injection E as <-. constructor.
  - cbn [find_go] in E. fold (find_go h x) in E. apply bind_ok in E. destruct E as (cx & Ec & E). apply h_get_some in Ec.
    destruct (is_seg_typed cx && _) eqn:M.
    + injection E as <-. exists [], c, cs. cbn [app length]. repeat split; [lia|constructor|]. unfold seg_matches. rewrite Ec. exact M.
    + apply IH in E. assert (Mc : seg_matches h x c = false) by (unfold seg_matches; rewrite Ec; exact M).
      destruct r as [j|].
      * destruct E as (bf & c1 & af & -> & -> & Fb & Mc1). exists (c :: bf), c1, af. cbn [app length]. repeat split; auto. lia.
      * constructor; assumption.
Qed.

Lemma remove_at_mid {B} (a : list B) c b : remove_at (a ++ c :: b) (length a) = a ++ b.
Proof. induction a as [|y a IH]; [reflexivity|]. cbn [app length remove_at]. rewrite IH. reflexivity. Qed.

Lemma seg_matches_nokids h h' x c :
  option_map nokids (nth_error h' c) = option_map nokids (nth_error h c) -> seg_matches h' x c = seg_matches h x c.
Proof.
  unfold seg_matches. destruct (nth_error h' c) as [a|], (nth_error h c) as [b|]; cbn; try discriminate; [|reflexivity].
  intros Q. assert (N : nokids a = nokids b) by congruence. apply nokids_fields in N. destruct N as (Ec & El & _ & Es & _).
  unfold is_seg_typed. rewrite Ec, El, Es. reflexivity.
Qed.

(* WHAT delete_segment DOES.  With the map node of p having a child segment matching the argument:
   the children list of p loses its deleted entries; then the FIRST live child other than the very
   first one that is a segment node whose data equals the argument (Segment.__eq__) is taken out of the
   list -- only that one, and never the first child.  The node object itself is not touched (it stays
   live and keeps its parent pointer).  Without such a map node nothing happens at all. *)
Theorem delete_segment_spec h h' p a r :
  delete_segment p a h = (h', Ok r) ->
  exists me mn x,
    nth_error h p = Some me /\ o_class me = CLoop /\ o_map me = Some mn /\ get_segment h p a = Ok x /\
    ((mn_child_node false mn x = Ok None /\ r = false /\ h' = h) \/
     (exists sm ids, mn_child_node false mn x = Ok (Some sm) /\ live_ids h p = Ok ids /\
        ((r = false /\ Forall (fun c => seg_matches h x c = false) (tl ids) /\
          h' = set_nth h p (upd_children me ids)) \/
         (r = true /\ exists c0 bf c af,
            ids = c0 :: bf ++ c :: af /\ Forall (fun c => seg_matches h x c = false) bf /\
            seg_matches h x c = true /\ h' = set_nth h p (upd_children me (c0 :: bf ++ af)))))).
Proof.
  intros E. unfold delete_segment in E.
  apply hb_ok in E. destruct E as (? & me & LS & E). apply loop_self_ok in LS. destruct LS as (-> & Eme & Cme).
  apply hb_ok in E. destruct E as (? & x & R & E). rewrite h_read_eq in R. injection R as <- Ex.
  destruct (o_map me) as [mn|] eqn:Emn; [|rewrite h_raise_eq in E; discriminate].
  apply hb_ok in E. destruct E as (? & sn & Lf & E). rewrite h_lift_eq in Lf. injection Lf as <- Esn.
  exists me, mn, x. repeat (split; [first [assumption|reflexivity]|]).
  destruct sn as [sm|]; [|rewrite h_ret_eq in E; injection E as <- <-; left; auto].
  right. apply hb_ok in E. destruct E as (h1 & [] & Cl & E). rewrite cleanup_eq, Eme in Cl.
  destruct (live_of h (o_children me)) as [kids|] eqn:Ek; [|discriminate]. injection Cl as <-.
  set (ids := map fst kids) in *.
  assert (Li : live_ids h p = Ok ids).
  { unfold live_ids, h_get. rewrite Eme. cbn [bind]. rewrite live_ids_of_live_of, Ek. reflexivity. }
  apply hb_ok in E. destruct E as (? & me' & O & E). rewrite h_obj_eq in O. injection O as <- O. apply h_get_some in O.
  rewrite (nth_error_set_nth_same _ _ _ _ Eme) in O. injection O as <-.
  apply hb_ok in E. destruct E as (? & hit & Rd & E). rewrite h_read_eq in Rd. injection Rd as <- Hit.
  cbn [o_children upd_children] in Hit, E.
  change (find_go (set_nth h p (upd_children me ids)) x 1 (tl ids) = Ok hit) in Hit.
  apply find_go_spec in Hit.
  assert (SM : forall c, seg_matches (set_nth h p (upd_children me ids)) x c = seg_matches h x c).
  { intros c. apply seg_matches_nokids. rewrite nth_error_set_nth. destruct (Nat.eqb_spec c p) as [->|]; [|reflexivity].
    rewrite Eme. reflexivity. }
  exists sm, ids. split; [exact Esn|]. split; [exact Li|]. destruct hit as [j|].
  - destruct Hit as (bf & c & af & Etl & -> & Fb & Mc). right.
    apply hb_ok in E. destruct E as (? & [] & Pt & E). rewrite h_put_eq in Pt. injection Pt as <-. rewrite h_ret_eq in E. injection E as <- <-.
    split; [reflexivity|]. destruct ids as [|c0 rest] eqn:Eids; [destruct bf; discriminate|]. cbn [tl] in Etl. subst rest.
    exists c0, bf, c, af. split; [reflexivity|]. split; [eapply Forall_impl; [|exact Fb]; intros k Hk; rewrite <- SM; exact Hk|].
    split; [rewrite <- SM; exact Mc|]. rewrite set_nth_twice. f_equal.
    assert (Q : upd_children (upd_children me (c0 :: bf ++ c :: af)) = upd_children me) by reflexivity. rewrite Q. f_equal.
    change (1 + length bf) with (S (length bf)). cbn [remove_at]. rewrite remove_at_mid. reflexivity.
  - left. rewrite h_ret_eq in E. injection E as <- <-. split; [reflexivity|]. split; [|reflexivity].
    eapply Forall_impl; [|exact Hit]. intros k Hk. rewrite <- SM. exact Hk.
Qed.

Lemma filter_true {B} (l : list B) : filter (fun _ => true) l = l.
Proof. induction l; cbn; congruence. Qed.

Lemma live_ids_children h p me ids : nth_error h p = Some me -> live_ids h p = Ok ids -> incl ids (o_children me).
Proof.
  intros Eme L. apply live_ids_inv in L. destruct L as (me' & Eme' & ->). rewrite Eme in Eme'. injection Eme' as <-.
  intros c Hc. apply filter_In in Hc. apply Hc.
Qed.

Lemma live_ids_nodup h p ids : forest h -> live_ids h p = Ok ids -> NoDup ids.
Proof.
  intros F L. apply live_ids_inv in L. destruct L as (me & Eme & ->). apply NoDup_filter. exact (f_nodup h F p me Eme).
Qed.

(* the forest invariant is kept *)
Theorem delete_segment_forest h h' p a r : forest h -> delete_segment p a h = (h', Ok r) -> forest h'.
Proof.
  intros F E. destruct (delete_segment_spec _ _ _ _ _ E) as (me & mn & x & Eme & _ & _ & _ & [(_ & _ & ->)|(sm & ids & _ & Li & Cases)]); [exact F|].
  pose proof (live_ids_nodup _ _ _ F Li) as Nd. pose proof (live_ids_children _ _ _ _ Eme Li) as Inc.
  destruct Cases as [(_ & _ & ->)|(_ & c0 & bf & c & af & -> & _ & _ & ->)]; apply forest_shrink; auto.
  - change (c0 :: bf ++ c :: af) with ((c0 :: bf) ++ c :: af) in Nd. apply NoDup_remove_1 in Nd. exact Nd.
  - intros k Hk. apply Inc. change (c0 :: bf ++ c :: af) with ((c0 :: bf) ++ c :: af).
    change (c0 :: bf ++ af) with ((c0 :: bf) ++ af) in Hk. apply in_app_or in Hk. apply in_or_app. destruct Hk; [left|right; right]; assumption.
Qed.

(* QUERIES after delete_segment returned True, c being the child taken out: iterate_segments from any
   node outside c's subtree, and select / count / exists / first for any path, lose exactly the results
   in c's subtree (c is a segment node: its own item) and keep the others in order *)
Theorem delete_segment_true_queries h h' p a :
  forest h -> delete_segment p a h = (h', Ok true) ->
  exists c, In c (tl (match live_ids h p with Ok ids => ids | Raise _ => [] end)) /\
    (forall q xs, in_subtree h c q = false -> node_iterate_segments h q = (xs, None) ->
       node_iterate_segments h' q = (filter (fun it => negb (in_subtree h c (it_node it))) xs, None)) /\
    (forall q s xs, (forall y, up_chain h q y -> in_subtree h c y = false) -> g_all (node_select h q s) = Ok xs ->
       let xs' := filter (fun o => negb (in_subtree h c o)) xs in
       g_all (node_select h' q s) = Ok xs' /\
       node_count h q s = Ok (length xs) /\ node_count h' q s = Ok (length xs') /\
       node_exists h' q s = Ok (negb (length xs' =? 0)) /\ node_first h' q s = Ok (hd_error xs')).
Proof.
  intros F E. destruct (delete_segment_spec _ _ _ _ _ E) as (me & mn & x & Eme & _ & _ & _ & [(_ & Q & _)|(sm & ids & _ & Li & Cases)]); [discriminate|].
  destruct Cases as [(Q & _)|(_ & c0 & bf & c & af & Eids & _ & Mc & Eh')]; [discriminate|].
  exists c. rewrite Li. split; [rewrite Eids; cbn [tl]; apply in_or_app; right; left; reflexivity|].
  pose proof (live_ids_nodup _ _ _ F Li) as Nd. pose proof (live_ids_children _ _ _ _ Eme Li) as Inc.
  assert (Ic : In c (o_children me)) by (apply Inc; rewrite Eids; right; apply in_or_app; right; left; reflexivity).
  assert (exists oc, nth_error h c = Some oc) as (oc & Ec).
  { unfold seg_matches in Mc. destruct (nth_error h c); [eauto|discriminate]. }
  assert (Gp : in_subtree h c p = false) by (eapply parent_outside; eauto).
  assert (K2 := delete_K2 h c oc F Ec).
  assert (Gunder : forall y oy k, in_subtree h c y = false -> nth_error h y = Some oy -> In k (o_children oy) ->
                     in_subtree h c k = true -> y = p).
  { intros y oy k Gy Ey Ik Gk. rewrite (gone_child h c oc F Ec y oy k Gy Ey Ik) in Gk. apply Nat.eqb_eq in Gk. subst k.
    eapply (f_one_parent h F); eauto. }
  assert (Eids' : filter (fun k => negb (in_subtree h c k)) ids = c0 :: bf ++ af).
  { rewrite (filter_ext_in _ (fun k => negb (k =? c))).
    - rewrite <- remove_one_filter by exact Nd. rewrite Eids. change (c0 :: bf ++ c :: af) with ((c0 :: bf) ++ c :: af).
      rewrite remove_one_mid; [reflexivity|]. rewrite Eids in Nd. change (c0 :: bf ++ c :: af) with ((c0 :: bf) ++ c :: af) in Nd.
      apply NoDup_remove_2 in Nd. intros I. apply Nd, in_or_app. auto.
    - intros k Hk. f_equal. eapply (gone_child h c oc F Ec p me k Gp Eme). apply Inc, Hk. }
  rewrite <- Eids' in Eh'. subst h'. split.
  - intros q xs. apply (detach_iterate h p me ids (in_subtree h c) F Eme Li K2 Gunder).
  - intros q s xs Up Sel. split; [apply (detach_select h p me ids (in_subtree h c) F Eme Li K2 Gunder q s xs Up Sel)|].
    apply (detach_queries h p me ids (in_subtree h c) F Eme Li K2 Gunder q s xs Up Sel).
Qed.

(* ... and after it returned False nothing is lost *)
Theorem delete_segment_false_queries h h' p a :
  forest h -> delete_segment p a h = (h', Ok false) ->
  (forall q xs, node_iterate_segments h q = (xs, None) -> node_iterate_segments h' q = (xs, None)) /\
  (forall q s xs, g_all (node_select h q s) = Ok xs -> g_all (node_select h' q s) = Ok xs).
Proof.
  intros F E. destruct (delete_segment_spec _ _ _ _ _ E) as (me & mn & x & Eme & _ & _ & _ & [(_ & _ & ->)|(sm & ids & _ & Li & Cases)]); [auto|].
  destruct Cases as [(_ & _ & Eh')|(Q & _)]; [|discriminate].
  rewrite <- (filter_true ids) in Eh'. subst h'.
  assert (K2 : forall (y : oid) (oy : dobj) (k : oid), (fun _ : oid => false) y = true -> nth_error h y = Some oy -> In k (o_children oy) -> (fun _ : oid => false) k = true) by (intros; discriminate).
  assert (Gu : forall (y : oid) (oy : dobj) (k : oid), (fun _ : oid => false) y = false -> nth_error h y = Some oy -> In k (o_children oy) -> (fun _ : oid => false) k = true -> y = p) by (intros; discriminate).
  split.
  - intros q xs I. pose proof (detach_iterate h p me ids (fun _ => false) F Eme Li K2 Gu q xs eq_refl I) as Q.
    cbn beta in Q. cbn [negb] in Q. rewrite !filter_true in Q. rewrite filter_true. exact Q.
  - intros q s xs Sel. pose proof (detach_select h p me ids (fun _ => false) F Eme Li K2 Gu q s xs (fun _ _ => eq_refl) Sel) as Q.
    cbn beta in Q. cbn [negb] in Q. rewrite !filter_true in Q. rewrite filter_true. exact Q.
Qed.

(* delete_node (441-457): delete() on the first node select would yield *)
Theorem delete_node_spec self s h h' r :
  delete_node self s h = (h', Ok r) ->
  exists me xp t, nth_error h self = Some me /\ o_class me = CLoop /\ select_from h self s = Ok (xp, t) /\
    ((exists n, g_first t = Ok (Some n) /\ r = true /\ node_delete n h = (h', Ok tt)) \/
     (g_first t = Ok None /\ r = false /\ h' = h)).
Proof.
  intros E. unfold delete_node in E.
  apply hb_ok in E. destruct E as (? & me & LS & E). apply loop_self_ok in LS. destruct LS as (-> & Eme & Cme).
  apply hb_ok in E. destruct E as (? & [xp t] & R & E). rewrite h_read_eq in R. injection R as <- Es.
  apply hb_ok in E. destruct E as (? & f & Lf & E). rewrite h_lift_eq in Lf. injection Lf as <- Ef. cbn [snd] in Ef.
  exists me, xp, t. repeat (split; [assumption|]). destruct f as [n|].
  - left. exists n. apply hb_ok in E. destruct E as (h2 & [] & D & E). rewrite h_ret_eq in E. injection E as <- <-. auto.
  - right. rewrite h_ret_eq in E. injection E as <- <-. auto.
Qed.

(* ---- the delete laws, stated on the API call ---- *)
Theorem node_delete_laws h h' x :
  forest h -> node_delete x h = (h', Ok tt) ->
  forest h' /\ length h' = length h /\ (forall o, o <> x -> nth_error h' o = nth_error h o) /\
  node_delete x h' = (h', Ok tt) /\
  (forall p l, p <> x -> live_ids h p = Ok l -> live_ids h' p = Ok (remove_one (Nat.eqb x) l)) /\
  (forall q xs, in_subtree h x q = false -> node_iterate_segments h q = (xs, None) ->
     node_iterate_segments h' q = (filter (fun it => negb (in_subtree h x (it_node it))) xs, None)) /\
  (forall q s xs, (forall y, up_chain h q y -> in_subtree h x y = false) -> g_all (node_select h q s) = Ok xs ->
     let xs' := filter (fun o => negb (in_subtree h x o)) xs in
     g_all (node_select h' q s) = Ok xs' /\
     node_count h q s = Ok (length xs) /\ node_count h' q s = Ok (length xs') /\
     node_exists h' q s = Ok (negb (length xs' =? 0)) /\ node_first h' q s = Ok (hd_error xs')).
Proof.
  intros F E. pose proof (delete_forest _ _ _ _ F E) as F'. pose proof (delete_twice _ _ _ E) as T.
  destruct (delete_frame _ _ _ _ E) as [(ox & Ex & _ & -> & Len & _ & Oth)|(_ & Q & _)]; [|discriminate].
  split; [exact F'|]. split; [exact Len|]. split; [exact Oth|]. split; [exact T|]. split.
  { intros p l. apply delete_live_ids; assumption. }
  split.
  { intros q xs. apply delete_iterate; assumption. }
  intros q s xs Up Sel. split; [apply delete_select; assumption|]. apply delete_queries; assumption.
Qed.

Print Assumptions in_subtree_iff.
Print Assumptions delete_frame.
Print Assumptions delete_twice.
Print Assumptions delete_forest.
Print Assumptions delete_live_ids.
Print Assumptions delete_iterate.
Print Assumptions delete_iterate_parent.
Print Assumptions delete_select.
Print Assumptions delete_queries.
Print Assumptions up_chain_outside.
Print Assumptions parent_outside.
Print Assumptions delete_segment_spec.
Print Assumptions delete_segment_forest.
Print Assumptions delete_segment_true_queries.
Print Assumptions delete_segment_false_queries.
Print Assumptions delete_node_spec.
Print Assumptions node_delete_laws.
