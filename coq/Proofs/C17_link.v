(* C17_link.v — a printed reference designator translates to the indices the
   segment laws of C17_segment.v are stated on. *)
From Coq Require Import String.
From PX.Lib Require Import Base PyStr.
From PX.Model Require Import Path Segment.
From PX.Spec Require Import C17_spec.
From PX.Proofs Require Import C17_path.

Definition idx_of (e : str) : Z := (Z.of_N (dec_val e) - 1)%Z.

Lemma refdes_indices s r e :
  wf_refdes r = true -> r_ele r = Some e ->
  (r_seg r = None \/ r_seg r = sid s) ->
  parse_refdes s (print_refdes r) = Ok (Some (idx_of e), option_map idx_of (r_sub r)).
Proof.
  intros W He Hs.
  set (p := {| p_rel := true; p_loops := []; p_ref := Some r |}).
  assert (WP : wf_path p).
  { unfold wf_path, p. cbn [p_loops p_ref p_rel forallb]. split; [reflexivity|]. split; [|exact I].
    split; [exact W|]. intros _. split; reflexivity. }
  destruct (parse_print p WP) as [x [Hx [H1 [H2 [H3 [H4 [H5 H6]]]]]]].
  assert (PP : print_path p = print_refdes r) by reflexivity.
  rewrite PP in Hx. unfold parse_refdes. rewrite Hx. cbn [bind].
  unfold expected_seg, expected_ele, expected_sub, p in *. cbn [p_ref] in *.
  rewrite H3, H5, H6, He. cbn [option_map].
  assert (E2 : option_map (fun n : N => (Z.of_N n - 1)%Z) (option_map dec_val (r_sub r)) = option_map idx_of (r_sub r))
    by (destruct (r_sub r); reflexivity).
  destruct Hs as [Hn | Hsid].
  - rewrite Hn. rewrite E2. reflexivity.
  - destruct (r_seg r) as [sg|] eqn:Er.
    + rewrite <- Hsid. cbn [opt_eqb]. rewrite str_eqb_refl. rewrite E2. reflexivity.
    + rewrite E2. reflexivity.
Qed.

(* a designator naming another segment *)
Lemma refdes_other_segment s r x :
  wf_refdes r = true -> r_seg r = Some x -> sid s <> Some x ->
  parse_refdes s (print_refdes r) = Raise EngineError.
Proof.
  intros W Hx Hn.
  set (p := {| p_rel := true; p_loops := []; p_ref := Some r |}).
  assert (WP : wf_path p).
  { unfold wf_path, p. cbn [p_loops p_ref p_rel forallb]. split; [reflexivity|]. split; [|exact I].
    split; [exact W|]. intros Hc. rewrite Hx in Hc. discriminate. }
  destruct (parse_print p WP) as [y [Hy [H1 [H2 [H3 _]]]]].
  assert (PP : print_path p = print_refdes r) by reflexivity.
  rewrite PP in Hy. unfold parse_refdes. rewrite Hy. cbn [bind].
  unfold expected_seg, p in H3. cbn [p_ref] in H3. rewrite H3, Hx.
  destruct (opt_eqb str_eqb (Some x) (sid s)) eqn:E; [|reflexivity].
  exfalso. apply Hn. destruct (sid s) as [z|]; cbn in E; [|discriminate].
  apply str_eqb_eq in E. congruence.
Qed.
