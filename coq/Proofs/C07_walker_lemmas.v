(* C07_walker_lemmas.v — what the totality proof of the map walker rests on:
   a weakest-precondition predicate for the W monad, facts about node
   references, what `walker_wf` gives for every node, and the pure
   functions of the walker that never raise. *)
From Coq Require Import String.
From PX.Lib Require Import Base PyStr PyInt Regex Xml.
From PX.Model Require Import Path Segment Syntax MapLoad MapTree Element Counter Walker.
From PX.Spec Require Import C07_walker_wf.

Local Definition l (x : string) : str := list_ascii_of_string x.

(* ------------------------------------------------------------------ *)
(* 1. the W monad                                                       *)

Definition wp {A} (c : W A) (P : A -> Prop) : Prop :=
  forall s, match c s with (_, Ok a) => P a | (_, Raise _) => False end.

Lemma wp_ret {A} (a : A) (P : A -> Prop) : P a -> wp (w_ret a) P.
Proof. intros H s. exact H. Qed.

Lemma wp_bind {A B} (c : W A) (f : A -> W B) (Q : A -> Prop) (P : B -> Prop) :
  wp c Q -> (forall a, Q a -> wp (f a) P) -> wp (w_bind c f) P.
Proof.
  intros H1 H2 s. unfold w_bind. specialize (H1 s).
  destruct (c s) as [s' [a|e]]; [apply H2, H1 | exact H1].
Qed.

Lemma wp_conseq {A} (c : W A) (Q P : A -> Prop) :
  wp c Q -> (forall a, Q a -> P a) -> wp c P.
Proof.
  intros H1 H2 s. specialize (H1 s). destruct (c s) as [s' [a|e]]; [apply H2, H1 | exact H1].
Qed.

Lemma wp_lift {A} (r : result A) (a : A) (P : A -> Prop) : r = Ok a -> P a -> wp (w_lift r) P.
Proof. intros -> H s. exact H. Qed.

Lemma wp_emit e (P : unit -> Prop) : P tt -> wp (w_emit e) P.
Proof. intros H s. exact H. Qed.
Lemma wp_counter_get (P : counter -> Prop) : (forall c, P c) -> wp w_counter_get P.
Proof. intros H s. apply H. Qed.
Lemma wp_counter_set c (P : unit -> Prop) : P tt -> wp (w_counter_set c) P.
Proof. intros H s. exact H. Qed.
Lemma wp_missing_get (P : list mentry -> Prop) : (forall c, P c) -> wp w_missing_get P.
Proof. intros H s. apply H. Qed.
Lemma wp_missing_set c (P : unit -> Prop) : P tt -> wp (w_missing_set c) P.
Proof. intros H s. exact H. Qed.

Definition T {A} : A -> Prop := fun _ => True.

(* sequencing with a step whose result does not matter *)
Lemma wp_seq {A B} (c : W A) (k : A -> W B) (P : B -> Prop) :
  wp c T -> (forall a, wp (k a) P) -> wp (w_bind c k) P.
Proof. intros H1 H2. eapply wp_bind; [exact H1 | intros a _; apply H2]. Qed.

Lemma wp_T {A} (c : W A) (P : A -> Prop) : wp c P -> wp c T.
Proof. intros H. eapply wp_conseq; [exact H | intros; exact I]. Qed.

Lemma wp_iter {A} (f : A -> W unit) xs : (forall x, wp (f x) T) -> wp (w_iter f xs) T.
Proof.
  intros H. induction xs as [|x xs IH]; cbn [w_iter].
  - apply wp_ret. exact I.
  - apply wp_seq; [apply H | intros _; exact IH].
Qed.

(* ------------------------------------------------------------------ *)
(* 2. node references                                                   *)

Lemma node_at_single ns i : node_at ns [i] = nth_error ns i.
Proof. cbn [node_at]. destruct (nth_error ns i); reflexivity. Qed.

Lemma node_at_snoc ns r i n :
  node_at ns r = Some n -> node_at ns (r ++ [i]) = nth_error (node_children n) i.
Proof.
  revert ns. induction r as [|j r IH]; intros ns H; [discriminate|].
  cbn [node_at app] in *. destruct (nth_error ns j) as [c|]; [|discriminate].
  destruct r as [|k r'].
  - injection H as ->. clear IH. cbn [app]. apply node_at_single.
  - specialize (IH _ H). cbn [app] in *. exact IH.
Qed.

(* the enclosing loop of a valid reference is the root or a valid reference *)
Lemma node_at_removelast ns r n :
  node_at ns r = Some n ->
  removelast r = [] \/ exists p, node_at ns (removelast r) = Some p /\ node_is_loop p = true.
Proof.
  revert ns. induction r as [|j r IH]; intros ns H; [discriminate|].
  destruct r as [|k r']; [left; reflexivity|]. right.
  cbn [node_at] in H. destruct (nth_error ns j) as [c|] eqn:Ej; [|discriminate].
  change (removelast (j :: k :: r')) with (j :: removelast (k :: r')).
  destruct (IH _ H) as [E | [p [Hp Lp]]].
  - rewrite E. cbn [node_at]. rewrite Ej. exists c. split; [reflexivity|].
    destruct c; [reflexivity|]. cbn [node_children node_at nth_error] in H. destruct k; discriminate.
  - exists p. split; [|exact Lp]. cbn [node_at]. rewrite Ej.
    destruct (removelast (k :: r')) eqn:E; [discriminate Hp | exact Hp].
Qed.

Lemma removelast_snoc {A} (r : list A) i : removelast (r ++ [i]) = r.
Proof. apply removelast_last. Qed.

Lemma snoc_not_nil {A} (r : list A) i : r ++ [i] <> [].
Proof. destruct r; discriminate. Qed.

Lemma loop_children n : node_is_loop n = false -> node_children n = [].
Proof. destruct n; [discriminate | reflexivity]. Qed.

(* the children of the root / of a loop reference *)
Definition kids (m : xmap) (r : nref) : list node :=
  match r with
  | [] => root_nodes m
  | _ => match node_at (root_nodes m) r with Some n => node_children n | None => [] end
  end.

(* the root or a reference to a loop *)
Definition lref (m : xmap) (r : nref) : Prop :=
  r = [] \/ exists n, node_at (root_nodes m) r = Some n /\ node_is_loop n = true.

Lemma node_at_kids m r i : lref m r -> node_at (root_nodes m) (r ++ [i]) = nth_error (kids m r) i.
Proof.
  intros [-> | [n [H _]]]; [apply node_at_single|].
  rewrite (node_at_snoc _ _ _ _ H). unfold kids. destruct r; [discriminate|]. rewrite H. reflexivity.
Qed.

Lemma container_children_kids m r : lref m r -> container_children m r = Ok (kids m r).
Proof.
  intros [-> | [n [H L]]]; [reflexivity|].
  unfold container_children, kids, get_node. destruct r; [discriminate|]. rewrite H. cbn [bind].
  destruct n; [reflexivity | discriminate].
Qed.

Lemma lref_removelast m r : lref m r -> lref m (removelast r).
Proof.
  intros [-> | [n [H _]]]; [left; reflexivity|].
  destruct (node_at_removelast _ _ _ H) as [E | [p [Hp Lp]]]; [left; exact E | right; eauto].
Qed.

Lemma get_node_ok m r n : node_at (root_nodes m) r = Some n -> get_node m r = Ok n.
Proof. unfold get_node. intros ->. reflexivity. Qed.

Lemma parent_id_ok m r : lref m (removelast r) -> exists p, parent_id m r = Ok p.
Proof.
  unfold parent_id. intros [-> | [n [H _]]]; [eauto|].
  destruct (removelast r); [eauto|]. rewrite (get_node_ok _ _ _ H). cbn [bind]. eauto.
Qed.

(* enumerate *)
Lemma enumerate_In {A} (xs : list A) k i c : nth_error xs i = Some c -> In (k + i, c) (enumerate k xs).
Proof.
  revert k i. induction xs as [|x xs IH]; intros k i H; [destruct i; discriminate|].
  destruct i as [|i]; cbn [nth_error enumerate] in *.
  - injection H as ->. left. f_equal. lia.
  - right. replace (k + S i) with (S k + i) by lia. apply IH, H.
Qed.

Lemma enumerate_nth {A} (xs : list A) k i c : In (i, c) (enumerate k xs) -> k <= i /\ nth_error xs (i - k) = Some c.
Proof.
  revert k. induction xs as [|x xs IH]; intros k H; [contradiction|].
  cbn [enumerate] in H. destruct H as [H|H].
  - injection H as -> ->. split; [lia|]. rewrite Nat.sub_diag. reflexivity.
  - apply IH in H as [H1 H2]. split; [lia|]. replace (i - k) with (S (i - S k)) by lia. exact H2.
Qed.

(* ------------------------------------------------------------------ *)
(* 3. what walker_wf gives                                              *)

Lemma depth_ok_mono f n : depth_ok f n = true -> depth_ok (S f) n = true.
Proof.
  revert n. induction f as [|f IH]; intros n H; [discriminate|].
  cbn [depth_ok] in *. rewrite forallb_forall in *. intros c Hc. apply IH, H, Hc.
Qed.

Lemma depth_ok_at f ns r n :
  forallb (depth_ok f) ns = true -> node_at ns r = Some n -> depth_ok f n = true.
Proof.
  revert ns. induction r as [|i r IH]; intros ns Hns H; [discriminate|].
  cbn [node_at] in H. destruct (nth_error ns i) as [c|] eqn:Ei; [|discriminate].
  rewrite forallb_forall in Hns. pose proof (Hns c (nth_error_In _ _ Ei)) as Hc.
  destruct r as [|j r']; [injection H as <-; exact Hc|].
  apply (IH (node_children c)); [|exact H].
  destruct f; [discriminate|]. cbn [depth_ok] in Hc.
  rewrite forallb_forall in *. intros x Hx. apply depth_ok_mono, Hc, Hx.
Qed.

Lemma refs_under_complete f n r pre x :
  depth_ok f n = true -> node_at (node_children n) r = Some x -> In (pre ++ r) (refs_under f pre n).
Proof.
  revert n r pre. induction f as [|f IH]; intros n r pre D H; [discriminate|].
  destruct r as [|i rest]; [discriminate|].
  cbn [node_at] in H. destruct (nth_error (node_children n) i) as [c|] eqn:Ei; [|discriminate].
  cbn [refs_under depth_ok] in *. right. apply in_flat_map. exists (i, c). split.
  - apply (enumerate_In _ 0 i c Ei).
  - cbn [fst snd]. rewrite forallb_forall in D. pose proof (D c (nth_error_In _ _ Ei)) as Dc.
    destruct rest as [|j rest'].
    + destruct f; cbn [refs_under]; left; reflexivity.
    + replace (pre ++ i :: j :: rest') with ((pre ++ [i]) ++ j :: rest') by (rewrite <- app_assoc; reflexivity).
      apply IH; assumption.
Qed.

Lemma all_refs_complete m r n :
  forallb (depth_ok 40) (root_nodes m) = true -> node_at (root_nodes m) r = Some n -> In r (all_refs m).
Proof.
  intros D H. destruct r as [|i rest]; [discriminate|].
  cbn [node_at] in H. destruct (nth_error (root_nodes m) i) as [c|] eqn:Ei; [|discriminate].
  unfold all_refs. apply in_flat_map. exists (i, c). split; [apply (enumerate_In _ 0 i c Ei)|].
  cbn [fst snd]. destruct rest as [|j rest'].
  - cbn [refs_under]. left. reflexivity.
  - rewrite forallb_forall in D. apply (refs_under_complete 40 c (j :: rest') [i] n); [|exact H].
    apply D, (nth_error_In _ _ Ei).
Qed.

Lemma wf_ref m r n :
  walker_wf m = true -> node_at (root_nodes m) r = Some n -> ref_ok m r n = true /\ depth_ok 40 n = true.
Proof.
  unfold walker_wf. intros W H. apply andb_true_iff in W as [D A]. split.
  - rewrite forallb_forall in A. specialize (A r (all_refs_complete m r n D H)). rewrite H in A. exact A.
  - exact (depth_ok_at _ _ _ _ D H).
Qed.

Lemma wf_first m r n :
  walker_wf m = true -> walker_first_wf m = true -> node_at (root_nodes m) r = Some n -> first_single n = true.
Proof.
  unfold walker_wf, walker_first_wf. intros W F H. apply andb_true_iff in W as [D _].
  rewrite forallb_forall in F. specialize (F r (all_refs_complete m r n D H)). rewrite H in F. exact F.
Qed.

(* ------------------------------------------------------------------ *)
(* 4. pure facts                                                        *)

Lemma ostr_eqb_eq a b : ostr_eqb a b = true -> a = b.
Proof.
  unfold ostr_eqb, opt_eqb. destruct a, b; try discriminate; [|reflexivity].
  intros H. apply str_eqb_eq in H. congruence.
Qed.

Lemma usage_R_not_N u : usage_is u "R" = true -> usage_is u "N" = false.
Proof. unfold usage_is. intros H. apply ostr_eqb_eq in H. subst u. reflexivity. Qed.

Lemma is_ok_Ok {A} (r : result A) : is_ok r = true -> exists a, r = Ok a.
Proof. destruct r; [eauto | discriminate]. Qed.

Lemma node_x12path_path m r : is_ok (node_x12path m r) = true -> exists p, node_path m r = Ok p.
Proof. unfold node_x12path. destruct (node_path m r); [eauto | discriminate]. Qed.

Lemma bind_ok_ex {A B} (r : result A) (f : A -> result B) :
  (exists a, r = Ok a) -> (forall a, exists b, f a = Ok b) -> exists b, bind r f = Ok b.
Proof. intros [a ->] H. cbn [bind]. apply H. Qed.

Lemma seg_is_match_ok d de n sg : seg_match_safe de n = true -> exists b, seg_is_match d de n sg = Ok b.
Proof.
  unfold seg_match_safe, seg_is_match, nth_sub. intros H.
  destruct (negb (ostr_eqb (sid sg) (s_id n))) eqn:Eid; [eauto|].
  apply negb_false_iff in Eid. apply ostr_eqb_eq in Eid.
  destruct (s_children n) as [|c0 rest] eqn:Hc; [discriminate|].
  apply andb_true_iff in H as [H H3]. apply andb_true_iff in H as [H1 H2].
  rewrite <- Eid in H2, H3. cbn [nth_error bind].
  change (MapTree.l "ENT") with (C07_walker_wf.l "ENT"). change (MapTree.l "HL") with (C07_walker_wf.l "HL").
  assert (B34 : forall (ty : string) v, exists b, match c0 with
              | SubC c => match c_children c with
                          | [] => Raise IndexError
                          | e0 :: _ => do t <- elem_type de e0;
                                       Ok (is_type t ty && negb (no_codes e0) && negb (in_codes v e0))
                          end
              | SubE _ => Ok false
              end = Ok b).
  { intros ty v. destruct c0 as [e|c]; [eauto|]. destruct (c_children c) as [|e0 ?]; [discriminate|].
    destruct (is_ok_Ok _ H1) as [t ->]. cbn [bind]. eauto. }
  apply bind_ok_ex.
  { destruct c0 as [e|c]; [|eauto]. destruct (is_ok_Ok _ H1) as [t ->]. cbn [bind]. eauto. }
  intros [|]; [eauto|]. apply bind_ok_ex.
  { destruct (ostr_eqb (sid sg) (Some (C07_walker_wf.l "ENT"))) eqn:E1; [|eauto].
    destruct rest as [|[e|c] rest']; cbn [nth_error bind] in *; [discriminate | | eauto].
    destruct (is_ok_Ok _ H2) as [t ->]. cbn [bind]. eauto. }
  intros [|]; [eauto|]. apply bind_ok_ex.
  { destruct (ostr_eqb (sid sg) (Some (MapTree.l "CTX"))); [apply B34 | eauto]. }
  intros [|]; [eauto|]. apply bind_ok_ex; [apply B34|].
  intros [|]; [eauto|]. apply bind_ok_ex; [|eauto].
  destruct (ostr_eqb (sid sg) (Some (C07_walker_wf.l "HL"))) eqn:E1; [|eauto].
  destruct rest as [|c1 [|[e|c] rest']]; cbn [nth_error bind] in *; try discriminate; eauto.
Qed.

(* a segment that can be matched has children: `if node1:` is true for it *)
Lemma seg_match_safe_children de n : seg_match_safe de n = true -> s_children n <> [].
Proof. unfold seg_match_safe. destruct (s_children n); [discriminate | discriminate]. Qed.

(* seg_data.get_value('01') never raises *)
Lemma parse_path_01 :
  parse_path (l "01") = Ok {| relative := true; loop_list := []; seg_id := None; id_val := None;
                              ele_idx := Some 1%N; subele_idx := None |}.
Proof. vm_compute. reflexivity. Qed.

Lemma seg_get_value_01 d sg : exists v, seg_get_value d sg (l "01") = Ok v.
Proof.
  unfold seg_get_value, seg_get, parse_refdes. rewrite parse_path_01. cbn [bind seg_id ele_idx subele_idx option_map].
  unfold get_ix. cbn [fst snd].
  destruct (Z.of_nat (length (els sg)) <=? Z.of_N 1 - 1)%Z eqn:E; [cbn [bind]; eauto|].
  destruct (els sg) as [|c rest]; [discriminate E|].
  unfold py_nth. change (Z.of_N 1 - 1)%Z with 0%Z. cbn [Z.ltb Z.compare Z.to_nat nth_res bind]. eauto.
Qed.

(* ------------------------------------------------------------------ *)
(* 5. derived rules for the usual steps                                 *)

Lemma wp_bind_lift {A B} (r : result A) (x : A) (k : A -> W B) (P : B -> Prop) :
  r = Ok x -> wp (k x) P -> wp (w_bind (w_lift r) k) P.
Proof. intros -> H s. exact (H s). Qed.

Lemma wp_bind_cget {B} (k : counter -> W B) (P : B -> Prop) :
  (forall c, wp (k c) P) -> wp (w_bind w_counter_get k) P.
Proof. intros H s. exact (H _ s). Qed.

Lemma wp_bind_mget {B} (k : list mentry -> W B) (P : B -> Prop) :
  (forall c, wp (k c) P) -> wp (w_bind w_missing_get k) P.
Proof. intros H s. exact (H _ s). Qed.

Lemma wp_unit_T (c : W unit) : wp c (fun _ => True) -> wp c T.
Proof. intros H. exact H. Qed.

Ltac wunit := first [ apply wp_emit; exact I | apply wp_counter_set; exact I | apply wp_missing_set; exact I
                    | apply wp_ret; exact I ].

Ltac wstep :=
  first [ apply wp_bind_cget; intro
        | apply wp_bind_mget; intro
        | apply wp_seq; [ wunit | intros _ ] ].

Lemma flush_mandatory_segs_wp cp : wp (flush_mandatory_segs cp) T.
Proof.
  unfold flush_mandatory_segs. apply wp_bind_mget; intro ms. apply wp_seq.
  - apply wp_iter. intro e. destruct (negb (pos_is e cp)); [|wunit]. wstep. wunit.
  - intros _. wunit.
Qed.

Lemma append_missing_wp m r n msg a : lref m (removelast r) -> wp (append_missing m r n msg a) T.
Proof.
  intros H. unfold append_missing. destruct (parent_id_ok m r H) as [p Hp].
  eapply wp_bind_lift; [exact Hp|]. wstep. wunit.
Qed.

(* prefixes of a reference *)
Definition pfx (anc base : nref) : Prop :=
  exists n, length anc + n = length base /\ anc = firstn (length anc) base.

Lemma pfx_refl r : pfx r r.
Proof. exists 0. split; [lia | symmetry; apply firstn_all]. Qed.

Lemma pfx_removelast c b : pfx c b -> pfx (removelast c) b.
Proof.
  intros [n [L E]]. destruct c as [|x c'] eqn:Ec; [exists n; split; [exact L | exact E]|]. rewrite <- Ec in *.
  assert (Lc : length (removelast c) = length c - 1).
  { rewrite removelast_firstn_len. rewrite firstn_length. rewrite Ec. cbn [length]. lia. }
  exists (S n). split.
  - rewrite Lc, Ec in *. cbn [length] in *. lia.
  - rewrite Lc. transitivity (firstn (length c - 1) (firstn (length c) b)).
    + rewrite <- E. rewrite removelast_firstn_len. f_equal. lia.
    + rewrite firstn_firstn. f_equal. lia.
Qed.

Lemma pfx_nil_inv c b : pfx c b -> c <> [] -> b <> [].
Proof. intros [n [L _]] H ->. destruct c; [congruence | cbn [length] in L; lia]. Qed.
