(* C12_doc_step.v — layer (a): one turn of the driver's loop (Driver.step) on two runs that differ in the
   delimiters of the source.  The two runs stay in related states (srel): the same reader state, pending
   errors, walker state, node, map selection and verdict so far; error trees equal up to strip_errh; traces
   equal up to strip_dev. *)
From Coq Require Import String Lia.
From PX.Lib Require Import Base PyStr PyInt.
From PX.Model Require Import Path Segment Raw Reader MapLoad MapTree Element Walker MapEnv Driver.
From PX.Model Require Errh.
From PX.Spec Require Import C01_spec C12_spec C12b_spec C12_doc_spec.
From PX.Proofs Require Import C12_layers C12_doc_errh.

Local Definition l (s : string) : str := list_ascii_of_string s.

(* ================================================================== *)
(* 1. related states, related computations                             *)

Record srel (s1 s2 : dstate) : Prop := {
  sr_x : ds_x s1 = ds_x s2;
  sr_pending : ds_pending s1 = ds_pending s2;
  sr_errh : strip_errh (ds_errh s1) = strip_errh (ds_errh s2);
  sr_w : ds_w s1 = ds_w s2;
  sr_node : ds_node s1 = ds_node s2;
  sr_sel : ds_sel s1 = ds_sel s2;
  sr_valid : ds_valid s1 = ds_valid s2;
  sr_trace : map strip_dev (ds_trace s1) = map strip_dev (ds_trace s2)
}.

Definition dsim {A} (m1 m2 : D A) (s1 s2 : dstate) : Prop :=
  srel (fst (m1 s1)) (fst (m2 s2)) /\ snd (m1 s1) = snd (m2 s2).

Definition Dsim {A} (m1 m2 : D A) : Prop := forall s1 s2, srel s1 s2 -> dsim m1 m2 s1 s2.

Lemma Dsim_ret {A} (a : A) : Dsim (d_ret a) (d_ret a).
Proof. intros s1 s2 R. split; [exact R | reflexivity]. Qed.
Lemma Dsim_raise {A} e : Dsim (@d_raise A e) (d_raise e).
Proof. intros s1 s2 R. split; [exact R | reflexivity]. Qed.
Lemma Dsim_lift {A} (r1 r2 : result A) : r1 = r2 -> Dsim (d_lift r1) (d_lift r2).
Proof. intros -> s1 s2 R. split; [exact R | reflexivity]. Qed.

Lemma dsim_bind {A B} (m1 m2 : D A) (f1 f2 : A -> D B) s1 s2 :
  dsim m1 m2 s1 s2 ->
  (forall a, snd (m1 s1) = Ok a -> srel (fst (m1 s1)) (fst (m2 s2)) -> dsim (f1 a) (f2 a) (fst (m1 s1)) (fst (m2 s2))) ->
  dsim (d_bind m1 f1) (d_bind m2 f2) s1 s2.
Proof.
  intros [R E] Hf. unfold dsim, d_bind in *.
  destruct (m1 s1) as [s1' r1], (m2 s2) as [s2' r2]. cbn [fst snd] in *. subst r2.
  destruct r1 as [a|e]; [apply Hf; [reflexivity | exact R] | split; [exact R | reflexivity]].
Qed.

Lemma Dsim_bind {A B} (m1 m2 : D A) (f1 f2 : A -> D B) :
  Dsim m1 m2 -> (forall a, Dsim (f1 a) (f2 a)) -> Dsim (d_bind m1 f1) (d_bind m2 f2).
Proof. intros Hm Hf s1 s2 R. apply dsim_bind; [apply Hm, R|]. intros a _ R'. apply Hf, R'. Qed.

Lemma Dsim_bind_get {A} (k1 k2 : dstate -> D A) :
  (forall a b, srel a b -> Dsim (k1 a) (k2 b)) -> Dsim (d_bind d_get k1) (d_bind d_get k2).
Proof. intros H s1 s2 R. exact (H s1 s2 R s1 s2 R). Qed.

Lemma Dsim_mod f1 f2 : (forall a b, srel a b -> srel (f1 a) (f2 b)) -> Dsim (d_mod f1) (d_mod f2).
Proof. intros H s1 s2 R. split; [apply H, R | reflexivity]. Qed.

Lemma Dsim_iter2 {A} (P : A -> A -> Prop) (f1 f2 : A -> D unit) xs ys :
  Forall2 P xs ys -> (forall x y, P x y -> Dsim (f1 x) (f2 y)) -> Dsim (d_iter f1 xs) (d_iter f2 ys).
Proof.
  intros F H. induction F as [|x y xs ys Pxy F IH]; cbn [d_iter]; [apply Dsim_ret|].
  apply Dsim_bind; [apply H, Pxy | intros _; exact IH].
Qed.

Lemma Dsim_iter {A} (f1 f2 : A -> D unit) xs : (forall x, Dsim (f1 x) (f2 x)) -> Dsim (d_iter f1 xs) (d_iter f2 xs).
Proof.
  intros H. apply (Dsim_iter2 eq); [|intros x y <-; apply H].
  induction xs; constructor; auto.
Qed.

(* ---- field updates keep the relation ---- *)
Ltac srel_solve :=
  let R := fresh "R" in
  intros ? ? R; destruct R; constructor;
  cbn [with_x with_pending with_errh with_w with_node with_sel with_valid with_trace
       ds_x ds_pending ds_errh ds_w ds_node ds_sel ds_valid ds_trace]; congruence.

Lemma srel_with_pending v : forall a b, srel a b -> srel (with_pending a v) (with_pending b v).
Proof. srel_solve. Qed.
Lemma srel_with_w v : forall a b, srel a b -> srel (with_w a v) (with_w b v).
Proof. srel_solve. Qed.
Lemma srel_with_node v : forall a b, srel a b -> srel (with_node a v) (with_node b v).
Proof. srel_solve. Qed.
Lemma srel_with_x v : forall a b, srel a b -> srel (with_x a v) (with_x b v).
Proof. srel_solve. Qed.
Lemma srel_with_sel f : forall a b, srel a b -> srel (with_sel a (f (ds_sel a))) (with_sel b (f (ds_sel b))).
Proof. srel_solve. Qed.
Lemma srel_with_lx v : forall a b, srel a b -> srel (with_x a (with_lx (ds_x a) v)) (with_x b (with_lx (ds_x b) v)).
Proof. srel_solve. Qed.
Lemma srel_with_valid v : forall a b, srel a b -> srel (with_valid a (ds_valid a && v)) (with_valid b (ds_valid b && v)).
Proof. srel_solve. Qed.
Lemma srel_pending_cleanup : forall a b, srel a b ->
  srel (with_pending a (ds_pending a ++ cleanup (ds_x a))) (with_pending b (ds_pending b ++ cleanup (ds_x b))).
Proof. srel_solve. Qed.
Lemma srel_read x' es : forall a b, srel a b ->
  srel (with_pending (with_x a x') (ds_pending a ++ es)) (with_pending (with_x b x') (ds_pending b ++ es)).
Proof. srel_solve. Qed.

(* ================================================================== *)
(* 2. calls on the error handler                                       *)

Definition dev_rel (e1 e2 : dev) : Prop :=
  strip_dev e1 = strip_dev e2 /\ hsim (apply_dev e1) (apply_dev e2).

Lemma Dsim_call e1 e2 : dev_rel e1 e2 -> Dsim (call_errh e1) (call_errh e2).
Proof.
  intros [Es Hs] s1 s2 R. unfold dsim, call_errh.
  cbn [with_trace ds_errh].
  destruct (Hs (ds_errh s1) (ds_errh s2) (sr_errh _ _ R)) as [H1 H2].
  destruct (apply_dev e1 (ds_errh s1)) as [h1 r1], (apply_dev e2 (ds_errh s2)) as [h2 r2].
  cbn [fst snd] in *. split; [|exact H2].
  destruct R. constructor;
    cbn [with_x with_pending with_errh with_w with_node with_sel with_valid with_trace
         ds_x ds_pending ds_errh ds_w ds_node ds_sel ds_valid ds_trace map]; congruence.
Qed.

Notation COMM := (relR strip_isa_xseg strip_xseg strip_xseg same).

(* the calls that carry no Segment object *)
Lemma dev_rel_plain e :
  match e with DAddEle _ | DIsaErr _ _ | DGsErr _ _ | DStErr _ _ | DSegErr _ _ _ _ | DEleErr _ _ _ _ => True | _ => False end ->
  dev_rel e e.
Proof.
  intros H. split; [reflexivity|]. apply hsim_comm.
  destruct e; try contradiction; cbn [apply_dev].
  - apply add_ele_comm.
  - apply isa_error_comm.
  - apply gs_error_comm.
  - apply st_error_comm.
  - apply seg_error_comm.
  - apply ele_error_comm.
Qed.

Lemma dev_rel_addseg mn x1 x2 sc cl ls : xg_s x1 = xg_s x2 -> dev_rel (DAddSeg mn x1 sc cl ls) (DAddSeg mn x2 sc cl ls).
Proof.
  intros E. split; [cbn [strip_dev]; unfold strip_x; rewrite E; reflexivity|].
  cbn [apply_dev].
  assert (Errh.add_seg (option_map to_seg_info mn) (to_xseg x1) (Some sc) (Some cl) ls =
          Errh.add_seg (option_map to_seg_info mn) (to_xseg x2) (Some sc) (Some cl) ls) as ->.
  { unfold Errh.add_seg, Errh.mk_seg, to_xseg. cbn [Errh.xs_s]. rewrite E. reflexivity. }
  apply hsim_comm, add_seg_comm.
Qed.

Lemma dev_rel_close_isa mn x1 x2 src : xg_s x1 = xg_s x2 -> dev_rel (DCloseIsa mn x1 src) (DCloseIsa mn x2 src).
Proof.
  intros E. split; [cbn [strip_dev]; unfold strip_x; rewrite E; reflexivity|].
  cbn [apply_dev]. apply hsim_comm, close_isa_loop_comm.
Qed.

Lemma dev_rel_close_st mn x1 x2 src : xg_s x1 = xg_s x2 -> dev_rel (DCloseSt mn x1 src) (DCloseSt mn x2 src).
Proof.
  intros E. split; [cbn [strip_dev]; unfold strip_x; rewrite E; reflexivity|].
  cbn [apply_dev]. apply hsim_comm, close_st_loop_comm.
Qed.

Lemma dev_rel_close_gs mn x1 x2 src : xg_s x1 = xg_s x2 ->
  Errh.ge01_count (to_xseg x1) = Errh.ge01_count (to_xseg x2) ->
  dev_rel (DCloseGs mn x1 src) (DCloseGs mn x2 src).
Proof.
  intros E G. split; [cbn [strip_dev]; unfold strip_x; rewrite E; reflexivity|].
  cbn [apply_dev].
  assert (Errh.close_gs_loop (Some (to_xseg x1)) src = Errh.close_gs_loop (Some (to_xseg x2)) src) as ->.
  { unfold Errh.close_gs_loop. rewrite G. reflexivity. }
  apply hsim_comm, close_gs_loop_comm.
Qed.

(* ================================================================== *)
(* 3. values read from a segment                                       *)

Lemma nth_res_In {A} (xs : list A) n a : nth_res xs n = Ok a -> In a xs.
Proof.
  revert n. induction xs as [|x r IH]; intros [|n] H; cbn [nth_res] in H; try discriminate.
  - inversion H. left. reflexivity.
  - right. eapply IH, H.
Qed.

Lemma py_nth_In {A} (xs : list A) i a : py_nth xs i = Ok a -> In a xs.
Proof.
  unfold py_nth. destruct (i <? 0)%Z; [destruct (_ <? 0)%Z; [discriminate|]|]; apply nth_res_In.
Qed.

Lemma seg_get_comp_In sg r c : seg_get sg r = Ok (GotComp c) -> In c (els sg).
Proof.
  unfold seg_get. destruct (parse_refdes sg r) as [ix|e]; [|discriminate]. cbn [bind].
  unfold get_ix. destruct (fst ix) as [ei|]; [|discriminate].
  destruct (_ <=? ei)%Z; [discriminate|].
  destruct (py_nth (els sg) ei) as [c0|e] eqn:E; [|discriminate]. cbn [bind].
  destruct (snd ix) as [ci|].
  - destruct (_ <=? ci)%Z; [discriminate|]. destruct (py_nth c0 ci); discriminate.
  - intros H. inversion H. subst. eapply py_nth_In, E.
Qed.

(* every element is written without a component separator *)
Definition seg_plain (sg : seg) : bool := forallb single_valued (els sg).

Lemma get_value_plain d1 d2 sg r : seg_plain sg = true -> seg_get_value d1 sg r = seg_get_value d2 sg r.
Proof.
  intros H. unfold seg_get_value. destruct (seg_get sg r) as [g|e] eqn:E; [|reflexivity]. cbn [bind].
  destruct g as [|c|v]; cbn [value_of]; try reflexivity.
  apply seg_get_comp_In in E. unfold seg_plain in H. rewrite forallb_forall in H.
  rewrite (format_single_valued (subele_term d1) (subele_term d2) c (H c E)). reflexivity.
Qed.

(* a two-digit position *)
Lemma get_value_free d1 d2 sg (i : N) : C14_syntax.idx_ok i -> ele_free sg (N.to_nat i - 1) = true ->
  seg_get_value d1 sg (fmt_02 i) = seg_get_value d2 sg (fmt_02 i).
Proof.
  intros Hi H. rewrite !(C14_syntax.value_at _ sg i Hi).
  destruct (_ <? _)%N eqn:L; [reflexivity|]. f_equal. f_equal.
  unfold ele_free in H. apply N.ltb_ge in L. unfold seg_len in L.
  destruct (nth_error (els sg) (N.to_nat i - 1)) as [c|] eqn:E.
  - rewrite (nth_error_nth _ _ _ E). apply format_single_valued, H.
  - apply nth_error_None in E. destruct Hi. lia.
Qed.


Lemma bht02_path : exists x, parse_path (l "BHT02") = Ok x /\ seg_id x = Some (l "BHT") /\ ele_idx x = Some 2%N /\ subele_idx x = None.
Proof. eexists. split; [vm_compute; reflexivity|]. vm_compute. auto. Qed.

Lemma get_value_bht02 d1 d2 sg : ele_free sg 1 = true ->
  seg_get_value d1 sg (l "BHT02") = seg_get_value d2 sg (l "BHT02").
Proof.
  intros H. unfold seg_get_value. destruct (seg_get sg (l "BHT02")) as [g|e] eqn:E; [|reflexivity]. cbn [bind].
  destruct g as [|c|v]; cbn [value_of]; try reflexivity.
  do 2 f_equal. apply format_single_valued.
  unfold seg_get, parse_refdes in E. destruct bht02_path as (x & PP & S & EI & SI). rewrite PP in E. cbn [bind] in E.
  rewrite S, EI, SI in E. destruct (opt_eqb _ _ _); [|discriminate E]. cbn [bind option_map] in E.
  unfold get_ix in E. cbn [fst snd] in E. change (Z.of_N 2 - 1)%Z with 1%Z in E.
  destruct (_ <=? 1)%Z; [discriminate|].
  destruct (py_nth (els sg) 1) as [c0|e] eqn:P; [|discriminate]. cbn [bind] in E. inversion E; subst c0.
  unfold py_nth in P. cbn [Z.ltb Z.compare Z.to_nat Pos.to_nat Pos.iter_op Nat.add] in P.
  unfold ele_free in H. destruct (els sg) as [|e0 [|e1 r]]; cbn [nth_res] in P; try discriminate.
  inversion P; subst. exact H.
Qed.

Lemma map_eq_Forall2 {A B} (f : A -> B) xs : forall ys, map f xs = map f ys -> Forall2 (fun a b => f a = f b) xs ys.
Proof.
  induction xs as [|x r IH]; intros [|y r'] H; cbn [map] in H; try discriminate; [constructor|].
  inversion H. constructor; [assumption | apply IH; assumption].
Qed.

Lemma dev_rel_wev e1 e2 : strip_delims e1 = strip_delims e2 -> dev_rel (dev_of_wev e1) (dev_of_wev e2).
Proof.
  intros H. destruct e1 as [mn1 x1 sc1 cl1 ls1|c1 m1 v1], e2 as [mn2 x2 sc2 cl2 ls2|c2 m2 v2]; cbn [strip_delims] in H;
    try discriminate; inversion H; subst; cbn [dev_of_wev].
  - apply dev_rel_addseg. assumption.
  - apply dev_rel_plain. exact I.
Qed.

Lemma dev_rel_hev h : dev_rel (dev_of_hev h) (dev_of_hev h).
Proof. apply dev_rel_plain. destruct h; exact I. Qed.

Lemma d_bind_get_eq {A} (k : dstate -> D A) s : d_bind d_get k s = k s s.
Proof. reflexivity. Qed.

(* ================================================================== *)
(* 4. the parts of Driver.step, for two environments that differ in the delimiters only *)

Section Two.
  Variables (load : str -> result xmap) (ix : list map_entry) (cm : xmap) (d1 d2 : delims).
  Definition mkE (d : delims) : denv := {| de_load := load; de_idx := ix; de_cm := cm; de_d := d |}.
  Notation E1 := (mkE d1).
  Notation E2 := (mkE d2).

  Ltac rw R :=
    rewrite <- ?(sr_x _ _ R), <- ?(sr_w _ _ R), <- ?(sr_node _ _ R), <- ?(sr_sel _ _ R), <- ?(sr_pending _ _ R),
            <- ?(sr_valid _ _ R).

  Ltac dstep :=
    lazymatch goal with
    | |- Dsim (d_ret ?a) (d_ret ?a) => apply Dsim_ret
    | |- Dsim (d_raise _) (d_raise _) => apply Dsim_raise
    | |- Dsim (d_lift ?r) (d_lift ?r) => apply Dsim_lift; reflexivity
    | |- Dsim (d_bind d_get _) (d_bind d_get _) =>
        let R := fresh "R" in apply Dsim_bind_get; intros ? ? R; rw R
    | |- Dsim (d_bind _ _) (d_bind _ _) => apply Dsim_bind; [| intros ?]
    | |- Dsim (set_node _ _) (set_node _ _) => apply Dsim_mod, srel_with_node
    | |- Dsim (sel_upd ?F) (sel_upd ?F) => exact (Dsim_mod _ _ (srel_with_sel F))
    | |- Dsim (d_mod (fun s => with_pending s _)) _ => apply Dsim_mod, srel_with_pending
    | |- Dsim (d_mod (fun s => with_w s _)) _ => apply Dsim_mod, srel_with_w
    | |- Dsim (d_mod (fun s => with_x s (with_lx _ _))) _ => apply Dsim_mod, srel_with_lx
    | |- Dsim (if ?b then _ else _) (if ?b then _ else _) => destruct b
    | |- Dsim (match ?x with _ => _ end) (match ?x with _ => _ end) => destruct x
    end.

  Lemma handle_popped_sim : Dsim handle_popped handle_popped.
  Proof.
    unfold handle_popped. dstep. dstep; [dstep|]. apply Dsim_iter. intros e.
    destruct (err_call e) as [ev|] eqn:E; [|apply Dsim_ret]. apply Dsim_call, dev_rel_plain.
    unfold err_call in E. repeat (destruct (str_eqb _ _) in E; [inversion E; exact I|]). discriminate E.
  Qed.

  Lemma cur_info_sim : Dsim cur_info cur_info.
  Proof. unfold cur_info. repeat dstep. Qed.

  Lemma add_cur_seg_sim x1 x2 : xg_s x1 = xg_s x2 -> Dsim (add_cur_seg x1) (add_cur_seg x2).
  Proof.
    intros E. unfold add_cur_seg. apply Dsim_bind; [apply cur_info_sim|]. intros i. dstep.
    apply Dsim_call, dev_rel_addseg, E.
  Qed.

  Lemma switch_map_sim new : Dsim (switch_map E1 new) (switch_map E2 new).
  Proof. unfold switch_map. cbn [de_load mkE]. repeat dstep. Qed.

  (* ---- find_node ---- *)
  Lemma find_node_isa_sim sg1 sg2 : sid_is sg1 "ISA" = true -> sid_is sg2 "ISA" = true ->
    Dsim (find_node E1 sg1) (find_node E2 sg2).
  Proof. intros H1 H2. unfold find_node. rewrite H1, H2. cbn [de_cm mkE]. repeat dstep. Qed.

  Lemma find_node_gs_sim sg : sid_is sg "ISA" = false -> sid_is sg "GS" = true ->
    Dsim (find_node E1 sg) (find_node E2 sg).
  Proof. intros H1 H2. unfold find_node. rewrite H1, H2. cbn [de_cm mkE]. repeat dstep. Qed.

  Definition find_tail (mp : xmap) (w' : wstate) (evs : list wev) (res : result walk_result) : D bool :=
    dod_ d_mod (fun st => with_w st w');
    dod_ d_iter (fun e => call_errh (dev_of_wev e)) evs;
    dod out <- d_lift res;
    match fst (fst out) with
    | Some r' => dod_ set_node mp r'; d_ret true
    | None => d_ret false
    end.

  Lemma find_tail_sim mp w ev1 ev2 res : map strip_delims ev1 = map strip_delims ev2 ->
    Dsim (find_tail mp w ev1 res) (find_tail mp w ev2 res).
  Proof.
    intros H. unfold find_tail. dstep; [dstep|]. apply Dsim_bind.
    - apply (Dsim_iter2 (fun a b => strip_delims a = strip_delims b)); [apply map_eq_Forall2, H|].
      intros x y Hxy. apply Dsim_call, dev_rel_wev, Hxy.
    - intros _. repeat dstep.
  Qed.

  Lemma find_node_walk_sim sg s1 s2 : srel s1 s2 -> sid_is sg "ISA" = false -> sid_is sg "GS" = false ->
    match_ok_everywhere (fst (ds_node s1)) sg = true -> dsim (find_node E1 sg) (find_node E2 sg) s1 s2.
  Proof.
    intros R HI HG HM. unfold find_node. rewrite HI, HG. unfold dsim. rewrite !d_bind_get_eq.
    cbn [de_d mkE]. rewrite <- (sr_x _ _ R), <- (sr_w _ _ R), <- (sr_node _ _ R).
    pose proof (walker_delims_irrelevant (fst (ds_node s1)) (ds_w s1) (snd (ds_node s1)) d1 d2 sg
                  (seg_count (ds_x s1)) (cur_line (ds_x s1)) None HM) as W.
    destruct (walk_st _ _ _ d1 _ _ _ _) as [[w1 ev1] r1].
    destruct (walk_st _ _ _ d2 _ _ _ _) as [[w2 ev2] r2].
    destruct W as (<- & <- & Hev).
    exact (find_tail_sim (fst (ds_node s1)) w1 ev1 ev2 r1 Hev s1 s2 R).
  Qed.

  (* ---- validate ---- *)
  Definition vtail (r : result (bool * list hev)) : D unit :=
    dod res <- d_lift r;
    dod_ d_iter (fun h => call_errh (dev_of_hev h)) (snd res);
    d_mod (fun st => with_valid st (ds_valid st && fst res)).

  Lemma vtail_sim r : Dsim (vtail r) (vtail r).
  Proof.
    unfold vtail. dstep; [dstep|]. dstep.
    - apply Dsim_iter. intros h. apply Dsim_call, dev_rel_hev.
    - apply Dsim_mod, srel_with_valid.
  Qed.

  Lemma validate_sim sg1 sg2 s1 s2 : srel s1 s2 ->
    (forall sn, get_node (fst (ds_node s1)) (snd (ds_node s1)) = Ok (NSeg sn) ->
       seg_is_valid d1 (ctx_of (fst (ds_node s1))) sn sg1 = seg_is_valid d2 (ctx_of (fst (ds_node s1))) sn sg2) ->
    dsim (validate E1 sg1) (validate E2 sg2) s1 s2.
  Proof.
    intros R H. unfold validate, dsim. rewrite !d_bind_get_eq. cbn [de_d mkE]. rewrite <- (sr_node _ _ R).
    destruct (get_node (fst (ds_node s1)) (snd (ds_node s1))) as [[a b c0 d e f pm|sn]|ex] eqn:G.
    - exact (Dsim_raise AttributeError s1 s2 R).
    - change (dsim (vtail (seg_is_valid d1 (ctx_of (fst (ds_node s1))) sn sg1))
                   (vtail (seg_is_valid d2 (ctx_of (fst (ds_node s1))) sn sg2)) s1 s2).
      rewrite <- (H sn eq_refl). apply vtail_sim, R.
    - split; [exact R | reflexivity].
  Qed.
  (* ---- the branch on the segment id ---- *)
  Lemma ctl_plain sg : ctl_simple sg = true -> is_ctl sg = true -> seg_plain sg = true.
  Proof.
    unfold ctl_simple. intros H C. rewrite C in H. unfold seg_plain. rewrite forallb_forall in *.
    intros c Hc. apply single_valued_short. specialize (H c Hc). apply Nat.eqb_eq in H. lia.
  Qed.

  Lemma is_ctl_of sg (id : string) : In id ["GS"; "ST"; "SE"; "GE"; "IEA"; "HL"; "LX"]%string -> sid_is sg id = true -> is_ctl sg = true.
  Proof. unfold is_ctl. intros H E. apply existsb_exists. exists id. split; [exact H | exact E]. Qed.

  Lemma mk_gs_strip d sg src : seg_plain sg = true ->
    rmap (map_gs strip_xseg) (Errh.mk_gs {| Errh.xs_d := d; Errh.xs_s := sg |} src) = Errh.mk_gs {| Errh.xs_d := D0; Errh.xs_s := sg |} src.
  Proof.
    intros HP. unfold Errh.mk_gs, Errh.xget. cbn [Errh.xs_d Errh.xs_s].
    rewrite !(get_value_plain d D0 sg _ HP).
    destruct (seg_get_value D0 sg _) as [a|e]; [|reflexivity]. cbn [bind].
    destruct (seg_get_value D0 sg _) as [b|e]; reflexivity.
  Qed.

  Lemma mk_st_strip d sg src : seg_plain sg = true ->
    rmap (map_st strip_xseg) (Errh.mk_st {| Errh.xs_d := d; Errh.xs_s := sg |} src) = Errh.mk_st {| Errh.xs_d := D0; Errh.xs_s := sg |} src.
  Proof.
    intros HP. unfold Errh.mk_st, Errh.xget. cbn [Errh.xs_d Errh.xs_s].
    rewrite !(get_value_plain d D0 sg _ HP).
    destruct (seg_get_value D0 sg _) as [a|e]; [|reflexivity]. cbn [bind].
    destruct (seg_get_value D0 sg _) as [b|e]; reflexivity.
  Qed.

  Lemma dev_rel_addgs sg src : seg_plain sg = true ->
    dev_rel (DAddGs {| xg_d := d1; xg_s := sg |} src) (DAddGs {| xg_d := d2; xg_s := sg |} src).
  Proof.
    intros HP. split; [reflexivity|]. cbn [apply_dev]. unfold to_xseg. cbn [xg_d xg_s].
    apply (hsim_via _ _ (Errh.add_gs_loop {| Errh.xs_d := D0; Errh.xs_s := sg |} src)); apply add_gs_loop_comm, mk_gs_strip, HP.
  Qed.

  Lemma dev_rel_addst sg src : seg_plain sg = true ->
    dev_rel (DAddSt {| xg_d := d1; xg_s := sg |} src) (DAddSt {| xg_d := d2; xg_s := sg |} src).
  Proof.
    intros HP. split; [reflexivity|]. cbn [apply_dev]. unfold to_xseg. cbn [xg_d xg_s].
    apply (hsim_via _ _ (Errh.add_st_loop {| Errh.xs_d := D0; Errh.xs_s := sg |} src)); apply add_st_loop_comm, mk_st_strip, HP.
  Qed.

  Lemma ge01_plain sg : seg_plain sg = true ->
    Errh.ge01_count (to_xseg {| xg_d := d1; xg_s := sg |}) = Errh.ge01_count (to_xseg {| xg_d := d2; xg_s := sg |}).
  Proof.
    intros HP. unfold Errh.ge01_count, Errh.xget, to_xseg. cbn [Errh.xs_d Errh.xs_s xg_d xg_s].
    rewrite (get_value_plain d1 d2 sg _ HP). reflexivity.
  Qed.

  Ltac dauto HP :=
    repeat first
      [ apply handle_popped_sim | apply cur_info_sim | apply switch_map_sim
      | apply add_cur_seg_sim; reflexivity
      | apply Dsim_lift, get_value_plain; exact HP
      | apply Dsim_call, dev_rel_close_isa; reflexivity
      | apply Dsim_call, dev_rel_close_st; reflexivity
      | apply Dsim_call, dev_rel_close_gs; [reflexivity | apply ge01_plain; exact HP]
      | apply Dsim_call, dev_rel_addgs; exact HP
      | apply Dsim_call, dev_rel_addst; exact HP
      | match goal with |- Dsim (let x := _ in _) _ => cbv zeta end
      | dstep ].

  Lemma dispatch_body_sim sg : sid_is sg "ISA" = false -> ctl_simple sg = true -> seg_values_ok sg = true ->
    Dsim (dispatch_seg E1 sg) (dispatch_seg E2 sg).
  Proof.
    intros HI HC HV. unfold dispatch_seg. rewrite HI. cbn [de_d de_idx mkE]. cbv zeta.
    destruct (sid_is sg "IEA") eqn:H1.
    { pose proof (ctl_plain sg HC (is_ctl_of sg "IEA" ltac:(cbn; tauto) H1)) as HP. dauto HP. }
    destruct (sid_is sg "GS") eqn:H2.
    { pose proof (ctl_plain sg HC (is_ctl_of sg "GS" ltac:(cbn; tauto) H2)) as HP. dauto HP. }
    destruct (sid_is sg "BHT") eqn:H3.
    { unfold seg_values_ok in HV. rewrite H3 in HV. cbn [implb] in HV.
      assert (HP : seg_plain sg = true -> True) by auto.
      dstep. dstep.
      - destruct (_ || _); [|apply Dsim_ret].
        apply Dsim_bind; [apply Dsim_lift, get_value_bht02, HV|]. intros tspc. dauto HP.
      - dauto HP. }
    destruct (sid_is sg "GE") eqn:H4.
    { pose proof (ctl_plain sg HC (is_ctl_of sg "GE" ltac:(cbn; tauto) H4)) as HP. dauto HP. }
    destruct (sid_is sg "ST") eqn:H5.
    { pose proof (ctl_plain sg HC (is_ctl_of sg "ST" ltac:(cbn; tauto) H5)) as HP. dauto HP. }
    destruct (sid_is sg "SE") eqn:H6.
    { pose proof (ctl_plain sg HC (is_ctl_of sg "SE" ltac:(cbn; tauto) H6)) as HP. dauto HP. }
    assert (HP : True) by exact I. dauto HP.
  Qed.
  (* ---- the interchange header: the two segments differ in ISA16 ---- *)
  Definition isa_masked (f : list str) : seg := {| sid := Some (l "ISA"); els := map (fun v => [v]) f |}.

  Lemma mk_isa_strip d f src : length f = 15 ->
    rmap (map_isa strip_isa_xseg) (Errh.mk_isa {| Errh.xs_d := d; Errh.xs_s := isa_for d f |} src) =
    Errh.mk_isa {| Errh.xs_d := D0; Errh.xs_s := isa_masked f |} src.
  Proof.
    intros L. do 15 (destruct f as [|? f]; [discriminate L|]). destruct f; [|discriminate L].
    vm_compute. reflexivity.
  Qed.

  Lemma isa12_same f : length f = 15 ->
    seg_get_value d1 (isa_for d1 f) (l "ISA12") = seg_get_value d2 (isa_for d2 f) (l "ISA12").
  Proof.
    intros L. do 15 (destruct f as [|? f]; [discriminate L|]). destruct f; [|discriminate L].
    vm_compute. reflexivity.
  Qed.

  Lemma mask_isa_for d f : length f = 15 -> mask_isa16 (isa_for d f) = isa_masked f.
  Proof.
    intros L. do 15 (destruct f as [|? f]; [discriminate L|]). destruct f; [|discriminate L]. reflexivity.
  Qed.

  Lemma dev_rel_addisa f src : length f = 15 ->
    dev_rel (DAddIsa {| xg_d := d1; xg_s := isa_for d1 f |} src) (DAddIsa {| xg_d := d2; xg_s := isa_for d2 f |} src).
  Proof.
    intros L. split.
    - cbn [strip_dev]. unfold strip_isa_x. cbn [xg_s]. rewrite !mask_isa_for by exact L. reflexivity.
    - cbn [apply_dev]. unfold to_xseg. cbn [xg_d xg_s].
      apply (hsim_via _ _ (Errh.add_isa_loop {| Errh.xs_d := D0; Errh.xs_s := isa_masked f |} src));
        apply add_isa_loop_comm, mk_isa_strip, L.
  Qed.

  Lemma dispatch_isa_sim f : length f = 15 -> Dsim (dispatch_seg E1 (isa_for d1 f)) (dispatch_seg E2 (isa_for d2 f)).
  Proof.
    intros L. unfold dispatch_seg.
    change (sid_is (isa_for d1 f) "ISA") with true. change (sid_is (isa_for d2 f) "ISA") with true.
    cbv iota zeta. cbn [de_d mkE].
    dstep. dstep; [apply Dsim_call, dev_rel_addisa, L|].
    apply Dsim_bind; [apply Dsim_lift, isa12_same, L|]. intros v.
    dstep; [dstep|]. apply handle_popped_sim.
  Qed.

  (* ================================================================== *)
  (* 5. LAYER (a): one step                                              *)

  (* a data segment: the same segment in both runs *)
  Theorem step_sim sg s1 s2 :
    srel s1 s2 -> sid_is sg "ISA" = false -> ctl_simple sg = true -> step_layers_ok E1 s1 sg = true ->
    dsim (step E1 sg) (step E2 sg) s1 s2.
  Proof.
    intros R HI HC HL. unfold step_layers_ok, match_layer_ok, valid_layer_ok in HL. rewrite HI in HL. cbn [orb] in HL.
    apply andb_true_iff in HL as [HL HV]. apply andb_true_iff in HL as [HS HM].
    assert (F : dsim (find_node E1 sg) (find_node E2 sg) s1 s2).
    { destruct (sid_is sg "GS") eqn:HG.
      - apply (find_node_gs_sim sg HI HG), R.
      - cbn [orb] in HM. apply find_node_walk_sim; assumption. }
    unfold step. apply dsim_bind; [exact F|]. intros found Ef R1.
    destruct (find_node E1 sg s1) as [st1 r1] eqn:F1. cbn [fst snd] in *. subst r1.
    destruct found; [|apply handle_popped_sim, R1].
    pose proof (dispatch_body_sim sg HI HC HS st1 (fst (find_node E2 sg s2)) R1) as DS.
    apply dsim_bind; [exact DS|]. intros u Eu R2.
    destruct (dispatch_seg E1 sg st1) as [st2 r2] eqn:D1. cbn [fst snd] in *. subst r2.
    apply validate_sim; [exact R2|]. intros sn G. rewrite G in HV.
    apply andb_true_iff in HV as [V1 V2]. apply validation_delims_irrelevant; assumption.
  Qed.

  (* the interchange header: written with its own ISA16 in each run *)
  Theorem step_isa_sim f s1 s2 :
    srel s1 s2 -> length f = 15 ->
    (forall st1 st2 u sn,
       find_node E1 (isa_for d1 f) s1 = (st1, Ok true) -> dispatch_seg E1 (isa_for d1 f) st1 = (st2, Ok u) ->
       get_node (fst (ds_node st2)) (snd (ds_node st2)) = Ok (NSeg sn) ->
       seg_is_valid d1 (ctx_of (fst (ds_node st2))) sn (isa_for d1 f) =
       seg_is_valid d2 (ctx_of (fst (ds_node st2))) sn (isa_for d2 f)) ->
    dsim (step E1 (isa_for d1 f)) (step E2 (isa_for d2 f)) s1 s2.
  Proof.
    intros R L HV. unfold step.
    pose proof (find_node_isa_sim (isa_for d1 f) (isa_for d2 f) eq_refl eq_refl s1 s2 R) as F.
    apply dsim_bind; [exact F|]. intros found Ef R1.
    destruct (find_node E1 (isa_for d1 f) s1) as [st1 r1] eqn:F1. cbn [fst snd] in *. subst r1.
    destruct found; [|apply handle_popped_sim, R1].
    pose proof (dispatch_isa_sim f L st1 (fst (find_node E2 (isa_for d2 f) s2)) R1) as DS.
    apply dsim_bind; [exact DS|]. intros u Eu R2.
    destruct (dispatch_seg E1 (isa_for d1 f) st1) as [st2 r2] eqn:D1. cbn [fst snd] in *. subst r2.
    apply validate_sim; [exact R2|]. intros sn G. refine (HV st1 st2 u sn _ _ G); first [assumption | reflexivity].
  Qed.
End Two.

Print Assumptions Dsim_call.
Print Assumptions get_value_plain.
Print Assumptions find_node_walk_sim.
Print Assumptions validate_sim.
Print Assumptions dispatch_body_sim.
Print Assumptions step_sim.
Print Assumptions step_isa_sim.
