(* Counter_keys.v — the fact Model/Counter.v relies on: two X12Path keys that are
   `==` (path_eqb) are the same record, hence print the same (format_path), hence
   have the same __hash__ (the hash of the printed path).  So a dict lookup by
   hash-then-eq finds exactly the stored key that is path_eqb to the probe. *)
From PX.Lib Require Import Base PyStr.
From PX.Model Require Import Path Counter.

Lemma list_eqb_str_eq a b : list_eqb str_eqb a b = true -> a = b.
Proof.
  revert b; induction a as [|x a IH]; destruct b as [|y b]; simpl; try discriminate; auto.
  intros H. apply andb_true_iff in H as [H1 H2]. apply str_eqb_eq in H1. apply IH in H2. congruence.
Qed.

Lemma opt_eqb_str_eq a b : opt_eqb str_eqb a b = true -> a = b.
Proof.
  destruct a, b; simpl; try discriminate; auto. intros H. apply str_eqb_eq in H. congruence.
Qed.

Lemma opt_eqb_N_eq a b : opt_eqb N.eqb a b = true -> a = b.
Proof.
  destruct a, b; simpl; try discriminate; auto. intros H. apply N.eqb_eq in H. congruence.
Qed.

Lemma path_eqb_eq a b : path_eqb a b = true -> a = b.
Proof.
  unfold path_eqb. intros H.
  repeat (apply andb_true_iff in H; destruct H as [H ?]).
  destruct a, b; simpl in *.
  f_equal.
  - apply eqb_prop; assumption.
  - apply list_eqb_str_eq; assumption.
  - apply opt_eqb_str_eq; assumption.
  - apply opt_eqb_str_eq; assumption.
  - apply opt_eqb_N_eq; assumption.
  - apply opt_eqb_N_eq; assumption.
Qed.

Corollary eq_keys_print_the_same a b : path_eqb a b = true -> format_path a = format_path b.
Proof. intros H. apply path_eqb_eq in H. congruence. Qed.

(* a lookup after an insertion behaves like a dict *)
Lemma find_put_same c k v : counter_find (counter_put c k v) k = Some v.
Proof.
  induction c as [|[k' v'] c IH]; simpl.
  - destruct (path_eqb k k) eqn:E; [reflexivity|].
    assert (path_eqb k k = true) as R.
    { unfold path_eqb. destruct k; simpl.
      assert (forall l, list_eqb str_eqb l l = true) as LR by (induction l as [|x l IHl]; simpl; [reflexivity | rewrite str_eqb_refl, IHl; reflexivity]).
      assert (forall o : option str, opt_eqb str_eqb o o = true) as OS by (destruct o; simpl; [apply str_eqb_refl | reflexivity]).
      assert (forall o : option N, opt_eqb N.eqb o o = true) as ON by (destruct o; simpl; [apply N.eqb_refl | reflexivity]).
      rewrite LR, !OS, !ON, eqb_reflx. reflexivity. }
    congruence.
  - destruct (path_eqb k' k) eqn:E; simpl; rewrite E; [reflexivity | exact IH].
Qed.
