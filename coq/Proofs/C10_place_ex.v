(* C10_place_ex.v — non-vacuity and counterexamples for the placement / iteration / delete laws
   (Proofs/C10_place.v, C10_place_iter.v, C10_place_del.v), on small concrete heaps built with the API. *)
From Coq Require Import String.
From PX.Lib Require Import Base PyStr.
From PX.Model Require Import Path Segment MapLoad MapTree Walker Context.
From PX.Spec Require Import C10_spec C10_place_spec.
From PX.Proofs Require Import Ctx_basics C10_tree C10_place C10_place_iter C10_place_del.

Definition s (x : string) : str := list_ascii_of_string x.
Definition e_ (dn : string) : elem :=
  {| e_id := None; e_data_ele := Some (s dn); e_usage := Some (s "R"); e_name := None; e_seq := 1%Z; e_path := None;
     e_max_use := None; e_res := None; e_rec := None; e_codes := []; e_external := None |}.
Definition seg_ (id : string) (pos : Z) : segm :=
  {| s_id := Some (s id); s_path := Some (s id); s_type := None; s_name := None; s_usage := None; s_pos := pos;
     s_max_use := None; s_repeat := None; s_end_tag := None; s_syntax := []; s_children := [SubE (e_ "127")] |}.
(* map: loop L { AAA pos 10, BBB pos 20, CCC pos 30, loop M pos 40 { MMM pos 10 } } *)
Definition tmap : xmap :=
  {| m_id := Some (s "T"); m_name := None;
     m_pos_map := [(1%Z, [NLoop (Some (s "L")) None None None 1%Z None
                           [(10%Z, [NSeg (seg_ "AAA" 10)]); (20%Z, [NSeg (seg_ "BBB" 20)]); (30%Z, [NSeg (seg_ "CCC" 30)]);
                            (40%Z, [NLoop (Some (s "M")) None None None 40%Z None [(10%Z, [NSeg (seg_ "MMM" 10)])]])]])];
     m_dataele := [ {| de_num := Some (s "127"); de_type := Some (s "AN"); de_min := 1; de_max := 30; de_name := None |} ];
     m_codes := []; m_exclude := []; m_charset := []; m_icvn := None |}.
Definition mL := {| mn_map := tmap; mn_ref := [0] |}.
Definition dl := {| seg_term := "~"; ele_term := "*"; subele_term := ":" |}.
Definition xs (t : string) : xsg := {| xg_d := dl; xg_s := parse_seg dl (s t) |}.
Definition sg (t : string) : segarg := ArgObj (xs t).

(* run a script of writers, keeping the heap *)
Definition run {A} (m : H A) (h : heap) : heap := fst (m h).
Definition ids (r : result (list (Z * oid))) : result (list (Z * oid)) := r.

(* an empty loop node L *)
Definition h0 : heap := [new_loop (Some mL) [] RNone].

(* ---- placement in map order: BBB, CCC, AAA?? ---- *)
Definition h1 := run (add_segment 0 (sg "BBB*b~")) h0.                 (* 1 = BBB *)
Definition h2 := run (add_segment 0 (sg "CCC*c~")) h1.                 (* 2 = CCC *)
Definition h3 := run (add_segment 0 (sg "BBB*b2~")) h2.                (* 3 = BBB again: same position goes last *)
Definition h4 := run (add_loop 0 (sg "MMM*m~")) h3.                    (* 4 = loop M [5 = MMM] *)

Example ex_map_order :
  live_children h1 0 = Ok [(20%Z, 1)] /\
  live_children h2 0 = Ok [(20%Z, 1); (30%Z, 2)] /\
  live_children h3 0 = Ok [(20%Z, 1); (20%Z, 3); (30%Z, 2)] /\
  live_children h4 0 = Ok [(20%Z, 1); (20%Z, 3); (30%Z, 2); (40%Z, 4)] /\
  live_children h4 4 = Ok [(10%Z, 5)].
Proof. repeat split; vm_compute; reflexivity. Qed.

(* AAA (position 10) added to [BBB 20; BBB 20; CCC 30; M 40]: no sibling has a position <= 10, and the new
   node goes in FRONT.  (Before fix 599027a _get_insert_idx returned len(children) here and AAA was placed
   last, after loop M: [B; B; C; M; A] -- the defect this proof effort found.) *)
Example ex_lowest_position_goes_first :
  exists h5, add_segment 0 (sg "AAA*a~") h4 = (h5, Ok 6) /\
             live_children h5 0 = Ok [(10%Z, 6); (20%Z, 1); (20%Z, 3); (30%Z, 2); (40%Z, 4)].
Proof. eexists. split; vm_compute; reflexivity. Qed.

(* the case of the report: [B(20), C(30)] + A(10) -> [A, B, C] *)
Example ex_repaired_BC_plus_A :
  exists h', add_segment 0 (sg "AAA*a~") h2 = (h', Ok 3) /\
             live_children h2 0 = Ok [(20%Z, 1); (30%Z, 2)] /\
             live_children h' 0 = Ok [(10%Z, 3); (20%Z, 1); (30%Z, 2)].
Proof. eexists. split; [vm_compute; reflexivity|]. split; vm_compute; reflexivity. Qed.

(* ================================================================== *)
(* the hypotheses are satisfiable: these heaps are forests             *)

Lemma run_eq {A} (m : H A) h a : snd (m h) = Ok a -> m h = (run m h, Ok a).
Proof. unfold run. destruct (m h) as [h' r]. cbn. intros ->. reflexivity. Qed.

Example forest_h0 : forest h0.
Proof.
  split.
  - intros o Lo. exists 1. destruct o as [|o]; [|cbn in Lo; lia]. econstructor; [reflexivity|]. intros k [].
  - intros [|o] x E; cbn in E; [injection E as <-; constructor|destruct o; discriminate].
  - intros [|o1] o2 x1 x2 k E1 E2 I1 I2; cbn in E1; [injection E1 as <-; destruct I1|destruct o1; discriminate].
Qed.

Lemma add_segment_keeps_forest h p a n : forest h -> snd (add_segment p a h) = Ok n -> forest (run (add_segment p a) h).
Proof.
  intros F E. apply run_eq in E. destruct (add_segment_placement _ _ _ _ _ F E) as (? & ? & ? & ? & ? & ? & _ & _ & _ & _ & _ & _ & _ & _ & _ & _ & F').
  exact F'.
Qed.

Example forest_h3 : forest h3.
Proof.
  eapply add_segment_keeps_forest with (n := 3); [|vm_compute; reflexivity].
  eapply add_segment_keeps_forest with (n := 2); [|vm_compute; reflexivity].
  eapply add_segment_keeps_forest with (n := 1); [|vm_compute; reflexivity].
  exact forest_h0.
Qed.

Example forest_h4 : forest h4.
Proof.
  assert (E : add_loop 0 (sg "MMM*m~") h3 = (h4, Ok 4)) by (apply (run_eq (add_loop 0 (sg "MMM*m~")) h3 4); vm_compute; reflexivity).
  destruct (add_loop_placement _ _ _ _ _ forest_h3 E) as (? & ? & ? & ? & ? & ? & ? & ? & _ & _ & _ & _ & _ & _ & _ & _ & _ & _ & _ & _ & _ & F').
  exact F'.
Qed.

(* ================================================================== *)
(* iteration                                                           *)

Definition nodes (t : gtrace seg_item) : list oid * option exn := (map it_node (fst t), snd t).

(* L [ BBB 1; BBB 3; CCC 2; M 4 [ MMM 5 ] ] *)
Example ex_iterate_h4 : nodes (node_iterate_segments h4 0) = ([1; 3; 2; 5], None).
Proof. vm_compute; reflexivity. Qed.

(* add_segment: the new segment's item at its place, everything else as before *)
Example ex_iterate_after_add_segment :
  exists h5, add_segment 0 (sg "CCC*c2~") h4 = (h5, Ok 6) /\
             live_children h5 0 = Ok [(20%Z, 1); (20%Z, 3); (30%Z, 2); (30%Z, 6); (40%Z, 4)] /\
             nodes (node_iterate_segments h5 0) = ([1; 3; 2; 6; 5], None).
Proof. eexists. split; [vm_compute; reflexivity|]. split; vm_compute; reflexivity. Qed.

(* add_loop: the new loop at its place, with its segment *)
Example ex_iterate_after_add_loop :
  exists h5, add_loop 0 (sg "MMM*m2~") h4 = (h5, Ok 6) /\
             live_children h5 0 = Ok [(20%Z, 1); (20%Z, 3); (30%Z, 2); (40%Z, 4); (40%Z, 6)] /\
             live_children h5 6 = Ok [(10%Z, 7)] /\
             nodes (node_iterate_segments h5 0) = ([1; 3; 2; 5; 7], None).
Proof. eexists. split; [vm_compute; reflexivity|]. split; [vm_compute; reflexivity|]. split; vm_compute; reflexivity. Qed.

(* copy then add_node: the copied loop (6, with its segment 7) is detached, so the laws apply *)
Example ex_copy_then_add_node :
  exists h5 h6, copy_node 4 h4 = (h5, Ok 6) /\ add_node 0 6 h5 = (h6, Ok tt) /\
                live_children h6 0 = Ok [(20%Z, 1); (20%Z, 3); (30%Z, 2); (40%Z, 4); (40%Z, 6)] /\
                nodes (node_iterate_segments h6 0) = ([1; 3; 2; 5; 7], None).
Proof. eexists. eexists. split; [vm_compute; reflexivity|]. split; [vm_compute; reflexivity|]. split; vm_compute; reflexivity. Qed.

(* COUNTEREXAMPLE, add_node without the "detached" hypothesis: add_node does not check that the node
   is not already somebody's child.  Adding child 1 of L to L again lists it twice: iterate_segments
   yields it twice and the heap is no forest any more. *)
Example ex_add_node_attached_twice :
  exists h5, add_node 0 1 h4 = (h5, Ok tt) /\
             live_children h5 0 = Ok [(20%Z, 1); (20%Z, 3); (20%Z, 1); (30%Z, 2); (40%Z, 4)] /\
             nodes (node_iterate_segments h5 0) = ([1; 3; 1; 2; 5], None) /\
             ~ forest h5.
Proof.
  eexists. split; [vm_compute; reflexivity|]. split; [vm_compute; reflexivity|]. split; [vm_compute; reflexivity|].
  intros F. pose proof (f_nodup _ F 0 _ eq_refl) as N. vm_compute in N.
  inversion N as [|? ? N1 _]; subst. apply N1. right. left. reflexivity.
Qed.

(* ================================================================== *)
(* delete                                                              *)

(* delete() of the second BBB (3): gone from the live children, from iteration, from select / count /
   exists / first; the tombstone stays in the raw children list until the next add *)
Example ex_delete_segment_node :
  exists h5, node_delete 3 h4 = (h5, Ok tt) /\
             live_children h5 0 = Ok [(20%Z, 1); (30%Z, 2); (40%Z, 4)] /\
             option_map o_children (nth_error h5 0) = Some [1; 3; 2; 4] /\
             nodes (node_iterate_segments h5 0) = ([1; 2; 5], None) /\
             g_all (node_select h4 0 (s "BBB")) = Ok [1; 3] /\ g_all (node_select h5 0 (s "BBB")) = Ok [1] /\
             node_count h4 0 (s "BBB") = Ok 2 /\ node_count h5 0 (s "BBB") = Ok 1 /\
             node_first h5 0 (s "BBB") = Ok (Some 1) /\
             (* a second delete is a no-op *)
             node_delete 3 h5 = (h5, Ok tt).
Proof. eexists. split; [vm_compute; reflexivity|]. repeat split; vm_compute; reflexivity. Qed.

(* delete() of loop M (4): its segment 5 disappears with it, also for a path through the loop *)
Example ex_delete_loop :
  exists h5, node_delete 4 h4 = (h5, Ok tt) /\
             subtree h4 4 = [4; 5] /\
             nodes (node_iterate_segments h5 0) = ([1; 3; 2], None) /\
             g_all (node_select h4 0 (s "M/MMM")) = Ok [5] /\ g_all (node_select h5 0 (s "M/MMM")) = Ok [] /\
             node_exists h4 0 (s "M") = Ok true /\ node_exists h5 0 (s "M") = Ok false /\
             (* the former child still points at the tombstone: a query through it finds nothing, not even itself *)
             option_map o_parent (nth_error h5 5) = Some (RObj 4) /\
             node_exists h4 5 (s "../MMM") = Ok true /\ node_exists h5 5 (s "../MMM") = Ok false.
Proof. eexists. split; [vm_compute; reflexivity|]. repeat split; vm_compute; reflexivity. Qed.

(* delete the first child, then add a segment with the lowest position: the tombstone is dropped from
   the list and the new node goes first *)
Example ex_delete_then_add :
  exists h5 h6, node_delete 1 h4 = (h5, Ok tt) /\ add_segment 0 (sg "AAA*a~") h5 = (h6, Ok 6) /\
                option_map o_children (nth_error h5 0) = Some [1; 3; 2; 4] /\
                option_map o_children (nth_error h6 0) = Some [6; 3; 2; 4] /\
                live_children h6 0 = Ok [(10%Z, 6); (20%Z, 3); (30%Z, 2); (40%Z, 4)] /\
                nodes (node_iterate_segments h6 0) = ([6; 3; 2; 5], None).
Proof. eexists. eexists. split; [vm_compute; reflexivity|]. repeat split; vm_compute; reflexivity. Qed.

(* delete_segment: takes out the first matching segment that is NOT the first child; the node stays
   live and keeps its parent pointer *)
Example ex_delete_segment :
  exists h5, delete_segment 0 (sg "BBB*b2~") h4 = (h5, Ok true) /\
             option_map o_children (nth_error h5 0) = Some [1; 2; 4] /\
             option_map o_live (nth_error h5 3) = Some true /\ option_map o_parent (nth_error h5 3) = Some (RObj 0) /\
             nodes (node_iterate_segments h5 0) = ([1; 2; 5], None) /\
             g_all (node_select h5 0 (s "BBB")) = Ok [1].
Proof. eexists. split; [vm_compute; reflexivity|]. repeat split; vm_compute; reflexivity. Qed.

(* ... so the first child is never deleted, although it matches *)
Example ex_delete_segment_first_child :
  delete_segment 0 (sg "BBB*b~") h4 = (h4, Ok false) /\ seg_matches h4 (xs "BBB*b~") 1 = true.
Proof. split; vm_compute; reflexivity. Qed.

(* ... and of two equal segments only the first (after the first child) goes *)
Definition h4b := run (add_segment 0 (sg "BBB*b2~")) h4.                 (* 6 = BBB*b2 again *)
Example ex_delete_segment_only_one :
  exists h5, delete_segment 0 (sg "BBB*b2~") h4b = (h5, Ok true) /\
             live_children h4b 0 = Ok [(20%Z, 1); (20%Z, 3); (20%Z, 6); (30%Z, 2); (40%Z, 4)] /\
             live_children h5 0 = Ok [(20%Z, 1); (20%Z, 6); (30%Z, 2); (40%Z, 4)].
Proof. eexists. split; [vm_compute; reflexivity|]. split; vm_compute; reflexivity. Qed.

(* a segment the map of the loop does not know: False, heap untouched (add_segment raises instead) *)
Example ex_delete_segment_unknown :
  delete_segment 0 (sg "ZZZ*z~") h4 = (h4, Ok false) /\ snd (add_segment 0 (sg "ZZZ*z~") h4) = Raise X12PathError.
Proof. split; vm_compute; reflexivity. Qed.

(* the theorems apply to these heaps: the delete laws instantiated on h4, node 4 *)
Example ex_delete_law_instance :
  forall h5 q sp xs, node_delete 4 h4 = (h5, Ok tt) ->
    (forall y, up_chain h4 q y -> in_subtree h4 4 y = false) ->
    g_all (node_select h4 q sp) = Ok xs ->
    g_all (node_select h5 q sp) = Ok (filter (fun o => negb (in_subtree h4 4 o)) xs).
Proof.
  intros h5 q sp xs E Up Sel. destruct (node_delete_laws _ _ _ forest_h4 E) as (_ & _ & _ & _ & _ & _ & Q).
  apply (Q q sp xs Up Sel).
Qed.

(* and the hypothesis on up_chain holds for the root 0 (it has no parent) *)
Example ex_up_chain_root : forall y, up_chain h4 0 y -> in_subtree h4 4 y = false.
Proof.
  intros y U. assert (y = 0); [|subst y; vm_compute; reflexivity].
  induction U as [|y oy z U IH Ey Ep]; [reflexivity|]. subst y. vm_compute in Ey. injection Ey as <-. discriminate.
Qed.

Print Assumptions forest_h4.
Print Assumptions ex_repaired_BC_plus_A.
Print Assumptions ex_add_node_attached_twice.
Print Assumptions ex_delete_law_instance.
