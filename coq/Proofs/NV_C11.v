(* NV_C11.v — non-vacuity of the hypotheses of the theorems of Props/C11.v.
   An example already exists: C11_writer.real_history_ok (re-exported as
   Props/C11.C11_hypotheses_satisfiable) shows history_ok, distinct_delims,
   trailer_ids_writable, count_digits_writable and isa_ids_writable on a real,
   complete interchange.  The examples below add what it does not show: the
   repetition-separator hypothesis, the run hypothesis `w_run_close = Ok es`,
   a history whose trailers are wrong / omitted / left to Close, a version
   00501 ISA, and the conclusions evaluated. *)
From Coq Require Import String.
From PX.Lib Require Import Base PyStr.
From PX.Model Require Import Path Segment Raw Reader Writer.
From PX.Spec Require Import C01_spec C04_spec C11_spec.
From PX.Proofs Require Import C04_reader C11_writer.

Definition nv_d : delims := {| seg_term := "~"%char; ele_term := "*"%char; subele_term := ":"%char |}.
Definition p (t : string) : seg := parse_seg nv_d (list_ascii_of_string t).
Definition nv_rep : str := C01_spec.cs "^".
Definition nv_eol : str := [ascii_of_nat 10].

(* a 00501 ISA (ISA11 is rewritten); first set closed with a WRONG count and a
   wrong control number; second set's SE omitted (closed by the GE, itself with
   a wrong count); a second group whose set, GE and IEA are all left to Close;
   a composite and empty elements in a body segment *)
Definition nv_h : list seg :=
  [ p "ISA*00*          *00*          *ZZ*ZZ000          *ZZ*ZZ001          *030828*1128*U*00501*000010121*0*T*:";
    p "GS*HC*ZZ000*ZZ001*20030828*1128*17*X*005010X222";
    p "ST*837*0001"; p "SV1*HC:99213:25**40*UN*1"; p "SE*99*4711";
    p "ST*837*0002"; p "REF*87*X";
    p "GE*7*17";
    p "GS*HC*ZZ000*ZZ001*20030828*1128*18*X*005010X222";
    p "ST*837*0001"; p "HL*1**20*1" ].

Definition nv_es : list seg :=
  [ p "ISA*00*          *00*          *ZZ*ZZ000          *ZZ*ZZ001          *030828*1128*^*00501*000010121*0*T*:";
    p "GS*HC*ZZ000*ZZ001*20030828*1128*17*X*005010X222";
    p "ST*837*0001"; p "SV1*HC:99213:25**40*UN*1"; p "SE*3*0001";
    p "ST*837*0002"; p "REF*87*X"; p "SE*3*0002";
    p "GE*2*17";
    p "GS*HC*ZZ000*ZZ001*20030828*1128*18*X*005010X222";
    p "ST*837*0001"; p "HL*1**20*1"; p "SE*3*0001"; p "GE*1*18"; p "IEA*2*000010121" ].

(* C11_writer_total *)
Example nv_C11_writer_total :
  history_ok nv_d nv_h = true /\ w_run_close (w0 nv_d nv_rep nv_eol) nv_d nv_h = Ok nv_es.
Proof. vm_compute. repeat split; reflexivity. Qed.

(* C11_prefix_closed: a split in the middle of an open set *)
Example nv_C11_prefix_closed :
  let h1 := firstn 7 nv_h in let h2 := skipn 7 nv_h in
  length h2 = 4 /\ history_ok nv_d (h1 ++ h2) = true /\ history_ok nv_d h1 = true.
Proof. vm_compute. repeat split; reflexivity. Qed.

(* C11_writer_accepted: all seven hypotheses, and the conclusion *)
Example nv_C11_writer_accepted :
  trailer_ids_writable nv_d /\ count_digits_writable nv_d /\ isa_ids_writable nv_d nv_h /\
  distinct_delims nv_d = true /\ (length nv_rep = 1 /\ free_of nv_d nv_rep = true) /\
  history_ok nv_d nv_h = true /\ w_run_close (w0 nv_d nv_rep nv_eol) nv_d nv_h = Ok nv_es /\
  match run_steps nv_d (fresh false) (map (rt nv_d) nv_es) with
  | Ok (out, xf) => forallb (fun e => match env_codes e with [] => true | _ => false end) out = true /\ cleanup xf = []
  | Raise _ => False
  end.
Proof. vm_compute. repeat split; reflexivity. Qed.

(* C11_segments_kept: its three hypotheses, and the conclusion *)
Example nv_C11_segments_kept :
  trailer_ids_writable nv_d /\
  history_ok nv_d nv_h = true /\ w_run_close (w0 nv_d nv_rep nv_eol) nv_d nv_h = Ok nv_es /\
  filter (fun s => negb (is_trailer s)) nv_es = map (isa_fix nv_d nv_rep) (filter (fun s => negb (is_trailer s)) nv_h) /\
  length (filter (fun s => negb (is_trailer s)) nv_h) = 9.
Proof. vm_compute. repeat split; reflexivity. Qed.

(* C11_hypotheses_satisfiable has no hypothesis (it is itself a non-vacuity statement). *)
