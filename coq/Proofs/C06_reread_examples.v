(* C06_reread_examples.v — non-vacuity of Proofs/C06_reread.v on the worked example of Proofs/C05_examples.v, and the
   counterexamples that show each hypothesis of text_ok_997 / text_ok_999 is needed (all by evaluation). *)
From Coq Require Import String Lia.
From PX.Lib Require Import Base PyStr PyInt.
From PX.Model Require Import Show Path Segment Raw Reader Writer Errh Ack997 Ack999.
From PX.Spec Require Import C01_spec C04_spec C06_spec C12_spec.
From PX.Proofs Require Import C01_roundtrip C04_reader C06_lemmas C06_ack997 C06_ack999 C06_ack C05_examples C06_reread C06_reread997 C06_reread999.
Local Notation l := list_ascii_of_string.
Open Scope string_scope.

Definition lines7 (h : errh) : list str := snd (fst (render_997 cex_ck h)).
Definition lines9 (h : errh) : list str := snd (fst (render_999 cex_ck h)).

(* per segment read: its id and the envelope codes drawn; and what the end of input gave *)
Definition codes_of (r : result (str * list (seg * list err) * result (list err))) :=
  match r with
  | Ok (_, out, fin) => Some (map (fun p => (sid (fst p), env_codes (snd p))) out, fin)
  | Raise e => None
  end.
Definition no_error_at_all (out : list (seg * list err)) : bool :=
  forallb (fun p => match snd p with [] => true | _ => false end) out.

(* ------------------------------------------------------------------ *)
(* 1. the worked example (two sets, segment and element errors, a TA1) *)
(* ------------------------------------------------------------------ *)
Definition isa_fields_ex : list string :=
  ["00"; "          "; "00"; "          "; "ZZ"; "RECEIVER       "; "ZZ"; "SENDER         ";
   "260101"; "1200"; "^"; "00501"; "601011200"; "0"; "P"].
Definition isa_ex7 : seg := {| sid := Some (l "ISA"); els := map (fun v => [l v]) isa_fields_ex ++ [[[]; []]] |}.
Definition isa_ex9 : seg := {| sid := Some (l "ISA"); els := map (fun v => [l v]) isa_fields_ex ++ [[[":"%char]]] |}.

Definition worked_segs_997 : list seg :=
  isa_ex7 :: map (fun t => parse_seg D (l t))
   ["GS*FA*R*S*20260101*120000*18*X*004010~"; "ST*997*0001~"; "AK1*HC*17~"; "AK2*837*0021~"; "AK3*BHT*2**3~"; "AK3*BHT*2**8~";
    "AK4*1*1005*7*0019~"; "AK4*1*1005*5*0019~"; "AK4*3:2*66*1~"; "AK3*NM1*3*1000A*8~"; "AK4*1*98*7*41~"; "AK5*R*4*5~";
    "AK2*837*0022~"; "AK5*A~"; "AK9*R*2*2*1*4~"; "SE*15*0001~"; "ST*997*0002~"; "AK1*HP*17~"; "AK2*835*0001~"; "AK5*R~";
    "AK9*R*0*0*0~"; "SE*6*0002~"; "GE*2*18~"; "TA1*000000001*250101*1200*A*000~"; "IEA*1*601011200~"].

Definition worked_segs_999 : list seg :=
  isa_ex9 :: map (fun t => parse_seg D (l t))
   ["GS*FA*R*S*20260101*120000*12345678*X*005010X231~"; "ST*999*0001*005010X231~"; "AK1*HC*17*005010X222A1~";
    "AK2*837*0021*005010X222A1~"; "IK3*BHT*2**3~"; "IK3*BHT*2**8~"; "IK4*1*1005*7*0019~"; "IK4*1*1005*5*0019~";
    "IK4*3:2*66*1~"; "IK3*NM1*3*1000A*8~"; "IK4*1*98*7*41~"; "IK5*R*4*5~"; "AK2*837*0022*005010X222A1~"; "IK5*A~";
    "AK9*R*2*2*1*4~"; "SE*15*0001~"; "ST*999*0002*005010X231~"; "AK1*HP*17*005010X221A1~"; "AK2*835*0001~"; "IK5*R~";
    "AK9*R*0*0*0~"; "SE*6*0002~"; "GE*2*12345678~"; "TA1*000000001*250101*1200*A*000~"; "IEA*1*601011200~"].

(* every hypothesis of ack997_text_silent holds for the 997 written for h_full (it carries a TA1: no C04 tree), and
   the conclusion, evaluated: 26 segments come back, no error of any kind on any of them, none at the end *)
Example worked_997_rereads :
  clock_digits cex_ck = true /\ gs06_ok h_full = true /\
  (exists h', render_997 cex_ck h_full = (h', lines7 h_full, None)) /\
  lines7 h_full = map line_997 worked_segs_997 /\
  envelope_ok worked_segs_997 = true /\ text_ok_997 worked_segs_997 = true /\ no_ta1 worked_segs_997 = false /\
  exists out, reading false (concat (lines7 h_full)) [] = Ok (l "00501", out, Ok []) /\
    map fst out = reread_997 worked_segs_997 /\ length out = 26 /\ no_error_at_all out = true.
Proof.
  split; [vm_compute; reflexivity|]. split; [vm_compute; reflexivity|]. split; [eexists; vm_compute; reflexivity|].
  split; [vm_compute; reflexivity|]. split; [vm_compute; reflexivity|]. split; [vm_compute; reflexivity|].
  split; [vm_compute; reflexivity|]. eexists. split; [vm_compute; reflexivity|]. vm_compute. repeat split.
Qed.

Example worked_999_rereads :
  clock_digits cex_ck = true /\
  (exists h', render_999 cex_ck h_full = (h', lines9 h_full, None)) /\
  lines9 h_full = map line_999 worked_segs_999 /\
  envelope_ok worked_segs_999 = true /\ text_ok_999 worked_segs_999 = true /\
  exists out, reading false (concat (lines9 h_full)) [] = Ok (l "00501", out, Ok []) /\
    map fst out = reread_999 worked_segs_999 /\ length out = 26 /\ no_error_at_all out = true.
Proof.
  split; [vm_compute; reflexivity|]. split; [eexists; vm_compute; reflexivity|].
  split; [vm_compute; reflexivity|]. split; [vm_compute; reflexivity|]. split; [vm_compute; reflexivity|].
  eexists. split; [vm_compute; reflexivity|]. vm_compute. repeat split.
Qed.

(* the same through the theorem rather than by evaluation: any read schedule, either setting of the 837 flag *)
Example worked_997_by_theorem lx sch :
  exists out, reading lx (concat (lines7 h_full)) sch = Ok (l "00501", out, Ok []) /\
    map fst out = reread_997 worked_segs_997 /\ Forall (fun p => env_codes (snd p) = []) out.
Proof.
  destruct worked_997_rereads as (_ & _ & _ & L & E & T & _). rewrite L.
  exact (ack997_text_silent worked_segs_997 lx sch E T).
Qed.

(* ------------------------------------------------------------------ *)
(* 2. GS06 empty (997 only: the 999 does not echo GS06).  The visitor completes, C06's hypotheses hold, the
      recount passes; the GS is written with an empty sixth element, the GE as "GE*1": read back, GE02 is absent
      while GS06 is '' and the reader reports gs/4. *)
(* ------------------------------------------------------------------ *)
Definition h_empty06 : errh := run_events (events_with "") errh_init.

Example empty_gs06_draws_gs4 :
  clock_digits cex_ck = true /\ gs06_ok h_empty06 = true /\
  (exists h', render_997 cex_ck h_empty06 = (h', lines7 h_empty06, None)) /\
  nth 6 (lines7 h_empty06) [] = l "GE*1~
" /\
  codes_of (reading false (concat (lines7 h_empty06)) []) =
    Some ([(Some (l "ISA"), []); (Some (l "GS"), []); (Some (l "ST"), []); (Some (l "AK1"), []); (Some (l "AK9"), []);
           (Some (l "SE"), []); (Some (l "GE"), [C "gs" "4"]); (Some (l "IEA"), [])], Ok []) /\
  codes_of (reading false (concat (lines9 h_empty06)) []) =
    Some ([(Some (l "ISA"), []); (Some (l "GS"), []); (Some (l "ST"), []); (Some (l "AK1"), []); (Some (l "AK9"), []);
           (Some (l "SE"), []); (Some (l "GE"), []); (Some (l "IEA"), [])], Ok []).
Proof.
  split; [vm_compute; reflexivity|]. split; [vm_compute; reflexivity|]. split; [eexists; vm_compute; reflexivity|].
  split; [vm_compute; reflexivity|]. split; vm_compute; reflexivity.
Qed.

(* the same on bare segments: every conjunct of text_ok_997 but `filled gs 6` holds *)
Definition mks (id : string) (vs : list string) : seg := {| sid := Some (l id); els := map (fun v => [l v]) vs |}.
Definition mk_ack (gs06 ak1ctl : string) : list seg :=
  [isa_ex7; mks "GS" ["FA"; "R"; "S"; "20260101"; "120000"; gs06; "X"; "004010"];
   mks "ST" ["997"; "0001"]; mks "AK1" ["HC"; ak1ctl]; mks "AK9" ["A"; "0"; "0"; "0"]; mks "SE" ["4"; "0001"];
   mks "GE" ["1"; gs06]; mks "IEA" ["1"; "601011200"]].

Example filled_gs06_needed :
  let segs := mk_ack "" "17" in
  envelope_ok segs = true /\ no_ta1 segs = true /\
  isa_fields_ok (isa_fields_997 isa_ex7) = true /\ clean_seg D (isa_for D (isa_fields_997 isa_ex7)) = true /\
  forallb (clean_seg D) (tl segs) = true /\ forallb id_starts_plain (tl segs) = true /\ filled (nth 1 segs isa_ex7) 6 = false /\
  codes_of (reading false (concat (map line_997 segs)) []) =
    Some ([(Some (l "ISA"), []); (Some (l "GS"), []); (Some (l "ST"), []); (Some (l "AK1"), []); (Some (l "AK9"), []);
           (Some (l "SE"), []); (Some (l "GE"), [C "gs" "4"]); (Some (l "IEA"), [])], Ok []).
Proof. vm_compute. repeat split. Qed.

(* ------------------------------------------------------------------ *)
(* 3. a segment terminator inside an echoed value (here the ST02 of the acknowledged set, legal in a source that
      uses ! | >): the AK2 line splits in two, the set has one segment more than its SE01 says: st/4, in the 997
      and in the 999 (finding C06-echo-splits-element, now as a statement about the reader) *)
(* ------------------------------------------------------------------ *)
Definition h_tilde : errh := run_events
  [add_isa_loop (xs2 "ISA|00|          |00|          |ZZ|SENDER         |ZZ|RECEIVER       |250101|1200|^|00501|000000001|0|P|>") src0;
   add_gs_loop (xs2 "GS|HC|S|R|20250101|1200|17|X|005010X222A1") (srcA None 2 0);
   add_st_loop (xs2 "ST|837|1~7|005010X222A1") (srcA (Some "1~7") 3 1);
   close_st_loop (srcA (Some "1~7") 9 1);
   close_gs_loop (Some (xs2 "GE|1|17")) (srcA None 10 1);
   close_isa_loop (srcA None 11 1)] errh_init.

Example echoed_terminator_draws_st4 :
  clock_digits cex_ck = true /\ gs06_ok h_tilde = true /\
  (exists h', render_997 cex_ck h_tilde = (h', lines7 h_tilde, None)) /\
  (exists h', render_999 cex_ck h_tilde = (h', lines9 h_tilde, None)) /\
  codes_of (reading false (concat (lines7 h_tilde)) []) =
    Some ([(Some (l "ISA"), []); (Some (l "GS"), []); (Some (l "ST"), []); (Some (l "AK1"), []); (Some (l "AK2"), []);
           (Some (l "7"), []); (Some (l "AK5"), []); (Some (l "AK9"), []); (Some (l "SE"), [C "st" "4"]);
           (Some (l "GE"), []); (Some (l "IEA"), [])], Ok []) /\
  codes_of (reading false (concat (lines9 h_tilde)) []) =
    Some ([(Some (l "ISA"), []); (Some (l "GS"), []); (Some (l "ST"), []); (Some (l "AK1"), []); (Some (l "AK2"), []);
           (Some (l "7"), []); (Some (l "IK5"), []); (Some (l "AK9"), []); (Some (l "SE"), [C "st" "4"]);
           (Some (l "GE"), []); (Some (l "IEA"), [])], Ok []).
Proof.
  split; [vm_compute; reflexivity|]. split; [vm_compute; reflexivity|]. split; [eexists; vm_compute; reflexivity|].
  split; [eexists; vm_compute; reflexivity|]. split; vm_compute; reflexivity.
Qed.

Example clean_needed :
  let segs := mk_ack "17" "1~7" in
  envelope_ok segs = true /\ no_ta1 segs = true /\
  isa_fields_ok (isa_fields_997 isa_ex7) = true /\ clean_seg D (isa_for D (isa_fields_997 isa_ex7)) = true /\
  forallb (clean_seg D) (tl segs) = false /\ forallb id_starts_plain (tl segs) = true /\ filled (nth 1 segs isa_ex7) 6 = true /\
  codes_of (reading false (concat (map line_997 segs)) []) =
    Some ([(Some (l "ISA"), []); (Some (l "GS"), []); (Some (l "ST"), []); (Some (l "AK1"), []); (Some (l "7"), []);
           (Some (l "AK9"), []); (Some (l "SE"), [C "st" "4"]); (Some (l "GE"), []); (Some (l "IEA"), [])], Ok []).
Proof. vm_compute. repeat split. Qed.

(* ------------------------------------------------------------------ *)
(* 4. the header: an acknowledged ISA whose ISA15 is empty makes the 997 write an ISA line of 15 elements (recorded
      finding); the recount passes (it counts the abstract segment), isa_fields_ok fails, and the reader raises
      X12Error on the first segment *)
(* ------------------------------------------------------------------ *)
Example short_isa_refused :
  clock_digits cex_ck = true /\ gs06_ok isa15_h = true /\
  (exists h', render_997 cex_ck isa15_h = (h', lines7 isa15_h, None)) /\
  reading false (concat (lines7 isa15_h)) [] = Ok (l "00501", [], Raise X12Error) /\
  (exists out, reading false (concat (lines9 isa15_h)) [] = Ok (l "00501", out, Ok []) /\
     forallb (fun p => match env_codes (snd p) with [] => true | _ => false end) out = true).
Proof.
  split; [vm_compute; reflexivity|]. split; [vm_compute; reflexivity|]. split; [eexists; vm_compute; reflexivity|].
  split; [vm_compute; reflexivity|]. eexists. split; vm_compute; reflexivity.
Qed.

(* ------------------------------------------------------------------ *)
(* 5. the hypotheses on the handler state (Proofs/C06_reread997.v, C06_reread999.v) *)
(* ------------------------------------------------------------------ *)
(* for the worked example the explicit segment lists are the ones used above *)
Example worked_segs_explicit :
  segs_997 cex_ck h_full = Some worked_segs_997 /\ segs_999 cex_ck h_full = Some worked_segs_999.
Proof. split; vm_compute; reflexivity. Qed.

(* every hypothesis of ack997_reread_clean / ack999_reread_clean holds for h_full ... *)
Example worked_hypotheses :
  clock_digits cex_ck = true /\ gs06_ok h_full = true /\
  echo_clean_997 cex_ck h_full = true /\ echo_clean_999 cex_ck h_full = true /\
  (exists h', render_997 cex_ck h_full = (h', lines7 h_full, None)) /\
  (exists h', render_999 cex_ck h_full = (h', lines9 h_full, None)).
Proof.
  split; [vm_compute; reflexivity|]. split; [vm_compute; reflexivity|]. split; [vm_compute; reflexivity|].
  split; [vm_compute; reflexivity|]. split; eexists; vm_compute; reflexivity.
Qed.

(* ... so the theorems apply: any read schedule, either setting of the 837 flag *)
Example worked_997_clean lx sch :
  exists out, reading lx (concat (lines7 h_full)) sch = Ok (l "00501", out, Ok []) /\
    map fst out = reread_997 worked_segs_997 /\ Forall (fun p => env_codes (snd p) = []) out.
Proof.
  destruct worked_hypotheses as (CK & GK & E7 & _ & (h' & R7) & _).
  destruct (ack997_reread_clean cex_ck h_full h' (lines7 h_full) lx sch CK GK E7 R7) as (out & A & B & C).
  exists out. unfold segs_or_nil_997 in *. rewrite (proj1 worked_segs_explicit) in *. auto.
Qed.

Example worked_999_clean lx sch :
  exists out, reading lx (concat (lines9 h_full)) sch = Ok (l "00501", out, Ok []) /\
    map fst out = reread_999 worked_segs_999 /\ Forall (fun p => env_codes (snd p) = []) out.
Proof.
  destruct worked_hypotheses as (CK & _ & _ & E9 & _ & (h' & R9)).
  destruct (ack999_reread_clean cex_ck h_full h' (lines9 h_full) lx sch CK E9 R9) as (out & A & B & C).
  exists out. unfold segs_or_nil_999 in *. rewrite (proj2 worked_segs_explicit) in *. auto.
Qed.

(* the counterexamples above are exactly the states echo_clean rejects *)
Example echo_clean_rejects :
  echo_clean_997 cex_ck h_empty06 = false /\ echo_clean_999 cex_ck h_empty06 = true /\
  echo_clean_997 cex_ck h_tilde = false /\ echo_clean_999 cex_ck h_tilde = false /\
  echo_clean_997 cex_ck isa15_h = false /\ echo_clean_999 cex_ck isa15_h = false.
Proof. vm_compute. repeat split. Qed.

Print Assumptions worked_997_rereads.
Print Assumptions worked_999_rereads.
Print Assumptions worked_997_by_theorem.
Print Assumptions empty_gs06_draws_gs4.
Print Assumptions filled_gs06_needed.
Print Assumptions echoed_terminator_draws_st4.
Print Assumptions clean_needed.
Print Assumptions short_isa_refused.
Print Assumptions worked_segs_explicit.
Print Assumptions worked_hypotheses.
Print Assumptions worked_997_clean.
Print Assumptions worked_999_clean.
Print Assumptions echo_clean_rejects.
