(* C03_doc_walk.v — what the functions of the map walker (Model/Walker.v) DO in the situations a document
   with ONE injected structural fault puts them in (continuation of Proofs/C02_doc_walk.v):
     1. a segment that no segment node matches: every loop is searched and left, nothing is counted,
        _seg_not_found_error reports at the root;
     2. the general form of "found": children that are passed leaving entries in mandatory_segs_missing
        (a required segment / loop not seen), the usage checks reporting (max_use / repeat exceeded),
        what _flush_mandatory_segs reports and keeps. *)
From Coq Require Import String Lia.
From PX.Lib Require Import Base PyStr PyInt Regex Xml.
From PX.Model Require Import Path Segment Syntax MapLoad MapTree Element Counter Walker.
From PX.Spec Require Import C07_walker_wf C02_doc_spec C03_doc_spec.
From PX.Proofs Require Import Counter_keys C07_walker_lemmas C07_walker C02_doc_counter C02_doc_walk.

(* ------------------------------------------------------------------ *)
(* 1. nothing matches                                                   *)

Section NotFound.
Variable m : xmap.
Hypothesis WF : walker_wf m = true.
Variable a : wargs.

Notation ns := (root_nodes m).
Notation smatch s0 := (seg_is_match (xg_d (a_x a)) (m_dataele m) s0 (xg_s (a_x a))).

Hypothesis NM : forall r sn, node_at ns r = Some (NSeg sn) -> smatch sn = Ok false.

Lemma append_missing_eq r n msg c ms lg :
  lref m (removelast r) -> exists e, append_missing m r n msg a (St c ms lg) = (St c (ms ++ [e]) lg, Ok tt).
Proof.
  intros H. destruct (parent_id_ok m r H) as [pid Hp]. unfold append_missing.
  rewrite (bind_lift_ok _ _ _ _ Hp), bind_mget. eexists. reflexivity.
Qed.

Lemma ilm_go_none f r c lg :
  forall cs i ms,
    (forall k ch ms0, nth_error cs k = Some ch -> node_is_loop ch = true ->
        exists ms1, is_loop_match f m a (r ++ [i + k]) ch (St c ms0 lg) = (St c ms1 lg, Ok false)) ->
    exists ms', ilm_go m a f r i cs (St c ms lg) = (St c ms' lg, Ok false).
Proof.
  induction cs as [|ch cs IH]; intros i ms H; [exists ms; reflexivity|].
  assert (T : forall ms0, exists ms', ilm_go m a f r (S i) cs (St c ms0 lg) = (St c ms' lg, Ok false)).
  { intros ms0. apply IH. intros k ch' ms1 Hk L. replace (S i + k) with (i + S k) by lia. apply H; assumption. }
  destruct ch as [id ty nm u p rep pm | s0]; [|apply T].
  change (ilm_go m a f r i (NLoop id ty nm u p rep pm :: cs) (St c ms lg)) with
    ((dow b <- is_loop_match f m a (r ++ [i]) (NLoop id ty nm u p rep pm);
      if b then w_ret true else ilm_go m a f r (S i) cs) (St c ms lg)).
  destruct (H 0 _ ms eq_refl eq_refl) as [ms1 E]. rewrite Nat.add_0_r in E.
  rewrite (bind_eq _ _ _ _ _ E). apply T.
Qed.

Lemma ilm_none c lg :
  forall f r n ms,
    node_at ns r = Some n -> node_is_loop n = true -> depth_ok f n = true ->
    exists ms', is_loop_match f m a r n (St c ms lg) = (St c ms' lg, Ok false).
Proof.
  induction f as [|f IH]; intros r n ms Hr Ln D; [discriminate|].
  destruct n as [id ty nm u p rep pm | sn]; [|discriminate].
  rewrite is_loop_match_S. cbn [depth_ok node_children] in D.
  destruct (pm_nodes pm) as [|first rest] eqn:E; [exists ms; reflexivity|].
  destruct first as [id1 ty1 nm1 u1 p1 rep1 pm1 | s0].
  - rewrite <- E in *. apply ilm_go_none. intros k ch ms0 Hk Lk. cbn [Nat.add].
    apply IH; [rewrite (node_at_snoc _ _ _ _ Hr); exact Hk | exact Lk |].
    rewrite forallb_forall in D. apply D, (nth_error_In _ _ Hk).
  - assert (H0 : node_at ns (r ++ [0]) = Some (NSeg s0)).
    { rewrite (node_at_snoc _ _ _ _ Hr). cbn [node_children]. rewrite E. reflexivity. }
    rewrite (bind_lift_ok _ _ _ _ (NM _ _ H0)).
    destruct (usage_is u "R") eqn:ER; [|exists ms; reflexivity].
    destruct (wf_loop_seg m WF _ _ _ _ _ _ _ _ _ _ Hr E) as [_ N].
    destruct (N (usage_R_not_N _ ER)) as [[xp Hxp] _].
    rewrite (bind_lift_ok _ _ _ _ Hxp), bind_cget.
    destruct (get_count c xp <? 1)%Z; [|exists ms; reflexivity].
    destruct (append_missing_eq (r ++ [0]) (NSeg s0)
                (Walker.l "Mandatory loop """ ++ ostr0 nm ++ Walker.l """ (" ++ ostr0 id ++ Walker.l ") missing") c ms lg) as [e Ee].
    { rewrite removelast_snoc. right. eexists. split; [exact Hr | reflexivity]. }
    rewrite (bind_eq _ _ _ _ _ Ee). eexists. reflexivity.
Qed.

Lemma scan_none orig ol cur pop c lg :
  lref m cur ->
  forall cs ms, (forall i ch, In (i, ch) cs -> nth_error (kids m cur) i = Some ch) ->
  exists ms', wl_scan m a orig ol cur pop cs (St c ms lg) = (St c ms' lg, Ok None).
Proof.
  intros Hl. induction cs as [|[i ch] cs IH]; intros ms Hc; [exists ms; reflexivity|].
  assert (T : forall ms0, exists ms', wl_scan m a orig ol cur pop cs (St c ms0 lg) = (St c ms' lg, Ok None)).
  { intros ms0. apply IH. intros i' ch' Hin. apply Hc. right. exact Hin. }
  assert (Hcr : node_at ns (cur ++ [i]) = Some ch).
  { rewrite (node_at_kids _ _ _ Hl). apply Hc. left. reflexivity. }
  destruct ch as [id ty nm u p rep pm | s0].
  - rewrite wl_scan_loop.
    destruct (ilm_none c lg 40 _ _ ms Hcr eq_refl (proj2 (wf_ref _ _ _ WF Hcr))) as [ms1 E].
    rewrite (bind_eq _ _ _ _ _ E). apply T.
  - rewrite wl_scan_seg, (bind_lift_ok _ _ _ _ (NM _ _ Hcr)).
    destruct (usage_is (s_usage s0) "R") eqn:ER; [|apply T].
    destruct (wf_seg m WF _ _ Hcr) as [_ [[xp Hxp] _]].
    rewrite (bind_lift_ok _ _ _ _ Hxp), bind_cget.
    destruct (get_count c xp <? 1)%Z; [|rewrite bind_ret; apply T].
    destruct (append_missing_eq (cur ++ [i]) (NSeg s0)
                (Walker.l "Mandatory segment """ ++ ostr0 (s_name s0) ++ Walker.l """ (" ++ ostr0 (s_id s0) ++ Walker.l ") missing")
                c ms lg) as [e Ee].
    { rewrite removelast_snoc. exact Hl. }
    rewrite (bind_eq _ _ _ _ _ Ee). apply T.
Qed.

(* the report of _seg_not_found_error, in terms of the arguments of walk *)
Definition nf_report (start : nref) (evs : list wev) : Prop :=
  exists n path s,
    node_at ns start = Some n /\ node_path m start = Ok path /\ seg_str (xg_d (a_x a)) (xg_s (a_x a)) = Ok s /\
    evs = [add_seg_ev n (a_x a) a;
           WSegErr (Walker.l "1") (Walker.l "Segment " ++ s ++ Walker.l " not found.  Started at " ++ path) None].

Lemma seg_not_found_eq start sn c ms lg :
  node_at ns start = Some (NSeg sn) ->
  exists evs, seg_not_found_error m start a (St c ms lg) = (St c ms (lg ++ evs), Ok tt) /\ nf_report start evs.
Proof.
  intros H. destruct (wf_seg m WF _ _ H) as [_ [[xp Hxp] _]].
  destruct (node_x12path_path m start) as [p Hp]; [rewrite Hxp; reflexivity|].
  assert (S : exists s, seg_str (xg_d (a_x a)) (xg_s (a_x a)) = Ok s).
  { unfold seg_str. destruct (opt_eqb str_eqb (sid (xg_s (a_x a))) _); [eauto|].
    destruct (seg_get_value_01 (xg_d (a_x a)) (xg_s (a_x a))) as [v Hv].
    change (C03_doc_spec.l "01") with (C07_walker_lemmas.l "01"). rewrite Hv. cbn [bind]. eauto. }
  destruct S as [s Hs]. eexists. split.
  - unfold seg_not_found_error. unfold seg_str in Hs.
    rewrite (bind_lift_ok _ _ _ _ Hs), (bind_lift_ok _ _ _ _ Hp), (bind_lift_ok _ _ _ _ (get_node_ok _ _ _ H)).
    unfold w_bind, w_emit. cbn [ws wlog St]. rewrite <- app_assoc. reflexivity.
  - exists (NSeg sn), p, s. repeat split; assumption.
Qed.

Lemma walk_loop_none start sn ol c lg :
  node_at ns start = Some (NSeg sn) ->
  forall fuel cur npos pop ms, length cur < fuel -> lref m cur ->
  exists ms' evs,
    walk_loop fuel m a start ol cur npos pop (St c ms lg) = (St c ms' (lg ++ evs), Ok (None, [], [])) /\
    nf_report start evs.
Proof.
  intros Hs. induction fuel as [|fuel IH]; intros cur npos pop ms Hlen Hl; [lia|].
  rewrite walk_loop_S, (bind_lift_ok _ _ _ _ (container_children_kids _ _ Hl)).
  destruct (scan_none start ol cur pop c lg Hl
              (filter (fun ic : nat * node => (npos <=? node_pos (snd ic))%Z) (enumerate 0 (kids m cur))) ms) as [ms1 E].
  { intros i ch Hin. apply filter_In in Hin as [Hin _]. apply enumerate_nth in Hin as [_ Hin].
    rewrite Nat.sub_0_r in Hin. exact Hin. }
  rewrite (bind_eq _ _ _ _ _ E).
  destruct Hl as [-> | [n [Hn Ln]]].
  - destruct (seg_not_found_eq start sn c ms1 lg Hs) as [evs [Ee R]].
    rewrite (bind_eq _ _ _ _ _ Ee). exists ms1, evs. split; [reflexivity | exact R].
  - assert (Hne : cur <> []) by (intros ->; discriminate).
    rewrite (list_case _ _ _ Hne), (bind_lift_ok _ _ _ _ (get_node_ok _ _ _ Hn)). unfold pop_to_parent_loop.
    apply IH.
    + pose proof (length_removelast _ Hne). lia.
    + apply lref_removelast. right. eauto.
Qed.

End NotFound.

(* walk on a segment that no segment node of the map matches *)
Lemma walk_st_unknown m (WF : walker_wf m = true) w p d z sc cl ls sn :
  node_at (root_nodes m) p = Some (NSeg sn) ->
  (forall r s0, node_at (root_nodes m) r = Some (NSeg s0) -> seg_is_match d (m_dataele m) s0 z = Ok false) ->
  exists ms evs,
    walk_st m w p d z sc cl ls = ({| w_counter := w_counter w; w_missing := ms |}, evs, Ok (None, [], [])) /\
    not_found_report m d p z sc cl ls evs.
Proof.
  intros Hp NM. rewrite (walk_st_unfold _ _ _ _ _ _ _ _ _ Hp).
  destruct (walk_loop_none m WF (mk_args d z sc cl ls) NM p sn (removelast p) (w_counter w) [] Hp
              (S (length p)) (removelast p) (s_pos sn) [] []) as [ms [evs [E R]]].
  - destruct p as [|i p']; [discriminate|]. pose proof (length_removelast (i :: p') ltac:(discriminate)). lia.
  - destruct (node_at_removelast _ _ _ Hp) as [E | [q [Hq Lq]]]; [left; exact E | right; eauto].
  - exists ms, evs. cbv zeta. rewrite E. split; [reflexivity|].
    destruct R as [n [path [s [H1 [H2 [H3 H4]]]]]]. exists n, path, s. repeat split; assumption.
Qed.

(* walk only reads the counter of the state it is given *)
Lemma walk_st_counter_only m w1 w2 p d sg sc cl ls :
  w_counter w1 = w_counter w2 -> walk_st m w1 p d sg sc cl ls = walk_st m w2 p d sg sc cl ls.
Proof.
  intros E. destruct w1 as [c1 m1], w2 as [c2 m2]. cbn [w_counter] in E. subst c2.
  unfold walk_st, walk_w, w_bind, w_missing_set. cbn [ws wlog w_counter]. reflexivity.
Qed.


(* ------------------------------------------------------------------ *)
(* 2. the general form of "found": with entries pending in mandatory_segs_missing and with the
      usage checks allowed to report                                    *)

Section Faulty.
Variable m : xmap.
Hypothesis WF : walker_wf m = true.
Variable a : wargs.

Notation ns := (root_nodes m).
Notation smatch s0 := (seg_is_match (xg_d (a_x a)) (m_dataele m) s0 (xg_s (a_x a))).
Notation nomatch h := (nomatch_b m (xg_d (a_x a)) (xg_s (a_x a)) h = true).

(* what _flush_mandatory_segs sends for one entry *)
Definition report_of (e : mentry) : list wev :=
  [WAddSeg (Some (me_info e)) (me_seg e) (me_seg_count e) (me_cur_line e) (me_ls e); WSegErr (me_code e) (me_msg e) None].

Definition kept (cp : option Z) (ms : list mentry) : list mentry := filter (fun e => pos_is e cp) ms.
Definition flushed (cp : option Z) (ms : list mentry) : list wev :=
  flat_map report_of (filter (fun e => negb (pos_is e cp)) ms).

Lemma w_iter_flush cp c ms0 : forall ms lg,
  w_iter (fun e => if negb (pos_is e cp) then
                     dow_ w_emit (WAddSeg (Some (me_info e)) (me_seg e) (me_seg_count e) (me_cur_line e) (me_ls e));
                     w_emit (WSegErr (me_code e) (me_msg e) None)
                   else w_ret tt) ms (St c ms0 lg)
  = (St c ms0 (lg ++ flushed cp ms), Ok tt).
Proof.
  induction ms as [|e ms IH]; intros lg.
  - unfold flushed. cbn [w_iter filter flat_map]. rewrite app_nil_r. reflexivity.
  - unfold flushed. cbn [w_iter filter]. destruct (pos_is e cp); cbn [negb].
    + rewrite bind_ret. apply IH.
    + unfold w_bind at 1. unfold w_bind at 1. unfold w_emit at 1 2. cbn [ws wlog St fst snd].
      fold (St c ms0 ((lg ++ [WAddSeg (Some (me_info e)) (me_seg e) (me_seg_count e) (me_cur_line e) (me_ls e)]) ++
                      [WSegErr (me_code e) (me_msg e) None])).
      rewrite IH. unfold flushed. cbn [flat_map report_of app]. rewrite <- !app_assoc. reflexivity.
Qed.

Lemma flush_eq cp c ms lg :
  flush_mandatory_segs cp (St c ms lg) = (St c (kept cp ms) (lg ++ flushed cp ms), Ok tt).
Proof.
  unfold flush_mandatory_segs. rewrite bind_mget. rewrite (bind_eq _ _ _ _ _ (w_iter_flush cp c ms ms lg)). reflexivity.
Qed.

Lemma pos_is_none e : pos_is e None = false.
Proof. reflexivity. Qed.

Lemma kept_none ms : kept None ms = [].
Proof. unfold kept. induction ms as [|e ms IH]; [reflexivity|]. cbn [filter]. rewrite pos_is_none. exact IH. Qed.

Lemma flushed_none ms : flushed None ms = flat_map report_of ms.
Proof.
  unfold flushed. f_equal. induction ms as [|e ms IH]; [reflexivity|]. cbn [filter]. rewrite pos_is_none. cbn [negb]. rewrite IH. reflexivity.
Qed.

(* ---- the usage checks, reporting or not ---- *)

Definition seg_usage_evs (sn : segm) (cntv mx : Z) : list wev :=
  if (mx <? cntv)%Z then
    [add_seg_ev (NSeg sn) (a_x a) a;
     WSegErr (Walker.l "5")
       (Walker.l "Segment " ++ show_sid (sid (xg_s (a_x a))) ++ Walker.l " exceeded max count.  Found " ++ fmt_i cntv ++
        Walker.l ", should have " ++ fmt_i mx) None]
  else [].

Lemma check_seg_usage_gen r sn xp mx c ms lg :
  used (s_usage sn) = true -> node_x12path m r = Ok xp -> seg_max_repeat sn = Ok mx ->
  check_seg_usage m r sn a (St c ms lg) = (St c ms (lg ++ seg_usage_evs sn (get_count c xp) mx), Ok tt).
Proof.
  intros U X M. destruct (used_facts _ U) as [U1 U2]. unfold check_seg_usage, seg_usage_evs.
  rewrite U1, U2. cbn [negb]. rewrite (bind_lift_ok _ _ _ _ X), bind_cget, (bind_lift_ok _ _ _ _ M).
  destruct (mx <? get_count c xp)%Z.
  - unfold w_bind, w_emit. cbn [ws wlog St]. rewrite <- app_assoc. reflexivity.
  - rewrite app_nil_r. reflexivity.
Qed.

Definition loop_usage_evs (n : node) (cntv mx : Z) : list wev :=
  if (mx <? cntv)%Z then
    [add_seg_ev n (a_x a) a;
     WSegErr (Walker.l "4")
       (Walker.l "Loop " ++ ostr0 (node_id n) ++ Walker.l " exceeded max count.  Found " ++ fmt_i cntv ++
        Walker.l ", should have " ++ fmt_i mx) None]
  else [].

Lemma check_loop_usage_gen r id ty nm u p rep pm xp mx c ms lg :
  used u = true -> node_x12path m r = Ok xp -> loop_max_repeat rep = Ok mx ->
  let c' := increment (reset_to_node c xp) xp in
  check_loop_usage m r (NLoop id ty nm u p rep pm) a (St c ms lg) =
  (St c' ms (lg ++ loop_usage_evs (NLoop id ty nm u p rep pm) (get_count c' xp) mx), Ok tt).
Proof.
  intros U X M c'. destruct (used_facts _ U) as [U1 U2]. unfold check_loop_usage, loop_usage_evs.
  rewrite U1, U2. cbn [negb]. rewrite (bind_lift_ok _ _ _ _ X), bind_cget. cbv zeta. rewrite bind_cset, (bind_lift_ok _ _ _ _ M).
  fold c'. destruct (mx <? get_count c' xp)%Z.
  - unfold w_bind, w_emit. cbn [ws wlog St node_id]. rewrite <- app_assoc. reflexivity.
  - rewrite app_nil_r. reflexivity.
Qed.

(* ---- entering a loop, within its repeat limit or not ---- *)

Definition enter_gen (c : counter) (C : nref) (n : node) (c2 : counter) (le : list wev) : Prop :=
  match n with
  | NLoop _ _ _ u _ rep pm =>
      exists s0 rest xC x0 mx,
        pm_nodes pm = NSeg s0 :: rest /\ smatch s0 = Ok true /\ used u = true /\
        node_x12path m C = Ok xC /\ node_x12path m (C ++ [0]) = Ok x0 /\ loop_max_repeat rep = Ok mx /\
        le = loop_usage_evs n (get_count (increment (reset_to_node c xC) xC) xC) mx /\
        c2 = increment (increment (reset_to_node c xC) xC) x0
  | NSeg _ => False
  end.

Inductive echain_gen (c c2 : counter) (le : list wev) : nat -> nref -> node -> Prop :=
| eg_seg r n : enter_gen c r n c2 le -> echain_gen c c2 le 0 r n
| eg_wrap z r id ty nm u p rep pm c0 rest :
    pm_nodes pm = c0 :: rest -> node_is_loop c0 = true -> echain_gen c c2 le z (r ++ [0]) c0 ->
    echain_gen c c2 le (S z) r (NLoop id ty nm u p rep pm).

Lemma echain_to_gen c c2 z r n : echain m a c c2 z r n -> echain_gen c c2 [] z r n.
Proof.
  induction 1 as [r n H | z r id ty nm u p rep pm c0 rest E L0 H IH].
  - apply eg_seg. destruct n as [id ty nm u p rep pm | sn]; [|destruct H].
    destruct H as [s0 [rest [xC [x0 [mx [E [M [U [XC [X0 [MX [Le ->]]]]]]]]]]]].
    exists s0, rest, xC, x0, mx. repeat split; try assumption.
    unfold loop_usage_evs. replace (mx <? _)%Z with false; [reflexivity|]. symmetry. apply Z.ltb_ge. exact Le.
  - exact (eg_wrap c c2 [] z r id ty nm u p rep pm c0 rest E L0 IH).
Qed.

Lemma echain_gen_loop c c2 le z r n : echain_gen c c2 le z r n -> node_is_loop n = true.
Proof. intros H. destruct H as [r n H | ]; [|reflexivity]. destruct n; [reflexivity | destruct H]. Qed.

Lemma ilm_hit_gen c c2 le z r n :
  echain_gen c c2 le z r n -> forall f, depth_ok f n = true ->
  forall ms lg, is_loop_match f m a r n (St c ms lg) = (St c ms lg, Ok true).
Proof.
  induction 1 as [r n H | z r id ty nm u p rep pm c0 rest E L0 H IH]; intros [|f] D ms lg; try discriminate.
  - destruct n as [id ty nm u p rep pm | sn]; [|destruct H].
    destruct H as [s0 [rest [xC [x0 [mx [E [M _]]]]]]].
    rewrite is_loop_match_S, E, (bind_lift_ok _ _ _ _ M). reflexivity.
  - rewrite is_loop_match_S, E. destruct c0 as [id1 ty1 nm1 u1 p1 rep1 pm1 | sx]; [|discriminate].
    change (ilm_go m a f r 0 (NLoop id1 ty1 nm1 u1 p1 rep1 pm1 :: rest) (St c ms lg)) with
      ((dow b <- is_loop_match f m a (r ++ [0]) (NLoop id1 ty1 nm1 u1 p1 rep1 pm1);
        if b then w_ret true else ilm_go m a f r 1 rest) (St c ms lg)).
    rewrite (bind_eq _ _ _ (St c ms lg) true); [reflexivity|]. apply IH.
    cbn [depth_ok node_children] in D. rewrite E in D. cbn [forallb] in D. apply andb_true_iff in D as [D _]. exact D.
Qed.

(* _goto_seg_match: the loop is counted (reporting if beyond its limit), its first segment counted, and
   EVERYTHING pending is reported (flush with cur_pos None) *)
Lemma goto_hit_gen c c2 le z r n :
  echain_gen c c2 le z r n -> forall f, node_at ns r = Some n -> depth_ok f n = true -> forall ms lg,
  exists push s1,
    goto_seg_match f m a r n (St c ms lg) =
      (St c2 [] (lg ++ le ++ flat_map report_of ms), Ok (Some (r ++ repeat 0 (S z)), push)) /\
    node_at ns (r ++ repeat 0 (S z)) = Some (NSeg s1).
Proof.
  induction 1 as [r n H | z r id ty nm u p rep pm c0 rest E L0 H IH]; intros [|f] Hr D ms lg; try discriminate.
  - destruct n as [id ty nm u p rep pm | sn]; [|destruct H].
    destruct H as [s0 [rest [xC [x0 [mx [E [M [U [XC [X0 [MX [-> ->]]]]]]]]]]]].
    exists [r], s0. split.
    + rewrite goto_seg_match_S, E, (bind_lift_ok _ _ _ _ M).
      rewrite (bind_eq _ _ _ _ _ (check_loop_usage_gen _ _ _ _ _ _ _ _ _ _ _ _ _ U XC MX)).
      rewrite (bind_lift_ok _ _ _ _ X0), bind_cget, bind_cset.
      rewrite (bind_eq _ _ _ _ _ (flush_eq _ _ _ _)). rewrite kept_none, flushed_none, <- app_assoc. reflexivity.
    + cbn [repeat]. rewrite (node_at_snoc _ _ _ _ Hr). cbn [node_children]. rewrite E. reflexivity.
  - destruct c0 as [id1 ty1 nm1 u1 p1 rep1 pm1 | sx]; [|discriminate].
    assert (H0 : node_at ns (r ++ [0]) = Some (NLoop id1 ty1 nm1 u1 p1 rep1 pm1)).
    { rewrite (node_at_snoc _ _ _ _ Hr). cbn [node_children]. rewrite E. reflexivity. }
    assert (D0 : depth_ok f (NLoop id1 ty1 nm1 u1 p1 rep1 pm1) = true).
    { cbn [depth_ok node_children] in D. rewrite E in D. cbn [forallb] in D. apply andb_true_iff in D as [D _]. exact D. }
    destruct (IH f H0 D0 ms lg) as [push [s1 [G N1]]].
    exists (r :: push), s1. split.
    + rewrite goto_seg_match_S, E, bind_ret.
      change (goto_go m a f r 0 (NLoop id1 ty1 nm1 u1 p1 rep1 pm1 :: rest) (St c ms lg)) with
        ((dow res <- goto_seg_match f m a (r ++ [0]) (NLoop id1 ty1 nm1 u1 p1 rep1 pm1);
          match fst res with
          | Some r1 => dow t <- w_lift (node_truthy m r1);
                       if t then w_ret (Some r1, r :: snd res) else goto_go m a f r 1 rest
          | None => goto_go m a f r 1 rest
          end) (St c ms lg)).
      rewrite (bind_eq _ _ _ _ _ G). cbn [fst snd].
      rewrite (bind_lift_ok _ _ _ _ (node_truthy_seg m WF _ _ N1)).
      rewrite <- app_assoc. reflexivity.
    + rewrite <- app_assoc in N1. exact N1.
Qed.

(* ---- children that are passed, leaving entries or not ---- *)

Definition passes (c : counter) (orig ol cur : nref) (pop : list nref) (ic : nat * node) (es : list mentry) : Prop :=
  forall rest ms lg,
    wl_scan m a orig ol cur pop (ic :: rest) (St c ms lg) = wl_scan m a orig ol cur pop rest (St c (ms ++ es) lg).

Inductive pass_list (c : counter) (orig ol cur : nref) (pop : list nref) : list (nat * node) -> list mentry -> Prop :=
| pl_nil : pass_list c orig ol cur pop [] []
| pl_cons ic es pre es' :
    passes c orig ol cur pop ic es -> pass_list c orig ol cur pop pre es' -> pass_list c orig ol cur pop (ic :: pre) (es ++ es').

Lemma scan_pass c orig ol cur pop pre es :
  pass_list c orig ol cur pop pre es ->
  forall rest ms lg, wl_scan m a orig ol cur pop (pre ++ rest) (St c ms lg) = wl_scan m a orig ol cur pop rest (St c (ms ++ es) lg).
Proof.
  induction 1 as [|ic es pre es' P PL IH]; intros rest ms lg.
  - rewrite app_nil_r. reflexivity.
  - cbn [app]. rewrite P, IH, <- app_assoc. reflexivity.
Qed.

Lemma pass_app c orig ol cur pop p1 e1 p2 e2 :
  pass_list c orig ol cur pop p1 e1 -> pass_list c orig ol cur pop p2 e2 -> pass_list c orig ol cur pop (p1 ++ p2) (e1 ++ e2).
Proof.
  induction 1 as [|ic es pre es' P PL IH]; intros H2; [exact H2|].
  cbn [app]. rewrite <- app_assoc. apply pl_cons; [exact P | apply IH, H2].
Qed.

Lemma quiet_passes c orig ol cur pop ic : lref m cur -> child_quiet m a c cur ic -> passes c orig ol cur pop ic [].
Proof.
  intros Hl Q rest ms lg. rewrite app_nil_r.
  exact (scan_skip m WF a orig ol cur pop c ms lg [ic] rest Hl (Forall_cons _ Q (Forall_nil _))).
Qed.

Lemma pass_quiet c orig ol cur pop pre : lref m cur -> Forall (child_quiet m a c cur) pre -> pass_list c orig ol cur pop pre [].
Proof.
  intros Hl. induction 1 as [|ic pre Q F IH]; [apply pl_nil|].
  change (@nil mentry) with (@nil mentry ++ []). apply pl_cons; [apply quiet_passes; assumption | exact IH].
Qed.

Lemma append_missing_exact r n msg pid c ms lg :
  parent_id m r = Ok pid ->
  append_missing m r n msg a (St c ms lg) =
  (St c (ms ++ [{| me_node := r; me_id := node_id n; me_pid := pid; me_info := info_of n;
                   me_seg := fake_seg (node_id n); me_code := Walker.l "3"; me_msg := msg;
                   me_seg_count := a_seg_count a; me_cur_line := a_cur_line a; me_ls := a_ls a |}]) lg, Ok tt).
Proof. intros Hp. unfold append_missing. rewrite (bind_lift_ok _ _ _ _ Hp), bind_mget. reflexivity. Qed.

(* the entry of a required segment child that has not been seen *)
Definition seg_entry (r : nref) (sn : segm) (pid : option str) : mentry :=
  {| me_node := r; me_id := s_id sn; me_pid := pid; me_info := info_of (NSeg sn);
     me_seg := fake_seg (s_id sn); me_code := Walker.l "3";
     me_msg := Walker.l "Mandatory segment """ ++ ostr0 (s_name sn) ++ Walker.l """ (" ++ ostr0 (s_id sn) ++ Walker.l ") missing";
     me_seg_count := a_seg_count a; me_cur_line := a_cur_line a; me_ls := a_ls a |}.

Lemma miss_seg_passes c orig ol cur pop i s0 pid :
  lref m cur -> nth_error (kids m cur) i = Some (NSeg s0) -> smatch s0 = Ok false ->
  usage_is (s_usage s0) "R" = true -> (cnt m c (cur ++ [i]) < 1)%Z -> parent_id m (cur ++ [i]) = Ok pid ->
  passes c orig ol cur pop (i, NSeg s0) [seg_entry (cur ++ [i]) s0 pid].
Proof.
  intros Hl Hi M R Lt Hp rest ms lg.
  assert (Hcr : node_at ns (cur ++ [i]) = Some (NSeg s0)) by (rewrite (node_at_kids _ _ _ Hl); exact Hi).
  rewrite wl_scan_seg, (bind_lift_ok _ _ _ _ M), R.
  destruct (wf_seg m WF _ _ Hcr) as [_ [[xp Hxp] _]].
  rewrite (bind_lift_ok _ _ _ _ Hxp), bind_cget.
  unfold cnt in Lt. rewrite Hxp in Lt.
  replace (get_count c xp <? 1)%Z with true by (symmetry; apply Z.ltb_lt; exact Lt).
  rewrite (bind_eq _ _ _ _ _ (append_missing_exact _ _ _ _ c ms lg Hp)). reflexivity.
Qed.

(* the entry of a required seg-first loop child that has not been seen: it is filed under the FIRST SEGMENT
   of the loop (node, position, id), with the loop's id as parent *)
Definition loop_entry (r : nref) (id nm : option str) (s0 : segm) : mentry :=
  {| me_node := r ++ [0]; me_id := s_id s0; me_pid := id; me_info := info_of (NSeg s0);
     me_seg := fake_seg (s_id s0); me_code := Walker.l "3";
     me_msg := Walker.l "Mandatory loop """ ++ ostr0 nm ++ Walker.l """ (" ++ ostr0 id ++ Walker.l ") missing";
     me_seg_count := a_seg_count a; me_cur_line := a_cur_line a; me_ls := a_ls a |}.

Lemma miss_loop_passes c orig ol cur pop i id ty nm u p rep pm s0 rest0 :
  lref m cur -> nth_error (kids m cur) i = Some (NLoop id ty nm u p rep pm) -> pm_nodes pm = NSeg s0 :: rest0 ->
  smatch s0 = Ok false -> usage_is u "R" = true -> (cnt m c (cur ++ [i]) < 1)%Z ->
  passes c orig ol cur pop (i, NLoop id ty nm u p rep pm) [loop_entry (cur ++ [i]) id nm s0].
Proof.
  intros Hl Hi E M R Lt rest ms lg.
  assert (Hcr : node_at ns (cur ++ [i]) = Some (NLoop id ty nm u p rep pm)) by (rewrite (node_at_kids _ _ _ Hl); exact Hi).
  rewrite wl_scan_loop, is_loop_match_S, E.
  destruct (wf_loop_seg m WF _ _ _ _ _ _ _ _ _ _ Hcr E) as [_ N].
  destruct (N (usage_R_not_N _ R)) as [[xp Hxp] _].
  unfold cnt in Lt. rewrite Hxp in Lt.
  assert (Hp : parent_id m ((cur ++ [i]) ++ [0]) = Ok id).
  { unfold parent_id. rewrite removelast_snoc. destruct (cur ++ [i]) as [|x0 xs] eqn:Ex; [exact (False_ind _ (snoc_not_nil cur i Ex))|].
    rewrite (get_node_ok _ _ _ Hcr). reflexivity. }
  match goal with |- w_bind ?X _ _ = _ =>
    assert (EX : X (St c ms lg) = (St c (ms ++ [loop_entry (cur ++ [i]) id nm s0]) lg, Ok false)) end.
  { rewrite (bind_lift_ok _ _ _ _ M), R, (bind_lift_ok _ _ _ _ Hxp), bind_cget.
    replace (get_count c xp <? 1)%Z with true by (symmetry; apply Z.ltb_lt; exact Lt).
    rewrite (bind_eq _ _ _ _ _ (append_missing_exact _ _ _ _ c ms lg Hp)). reflexivity. }
  rewrite (bind_eq _ _ _ _ _ EX). reflexivity.
Qed.

(* ---- found ---- *)

(* a matching segment child: counted, usage checked, the entries of the same id and parent dropped, the
   entries of another position reported, those of the same position kept *)
Lemma scan_found_seg_gen orig ol cur pop c ms lg j sn rest xp mx pid :
  lref m cur -> nth_error (kids m cur) j = Some (NSeg sn) -> smatch sn = Ok true ->
  (forall n, node_at ns cur = Some n -> is_loop_match 40 m a cur n (St c ms lg) = (St c ms lg, Ok false)) ->
  used (s_usage sn) = true -> node_x12path m (cur ++ [j]) = Ok xp -> seg_max_repeat sn = Ok mx ->
  parent_id m (cur ++ [j]) = Ok pid ->
  let c' := increment c xp in
  let ms1 := filter (fun e => negb (ostr_eqb (me_id e) (s_id sn) && ostr_eqb (me_pid e) pid)) ms in
  wl_scan m a orig ol cur pop ((j, NSeg sn) :: rest) (St c ms lg) =
  (St c' (kept (Some (s_pos sn)) ms1)
      (lg ++ seg_usage_evs sn (get_count c' xp) mx ++ flushed (Some (s_pos sn)) ms1),
   Ok (Some (Some (cur ++ [j]), pop, []))).
Proof.
  intros Hl Hj M LM U X MX Hpid c' ms1.
  rewrite wl_scan_seg, (bind_lift_ok _ _ _ _ M).
  assert (E : (match cur with
               | [] => w_ret false
               | _ => dow n <- w_lift (get_node m cur); is_loop_match 40 m a cur n
               end) (St c ms lg) = (St c ms lg, Ok false)).
  { destruct Hl as [-> | [n [Hn Ln]]]; [reflexivity|].
    assert (Hne : cur <> []) by (intros ->; discriminate).
    rewrite (list_case _ _ _ Hne). rewrite (bind_lift_ok _ _ _ _ (get_node_ok _ _ _ Hn)). apply LM, Hn. }
  rewrite (bind_eq _ _ _ _ _ E).
  rewrite (bind_lift_ok _ _ _ _ X), bind_cget, bind_cset.
  rewrite (bind_eq _ _ _ _ _ (check_seg_usage_gen _ _ _ _ _ _ _ U X MX)).
  rewrite (bind_lift_ok _ _ _ _ Hpid), bind_mget, bind_mset.
  rewrite (bind_eq _ _ _ _ _ (flush_eq _ _ _ _)). rewrite <- app_assoc. reflexivity.
Qed.

Lemma scan_found_loop_gen orig ol cur pop c c2 le ms lg j n z rest :
  lref m cur -> nth_error (kids m cur) j = Some n -> echain_gen c c2 le z (cur ++ [j]) n ->
  exists push s1,
    wl_scan m a orig ol cur pop ((j, n) :: rest) (St c ms lg) =
    (St c2 [] (lg ++ le ++ flat_map report_of ms), Ok (Some (Some ((cur ++ [j]) ++ repeat 0 (S z)), pop, push))) /\
    node_at ns ((cur ++ [j]) ++ repeat 0 (S z)) = Some (NSeg s1).
Proof.
  intros Hl Hj EC.
  assert (Hcr : node_at ns (cur ++ [j]) = Some n) by (rewrite (node_at_kids _ _ _ Hl); exact Hj).
  pose proof (echain_gen_loop _ _ _ _ _ _ EC) as Ln.
  destruct (wf_ref _ _ _ WF Hcr) as [_ D].
  destruct (goto_hit_gen _ _ _ _ _ _ EC 40 Hcr D ms lg) as [push [s1 [G N1]]].
  exists push, s1. split; [|exact N1].
  destruct n as [id ty nm u p rep pm | sx]; [|discriminate].
  rewrite wl_scan_loop.
  rewrite (bind_eq _ _ _ _ _ (ilm_hit_gen _ _ _ _ _ _ EC 40 D ms lg)).
  rewrite (bind_eq _ _ _ _ _ G). reflexivity.
Qed.

Lemma scan_found_restart_gen orig ol cur pop c c2 le lg n s0 rest no so :
  cur <> [] -> node_at ns cur = Some n -> nth_error (kids m cur) 0 = Some (NSeg s0) ->
  node_at ns ol = Some no -> node_at ns orig = Some (NSeg so) ->
  forall nes, note_missing_children m a cur (St c [] lg) = (St c nes lg, Ok tt) ->
  echain_gen c c2 le 0 cur n ->
  exists pop' push,
    wl_scan m a orig ol cur pop ((0, NSeg s0) :: rest) (St c [] lg) =
    (St c2 [] (lg ++ le ++ flat_map report_of nes), Ok (Some (Some (cur ++ [0]), pop', push))).
Proof.
  intros Hne Hn H0 Hol Hor nes NM EC.
  pose proof (echain_gen_loop _ _ _ _ _ _ EC) as Ln.
  destruct (wf_ref _ _ _ WF Hn) as [_ D].
  destruct (goto_hit_gen _ _ _ _ _ _ EC 40 Hn D nes lg) as [push [s1 [G N1]]]. cbn [repeat] in G.
  assert (M : smatch s0 = Ok true).
  { inversion EC as [r' n' EO|]; subst. destruct n as [id ty nm u p rep pm | sx]; [|destruct EO].
    destruct EO as [s0' [rest' [xC [x0 [mx [E [M _]]]]]]].
    unfold kids in H0. destruct cur; [congruence|]. rewrite Hn in H0. cbn [node_children] in H0. rewrite E in H0.
    injection H0 as <-. exact M. }
  assert (OS : orig_is_segment m orig = true).
  { unfold orig_is_segment. destruct orig; [discriminate Hor|]. rewrite Hor. reflexivity. }
  destruct (node_eq_ok m _ _ _ _ Hn Hol) as [same Hsame].
  rewrite wl_scan_seg, (bind_lift_ok _ _ _ _ M).
  rewrite (list_case _ _ _ Hne).
  rewrite (bind_eq _ _ (St c [] lg) (St c [] lg) true).
  2:{ rewrite (bind_lift_ok _ _ _ _ (get_node_ok _ _ _ Hn)). apply (ilm_hit_gen _ _ _ _ _ _ EC 40 D). }
  rewrite OS. rewrite (bind_eq _ _ _ _ _ NM).
  rewrite (bind_lift_ok _ _ _ _ (get_node_ok _ _ _ Hn)).
  rewrite (bind_eq _ _ _ _ _ G). rewrite (bind_lift_ok _ _ _ _ Hsame). cbn [fst snd].
  destruct same; eexists; eexists; reflexivity.
Qed.

(* ---- found in loop L, after the children `pre` have been passed leaving the entries es ---- *)

Lemma found_seg_at_gen orig ol L npos pop c lg j sn xp mx pid pre rest es :
  lref m L -> nth_error (kids m L) j = Some (NSeg sn) ->
  cands m L npos = pre ++ (j, NSeg sn) :: rest -> pass_list c orig ol L pop pre es ->
  smatch sn = Ok true ->
  (forall n, node_at ns L = Some n -> is_loop_match 40 m a L n (St c es lg) = (St c es lg, Ok false)) ->
  used (s_usage sn) = true -> node_x12path m (L ++ [j]) = Ok xp -> seg_max_repeat sn = Ok mx ->
  parent_id m (L ++ [j]) = Ok pid ->
  let c' := increment c xp in
  let ms1 := filter (fun e => negb (ostr_eqb (me_id e) (s_id sn) && ostr_eqb (me_pid e) pid)) es in
  forall f,
    walk_loop (S f) m a orig ol L npos pop (St c [] lg) =
    (St c' (kept (Some (s_pos sn)) ms1)
        (lg ++ seg_usage_evs sn (get_count c' xp) mx ++ flushed (Some (s_pos sn)) ms1),
     Ok (Some (L ++ [j]), pop, [])).
Proof.
  intros Hl Hj E PL M LM U X MX Hpid c' ms1 f.
  apply walk_loop_found; [exact Hl|]. rewrite E.
  rewrite (scan_pass _ _ _ _ _ _ _ PL). cbn [app].
  apply scan_found_seg_gen; assumption.
Qed.

Lemma found_loop_at_gen orig ol L npos pop c c2 le lg j n z pre rest es :
  lref m L -> nth_error (kids m L) j = Some n ->
  cands m L npos = pre ++ (j, n) :: rest -> pass_list c orig ol L pop pre es ->
  echain_gen c c2 le z (L ++ [j]) n ->
  forall f, exists push s1,
    walk_loop (S f) m a orig ol L npos pop (St c [] lg) =
    (St c2 [] (lg ++ le ++ flat_map report_of es), Ok (Some ((L ++ [j]) ++ repeat 0 (S z)), pop, push)) /\
    node_at ns ((L ++ [j]) ++ repeat 0 (S z)) = Some (NSeg s1).
Proof.
  intros Hl Hj E PL EC f.
  destruct (scan_found_loop_gen orig ol L pop c c2 le es lg j n z rest Hl Hj EC) as [push [s1 [G N1]]].
  exists push, s1. split; [|exact N1].
  apply walk_loop_found; [exact Hl|]. rewrite E.
  rewrite (scan_pass _ _ _ _ _ _ _ PL). cbn [app]. exact G.
Qed.

Lemma found_restart_at_gen orig ol C npos c c2 le lg n s0 rest no so :
  C <> [] -> node_at ns C = Some n -> cands m C npos = (0, NSeg s0) :: rest ->
  node_at ns ol = Some no -> node_at ns orig = Some (NSeg so) ->
  forall nes, note_missing_children m a C (St c [] lg) = (St c nes lg, Ok tt) ->
  echain_gen c c2 le 0 C n ->
  forall f pop, exists pop' push,
    walk_loop (S f) m a orig ol C npos pop (St c [] lg) =
    (St c2 [] (lg ++ le ++ flat_map report_of nes), Ok (Some (C ++ [0]), pop', push)).
Proof.
  intros Hne Hn E Hol Hor nes NM EC f pop.
  assert (Hl : lref m C) by (right; exists n; split; [exact Hn | apply (echain_gen_loop _ _ _ _ _ _ EC)]).
  assert (H0 : nth_error (kids m C) 0 = Some (NSeg s0)).
  { assert (Hin : In (0, NSeg s0) (cands m C npos)) by (rewrite E; left; reflexivity).
    rewrite cands_kids in Hin. apply filter_In in Hin as [Hin _]. apply enumerate_nth in Hin as [_ Hin]. exact Hin. }
  destruct (scan_found_restart_gen orig ol C pop c c2 le lg n s0 rest no so Hne Hn H0 Hol Hor nes NM EC) as [pop' [push G]].
  exists pop', push. apply walk_loop_found; [exact Hl|]. rewrite E. exact G.
Qed.

(* ---- what _note_missing_children records when nothing is pending ---- *)

Definition nmc_entries (c : counter) (cur : nref) (ic : nat * node) : list mentry :=
  let cr := cur ++ [fst ic] in
  if negb (usage_is (node_usage (snd ic)) "R") then []
  else if negb (cnt m c cr <? 1)%Z then []
  else match snd ic with
       | NSeg s0 => match parent_id m cr with Ok pid => [seg_entry cr s0 pid] | Raise _ => [] end
       | NLoop id _ nm _ _ _ pm =>
           match pm_nodes pm with
           | NSeg s0 :: _ => [loop_entry cr id nm s0]
           | _ => []
           end
       end.

Definition nm_entries (c : counter) (cur : nref) : list mentry :=
  flat_map (nmc_entries c cur) (enumerate 0 (kids m cur)).

Lemma nmc_step_eq cur c ms lg i ch :
  lref m cur -> nth_error (kids m cur) i = Some ch ->
  nmc_step m a cur [] (i, ch) (St c ms lg) = (St c (ms ++ nmc_entries c cur (i, ch)) lg, Ok tt).
Proof.
  intros Hl Hi. unfold nmc_step, nmc_entries. cbn [fst snd].
  assert (Hcr : node_at ns (cur ++ [i]) = Some ch) by (rewrite (node_at_kids _ _ _ Hl); exact Hi).
  destruct (usage_is (node_usage ch) "R") eqn:ER; cbn [negb]; [|rewrite app_nil_r; reflexivity].
  destruct ch as [id ty nm u p rep pm | s0].
  - cbn [node_usage] in ER.
    destruct (pm_nodes pm) as [|[|sf] rest] eqn:E.
    + destruct (negb _); rewrite app_nil_r; reflexivity.
    + destruct (negb _); rewrite app_nil_r; reflexivity.
    + destruct (wf_loop_seg m WF _ _ _ _ _ _ _ _ _ _ Hcr E) as [_ N].
      destruct (N (usage_R_not_N _ ER)) as [[xp Hxp] _].
      unfold nmc_try. rewrite (bind_lift_ok _ _ _ _ Hxp), bind_cget.
      unfold cnt. rewrite Hxp. destruct (get_count c xp <? 1)%Z; cbn [negb]; [|rewrite app_nil_r; reflexivity].
      assert (Hp : parent_id m ((cur ++ [i]) ++ [0]) = Ok id).
      { unfold parent_id. rewrite removelast_snoc. destruct (cur ++ [i]) as [|x0 xs] eqn:Ex; [exact (False_ind _ (snoc_not_nil cur i Ex))|].
        rewrite (get_node_ok _ _ _ Hcr). reflexivity. }
      rewrite (bind_lift_ok _ _ _ _ Hp). cbn [existsb].
      rewrite (append_missing_exact _ _ _ _ c ms lg Hp). reflexivity.
  - cbn [node_usage] in ER.
    destruct (wf_seg m WF _ _ Hcr) as [_ [[xp Hxp] _]].
    unfold nmc_try. rewrite (bind_lift_ok _ _ _ _ Hxp), bind_cget.
    unfold cnt. rewrite Hxp. destruct (get_count c xp <? 1)%Z; cbn [negb]; [|rewrite app_nil_r; reflexivity].
    destruct (parent_id_ok m (cur ++ [i])) as [pid Hpid]; [rewrite removelast_snoc; exact Hl|].
    rewrite (bind_lift_ok _ _ _ _ Hpid). rewrite Hpid. cbn [existsb].
    rewrite (append_missing_exact _ _ _ _ c ms lg Hpid). reflexivity.
Qed.

Lemma note_missing_eq cur c lg :
  lref m cur -> note_missing_children m a cur (St c [] lg) = (St c (nm_entries c cur) lg, Ok tt).
Proof.
  intros Hl. rewrite note_missing_children_eq.
  rewrite (bind_lift_ok _ _ _ _ (container_children_kids _ _ Hl)), bind_mget.
  assert (G : forall cs ms, (forall i ch, In (i, ch) cs -> nth_error (kids m cur) i = Some ch) ->
              w_iter (nmc_step m a cur []) cs (St c ms lg) = (St c (ms ++ flat_map (nmc_entries c cur) cs) lg, Ok tt)).
  { induction cs as [|[i ch] cs IH]; intros ms Hc; [cbn [w_iter flat_map]; rewrite app_nil_r; reflexivity|].
    cbn [w_iter flat_map]. rewrite (bind_eq _ _ _ _ _ (nmc_step_eq cur c ms lg i ch Hl (Hc i ch (or_introl eq_refl)))).
    rewrite IH; [rewrite <- app_assoc; reflexivity|]. intros i' ch' Hin. apply Hc. right. exact Hin. }
  unfold nm_entries. apply (G _ []). intros i ch Hin. apply enumerate_nth in Hin as [_ Hin]. rewrite Nat.sub_0_r in Hin. exact Hin.
Qed.

End Faulty.

(* start at p = L ++ y; the loops strictly between L and p are left without a trace; what is looked for is
   found in L, with a report and possibly entries kept *)
Lemma walk_st_via_gen m (WF : walker_wf m = true) w p d sg sc cl ls L y snp c' ms' evs t :
  node_at (root_nodes m) p = Some (NSeg snp) -> p = L ++ y -> y <> [] ->
  (forall k, 0 < k -> k < length y ->
     Forall (child_quiet m (mk_args d sg sc cl ls) (w_counter w) (L ++ firstn k y))
            (cands m (L ++ firstn k y) (pos_at m (L ++ firstn (S k) y)))) ->
  (forall f pop, exists pop' push,
     walk_loop (S f) m (mk_args d sg sc cl ls) p (removelast p) L (pos_at m (L ++ firstn 1 y)) pop (St (w_counter w) [] []) =
     (St c' ms' evs, Ok (Some t, pop', push))) ->
  exists pop push,
    walk_st m w p d sg sc cl ls = ({| w_counter := c'; w_missing := ms' |}, evs, Ok (Some t, pop, push)).
Proof.
  intros Hp E Hy Q F. rewrite (walk_st_unfold _ _ _ _ _ _ _ _ _ Hp).
  assert (Ly : 0 < length y) by (destruct y; [congruence | cbn [length]; lia]).
  assert (Er : removelast p = L ++ firstn (length y - 1) y).
  { rewrite E. rewrite <- (removelast_app_firstn L y (length y - 1)) by lia.
    replace (S (length y - 1)) with (length y) by lia. rewrite firstn_all. reflexivity. }
  assert (Ep : s_pos snp = pos_at m (L ++ firstn (S (length y - 1)) y)).
  { replace (S (length y - 1)) with (length y) by lia. rewrite firstn_all, <- E. unfold pos_at. rewrite Hp. reflexivity. }
  rewrite E in Hp.
  destruct (walk_pops m WF (mk_args d sg sc cl ls) p (removelast p) L y _ (w_counter w) [] [] Hp (length y - 1) ltac:(lia)
              ltac:(intros k K1 K2; apply Q; lia) (S (S (length L))) []) as [pop' G].
  replace (S (length p)) with (length y - 1 + S (S (length L))) by (rewrite E, app_length; lia).
  rewrite <- Er, <- Ep in G. cbv zeta. rewrite G.
  destruct (F (S (length L)) pop') as [pop2 [push F']]. rewrite F'. cbn [fst snd ws wlog St]. eauto.
Qed.

Lemma nth_error_skipn_add {A} (l0 : list A) a b : nth_error (skipn a l0) b = nth_error l0 (a + b).
Proof. revert l0. induction a as [|a IH]; intros [|x l0]; cbn [skipn Nat.add nth_error]; try reflexivity; [destruct b; reflexivity | apply IH]. Qed.

(* the children looked at again, split at two of them *)
Lemma cands_split2 m cur npos j0 n0 j ch :
  nth_error (kids m cur) j0 = Some n0 -> (npos <= node_pos n0)%Z ->
  nth_error (kids m cur) j = Some ch -> (npos <= node_pos ch)%Z -> j0 < j ->
  exists pre1 pre2 rest,
    cands m cur npos = pre1 ++ (j0, n0) :: pre2 ++ (j, ch) :: rest /\
    (forall ic, In ic pre1 -> In ic (cands m cur npos) /\ fst ic < j0) /\
    (forall ic, In ic pre2 -> In ic (cands m cur npos) /\ j0 < fst ic /\ fst ic < j).
Proof.
  intros H0 P0 Hj Pj Lt.
  assert (Hj' : nth_error (skipn (S j0) (kids m cur)) (j - S j0) = Some ch).
  { rewrite nth_error_skipn_add. replace (S j0 + (j - S j0)) with j by lia. exact Hj. }
  pose proof (enumerate_split _ _ _ H0 0) as E1. cbn [Nat.add] in E1.
  pose proof (enumerate_split _ _ _ Hj' (S j0)) as E2. replace (S j0 + (j - S j0)) with j in E2 by lia.
  exists (filter (fun ic : nat * node => (npos <=? node_pos (snd ic))%Z) (enumerate 0 (firstn j0 (kids m cur)))),
         (filter (fun ic : nat * node => (npos <=? node_pos (snd ic))%Z)
                 (enumerate (S j0) (firstn (j - S j0) (skipn (S j0) (kids m cur))))),
         (filter (fun ic : nat * node => (npos <=? node_pos (snd ic))%Z)
                 (enumerate (S j) (skipn (S (j - S j0)) (skipn (S j0) (kids m cur))))).
  assert (EC : cands m cur npos =
               filter (fun ic : nat * node => (npos <=? node_pos (snd ic))%Z) (enumerate 0 (firstn j0 (kids m cur))) ++
               (j0, n0) :: filter (fun ic : nat * node => (npos <=? node_pos (snd ic))%Z)
                                  (enumerate (S j0) (firstn (j - S j0) (skipn (S j0) (kids m cur)))) ++
               (j, ch) :: filter (fun ic : nat * node => (npos <=? node_pos (snd ic))%Z)
                                 (enumerate (S j) (skipn (S (j - S j0)) (skipn (S j0) (kids m cur))))).
  { rewrite cands_kids, E1, filter_app. cbn [filter snd].
    replace (npos <=? node_pos n0)%Z with true by (symmetry; apply Z.leb_le; exact P0).
    rewrite E2, filter_app. cbn [filter snd].
    replace (npos <=? node_pos ch)%Z with true by (symmetry; apply Z.leb_le; exact Pj). reflexivity. }
  split; [exact EC|]. split.
  - intros [i c0] Hin. split; [rewrite EC; apply in_or_app; left; exact Hin|].
    apply filter_In in Hin as [Hin _]. apply enumerate_nth in Hin as [_ Hin]. rewrite Nat.sub_0_r in Hin.
    cbn [fst]. assert (L1 : i < length (firstn j0 (kids m cur))) by (apply nth_error_Some; congruence).
    rewrite firstn_length in L1. lia.
  - intros [i c0] Hin. split; [rewrite EC; apply in_or_app; right; right; apply in_or_app; left; exact Hin|].
    apply filter_In in Hin as [Hin _]. apply enumerate_nth in Hin as [G1 Hin].
    cbn [fst]. assert (L1 : i - S j0 < length (firstn (j - S j0) (skipn (S j0) (kids m cur)))) by (apply nth_error_Some; congruence).
    rewrite firstn_length in L1. lia.
Qed.

Print Assumptions walk_st_unknown.
Print Assumptions walk_st_counter_only.
Print Assumptions found_seg_at_gen.
Print Assumptions found_loop_at_gen.
Print Assumptions found_restart_at_gen.
Print Assumptions walk_st_via_gen.
Print Assumptions miss_seg_passes.
Print Assumptions miss_loop_passes.
