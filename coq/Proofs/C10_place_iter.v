(* C10_place_iter.v — property C10, iteration law: iterate_segments of a parent after add_segment /
   add_loop / add_node is the old iteration with the new node's segments spliced in at the place the
   placement law gives; in a forest every segment node is yielded at most once.
   Spec: Spec/C10_place_spec.v.  Placement: Proofs/C10_place.v. *)
From Coq Require Import String Sorted.
From PX.Lib Require Import Base PyStr.
From PX.Model Require Import Path Segment MapLoad MapTree Walker Context.
From PX.Spec Require Import C10_spec C10_place_spec.
From PX.Proofs Require Import Ctx_basics C10_tree C10_place.

(* ================================================================== *)
(* traces                                                              *)

Lemma g_app_nil_l {A} (b : gtrace A) : g_app g_nil b = b.
Proof. destruct b. reflexivity. Qed.

Lemma g_app_assoc {A} (a b c : gtrace A) : g_app (g_app a b) c = g_app a (g_app b c).
Proof.
  destruct a as [xa [ea|]]; cbn; auto. destruct b as [xb [eb|]]; cbn; auto.
  destruct c as [xc ec]; cbn. rewrite app_assoc. reflexivity.
Qed.

Lemma g_flat_cons {A B} (f : A -> gtrace B) x r : g_flat f (x :: r) = g_app (f x) (g_flat f r).
Proof. cbn [g_flat]. destruct (f x) as [ys [e|]]; reflexivity. Qed.

Lemma g_flat_app {A B} (f : A -> gtrace B) a b : g_flat f (a ++ b) = g_app (g_flat f a) (g_flat f b).
Proof.
  induction a as [|x a IH].
  - cbn [app]. change (g_flat f []) with (@g_nil B). rewrite g_app_nil_l. reflexivity.
  - rewrite <- app_comm_cons, !g_flat_cons, IH, g_app_assoc. reflexivity.
Qed.

Lemma g_flat_ext {A B} (f g : A -> gtrace B) xs : (forall x, In x xs -> f x = g x) -> g_flat f xs = g_flat g xs.
Proof.
  induction xs as [|x xs IH]; intros E; [reflexivity|]. rewrite !g_flat_cons, IH by (intros; apply E; right; assumption).
  rewrite (E x (or_introl eq_refl)). reflexivity.
Qed.

(* ================================================================== *)
(* fuel                                                                *)

(* any fuel above the depth gives the same trace *)
Lemma iter_fuel h d o : depth_le h d o -> forall f f', d <= f -> d <= f' -> iter_segments_tr f h o = iter_segments_tr f' h o.
Proof.
  induction 1 as [d o x Ex _ IH]. intros [|f] [|f'] L L'; try lia. rewrite !iter_S.
  unfold h_get. rewrite Ex. cbn [bind]. destruct (o_class x); [reflexivity|].
  destruct (live_of h (o_children x)) as [kids|] eqn:Ek; cbn [bind]; [|reflexivity]. f_equal. f_equal.
  apply g_flat_ext. intros [c cx] Hin. cbn [fst]. apply IH; [eapply live_of_in; eauto|lia|lia].
Qed.

(* chains through `children` *)
Inductive chain (h : heap) : list oid -> Prop :=
| chain_one o : o < length h -> chain h [o]
| chain_cons o x k l : nth_error h o = Some x -> In k (o_children x) -> chain h (k :: l) -> chain h (o :: k :: l).

Lemma chain_reach h o l : chain h (o :: l) -> forall z, In z (o :: l) -> reachable_children h o z.
Proof.
  revert o. induction l as [|k l IH]; intros o C z Hz.
  - destruct Hz as [<-|[]]. apply rc_refl.
  - inversion C; subst. destruct Hz as [<-|Hz]; [apply rc_refl|].
    eapply reach_trans; [eapply reach_child; eauto|]. apply IH; assumption.
Qed.

Lemma chain_lt h l : chain h l -> Forall (fun o => o < length h) l.
Proof.
  induction 1 as [o Lo|o x k l E I C IH]; [constructor; [exact Lo|constructor]|].
  constructor; [apply nth_error_Some; congruence|exact IH].
Qed.

Lemma chain_nodup h : forall l d o, depth_le h d o -> chain h (o :: l) -> NoDup (o :: l).
Proof.
  induction l as [|k l IH]; intros d o D C; [constructor; [intros []|constructor]|].
  inversion C as [|o' x k' l' Ex Ik Ck]; subst. inversion D as [d0 o' x' Ex' Dk]; subst.
  rewrite Ex in Ex'. injection Ex' as <-.
  constructor; [|eapply IH; [apply Dk; eassumption|assumption]].
  intros Hin. eapply (no_cycle h _ o D x k); eauto. eapply chain_reach; eauto.
Qed.

Lemma chain_depth h d o : depth_le h d o -> forall m, (forall l, chain h (o :: l) -> length (o :: l) <= m) -> depth_le h m o.
Proof.
  induction 1 as [d o x Ex Dk IH]. intros m Hm.
  assert (Lo : o < length h) by (apply nth_error_Some; congruence).
  destruct m as [|m]; [specialize (Hm [] (chain_one h o Lo)); cbn in Hm; lia|].
  econstructor; [exact Ex|]. intros k Hk. apply IH; [exact Hk|]. intros l C.
  specialize (Hm (k :: l) (chain_cons h o x k l Ex Hk C)). cbn [length] in *. lia.
Qed.

(* the pigeonhole: in a heap of n objects nothing nests deeper than n *)
Theorem depth_bound h d o : depth_le h d o -> depth_le h (length h) o.
Proof.
  intros D. eapply chain_depth; [exact D|]. intros l C.
  pose proof (chain_nodup h l d o D C) as N. pose proof (chain_lt h _ C) as Lt.
  rewrite <- (seq_length (length h) 0). apply NoDup_incl_length; [exact N|].
  intros z Hz. rewrite Forall_forall in Lt. apply in_seq. specialize (Lt z Hz). lia.
Qed.

Lemma forest_depth h o : forest h -> o < length h -> depth_le h (length h) o.
Proof. intros F L. destruct (f_depth h F o L) as (d & D). eapply depth_bound, D. Qed.

(* iterate_segments with any fuel above the number of objects *)
Lemma iter_enough h o f : forest h -> o < length h -> length h <= f -> iter_segments_tr f h o = node_iterate_segments h o.
Proof. intros F L Lf. unfold node_iterate_segments. eapply iter_fuel; [apply forest_depth; assumption|lia|lia]. Qed.

(* ================================================================== *)
(* what iterate_segments looks at                                      *)

Lemma live_of_ext h h' cs : (forall c, In c cs -> nth_error h' c = nth_error h c) -> live_of h' cs = live_of h cs.
Proof.
  induction cs as [|c r IH]; intros E; [reflexivity|]. cbn [live_of]. unfold h_get. rewrite (E c (or_introl eq_refl)).
  rewrite IH by (intros; apply E; right; assumption). reflexivity.
Qed.

(* two heaps that agree, up to parent pointers, on everything reachable from o *)
Definition same_under (h h' : heap) (o : oid) : Prop :=
  forall z, reachable_children h o z -> option_map mp (nth_error h' z) = option_map mp (nth_error h z).

Lemma same_under_eq h h' o :
  (forall z, reachable_children h o z -> nth_error h' z = nth_error h z) -> same_under h h' o.
Proof. intros A z R. rewrite (A z R). reflexivity. Qed.

Lemma mp_shell a b : option_map mp a = option_map mp b -> shell_eq a b.
Proof.
  destruct a as [x|], b as [y|]; cbn; try discriminate; auto. intros E. assert (E' : mp x = mp y) by congruence.
  apply mp_fields in E'. destruct E' as (_ & E1 & E2 & _). auto.
Qed.

Lemma iter_agree h h' : forall f o, same_under h h' o -> iter_segments_tr f h' o = iter_segments_tr f h o.
Proof.
  induction f as [|f IH]; intros o A; [reflexivity|]. rewrite !iter_S. unfold h_get.
  pose proof (A o (rc_refl h o)) as Eo.
  destruct (nth_error h o) as [x|] eqn:Ex, (nth_error h' o) as [x'|] eqn:Ex'; cbn in Eo; try discriminate; [|reflexivity].
  assert (Eo' : mp x' = mp x) by congruence. clear Eo. apply mp_fields in Eo'. destruct Eo' as (Ec & El & Em & Es & Ek & Esc & Ecl).
  cbn [bind]. rewrite Ec. destruct (o_class x).
  - rewrite Em, Es, Esc, Ecl. reflexivity.
  - rewrite Ek.
    assert (Q : live_ids_of h' (o_children x) = live_ids_of h (o_children x)).
    { apply live_ids_of_shell. intros c Hc. apply mp_shell, A. eapply reach_child; eauto. }
    rewrite !live_ids_of_live_of in Q.
    destruct (live_of h (o_children x)) as [kids|] eqn:Ek1, (live_of h' (o_children x)) as [kids'|] eqn:Ek2;
      cbn [bind] in Q |- *; try discriminate.
    + injection Q as Q. cbn [g_of_result].
      rewrite (g_flat_fst (iter_segments_tr f h') kids'), (g_flat_fst (iter_segments_tr f h) kids), Q.
      apply g_flat_ext. intros c Hc. apply IH. intros z R. apply A.
      apply in_map_iff in Hc. destruct Hc as ([c' cx] & <- & Hin).
      eapply reach_trans; [eapply reach_child; [exact Ex|eapply (live_of_in h); [exact Ek1|exact Hin]]|exact R].
    + injection Q as ->. reflexivity.
Qed.

(* a subtree that is the same (up to parent pointers) in two forests iterates the same *)
Lemma iter_same_subtree h h' c :
  forest h -> forest h' -> c < length h -> same_under h h' c ->
  node_iterate_segments h' c = node_iterate_segments h c.
Proof.
  intros F F' Lc A.
  assert (Lc' : c < length h').
  { apply nth_error_Some. pose proof (A c (rc_refl h c)) as Q. apply nth_error_Some in Lc.
    destruct (nth_error h c), (nth_error h' c); cbn in Q; congruence. }
  rewrite <- (iter_enough h c (length h + length h') F Lc) by lia.
  rewrite <- (iter_enough h' c (length h + length h') F' Lc') by lia.
  apply iter_agree, A.
Qed.

(* a loop node iterates its live children in order *)
Lemma iter_loop_unfold h p me ids :
  forest h -> nth_error h p = Some me -> o_class me = CLoop -> live_ids h p = Ok ids ->
  node_iterate_segments h p = g_flat (node_iterate_segments h) ids.
Proof.
  intros F Eme C L. unfold node_iterate_segments at 1. rewrite iter_S. unfold h_get. rewrite Eme. cbn [bind]. rewrite C.
  unfold live_ids, h_get in L. rewrite Eme in L. cbn [bind] in L. rewrite live_ids_of_live_of in L.
  destruct (live_of h (o_children me)) as [kids|] eqn:Ek; cbn [bind] in L |- *; [|discriminate]. injection L as <-.
  cbn [g_of_result]. rewrite <- (g_flat_fst (node_iterate_segments h) kids). apply g_flat_ext.
  intros [c cx] Hin. cbn [fst]. apply iter_enough; [exact F| |lia].
  eapply forest_heap_wf; [exact F|exact Eme|eapply live_of_in; eauto].
Qed.

(* a segment node iterates itself *)
Definition seg_item_of (o : oid) (x : dobj) : gtrace seg_item :=
  g_of_result (
    match o_map x with
    | None => Raise AttributeError
    | Some mn => do i <- mn_id mn; do xp <- mn_x12path mn;
                 Ok (g_one {| it_id := i; it_path := xp; it_node := o; it_seg := o_seg x;
                              it_seg_count := o_seg_count x; it_cur_line := o_cur_line x |})
    end).

Lemma iter_seg_unfold h o x : nth_error h o = Some x -> o_class x = CSeg -> node_iterate_segments h o = seg_item_of o x.
Proof.
  intros E C. unfold node_iterate_segments. rewrite iter_S. unfold h_get. rewrite E. cbn [bind]. rewrite C. reflexivity.
Qed.

Lemma live_ids_inv h p ids :
  live_ids h p = Ok ids ->
  exists me, nth_error h p = Some me /\
             ids = filter (fun c => match nth_error h c with Some x => o_live x | None => false end) (o_children me).
Proof.
  unfold live_ids. intros E. apply bind_ok in E. destruct E as (me & Em & E). apply h_get_some in Em.
  apply live_ids_of_spec in E. destruct E as [E _]. eauto.
Qed.

Lemma live_ids_child h p ids c : live_ids h p = Ok ids -> In c ids ->
  exists me cx, nth_error h p = Some me /\ In c (o_children me) /\ nth_error h c = Some cx /\ o_live cx = true.
Proof.
  intros L I. apply live_ids_inv in L. destruct L as (me & Eme & ->). apply filter_In in I. destruct I as [I Lv].
  destruct (nth_error h c) as [cx|] eqn:Ec; [|discriminate]. eauto 6.
Qed.

Lemma live_ids_lt h p ids c : forest h -> live_ids h p = Ok ids -> In c ids -> c < length h.
Proof.
  intros F L I. destruct (live_ids_child _ _ _ _ L I) as (me & cx & _ & _ & Ec & _). apply nth_error_Some. congruence.
Qed.

(* ================================================================== *)
(* the iteration of a parent after a child was placed                  *)

Theorem iter_after_place h h' p me me' a b n :
  forest h -> forest h' ->
  nth_error h p = Some me -> o_class me = CLoop -> live_ids h p = Ok (a ++ b) ->
  nth_error h' p = Some me' -> o_class me' = CLoop -> live_ids h' p = Ok (a ++ n :: b) ->
  (forall c, In c (a ++ b) -> same_under h h' c) ->
  let G := g_flat (node_iterate_segments h) in
  node_iterate_segments h p = g_app (G a) (G b) /\
  node_iterate_segments h' p = g_app (G a) (g_app (node_iterate_segments h' n) (G b)).
Proof.
  intros F F' Eme C L Eme' C' L' A G. split.
  - rewrite (iter_loop_unfold _ _ _ _ F Eme C L). apply g_flat_app.
  - rewrite (iter_loop_unfold _ _ _ _ F' Eme' C' L'). rewrite g_flat_app, g_flat_cons.
    assert (Q : forall l, incl l (a ++ b) -> g_flat (node_iterate_segments h') l = G l).
    { intros l Hl. apply g_flat_ext. intros c Hc. apply iter_same_subtree; [exact F|exact F'| |apply A, Hl, Hc].
      apply live_ids_lt with (p := p) (ids := a ++ b); [exact F|exact L|apply Hl, Hc]. }
    rewrite !Q; [reflexivity| |]; intros c Hc; apply in_or_app; auto.
Qed.

Lemma reach_lt h c z : heap_wf h -> c < length h -> reachable_children h c z -> z < length h.
Proof. intros W L R. induction R as [|x k obj R IH E I]; [exact L|]. eapply W; eauto. Qed.

(* the subtree of a child of p is untouched when p's object is replaced and objects are allocated *)
Lemma old_subtree_same h p me c ext y :
  forest h -> nth_error h p = Some me -> In c (o_children me) -> same_under h (set_nth (h ++ ext) p y) c.
Proof.
  intros F Eme I. apply same_under_eq. intros z R.
  assert (z <> p) by (intros ->; eapply forest_no_cycle; eauto).
  assert (z < length h).
  { eapply reach_lt; [apply forest_heap_wf, F| |exact R]. eapply forest_heap_wf; eauto. }
  rewrite nth_error_set_nth_other by assumption. apply nth_error_app1. assumption.
Qed.

(* ITERATION, add_segment: the old iteration of p is the iteration of the children before the place
   followed by that of the children after it; the new one has the single item of the new segment
   (or the failure of its id / path lookup) between the two. *)
Theorem add_segment_iteration h h' p a n :
  forest h -> add_segment p a h = (h', Ok n) ->
  exists x sm pos before after,
    live_children h p = Ok (before ++ after) /\
    live_children h' p = Ok (before ++ (pos, n) :: after) /\
    insert_by_pos (before ++ after) (pos, n) = before ++ (pos, n) :: after /\
    nth_error h' n = Some (new_seg (Some sm) x (RObj p) [] []) /\
    let G l := g_flat (node_iterate_segments h) (map snd l) in
    node_iterate_segments h p = g_app (G before) (G after) /\
    node_iterate_segments h' p = g_app (G before) (g_app (node_iterate_segments h' n) (G after)) /\
    node_iterate_segments h' n = seg_item_of n (new_seg (Some sm) x (RObj p) [] []).
Proof.
  intros F E. destruct (add_segment_placement _ _ _ _ _ F E)
    as (me & mn & x & sm & pos & olds & Eme & Cme & Emn & Ex & Esn & Epos & L & -> & Eh' & L' & F').
  destruct (insert_split olds (@pair Z oid pos (length h))) as (bf & af & Eo & Ei). rewrite Ei in L', Eh'.
  match type of Eh' with _ = set_nth _ _ (upd_children _ ?cs) =>
    pose proof (placed_heap_frame h p me (new_seg (Some sm) x (RObj p) [] []) cs Eme) as PF end.
  cbn zeta in PF. rewrite <- Eh' in PF. destruct PF as (Len & Ep & En & _).
  exists x, sm, pos, bf, af. subst olds. split; [exact L|]. split; [exact L'|]. split; [exact Ei|].
  split; [exact En|]. cbn zeta.
  destruct (live_children_ids _ _ _ L) as (me0 & Eme0 & Li & Fi). rewrite Eme in Eme0. injection Eme0 as <-.
  destruct (live_children_ids _ _ _ L') as (me1 & Eme1 & Li' & _).
  rewrite map_app in Li, Fi. rewrite map_app in Li'. cbn [map snd] in Li'.
  destruct (iter_after_place h h' p me _ (map snd bf) (map snd af) (length h) F F' Eme Cme Li Ep Cme Li') as [I1 I2].
  { intros c Hc. rewrite Eh'. eapply old_subtree_same with (ext := [_]); [exact F|exact Eme|].
    rewrite Fi in Hc. apply filter_In in Hc. apply Hc. }
  split; [exact I1|]. split; [exact I2|]. apply iter_seg_unfold; [exact En|reflexivity].
Qed.

Lemma g_flat_one {A B} (f : A -> gtrace B) x : g_flat f [x] = f x.
Proof. cbn [g_flat]. destruct (f x) as [ys [e|]]; [reflexivity|]. cbn. rewrite app_nil_r. reflexivity. Qed.

Lemma ext_frame {B} (h : list B) p me ext y :
  nth_error h p = Some me ->
  nth_error (set_nth (h ++ ext) p y) p = Some y /\
  forall i, nth_error (set_nth (h ++ ext) p y) (length h + i) = nth_error ext i.
Proof.
  intros E. assert (Lp : p < length h) by (apply nth_error_Some; congruence). split.
  - eapply nth_error_set_nth_same. rewrite nth_error_app1 by exact Lp. exact E.
  - intros i. rewrite nth_error_set_nth_other by lia. rewrite nth_error_app2 by lia. f_equal. lia.
Qed.

(* ITERATION, add_loop: the same, the spliced-in part being the iteration of the new loop, which is
   the single item of its segment *)
Theorem add_loop_iteration h h' p a nl :
  forest h -> add_loop p a h = (h', Ok nl) ->
  exists x sm pos before after,
    live_children h p = Ok (before ++ after) /\
    live_children h' p = Ok (before ++ (pos, nl) :: after) /\
    insert_by_pos (before ++ after) (pos, nl) = before ++ (pos, nl) :: after /\
    nth_error h' (S nl) = Some (new_seg (Some sm) x (RObj nl) [] []) /\
    let G l := g_flat (node_iterate_segments h) (map snd l) in
    node_iterate_segments h p = g_app (G before) (G after) /\
    node_iterate_segments h' p = g_app (G before) (g_app (node_iterate_segments h' nl) (G after)) /\
    node_iterate_segments h' nl = seg_item_of (S nl) (new_seg (Some sm) x (RObj nl) [] []).
Proof.
  intros F E. destruct (add_loop_placement _ _ _ _ _ F E)
    as (me & mn & x & lm & sm & pos & spos & olds & Eme & Cme & Emn & Ex & Eln & Epos & Esn & Espos & L & -> & Eh' & L' & Lnl & F').
  destruct (insert_split olds (@pair Z oid pos (length h))) as (bf & af & Eo & Ei). rewrite Ei in L', Eh'.
  match type of Eh' with _ = set_nth (_ ++ ?ext) _ ?y =>
    pose proof (ext_frame h p me ext y Eme) as PF end.
  rewrite <- Eh' in PF. destruct PF as (Ep & En).
  pose proof (En 0) as En0. pose proof (En 1) as En1. rewrite Nat.add_0_r in En0. rewrite Nat.add_1_r in En1. cbn [nth_error] in En0, En1.
  exists x, sm, pos, bf, af. subst olds. split; [exact L|]. split; [exact L'|]. split; [exact Ei|].
  split; [exact En1|]. cbn zeta.
  destruct (live_children_ids _ _ _ L) as (me0 & Eme0 & Li & Fi). rewrite Eme in Eme0. injection Eme0 as <-.
  destruct (live_children_ids _ _ _ L') as (me1 & Eme1 & Li' & _).
  rewrite map_app in Li, Fi. rewrite map_app in Li'. cbn [map snd] in Li'.
  destruct (iter_after_place h h' p me _ (map snd bf) (map snd af) (length h) F F' Eme Cme Li Ep Cme Li') as [I1 I2].
  { intros c Hc. rewrite Eh'. eapply old_subtree_same; [exact F|exact Eme|].
    rewrite Fi in Hc. apply filter_In in Hc. apply Hc. }
  split; [exact I1|]. split; [exact I2|].
  destruct (live_children_ids _ _ _ Lnl) as (nlx & Enl & Lil & _). cbn [map snd] in Lil.
  rewrite (iter_loop_unfold _ _ _ _ F' En0 eq_refl Lil), g_flat_one.
  apply iter_seg_unfold; [exact En1|reflexivity].
Qed.

Lemma reach_attached h c z : reachable_children h c z -> z = c \/ attached h z.
Proof. intros R. inversion R; subst; [left; reflexivity|right; exists x, obj; auto]. Qed.

(* ITERATION, add_node (a detached live node, p not inside it): the spliced-in part is the iteration of
   the added node, which is what it was before the add *)
Theorem add_node_iteration h h' p dn dnx :
  forest h -> add_node p dn h = (h', Ok tt) ->
  ~ attached h dn -> ~ reachable_children h dn p -> nth_error h dn = Some dnx -> o_live dnx = true ->
  exists pos before after,
    live_children h p = Ok (before ++ after) /\
    live_children h' p = Ok (before ++ (pos, dn) :: after) /\
    insert_by_pos (before ++ after) (pos, dn) = before ++ (pos, dn) :: after /\
    forest h' /\
    let G l := g_flat (node_iterate_segments h) (map snd l) in
    node_iterate_segments h p = g_app (G before) (G after) /\
    node_iterate_segments h' p = g_app (G before) (g_app (node_iterate_segments h dn) (G after)) /\
    node_iterate_segments h' dn = node_iterate_segments h dn.
Proof.
  intros F E Na Nr Ed Ld. pose proof (add_node_forest _ _ _ _ F E Na Nr) as F'.
  destruct (add_node_placement _ _ _ _ E) as (me & dnx' & dm & sm & pos & olds & Eme & Cme & Ed' & Edm & _ & _ & _ & Epos & L & Eh' & L').
  rewrite Ed in Ed'. injection Ed' as <-. cbn zeta in Eh', L'. specialize (L' Ld).
  assert (Ne : p <> dn) by (intros ->; apply Nr, rc_refl).
  assert (Nq : (p =? dn) = false) by (apply Nat.eqb_neq, Ne). rewrite Nq in Eh'.
  destruct (insert_split olds (@pair Z oid pos dn)) as (bf & af & Eo & Ei). rewrite Ei in L', Eh'.
  exists pos, bf, af. subst olds. split; [exact L|]. split; [exact L'|]. split; [exact Ei|]. split; [exact F'|]. cbn zeta.
  assert (Ep : nth_error h' p = Some (upd_children me (map snd (bf ++ (pos, dn) :: af)))).
  { rewrite Eh'. eapply nth_error_set_nth_same. rewrite nth_error_set_nth_other by exact Ne. exact Eme. }
  assert (Oth : forall z, z <> p -> z <> dn -> nth_error h' z = nth_error h z).
  { intros z N1 N2. rewrite Eh'. rewrite !nth_error_set_nth_other by assumption. reflexivity. }
  assert (Edn : nth_error h' dn = Some (upd_parent dnx (RObj p))).
  { rewrite Eh'. rewrite nth_error_set_nth_other by congruence. eapply nth_error_set_nth_same, Ed. }
  destruct (live_children_ids _ _ _ L) as (me0 & Eme0 & Li & Fi). rewrite Eme in Eme0. injection Eme0 as <-.
  destruct (live_children_ids _ _ _ L') as (me1 & Eme1 & Li' & _).
  rewrite map_app in Li, Fi. rewrite map_app in Li'. cbn [map snd] in Li'.
  assert (Sdn : same_under h h' dn).
  { intros z R. destruct (Nat.eq_dec z dn) as [->|Nz].
    - rewrite Edn, Ed. reflexivity.
    - rewrite Oth; [reflexivity| |exact Nz]. intros ->. apply Nr, R. }
  assert (Idn : node_iterate_segments h' dn = node_iterate_segments h dn).
  { apply iter_same_subtree; [exact F|exact F'| |exact Sdn]. apply nth_error_Some. congruence. }
  destruct (iter_after_place h h' p me _ (map snd bf) (map snd af) dn F F' Eme Cme Li Ep Cme Li') as [I1 I2].
  { intros c Hc. rewrite Fi in Hc. apply filter_In in Hc. destruct Hc as [Hc _].
    apply same_under_eq. intros z R. apply Oth.
    - intros ->. eapply (forest_no_cycle h p me c); eauto.
    - intros ->. apply Na. destruct (reach_attached _ _ _ R) as [->|At]; [exists p, me; auto|exact At]. }
  rewrite Idn in I2. auto.
Qed.

(* ================================================================== *)
(* every segment node is yielded at most once                          *)

Lemma NoDup_app_intro {B} (l1 l2 : list B) :
  NoDup l1 -> NoDup l2 -> (forall a, In a l1 -> ~ In a l2) -> NoDup (l1 ++ l2).
Proof.
  induction l1 as [|x l1 IH]; intros N1 N2 D; [exact N2|]. inversion N1; subst. cbn [app]. constructor.
  - intros I. apply in_app_or in I. destruct I as [I|I]; [contradiction|]. apply (D x); [left; reflexivity|exact I].
  - apply IH; [assumption|assumption|]. intros a Ia. apply D. right. exact Ia.
Qed.

Lemma g_flat_nodup {A B K} (key : B -> K) (f : A -> gtrace B) xs :
  NoDup xs -> (forall x, In x xs -> NoDup (map key (fst (f x)))) ->
  (forall x y, In x xs -> In y xs -> x <> y -> forall a b, In a (fst (f x)) -> In b (fst (f y)) -> key a <> key b) ->
  NoDup (map key (fst (g_flat f xs))).
Proof.
  induction xs as [|x r IH]; intros N Each Dis; [constructor|]. inversion N; subst. cbn [g_flat].
  pose proof (Each x (or_introl eq_refl)) as Nx.
  destruct (f x) as [ys [e|]] eqn:Ef; cbn [fst] in *; [exact Nx|]. rewrite map_app. apply NoDup_app_intro; [exact Nx| |].
  - apply IH; [assumption|intros; apply Each; right; assumption|].
    intros x' y' Hx' Hy'. apply Dis; right; assumption.
  - intros k Ik Ik'. apply in_map_iff in Ik, Ik'. destruct Ik as (a & <- & Ia), Ik' as (b & Eb & Ib).
    apply g_flat_in in Ib. destruct Ib as (y & Hy & Ib).
    apply (Dis x y (or_introl eq_refl) (or_intror Hy)) with (a := a) (b := b); [intros ->; contradiction|rewrite Ef; exact Ia|exact Ib|congruence].
Qed.

(* what is yielded below o is reachable from o *)
Lemma iter_items_reach h : forall f o it, In it (fst (iter_segments_tr f h o)) -> reachable_children h o (it_node it).
Proof.
  induction f as [|f IH]; intros o it I; [destruct I|]. rewrite iter_S in I.
  apply g_of_result_in in I. destruct I as (t & Et & I). apply bind_ok in Et. destruct Et as (x & Ex & Et).
  apply h_get_some in Ex. destruct (o_class x).
  - destruct (o_map x) as [mn|]; [|discriminate]. apply bind_ok in Et. destruct Et as (i & _ & Et).
    apply bind_ok in Et. destruct Et as (xp & _ & Et). injection Et as <-. destruct I as [<-|[]]. apply rc_refl.
  - apply bind_ok in Et. destruct Et as (kids & Ek & Et). injection Et as <-.
    apply g_flat_in in I. destruct I as ([c cx] & Hc & I). cbn [fst] in I.
    eapply reach_trans; [eapply reach_child; [exact Ex|eapply live_of_in; eauto]|apply IH, I].
Qed.

(* in a forest the ancestors of a node form one line *)
Lemma reach_line h a b z : forest h -> reachable_children h a z -> reachable_children h b z ->
  reachable_children h a b \/ reachable_children h b a.
Proof.
  intros F Ra. revert b. induction Ra as [|x k obj Ra IH E I]; intros b Rb; [right; exact Rb|].
  inversion Rb as [|x' k' obj' Rb' E' I']; subst.
  - left. eapply rc_step; eauto.
  - assert (x = x') by (eapply (f_one_parent h F); eauto). subst x'. apply IH, Rb'.
Qed.

Lemma siblings_disjoint h o x k1 k2 z :
  forest h -> nth_error h o = Some x -> In k1 (o_children x) -> In k2 (o_children x) -> k1 <> k2 ->
  reachable_children h k1 z -> reachable_children h k2 z -> False.
Proof.
  intros F E I1 I2 Ne R1 R2.
  assert (Up : forall a b, In a (o_children x) -> In b (o_children x) -> a <> b -> reachable_children h a b -> False).
  { intros a b Ia Ib Nab R. inversion R as [|y k obj R' Ey Iy]; subst; [congruence|].
    assert (y = o) by (eapply (f_one_parent h F); eauto). subst y.
    eapply (forest_no_cycle h o x a); eauto. }
  destruct (reach_line h k1 k2 z F R1 R2) as [R|R]; [eapply (Up k1 k2)|eapply (Up k2 k1)]; eauto.
Qed.

Theorem iter_nodup h : forest h -> forall f o, NoDup (map it_node (fst (iter_segments_tr f h o))).
Proof.
  intros F. induction f as [|f IH]; intros o; [constructor|]. rewrite iter_S. unfold h_get.
  destruct (nth_error h o) as [x|] eqn:Ex; cbn [bind]; [|constructor]. destruct (o_class x).
  - destruct (o_map x) as [mn|]; [|constructor]. destruct (mn_id mn); cbn [bind]; [|constructor].
    destruct (mn_x12path mn); cbn [bind]; [|constructor]. cbn. constructor; [intros []|constructor].
  - destruct (live_of h (o_children x)) as [kids|] eqn:Ek; cbn [bind]; [|constructor]. cbn [g_of_result].
    rewrite (g_flat_fst (iter_segments_tr f h) kids).
    assert (Eids : live_ids_of h (o_children x) = Ok (map fst kids)) by (rewrite live_ids_of_live_of, Ek; reflexivity).
    apply live_ids_of_spec in Eids. destruct Eids as [Eids _].
    apply g_flat_nodup.
    + rewrite Eids. apply NoDup_filter. eapply f_nodup; eauto.
    + intros c _. apply IH.
    + intros c1 c2 H1 H2 Ne a b Ia Ib Q. rewrite Eids in H1, H2. apply filter_In in H1, H2.
      apply iter_items_reach in Ia, Ib. rewrite Q in Ia.
      eapply (siblings_disjoint h o x c1 c2); eauto; [apply H1|apply H2].
Qed.

Corollary iterate_segments_once h o : forest h -> NoDup (map it_node (fst (node_iterate_segments h o))).
Proof. intros F. apply iter_nodup, F. Qed.

Lemma g_app_none {A} (a b : gtrace A) xs :
  g_app a b = (xs, None) -> exists xa xb, a = (xa, None) /\ b = (xb, None) /\ xs = xa ++ xb.
Proof.
  destruct a as [xa [e|]], b as [xb eb]; cbn; intros E; [discriminate|]. injection E as <- ->. eauto.
Qed.

(* EXACTLY ONCE, add_segment: when the iteration of the parent completes after the add, it is the old
   one (which completed too) with exactly one more item, that of the new node, and no node twice *)
Theorem add_segment_once h h' p a n items :
  forest h -> add_segment p a h = (h', Ok n) -> node_iterate_segments h' p = (items, None) ->
  exists l1 l2 it,
    node_iterate_segments h p = (l1 ++ l2, None) /\ items = l1 ++ it :: l2 /\ it_node it = n /\
    NoDup (map it_node items) /\ ~ In n (map it_node (l1 ++ l2)).
Proof.
  intros F E I. destruct (add_segment_iteration _ _ _ _ _ F E) as (x & sm & pos & bf & af & _ & _ & _ & En & I0 & I1 & I2).
  cbn zeta in *. rewrite I in I1. symmetry in I1.
  apply g_app_none in I1. destruct I1 as (l1 & r & E1 & Er & ->). apply g_app_none in Er. destruct Er as (m & l2 & Em & E2 & ->).
  rewrite E1, E2 in I0. cbn in I0.
  rewrite I2 in Em. unfold seg_item_of in Em. cbn [o_map new_seg] in Em.
  destruct (mn_id sm) as [i|]; cbn [bind] in Em; [|discriminate]. destruct (mn_x12path sm) as [xp|]; cbn [bind] in Em; [|discriminate].
  injection Em as <-. eexists l1, l2, _. split; [exact I0|]. split; [reflexivity|]. split; [reflexivity|].
  pose proof (iterate_segments_once h' p) as N. destruct (add_segment_placement _ _ _ _ _ F E) as (? & ? & ? & ? & ? & ? & _ & _ & _ & _ & _ & _ & _ & _ & _ & _ & F').
  specialize (N F'). rewrite I in N. cbn [fst app] in N. split; [exact N|].
  rewrite map_app in N |- *. cbn [map] in N. apply NoDup_remove_2 in N. exact N.
Qed.

Print Assumptions depth_bound.
Print Assumptions iter_after_place.
Print Assumptions add_segment_iteration.
Print Assumptions add_loop_iteration.
Print Assumptions add_node_iteration.
Print Assumptions iterate_segments_once.
Print Assumptions add_segment_once.
