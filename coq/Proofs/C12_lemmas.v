(* C12_lemmas.v — auxiliary lemmas for C12_reader.v *)
From Coq Require Import String Lia.
From PX.Lib Require Import Base PyStr PyInt.
From PX.Gen Require Import SrcConsts.
From PX.Model Require Import Path Segment Raw Reader.
From PX.Spec Require Import C01_spec C12_spec.
From PX.Proofs Require Import C01_raw C01_roundtrip.

(* ------------------------------------------------------------------ *)
(* raw strings of an encoded document                                  *)
(* ------------------------------------------------------------------ *)

Lemma pieces_aux_none T s : forall cur, ~ In T s -> pieces_aux T s cur = [].
Proof.
  induction s as [|a s IH]; intros cur H; cbn [pieces_aux]; [reflexivity|].
  destruct (Ascii.eqb a T) eqn:E.
  - apply Ascii.eqb_eq in E. subst. exfalso. apply H. now left.
  - apply IH. intros X. apply H. now right.
Qed.

Lemma raw_spec_notin T s : ~ In T s -> raw_spec T s = [].
Proof. intros H. unfold raw_spec, terminated_pieces. now rewrite pieces_aux_none. Qed.

Lemma raw_spec_app T x rest : ~ In T x ->
  raw_spec T (x ++ T :: rest) =
  (if nonempty (lstrip_set CRLF x) then [lstrip_set CRLF x] else []) ++ raw_spec T rest.
Proof.
  intros H. unfold raw_spec. rewrite terminated_pieces_app by exact H.
  cbn [map filter]. destruct (nonempty (lstrip_set CRLF x)); reflexivity.
Qed.

Lemma is_break_In conv c : is_break conv = true -> In c conv -> mem_ascii c CRLF = true.
Proof. unfold is_break. rewrite forallb_forall. auto. Qed.

Lemma lstrip_break p x : is_break p = true -> lstrip_set CRLF (p ++ x) = lstrip_set CRLF x.
Proof.
  induction p as [|a p IH]; intros H; [reflexivity|].
  cbn [is_break forallb] in H. apply andb_true_iff in H as [H1 H2].
  cbn [app lstrip_set]. rewrite H1. apply IH. exact H2.
Qed.

Lemma break_notin d p : delims_not_break d = true -> is_break p = true -> ~ In (seg_term d) p.
Proof.
  intros Hd Hp X. apply (is_break_In _ _ Hp) in X.
  unfold delims_not_break in Hd. rewrite !andb_true_iff in Hd. destruct Hd as [[H _] _].
  rewrite X in H. discriminate H.
Qed.

Lemma seg_body_starts d s : id_starts_plain s = true ->
  exists a r, seg_body d s = a :: r /\ mem_ascii a CRLF = false /\ Ascii.eqb a " "%char = false.
Proof.
  unfold id_starts_plain, seg_body. destruct (sid s) as [[|a r]|]; try discriminate.
  intros H. apply andb_true_iff in H as [H1 H2]. apply negb_true_iff in H1, H2.
  cbn [show_sid app]. eauto.
Qed.

Lemma raw_spec_encode d conv : distinct_delims d = true -> delims_not_break d = true -> is_break conv = true ->
  forall segs p, is_break p = true ->
    forallb (clean_seg d) segs = true -> forallb id_starts_plain segs = true ->
    raw_spec (seg_term d) (p ++ encode d conv segs) = map (seg_body d) segs.
Proof.
  intros Hd Hnb Hc. induction segs as [|s segs IH]; intros p Hp Hcl Hpl.
  - unfold encode. cbn [map concat]. rewrite app_nil_r. apply raw_spec_notin. now apply break_notin.
  - cbn [forallb] in Hcl, Hpl. apply andb_true_iff in Hcl as [Hc1 Hc2].
    apply andb_true_iff in Hpl as [Hp1 Hp2]. apply clean_iff in Hc1.
    unfold encode. cbn [map concat]. fold (encode d conv segs).
    rewrite format_seg_body.
    replace (p ++ ((seg_body d s ++ [seg_term d]) ++ conv) ++ encode d conv segs)
      with ((p ++ seg_body d s) ++ seg_term d :: (conv ++ encode d conv segs))
      by (rewrite <- !app_assoc; reflexivity).
    rewrite raw_spec_app.
    + rewrite lstrip_break by exact Hp.
      destruct (seg_body_starts d s Hp1) as (a & r & Hb & H1 & H2).
      assert (Hl : lstrip_set CRLF (seg_body d s) = seg_body d s).
      { rewrite Hb. cbn [lstrip_set]. now rewrite H1. }
      rewrite Hl. rewrite Hb at 1. cbn [nonempty app]. f_equal. apply IH; auto.
    + intros X. apply in_app_or in X as [X|X].
      * revert X. now apply break_notin.
      * revert X. now apply seg_body_free.
Qed.

(* ------------------------------------------------------------------ *)
(* the last character of a formatted segment                           *)
(* ------------------------------------------------------------------ *)

Definition lastc (s : str) : option ascii := match rev s with c :: _ => Some c | [] => None end.

Lemma lastc_app a b : lastc (a ++ b) = match lastc b with Some c => Some c | None => lastc a end.
Proof.
  unfold lastc. rewrite rev_app_distr. destruct (rev b); reflexivity.
Qed.

Lemma lastc_In s c : lastc s = Some c -> In c s.
Proof.
  unfold lastc. destruct (rev s) as [|x r] eqn:E; [discriminate|].
  intros H. injection H as ->. apply in_rev. rewrite E. now left.
Qed.

Lemma lastc_nonnil s : s <> [] -> exists c, lastc s = Some c.
Proof.
  unfold lastc. intros H. destruct (rev s) as [|x r] eqn:E.
  - exfalso. apply H. rewrite <- (rev_involutive s), E. reflexivity.
  - eauto.
Qed.

Lemma join_snoc c pre v : pre <> [] -> join c (pre ++ [v]) = join c pre ++ c :: v.
Proof.
  induction pre as [|x pre IH]; [congruence|]. intros _.
  destruct pre as [|y pre].
  - reflexivity.
  - change (join c ((x :: y :: pre) ++ [v])) with (x ++ c :: join c ((y :: pre) ++ [v])).
    rewrite IH by discriminate.
    change (join c (x :: y :: pre)) with (x ++ c :: join c (y :: pre)).
    rewrite <- app_assoc. reflexivity.
Qed.

Lemma lastc_join_snoc c pre v : v <> [] -> lastc (join c (pre ++ [v])) = lastc v.
Proof.
  intros Hv. destruct (lastc_nonnil v Hv) as (z & Hz).
  destruct pre as [|x pre].
  - reflexivity.
  - rewrite join_snoc by discriminate. rewrite lastc_app.
    change (c :: v) with ([c] ++ v). rewrite lastc_app, Hz. reflexivity.
Qed.

Lemma keep_cases {A} (emp : A -> bool) xs : xs <> [] ->
  (forallb emp xs = true /\ exists x, keep emp xs = [x] /\ emp x = true) \/
  (forallb emp xs = false /\ exists pre y, keep emp xs = pre ++ [y] /\ emp y = false).
Proof.
  induction xs as [|x xs IH]; [congruence|]. intros _.
  rewrite keep_cons. cbn [forallb]. destruct (forallb emp xs) eqn:E.
  - destruct (emp x) eqn:Ex.
    + left. split; [reflexivity|]. exists x. auto.
    + right. split; [reflexivity|]. exists [], x. auto.
  - right. rewrite andb_false_r. split; [reflexivity|].
    destruct xs as [|y xs]; [discriminate E|].
    assert (Hn : y :: xs <> []) by discriminate.
    destruct (IH Hn) as [[H _]|[_ (pre & z & H1 & H2)]]; [congruence|].
    exists (x :: pre), z. rewrite H1. auto.
Qed.

Lemma format_comp_empty sub c : comp_empty c = true -> format_comp sub c = [].
Proof.
  unfold format_comp. fold (keep ele_empty c). destruct c as [|a c]; [reflexivity|].
  unfold comp_empty. cbn [forallb]. intros H. apply andb_true_iff in H as [H1 H2].
  rewrite keep_cons, H2. cbn [join]. destruct a; [reflexivity|discriminate].
Qed.

Lemma format_comp_last sub c : comp_empty c = false ->
  exists z v, lastc (format_comp sub c) = Some z /\ In v c /\ In z v.
Proof.
  intros H. unfold format_comp. fold (keep ele_empty c).
  assert (Hn : c <> []) by (intros ->; discriminate H).
  destruct (keep_cases ele_empty c Hn) as [[H1 _]|[_ (pre & v & H1 & H2)]].
  - unfold comp_empty in H. congruence.
  - rewrite H1. assert (Hv : v <> []) by (intros ->; discriminate H2).
    rewrite lastc_join_snoc by exact Hv.
    destruct (lastc_nonnil v Hv) as (z & Hz). exists z, v. split; [exact Hz|]. split.
    + apply (keep_In ele_empty). rewrite H1. apply in_or_app. right. now left.
    + now apply lastc_In.
Qed.

Lemma seg_body_last d s : cleanP d s ->
  match lastc (seg_body d s) with Some c => Ascii.eqb c (ele_term d) | None => false end
  = forallb comp_empty (els s).
Proof.
  intros (id & Hid & Hne & Hf & Hte & _).
  unfold seg_body. change (ele_term d :: ?x) with ([ele_term d] ++ x).
  rewrite !lastc_app.
  destruct (els s) as [|c0 xs] eqn:Hels.
  - cbn. now rewrite Ascii.eqb_refl.
  - rewrite <- Hels in *. assert (Hn : els s <> []) by (rewrite Hels; discriminate).
    clear Hels c0 xs.
    destruct (keep_cases comp_empty (els s) Hn) as [[H1 (x & H2 & H3)]|[H1 (pre & y & H2 & H3)]].
    + rewrite H1, H2. cbn [map join]. rewrite format_comp_empty by exact H3.
      cbn. now rewrite Ascii.eqb_refl.
    + rewrite H1, H2, map_app. cbn [map].
      destruct (format_comp_last (subele_term d) y H3) as (z & v & Hz & Hv & Hzv).
      rewrite lastc_join_snoc, Hz.
      * apply Ascii.eqb_neq. intros ->.
        assert (Hy : In y (els s)).
        { apply (keep_In comp_empty). rewrite H2. apply in_or_app. right. now left. }
        destruct (Hte y Hy v Hv) as [_ HE]. auto.
      * intros E. rewrite E in Hz. discriminate Hz.
Qed.

(* ------------------------------------------------------------------ *)
(* one formatted segment through the reader                            *)
(* ------------------------------------------------------------------ *)

Definition P (s : seg) : seg := {| sid := sid s; els := rt_els (els s) |}.

Lemma parse_seg_noterm d line : line <> [] -> ~ In (seg_term d) line ->
  parse_seg d line = parse_body d line.
Proof.
  intros Hn Hin. unfold parse_seg, parse_body.
  destruct line as [|a r] eqn:E; [congruence|]. rewrite <- E in *.
  destruct (rev line) as [|c r'] eqn:R; [reflexivity|].
  destruct (Ascii.eqb c (seg_term d)) eqn:Ec; [|reflexivity].
  apply Ascii.eqb_eq in Ec. subst c. exfalso. apply Hin. apply in_rev. rewrite R. now left.
Qed.

Lemma parse_seg_body d s : distinct_delims d = true -> cleanP d s ->
  parse_seg d (seg_body d s) = P s.
Proof.
  intros Hd Hc. rewrite parse_seg_noterm.
  - rewrite <- parse_seg_term, <- format_seg_body. now apply parse_format.
  - unfold seg_body. destruct (show_sid (sid s)); discriminate.
  - now apply seg_body_free.
Qed.

Definition seg1_err (x : xstate) (s : seg) : list err :=
  if forallb comp_empty (els s) then [mk_err "seg" "SEG1" (Some (cur_line x + 1)%Z)] else [].

Lemma reader_line_opt_body d x s :
  distinct_delims d = true -> clean_seg d s = true -> id_starts_plain s = true ->
  reader_line_opt d x (seg_body d s) =
  match reader_step d x (P s) with
  | Ok (x', e3) => Ok (x', Some (P s), seg1_err x s ++ e3)
  | Raise e => Raise e
  end.
Proof.
  intros Hd Hc Hp. apply clean_iff in Hc.
  destruct (seg_body_starts d s Hp) as (a & r & Hb & H1 & H2).
  pose proof (parse_seg_body d s Hd Hc) as HP.
  pose proof (seg_body_last d s Hc) as HL. unfold lastc in HL.
  unfold reader_line_opt, reader_line. rewrite Hb in *. rewrite H2. cbn [andb].
  cbv zeta. rewrite HP.
  destruct (reader_step d x (P s)) as [[x' e3]|e]; cbn [bind]; [|reflexivity].
  unfold seg1_err. rewrite <- HL. cbn [app].
  destruct (rev (a :: r)) as [|c r']; [reflexivity|].
  destruct (Ascii.eqb c (ele_term d)); reflexivity.
Qed.

(* ------------------------------------------------------------------ *)
(* reader_step looks at the delimiters only through ev                 *)
(* ------------------------------------------------------------------ *)

Definition uses_ev (s : seg) : bool :=
  sid_is s "ISA" || (sid_is s "GS" || (sid_is s "ST" || (sid_is s "HL" || (sid_is s "LX" ||
  (sid_is s "IEA" || (sid_is s "GE" || sid_is s "SE")))))).

Lemma reader_step_cong d1 d2 x s1 s2 :
  sid s1 = sid s2 -> seg_empty s1 = seg_empty s2 -> length (els s1) = length (els s2) ->
  (uses_ev s1 = true ->
     ev d1 s1 1 = ev d2 s2 1 /\ ev d1 s1 2 = ev d2 s2 2 /\ ev d1 s1 6 = ev d2 s2 6 /\ ev d1 s1 13 = ev d2 s2 13) ->
  reader_step d1 x s1 = reader_step d2 x s2.
Proof.
  intros Hs He Hl Hev. destruct (uses_ev s1) eqn:U.
  - destruct (Hev eq_refl) as (E1 & E2 & E6 & E13).
    unfold reader_step, base_step, sid_is, seg_id_valid.
    rewrite E1, E2, E6, E13, Hs, He, Hl. reflexivity.
  - unfold uses_ev in U.
    repeat match type of U with (_ || _) = false => apply orb_false_iff in U as [? U] end.
    assert (U2 : uses_ev s2 = false).
    { unfold uses_ev, sid_is in *. rewrite <- Hs. repeat match goal with H : _ = false |- _ => rewrite H end. reflexivity. }
    unfold uses_ev in U2.
    repeat match type of U2 with (_ || _) = false => apply orb_false_iff in U2 as [? U2] end.
    unfold reader_step, base_step.
    repeat match goal with H : sid_is _ _ = false |- _ => rewrite H; clear H end.
    rewrite ?andb_false_r. cbv beta iota.
    unfold seg_id_valid, sid_is. rewrite Hs, He. reflexivity.
Qed.

(* ------------------------------------------------------------------ *)
(* body segments                                                       *)
(* ------------------------------------------------------------------ *)

Lemma ev_simple d1 d2 s i :
  (forall c, In c (els s) -> exists v, c = [v]) -> ev d1 s i = ev d2 s i.
Proof.
  intros H. destruct i as [|k]; [reflexivity|]. unfold ev.
  destruct (length (els s) <=? k) eqn:E; [reflexivity|].
  apply Nat.leb_gt in E. destruct (H (nth k (els s) []) (nth_In _ _ E)) as (v & ->).
  reflexivity.
Qed.

Lemma rt_els_simple xs :
  (forall c, In c xs -> exists v, c = [v]) -> forall c, In c (rt_els xs) -> exists v, c = [v].
Proof.
  intros H c Hc. apply rt_els_In in Hc as [->|(c0 & Hin & ->)]; [now exists []|].
  destruct (H c0 Hin) as (v & ->). now exists v.
Qed.

Lemma uses_ev_ctl s : sid_is s "ISA" = false -> is_ctl s = false -> uses_ev (P s) = false.
Proof.
  unfold is_ctl, uses_ev, sid_is, C12_spec.l, Reader.l. cbn [existsb P sid].
  intros H0 H. rewrite orb_false_r in H.
  repeat match type of H with (_ || _) = false => apply orb_false_iff in H as [? H] end.
  repeat match goal with H : _ = false |- _ => rewrite H; clear H end. reflexivity.
Qed.

Lemma reader_step_body d1 d2 x s :
  negb (opt_eqb str_eqb (sid s) (Some (C12_spec.l "ISA"))) = true -> ctl_simple s = true ->
  reader_step d1 x (P s) = reader_step d2 x (P s).
Proof.
  intros Hn Hc. apply negb_true_iff in Hn.
  apply reader_step_cong; try reflexivity.
  intros U. unfold ctl_simple in Hc. destruct (is_ctl s) eqn:C.
  - assert (S : forall c, In c (els (P s)) -> exists v, c = [v]).
    { cbn [P els]. apply rt_els_simple. intros c Hin. apply len1.
      rewrite forallb_forall in Hc. auto. }
    repeat split; apply ev_simple; exact S.
  - rewrite uses_ev_ctl in U; [discriminate U|exact Hn|exact C].
Qed.

Lemma read_lines_body d1 d2 :
  distinct_delims d1 = true -> distinct_delims d2 = true ->
  forall body x pend,
    body_ok d1 body = true -> body_ok d2 body = true ->
    forallb id_starts_plain body = true -> forallb ctl_simple body = true ->
    read_lines d1 x pend (map (seg_body d1) body) = read_lines d2 x pend (map (seg_body d2) body).
Proof.
  intros D1 D2. induction body as [|s body IH]; intros x pend B1 B2 Hp Hc; [reflexivity|].
  unfold body_ok in B1, B2. cbn [forallb] in *.
  rewrite !andb_true_iff in *.
  destruct B1 as [[C1 C1'] [N N']]. destruct B2 as [[C2 C2'] _].
  destruct Hp as [Hp Hp']. destruct Hc as [Hc Hc'].
  assert (B1 : body_ok d1 body = true) by (unfold body_ok; now rewrite C1', N').
  assert (B2 : body_ok d2 body = true) by (unfold body_ok; now rewrite C2', N').
  cbn [map read_lines].
  rewrite (reader_line_opt_body d1 x s D1 C1 Hp), (reader_line_opt_body d2 x s D2 C2 Hp).
  rewrite (reader_step_body d1 d2 x s N Hc).
  destruct (reader_step d2 x (P s)) as [[x' e3]|e]; [|reflexivity].
  rewrite (IH x' [] B1 B2 Hp' Hc'). reflexivity.
Qed.

(* ------------------------------------------------------------------ *)
(* the ISA segment                                                     *)
(* ------------------------------------------------------------------ *)

Lemma keep_snoc {A} (emp : A -> bool) xs y : emp y = false -> keep emp (xs ++ [y]) = xs ++ [y].
Proof.
  intros H. induction xs as [|x xs IH]; [reflexivity|].
  cbn [app]. rewrite keep_cons, forallb_app. cbn [forallb]. rewrite H, andb_false_r, IH. reflexivity.
Qed.

Lemma isa_P d f : P (isa_for d f) = isa_for d f.
Proof.
  unfold P, isa_for. cbn [sid els]. f_equal.
  assert (E : rt_els (map (fun v : str => [v]) f ++ [[[subele_term d]]]) =
              map trim_comp (keep comp_empty (map (fun v : str => [v]) f ++ [[[subele_term d]]]))).
  { unfold rt_els. destruct (map (fun v : str => [v]) f); reflexivity. }
  rewrite E, keep_snoc by reflexivity. rewrite map_app, map_map. reflexivity.
Qed.

Lemma isa_seg_empty d f : seg_empty (isa_for d f) = false.
Proof.
  unfold seg_empty, isa_for. cbn [els].
  destruct (map (fun v : str => [v]) f ++ [[[subele_term d]]]) eqn:E; [destruct f; discriminate E|].
  rewrite <- E, forallb_app. cbn. apply andb_false_r.
Qed.

Lemma reader_step_isa_cong d1 d2 x f : length f = 15 ->
  reader_step d1 x (isa_for d1 f) = reader_step d2 x (isa_for d2 f).
Proof.
  intros L. apply reader_step_cong.
  - reflexivity.
  - now rewrite !isa_seg_empty.
  - unfold isa_for. cbn [els]. now rewrite !app_length, !map_length.
  - intros _.
    do 15 (destruct f as [|? f]; [discriminate L|]). destruct f; [|discriminate L].
    repeat split; reflexivity.
Qed.

Lemma reader_step_isa_ok d x s : sid s = Some (Reader.l "ISA") -> length (els s) = 16 ->
  exists x1 e, reader_step d x s = Ok (x1, e).
Proof.
  intros Hs Hl.
  assert (H1 : sid_is s "ISA" = true) by (unfold sid_is; rewrite Hs; reflexivity).
  assert (H2 : sid_is s "IEA" = false) by (unfold sid_is; rewrite Hs; reflexivity).
  assert (H3 : sid_is s "GE" = false) by (unfold sid_is; rewrite Hs; reflexivity).
  assert (H4 : sid_is s "SE" = false) by (unfold sid_is; rewrite Hs; reflexivity).
  unfold reader_step, base_step. rewrite H1, H2, H3, H4, Hl. cbv beta iota.
  change (negb (16 =? 16)) with false. cbv beta iota. cbn [bind]. eauto.
Qed.

Lemma mask_isa d f : length f = 15 ->
  mask_isa16 (isa_for d f) = {| sid := Some (Reader.l "ISA"); els := map (fun v => [v]) f |}.
Proof.
  intros L. unfold mask_isa16, isa_for. cbn [sid els].
  change (opt_eqb str_eqb (Some (C12_spec.l "ISA")) (Some (C12_spec.l "ISA"))) with true. cbv iota.
  f_equal. rewrite firstn_app, map_length, L, Nat.sub_diag, firstn_O, app_nil_r.
  apply firstn_all2. rewrite map_length. lia.
Qed.

(* ------------------------------------------------------------------ *)
(* the header text                                                     *)
(* ------------------------------------------------------------------ *)

Ltac explode_str :=
  repeat match goal with
  | H : (length ?v =? _) = true |- _ => apply Nat.eqb_eq in H
  end;
  repeat match goal with
  | H : length ?v = S _ |- _ =>
      is_var v; destruct v as [|? v]; [discriminate H|]; cbn [length] in H; apply eq_add_S in H
  | H : length ?v = 0 |- _ => is_var v; destruct v; [clear H|discriminate H]
  end.

Lemma isa_fields_len f : isa_fields_ok f = true -> length f = 15.
Proof.
  unfold isa_fields_ok. rewrite !andb_true_iff. intros [[H _] _]. now apply Nat.eqb_eq.
Qed.

Lemma isa_text d f rest : isa_fields_ok f = true ->
  let t := format_seg d (isa_for d f) ++ rest in
  header_ok t = true /\ header_delims t = d /\ slice t icvn_lo icvn_hi = nth 11 f [].
Proof.
  intros H. unfold isa_fields_ok in H. rewrite !andb_true_iff in H. destruct H as [[L W] V].
  apply Nat.eqb_eq in L.
  do 15 (destruct f as [|? f]; [discriminate L|]). destruct f; [|discriminate L]. clear L.
  cbn [combine isa_widths forallb fst snd] in W. rewrite !andb_true_iff in W.
  repeat match goal with H : _ /\ _ |- _ => destruct H end.
  explode_str. destruct d as [T E S]. intros t.
  clear H14.
  match goal with |- _ /\ _ /\ ?G => assert (Hs : G) by reflexivity end.
  split; [|split].
  - unfold header_ok. unfold icvn_lo, icvn_hi in Hs. rewrite Hs.
    apply andb_true_iff. split; [reflexivity|exact V].
  - reflexivity.
  - exact Hs.
Qed.

(* ------------------------------------------------------------------ *)
(* raw_all on a well-formed header, with the version it records        *)
(* ------------------------------------------------------------------ *)

Lemma raw_init_icvn t sch :
  header_ok t = true ->
  exists r, raw_init {| rest := t; sched := sch |} = Ok r /\
            r_buffer r ++ rest (r_stream r) = t /\ delims_of r = header_delims t /\
            r_icvn r = slice t icvn_lo icvn_hi.
Proof.
  intros H. unfold raw_init. pose proof (header_read t sch) as HR.
  destruct (read ISA_LEN {| rest := t; sched := sch |}) as [first st1].
  destruct (read_upto ISA_LEN ISA_LEN first st1) as [line st2].
  destruct HR as (E & L1 & L2).
  assert (length line = 106) as L.
  { destruct L2 as [L2|L2]; [exact L2|]. rewrite L2, app_nil_r in E. subst line.
    unfold header_ok in H. apply andb_true_iff in H as [H _]. apply andb_true_iff in H as [H _].
    apply Nat.leb_le in H. unfold ISA_LEN in L1. lia. }
  subst t. rewrite (header_ok_app _ _ L) in H. apply andb_true_iff in H as [H1 H2].
  change (cs "ISA") with (Raw.l "ISA") in H1. rewrite H1, H2.
  replace (length line =? ISA_LEN) with true by (symmetry; apply Nat.eqb_eq; exact L).
  cbn [negb].
  rewrite (nth_res_app " "%char line (rest st2) (ISA_LEN - 1)) by (rewrite L; unfold ISA_LEN; lia).
  rewrite (nth_res_app " "%char line (rest st2) ele_term_pos) by (rewrite L; unfold ele_term_pos; lia).
  rewrite (nth_res_app " "%char line (rest st2) (ISA_LEN - 2)) by (rewrite L; unfold ISA_LEN; lia).
  rewrite (nth_res_app " "%char line (rest st2) rep_term_pos) by (rewrite L; unfold rep_term_pos; lia).
  destruct (read DEFAULT_BUFSIZE st2) as [more st3] eqn:R.
  apply read_facts in R as (E & _).
  eexists. split; [reflexivity|]. cbn [r_buffer r_stream r_icvn]. split; [|split].
  - rewrite <- app_assoc, E. reflexivity.
  - reflexivity.
  - symmetry. apply slice_app_le. rewrite L. unfold icvn_hi. lia.
Qed.

Lemma raw_all_icvn t sch :
  header_ok t = true ->
  exists r, raw_all {| rest := t; sched := sch |} = Ok (r, raw_spec (seg_term (header_delims t)) t) /\
            delims_of r = header_delims t /\ r_icvn r = slice t icvn_lo icvn_hi.
Proof.
  intros H. destruct (raw_init_icvn t sch H) as (r & I & E & D & V).
  exists r. split; [|split; [exact D|exact V]]. unfold raw_all. rewrite I. cbn [bind].
  rewrite raw_lines_spec; [|unfold DEFAULT_BUFSIZE; lia|apply le_n].
  rewrite E, <- D. reflexivity.
Qed.

(* ------------------------------------------------------------------ *)
(* reading an encoded interchange                                      *)
(* ------------------------------------------------------------------ *)

Definition x0 (lx : bool) : xstate :=
  {| loops := []; hl_stack := []; gs_count := 0; st_count := 0; hl_count := 0; seg_count := 0; cur_line := 0;
     isa_ids := []; gs_ids := []; st_ids := []; lx_count := 0; check_837_lx := lx |}.

Definition fin_of (fin : result (xstate * list err)) : result (list err) :=
  match fin with Ok (x, pending) => Ok (pending ++ cleanup x) | Raise e => Raise e end.

Definition run (d : delims) (lx : bool) (segs : list seg) : list (seg * list err) * result (list err) :=
  let (out, fin) := read_lines d (x0 lx) [] (map (seg_body d) segs) in (masked out, fin_of fin).

Lemma isa_id_plain d f : id_starts_plain (isa_for d f) = true.
Proof. reflexivity. Qed.

Lemma reading_encode d conv f body lx sch :
  distinct_delims d = true -> delims_not_break d = true -> is_break conv = true ->
  isa_fields_ok f = true -> clean_seg d (isa_for d f) = true ->
  forallb (clean_seg d) body = true -> forallb id_starts_plain body = true ->
  reading lx (encode d conv (isa_for d f :: body)) sch =
  Ok (nth 11 f [], fst (run d lx (isa_for d f :: body)), snd (run d lx (isa_for d f :: body))).
Proof.
  intros Hd Hnb Hc Hf Hci Hcb Hpb.
  set (segs := isa_for d f :: body).
  assert (Ht : encode d conv segs = format_seg d (isa_for d f) ++ (conv ++ encode d conv body)).
  { unfold segs, encode. cbn [map concat]. now rewrite <- app_assoc. }
  destruct (isa_text d f (conv ++ encode d conv body) Hf) as (H1 & H2 & H3).
  rewrite <- Ht in H1, H2, H3.
  destruct (raw_all_icvn (encode d conv segs) sch H1) as (r & R & D & V).
  rewrite H2 in R, D. rewrite H3 in V.
  assert (Hraw : raw_spec (seg_term d) (encode d conv segs) = map (seg_body d) segs).
  { apply (raw_spec_encode d conv Hd Hnb Hc segs []); [reflexivity| |].
    - unfold segs. cbn [forallb]. now rewrite Hci, Hcb.
    - unfold segs. cbn [forallb]. now rewrite isa_id_plain, Hpb. }
  rewrite Hraw in R.
  unfold reading, read_all. rewrite R. cbn [bind]. rewrite D.
  unfold run. fold (x0 lx).
  destruct (read_lines d (x0 lx) [] (map (seg_body d) segs)) as [out fin].
  cbn [fst snd]. rewrite V. reflexivity.
Qed.

Lemma isa_seg1 d x f : seg1_err x (isa_for d f) = [].
Proof.
  unfold seg1_err, isa_for. cbn [els]. rewrite forallb_app. cbn. now rewrite andb_false_r.
Qed.

Lemma run_indep d1 d2 f body lx :
  distinct_delims d1 = true -> distinct_delims d2 = true ->
  isa_fields_ok f = true ->
  clean_seg d1 (isa_for d1 f) = true -> clean_seg d2 (isa_for d2 f) = true ->
  body_ok d1 body = true -> body_ok d2 body = true ->
  forallb id_starts_plain body = true -> forallb ctl_simple body = true ->
  run d1 lx (isa_for d1 f :: body) = run d2 lx (isa_for d2 f :: body).
Proof.
  intros D1 D2 Hf C1 C2 B1 B2 Hp Hc.
  pose proof (isa_fields_len f Hf) as L.
  unfold run. cbn [map read_lines].
  rewrite (reader_line_opt_body d1 _ _ D1 C1 (isa_id_plain d1 f)).
  rewrite (reader_line_opt_body d2 _ _ D2 C2 (isa_id_plain d2 f)).
  rewrite !isa_P, !isa_seg1.
  destruct (reader_step_isa_ok d1 (x0 lx) (isa_for d1 f)) as (x1 & e & R1); [reflexivity| |].
  { unfold isa_for. cbn [els]. rewrite app_length, map_length, L. reflexivity. }
  assert (R2 : reader_step d2 (x0 lx) (isa_for d2 f) = Ok (x1, e)).
  { rewrite <- R1. symmetry. now apply reader_step_isa_cong. }
  rewrite R1, R2.
  rewrite (read_lines_body d1 d2 D1 D2 body x1 [] B1 B2 Hp Hc).
  destruct (read_lines d2 x1 [] (map (seg_body d2) body)) as [out fin].
  unfold masked. cbn [map fst snd]. rewrite !mask_isa by exact L. reflexivity.
Qed.
