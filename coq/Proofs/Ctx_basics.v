(* Ctx_basics.v — small facts about Model/Context.v that theorems over the
   x12context model will want first: how exists / count / first relate on one
   generator trace, that allocation only appends, what delete() leaves. *)
From Coq Require Import String.
From PX.Lib Require Import Base PyStr.
From PX.Model Require Import Path Segment MapLoad MapTree Walker Context.

(* exists, count and first read the SAME trace (select_from): on a trace that does not raise they agree *)
Lemma exists_count_agree h self p xp xs :
  select_from h self p = Ok (xp, (xs, None)) ->
  node_exists h self p = Ok (negb (Nat.eqb (length xs) 0)) /\ node_count h self p = Ok (length xs).
Proof.
  intros E. unfold node_exists, node_count. rewrite E. simpl.
  destruct xs; simpl; split; reflexivity.
Qed.

(* a trace that yields before it raises: exists answers True although count raises *)
Lemma exists_before_raise h self p xp x xs e :
  select_from h self p = Ok (xp, (x :: xs, Some e)) ->
  node_exists h self p = Ok true /\ node_count h self p = Raise e.
Proof.
  intros E. unfold node_exists, node_count. rewrite E. simpl. split; reflexivity.
Qed.

(* allocation appends: existing objects keep their id and content *)
Lemma h_new_spec x h : h_new x h = (h ++ [x], Ok (length h)).
Proof. reflexivity. Qed.

Lemma h_new_keeps x h o y : h_get h o = Ok y -> h_get (fst (h_new x h)) o = Ok y.
Proof.
  unfold h_get, h_new. simpl. destruct (nth_error h o) eqn:E; [|discriminate].
  intros H. rewrite nth_error_app1; [rewrite E; exact H|].
  apply nth_error_Some. rewrite E. discriminate.
Qed.

(* delete() : what is left of a node *)
Lemma deleted_spec x :
  o_live (deleted x) = false /\ o_map (deleted x) = None /\ o_seg (deleted x) = None /\
  o_parent (deleted x) = RNone /\ o_children (deleted x) = [] /\ o_class (deleted x) = o_class x /\
  o_seg_count (deleted x) = o_seg_count x.
Proof. repeat split. Qed.

(* the id property raises exactly on nodes without a map node *)
Lemma obj_id_deleted x : obj_id (deleted x) = Raise EngineError.
Proof. reflexivity. Qed.

(* a generator trace consumed to the end or to its first item *)
Lemma g_first_of_all {A} (t : gtrace A) xs : g_all t = Ok xs -> g_first t = Ok (hd_error xs).
Proof.
  destruct t as [ys [e|]]; simpl; [discriminate|]. intros H. injection H as <-. destruct ys; reflexivity.
Qed.
