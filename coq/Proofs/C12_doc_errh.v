(* C12_doc_errh.v — the error handler never reads the Segment objects it stores in its ISA / GS / ST nodes:
   every call of its API commutes with rewriting them (map_errh), and the constructors read them only through
   the values they extract. *)
From Coq Require Import String Lia.
From PX.Lib Require Import Base PyStr PyInt.
From PX.Model Require Import Path Segment Errh.
From PX.Spec Require Import C12_doc_spec.

Section Commute.
  Variables fi fg ft : xseg -> xseg.
  Notation Phi := (map_errh fi fg ft).

  Definition rmap {A} (g : A -> A) (r : result A) : result A := match r with Ok a => Ok (g a) | Raise e => Raise e end.

  (* m' run on the rewritten state does what m does on the state, up to rewriting (and g on the value) *)
  Definition relR {A} (g : A -> A) (m' m : SE errh A) : Prop :=
    forall h, m' (Phi h) = (Phi (fst (m h)), rmap g (snd (m h))).

  Definition same {A} (a : A) : A := a.

  Lemma relR_ret {A} (g : A -> A) a : relR g (se_ret (g a)) (se_ret a).
  Proof. intros h. reflexivity. Qed.
  Lemma relR_ret_same {A} (a : A) : relR same (se_ret a) (se_ret a).
  Proof. intros h. reflexivity. Qed.
  Lemma relR_raise {A} (g : A -> A) e : relR g (se_raise e) (se_raise e).
  Proof. intros h. reflexivity. Qed.
  Lemma relR_lift {A} (r : result A) : relR same (se_lift r) (se_lift r).
  Proof. intros h. unfold se_lift. cbn [fst snd]. destruct r; reflexivity. Qed.
  Lemma relR_deref {A} (o : option A) : relR same (deref o) (deref o).
  Proof. apply relR_lift. Qed.
  Lemma relR_get : relR Phi se_get se_get.
  Proof. intros h. reflexivity. Qed.
  Lemma relR_mod f' f : (forall h, f' (Phi h) = Phi (f h)) -> relR same (se_mod f') (se_mod f).
  Proof. intros H h. unfold se_mod. cbn [fst snd rmap]. rewrite H. reflexivity. Qed.
  Lemma relR_bind {A B} (g : A -> A) (g2 : B -> B) (m' m : SE errh A) (f' f : A -> SE errh B) :
    relR g m' m -> (forall a, relR g2 (f' (g a)) (f a)) -> relR g2 (se_bind m' f') (se_bind m f).
  Proof.
    intros Hm Hf h. unfold se_bind. rewrite (Hm h). destruct (m h) as [h1 [a|e]]; cbn [fst snd rmap]; [apply Hf | reflexivity].
  Qed.
  Lemma relR_try {A} (g : A -> A) (m' m : SE errh A) : relR g m' m -> relR same (se_try m') (se_try m).
  Proof. intros Hm h. unfold se_try. rewrite (Hm h). destruct (m h) as [h1 [a|e]]; reflexivity. Qed.
  Lemma relR_iter {A} (f' f : A -> SE errh unit) xs : (forall x, relR same (f' x) (f x)) -> relR same (se_iter f' xs) (se_iter f xs).
  Proof.
    intros H. induction xs as [|x r IH]; cbn [se_iter]; [apply relR_ret_same|].
    apply (relR_bind same); [apply H | intros _; exact IH].
  Qed.

  Lemma nth_error_map' {A B} (f : A -> B) xs i : nth_error (map f xs) i = option_map f (nth_error xs i).
  Proof. revert i. induction xs as [|x r IH]; intros [|i]; cbn; auto. Qed.

  Lemma upd_nth_map {A} (g : A -> A) (u' u : A -> A) xs i :
    (forall x, u' (g x) = g (u x)) -> upd_nth (map g xs) i u' = map g (upd_nth xs i u).
  Proof. intros H. revert i. induction xs as [|x r IH]; intros [|i]; cbn [map upd_nth]; rewrite ?H, ?IH; reflexivity. Qed.

  Lemma relR_heap_get {A} (g : A -> A) (xs : list A) i : relR g (heap_get (map g xs) i) (heap_get xs i).
  Proof. intros h. unfold heap_get, se_lift. cbn [fst snd]. rewrite nth_error_map'. destruct (nth_error xs i); reflexivity. Qed.

  Lemma relR_get_isa i : relR (map_isa fi) (get_isa i) (get_isa i).
  Proof. unfold get_isa. apply (relR_bind Phi); [apply relR_get|]. intros h. apply relR_heap_get. Qed.
  Lemma relR_get_gs i : relR (map_gs fg) (get_gs i) (get_gs i).
  Proof. unfold get_gs. apply (relR_bind Phi); [apply relR_get|]. intros h. apply relR_heap_get. Qed.
  Lemma relR_get_st i : relR (map_st ft) (get_st i) (get_st i).
  Proof. unfold get_st. apply (relR_bind Phi); [apply relR_get|]. intros h. apply relR_heap_get. Qed.
  Lemma relR_get_seg i : relR same (get_seg i) (get_seg i).
  Proof. unfold get_seg. apply (relR_bind Phi); [apply relR_get|]. intros h. cbn [map_errh h_seg]. apply relR_lift. Qed.
  Lemma relR_get_ele i : relR same (get_ele i) (get_ele i).
  Proof. unfold get_ele. apply (relR_bind Phi); [apply relR_get|]. intros h. cbn [map_errh h_ele]. apply relR_lift. Qed.

  Lemma relR_mod_isa i u' u : (forall n, u' (map_isa fi n) = map_isa fi (u n)) -> relR same (mod_isa i u') (mod_isa i u).
  Proof.
    intros H. apply relR_mod. intros h. unfold set_h_isa, set_heaps, map_errh. cbn [h_isa h_gs h_st h_seg h_ele c_isa c_gs c_st c_seg seg_added c_ele ele_added].
    rewrite (upd_nth_map _ u' u) by exact H. reflexivity.
  Qed.
  Lemma relR_mod_gs i u' u : (forall n, u' (map_gs fg n) = map_gs fg (u n)) -> relR same (mod_gs i u') (mod_gs i u).
  Proof.
    intros H. apply relR_mod. intros h. unfold set_h_gs, set_heaps, map_errh. cbn [h_isa h_gs h_st h_seg h_ele c_isa c_gs c_st c_seg seg_added c_ele ele_added].
    rewrite (upd_nth_map _ u' u) by exact H. reflexivity.
  Qed.
  Lemma relR_mod_st i u' u : (forall n, u' (map_st ft n) = map_st ft (u n)) -> relR same (mod_st i u') (mod_st i u).
  Proof.
    intros H. apply relR_mod. intros h. unfold set_h_st, set_heaps, map_errh. cbn [h_isa h_gs h_st h_seg h_ele c_isa c_gs c_st c_seg seg_added c_ele ele_added].
    rewrite (upd_nth_map _ u' u) by exact H. reflexivity.
  Qed.
  Lemma relR_mod_seg i u : relR same (mod_seg i u) (mod_seg i u).
  Proof. apply relR_mod. intros h. reflexivity. Qed.
  Lemma relR_mod_ele i u : relR same (mod_ele i u) (mod_ele i u).
  Proof. apply relR_mod. intros h. reflexivity. Qed.

  (* ---- the counting functions do not see the rewriting ---- *)
  Lemma ele_count_at_Phi h i : ele_count_at (Phi h) i = ele_count_at h i.
  Proof. reflexivity. Qed.
  Lemma seg_count_at_Phi h i : seg_count_at (Phi h) i = seg_count_at h i.
  Proof. reflexivity. Qed.
  Lemma st_err_count_Phi h n : st_err_count (Phi h) (map_st ft n) = st_err_count h n.
  Proof. reflexivity. Qed.
  Lemma st_count_at_Phi h i : st_count_at (Phi h) i = st_count_at h i.
  Proof.
    unfold st_count_at. cbn [map_errh h_st]. rewrite nth_error_map'. destruct (nth_error (h_st h) i); reflexivity.
  Qed.
  Lemma gs_ack_code_Phi h n : gs_ack_code (Phi h) (map_gs fg n) = gs_ack_code h n.
  Proof.
    unfold gs_ack_code. cbn [map_gs gn_children gn_errors].
    replace (existsb (fun i => 0 <? st_count_at (Phi h) i) (gn_children n))
      with (existsb (fun i => 0 <? st_count_at h i) (gn_children n)); [reflexivity|].
    induction (gn_children n) as [|i r IH]; [reflexivity|]. cbn [existsb]. rewrite st_count_at_Phi, IH. reflexivity.
  Qed.
  Lemma gs_error_count_Phi h n : gs_error_count (Phi h) (map_gs fg n) = gs_error_count h n.
  Proof.
    unfold gs_error_count. cbn [map_gs gn_children gn_errors gn_elements]. f_equal. f_equal. f_equal.
    apply map_ext. intros i. apply st_count_at_Phi.
  Qed.
  Lemma gs_count_at_Phi h i : gs_count_at (Phi h) i = gs_count_at h i.
  Proof.
    unfold gs_count_at. cbn [map_errh h_gs]. rewrite nth_error_map'.
    destruct (nth_error (h_gs h) i); cbn [option_map]; [apply gs_error_count_Phi | reflexivity].
  Qed.
  Lemma isa_error_count_Phi h n : isa_error_count (Phi h) (map_isa fi n) = isa_error_count h n.
  Proof.
    unfold isa_error_count. cbn [map_isa in_children in_errors in_elements]. f_equal. f_equal. f_equal.
    apply map_ext. intros i. apply gs_count_at_Phi.
  Qed.
  Lemma get_error_count_Phi h : get_error_count (Phi h) = get_error_count h.
  Proof.
    unfold get_error_count. cbn [map_errh h_isa]. rewrite map_map. f_equal. apply map_ext. intros n. apply isa_error_count_Phi.
  Qed.

  (* ---- the API ---- *)
  Ltac rstep :=
    lazymatch goal with
    | |- relR _ (se_ret _) (se_ret _) => apply relR_ret_same
    | |- relR _ (se_raise _) (se_raise _) => apply relR_raise
    | |- relR _ (se_lift _) (se_lift _) => apply relR_lift
    | |- relR _ (deref _) (deref _) => apply relR_deref
    | |- relR _ (se_bind se_get _) (se_bind se_get _) => apply (relR_bind Phi); [apply relR_get | intros ?]
    | |- relR _ (se_bind (get_isa _) _) (se_bind (get_isa _) _) => apply (relR_bind (map_isa fi)); [apply relR_get_isa | intros ?]
    | |- relR _ (se_bind (get_gs _) _) (se_bind (get_gs _) _) => apply (relR_bind (map_gs fg)); [apply relR_get_gs | intros ?]
    | |- relR _ (se_bind (get_st _) _) (se_bind (get_st _) _) => apply (relR_bind (map_st ft)); [apply relR_get_st | intros ?]
    | |- relR _ (se_bind (se_try _) _) (se_bind (se_try _) _) => apply (relR_bind same); [eapply relR_try | intros ?]
    | |- relR _ (se_bind _ _) (se_bind _ _) => apply (relR_bind same); [| intros ?]
    | |- relR _ (get_seg _) (get_seg _) => apply relR_get_seg
    | |- relR _ (get_ele _) (get_ele _) => apply relR_get_ele
    | |- relR _ (mod_seg _ _) (mod_seg _ _) => apply relR_mod_seg
    | |- relR _ (mod_ele _ _) (mod_ele _ _) => apply relR_mod_ele
    | |- relR _ (mod_isa _ _) (mod_isa _ _) => apply relR_mod_isa; intros ?; reflexivity
    | |- relR _ (mod_gs _ _) (mod_gs _ _) => apply relR_mod_gs; intros ?; reflexivity
    | |- relR _ (mod_st _ _) (mod_st _ _) => apply relR_mod_st; intros ?; reflexivity
    | |- relR _ (se_mod _) (se_mod _) => apply relR_mod; intros ?; reflexivity
    | |- relR _ (if ?b then _ else _) (if ?b then _ else _) => destruct b
    | |- relR _ (match ?x with _ => _ end) (match ?x with _ => _ end) => destruct x
    end.

  Ltac rnorm :=
    unfold same;
    cbn [map_errh c_isa c_gs c_st c_seg seg_added c_ele ele_added h_seg h_ele] in *.

  Lemma add_cur_seg_comm : relR same add_cur_seg add_cur_seg.
  Proof. unfold add_cur_seg. repeat (rstep; rnorm). Qed.

  Lemma append_element_comm r e : relR same (append_element r e) (append_element r e).
  Proof. unfold append_element. repeat (rstep; rnorm). Qed.

  Lemma add_cur_ele_comm : relR same add_cur_ele add_cur_ele.
  Proof.
    unfold add_cur_ele. apply (relR_bind same); [apply add_cur_seg_comm|]. intros _.
    repeat first [apply append_element_comm | rstep; rnorm].
  Qed.

  Lemma isa_cur_line_map n : isa_cur_line (map_isa fi n) = isa_cur_line n.
  Proof. reflexivity. Qed.
  Lemma gs_cur_line_map n : gs_cur_line (map_gs fg n) = gs_cur_line n.
  Proof. reflexivity. Qed.
  Lemma st_cur_line_map n : st_cur_line (map_st ft n) = st_cur_line n.
  Proof. reflexivity. Qed.

  Lemma node_cur_line_comm r : relR same (node_cur_line r) (node_cur_line r).
  Proof.
    unfold node_cur_line. destruct r; repeat (rstep; rnorm; rewrite ?isa_cur_line_map, ?gs_cur_line_map, ?st_cur_line_map).
  Qed.

  Lemma isa_error_comm c m : relR same (isa_error c m) (isa_error c m).
  Proof. unfold isa_error. repeat (rstep; rnorm; rewrite ?isa_cur_line_map). Qed.

  Lemma gs_error_comm c m : relR same (gs_error c m) (gs_error c m).
  Proof. unfold gs_error. repeat first [apply isa_error_comm | rstep; rnorm; rewrite ?gs_cur_line_map]. Qed.

  Lemma st_error_comm c m : relR same (st_error c m) (st_error c m).
  Proof. unfold st_error. repeat first [apply isa_error_comm | rstep; rnorm; rewrite ?st_cur_line_map]. Qed.

  Lemma seg_error_comm c m v ln : relR same (seg_error c m v ln) (seg_error c m v ln).
  Proof.
    unfold seg_error. apply (relR_bind same).
    - eapply relR_try. apply (relR_bind same); [apply add_cur_seg_comm|]. intros _. repeat (rstep; rnorm).
    - intros _. repeat first [apply node_cur_line_comm | rstep; rnorm].
  Qed.

  Lemma ele_error_comm c m v : relR same (ele_error c m v) (ele_error c m v).
  Proof.
    unfold ele_error. apply (relR_bind same); [apply add_cur_ele_comm|]. intros _.
    repeat first [apply node_cur_line_comm | rstep; rnorm].
  Qed.

  Lemma add_seg_comm mn x sc cl ls : relR same (add_seg mn x sc cl ls) (add_seg mn x sc cl ls).
  Proof. unfold add_seg. rstep. Qed.

  Lemma add_ele_comm mn : relR same (add_ele mn) (add_ele mn).
  Proof. unfold add_ele. repeat (rstep; rnorm). Qed.

  Lemma close_isa_loop_comm src : relR same (close_isa_loop src) (close_isa_loop src).
  Proof. unfold close_isa_loop. repeat (rstep; rnorm). Qed.

  Lemma close_st_loop_comm src : relR same (close_st_loop src) (close_st_loop src).
  Proof.
    unfold close_st_loop. rstep. rnorm. rstep; [rstep|]. rstep. rnorm.
    apply (relR_bind same).
    - apply relR_mod_st. intros n. rewrite (st_err_count_Phi a n). reflexivity.
    - intros _. rstep.
  Qed.

  Lemma close_gs_loop_comm x src : relR same (close_gs_loop x src) (close_gs_loop x src).
  Proof.
    unfold close_gs_loop. rstep. rnorm. rstep; [rstep|]. rstep. rnorm.
    apply (relR_bind same).
    - apply relR_mod_gs. intros n. rewrite (gs_ack_code_Phi a n). reflexivity.
    - intros _. repeat (rstep; rnorm).
  Qed.

  (* the constructors: the stored object is whatever it is; the extracted values must agree *)
  Lemma add_isa_loop_comm x' x src :
    rmap (map_isa fi) (mk_isa x src) = mk_isa x' src -> relR same (add_isa_loop x' src) (add_isa_loop x src).
  Proof.
    intros H h. unfold add_isa_loop, se_bind, se_lift. rewrite <- H.
    destruct (mk_isa x src) as [n|e]; cbn [rmap fst snd]; [|reflexivity].
    unfold se_mod. cbn [fst snd rmap same]. f_equal.
    unfold set_cursors, set_h_isa, set_heaps, map_errh.
    cbn [h_isa h_gs h_st h_seg h_ele c_isa c_gs c_st c_seg seg_added c_ele ele_added].
    rewrite map_length, map_app. reflexivity.
  Qed.

  Lemma add_gs_loop_comm x' x src :
    rmap (map_gs fg) (mk_gs x src) = mk_gs x' src -> relR same (add_gs_loop x' src) (add_gs_loop x src).
  Proof.
    intros H. unfold add_gs_loop. rstep. rnorm. rstep; [rstep|].
    apply (relR_bind (map_gs fg)).
    { intros h. unfold se_lift. cbn [fst snd]. rewrite <- H. reflexivity. }
    intros n. cbn [map_errh h_gs]. rewrite map_length.
    rstep.
    - apply relR_mod. intros h. unfold set_h_gs, set_heaps, map_errh.
      cbn [h_isa h_gs h_st h_seg h_ele c_isa c_gs c_st c_seg seg_added c_ele ele_added]. rewrite map_app. reflexivity.
    - repeat (rstep; rnorm).
  Qed.

  Lemma add_st_loop_comm x' x src :
    rmap (map_st ft) (mk_st x src) = mk_st x' src -> relR same (add_st_loop x' src) (add_st_loop x src).
  Proof.
    intros H. unfold add_st_loop. rstep. rnorm. rstep; [rstep|].
    apply (relR_bind (map_st ft)).
    { intros h. unfold se_lift. cbn [fst snd]. rewrite <- H. reflexivity. }
    intros n. cbn [map_errh h_st]. rewrite map_length.
    rstep.
    - apply relR_mod. intros h. unfold set_h_st, set_heaps, map_errh.
      cbn [h_isa h_gs h_st h_seg h_ele c_isa c_gs c_st c_seg seg_added c_ele ele_added]. rewrite map_app. reflexivity.
    - repeat (rstep; rnorm).
  Qed.
End Commute.

(* ------------------------------------------------------------------ *)
(* two states that agree once rewritten stay so under two calls that do the same up to rewriting *)
Definition hsim (m1 m2 : SE errh unit) : Prop :=
  forall h1 h2, strip_errh h1 = strip_errh h2 ->
    strip_errh (fst (m1 h1)) = strip_errh (fst (m2 h2)) /\ snd (m1 h1) = snd (m2 h2).

Lemma rmap_same_unit (r : result unit) : rmap (@same unit) r = r.
Proof. destruct r; reflexivity. Qed.

(* a call m that commutes with the rewriting, compared with itself *)
Lemma hsim_comm (m : SE errh unit) :
  relR strip_isa_xseg strip_xseg strip_xseg same m m -> hsim m m.
Proof.
  intros C h1 h2 H. unfold strip_errh in *. pose proof (C h1) as E1. pose proof (C h2) as E2. rewrite H in E1. rewrite E1 in E2.
  rewrite !rmap_same_unit in E2. injection E2 as A B. split; congruence.
Qed.

(* two calls m1, m2 that both reduce to one call m' on the rewritten state *)
Lemma hsim_via (m1 m2 m' : SE errh unit) :
  relR strip_isa_xseg strip_xseg strip_xseg same m' m1 -> relR strip_isa_xseg strip_xseg strip_xseg same m' m2 -> hsim m1 m2.
Proof.
  intros C1 C2 h1 h2 H. unfold strip_errh in *. pose proof (C1 h1) as E1. pose proof (C2 h2) as E2. rewrite H in E1. rewrite E1 in E2.
  rewrite !rmap_same_unit in E2. injection E2 as A B. split; congruence.
Qed.

Print Assumptions get_error_count_Phi.
Print Assumptions close_gs_loop_comm.
Print Assumptions hsim_via.
