(* C09_order_maps.v — Spec/C09_order_spec.v evaluated on the shipped maps, and the corollaries of
   Proofs/C09_order_run.v for the shipped environment (Proofs/C07_driver_maps.v: shipped_load, shipped_idx).

   RESULTS
   1. ctx_order_ok (depth_ok, paths_distinct, shape_ok) is TRUE on every shipped map file that loads (one Example
      per file), with one exception:
        277.5010.X212   shape_ok is FALSE (depth_ok and paths_distinct are true).  The map file lacks the closing
                        tag of loop 2000A (after 2100A), so loop 2000B is loaded INSIDE 2000A, at the same position
                        (100) as 2000A's own segment HL; child loops are put before segments of the same position,
                        so 2000A = [loop 2000B; segment HL; loop 2100A] STARTS WITH A LOOP and has a segment child
                        (HL) whose id is also the id of the first segment of 2000B: by ids alone, `HL` could both
                        match 2000A/HL and make _is_loop_match(2000A) answer True (through 2000B), the case in which
                        map_walker.walk returns push_loops = [2000A] for a node that lies in 2000A/2000B.  It cannot
                        happen on this map with a real HL: segment_if.is_match compares HL03 with the code lists,
                        which are {20} for 2000A/HL and {21} for 2000B/HL, so no HL matches both (shape_ok looks at
                        ids only).  The file is not referenced by maps.xml, so the shipped index never selects it
                        (and it is not part of shipped_load); x212_* below run the model on it with an index that
                        does, with HL levels in and out of order: every children list stays in allocation order.
                        No reordering document was found on it; the theorems just do not cover it.
        841.4010.XXXC   does not load (known finding C16-841-unloadable).
   2. lid_ok: in every shipped map ISA is the first segment of ISA_LOOP and GS the first segment of GS_LOOP inside
      ISA_LOOP, so lid_ok holds for every loop id except ISA_LOOP (shipped_entries_ok_x).
   3. bht_compat: the index names three files for the two 278 guides (278.4010.X094.27.A1, 278.4010.X094.A1,
      997.4010); together with the two control maps they are pairwise bht_compat (shipped_bht_pairs).
   4. Corollaries for the shipped environment:
        shipped_allocation_order_x, shipped_no_loss_no_reorder_x   EVERY loop id except ISA_LOOP (ST_LOOP,
            GS_LOOP, HEADER, DETAIL, 2000A, 2300, ...): a completed iteration has every children list in
            allocation order, and the conclusion of C09_no_loss_no_reorder_partial holds WITHOUT its premise;
        shipped_allocation_order, shipped_no_loss_no_reorder       the same from the simpler condition lid_inner
            (loop ids other than ISA_LOOP, GS_LOOP, ST_LOOP, HEADER).
   5. FINDING (isa_loop_needs_cross_map_condition): for the loop id ISA_LOOP no per-map condition can do.  With the
      shipped map FILES and an index that admits a 4010 guide inside a 00501 interchange, ISA GS ST GS ST BHT SE GE IEA
      completes and yields ISA ST BHT SE GS ST GS GE IEA: _get_insert_idx compares the position of ST_LOOP in the
      4010 map (20) with positions of the control map (ISA: 10) and of the 5010 map (GS: 100, ST_LOOP: 200).  With the
      shipped index the document is refused at the second GS (no map for 004010X098A1 under 00501), and within one
      version the shipped maps agree on the position of ST_LOOP (20 / 200), so no reordering document was found
      for the shipped configuration; a proof for ISA_LOOP needs a condition relating the positions of equal-path
      loops of the maps that the index can select within one interchange, and an invariant for trees that
      stay open across GS (the GS node is hung under whatever loop node is current).  OPEN. *)
From Coq Require Import String List ZArith.
From PX.Lib Require Import Base PyStr Xml.
From PX.Gen Require Import MapRegexes.
From PX.Gen.Maps Require M_dataele M_codes M_maps.
From PX.Model Require Import Path Segment Raw Reader MapLoad MapTree Walker Driver Context CtxReader.
From PX.Spec Require Import C07_walker_wf C09_spec C09_order_spec.
From PX.Proofs Require Import C07_driver_maps C09_order_run.
Import ListNotations.

Definition order_ok_tree (t : xml) : bool :=
  match load_tree t with Ok m => ctx_order_ok m | Raise _ => false end.

(* ---- one Example per map ---- *)
Example order_x12_control_00401 : order_ok_tree M_x12_control_00401.tree = true. Proof. vm_compute. reflexivity. Qed.
Example order_x12_control_00501 : order_ok_tree M_x12_control_00501.tree = true. Proof. vm_compute. reflexivity. Qed.
Example order_270_4010_X092_A1 : order_ok_tree M_270_4010_X092_A1.tree = true. Proof. vm_compute. reflexivity. Qed.
Example order_271_4010_X092_A1 : order_ok_tree M_271_4010_X092_A1.tree = true. Proof. vm_compute. reflexivity. Qed.
Example order_276_4010_X093_A1 : order_ok_tree M_276_4010_X093_A1.tree = true. Proof. vm_compute. reflexivity. Qed.
Example order_277U_4010_X070 : order_ok_tree M_277U_4010_X070.tree = true. Proof. vm_compute. reflexivity. Qed.
Example order_277_4010_X093_A1 : order_ok_tree M_277_4010_X093_A1.tree = true. Proof. vm_compute. reflexivity. Qed.
Example order_277_5010_X214 : order_ok_tree M_277_5010_X214.tree = true. Proof. vm_compute. reflexivity. Qed.
Example order_278_4010_X094_27_A1 : order_ok_tree M_278_4010_X094_27_A1.tree = true. Proof. vm_compute. reflexivity. Qed.
Example order_278_4010_X094_A1 : order_ok_tree M_278_4010_X094_A1.tree = true. Proof. vm_compute. reflexivity. Qed.
Example order_820_5010_X218 : order_ok_tree M_820_5010_X218.tree = true. Proof. vm_compute. reflexivity. Qed.
Example order_820_5010_X218_v2 : order_ok_tree M_820_5010_X218_v2.tree = true. Proof. vm_compute. reflexivity. Qed.
Example order_834_4010_X095_A1 : order_ok_tree M_834_4010_X095_A1.tree = true. Proof. vm_compute. reflexivity. Qed.
Example order_834_5010_X220_A1 : order_ok_tree M_834_5010_X220_A1.tree = true. Proof. vm_compute. reflexivity. Qed.
Example order_834_5010_X220_A1_v2 : order_ok_tree M_834_5010_X220_A1_v2.tree = true. Proof. vm_compute. reflexivity. Qed.
Example order_835_4010_X091_A1 : order_ok_tree M_835_4010_X091_A1.tree = true. Proof. vm_compute. reflexivity. Qed.
Example order_835_5010_X221_A1 : order_ok_tree M_835_5010_X221_A1.tree = true. Proof. vm_compute. reflexivity. Qed.
Example order_835_5010_X221_A1_v2 : order_ok_tree M_835_5010_X221_A1_v2.tree = true. Proof. vm_compute. reflexivity. Qed.
Example order_837Q3_I_5010_X223_A1 : order_ok_tree M_837Q3_I_5010_X223_A1.tree = true. Proof. vm_compute. reflexivity. Qed.
Example order_837Q3_I_5010_X223_A1_v2 : order_ok_tree M_837Q3_I_5010_X223_A1_v2.tree = true. Proof. vm_compute. reflexivity. Qed.
Example order_837_4010_X096_A1 : order_ok_tree M_837_4010_X096_A1.tree = true. Proof. vm_compute. reflexivity. Qed.
Example order_837_4010_X097_A1 : order_ok_tree M_837_4010_X097_A1.tree = true. Proof. vm_compute. reflexivity. Qed.
Example order_837_4010_X098_A1 : order_ok_tree M_837_4010_X098_A1.tree = true. Proof. vm_compute. reflexivity. Qed.
Example order_837_5010_X222_A1 : order_ok_tree M_837_5010_X222_A1.tree = true. Proof. vm_compute. reflexivity. Qed.
Example order_997_4010 : order_ok_tree M_997_4010.tree = true. Proof. vm_compute. reflexivity. Qed.
Example order_999_5010 : order_ok_tree M_999_5010.tree = true. Proof. vm_compute. reflexivity. Qed.
Example order_999_5010X231_A1 : order_ok_tree M_999_5010X231_A1.tree = true. Proof. vm_compute. reflexivity. Qed.
Example order_comp_test : order_ok_tree M_comp_test.tree = true. Proof. vm_compute. reflexivity. Qed.
Example order_820_4010_X061_A1 : order_ok_tree M_820_4010_X061_A1.tree = true. Proof. vm_compute. reflexivity. Qed.
Example order_830_4010_PS : order_ok_tree M_830_4010_PS.tree = true. Proof. vm_compute. reflexivity. Qed.
Example noload_841 : load_tree M_841_4010_XXXC.tree = Raise EngineError. Proof. vm_compute. reflexivity. Qed.

(* ---- the exception ---- *)
Example order_277_5010_X212 : order_ok_tree M_277_5010_X212.tree = false. Proof. vm_compute. reflexivity. Qed.
Example parts_277_5010_X212 :
  match load_tree M_277_5010_X212.tree with
  | Ok m => (forallb (depth_ok 40) (root_nodes m), paths_distinct m, shape_ok m)
  | Raise _ => (false, false, false)
  end = (true, true, false).
Proof. vm_compute. reflexivity. Qed.

(* the one loop that fails node_shape_ok: 2000A = [loop 2000B (pos 100); segment HL (pos 100); loop 2100A (pos 500)],
   ids that can open it: HL (through 2000B), NM1 (through 2100A) *)
Definition sh (o : option str) : option string := option_map string_of_list_ascii o.
Example bad_nodes_277_5010_X212 :
  match load_tree M_277_5010_X212.tree with
  | Ok m =>
      flat_map (fun r => match node_at (root_nodes m) r with
                         | Some (NLoop i _ _ _ p _ pm as n) =>
                             if node_shape_ok n then []
                             else [(r, sh i, p, map (fun c => (sh (node_id c), node_is_loop c, node_pos c)) (pm_nodes pm),
                                    map sh (start_ids 40 n))]
                         | _ => []
                         end) (all_refs m)
  | Raise _ => []
  end =
  [([0; 1; 2; 2; 0]%nat, Some "2000A"%string, 100%Z,
    [(Some "2000B"%string, true, 100%Z); (Some "HL"%string, false, 100%Z); (Some "2100A"%string, true, 500%Z)],
    [Some "HL"%string; Some "NM1"%string])].
Proof. vm_compute. reflexivity. Qed.

(* ------------------------------------------------------------------ *)
(* the loop ids on the fixed paths *)

Definition path_ids (m : xmap) (p : string) : list str :=
  match getnode m p with
  | Ok r => match node_x12path m r with Ok xp => loop_list xp | Raise _ => [] end
  | Raise _ => []
  end.

Definition fixed_ids (m : xmap) : list str :=
  path_ids m "/ISA_LOOP/ISA" ++ path_ids m "/ISA_LOOP/GS_LOOP/GS" ++ path_ids m "/ISA_LOOP/GS_LOOP/ST_LOOP/HEADER/BHT".

Lemma mem_str_app x a b : mem_str x (a ++ b) = mem_str x a || mem_str x b.
Proof. induction a as [|y a IH]; cbn [app mem_str]; [reflexivity|]. rewrite IH, orb_assoc. reflexivity. Qed.

Lemma off_path_ids m p i : off_path m p i = negb (mem_str i (path_ids m p)).
Proof.
  unfold off_path, path_ids. destruct (getnode m p) as [r|e]; [|reflexivity].
  destruct (node_x12path m r) as [xp|e]; reflexivity.
Qed.

Lemma lid_inner_ids m i : mem_str i (fixed_ids m) = false -> lid_inner (Some i) m = true.
Proof.
  unfold fixed_ids. rewrite !mem_str_app. intros H. apply orb_false_iff in H as [H1 H]. apply orb_false_iff in H as [H2 H3].
  cbn [lid_inner]. rewrite !off_path_ids, H1, H2, H3. reflexivity.
Qed.

Definition envelope_ids : list str := map sl ["ISA_LOOP"; "GS_LOOP"; "ST_LOOP"; "HEADER"]%string.

Definition subset_str (a b : list str) : bool := forallb (fun x => mem_str x b) a.

Lemma subset_mem a b x : subset_str a b = true -> mem_str x b = false -> mem_str x a = false.
Proof.
  unfold subset_str. induction a as [|y a IH]; cbn [forallb mem_str]; intros H Hb; [reflexivity|].
  apply andb_true_iff in H as [H1 H2]. rewrite (IH H2 Hb), orb_false_r.
  destruct (str_eqb x y) eqn:Exy; [|reflexivity]. apply str_eqb_eq in Exy. subst y. congruence.
Qed.

(* the loop id is none of the envelope ids *)
Definition inner_id (loop_id : option str) : Prop :=
  match loop_id with Some i => mem_str i envelope_ids = false | None => True end.

Definition entry_order_ok (p : string * xml) : bool :=
  match load_tree (snd p) with
  | Ok m => ctx_order_ok m && subset_str (fixed_ids m) envelope_ids
  | Raise _ => true
  end.

Lemma assoc_order_ok e : forallb entry_order_ok e = true ->
  forall f m, assoc_load e f = Ok m -> ctx_order_ok m = true /\ subset_str (fixed_ids m) envelope_ids = true.
Proof.
  intros H. induction e as [|[n t] e IH]; intros f m L; cbn [assoc_load] in L; [discriminate L|].
  cbn [forallb] in H. apply andb_true_iff in H as [H1 H2].
  destruct (str_eqb (sl n) f); [|exact (IH H2 f m L)].
  unfold entry_order_ok in H1. cbn [snd] in H1. rewrite L in H1. apply andb_true_iff in H1. exact H1.
Qed.

Example shipped_entries_ok : forallb entry_order_ok shipped = true.
Proof. vm_compute. reflexivity. Qed.

(* the ids on the fixed paths, map by map (the maps without an envelope have none) *)
Example fixed_ids_shipped :
  forallb (fun p => match load_tree (snd p) with
                    | Ok m => subset_str (fixed_ids m) envelope_ids
                    | Raise _ => true
                    end) shipped = true.
Proof. vm_compute. reflexivity. Qed.

Theorem shipped_env_order_ok loop_id : inner_id loop_id -> env_order_ok shipped_load loop_id.
Proof.
  intros Hi f m L. destruct (assoc_order_ok shipped shipped_entries_ok f m L) as [H1 H2]. split; [exact H1|].
  destruct loop_id as [i|]; [|reflexivity]. apply lid_inner_ids. eapply subset_mem; [exact H2 | exact Hi].
Qed.

Theorem shipped_allocation_order :
  forall loop_id text r,
    inner_id loop_id ->
    r = iter_segments_gen shipped_load shipped_idx loop_id text -> ir_res r = Ok tt ->
    children_in_allocation_order (ir_heap r).
Proof.
  intros loop_id text r Hi Er Hres. eapply ctx_allocation_order; [apply shipped_env_order_ok; exact Hi | exact Er | exact Hres].
Qed.

Theorem shipped_no_loss_no_reorder :
  forall loop_id text r,
    inner_id loop_id ->
    r = iter_segments_gen shipped_load shipped_idx loop_id text -> ir_res r = Ok tt ->
    exists src yss,
      source_items text = Ok src /\
      Forall2 (fun y ys => yield_items y = Ok ys) (ir_yields r) yss /\
      concat yss = src.
Proof.
  intros loop_id text r Hi Er Hres.
  eapply ctx_no_loss_no_reorder_inner; [apply shipped_env_order_ok; exact Hi | exact Er | exact Hres].
Qed.

(* e.g. the loop ids of the usual applications *)
Example inner_2300 : inner_id (Some (sl "2300")). Proof. vm_compute. reflexivity. Qed.
Example inner_2000A : inner_id (Some (sl "2000A")). Proof. vm_compute. reflexivity. Qed.
Example inner_DETAIL : inner_id (Some (sl "DETAIL")). Proof. vm_compute. reflexivity. Qed.
Example not_inner_ST_LOOP : mem_str (sl "ST_LOOP") envelope_ids = true. Proof. vm_compute. reflexivity. Qed.

(* ------------------------------------------------------------------ *)
(* 277.5010.X212 (shape_ok false): the model evaluated on it.  The shipped index does not know the file;
   x_idx adds an entry for it.  The document has its HL levels in order (20, 21, 19, 22) and then out of
   order (21 under the first 20; a new 20; 21).  With the loop ids DETAIL and 2000A the iteration ends in an
   exception on the first HL*..*20 (2000A starts with the loop 2000B, so _is_loop_match(2000A) is False
   for it: the map cannot read its own level-20 HL); with 2000B it completes, every children list is in
   allocation order and the yielded segments are the source segments in order. *)
Definition x_load : str -> result xmap := assoc_load (("277.5010.X212.xml"%string, M_277_5010_X212.tree) :: shipped).
Definition x_idx : result (list map_entry) :=
  Ok ({| mi_icvn := Some (sl "00501"); mi_vriic := Some (sl "005010X212"); mi_fic := Some (sl "HN"); mi_tspc := None;
         mi_file := Some (sl "277.5010.X212.xml"); mi_abbr := None |} :: load_index M_maps.tree).
Definition x_doc : str :=
  sl ("ISA*00*          *00*          *ZZ*ZZ000          *ZZ*ZZ001          *030828*1128*^*00501*000010121*0*T*:~" ++
      "GS*HN*SENDER*RECEIVER*20200101*1200*1*X*005010X212~ST*277*0001*005010X212~BHT*0010*08*277X212*20200101*1200*DG~" ++
      "HL*1**20*1~NM1*PR*2*PAYER*****PI*12345~HL*2*1*21*1~NM1*41*2*SUBMITTER*****46*111~" ++
      "HL*3*2*19*1~NM1*1P*2*PROV*****XX*1234567893~HL*4*3*22*0~NM1*IL*1*DOE*JOHN****MI*W1~TRN*1*ABC~STC*A1:20*20200101**100~" ++
      "HL*5*1*21*1~NM1*41*2*SUBMITTER2*****46*222~HL*6**20*1~NM1*PR*2*PAYER2*****PI*999~HL*7*6*21*1~NM1*41*2*SUB3*****46*333~" ++
      "SE*20*0001~GE*1*1~IEA*1*000010121~")%string.
Definition x_run (lid : string) : iter_result := iter_segments_gen x_load x_idx (Some (sl lid)) x_doc.

Fixpoint increasing (l : list nat) : bool :=
  match l with
  | a :: ((b :: _) as r) => (a <? b) && increasing r
  | _ => true
  end.

Example x212_2000B_completes : ir_res (x_run "2000B") = Ok tt.
Proof. vm_compute. reflexivity. Qed.
Example x212_2000B_in_order : forallb increasing (map o_children (ir_heap (x_run "2000B"))) = true.
Proof. vm_compute. reflexivity. Qed.
Example x212_2000B_no_loss :
  (do src <- source_items x_doc;
   do yss <- all_ok yield_items (ir_yields (x_run "2000B"));
   Ok ((length (concat yss) =? length src) &&
       forallb (fun ab => let '((s1, c1, l1), (s2, c2, l2)) := ab in
                          seg_data_eqb s1 s2 && (c1 =? c2)%Z && (l1 =? l2)%Z) (combine (concat yss) src)))
  = Ok true.
Proof. vm_compute. reflexivity. Qed.
Example x212_DETAIL_raises : match ir_res (x_run "DETAIL") with Raise _ => true | Ok _ => false end = true.
Proof. vm_compute. reflexivity. Qed.
Example x212_2000A_raises : match ir_res (x_run "2000A") with Raise _ => true | Ok _ => false end = true.
Proof. vm_compute. reflexivity. Qed.

(* ------------------------------------------------------------------ *)
(* the positions of the envelope loops differ between the shipped maps *)
Definition loop_pos_at (m : xmap) (p : string) : option Z :=
  match getnode m p with
  | Ok r => match node_at (root_nodes m) (removelast r) with Some n => Some (node_pos n) | None => None end
  | Raise _ => None
  end.
Definition envelope_of (t : xml) : option (option Z * option Z * option Z) :=
  match load_tree t with
  | Ok m => Some (loop_pos_at m "/ISA_LOOP/ISA", loop_pos_at m "/ISA_LOOP/GS_LOOP/GS", loop_pos_at m "/ISA_LOOP/GS_LOOP/ST_LOOP/HEADER/BHT")
  | Raise _ => None
  end.
(* (position of ISA_LOOP, of GS_LOOP, of HEADER) *)
Example envelope_positions :
  (envelope_of M_x12_control_00401.tree, envelope_of M_x12_control_00501.tree,
   envelope_of M_837_4010_X098_A1.tree, envelope_of M_837_5010_X222_A1.tree,
   envelope_of M_278_4010_X094_A1.tree, envelope_of M_278_4010_X094_27_A1.tree) =
  (Some (Some 1, Some 20, None), Some (Some 1, Some 20, None),
   Some (Some 1, Some 20, Some 10), Some (Some 10, Some 200, Some 100),
   Some (Some 1, Some 20, Some 15), Some (Some 1, Some 20, Some 15))%Z.
Proof. vm_compute. reflexivity. Qed.

(* ------------------------------------------------------------------ *)
(* the weaker condition (ctx_allocation_order_x): every loop id except ISA_LOOP *)

(* the ids for which off_or_start m p fails: on the path, and not the id of the loop that the node starts *)
Definition bad_ids (m : xmap) (p : string) : list str :=
  match getnode m p with
  | Ok r =>
      match node_x12path m r with
      | Ok xp =>
          filter (fun x => negb match rev (loop_list xp), mn_is_first_seg {| mn_map := m; mn_ref := r |} with
                                | lst :: _, Ok first => str_eqb lst x && first
                                | _, _ => false
                                end) (loop_list xp)
      | Raise _ => []
      end
  | Raise _ => []
  end.

Lemma mem_str_filter (f : str -> bool) x l : mem_str x l = true -> f x = true -> mem_str x (filter f l) = true.
Proof.
  induction l as [|y l IH]; cbn [mem_str filter]; [discriminate|]. intros H Hf.
  destruct (str_eqb x y) eqn:Exy.
  - apply str_eqb_eq in Exy. subst y. rewrite Hf. cbn [mem_str]. rewrite str_eqb_refl. reflexivity.
  - cbn [orb] in H. destruct (f y); [cbn [mem_str]; rewrite Exy|]; apply IH; assumption.
Qed.

Lemma off_or_start_bad m p i : mem_str i (bad_ids m p) = false -> off_or_start m p i = true.
Proof.
  unfold bad_ids, off_or_start. destruct (getnode m p) as [r|e]; [|reflexivity].
  destruct (node_x12path m r) as [xp|e]; [|reflexivity]. intros H.
  destruct (mem_str i (loop_list xp)) eqn:Em; [|reflexivity]. cbn [negb orb].
  match goal with |- ?c = true => destruct c eqn:Ec; [reflexivity|] end.
  rewrite (mem_str_filter _ _ _ Em) in H; [discriminate H|]. cbv beta. rewrite Ec. reflexivity.
Qed.

Definition isa_loop_only : list str := [sl "ISA_LOOP"].

Definition entry_order_ok_x (p : string * xml) : bool :=
  match load_tree (snd p) with
  | Ok m => ctx_order_ok m && subset_str (bad_ids m "/ISA_LOOP/ISA" ++ bad_ids m "/ISA_LOOP/GS_LOOP/GS") isa_loop_only
  | Raise _ => true
  end.

Lemma assoc_order_ok_x e : forallb entry_order_ok_x e = true ->
  forall f m, assoc_load e f = Ok m ->
    ctx_order_ok m = true /\ subset_str (bad_ids m "/ISA_LOOP/ISA" ++ bad_ids m "/ISA_LOOP/GS_LOOP/GS") isa_loop_only = true.
Proof.
  intros H. induction e as [|[n t] e IH]; intros f m L; cbn [assoc_load] in L; [discriminate L|].
  cbn [forallb] in H. apply andb_true_iff in H as [H1 H2].
  destruct (str_eqb (sl n) f); [|exact (IH H2 f m L)].
  unfold entry_order_ok_x in H1. cbn [snd] in H1. rewrite L in H1. apply andb_true_iff in H1. exact H1.
Qed.

(* in every shipped map ISA starts ISA_LOOP and GS starts GS_LOOP inside ISA_LOOP: only ISA_LOOP fails *)
Example shipped_entries_ok_x : forallb entry_order_ok_x shipped = true.
Proof. vm_compute. reflexivity. Qed.

(* the files of the index for the two 278 guides, and the control maps: pairwise bht_compat *)
Definition shipped_ix : list map_entry := load_index M_maps.tree.
Definition control_files : list str := [sl "x12.control.00501.xml"; sl "x12.control.00401.xml"].

Example shipped_files_278 :
  map string_of_list_ascii (files_278 shipped_ix) = ["278.4010.X094.27.A1.xml"; "278.4010.X094.A1.xml"; "997.4010.xml"]%string.
Proof. vm_compute. reflexivity. Qed.

Definition pair_compat (f1 f2 : str) : bool :=
  match shipped_load f1, shipped_load f2 with Ok m1, Ok m2 => bht_compat m1 m2 | _, _ => true end.

Example shipped_bht_pairs :
  forallb (fun f1 => forallb (pair_compat f1) (files_278 shipped_ix)) (control_files ++ files_278 shipped_ix) = true.
Proof. vm_compute. reflexivity. Qed.

Lemma control_name_in v : In (control_name v) control_files.
Proof. unfold control_name, control_files. destruct (str_eqb v _); [left | right; left]; reflexivity. Qed.

Lemma shipped_bht_env_ok : bht_env_ok shipped_load shipped_ix.
Proof.
  intros f1 f2 m1 m2 L1 L2 S1 S2. pose proof shipped_bht_pairs as P. rewrite forallb_forall in P.
  assert (In f1 (control_files ++ files_278 shipped_ix)) as I1.
  { apply in_or_app. destruct S1 as [[v ->]|S1]; [left; apply control_name_in | right; exact S1]. }
  specialize (P f1 I1). rewrite forallb_forall in P. specialize (P f2 S2). unfold pair_compat in P. rewrite L1, L2 in P. exact P.
Qed.

Definition not_isa_loop (loop_id : option str) : Prop :=
  match loop_id with Some i => mem_str i isa_loop_only = false | None => True end.

Theorem shipped_env_order_ok_x loop_id : not_isa_loop loop_id -> env_order_ok_x shipped_load shipped_idx loop_id.
Proof.
  intros Hi. split.
  - intros f m L. destruct (assoc_order_ok_x shipped shipped_entries_ok_x f m L) as [H1 H2]. split; [exact H1|].
    destruct loop_id as [i|]; [|reflexivity]. cbn [lid_ok].
    pose proof (subset_mem _ _ i H2 Hi) as Hb. rewrite mem_str_app in Hb. apply orb_false_iff in Hb as [Hb1 Hb2].
    rewrite (off_or_start_bad _ _ _ Hb1), (off_or_start_bad _ _ _ Hb2). reflexivity.
  - intros ix Eix. unfold shipped_idx in Eix. injection Eix as <-. exact shipped_bht_env_ok.
Qed.

Theorem shipped_allocation_order_x :
  forall loop_id text r,
    not_isa_loop loop_id ->
    r = iter_segments_gen shipped_load shipped_idx loop_id text -> ir_res r = Ok tt ->
    children_in_allocation_order (ir_heap r).
Proof.
  intros loop_id text r Hi Er Hres. eapply ctx_allocation_order_x; [apply shipped_env_order_ok_x; exact Hi | exact Er | exact Hres].
Qed.

Theorem shipped_no_loss_no_reorder_x :
  forall loop_id text r,
    not_isa_loop loop_id ->
    r = iter_segments_gen shipped_load shipped_idx loop_id text -> ir_res r = Ok tt ->
    exists src yss,
      source_items text = Ok src /\
      Forall2 (fun y ys => yield_items y = Ok ys) (ir_yields r) yss /\
      concat yss = src.
Proof.
  intros loop_id text r Hi Er Hres.
  eapply ctx_no_loss_no_reorder_x; [apply shipped_env_order_ok_x; exact Hi | exact Er | exact Hres].
Qed.

Example ok_ST_LOOP : not_isa_loop (Some (sl "ST_LOOP")). Proof. vm_compute. reflexivity. Qed.
Example ok_GS_LOOP : not_isa_loop (Some (sl "GS_LOOP")). Proof. vm_compute. reflexivity. Qed.
Example ok_HEADER : not_isa_loop (Some (sl "HEADER")). Proof. vm_compute. reflexivity. Qed.
Example ok_2300 : not_isa_loop (Some (sl "2300")). Proof. vm_compute. reflexivity. Qed.

(* ------------------------------------------------------------------ *)
(* FINDING: the loop id ISA_LOOP does need a condition that relates the positions of DIFFERENT maps.
   The shipped map FILES, with an index that lets a 4010 guide occur inside a 00501 interchange (one entry
   added to maps.xml; the shipped maps.xml has no such entry, so the shipped configuration refuses the
   document with EngineError at the second GS): ISA GS(5010) ST GS(4010) ST BHT SE GE IEA.
   The second GS is hung under the open ST_LOOP node (GS is looked up by fixed path, push_loops = []); for
   the second ST the path of the current loop equals the new path, so _add_segment takes the "same loop
   again" branch and calls ISA_LOOP_node._add_loop_node(ST_LOOP of the 4010 map, pos 20).  The children of
   the ISA_LOOP node carry positions 10 (ISA, control map), 100 (GS, 5010 map), 200 (ST_LOOP, 5010 map):
   _get_insert_idx puts the new node right after ISA.  The iteration completes and the tree yields
   ISA ST BHT SE GS ST GS GE IEA. *)
Definition mixed_idx : result (list map_entry) :=
  Ok ({| mi_icvn := Some (sl "00501"); mi_vriic := Some (sl "004010X098A1"); mi_fic := Some (sl "HC"); mi_tspc := None;
         mi_file := Some (sl "837.4010.X098.A1.xml"); mi_abbr := None |} :: load_index M_maps.tree).
Definition isa_00501 : string :=
  "ISA*00*          *00*          *ZZ*ZZ000          *ZZ*ZZ001          *030828*1128*^*00501*000010121*0*T*:~".
Definition mixed_text : str :=
  sl (isa_00501 ++ "GS*HC*SENDER*RECEIVER*20200101*1200*1*X*005010X222A1~ST*837*0001*005010X222A1~" ++
      "GS*HC*SENDER*RECEIVER*20200101*1200*2*X*004010X098A1~ST*837*0002*004010X098A1~BHT*0019*00*1*20200101*1200*CH~" ++
      "SE*3*0002~GE*1*2~IEA*1*000010121~")%string.
Definition mixed_run : iter_result := iter_segments_gen shipped_load mixed_idx (Some (sl "ISA_LOOP")) mixed_text.

Lemma mixed_completes : ir_res mixed_run = Ok tt.
Proof. vm_compute. reflexivity. Qed.

(* node 6 (ST_LOOP of the 4010 map) went between ISA (1) and GS (2) *)
Lemma mixed_store :
  map o_children (ir_heap mixed_run) = [[1; 6; 2; 3; 11; 12]; []; []; [4; 5]; []; []; [7; 8; 10]; []; [9]; []; []; []; []].
Proof. vm_compute. reflexivity. Qed.

Lemma mixed_source :
  match source_items mixed_text with Ok src => C09_ctx.show_triples src | Raise _ => [] end =
  [(Some "ISA", 0, 1); (Some "GS", 0, 2); (Some "ST", 1, 3); (Some "GS", 1, 4); (Some "ST", 1, 5);
   (Some "BHT", 2, 6); (Some "SE", 2, 7); (Some "GE", 2, 8); (Some "IEA", 2, 9)]%string%Z.
Proof. vm_compute. reflexivity. Qed.

Lemma mixed_yields :
  map (fun y => match yield_items y with Ok ys => Some (C09_ctx.show_triples ys) | Raise _ => None end) (ir_yields mixed_run) =
  [Some [(Some "ISA", 0, 1); (Some "ST", 1, 5); (Some "BHT", 2, 6); (Some "SE", 2, 7); (Some "GS", 0, 2);
         (Some "ST", 1, 3); (Some "GS", 1, 4); (Some "GE", 2, 8); (Some "IEA", 2, 9)]]%string%Z.
Proof. vm_compute. reflexivity. Qed.

Lemma mixed_one_yield : exists y0, ir_yields mixed_run = [y0].
Proof. vm_compute. eexists. reflexivity. Qed.
Lemma mixed_run_eq : mixed_run = iter_segments_gen shipped_load mixed_idx (Some (sl "ISA_LOOP")) mixed_text.
Proof. unfold mixed_run. reflexivity. Qed.

(* with the shipped map files, loop id ISA_LOOP, and an arbitrary index, the statement of C09 is false *)
Theorem isa_loop_needs_cross_map_condition :
  ~ (forall idx text r,
       r = iter_segments_gen shipped_load idx (Some (sl "ISA_LOOP")) text -> ir_res r = Ok tt ->
       exists src yss,
         source_items text = Ok src /\
         Forall2 (fun y ys => yield_items y = Ok ys) (ir_yields r) yss /\
         concat yss = src).
Proof.
  intros Hall.
  destruct (Hall mixed_idx mixed_text mixed_run mixed_run_eq mixed_completes) as (src & yss & Es & F & M).
  pose proof mixed_source as Cs. rewrite Es in Cs.
  pose proof mixed_yields as Cy.
  destruct mixed_one_yield as (y0 & Ey0). rewrite Ey0 in F, Cy.
  inversion F as [|y ys l l' Ey F' E1 E2]; subst. inversion F'; subst.
  cbn [map] in Cy. rewrite Ey in Cy. simpl in Cs. rewrite app_nil_r in Cs.
  rewrite Cs in Cy. discriminate Cy.
Qed.

(* the same document with a second 5010 group: the shipped index, order kept *)
Definition same_text : str :=
  sl (isa_00501 ++ "GS*HC*SENDER*RECEIVER*20200101*1200*1*X*005010X222A1~ST*837*0001*005010X222A1~" ++
      "GS*HC*SENDER*RECEIVER*20200101*1200*2*X*005010X222A1~ST*837*0002*005010X222A1~BHT*0019*00*1*20200101*1200*CH~" ++
      "SE*3*0002~GE*1*2~IEA*1*000010121~")%string.
Example same_scale_store :
  let r := iter_segments_gen shipped_load shipped_idx (Some (sl "ISA_LOOP")) same_text in
  (ir_res r, map o_children (ir_heap r)) =
  (Ok tt, [[1; 2; 3; 6; 11; 12]; []; []; [4; 5]; []; []; [7; 8; 10]; []; [9]; []; []; []; []]).
Proof. vm_compute. reflexivity. Qed.
(* and the mixed document with the shipped index: refused *)
Example mixed_shipped_index_refuses :
  ir_res (iter_segments_gen shipped_load shipped_idx (Some (sl "ISA_LOOP")) mixed_text) = Raise EngineError.
Proof. vm_compute. reflexivity. Qed.

Print Assumptions shipped_allocation_order.
Print Assumptions shipped_no_loss_no_reorder.
Print Assumptions shipped_allocation_order_x.
Print Assumptions shipped_no_loss_no_reorder_x.
Print Assumptions isa_loop_needs_cross_map_condition.
