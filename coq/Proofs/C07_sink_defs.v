(* C07_sink_defs.v — the invariants the output sinks of the pipeline (Model/Pipeline.v) rely on:

   H2 h        the error-handler heap is a forest: child / element indices are valid, every `children`
               list is strictly increasing, a node has at most one parent, the cursors are valid, and a
               segment node that is not yet attached is newer than every attached one
   ext h h'    h' extends h: every interchange / group / set node keeps its place and its children
   attached    a node reference the iterator (Model/ErrIter.v) can stand on
   ItInv       the invariant of the iterator state over a heap *)
From Coq Require Import String.
From PX.Lib Require Import Base PyStr PyInt.
From PX.Model Require Import Path Segment Errh ErrIter.
From PX.Proofs Require Import C07_errh.

(* strictly increasing *)
Fixpoint incr (xs : list nat) : Prop :=
  match xs with
  | [] => True
  | x :: r => Forall (fun y => x < y) r /\ incr r
  end.

Definition idx_ok (n : nat) (xs : list nat) : Prop := Forall (fun x => x < n) xs.

Record H2 (h : errh) : Prop := {
  h2_isa_ch : forall i n, nth_error (h_isa h) i = Some n ->
                incr (in_children n) /\ idx_ok (length (h_gs h)) (in_children n);
  h2_gs_ch : forall i n, nth_error (h_gs h) i = Some n ->
                incr (gn_children n) /\ idx_ok (length (h_st h)) (gn_children n);
  h2_st_ch : forall i n, nth_error (h_st h) i = Some n ->
                incr (tn_children n) /\ idx_ok (length (h_seg h)) (tn_children n);
  h2_isa_el : forall i n, nth_error (h_isa h) i = Some n -> idx_ok (length (h_ele h)) (in_elements n);
  h2_gs_el : forall i n, nth_error (h_gs h) i = Some n -> idx_ok (length (h_ele h)) (gn_elements n);
  h2_st_el : forall i n, nth_error (h_st h) i = Some n -> idx_ok (length (h_ele h)) (tn_elements n);
  h2_seg_el : forall i n, nth_error (h_seg h) i = Some n -> idx_ok (length (h_ele h)) (sn_elements n);
  h2_gs_par : forall p p' n n' g, nth_error (h_isa h) p = Some n -> nth_error (h_isa h) p' = Some n' ->
                In g (in_children n) -> In g (in_children n') -> p = p';
  h2_st_par : forall p p' n n' t, nth_error (h_gs h) p = Some n -> nth_error (h_gs h) p' = Some n' ->
                In t (gn_children n) -> In t (gn_children n') -> p = p';
  h2_seg_par : forall p p' n n' k, nth_error (h_st h) p = Some n -> nth_error (h_st h) p' = Some n' ->
                In k (tn_children n) -> In k (tn_children n') -> p = p';
  h2_cisa : forall i, c_isa h = Some i -> i < length (h_isa h);
  h2_cgs : forall i, c_gs h = Some i -> i < length (h_gs h);
  h2_cst : forall i, c_st h = Some i -> i < length (h_st h);
  h2_cseg : forall r, c_seg h = Some r -> ref_valid h r;
  h2_cele : forall e, c_ele h = Some e -> e < length (h_ele h);
  h2_fresh : seg_added h = false -> forall k, c_seg h = Some (NSeg k) ->
               forall t n, nth_error (h_st h) t = Some n -> Forall (fun x => x < k) (tn_children n)
}.

Record ext (h h' : errh) : Prop := {
  ex_isa : forall i n, nth_error (h_isa h) i = Some n ->
             exists n', nth_error (h_isa h') i = Some n' /\ incl (in_children n) (in_children n');
  ex_gs : forall i n, nth_error (h_gs h) i = Some n ->
             exists n', nth_error (h_gs h') i = Some n' /\ incl (gn_children n) (gn_children n');
  ex_st : forall i n, nth_error (h_st h) i = Some n ->
             exists n', nth_error (h_st h') i = Some n' /\ incl (tn_children n) (tn_children n')
}.

(* ---- the iterator ---- *)
(* the tree parent of a node (what get_parent returns for an attached node) *)
Definition par (h : errh) (r : node_ref) : option node_ref :=
  match r with
  | RRoot => None
  | RIsa _ => Some RRoot
  | RGs g => option_map RIsa (gs_parent h g)
  | RSt t => option_map RGs (st_parent h t)
  | RSeg k => option_map RSt (seg_holder h k)
  | REle _ => None
  end.

Definition attached (h : errh) (r : node_ref) : Prop :=
  match r with
  | RRoot => True
  | RIsa i => i < length (h_isa h)
  | REle _ => False
  | _ => par h r <> None
  end.

(* a node that can appear in err_node_list *)
Definition vis (h : errh) (r : node_ref) : Prop := attached h r /\ r <> RRoot.

(* the visit stack, TOP FIRST (the reverse of it_stack): every entry is attached and its parent lies deeper *)
Fixpoint SInv (h : errh) (st : list node_ref) : Prop :=
  match st with
  | [] => True
  | x :: rest => attached h x /\ (forall p, par h x = Some p -> In p rest) /\ SInv h rest
  end.

Definition ItInv (h : errh) (it : iter_state) : Prop :=
  attached h (it_cur it) /\ SInv h (rev (it_stack it)) /\
  (forall p, par h (it_cur it) = Some p -> In p (it_stack it)).
