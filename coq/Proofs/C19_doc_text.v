(* C19_doc_text.v — what a tag stripper leaves of the WHOLE report of a completed run, and its tags
   (Spec/C19_doc_spec.v plain_report, header_tags), from the structure theorem (Proofs/C19_doc.v) and the
   per-call chunks of Proofs/C19_html.v.

   Side conditions, kept as hypotheses:
     - markup_free htime: what time.strftime returned holds no < > & (html.header() does NOT escape it);
     - view_codes_plain for every view: the error CODES the calls print need no escaping — the side condition of
       C19_segment_text.  Not derived from the run here (it would need "every code the reader, the walker and
       the validators emit is one of the literals"); decidable per view: view_codes_plainb. *)
From Coq Require Import String.
From PX.Lib Require Import Base PyStr PyInt.
From PX.Model Require Import Path Segment Raw Reader MapLoad MapTree Walker MapEnv Driver Pipeline.
From PX.Model Require Errh ErrIter OutW Html XmlOut Ack997 Ack999.
From PX.Spec Require Import C09_spec C19_spec C19_doc_spec.
From PX.Proofs Require Import C19_lemmas C19_html C19_doc_run C19_doc.

Local Definition l (s : string) : str := list_ascii_of_string s.

(* ------------------------------------------------------------------ *)
(* chunks over the template's tags                                      *)

Definition doc_tags : list str := header_tags ++ report_tags.

Definition dchunk (a p : str) : Prop :=
  schunk a p /\ exists ts, incl ts doc_tags /\ forall rest, tags_of None (a ++ rest) = ts ++ tags_of None rest.

Lemma chunk_dchunk a p : chunk a p -> dchunk a p.
Proof.
  intros [S (ts & I & T)]. split; [exact S|]. exists ts. split; [|exact T].
  intros t Ht. apply in_or_app. right. apply I. exact Ht.
Qed.

Lemma dchunk_app a p b q : dchunk a p -> dchunk b q -> dchunk (a ++ b) (p ++ q).
Proof.
  intros [Ha [ta [Ia Ta]]] [Hb [tb [Ib Tb]]]. split.
  - intro rest. rewrite <- !app_assoc. rewrite Ha, Hb. reflexivity.
  - exists (ta ++ tb). split; [apply incl_app; assumption|].
    intro rest. rewrite <- !app_assoc. rewrite Ta, Tb. reflexivity.
Qed.

Lemma dchunk_nil : dchunk [] [].
Proof. apply chunk_dchunk, chunk_nil. Qed.

Lemma dchunk_concat {A} (f g : A -> str) xs :
  (forall x, In x xs -> dchunk (f x) (g x)) -> dchunk (concat (map f xs)) (concat (map g xs)).
Proof.
  induction xs as [|x xs IH]; intros H; cbn [map concat]; [apply dchunk_nil|].
  apply dchunk_app; [apply H; left; reflexivity | apply IH; intros y Hy; apply H; right; exact Hy].
Qed.

(* ------------------------------------------------------------------ *)
(* header()                                                             *)

Definition hdrA : str := Eval vm_compute in
  concat (firstn 10 (Html.html_header [])) ++ l "<h1>X12N Error Analysis</h1>" ++ Html.NLs ++ l "<h3>Analysis Date: ".
Definition hdrB : str := Eval vm_compute in
  l "</h3><p>" ++ Html.NLs ++ l "<div class=""segs"" style="""">" ++ Html.NLs.

Lemma header_split t : concat (Html.html_header t) = hdrA ++ t ++ hdrB.
Proof.
  unfold Html.html_header. cbn [concat]. rewrite <- ?app_assoc. reflexivity.
Qed.

Definition plainA : str := Eval vm_compute in strip_markup hdrA.
Definition plainB : str := Eval vm_compute in strip_markup hdrB.

Lemma plain_header_split t : plain_header t = plainA ++ t ++ plainB.
Proof. unfold plain_header. reflexivity. Qed.

Lemma dchunk_hdrA : dchunk hdrA plainA.
Proof.
  split; [intro; reflexivity|]. exists (tags hdrA).
  split; [apply incl_b; vm_compute; reflexivity | intro; reflexivity].
Qed.

Lemma dchunk_hdrB : dchunk hdrB plainB.
Proof.
  split; [intro; reflexivity|]. exists (tags hdrB).
  split; [apply incl_b; vm_compute; reflexivity | intro; reflexivity].
Qed.

Lemma header_dchunk t : markup_free t = true -> dchunk (concat (Html.html_header t)) (plain_header t).
Proof.
  intros F. rewrite header_split, plain_header_split.
  apply dchunk_app; [apply dchunk_hdrA|]. apply dchunk_app; [apply chunk_dchunk, chunk_free, F | apply dchunk_hdrB].
Qed.

(* ------------------------------------------------------------------ *)
(* footer()                                                             *)

Lemma footer_chunk h fw : Html.html_footer h tt = (tt, fw, Ok tt) -> chunk (concat fw) (plain_footer h).
Proof.
  intros H.
  assert (W : wspec (Html.html_footer h) (plain_footer h)).
  { unfold Html.html_footer, plain_footer.
    apply wspec_seq; [apply footer_part_spec; reflexivity|].
    apply wspec_seq; [apply footer_part_spec; reflexivity|].
    apply wspec_seq; [apply footer_part_spec; reflexivity|].
    apply (wspec_seq _ _ NL); [apply wspec_write; chunk_const [l "</div>"]|].
    apply (wspec_seq _ _ (NL ++ l "pyx12 Validator" ++ NL ++ NL));
      [apply wspec_write; chunk_const [l "<p>"; l "<a href=""http://sourceforge.net/projects/pyx12/"">"; l "</a>"; l "</p>"]|].
    apply wspec_write. chunk_const [l "</body>"; l "</html>"]. }
  destruct (W tt tt fw H) as [_ C]. exact C.
Qed.

(* ------------------------------------------------------------------ *)
(* one view                                                             *)

Lemma view_chunk d v :
  view_ok d v -> view_codes_plain v -> chunk (concat (view_writes d v)) (plain_view d v).
Proof.
  unfold view_ok, view_codes_plain, view_writes, plain_view, view_run. intros OK CP.
  destruct (Html.html_gen_seg _ _ _ _ _ _) as [[st' ws] r] eqn:EG. cbn [fst snd] in *. subst r.
  exact (proj1 (gen_seg_chunk (sv_errh v) {| Errh.xs_d := d; Errh.xs_s := sv_seg v |} (sv_line v) (sv_nodes v)
                              (sv_info v) st' ws CP EG)).
Qed.

Lemma view_codes_plainb_ok v : view_codes_plainb v = true -> view_codes_plain v.
Proof.
  unfold view_codes_plainb, view_codes_plain, codes_plain. intros H r Hr.
  rewrite forallb_forall in H. specialize (H r Hr). unfold node_codes_plainb in H.
  apply andb_true_iff in H as [H1 H2]. rewrite forallb_forall in H1, H2. split.
  - intros e He. exact (H1 e He).
  - intros k e Hk He. specialize (H2 k Hk). rewrite forallb_forall in H2. exact (H2 e He).
Qed.

(* ------------------------------------------------------------------ *)
(* the whole report                                                     *)

Theorem doc_report_chunk :
  forall load idx clk htime dtd sk text b,
    want_html sk = true ->
    let r := run_pipeline_gen load idx clk htime dtd sk text in
    o_result r = Ok b ->
    raw_all {| rest := text; sched := [] |} <> Raise X12Error ->
    markup_free htime = true ->
    exists E lines d0 views d1 d2 b',
      doc_setup load idx text = Ok (E, lines, d0) /\
      doc_views E lines d0 ErrIter.iter_init = Ok (views, d1) /\
      finish d1 = (d2, Ok b') /\
      o_html_calls r = map (view_call (de_d E)) views /\
      (Forall view_codes_plain views ->
       strip_markup (o_html r) = plain_report (de_d E) htime views (ds_errh d2) /\
       forall t, In t (tags (o_html r)) -> In t (header_tags ++ report_tags)).
Proof.
  intros load idx clk htime dtd sk text b WH r RES NX MF.
  destruct (doc_structure load idx clk htime dtd sk text b WH RES) as [[RA _]|ST]; [contradiction|].
  destruct ST as (E & lines & d0 & views & d1 & d2 & b' & fw & SU & EV & EF & EFT & VO & EC & ET).
  exists E, lines, d0, views, d1, d2, b'. repeat (split; [assumption|]).
  intros CP. fold r in ET.
  assert (C : dchunk (o_html r) (plain_report (de_d E) htime views (ds_errh d2))).
  { rewrite ET. unfold plain_report.
    apply dchunk_app; [apply header_dchunk, MF|].
    apply dchunk_app; [|apply chunk_dchunk, footer_chunk, EFT].
    apply (dchunk_concat (fun v => concat (view_writes (de_d E) v)) (plain_view (de_d E))).
    intros v Hv. apply chunk_dchunk, view_chunk.
    - rewrite Forall_forall in VO. exact (VO v Hv).
    - rewrite Forall_forall in CP. exact (CP v Hv). }
  destruct C as [S (ts & I & T)]. split.
  - unfold strip_markup. specialize (S []). rewrite !app_nil_r in S. exact S.
  - intros t Ht. unfold tags in Ht. specialize (T []). rewrite !app_nil_r in T. rewrite T in Ht. apply I. exact Ht.
Qed.

Print Assumptions doc_report_chunk.
