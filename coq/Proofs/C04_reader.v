(* C04_reader.v — the reader's envelope errors are exactly the independent
   recount on every properly nested tree; a consistent envelope is silent; any
   arrangement of header/trailer segments that is not properly nested draws at
   least one envelope error; the reader never raises except the documented
   X12Error for an ISA that does not have 16 elements. *)
From Coq Require Import String.
From PX.Lib Require Import Base PyStr PyInt.
From PX.Gen Require Import SrcConsts.
From PX.Model Require Import Path Segment Raw Reader.
From PX.Spec Require Import C04_spec.

(* feed a list of segments to X12Reader._parse_segment, collecting the errors of each *)
Fixpoint run_steps (dl : delims) (x : xstate) (segs : list seg) : result (list (list err) * xstate) :=
  match segs with
  | [] => Ok ([], x)
  | s :: rest =>
      match reader_step dl x s with
      | Raise e => Raise e
      | Ok (x', es) =>
          match run_steps dl x' rest with
          | Raise e => Raise e
          | Ok (out, xf) => Ok (es :: out, xf)
          end
      end
  end.

Definition is_env_level (lvl : str) : bool :=
  str_eqb lvl (cs "isa") || str_eqb lvl (cs "gs") || str_eqb lvl (cs "st").

(* the envelope-level (level, code) pairs of an error list, in order *)
Definition env_codes (es : list err) : list code :=
  map (fun e => (e_lvl e, e_code e)) (filter (fun e => is_env_level (e_lvl e)) es).

(* a fresh reader (the 837 service-line flag may be either way) *)
Definition fresh (lx : bool) : xstate :=
  {| loops := []; hl_stack := []; gs_count := 0; st_count := 0; hl_count := 0; seg_count := 0; cur_line := 0;
     isa_ids := []; gs_ids := []; st_ids := []; lx_count := 0; check_837_lx := lx |}.

(* ---------- correspondence of the small definitions ---------- *)
Lemma ev_el dl s i : ev dl s i = el dl s i.
Proof. reflexivity. Qed.

Lemma sid_is_has_id s id : sid_is s id = has_id s id.
Proof. unfold sid_is, has_id, opt_eqb. destruct (sid s); reflexivity. Qed.

Lemma dup_mem x e : dup x e = mem_oid x e.
Proof. reflexivity. Qed.

Lemma count_is_eq o n : count_is o n = optZ_eqb (int_opt o) (Z.of_nat n).
Proof. unfold count_is, optZ_eqb, int_opt. destruct o; [destruct (py_int s)|]; reflexivity. Qed.

Lemma uncounted_env : uncounted_ids = envelope_ids.
Proof. reflexivity. Qed.


Lemma env_codes_app a b : env_codes (a ++ b) = env_codes a ++ env_codes b.
Proof. unfold env_codes. rewrite filter_app, map_app. reflexivity. Qed.

Definition fields (x : xstate) lp gc sc sg ii gi si :=
  loops x = lp /\ gs_count x = gc /\ st_count x = sc /\ seg_count x = sg /\
  isa_ids x = ii /\ gs_ids x = gi /\ st_ids x = si.

Lemma has_id_excl s a b : has_id s a = true -> str_eqb (cs a) (cs b) = false -> has_id s b = false.
Proof.
  unfold has_id. destruct (sid s); [|discriminate]. intros H E. apply str_eqb_eq in H. subst. exact E.
Qed.

Lemma body_ids s : is_envelope s = false ->
  has_id s "ISA" = false /\ has_id s "IEA" = false /\ has_id s "GS" = false /\
  has_id s "GE" = false /\ has_id s "ST" = false /\ has_id s "SE" = false.
Proof.
  unfold is_envelope, has_id. destruct (sid s) as [i|]; [|intros _; repeat split; reflexivity].
  unfold envelope_ids. cbn [mem_str]. intros H.
  repeat (apply orb_false_iff in H; destruct H as [? H]). repeat split; assumption.
Qed.


Ltac env_seg :=
  repeat rewrite env_codes_app;
  repeat match goal with |- context [if ?b then _ else _] => destruct b end; reflexivity.

Ltac solve_fields := unfold fields; cbn [loops gs_count st_count seg_count isa_ids gs_ids st_ids]; repeat split; reflexivity.

Lemma base_body dl x s : is_envelope s = false ->
  exists x1 e, base_step dl x s = Ok (x1, e) /\ env_codes e = [] /\
    fields x1 (loops x) (gs_count x) (st_count x) (seg_count x + 1)%Z (isa_ids x) (gs_ids x) (st_ids x).
Proof.
  intros H. pose proof (body_ids s H) as (H1 & H2 & H3 & H4 & H5 & H6).
  rewrite <- sid_is_has_id in *.
  unfold base_step. rewrite H1, H3, H5.
  change (match sid s with Some id => mem_str id uncounted_ids | None => false end) with (is_envelope s).
  rewrite H. cbv iota.
  destruct (sid_is s "HL"); [|destruct (check_837_lx x && sid_is s "CLM"); [|destruct (check_837_lx x && sid_is s "LX")]];
  (eexists; eexists; split; [reflexivity|split; [env_seg|solve_fields]]).
Qed.

Lemma sid_excl s a b : has_id s a = true -> str_eqb (cs a) (cs b) = false -> sid_is s b = false.
Proof. rewrite (sid_is_has_id s b). apply has_id_excl. Qed.

Lemma has_id_env s a : has_id s a = true -> mem_str (cs a) envelope_ids = true -> is_envelope s = true.
Proof.
  unfold has_id, is_envelope. destruct (sid s); [|discriminate]. intros H. apply str_eqb_eq in H. subst. auto.
Qed.

Lemma base_trailer dl x s a :
  has_id s a = true -> In a ["SE"; "GE"; "IEA"]%string ->
  exists x1 e, base_step dl x s = Ok (x1, e) /\ env_codes e = [] /\
    fields x1 (loops x) (gs_count x) (st_count x) (seg_count x) (isa_ids x) (gs_ids x) (st_ids x).
Proof.
  intros H Ha.
  assert (E : is_envelope s = true).
  { apply (has_id_env s a H). cbn [In] in Ha. destruct Ha as [<-|[<-|[<-|[]]]]; reflexivity. }
  assert (N : forall b, In b ["ISA"; "GS"; "ST"; "HL"; "CLM"; "LX"]%string -> sid_is s b = false).
  { intros b Hb. apply (sid_excl s a b H). cbn [In] in Ha, Hb.
    destruct Ha as [<-|[<-|[<-|[]]]]; destruct Hb as [<-|[<-|[<-|[<-|[<-|[<-|[]]]]]]]; reflexivity. }
  unfold base_step.
  rewrite (N "ISA"%string), (N "GS"%string), (N "ST"%string), (N "HL"%string), (N "CLM"%string), (N "LX"%string)
    by (cbn [In]; tauto).
  rewrite !andb_false_r.
  change (match sid s with Some id => mem_str id uncounted_ids | None => false end) with (is_envelope s).
  rewrite E. cbv iota.
  eexists; eexists; split; [reflexivity|split; [env_seg|solve_fields]].
Qed.

Lemma base_ISA dl x s :
  has_id s "ISA" = true ->
  base_step dl x s =
  if negb (length (els s) =? 16) then Raise X12Error else
  Ok (let icn := ev dl s 13 in
      {| loops := (cs "ISA", icn) :: loops x; hl_stack := hl_stack x; gs_count := 0; st_count := st_count x;
         hl_count := hl_count x; seg_count := seg_count x; cur_line := (cur_line x + 1)%Z;
         isa_ids := isa_ids x ++ [icn]; gs_ids := []; st_ids := st_ids x;
         lx_count := lx_count x; check_837_lx := check_837_lx x |},
      ((if seg_empty s then [mk_err "seg" "8" (Some (cur_line x + 1)%Z)] else []) ++
       (if seg_id_valid s then [] else [mk_err "seg" "1" (Some (cur_line x + 1)%Z)])) ++
      (if mem_oid (ev dl s 13) (isa_ids x) then [mk_err "isa" "025" None] else [])).
Proof.
  intros H.
  assert (E : is_envelope s = true) by (apply (has_id_env s _ H); reflexivity).
  unfold base_step. rewrite sid_is_has_id, H.
  change (match sid s with Some id => mem_str id uncounted_ids | None => false end) with (is_envelope s).
  rewrite E. reflexivity.
Qed.

Lemma base_GS dl x s :
  has_id s "GS" = true ->
  base_step dl x s =
  Ok (let g := ev dl s 6 in
      {| loops := (cs "GS", g) :: loops x; hl_stack := hl_stack x; gs_count := (gs_count x + 1)%Z; st_count := 0;
         hl_count := hl_count x; seg_count := seg_count x; cur_line := (cur_line x + 1)%Z;
         isa_ids := isa_ids x; gs_ids := gs_ids x ++ [g]; st_ids := [];
         lx_count := lx_count x; check_837_lx := check_837_lx x |},
      ((if seg_empty s then [mk_err "seg" "8" (Some (cur_line x + 1)%Z)] else []) ++
       (if seg_id_valid s then [] else [mk_err "seg" "1" (Some (cur_line x + 1)%Z)])) ++
      (if mem_oid (ev dl s 6) (gs_ids x) then [mk_err "gs" "6" None] else [])).
Proof.
  intros H.
  assert (E : is_envelope s = true) by (apply (has_id_env s _ H); reflexivity).
  unfold base_step. rewrite (sid_excl s _ "ISA" H) by reflexivity. rewrite sid_is_has_id, H.
  change (match sid s with Some id => mem_str id uncounted_ids | None => false end) with (is_envelope s).
  rewrite E. reflexivity.
Qed.

Lemma base_ST dl x s :
  has_id s "ST" = true ->
  base_step dl x s =
  Ok (let t := ev dl s 2 in
      {| loops := (cs "ST", t) :: loops x; hl_stack := []; gs_count := gs_count x; st_count := (st_count x + 1)%Z;
         hl_count := 0; seg_count := 1; cur_line := (cur_line x + 1)%Z;
         isa_ids := isa_ids x; gs_ids := gs_ids x; st_ids := st_ids x ++ [t];
         lx_count := lx_count x; check_837_lx := check_837_lx x |},
      ((if seg_empty s then [mk_err "seg" "8" (Some (cur_line x + 1)%Z)] else []) ++
       (if seg_id_valid s then [] else [mk_err "seg" "1" (Some (cur_line x + 1)%Z)])) ++
      (if mem_oid (ev dl s 2) (st_ids x) then [mk_err "st" "23" None] else [])).
Proof.
  intros H.
  assert (E : is_envelope s = true) by (apply (has_id_env s _ H); reflexivity).
  unfold base_step. rewrite (sid_excl s _ "ISA" H), (sid_excl s _ "GS" H) by reflexivity. rewrite sid_is_has_id, H.
  change (match sid s with Some id => mem_str id uncounted_ids | None => false end) with (is_envelope s).
  rewrite E. reflexivity.
Qed.

Lemma reader_body dl x s : is_envelope s = false ->
  exists x1 e, reader_step dl x s = Ok (x1, e) /\ env_codes e = [] /\
    fields x1 (loops x) (gs_count x) (st_count x) (seg_count x + 1)%Z (isa_ids x) (gs_ids x) (st_ids x).
Proof.
  intros H. destruct (base_body dl x s H) as (x1 & e & Hb & He & Hf).
  pose proof (body_ids s H) as (H1 & H2 & H3 & H4 & H5 & H6).
  rewrite <- sid_is_has_id in *.
  unfold reader_step. rewrite Hb. cbn [bind]. rewrite H1, H2, H3, H4, H5, H6.
  exists x1, e. auto.
Qed.

Lemma env_seg_pre s (z : option Z) :
  env_codes ((if seg_empty s then [mk_err "seg" "8" z] else []) ++
             (if seg_id_valid s then [] else [mk_err "seg" "1" z])) = [].
Proof. env_seg. Qed.

Lemma reader_ST dl x s : has_id s "ST" = true ->
  exists x1 e, reader_step dl x s =
     Ok (x1, (if top_kind_is (loops x) "GS" then [] else [mk_err "isa" "024" None]) ++ e) /\
    env_codes e = (if mem_oid (ev dl s 2) (st_ids x) then [C "st" "23"] else []) /\
    fields x1 ((cs "ST", ev dl s 2) :: loops x) (gs_count x) (st_count x + 1)%Z 1%Z
           (isa_ids x) (gs_ids x) (st_ids x ++ [ev dl s 2]).
Proof.
  intros H. unfold reader_step. rewrite (base_ST dl x s H). cbn [bind].
  rewrite (sid_excl s _ "ISA" H), (sid_excl s _ "GS" H), (sid_excl s _ "IEA" H),
          (sid_excl s _ "GE" H), (sid_excl s _ "SE" H) by reflexivity.
  rewrite sid_is_has_id, H.
  eexists; eexists; split; [reflexivity|split; [|solve_fields]].
  rewrite env_codes_app, env_seg_pre. destruct (mem_oid _ _); reflexivity.
Qed.

Lemma reader_GS dl x s : has_id s "GS" = true ->
  exists x1 e, reader_step dl x s =
     Ok (x1, (if top_kind_is (loops x) "ISA" then [] else [mk_err "isa" "024" None]) ++ e) /\
    env_codes e = (if mem_oid (ev dl s 6) (gs_ids x) then [C "gs" "6"] else []) /\
    fields x1 ((cs "GS", ev dl s 6) :: loops x) (gs_count x + 1)%Z 0%Z (seg_count x)
           (isa_ids x) (gs_ids x ++ [ev dl s 6]) [].
Proof.
  intros H. unfold reader_step. rewrite (base_GS dl x s H). cbn [bind].
  rewrite (sid_excl s _ "ISA" H), (sid_excl s _ "IEA" H),
          (sid_excl s _ "GE" H), (sid_excl s _ "SE" H) by reflexivity.
  rewrite sid_is_has_id, H.
  eexists; eexists; split; [reflexivity|split; [|solve_fields]].
  rewrite env_codes_app, env_seg_pre. destruct (mem_oid _ _); reflexivity.
Qed.

Lemma reader_ISA dl x s : has_id s "ISA" = true -> (length (els s) =? 16) = true ->
  exists x1 e, reader_step dl x s =
     Ok (x1, (match loops x with [] => [] | _ => [mk_err "isa" "024" None] end) ++ e) /\
    env_codes e = (if mem_oid (ev dl s 13) (isa_ids x) then [C "isa" "025"] else []) /\
    fields x1 ((cs "ISA", ev dl s 13) :: loops x) 0%Z (st_count x) (seg_count x)
           (isa_ids x ++ [ev dl s 13]) [] (st_ids x).
Proof.
  intros H L. unfold reader_step. rewrite (base_ISA dl x s H), L. cbn [bind negb].
  rewrite (sid_excl s _ "IEA" H), (sid_excl s _ "GE" H), (sid_excl s _ "SE" H) by reflexivity.
  rewrite sid_is_has_id, H.
  eexists; eexists; split; [reflexivity|split; [|solve_fields]].
  rewrite env_codes_app, env_seg_pre. destruct (mem_oid _ _); reflexivity.
Qed.

Lemma reader_ISA_raise dl x s : has_id s "ISA" = true -> (length (els s) =? 16) = false ->
  reader_step dl x s = Raise X12Error.
Proof.
  intros H L. unfold reader_step. rewrite (base_ISA dl x s H), L. reflexivity.
Qed.

Lemma fields_with_loops x lp lp' a b c d e f :
  fields x lp a b c d e f -> fields (with_loops x lp') lp' a b c d e f.
Proof. unfold fields. cbn [with_loops loops gs_count st_count seg_count isa_ids gs_ids st_ids]. tauto. Qed.

Lemma reader_SE dl x s : has_id s "SE" = true ->
  exists x1 e0, env_codes e0 = [] /\
    fields x1 (loops x) (gs_count x) (st_count x) (seg_count x) (isa_ids x) (gs_ids x) (st_ids x) /\
    reader_step dl x s =
    match loops x with
    | [] => Ok (x1, e0 ++ [mk_err "st" "3" None])
    | (kind, id) :: rest =>
        Ok (with_loops x1 rest,
            e0 ++ (if str_eqb kind (cs "ST") && oid_eqb id (ev dl s 2) then [] else [mk_err "st" "3" None]) ++
                  (if optZ_eqb (int_opt (ev dl s 1)) (seg_count x + 1)%Z then [] else [mk_err "st" "4" None]))
    end.
Proof.
  intros H. destruct (base_trailer dl x s "SE" H) as (x1 & e0 & Hb & He & Hf); [cbn; tauto|].
  exists x1, e0. split; [exact He|split; [exact Hf|]].
  unfold reader_step. rewrite Hb. cbn [bind].
  rewrite (sid_excl s _ "ISA" H), (sid_excl s _ "GS" H), (sid_excl s _ "ST" H), (sid_excl s _ "IEA" H),
          (sid_excl s _ "GE" H) by reflexivity.
  rewrite sid_is_has_id, H.
  destruct Hf as (-> & _ & _ & -> & _). reflexivity.
Qed.

Lemma reader_GE dl x s : has_id s "GE" = true ->
  exists x1 e0, env_codes e0 = [] /\
    fields x1 (loops x) (gs_count x) (st_count x) (seg_count x) (isa_ids x) (gs_ids x) (st_ids x) /\
    reader_step dl x s =
    let (lp, e1) := match loops x with
                    | (kind, _) :: rest => if str_eqb kind (cs "GS") then (loops x, []) else (rest, [mk_err "gs" "3" None])
                    | [] => ([], [])
                    end in
    match lp with
    | [] => Ok (with_loops x1 [], e0 ++ e1 ++ [mk_err "gs" "4" None])
    | (_, id) :: rest =>
        Ok (with_loops x1 rest,
            e0 ++ e1 ++ (if oid_eqb id (ev dl s 2) then [] else [mk_err "gs" "4" None]) ++
                  (if optZ_eqb (int_opt (ev dl s 1)) (st_count x) then [] else [mk_err "gs" "5" None]))
    end.
Proof.
  intros H. destruct (base_trailer dl x s "GE" H) as (x1 & e0 & Hb & He & Hf); [cbn; tauto|].
  exists x1, e0. split; [exact He|split; [exact Hf|]].
  unfold reader_step. rewrite Hb. cbn [bind].
  rewrite (sid_excl s _ "ISA" H), (sid_excl s _ "GS" H), (sid_excl s _ "ST" H), (sid_excl s _ "IEA" H) by reflexivity.
  rewrite sid_is_has_id, H.
  destruct Hf as (-> & _ & -> & _). reflexivity.
Qed.

Lemma reader_IEA dl x s : has_id s "IEA" = true ->
  exists x1 e0, env_codes e0 = [] /\
    fields x1 (loops x) (gs_count x) (st_count x) (seg_count x) (isa_ids x) (gs_ids x) (st_ids x) /\
    reader_step dl x s =
    let (lp, e1) := match loops x with
                    | (kind, _) :: rest => if str_eqb kind (cs "ISA") then (loops x, []) else (rest, [mk_err "isa" "024" None])
                    | [] => ([], [])
                    end in
    match lp with
    | [] => Ok (with_loops x1 [], e0 ++ e1 ++ [mk_err "isa" "001" None])
    | (_, id) :: rest =>
        Ok (with_loops x1 rest,
            e0 ++ e1 ++ (if oid_eqb id (ev dl s 2) then [] else [mk_err "isa" "001" None]) ++
                  (if optZ_eqb (int_opt (ev dl s 1)) (gs_count x) then [] else [mk_err "isa" "021" None]))
    end.
Proof.
  intros H. destruct (base_trailer dl x s "IEA" H) as (x1 & e0 & Hb & He & Hf); [cbn; tauto|].
  exists x1, e0. split; [exact He|split; [exact Hf|]].
  unfold reader_step. rewrite Hb. cbn [bind].
  rewrite (sid_excl s _ "ISA" H), (sid_excl s _ "GS" H), (sid_excl s _ "ST" H) by reflexivity.
  rewrite sid_is_has_id, H.
  destruct Hf as (-> & -> & _). reflexivity.
Qed.

Lemma base_raise dl x s e : base_step dl x s = Raise e -> e = X12Error.
Proof.
  unfold base_step.
  destruct (sid_is s "ISA"); [destruct (negb _); [congruence|discriminate]|].
  destruct (sid_is s "GS"); [discriminate|].
  destruct (sid_is s "ST"); [discriminate|].
  destruct (sid_is s "HL"); [discriminate|].
  destruct (check_837_lx x && sid_is s "CLM"); [discriminate|].
  destruct (check_837_lx x && sid_is s "LX"); discriminate.
Qed.

Lemma reader_raise dl x s e : reader_step dl x s = Raise e -> e = X12Error.
Proof.
  unfold reader_step. destruct (base_step dl x s) as [[x1 eb]|e'] eqn:Hb; cbn [bind].
  - destruct (sid_is s "IEA").
    { destruct (match loops x1 with [] => _ | _ => _ end) as [lp e1]. destruct lp as [|[? ?] ?]; discriminate. }
    destruct (sid_is s "GE").
    { destruct (match loops x1 with [] => _ | _ => _ end) as [lp e1]. destruct lp as [|[? ?] ?]; discriminate. }
    destruct (sid_is s "SE"); [destruct (loops x1) as [|[? ?] ?]|]; discriminate.
  - intros H. injection H as <-. eapply base_raise; eauto.
Qed.


Lemma reader_total_aux dl x segs :
  match run_steps dl x segs with
  | Ok _ => True
  | Raise e => e = X12Error
  end.
Proof.
  revert x. induction segs as [|s rest IH]; intros x; cbn [run_steps]; [exact I|].
  destruct (reader_step dl x s) as [[x' es]|e] eqn:H.
  - specialize (IH x'). destruct (run_steps dl x' rest) as [[out xf]|e]; auto.
  - eapply reader_raise; eauto.
Qed.

Lemma run_steps_app dl l1 : forall x l2 o1 x1 o2 x2,
  run_steps dl x l1 = Ok (o1, x1) -> run_steps dl x1 l2 = Ok (o2, x2) ->
  run_steps dl x (l1 ++ l2) = Ok (o1 ++ o2, x2).
Proof.
  induction l1 as [|s l1 IH]; intros x l2 o1 x1 o2 x2 H1 H2; cbn [run_steps app] in *.
  - injection H1 as <- <-. exact H2.
  - destruct (reader_step dl x s) as [[x' es]|e]; [|discriminate].
    destruct (run_steps dl x' l1) as [[out xf]|e] eqn:E; [|discriminate].
    injection H1 as <- <-. rewrite (IH _ _ _ _ _ _ E H2). reflexivity.
Qed.

Lemma run_steps_cons dl x s rest x1 es o2 x2 :
  reader_step dl x s = Ok (x1, es) -> run_steps dl x1 rest = Ok (o2, x2) ->
  run_steps dl x (s :: rest) = Ok (es :: o2, x2).
Proof. intros H1 H2. cbn [run_steps]. rewrite H1, H2. reflexivity. Qed.

(* ---------- last element of a list ---------- *)
Definition last_or {A B} (f : A -> list B) (xs : list A) : list B :=
  match rev xs with [] => [] | x :: _ => f x end.

Lemma last_or_cons {A B} (f : A -> list B) x y r : last_or f (x :: y :: r) = last_or f (y :: r).
Proof.
  unfold last_or. change (rev (x :: y :: r)) with (rev (y :: r) ++ [x]).
  destruct (rev (y :: r)) as [|a q] eqn:E; [|reflexivity].
  apply (f_equal (@length A)) in E. rewrite rev_length in E. discriminate.
Qed.

Lemma last_or_nil {A B} (f : A -> list B) xs : (forall a, In a xs -> f a = []) -> last_or f xs = [].
Proof.
  intros H. unfold last_or. destruct (rev xs) as [|a q] eqn:E; [reflexivity|].
  apply H. apply in_rev. rewrite E. left; reflexivity.
Qed.

Lemma last_or_map {A B C} (f : A -> list B) (f' : A -> list C) (g : list B -> list C) xs :
  (forall a, g (f a) = f' a) -> g [] = [] -> g (last_or f xs) = last_or f' xs.
Proof. intros H H0. unfold last_or. destruct (rev xs); auto. Qed.

(* ---------- a sequence of sibling loops ---------- *)
Section Seq.
  Context {A : Type}.
  Variables (dl : delims) (flat : A -> list seg) (wf closed open_ok : A -> bool)
    (opn : A -> list (str * option str)) (key : A -> option str)
    (rec : list (option str) -> A -> list (list code))
    (ids_of : xstate -> list (option str)) (cnt : xstate -> Z)
    (PreL : list (str * option str) -> Prop) (R : xstate -> xstate -> Prop).
  Hypothesis R_refl : forall x, R x x.
  Hypothesis R_trans : forall x y z, R x y -> R y z -> R x z.
  Hypothesis closed_opn : forall a, closed a = true -> opn a = [].
  Hypothesis elem : forall a, wf a = true -> closed a || open_ok a = true -> forall x, PreL (loops x) ->
    exists out x', run_steps dl x (flat a) = Ok (out, x') /\ map env_codes out = rec (ids_of x) a /\
      ids_of x' = ids_of x ++ [key a] /\ cnt x' = (cnt x + 1)%Z /\ loops x' = opn a ++ loops x /\ R x x'.

  Fixpoint recs (earlier : list (option str)) (xs : list A) : list (list code) :=
    match xs with
    | [] => []
    | a :: rest => rec earlier a ++ recs (earlier ++ [key a]) rest
    end.

  Lemma seq_run : forall xs, forallb wf xs = true -> closed_but_last closed open_ok xs = true ->
    forall x, PreL (loops x) ->
    exists out x', run_steps dl x (flat_map flat xs) = Ok (out, x') /\ map env_codes out = recs (ids_of x) xs /\
      ids_of x' = ids_of x ++ map key xs /\ cnt x' = (cnt x + Z.of_nat (length xs))%Z /\
      loops x' = last_or opn xs ++ loops x /\ R x x'.
  Proof.
    induction xs as [|a rest IH]; intros W CB x P.
    - exists [], x. cbn [flat_map run_steps map recs length last_or rev app Z.of_nat].
      rewrite app_nil_r, Z.add_0_r. auto 10.
    - cbn [forallb] in W. apply andb_true_iff in W as [Wa Wr]. destruct rest as [|b rest'].
      + cbn [closed_but_last] in CB.
        destruct (elem a Wa CB x P) as (out & x' & H & E & I & Cn & L & Rx).
        exists out, x'. cbn [flat_map recs map length]. rewrite !app_nil_r.
        change (last_or opn [a]) with (opn a). repeat split; auto.
      + cbn [closed_but_last] in CB. apply andb_true_iff in CB as [Ca CB].
        assert (Ca' : closed a || open_ok a = true) by (rewrite Ca; reflexivity).
        destruct (elem a Wa Ca' x P) as (o1 & x1 & H1 & E1 & I1 & Cn1 & L1 & R1).
        rewrite (closed_opn a Ca) in L1. cbn [app] in L1.
        assert (P1 : PreL (loops x1)) by (rewrite L1; exact P).
        destruct (IH Wr CB x1 P1) as (o2 & x2 & H2 & E2 & I2 & Cn2 & L2 & R2).
        exists (o1 ++ o2), x2. split.
        { change (flat_map flat (a :: b :: rest')) with (flat a ++ flat_map flat (b :: rest')).
          eapply run_steps_app; eauto. }
        rewrite map_app, E1, E2, I2, I1, Cn2, Cn1, L2, L1, last_or_cons, <- app_assoc.
        cbn [recs map app]. repeat split; eauto.
        cbn [length]. lia.
  Qed.
End Seq.

Lemma closed_but_last_all {A} (closed open_ok : A -> bool) xs :
  forallb closed xs = true -> closed_but_last closed open_ok xs = true.
Proof.
  induction xs as [|a [|b r] IH]; cbn [forallb closed_but_last]; intros H; auto.
  - rewrite andb_true_r in H. rewrite H. reflexivity.
  - apply andb_true_iff in H as [-> H]. apply IH. exact H.
Qed.

Lemma run_body dl body : forallb (fun s => negb (is_envelope s)) body = true -> forall x,
  exists out x', run_steps dl x body = Ok (out, x') /\ map env_codes out = map (fun _ => []) body /\
    fields x' (loops x) (gs_count x) (st_count x) (seg_count x + Z.of_nat (length body))%Z
           (isa_ids x) (gs_ids x) (st_ids x).
Proof.
  induction body as [|s body IH]; intros W x.
  - exists [], x. cbn [length Z.of_nat]. rewrite Z.add_0_r. repeat split; reflexivity.
  - cbn [forallb] in W. apply andb_true_iff in W as [Ws W]. apply negb_true_iff in Ws.
    destruct (reader_body dl x s Ws) as (x1 & e & H1 & E1 & F1).
    destruct (IH W x1) as (o2 & x2 & H2 & E2 & F2).
    exists (e :: o2), x2. split; [eapply run_steps_cons; eauto|].
    cbn [map]. rewrite E1, E2. split; [reflexivity|].
    unfold fields in *. destruct F1 as (-> & -> & -> & -> & -> & -> & ->) in F2.
    destruct F2 as (-> & -> & -> & -> & -> & -> & ->). repeat split; try reflexivity.
    cbn [length]. lia.
Qed.

Lemma opt_str_eqb_oid a b : opt_str_eqb a b = oid_eqb b a.
Proof.
  unfold opt_str_eqb, oid_eqb, opt_eqb. destruct a as [a|], b as [b|]; try reflexivity.
  destruct (str_eqb a b) eqn:E.
  - apply str_eqb_eq in E. subst. symmetry. apply str_eqb_refl.
  - symmetry. apply str_eqb_neq. apply str_eqb_neq in E. congruence.
Qed.

Definition open_set dl (t : tset) : list (str * option str) :=
  match t_se t with Some _ => [] | None => [(cs "ST", el dl (t_st t) 2)] end.
Definition Rset x x' := gs_count x' = gs_count x /\ gs_ids x' = gs_ids x /\ isa_ids x' = isa_ids x.

Lemma set_elem dl t : wf_set t = true -> forall x, top_kind_is (loops x) "GS" = true ->
  exists out x', run_steps dl x (flatten_set t) = Ok (out, x') /\
    map env_codes out = recount_set dl (st_ids x) t /\
    st_ids x' = st_ids x ++ [el dl (t_st t) 2] /\ st_count x' = (st_count x + 1)%Z /\
    loops x' = open_set dl t ++ loops x /\ Rset x x'.
Proof.
  unfold wf_set. intros W x P. apply andb_true_iff in W as [W Wse]. apply andb_true_iff in W as [Wst Wb].
  destruct (reader_ST dl x _ Wst) as (x1 & e1 & H1 & E1 & F1). rewrite P in H1. cbn [app] in H1.
  destruct (run_body dl _ Wb x1) as (o2 & x2 & H2 & E2 & F2).
  destruct F1 as (L1 & G1 & S1 & C1 & I1 & GI1 & SI1).
  rewrite L1, G1, S1, C1, I1, GI1, SI1 in F2.
  destruct F2 as (L2 & G2 & S2 & C2 & I2 & GI2 & SI2).
  unfold flatten_set, recount_set, open_set, Rset. destruct (t_se t) as [se|]; cbn [opt_list].
  - destruct (reader_SE dl x2 se Wse) as (x3 & e0 & E0 & F3 & H3).
    rewrite L2, C2 in H3.
    eexists; eexists; split.
    { eapply run_steps_cons; [exact H1|]. eapply run_steps_app; [exact H2|]. cbn [run_steps]. rewrite H3. reflexivity. }
    apply (fields_with_loops _ _ (loops x)) in F3. destruct F3 as (L3 & G3 & S3 & C3 & I3 & GI3 & SI3).
    split.
    { cbn [map app]. rewrite map_app, E1, E2. cbn [map]. rewrite !env_codes_app, E0.
      change (str_eqb (cs "ST") (cs "ST")) with true. cbn [andb app].
      change el with ev. rewrite (opt_str_eqb_oid (ev dl se 2)), count_is_eq.
      replace (1 + Z.of_nat (length (t_body t)) + 1)%Z with (Z.of_nat (2 + length (t_body t))) by lia.
      f_equal. f_equal. f_equal.
      repeat match goal with |- context [if ?b then _ else _] => destruct b end; reflexivity. }
    rewrite L3, G3, S3, I3, GI3, SI3, G2, S2, I2, GI2, SI2. repeat split; reflexivity.
  - eexists; eexists; split.
    { eapply run_steps_cons; [exact H1|]. rewrite app_nil_r. exact H2. }
    split.
    { cbn [map app]. rewrite E1, E2, app_nil_r. reflexivity. }
    rewrite L2, G2, S2, I2, GI2, SI2. repeat split; reflexivity.
Qed.

Lemma recs_sets dl ts : forall e, recs (fun t => el dl (t_st t) 2) (recount_set dl) e ts = recount_sets dl e ts.
Proof. induction ts as [|t ts IH]; intros e; cbn [recs recount_sets]; [|rewrite IH]; reflexivity. Qed.

Lemma Rset_refl x : Rset x x.
Proof. unfold Rset; auto. Qed.
Lemma Rset_trans x y z : Rset x y -> Rset y z -> Rset x z.
Proof. unfold Rset. intros (?&?&?) (?&?&?). repeat split; congruence. Qed.

Lemma set_closed_open dl t : set_closed t = true -> open_set dl t = [].
Proof. unfold set_closed, open_set. destruct (t_se t); [reflexivity|discriminate]. Qed.

Lemma sets_run dl ts : forallb wf_set ts = true -> closed_but_last set_closed (fun _ => true) ts = true ->
  forall x, top_kind_is (loops x) "GS" = true ->
  exists out x', run_steps dl x (flat_map flatten_set ts) = Ok (out, x') /\
    map env_codes out = recount_sets dl (st_ids x) ts /\
    st_ids x' = st_ids x ++ map (fun t => el dl (t_st t) 2) ts /\
    st_count x' = (st_count x + Z.of_nat (length ts))%Z /\
    loops x' = last_or (open_set dl) ts ++ loops x /\ Rset x x'.
Proof.
  intros W CB x P. rewrite <- recs_sets.
  apply (seq_run dl flatten_set wf_set set_closed (fun _ => true) (open_set dl) (fun t => el dl (t_st t) 2)
           (recount_set dl) st_ids st_count (fun lp => top_kind_is lp "GS" = true) Rset
           Rset_refl Rset_trans (set_closed_open dl)); auto.
  intros a Wa _ y Py. apply set_elem; auto.
Qed.

Definition open_group dl (g : group) : list (str * option str) :=
  match g_ge g with
  | Some _ => []
  | None => last_or (open_set dl) (g_sets g) ++ [(cs "GS", el dl (g_gs g) 6)]
  end.
Definition Rgroup x x' := isa_ids x' = isa_ids x.

Lemma group_elem dl g : wf_group g = true -> group_closed g || group_open_ok g = true ->
  forall x, top_kind_is (loops x) "ISA" = true ->
  exists out x', run_steps dl x (flatten_group g) = Ok (out, x') /\
    map env_codes out = recount_group dl (gs_ids x) g /\
    gs_ids x' = gs_ids x ++ [el dl (g_gs g) 6] /\ gs_count x' = (gs_count x + 1)%Z /\
    loops x' = open_group dl g ++ loops x /\ Rgroup x x'.
Proof.
  unfold wf_group. intros W CO x P. apply andb_true_iff in W as [W Wge]. apply andb_true_iff in W as [Wgs Ws].
  assert (CB : closed_but_last set_closed (fun _ => true) (g_sets g) = true /\
               (forall ge, g_ge g = Some ge -> forallb set_closed (g_sets g) = true)).
  { unfold group_closed, group_open_ok in CO. destruct (g_ge g).
    - rewrite orb_false_r, andb_true_r in CO. split; [apply closed_but_last_all; exact CO|auto].
    - rewrite andb_false_r in CO. cbn [orb] in CO. split; [exact CO|discriminate]. }
  destruct CB as [CB CL].
  destruct (reader_GS dl x _ Wgs) as (x1 & e1 & H1 & E1 & F1). rewrite P in H1. cbn [app] in H1.
  destruct F1 as (L1 & G1 & S1 & C1 & I1 & GI1 & SI1).
  assert (P1 : top_kind_is (loops x1) "GS" = true) by (rewrite L1; reflexivity).
  destruct (sets_run dl _ Ws CB x1 P1) as (o2 & x2 & H2 & E2 & SI2 & S2 & L2 & (G2 & GI2 & I2)).
  rewrite SI1 in E2, SI2. rewrite S1 in S2. rewrite L1 in L2. rewrite G1 in G2. rewrite GI1 in GI2. rewrite I1 in I2.
  unfold flatten_group, recount_group, open_group, Rgroup. destruct (g_ge g) as [ge|]; cbn [opt_list].
  - rewrite (last_or_nil (open_set dl)) in L2.
    2:{ intros a Ha. apply set_closed_open. specialize (CL ge eq_refl). rewrite forallb_forall in CL. auto. }
    cbn [app] in L2.
    destruct (reader_GE dl x2 ge Wge) as (x3 & e0 & E0 & F3 & H3).
    rewrite L2, S2 in H3. change (str_eqb (cs "GS") (cs "GS")) with true in H3. cbv beta iota in H3.
    eexists; eexists; split.
    { eapply run_steps_cons; [exact H1|]. eapply run_steps_app; [exact H2|]. cbn [run_steps]. rewrite H3. reflexivity. }
    apply (fields_with_loops _ _ (loops x)) in F3. destruct F3 as (L3 & G3 & S3 & C3 & I3 & GI3 & SI3).
    split.
    { cbn [map app]. rewrite map_app, E1, E2. cbn [map]. rewrite !env_codes_app, E0.
      cbn [app].
      change el with ev. rewrite (opt_str_eqb_oid (ev dl ge 2)), count_is_eq.
      rewrite Z.add_0_l.
      f_equal. f_equal. f_equal.
      repeat match goal with |- context [if ?b then _ else _] => destruct b end; reflexivity. }
    rewrite L3, G3, I3, GI3, G2, I2, GI2. repeat split; reflexivity.
  - eexists; eexists; split.
    { eapply run_steps_cons; [exact H1|]. rewrite app_nil_r. exact H2. }
    split.
    { cbn [map app]. rewrite E1, E2, app_nil_r. reflexivity. }
    rewrite L2, G2, I2, GI2, <- app_assoc. repeat split; reflexivity.
Qed.

Lemma recs_groups dl gs : forall e, recs (fun g => el dl (g_gs g) 6) (recount_group dl) e gs = recount_groups dl e gs.
Proof. induction gs as [|t ts IH]; intros e; cbn [recs recount_groups]; [|rewrite IH]; reflexivity. Qed.

Lemma Rgroup_refl x : Rgroup x x.
Proof. reflexivity. Qed.
Lemma Rgroup_trans x y z : Rgroup x y -> Rgroup y z -> Rgroup x z.
Proof. unfold Rgroup. congruence. Qed.

Lemma group_closed_open dl g : group_closed g = true -> open_group dl g = [].
Proof.
  unfold group_closed, open_group. destruct (g_ge g); [reflexivity|]. rewrite andb_false_r. discriminate.
Qed.

Lemma groups_run dl gs : forallb wf_group gs = true -> closed_but_last group_closed group_open_ok gs = true ->
  forall x, top_kind_is (loops x) "ISA" = true ->
  exists out x', run_steps dl x (flat_map flatten_group gs) = Ok (out, x') /\
    map env_codes out = recount_groups dl (gs_ids x) gs /\
    gs_ids x' = gs_ids x ++ map (fun g => el dl (g_gs g) 6) gs /\
    gs_count x' = (gs_count x + Z.of_nat (length gs))%Z /\
    loops x' = last_or (open_group dl) gs ++ loops x /\ Rgroup x x'.
Proof.
  intros W CB x P. rewrite <- recs_groups.
  apply (seq_run dl flatten_group wf_group group_closed group_open_ok (open_group dl) (fun g => el dl (g_gs g) 6)
           (recount_group dl) gs_ids gs_count (fun lp => top_kind_is lp "ISA" = true) Rgroup
           Rgroup_refl Rgroup_trans (group_closed_open dl)); auto.
  intros a Wa Ca y Py. apply group_elem; auto.
Qed.

Definition open_inter dl (i : inter) : list (str * option str) :=
  match i_iea i with
  | Some _ => []
  | None => last_or (open_group dl) (i_groups i) ++ [(cs "ISA", el dl (i_isa i) 13)]
  end.

Lemma inter_elem dl i : wf_inter i = true -> inter_closed i || inter_open_ok i = true ->
  forall x, loops x = [] ->
  exists out x', run_steps dl x (flatten_inter i) = Ok (out, x') /\
    map env_codes out = recount_inter dl (isa_ids x) i /\
    isa_ids x' = isa_ids x ++ [el dl (i_isa i) 13] /\
    Z.of_nat (length (isa_ids x')) = (Z.of_nat (length (isa_ids x)) + 1)%Z /\
    loops x' = open_inter dl i ++ loops x /\ True.
Proof.
  unfold wf_inter. intros W CO x P. apply andb_true_iff in W as [W Wiea]. apply andb_true_iff in W as [W Wg].
  apply andb_true_iff in W as [Wisa W16].
  assert (CB : closed_but_last group_closed group_open_ok (i_groups i) = true /\
               (forall iea, i_iea i = Some iea -> forallb group_closed (i_groups i) = true)).
  { unfold inter_closed, inter_open_ok in CO. destruct (i_iea i).
    - rewrite orb_false_r, andb_true_r in CO. split; [apply closed_but_last_all; exact CO|auto].
    - rewrite andb_false_r in CO. cbn [orb] in CO. split; [exact CO|discriminate]. }
  destruct CB as [CB CL].
  destruct (reader_ISA dl x _ Wisa W16) as (x1 & e1 & H1 & E1 & F1). rewrite P in H1. cbn [app] in H1.
  destruct F1 as (L1 & G1 & S1 & C1 & I1 & GI1 & SI1).
  assert (P1 : top_kind_is (loops x1) "ISA" = true) by (rewrite L1; reflexivity).
  destruct (groups_run dl _ Wg CB x1 P1) as (o2 & x2 & H2 & E2 & GI2 & G2 & L2 & I2).
  unfold Rgroup in I2.
  rewrite GI1 in E2, GI2. rewrite G1 in G2. rewrite L1 in L2. rewrite I1 in I2.
  assert (LEN : forall x', isa_ids x' = isa_ids x ++ [el dl (i_isa i) 13] ->
                Z.of_nat (length (isa_ids x')) = (Z.of_nat (length (isa_ids x)) + 1)%Z).
  { intros x' ->. rewrite app_length. cbn [length]. lia. }
  unfold flatten_inter, recount_inter, open_inter. destruct (i_iea i) as [iea|]; cbn [opt_list].
  - rewrite (last_or_nil (open_group dl)) in L2.
    2:{ intros a Ha. apply group_closed_open. specialize (CL iea eq_refl). rewrite forallb_forall in CL. auto. }
    cbn [app] in L2.
    destruct (reader_IEA dl x2 iea Wiea) as (x3 & e0 & E0 & F3 & H3).
    rewrite L2, G2 in H3. change (str_eqb (cs "ISA") (cs "ISA")) with true in H3. cbv beta iota in H3.
    eexists; eexists; split.
    { eapply run_steps_cons; [exact H1|]. eapply run_steps_app; [exact H2|]. cbn [run_steps]. rewrite H3. reflexivity. }
    apply (fields_with_loops _ _ (loops x)) in F3. destruct F3 as (L3 & G3 & S3 & C3 & I3 & GI3 & SI3).
    split.
    { cbn [map app]. rewrite map_app, E1, E2. cbn [map]. rewrite !env_codes_app, E0.
      cbn [app].
      change el with ev. rewrite (opt_str_eqb_oid (ev dl iea 2)), count_is_eq.
      rewrite Z.add_0_l.
      f_equal. f_equal. f_equal.
      repeat match goal with |- context [if ?b then _ else _] => destruct b end; reflexivity. }
    assert (II : isa_ids (with_loops x3 (loops x)) = isa_ids x ++ [el dl (i_isa i) 13]) by (rewrite I3, I2; reflexivity).
    rewrite L3. repeat split; auto.
  - eexists; eexists; split.
    { eapply run_steps_cons; [exact H1|]. rewrite app_nil_r. exact H2. }
    split.
    { cbn [map app]. rewrite E1, E2, app_nil_r. reflexivity. }
    rewrite L2, <- app_assoc. repeat split; auto.
Qed.

Lemma recs_doc dl d : forall e, recs (fun i => el dl (i_isa i) 13) (recount_inter dl) e d = recount dl e d.
Proof. induction d as [|t ts IH]; intros e; cbn [recs recount]; [|rewrite IH]; reflexivity. Qed.

Lemma inter_closed_open dl i : inter_closed i = true -> open_inter dl i = [].
Proof.
  unfold inter_closed, open_inter. destruct (i_iea i); [reflexivity|]. rewrite andb_false_r. discriminate.
Qed.


Lemma doc_run dl lx d : wf_doc d = true ->
  exists out xf, run_steps dl (fresh lx) (flatten d) = Ok (out, xf) /\
    map env_codes out = recount dl [] d /\ loops xf = last_or (open_inter dl) d.
Proof.
  unfold wf_doc. intros W. apply andb_true_iff in W as [W CB].
  destruct (seq_run dl flatten_inter wf_inter inter_closed inter_open_ok (open_inter dl)
           (fun i => el dl (i_isa i) 13) (recount_inter dl) isa_ids (fun x => Z.of_nat (length (isa_ids x)))
           (fun lp => lp = []) (fun _ _ => True) (fun _ => I) (fun _ _ _ _ _ => I) (inter_closed_open dl)
           (inter_elem dl) d W CB (fresh lx) eq_refl) as (out & xf & H & E & _ & _ & L & _).
  exists out, xf. rewrite recs_doc in E. rewrite app_nil_r in L. auto.
Qed.

Definition cleanup_l (lps : list (str * option str)) : list err :=
  flat_map (fun lp => if str_eqb (fst lp) (cs "ST") then [mk_err "st" "2" None]
                      else if str_eqb (fst lp) (cs "GS") then [mk_err "gs" "3" None]
                      else if str_eqb (fst lp) (cs "ISA") then [mk_err "isa" "023" None]
                      else []) (rev lps).
Definition cc lps := env_codes (cleanup_l lps).

Lemma cc_app a b : cc (a ++ b) = cc b ++ cc a.
Proof. unfold cc, cleanup_l. rewrite rev_app_distr, flat_map_app, env_codes_app. reflexivity. Qed.

Definition miss_set (t : tset) : list code := match t_se t with Some _ => [] | None => [C "st" "2"] end.
Definition miss_group (g : group) : list code :=
  match g_ge g with Some _ => [] | None => C "gs" "3" :: last_or miss_set (g_sets g) end.
Definition miss_inter (i : inter) : list code :=
  match i_iea i with Some _ => [] | None => C "isa" "023" :: last_or miss_group (i_groups i) end.

Lemma missing_eq d : missing_at_end d = last_or miss_inter d.
Proof. reflexivity. Qed.

Lemma cc_open_set dl t : cc (open_set dl t) = miss_set t.
Proof. unfold open_set, miss_set. destruct (t_se t); reflexivity. Qed.

Lemma cc_open_group dl g : cc (open_group dl g) = miss_group g.
Proof.
  unfold open_group, miss_group. destruct (g_ge g); [reflexivity|].
  rewrite cc_app. change (cc [(cs "GS", el dl (g_gs g) 6)]) with [C "gs" "3"]. cbn [app]. f_equal.
  apply last_or_map; [apply cc_open_set|reflexivity].
Qed.

Lemma cc_open_inter dl i : cc (open_inter dl i) = miss_inter i.
Proof.
  unfold open_inter, miss_inter. destruct (i_iea i); [reflexivity|].
  rewrite cc_app. change (cc [(cs "ISA", el dl (i_isa i) 13)]) with [C "isa" "023"]. cbn [app]. f_equal.
  apply last_or_map; [apply cc_open_group|reflexivity].
Qed.

(* GOAL C1 *)
Theorem reader_exact dl lx d :
  wf_doc d = true ->
  exists out xf,
    run_steps dl (fresh lx) (flatten d) = Ok (out, xf) /\
    map env_codes out = recount dl [] d /\
    env_codes (cleanup xf) = missing_at_end d.
Proof.
  intros W. destruct (doc_run dl lx d W) as (out & xf & H & E & L).
  exists out, xf. split; [exact H|split; [exact E|]].
  change (env_codes (cleanup xf)) with (cc (loops xf)). rewrite L, missing_eq.
  apply last_or_map; [apply cc_open_inter|reflexivity].
Qed.

(* GOAL C2 *)
Theorem consistent_silent dl lx d :
  wf_doc d = true -> consistent dl d ->
  exists out xf,
    run_steps dl (fresh lx) (flatten d) = Ok (out, xf) /\
    Forall (fun es => env_codes es = []) out /\ env_codes (cleanup xf) = [].
Proof.
  intros W [C1 C2]. destruct (reader_exact dl lx d W) as (out & xf & H & E & M).
  exists out, xf. split; [exact H|split; [|congruence]].
  rewrite <- E in C1. rewrite Forall_map in C1. exact C1.
Qed.

(* ---------- C3 ---------- *)
Definition kstr (k : kind) : str := match k with KISA => cs "ISA" | KGS => cs "GS" | KST => cs "ST" end.

Definition Detected (r : result (list (list err) * xstate)) : Prop :=
  match r with
  | Ok (out, _) => exists es, In es out /\ env_codes es <> []
  | Raise e => e = X12Error
  end.

Lemma env_has e es : In e es -> is_env_level (e_lvl e) = true -> env_codes es <> [].
Proof.
  intros Hin Hl. unfold env_codes. intros E. apply map_eq_nil in E.
  assert (F : In e (filter (fun e => is_env_level (e_lvl e)) es)) by (apply filter_In; auto).
  rewrite E in F. exact F.
Qed.

Lemma det_now dl x s x1 es rest :
  reader_step dl x s = Ok (x1, es) -> env_codes es <> [] -> Detected (run_steps dl x (s :: rest)).
Proof.
  intros H E. cbn [run_steps]. rewrite H. pose proof (reader_total_aux dl x1 rest) as T.
  destruct (run_steps dl x1 rest) as [[out xf]|e]; [|exact T].
  exists es. split; [left; reflexivity|exact E].
Qed.

Lemma det_later dl x s x1 es rest :
  reader_step dl x s = Ok (x1, es) -> Detected (run_steps dl x1 rest) -> Detected (run_steps dl x (s :: rest)).
Proof.
  intros H D. cbn [run_steps]. rewrite H.
  destruct (run_steps dl x1 rest) as [[out xf]|e]; [|exact D].
  destruct D as (es' & Hin & E). exists es'. split; [right; exact Hin|exact E].
Qed.

Lemma top_may lp stk : map fst lp = map kstr stk ->
  (match lp with [] => true | _ => false end) = may_open KISA stk /\
  top_kind_is lp "ISA" = may_open KGS stk /\ top_kind_is lp "GS" = may_open KST stk.
Proof.
  destruct lp as [|[kd id] lr], stk as [|k stk']; cbn [map]; intros H; try discriminate.
  - repeat split; reflexivity.
  - injection H as -> _. cbn [top_kind_is]. destruct k; repeat split; reflexivity.
Qed.

Lemma not_env_of_ids s :
  has_id s "ISA" = false -> has_id s "GS" = false -> has_id s "ST" = false ->
  has_id s "IEA" = false -> has_id s "GE" = false -> has_id s "SE" = false -> is_envelope s = false.
Proof.
  unfold has_id, is_envelope. destruct (sid s); [|reflexivity]. intros H1 H2 H3 H4 H5 H6.
  unfold envelope_ids. cbn [mem_str]. rewrite H1, H2, H3, H4, H5, H6. reflexivity.
Qed.

Lemma nest_detect dl : forall segs stk x, map fst (loops x) = map kstr stk -> nested_from stk segs = false ->
  Detected (run_steps dl x segs).
Proof.
  induction segs as [|s rest IH]; intros stk x Inv N; [discriminate|].
  cbn [nested_from] in N. unfold header_kind, trailer_kind in N.
  destruct (top_may _ _ Inv) as (T1 & T2 & T3).
  destruct (has_id s "ISA") eqn:HISA.
  { destruct (length (els s) =? 16) eqn:L16.
    2:{ cbn [run_steps]. rewrite (reader_ISA_raise dl x s HISA L16). reflexivity. }
    destruct (reader_ISA dl x s HISA L16) as (x1 & e & H & E & F).
    destruct (may_open KISA stk) eqn:M.
    - eapply det_later; [exact H|]. apply (IH (KISA :: stk)); [|exact N].
      destruct F as (-> & _). cbn [map fst kstr]. rewrite Inv. reflexivity.
    - eapply det_now; [exact H|]. destruct (loops x); [discriminate|].
      apply (env_has (mk_err "isa" "024" None)); [left; reflexivity|reflexivity]. }
  destruct (has_id s "GS") eqn:HGS.
  { destruct (reader_GS dl x s HGS) as (x1 & e & H & E & F).
    destruct (may_open KGS stk) eqn:M.
    - eapply det_later; [exact H|]. apply (IH (KGS :: stk)); [|exact N].
      destruct F as (-> & _). cbn [map fst kstr]. rewrite Inv. reflexivity.
    - eapply det_now; [exact H|]. rewrite T2.
      apply (env_has (mk_err "isa" "024" None)); [left; reflexivity|reflexivity]. }
  destruct (has_id s "ST") eqn:HST.
  { destruct (reader_ST dl x s HST) as (x1 & e & H & E & F).
    destruct (may_open KST stk) eqn:M.
    - eapply det_later; [exact H|]. apply (IH (KST :: stk)); [|exact N].
      destruct F as (-> & _). cbn [map fst kstr]. rewrite Inv. reflexivity.
    - eapply det_now; [exact H|]. rewrite T3.
      apply (env_has (mk_err "isa" "024" None)); [left; reflexivity|reflexivity]. }
  destruct (has_id s "IEA") eqn:HIEA.
  { destruct (reader_IEA dl x s HIEA) as (x1 & e0 & E0 & F & H).
    destruct stk as [|k stk'], (loops x) as [|[kd id] lr] eqn:LX; cbn [map] in Inv; try discriminate.
    - eapply det_now; [exact H|].
      apply (env_has (mk_err "isa" "001" None)); [|reflexivity].
      rewrite !in_app_iff. right. right. left. reflexivity.
    - injection Inv as -> Inv. destruct k; cbn [kind_eqb andb] in N.
      + change (str_eqb (kstr KISA) (cs "ISA")) with true in H. cbv beta iota in H.
        eapply det_later; [exact H|]. apply (IH stk'); [|exact N]. exact Inv.
      + change (str_eqb (kstr KGS) (cs "ISA")) with false in H. cbv beta iota in H.
        destruct lr as [|[kd' id'] lr'];
          (eapply det_now; [exact H|]);
          apply (env_has (mk_err "isa" "024" None)); try reflexivity;
          rewrite !in_app_iff; right; left; left; reflexivity.
      + change (str_eqb (kstr KST) (cs "ISA")) with false in H. cbv beta iota in H.
        destruct lr as [|[kd' id'] lr'];
          (eapply det_now; [exact H|]);
          apply (env_has (mk_err "isa" "024" None)); try reflexivity;
          rewrite !in_app_iff; right; left; left; reflexivity. }
  destruct (has_id s "GE") eqn:HGE.
  { destruct (reader_GE dl x s HGE) as (x1 & e0 & E0 & F & H).
    destruct stk as [|k stk'], (loops x) as [|[kd id] lr] eqn:LX; cbn [map] in Inv; try discriminate.
    - eapply det_now; [exact H|].
      apply (env_has (mk_err "gs" "4" None)); [|reflexivity].
      rewrite !in_app_iff. right. right. left. reflexivity.
    - injection Inv as -> Inv. destruct k; cbn [kind_eqb andb] in N.
      + change (str_eqb (kstr KISA) (cs "GS")) with false in H. cbv beta iota in H.
        destruct lr as [|[kd' id'] lr'];
          (eapply det_now; [exact H|]);
          apply (env_has (mk_err "gs" "3" None)); try reflexivity;
          rewrite !in_app_iff; right; left; left; reflexivity.
      + change (str_eqb (kstr KGS) (cs "GS")) with true in H. cbv beta iota in H.
        eapply det_later; [exact H|]. apply (IH stk'); [|exact N]. exact Inv.
      + change (str_eqb (kstr KST) (cs "GS")) with false in H. cbv beta iota in H.
        destruct lr as [|[kd' id'] lr'];
          (eapply det_now; [exact H|]);
          apply (env_has (mk_err "gs" "3" None)); try reflexivity;
          rewrite !in_app_iff; right; left; left; reflexivity. }
  destruct (has_id s "SE") eqn:HSE.
  { destruct (reader_SE dl x s HSE) as (x1 & e0 & E0 & F & H).
    destruct stk as [|k stk'], (loops x) as [|[kd id] lr] eqn:LX; cbn [map] in Inv; try discriminate.
    - eapply det_now; [exact H|].
      apply (env_has (mk_err "st" "3" None)); [|reflexivity].
      rewrite !in_app_iff. right. left. reflexivity.
    - injection Inv as -> Inv. destruct k; cbn [kind_eqb andb] in N.
      + change (str_eqb (kstr KISA) (cs "ST")) with false in H. cbn [andb] in H.
        eapply det_now; [exact H|].
        apply (env_has (mk_err "st" "3" None)); [|reflexivity].
        rewrite !in_app_iff. right. left. left. reflexivity.
      + change (str_eqb (kstr KGS) (cs "ST")) with false in H. cbn [andb] in H.
        eapply det_now; [exact H|].
        apply (env_has (mk_err "st" "3" None)); [|reflexivity].
        rewrite !in_app_iff. right. left. left. reflexivity.
      + eapply det_later; [exact H|]. apply (IH stk'); [|exact N]. exact Inv. }
  pose proof (not_env_of_ids s HISA HGS HST HIEA HGE HSE) as NE.
  destruct (reader_body dl x s NE) as (x1 & e & H & E & F).
  eapply det_later; [exact H|]. apply (IH stk); [|exact N].
  destruct F as (-> & _). exact Inv.
Qed.

(* GOAL C3 *)
Theorem ill_nested_detected dl lx segs :
  properly_nested segs = false ->
  match run_steps dl (fresh lx) segs with
  | Ok (out, _) => exists es, In es out /\ env_codes es <> []
  | Raise e => e = X12Error
  end.
Proof.
  intros N. apply (nest_detect dl segs [] (fresh lx)); [reflexivity|exact N].
Qed.

(* GOAL C4 *)
Theorem reader_total dl x segs :
  match run_steps dl x segs with
  | Ok _ => True
  | Raise e => e = X12Error
  end.
Proof. apply reader_total_aux. Qed.

Print Assumptions reader_exact. Print Assumptions consistent_silent. Print Assumptions ill_nested_detected. Print Assumptions reader_total.
