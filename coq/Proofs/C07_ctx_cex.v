(* C07_ctx_cex.v — the two other loop ids of the shipped maps whose loop starts with a loop
   (820.5010.X218: TABLE2AREA2 -> 2000A, TABLE2AREA3 -> 2000B): the same AttributeError as for DETAIL
   (Proofs/C07_ctx_maps.v: ctx_detail_raises).  Confirmed on the implementation. *)
From Coq Require Import String List.
From PX.Lib Require Import Base PyStr Xml.
From PX.Model Require Import Segment MapLoad MapTree Driver Context CtxReader.
From PX.Spec Require Import C07_spec.
From PX.Proofs Require Import C07_driver_maps.
Import ListNotations.

Definition cex_820_head : string :=
  ("ISA*00*          *00*          *ZZ*ZZ000          *ZZ*ZZ001          *030828*1128*U*00501*000010121*0*T*:~" ++
   "GS*RA*ZZ000*ZZ001*20030828*1128*17*X*005010X218~ST*820*0001~")%string.

Definition cex_820_a2 : str := sl (cex_820_head ++ "ENT*1*2L*FI*123456789~").
Definition cex_820_a3 : str := sl (cex_820_head ++ "ENT*1*2J*EI*123456789~").

Example cex_820_a2_plain : plain_delims cex_820_a2 = true.
Proof. vm_compute. reflexivity. Qed.
Example cex_820_a2_raises :
  ir_res (iter_segments_gen shipped_load shipped_idx (Some (sl "TABLE2AREA2")) cex_820_a2) = Raise AttributeError.
Proof. vm_compute. reflexivity. Qed.

Example cex_820_a3_plain : plain_delims cex_820_a3 = true.
Proof. vm_compute. reflexivity. Qed.
Example cex_820_a3_raises :
  ir_res (iter_segments_gen shipped_load shipped_idx (Some (sl "TABLE2AREA3")) cex_820_a3) = Raise AttributeError.
Proof. vm_compute. reflexivity. Qed.
Print Assumptions cex_820_a2_raises. Print Assumptions cex_820_a3_raises.
