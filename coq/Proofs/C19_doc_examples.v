(* C19_doc_examples.v — the document-level theorems of C19 on the SHIPPED maps (Proofs/C07_driver_maps.v), by
   computation:

     nv_*          non-vacuity: a 997 with one data error — hypotheses and conclusions of doc_calls /
                   doc_report_chunk evaluated
     empty_report  a completed run WITHOUT report: unreadable ISA header -> fd_html stays empty
     F1 .. F4      FINDINGS: "every error of the final error tree is shown (once)" is FALSE of the code
        F1  a reader error of the SE line lands on the PREVIOUS segment's node, already shown: never printed
        F2  ST without SE, then another ST: err_iter stays under the unclosed set — no error of the rest of the
            document is handed to gen_seg any more
        F3  element errors of the SE segment are stored on the set node; when the set has no segment node with
            errors, err_iter never comes back to it: never printed
        F4  ... and when it does come back (at SE), the element errors of the ST segment are printed a second time
   All four reproduce on /repo/pyx12 (x12n_document with fd_html). *)
From Coq Require Import String.
From PX.Lib Require Import Base PyStr PyInt.
From PX.Model Require Import Path Segment Raw Reader MapLoad MapTree Walker MapEnv Driver Pipeline.
From PX.Model Require Errh ErrIter OutW Html XmlOut Ack997.
From PX.Spec Require Import C09_spec C19_spec C19_doc_spec.
From PX.Proofs Require Import C07_driver_maps C07_pipeline_maps.

Definition html_only : sinks := {| want_ack := false; want_html := true; want_xml := false |}.
Definition htime0 : str := sl "01/02/2026 12:01:00".
Definition run (sk : sinks) (t : str) : outputs := run_pipeline_gen shipped_load shipped_idx clk0 htime0 None sk t.

Definition isa0 : string :=
  "ISA*00*          *00*          *ZZ*SENDER         *ZZ*RECEIVER       *030101*1253*U*00401*000000001*0*P*:~".
Definition gs0 : string := "GS*FA*SS*RR*20030101*1253*1*X*004010~".

(* the views of a text, the delimiters, and the handler when Driver.finish has run *)
Definition analyse (t : str) : option (delims * list seg_view * Errh.errh) :=
  match doc_setup shipped_load shipped_idx t with
  | Ok (E, lines, d0) =>
      match doc_views E lines d0 ErrIter.iter_init with
      | Ok (views, d1) => match finish d1 with (d2, Ok _) => Some (de_d E, views, ds_errh d2) | _ => None end
      | Raise _ => None
      end
  | Raise _ => None
  end.

Fixpoint count_sub (sub s : str) : nat :=
  match s with
  | [] => 0
  | _ :: r => (if starts_with sub s then 1 else 0) + count_sub sub r
  end.

Definition report (t : str) : str := strip_markup (o_html (run html_only t)).
Definition lines_with (views : list seg_view) (r : ErrIter.node_ref) : list Z := map sv_line (calls_with views r).

(* ------------------------------------------------------------------ *)
(* non-vacuity                                                          *)

Definition doc_nv : str := sl (isa0 ++ gs0 ++ "ST*997*0001~AK1*HC*1~AK9*A*X*1*1~SE*4*0001~GE*1*1~IEA*1*000000001~").

Definition seg_of (s : string) : seg := parse_seg {| seg_term := "~"; ele_term := "*"; subele_term := ":" |} (sl s).

(* hypotheses: HTML sink on (here with the other two as well), the run completes, the date needs no escaping,
   the codes of every view are plain *)
Example nv_hyps :
  o_result (run all_on doc_nv) = Ok false /\ want_html all_on = true /\ markup_free htime0 = true /\
  match analyse doc_nv with Some (_, views, _) => forallb view_codes_plainb views | None => false end = true.
Proof. vm_compute. repeat split. Qed.

(* doc_calls: the calls are the source segments, in order, with the reader's line numbers *)
Example nv_calls :
  source_lines doc_nv = Ok (shown_segments (run all_on doc_nv)) /\
  shown_segments (run all_on doc_nv) =
    [ (seg_of (isa0 ++ ""), Some 1%Z); (seg_of "GS*FA*SS*RR*20030101*1253*1*X*004010", Some 2%Z);
      (seg_of "ST*997*0001", Some 3%Z); (seg_of "AK1*HC*1", Some 4%Z); (seg_of "AK9*A*X*1*1", Some 5%Z);
      (seg_of "SE*4*0001", Some 6%Z); (seg_of "GE*1*1", Some 7%Z); (seg_of "IEA*1*000000001", Some 8%Z) ].
Proof. vm_compute. split; reflexivity. Qed.

(* doc_report_chunk: what remains of the report is plain_report of the views; the calls are those of the views *)
Example nv_report :
  match analyse doc_nv with
  | Some (d, views, h_end) =>
      strip_markup (o_html (run all_on doc_nv)) = plain_report d htime0 views h_end /\
      o_html_calls (run all_on doc_nv) = map (view_call d) views /\
      map (fun v => (sv_line v, sv_nodes v)) views =
        [(1, [ErrIter.RIsa 0]); (2, [ErrIter.RGs 0]); (3, [ErrIter.RSt 0]); (4, []); (5, [ErrIter.RSeg 1]);
         (6, [ErrIter.RSt 0]); (7, [ErrIter.RGs 0]); (8, [ErrIter.RIsa 0])]%Z /\
      all_seg_errors_shown views h_end = true
  | None => False
  end.
Proof. vm_compute. repeat split. Qed.

Example nv_text :
  report doc_nv = plain_header htime0 ++ sl
  ("  Loop ISA_LOOP: Interchange Control Header
1: " ++ isa0 ++ "
  Loop GS_LOOP: Functional Group Header
2: GS*FA*SS*RR*20030101*1253*1*X*004010~
  Loop ST_LOOP: Transaction Set Header
3: ST*997*0001~
4: AK1*HC*1~
5: AK9*A*X*1*1~
 Data element ""Number of Transaction Sets Included"" (AK902) is type N0, contains an invalid character(X) (Element Error Code: 6)
6: SE*4*0001~
7: GE*1*1~
8: IEA*1*000000001~


pyx12 Validator



")%string.
Proof. vm_compute. reflexivity. Qed.

(* ------------------------------------------------------------------ *)
(* the completed run without a report                                   *)

Example empty_report :
  let r := run all_on (sl "HELLO") in
  o_result r = Ok false /\ o_html r = [] /\ o_html_calls r = [] /\ source_lines (sl "HELLO") = Raise X12Error.
Proof. vm_compute. repeat split. Qed.

(* ------------------------------------------------------------------ *)
(* F1: an error added to a node that has already been shown             *)

Definition doc_F1 : str := sl (isa0 ++ gs0 ++ "ST*997*0001~AK1*HC*1~AK9*A*X*1*1~SE*4*0001*~GE*1*1~IEA*1*000000001~").

Example F1_late_error_never_shown :
  o_result (run html_only doc_F1) = Ok false /\
  match analyse doc_F1 with
  | Some (d, views, h_end) =>
      (* the final tree: one segment node (AK9, line 5); it holds the reader's error SEG1 of the SE line *)
      tree_seg_nodes h_end = [1] /\
      map (fun e => fst (fst e)) (seg_errors_at h_end 1) = [sl "SEG1"] /\
      (* the node is handed to exactly one call, that of line 5 — when it did not hold the error yet *)
      lines_with views (ErrIter.RSeg 1) = [5%Z] /\
      map (fun v => seg_errors_at (sv_errh v) 1) (calls_with views (ErrIter.RSeg 1)) = [[]] /\
      all_seg_errors_shown views h_end = false
  | None => False
  end /\
  (* ... and the report does not mention it *)
  count_sub (sl "SEG1") (report doc_F1) = 0.
Proof. vm_compute. repeat split. Qed.

(* ------------------------------------------------------------------ *)
(* F2: err_iter stuck under a transaction set that is never closed      *)

Definition doc_F2 : str :=
  sl (isa0 ++ gs0 ++ "ST*997*0001~AK1*HC*X~ST*997*0002~AK1*HC*Y~AK9*A*Z*1*1~SE*4*0002~GE*1*1~IEA*1*000000001~").

Example F2_iterator_stuck :
  o_result (run html_only doc_F2) = Ok false /\
  match analyse doc_F2 with
  | Some (d, views, h_end) =>
      tree_seg_nodes h_end = [0; 1; 2; 3; 4] /\
      (* from the second ST (line 5) on, no node at all is handed to gen_seg *)
      map (fun v => (sv_line v, sv_nodes v)) views =
        [(1, [ErrIter.RIsa 0]); (2, [ErrIter.RGs 0]); (3, [ErrIter.RSt 0]); (4, [ErrIter.RSeg 0]);
         (5, [ErrIter.RSeg 1; ErrIter.RSeg 2]); (6, []); (7, []); (8, []); (9, []); (10, [])]%Z /\
      (* the nodes of lines 6 and 7 are in the tree, each with an element error *)
      map (fun k => map (fun e => length (ele_errors_at h_end e)) (seg_elements_at h_end k)) [3; 4] = [[1]; [1]] /\
      lines_with views (ErrIter.RSeg 3) = [] /\ lines_with views (ErrIter.RSeg 4) = [] /\
      all_seg_errors_shown views h_end = false
  | None => False
  end /\
  (* the report shows the AK102 error of line 4 only; those of lines 6 (AK102) and 7 (AK902) are missing *)
  count_sub (sl "(AK102)") (report doc_F2) = 1 /\ count_sub (sl "(AK902)") (report doc_F2) = 0.
Proof. vm_compute. repeat split. Qed.

(* ------------------------------------------------------------------ *)
(* F3 / F4: the element errors of ST and SE live on the set node        *)

Definition doc_F3 : str :=
  sl (isa0 ++ gs0 ++ "ST*997*00000000001~AK1*HC*1~AK9*A*1*1*1~SE*4*00000000001~GE*1*1~IEA*1*000000001~").

Definition st_element_msgs (h : Errh.errh) : list str :=
  flat_map (fun n => flat_map (fun e => map (fun x => firstn 52 (snd (fst x))) (ele_errors_at h e)) (Errh.tn_elements n)) (Errh.h_st h).

Example F3_SE_element_error_never_shown :
  o_result (run html_only doc_F3) = Ok false /\
  match analyse doc_F3 with
  | Some (d, views, h_end) =>
      (* the set node holds the ST02 and the SE02 error *)
      st_element_msgs h_end = [sl "Data element ""Transaction Set Control Number"" (ST02)";
                               sl "Data element ""Transaction Set Control Number"" (SE02)"] /\
      (* it is handed over once, at the ST line *)
      lines_with views (ErrIter.RSt 0) = [3%Z]
  | None => False
  end /\
  count_sub (sl "(ST02)") (report doc_F3) = 1 /\ count_sub (sl "(SE02)") (report doc_F3) = 0.
Proof. vm_compute. repeat split. Qed.

Definition doc_F4 : str :=
  sl (isa0 ++ gs0 ++ "ST*997*00000000001~AK1*HC*1~AK9*A*X*1*1~SE*4*00000000001~GE*1*1~IEA*1*000000001~").

Example F4_ST_element_error_shown_twice :
  o_result (run html_only doc_F4) = Ok false /\
  match analyse doc_F4 with
  | Some (d, views, h_end) =>
      length (st_element_msgs h_end) = 2 /\
      (* the set node is handed over at the ST line and again at the SE line *)
      lines_with views (ErrIter.RSt 0) = [3%Z; 6%Z]
  | None => False
  end /\
  count_sub (sl "(ST02)") (report doc_F4) = 2 /\ count_sub (sl "(SE02)") (report doc_F4) = 1.
Proof. vm_compute. repeat split. Qed.

(* ------------------------------------------------------------------ *)
(* not a defect, but the reason why "the nodes of a call are those recorded for ITS segment" is not a theorem:
   the same reader error, when the previous segment's node had not been shown yet, attaches that node — recorded
   for line 5 — and it is handed to the call of line 6, where the error is printed *)

Definition doc_N5 : str := sl (isa0 ++ gs0 ++ "ST*997*0001~AK1*HC*1~AK9*A*1*1*1~SE*4*0001*~GE*1*1~IEA*1*000000001~").

Example N5_node_of_previous_line :
  match analyse doc_N5 with
  | Some (d, views, h_end) =>
      map (fun n => Errh.sn_cur_line n) (firstn 1 (skipn 1 (Errh.h_seg h_end))) = [Some 5%Z] /\
      lines_with views (ErrIter.RSeg 1) = [6%Z] /\ all_seg_errors_shown views h_end = true
  | None => False
  end /\ count_sub (sl "SEG1") (report doc_N5) = 1.
Proof. vm_compute. repeat split. Qed.

Print Assumptions nv_report.
Print Assumptions F1_late_error_never_shown.
Print Assumptions F2_iterator_stuck.
Print Assumptions F3_SE_element_error_never_shown.
Print Assumptions F4_ST_element_error_shown_twice.
