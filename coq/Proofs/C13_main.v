(* C13_main.v — the model of IsValidDataType decides exactly the languages of
   Spec/C13_spec.v, and never raises for the two character-set settings. *)
From Coq Require Import String.
From PX.Lib Require Import Base PyStr Regex.
From PX.Gen Require Import Regexes.
From PX.Model Require Import Validation.
From PX.Spec Require Import C13_spec.
From PX.Spec Require Import C13_dec.
From PX.Proofs Require Import RegexLemmas C13_regex C13_lang.

(* ---------- N, R ---------- *)
Lemma LN_same s : LN_b s = LN_dec s.
Proof. reflexivity. Qed.

Lemma sp_dspan s : sp s = dspan s.
Proof. induction s as [|x s IH]; [reflexivity|]. rewrite sp_cons, IH. reflexivity. Qed.

Lemma frac_rel u :
  match frac u with
  | Some k => (length u <=? k) = frac_ok u
  | None => frac_ok u = false
  end.
Proof.
  destruct u as [|c f]; cbn [frac frac_ok]; [reflexivity|].
  destruct (Ascii.eqb c "."%char); [|reflexivity]. cbn [andb].
  pose proof (sp_le f) as L. rewrite (all_digits_sp f).
  destruct (sp f =? 0) eqn:Z.
  - apply Nat.eqb_eq in Z. destruct f as [|y f]; [reflexivity|]. simpl length in *. cbn [Nat.eqb negb andb].
    rewrite Z. reflexivity.
  - apply Nat.eqb_neq in Z. cbn [length]. destruct (length f =? 0) eqn:L0.
    + apply Nat.eqb_eq in L0. lia.
    + cbn [negb andb]. change (S (length f) <=? S (sp f)) with (length f <=? sp f).
      destruct (Nat.leb_spec (length f) (sp f)); destruct (Nat.eqb_spec (sp f) (length f)); try lia; reflexivity.
Qed.

Lemma R_end_body t :
  match R_end t with Some e => length t <=? e | None => false end = LR_body t.
Proof.
  unfold R_end, LR_body. rewrite <- sp_dspan. destruct (sp t =? 0) eqn:Z.
  - pose proof (frac_rel t) as F. destruct (frac t); [exact F | symmetry; exact F].
  - pose proof (frac_rel (skipn (sp t) t)) as F.
    pose proof (firstn_skipn (sp t) t) as FS.
    assert (LT : length t = sp t + length (skipn (sp t) t)).
    { rewrite <- FS at 1. rewrite app_length, firstn_length. pose proof (sp_le t). lia. }
    destruct (skipn (sp t) t) as [|y r] eqn:E.
    + simpl in LT. cbn [frac]. destruct (Nat.leb_spec (length t) (sp t + 0)); [reflexivity | lia].
    + destruct (frac (y :: r)) as [k|].
      * rewrite <- F. rewrite LT.
        destruct (Nat.leb_spec (sp t + length (y :: r)) (sp t + k));
          destruct (Nat.leb_spec (length (y :: r)) k); try lia; reflexivity.
      * rewrite F. rewrite LT. simpl length.
        destruct (Nat.leb_spec (sp t + S (length r)) (sp t + 0)); [lia | reflexivity].
Qed.

Lemma LR_same s : LR_b s = LR_dec s.
Proof.
  destruct s as [|x t]; [reflexivity|]. cbn [LR_b LR_dec].
  destruct (Ascii.eqb x "-"%char); apply R_end_body.
Qed.

(* ---------- character sets: generated class = explicit list (256-way sweep) ---------- *)
Definition rs_of (r : re) : list (nat * nat) :=
  match r with RCls (Cls true rs) => rs | _ => [] end.

Lemma cls_B : forall a, cls_mem (Cls true (rs_of rec_ID_B)) a = negb (mem_ascii a charset_B).
Proof. apply sweep_eq. vm_compute. reflexivity. Qed.
Lemma cls_E : forall a, cls_mem (Cls true (rs_of rec_ID_E)) a = negb (mem_ascii a charset_E).
Proof. apply sweep_eq. vm_compute. reflexivity. Qed.
Lemma cls_E5 : forall a, cls_mem (Cls true (rs_of rec_ID_E5)) a = negb (mem_ascii a charset_E5).
Proof. apply sweep_eq. vm_compute. reflexivity. Qed.

Lemma rec_ID_B_char val : not_match_re_with rec_ID_B val = negb (forallb (fun a => mem_ascii a charset_B) val).
Proof. change rec_ID_B with (RCls (Cls true (rs_of rec_ID_B))). apply not_match_cls_neg, cls_B. Qed.
Lemma rec_ID_E_char val : not_match_re_with rec_ID_E val = negb (forallb (fun a => mem_ascii a charset_E) val).
Proof. change rec_ID_E with (RCls (Cls true (rs_of rec_ID_E))). apply not_match_cls_neg, cls_E. Qed.
Lemma rec_ID_E5_char val : not_match_re_with rec_ID_E5 val = negb (forallb (fun a => mem_ascii a charset_E5) val).
Proof. change rec_ID_E5 with (RCls (Cls true (rs_of rec_ID_E5))). apply not_match_cls_neg, cls_E5. Qed.

Lemma ID_model val charset icvn :
  charset = l "B" \/ charset = l "E" ->
  not_match_re (l "ID") val charset icvn = Ok (negb (ID_b charset icvn val)).
Proof.
  intros [-> | ->]; unfold not_match_re, ID_b, charset_of.
  - change (str_eqb (l "ID") (l "ID") || str_eqb (l "ID") (l "AN")) with true.
    change (str_eqb (l "B") (l "E")) with false. change (str_eqb (l "B") (l "B")) with true.
    change (str_eqb (l "B") (cs "E")) with false. cbv iota.
    rewrite rec_ID_B_char. reflexivity.
  - change (str_eqb (l "ID") (l "ID") || str_eqb (l "ID") (l "AN")) with true.
    change (str_eqb (l "E") (l "E")) with true. change (str_eqb (l "E") (cs "E")) with true. cbv iota.
    change (cs "00501") with (l "00501").
    destruct (str_eqb icvn (l "00501")); [rewrite rec_ID_E5_char | rewrite rec_ID_E_char]; reflexivity.
Qed.

(* ---------- times ---------- *)
Lemma gt23 : forall c1 c2, is_digit c1 = true -> is_digit c2 = true ->
  str_gtb [c1; c2] (l "23") = (23 <? dec_val [c1; c2])%N.
Proof.
  assert (H : forallb (fun c1 => forallb (fun c2 =>
     implb (is_digit c1 && is_digit c2) (Bool.eqb (str_gtb [c1; c2] (l "23")) (23 <? dec_val [c1; c2])%N))
     all_ascii) all_ascii = true) by (vm_compute; reflexivity).
  intros c1 c2 D1 D2. rewrite forallb_forall in H. specialize (H c1 (all_ascii_complete c1)).
  rewrite forallb_forall in H. specialize (H c2 (all_ascii_complete c2)).
  rewrite D1, D2 in H. simpl in H. apply eqb_prop in H. exact H.
Qed.

Lemma gt59 : forall c1 c2, is_digit c1 = true -> is_digit c2 = true ->
  str_gtb [c1; c2] (l "59") = (59 <? dec_val [c1; c2])%N.
Proof.
  assert (H : forallb (fun c1 => forallb (fun c2 =>
     implb (is_digit c1 && is_digit c2) (Bool.eqb (str_gtb [c1; c2] (l "59")) (59 <? dec_val [c1; c2])%N))
     all_ascii) all_ascii = true) by (vm_compute; reflexivity).
  intros c1 c2 D1 D2. rewrite forallb_forall in H. specialize (H c1 (all_ascii_complete c1)).
  rewrite forallb_forall in H. specialize (H c2 (all_ascii_complete c2)).
  rewrite D1, D2 in H. simpl in H. apply eqb_prop in H. exact H.
Qed.

Lemma ltb_leb (a b : N) : (a <? b)%N = negb (b <=? a)%N.
Proof. apply N.ltb_antisym. Qed.

Ltac digs H :=
  repeat match type of H with
  | all_digits (_ :: _) = true => unfold all_digits in H; cbn [forallb] in H; fold all_digits in H
  | (_ && _) = true => let H1 := fresh "D" in apply andb_true_iff in H as [H1 H]
  end.

Lemma time_model val : is_valid_time val = TM_b val.
Proof.
  unfold is_valid_time, TM_b. rewrite rec_TM_char.
  destruct (all_digits val) eqn:AD; [|reflexivity]. cbn [negb andb].
  destruct val as [|c1 [|c2 [|c3 [|c4 rest]]]]; try reflexivity.
  unfold all_digits in AD. cbn [forallb] in AD.
  apply andb_true_iff in AD as [D1 AD]. apply andb_true_iff in AD as [D2 AD].
  apply andb_true_iff in AD as [D3 AD]. apply andb_true_iff in AD as [D4 AD].
  change (slice (c1 :: c2 :: c3 :: c4 :: rest) 0 2) with [c1; c2].
  change (slice (c1 :: c2 :: c3 :: c4 :: rest) 2 4) with [c3; c4].
  change (length (c1 :: c2 :: c3 :: c4 :: rest) <? 4) with false. cbv iota.
  rewrite gt23, gt59 by assumption. rewrite !ltb_leb.
  destruct (dec_val [c1; c2] <=? 23)%N; [|cbn [negb orb]; rewrite ?andb_false_r; reflexivity].
  destruct (dec_val [c3; c4] <=? 59)%N; [|cbn [negb orb]; rewrite ?andb_false_r; reflexivity].
  cbn [negb orb]. rewrite !andb_true_r.
  destruct rest as [|c5 [|c6 rest]]; try reflexivity.
  cbn [forallb] in AD. apply andb_true_iff in AD as [D5 AD]. apply andb_true_iff in AD as [D6 AD].
  change (slice (c1 :: c2 :: c3 :: c4 :: c5 :: c6 :: rest) 4 6) with [c5; c6].
  change (4 <? length (c1 :: c2 :: c3 :: c4 :: c5 :: c6 :: rest)) with true.
  change (length (c1 :: c2 :: c3 :: c4 :: c5 :: c6 :: rest) <? 6) with false.
  change (6 <=? length (c1 :: c2 :: c3 :: c4 :: c5 :: c6 :: rest)) with true. cbv iota.
  rewrite gt59 by assumption. rewrite ltb_leb.
  destruct (dec_val [c5; c6] <=? 59)%N; [|cbn [negb]; rewrite ?andb_false_r; reflexivity].
  cbn [negb]. rewrite !andb_true_r.
  destruct rest as [|c7 [|c8 [|c9 rest]]]; reflexivity.
Qed.

(* ---------- dates ---------- *)
Lemma leap_same y : is_leap y = leap_b y.
Proof.
  unfold is_leap, leap_b. destruct (N.eqb (y mod 4) 0), (N.eqb (y mod 100) 0), (N.eqb (y mod 400) 0); reflexivity.
Qed.

Definition date_chain (year month day : N) (rest : bool) : bool :=
  if N.ltb year 1800 then false
  else if N.ltb month 1 || N.ltb 12 month then false
  else if
    (if existsb (N.eqb month) [1;3;5;7;8;10;12]%N then N.ltb day 1 || N.ltb 31 day
     else if existsb (N.eqb month) [4;6;9;11]%N then N.ltb day 1 || N.ltb 30 day
     else if is_leap year then N.ltb day 1 || N.ltb 29 day
     else N.ltb day 1 || N.ltb 28 day)
  then false
  else rest.

Lemma date_chain_ok y m d rest : date_chain y m d rest = date_ok_b y m d && rest.
Proof.
  unfold date_chain, date_ok_b, days_in. rewrite leap_same, !ltb_leb.
  destruct (1800 <=? y)%N; [|reflexivity].
  destruct (1 <=? m)%N; [|reflexivity].
  destruct (m <=? 12)%N; [|reflexivity]. cbn [negb orb andb].
  destruct (existsb (N.eqb m) [1;3;5;7;8;10;12]%N).
  { destruct (1 <=? d)%N, (d <=? 31)%N; reflexivity. }
  destruct (existsb (N.eqb m) [4;6;9;11]%N).
  { destruct (1 <=? d)%N, (d <=? 30)%N; reflexivity. }
  destruct (leap_b y).
  { destruct (1 <=? d)%N, (d <=? 29)%N; reflexivity. }
  destruct (1 <=? d)%N, (d <=? 28)%N; reflexivity.
Qed.

(* is_valid_date restated with date_chain (definitional) *)
Lemma is_valid_date_unfold data_type val :
  is_valid_date data_type val =
  if str_eqb data_type (l "D8") && negb (length val =? 8) then false
  else if str_eqb data_type (l "D6") && negb (length val =? 6) then false
  else if not_match_re_with rec_DT val then false
  else if (length val =? 6) || (length val =? 8) || (length val =? 12) then
    let val' := if length val =? 6
               then (if N.ltb (dec_val (slice val 0 2)) 50 then l "20" ++ val else l "19" ++ val)
               else val in
    date_chain (dec_val (slice val' 0 4)) (dec_val (slice val' 4 6)) (dec_val (slice val' 6 8))
      (if length val' =? 12 then is_valid_time (slice val' 8 12) else true)
  else false.
Proof. reflexivity. Qed.

Lemma dec_val_4 a b c d :
  dec_val [a; b; c; d] =
  (N.of_nat (digit_val a) * 1000 + N.of_nat (digit_val b) * 100 + N.of_nat (digit_val c) * 10 + N.of_nat (digit_val d))%N.
Proof. unfold dec_val. cbn [fold_left]. lia. Qed.
Lemma dec_val_2 c d : dec_val [c; d] = (N.of_nat (digit_val c) * 10 + N.of_nat (digit_val d))%N.
Proof. unfold dec_val. cbn [fold_left]. lia. Qed.

(* the six-digit case *)
Lemma date6_model a b c d e f :
  all_digits [a; b; c; d; e; f] = true ->
  (let val := [a; b; c; d; e; f] in
   let val' := if N.ltb (dec_val (slice val 0 2)) 50 then l "20" ++ val else l "19" ++ val in
   date_chain (dec_val (slice val' 0 4)) (dec_val (slice val' 4 6)) (dec_val (slice val' 6 8))
     (if length val' =? 12 then is_valid_time (slice val' 8 12) else true))
  = date_ok_b (window (dec_val [a; b])) (dec_val [c; d]) (dec_val [e; f]).
Proof.
  intros _. cbv zeta. change (slice [a; b; c; d; e; f] 0 2) with [a; b].
  unfold window. destruct (dec_val [a; b] <? 50)%N eqn:W.
  - change (slice (l "20" ++ [a; b; c; d; e; f]) 0 4) with ["2"%char; "0"%char; a; b].
    change (slice (l "20" ++ [a; b; c; d; e; f]) 4 6) with [c; d].
    change (slice (l "20" ++ [a; b; c; d; e; f]) 6 8) with [e; f].
    change (length (l "20" ++ [a; b; c; d; e; f]) =? 12) with false. cbv iota.
    rewrite date_chain_ok, andb_true_r. f_equal.
    rewrite dec_val_4, dec_val_2. change (digit_val "2"%char) with 2. change (digit_val "0"%char) with 0. lia.
  - change (slice (l "19" ++ [a; b; c; d; e; f]) 0 4) with ["1"%char; "9"%char; a; b].
    change (slice (l "19" ++ [a; b; c; d; e; f]) 4 6) with [c; d].
    change (slice (l "19" ++ [a; b; c; d; e; f]) 6 8) with [e; f].
    change (length (l "19" ++ [a; b; c; d; e; f]) =? 12) with false. cbv iota.
    rewrite date_chain_ok, andb_true_r. f_equal.
    rewrite dec_val_4, dec_val_2. change (digit_val "1"%char) with 1. change (digit_val "9"%char) with 9. lia.
Qed.

Ltac len_compute :=
  cbn [length Nat.eqb Nat.leb Nat.ltb orb andb negb].

Ltac slice_compute :=
  cbn [slice skipn firstn Nat.sub app length Nat.eqb Nat.leb Nat.ltb].

Lemma date_model_DT val : is_valid_date (l "DT") val = DT_b val.
Proof.
  rewrite is_valid_date_unfold.
  change (str_eqb (l "DT") (l "D8")) with false. change (str_eqb (l "DT") (l "D6")) with false.
  cbn [andb]. rewrite rec_DT_char. unfold DT_b, date6_b, date8_b, hhmm_b.
  destruct val as [|c1 [|c2 [|c3 [|c4 [|c5 [|c6 [|c7 [|c8 [|c9 [|c10 [|c11 [|c12 [|c13 rest]]]]]]]]]]]]];
    len_compute; rewrite ?andb_false_r; cbn [orb];
    try (match goal with |- (if ?b then false else false) = false => destruct b; reflexivity end).
  - (* six digits *)
    destruct (all_digits [c1; c2; c3; c4; c5; c6]) eqn:AD; cbn [negb andb]; [|reflexivity].
    rewrite !orb_false_r. exact (date6_model c1 c2 c3 c4 c5 c6 AD).
  - (* eight digits *)
    destruct (all_digits [c1; c2; c3; c4; c5; c6; c7; c8]) eqn:AD; cbn [negb andb]; [|reflexivity].
    cbv zeta. slice_compute. rewrite date_chain_ok, andb_true_r, ?orb_false_r. reflexivity.
  - (* twelve digits *)
    cbv zeta. slice_compute. len_compute.
    rewrite date_chain_ok, time_model.
    assert (SPLIT : all_digits [c1; c2; c3; c4; c5; c6; c7; c8; c9; c10; c11; c12] =
                    all_digits [c1; c2; c3; c4; c5; c6; c7; c8] && all_digits [c9; c10; c11; c12]).
    { unfold all_digits. cbn [forallb].
      destruct (is_digit c1), (is_digit c2), (is_digit c3), (is_digit c4), (is_digit c5), (is_digit c6),
        (is_digit c7), (is_digit c8); reflexivity. }
    rewrite SPLIT.
    destruct (all_digits [c1; c2; c3; c4; c5; c6; c7; c8]); cbn [negb andb]; [|reflexivity].
    destruct (all_digits [c9; c10; c11; c12]) eqn:A4; cbn [negb]; [reflexivity|].
    unfold TM_b. rewrite A4. cbn [andb]. rewrite andb_false_r. reflexivity.
Qed.

Lemma date_model_D8 val : is_valid_date (l "D8") val = date8_b val.
Proof.
  rewrite is_valid_date_unfold.
  change (str_eqb (l "D8") (l "D8")) with true. change (str_eqb (l "D8") (l "D6")) with false.
  cbn [andb]. rewrite rec_DT_char. unfold date8_b.
  destruct val as [|c1 [|c2 [|c3 [|c4 [|c5 [|c6 [|c7 [|c8 [|c9 rest]]]]]]]]];
    len_compute; try reflexivity.
  destruct (all_digits [c1; c2; c3; c4; c5; c6; c7; c8]) eqn:AD; cbn [negb andb]; [|reflexivity].
  cbv zeta. slice_compute. rewrite date_chain_ok, andb_true_r. reflexivity.
Qed.

Lemma date_model_D6 val : is_valid_date (l "D6") val = date6_b val.
Proof.
  rewrite is_valid_date_unfold.
  change (str_eqb (l "D6") (l "D8")) with false. change (str_eqb (l "D6") (l "D6")) with true.
  cbn [andb]. rewrite rec_DT_char. unfold date6_b.
  destruct val as [|c1 [|c2 [|c3 [|c4 [|c5 [|c6 [|c7 rest]]]]]]];
    len_compute; try reflexivity.
  destruct (all_digits [c1; c2; c3; c4; c5; c6]) eqn:AD; cbn [negb andb]; [|reflexivity].
  exact (date6_model c1 c2 c3 c4 c5 c6 AD).
Qed.

(* ---------- RD8 ---------- *)
Lemma split_aux_spec c s cur :
  split_aux c s cur =
  match split1 c s with
  | Some (a, b) => (rev cur ++ a) :: split_aux c b []
  | None => [rev cur ++ s]
  end.
Proof.
  revert cur; induction s as [|x s IH]; intros cur; cbn [split_aux split1].
  - rewrite app_nil_r. reflexivity.
  - destruct (Ascii.eqb x c).
    + rewrite app_nil_r. reflexivity.
    + rewrite IH. cbn [rev]. destruct (split1 c s) as [[a b]|]; rewrite <- app_assoc; reflexivity.
Qed.

Lemma count_split1_none c s : split1 c s = None -> count_char c s = 0.
Proof.
  unfold count_char. induction s as [|x s IH]; cbn [split1 filter]; [reflexivity|].
  rewrite (Ascii.eqb_sym c x). destruct (Ascii.eqb x c); [discriminate|].
  destruct (split1 c s) as [[a b]|]; [discriminate|]. intros _. apply IH. reflexivity.
Qed.

Lemma count_split1_some c s a b : split1 c s = Some (a, b) -> count_char c s = S (count_char c b).
Proof.
  unfold count_char. revert a; induction s as [|x s IH]; intros a; cbn [split1 filter]; [discriminate|].
  rewrite (Ascii.eqb_sym c x). destruct (Ascii.eqb x c).
  - intros H. injection H as _ <-. reflexivity.
  - destruct (split1 c s) as [[a' b']|]; [|discriminate]. intros H. injection H as _ <-. apply (IH a'). reflexivity.
Qed.

Lemma count_zero_all_digits_false s : 0 < count_char "-"%char s -> all_digits s = false.
Proof.
  unfold count_char, all_digits. induction s as [|x s IH]; cbn [filter forallb length]; [lia|].
  destruct (Ascii.eqb "-"%char x) eqn:E.
  - apply Ascii.eqb_eq in E. subst x. reflexivity.
  - intros H. rewrite (IH H). apply andb_false_r.
Qed.

Lemma RD8_model str_val :
  (if count_char "-"%char str_val =? 1 then
     match split "-"%char str_val with
     | [a; b] => Ok (is_d8 a && is_d8 b)
     | _ => Raise ValueError
     end
   else Ok false) = Ok (RD8_b str_val).
Proof.
  unfold RD8_b, split. rewrite split_aux_spec. cbn [rev app].
  destruct (split1 "-"%char str_val) as [[a b]|] eqn:E.
  - rewrite (count_split1_some _ _ _ _ E). rewrite split_aux_spec. cbn [rev app].
    destruct (split1 "-"%char b) as [[a2 b2]|] eqn:E2.
    + rewrite (count_split1_some _ _ _ _ E2). cbn [Nat.eqb].
      assert (F : date8_b b = false).
      { unfold date8_b. rewrite (count_zero_all_digits_false b).
        - rewrite andb_false_r. reflexivity.
        - rewrite (count_split1_some _ _ _ _ E2). lia. }
      rewrite F, andb_false_r. reflexivity.
    + rewrite (count_split1_none _ _ E2). cbn [Nat.eqb]. unfold is_d8. rewrite !date_model_D8. reflexivity.
  - rewrite (count_split1_none _ _ E). reflexivity.
Qed.

(* ---------- the dispatcher ---------- *)
Theorem model_decides s ty charset icvn :
  charset = l "B" \/ charset = l "E" ->
  IsValidDataType s ty charset icvn = Ok (in_language_b ty charset icvn s).
Proof.
  intros Hcs. unfold IsValidDataType, in_language_b. destruct ty as [|c0 ty']; [reflexivity|].
  change cs with l.
  destruct (Ascii.eqb c0 "N"%char); [rewrite rec_N_char, LN_same; reflexivity|].
  destruct (str_eqb (c0 :: ty') (l "R")); [rewrite rec_R_char, LR_same; reflexivity|].
  destruct (str_eqb (c0 :: ty') (l "ID") || str_eqb (c0 :: ty') (l "AN")).
  { rewrite (ID_model s charset icvn Hcs). cbn [bind]. rewrite negb_involutive. reflexivity. }
  destruct (str_eqb (c0 :: ty') (l "RD8")); [apply RD8_model|].
  destruct (str_eqb (c0 :: ty') (l "DT")) eqn:EDT.
  { apply str_eqb_eq in EDT. rewrite EDT. cbn [orb]. rewrite date_model_DT. reflexivity. }
  destruct (str_eqb (c0 :: ty') (l "D8")) eqn:ED8.
  { apply str_eqb_eq in ED8. rewrite ED8. cbn [orb]. rewrite date_model_D8. reflexivity. }
  destruct (str_eqb (c0 :: ty') (l "D6")) eqn:ED6.
  { apply str_eqb_eq in ED6. rewrite ED6. cbn [orb]. rewrite date_model_D6. reflexivity. }
  cbn [orb].
  destruct (str_eqb (c0 :: ty') (l "TM")); [rewrite time_model; reflexivity|].
  destruct (str_eqb (c0 :: ty') (l "B")); reflexivity.
Qed.

Theorem model_language s ty charset icvn :
  charset = l "B" \/ charset = l "E" ->
  exists b, IsValidDataType s ty charset icvn = Ok b /\ (b = true <-> In_language ty charset icvn s).
Proof.
  intros H. exists (in_language_b ty charset icvn s). split; [apply model_decides; assumption|].
  apply in_language_b_iff.
Qed.

Theorem model_never_raises s ty charset icvn :
  charset = l "B" \/ charset = l "E" ->
  exists b, IsValidDataType s ty charset icvn = Ok b.
Proof. intros H. eexists. apply model_decides; assumption. Qed.

(* ---------- per-type corollaries (statements used in Props/C13.v) ---------- *)
Definition decides (ty charset icvn : str) (L : str -> Prop) : Prop :=
  forall s, exists b, IsValidDataType s ty charset icvn = Ok b /\ (b = true <-> L s).

Definition charset_ok (charset : str) : Prop := charset = l "B" \/ charset = l "E".

Lemma lang_N ty' charset icvn : charset_ok charset -> decides ("N"%char :: ty') charset icvn L_N.
Proof. intros H s. exact (model_language s ("N"%char :: ty') charset icvn H). Qed.
Lemma lang_R charset icvn : charset_ok charset -> decides (l "R") charset icvn L_R.
Proof. intros H s. exact (model_language s (l "R") charset icvn H). Qed.
Lemma lang_ID charset icvn : charset_ok charset -> decides (l "ID") charset icvn (L_ID charset icvn).
Proof. intros H s. exact (model_language s (l "ID") charset icvn H). Qed.
Lemma lang_AN charset icvn : charset_ok charset -> decides (l "AN") charset icvn (L_ID charset icvn).
Proof. intros H s. exact (model_language s (l "AN") charset icvn H). Qed.
Lemma lang_DT charset icvn : charset_ok charset -> decides (l "DT") charset icvn L_DT.
Proof. intros H s. exact (model_language s (l "DT") charset icvn H). Qed.
Lemma lang_D8 charset icvn : charset_ok charset -> decides (l "D8") charset icvn date8.
Proof. intros H s. exact (model_language s (l "D8") charset icvn H). Qed.
Lemma lang_D6 charset icvn : charset_ok charset -> decides (l "D6") charset icvn date6.
Proof. intros H s. exact (model_language s (l "D6") charset icvn H). Qed.
Lemma lang_RD8 charset icvn : charset_ok charset -> decides (l "RD8") charset icvn L_RD8.
Proof. intros H s. exact (model_language s (l "RD8") charset icvn H). Qed.
Lemma lang_TM charset icvn : charset_ok charset -> decides (l "TM") charset icvn L_TM.
Proof. intros H s. exact (model_language s (l "TM") charset icvn H). Qed.

(* non-vacuity: the languages are inhabited and the recognisers say yes/no on concrete values *)
Example ex_N : IsValidDataType (l "-0123") (l "N2") (l "B") (l "00401") = Ok true /\ L_N (l "-0123").
Proof. split; [vm_compute; reflexivity | apply LN_dec_iff; vm_compute; reflexivity]. Qed.
Example ex_R_no : IsValidDataType (l "-") (l "R") (l "E") (l "00501") = Ok false /\ ~ L_R (l "-").
Proof. split; [vm_compute; reflexivity | intros H; apply LR_dec_iff in H; vm_compute in H; discriminate]. Qed.
Example ex_leap : date8 (l "20000229") /\ ~ date8 (l "19000229") /\ date8 (l "20240229").
Proof.
  repeat split; try (apply date8_iff; vm_compute; reflexivity).
  intros H; apply date8_iff in H; vm_compute in H; discriminate.
Qed.
