(* C06_reread.v — the bridge from the envelope recount of the acknowledgement (Spec/C06_spec.v) to the reader
   (Props/C04.v) and to the TEXT read back through the tokeniser and the reader (Props/C01.v, Props/C12.v).

   Part 1.  envelope_ok segs  ==>  a document tree of Spec/C04_spec.v that is well formed and consistent, for
            every delimiter triple; the reader, run over segs, reports no envelope error.  (The TA1 the
            acknowledgement may carry between GE and IEA has no place in the C04 tree: it is handled directly,
            and a proved counterexample shows the tree does not exist for it.)
   Part 2.  The text concat (map line_997 segs) / concat (map line_999 segs), tokenised and read: the segments
            come back in the parser's canonical form and no envelope error is reported.
   Part 3.  The two visitors.  Part 4. Counterexamples and a worked example. *)
From Coq Require Import String Lia.
From PX.Lib Require Import Base PyStr PyInt.
From PX.Gen Require Import SrcConsts.
From PX.Model Require Import Show Path Segment Raw Reader Writer Errh Ack997 Ack999.
From PX.Spec Require Import C01_spec C04_spec C06_spec C12_spec.
From PX.Proofs Require C11_writer.
From PX.Proofs Require Import C01_raw C01_roundtrip C04_reader C12_lemmas C06_lemmas C06_ack997 C06_ack999 C06_ack.

Local Notation l := list_ascii_of_string.
Local Notation LF := (ascii_of_nat 10).

(* ================================================================== *)
(* Part 0: numbers                                                     *)
(* ================================================================== *)
Lemma py_int_dec n : py_int (dec n) = Some (Z.of_nat n).
Proof. rewrite <- fmt_Z_nat. apply C11_writer.py_int_fmt_Z. lia. Qed.

Lemma dec_val_zeros k s : dec_val (repeat "0"%char k ++ s) = dec_val s.
Proof.
  unfold dec_val. rewrite fold_left_app. f_equal.
  induction k as [|k IH]; [reflexivity|]. cbn [repeat fold_left]. exact IH.
Qed.

Lemma dec_val_dec n : dec_val (dec n) = N.of_nat n.
Proof.
  rewrite dec_fmt_d. destruct (C11_writer.fmt_d_spec (N.of_nat n)) as (ds & -> & _ & _ & V). exact V.
Qed.

Lemma py_int_dec4 n : py_int (dec4 n) = Some (Z.of_nat n).
Proof.
  destruct (dec4_digits n) as [A NE]. rewrite (C11_writer.py_int_digits _ A NE). unfold dec4. fold (dec n).
  rewrite dec_val_zeros, dec_val_dec. f_equal. lia.
Qed.

Lemma dec4_inj n m : dec4 n = dec4 m -> n = m.
Proof.
  intros E. pose proof (py_int_dec4 n) as A. rewrite E, py_int_dec4 in A. injection A as A. lia.
Qed.

Lemma count_is_dec n : count_is (Some (dec n)) n = true.
Proof. unfold count_is. rewrite py_int_dec. apply Z.eqb_refl. Qed.

(* ================================================================== *)
(* Part 1a: reading envelope_ok backwards into the sets it counted     *)
(* ================================================================== *)
Lemma has_sid_id s id : has_sid s id = has_id s id.
Proof. unfold has_sid, has_id, opt_eqb. destruct (sid s); reflexivity. Qed.

Lemma is_env_envelope s : is_env s = is_envelope s.
Proof.
  unfold is_env, is_envelope, has_sid, envelope_ids. destruct (sid s) as [x|]; [|reflexivity].
  cbn [existsb opt_eqb mem_str]. reflexivity.
Qed.

(* a closed set numbered n, as the recount of C06_spec sees it *)
Definition set_c (n : nat) (t : tset) : Prop :=
  exists se, t_se t = Some se /\ one_set n (t_st t) (t_body t) se.

Inductive sets_c : nat -> list tset -> Prop :=
| sets_c_nil n : sets_c n []
| sets_c_cons n t ts : set_c n t -> sets_c (S n) ts -> sets_c n (t :: ts).

Lemma take_body_body xs : forall body r, take_body xs = (body, r) -> Forall body_seg body.
Proof.
  induction xs as [|s xs IH]; intros body r H; cbn [take_body] in H.
  - injection H as <- <-. constructor.
  - destruct (is_env s) eqn:E; [injection H as <- <-; constructor|].
    destruct (take_body xs) as [b r'] eqn:T. injection H as <- <-. constructor; [exact E|]. eapply IH. reflexivity.
Qed.

Lemma sets_ok_inv : forall fuel n xs m rest, sets_ok fuel n xs = Some (m, rest) ->
  exists ts, xs = flat_map flatten_set ts ++ rest /\ sets_c n ts /\ m = n + length ts.
Proof.
  induction fuel as [|f IH]; intros n xs m rest H; cbn [sets_ok] in H; [discriminate|].
  destruct xs as [|st r].
  { injection H as <- <-. exists []. split; [reflexivity|]. split; [constructor|cbn [length]; lia]. }
  destruct (has_sid st "ST") eqn:ST.
  2:{ injection H as <- <-. exists []. split; [reflexivity|]. split; [constructor|cbn [length]; lia]. }
  destruct (take_body r) as [body r2] eqn:T. pose proof (take_body_body _ _ _ T) as B. apply take_body_split in T.
  destruct r2 as [|se r3]; [discriminate|].
  destruct (_ && _) eqn:C in H; [|discriminate]. rewrite !andb_true_iff in C. destruct C as (((C1 & C2) & C3) & C4).
  apply IH in H as (ts & -> & S & ->).
  exists ({| t_st := st; t_body := body; t_se := Some se |} :: ts). split; [|split].
  - cbn [flat_map]. unfold flatten_set at 1. cbn [t_st t_body t_se opt_list app]. rewrite T, <- !app_assoc. reflexivity.
  - constructor; [|exact S]. exists se. split; [reflexivity|]. cbn [t_st t_body]. repeat split; assumption.
  - cbn [length]. lia.
Qed.

(* the shape envelope_ok checks, spelled out *)
Record env_c (isa gs : seg) (ts : list tset) (ge : seg) (mid : list seg) (iea : seg) : Prop := {
  ec_isa : has_sid isa "ISA" = true; ec_16 : length (els isa) = 16; ec_gs : has_sid gs "GS" = true;
  ec_sets : sets_c 1 ts;
  ec_ge : has_sid ge "GE" = true; ec_ge1 : elc_is ge 1 (dec (length ts)) = true; ec_ge2 : elc_same ge 2 gs 6 = true;
  ec_mid : mid = [] \/ exists ta1, has_sid ta1 "TA1" = true /\ mid = [ta1];
  ec_iea : iea_ok isa iea = true }.

Definition env_flat (isa gs : seg) (ts : list tset) (ge : seg) (mid : list seg) (iea : seg) : list seg :=
  isa :: gs :: flat_map flatten_set ts ++ ge :: mid ++ [iea].

Lemma envelope_shape xs : envelope_ok xs = true ->
  exists isa gs ts ge mid iea, xs = env_flat isa gs ts ge mid iea /\ env_c isa gs ts ge mid iea.
Proof.
  unfold envelope_ok. destruct xs as [|isa [|gs r]]; try discriminate.
  destruct (sets_ok _ 1 r) as [[next [|ge r2]]|] eqn:S; rewrite ?andb_false_r; try discriminate.
  apply sets_ok_inv in S as (ts & -> & SC & ->). rewrite !andb_true_iff.
  intros (((I1 & I2) & G1) & ((G2 & G3) & G4) & T). apply Nat.eqb_eq in I2.
  replace (1 + length ts - 1) with (length ts) in G3 by lia.
  destruct r2 as [|a [|b [|c r3]]]; try discriminate.
  - exists isa, gs, ts, ge, [], a. split; [reflexivity|]. constructor; auto.
  - apply andb_true_iff in T as [T1 T2]. exists isa, gs, ts, ge, [a], b. split; [reflexivity|].
    constructor; auto. right. exists a. auto.
Qed.

(* ================================================================== *)
(* Part 1b: what the reader needs, in terms of the values it reads     *)
(* ================================================================== *)
Definition nonenv (s : seg) : bool := negb (is_envelope s).

Definition set_rd (dl : delims) (n : nat) (t : tset) : Prop :=
  exists se, t_se t = Some se /\ has_id (t_st t) "ST" = true /\ forallb nonenv (t_body t) = true /\
    has_id se "SE" = true /\
    el dl (t_st t) 2 = Some (dec4 n) /\ el dl se 2 = Some (dec4 n) /\ el dl se 1 = Some (dec (length (t_body t) + 2)).

Inductive sets_rd (dl : delims) : nat -> list tset -> Prop :=
| sets_rd_nil n : sets_rd dl n []
| sets_rd_cons n t ts : set_rd dl n t -> sets_rd dl (S n) ts -> sets_rd dl n (t :: ts).

Record env_rd (dl : delims) (isa gs : seg) (ts : list tset) (ge : seg) (mid : list seg) (iea : seg) : Prop := {
  er_isa : has_id isa "ISA" = true; er_16 : length (els isa) = 16; er_gs : has_id gs "GS" = true;
  er_sets : sets_rd dl 1 ts;
  er_ge : has_id ge "GE" = true; er_ge1 : el dl ge 1 = Some (dec (length ts)); er_ge2 : el dl ge 2 = el dl gs 6;
  er_mid : forallb nonenv mid = true;
  er_iea : has_id iea "IEA" = true; er_iea1 : el dl iea 1 = Some (dec 1); er_iea2 : el dl iea 2 = el dl isa 13 }.

Definition the_group (gs : seg) (ts : list tset) (ge : seg) : group := {| g_gs := gs; g_sets := ts; g_ge := Some ge |}.
Definition the_doc (isa gs : seg) (ts : list tset) (ge iea : seg) : doc :=
  [{| i_isa := isa; i_groups := [the_group gs ts ge]; i_iea := Some iea |}].

Lemma opt_str_eqb_refl o : opt_str_eqb o o = true.
Proof. destruct o; cbn; [apply str_eqb_refl|reflexivity]. Qed.

Lemma sets_rd_wf dl ts : forall n, sets_rd dl n ts -> forallb wf_set ts = true /\ forallb set_closed ts = true.
Proof.
  induction ts as [|t ts IH]; intros n H; [split; reflexivity|]. inversion H as [|? ? ? (se & E & A & B & C & _) HS]; subst.
  destruct (IH _ HS) as [W Cl]. cbn [forallb]. rewrite W, Cl. unfold wf_set, set_closed. rewrite E, A, C. fold nonenv. rewrite B.
  split; reflexivity.
Qed.

Lemma recount_sets_rd dl ts : forall n earlier, sets_rd dl n ts ->
  (forall v, In v earlier -> exists k, v = Some (dec4 k) /\ k < n) ->
  Forall (fun es => es = []) (recount_sets dl earlier ts).
Proof.
  induction ts as [|t ts IH]; intros n earlier H E; cbn [recount_sets]; [constructor|].
  inversion H as [|? ? ? (se & Ese & A & B & C & E1 & E2 & E3) HS]; subst.
  apply Forall_app. split.
  - unfold recount_set. rewrite Ese, E1, E2, E3.
    assert (Dp : dup (Some (dec4 n)) earlier = false).
    { unfold dup. destruct (existsb _ earlier) eqn:X; [|reflexivity]. apply existsb_exists in X as (v & Hv & X).
      destruct (E v Hv) as (k & -> & Lk). cbn [opt_str_eqb] in X. apply str_eqb_eq, dec4_inj in X. lia. }
    rewrite Dp, opt_str_eqb_refl. replace (2 + length (t_body t)) with (length (t_body t) + 2) by lia.
    rewrite count_is_dec. cbn [app]. constructor; [reflexivity|]. apply Forall_app. split.
    + apply Forall_forall. intros x Hx. apply in_map_iff in Hx as (? & <- & _). reflexivity.
    + constructor; [reflexivity|constructor].
  - apply (IH (S n)); [exact HS|]. intros v Hv. apply in_app_or in Hv as [Hv|[<-|[]]].
    + destruct (E v Hv) as (k & -> & Lk). exists k. split; [reflexivity|lia].
    + exists n. split; [exact E1|lia].
Qed.

Section Silent.
Variables (dl : delims) (isa gs : seg) (ts : list tset) (ge : seg) (mid : list seg) (iea : seg).
Hypothesis R : env_rd dl isa gs ts ge mid iea.

Lemma group_wf : wf_group (the_group gs ts ge) = true /\ group_closed (the_group gs ts ge) = true.
Proof.
  destruct (sets_rd_wf dl ts 1 (er_sets _ _ _ _ _ _ _ R)) as [W Cl].
  unfold wf_group, group_closed, the_group. cbn [g_gs g_sets g_ge]. rewrite (er_gs _ _ _ _ _ _ _ R), (er_ge _ _ _ _ _ _ _ R), W, Cl.
  split; reflexivity.
Qed.

Lemma group_silent : Forall (fun es => es = []) (recount_group dl [] (the_group gs ts ge)).
Proof.
  unfold recount_group, the_group. cbn [g_gs g_sets g_ge dup existsb app].
  constructor; [reflexivity|]. apply Forall_app. split.
  - apply (recount_sets_rd dl ts 1 []); [exact (er_sets _ _ _ _ _ _ _ R)|intros v []].
  - rewrite (er_ge2 _ _ _ _ _ _ _ R), opt_str_eqb_refl, (er_ge1 _ _ _ _ _ _ _ R), count_is_dec. constructor; [reflexivity|constructor].
Qed.

(* the run: ISA, the group, whatever non-envelope segments sit before the IEA, the IEA *)
Theorem env_rd_silent lx :
  exists out xf,
    run_steps dl (fresh lx) (env_flat isa gs ts ge mid iea) = Ok (out, xf) /\
    Forall (fun es => env_codes es = []) out /\ loops xf = [].
Proof.
  destruct group_wf as [Wg Cg].
  assert (W16 : (length (els isa) =? 16) = true) by (rewrite (er_16 _ _ _ _ _ _ _ R); reflexivity).
  destruct (reader_ISA dl (fresh lx) isa (er_isa _ _ _ _ _ _ _ R) W16) as (x1 & e1 & H1 & E1 & F1).
  cbn [loops fresh app isa_ids mem_oid existsb] in H1, E1.
  destruct F1 as (L1 & G1 & S1 & C1 & I1 & GI1 & SI1). cbn [loops fresh] in L1.
  assert (P1 : top_kind_is (loops x1) "ISA" = true) by (rewrite L1; reflexivity).
  assert (Wgs : forallb wf_group [the_group gs ts ge] = true) by (cbn [forallb]; rewrite Wg; reflexivity).
  assert (CB : closed_but_last group_closed group_open_ok [the_group gs ts ge] = true)
    by (cbn [closed_but_last]; rewrite Cg; reflexivity).
  destruct (groups_run dl _ Wgs CB x1 P1) as (o2 & x2 & H2 & E2 & GI2 & G2 & L2 & I2).
  rewrite GI1 in E2. cbn [recount_groups] in E2. rewrite app_nil_r in E2.
  rewrite (last_or_nil (open_group dl)) in L2
    by (intros a [<-|[]]; apply group_closed_open; exact Cg).
  cbn [app] in L2. rewrite L1 in L2. rewrite G1 in G2. cbn [length Z.of_nat] in G2.
  cbn [flat_map] in H2. rewrite app_nil_r in H2.
  destruct (run_body dl mid (er_mid _ _ _ _ _ _ _ R) x2) as (o3 & x3 & H3 & E3 & F3).
  destruct F3 as (L3 & G3 & _). rewrite L2 in L3. rewrite G2 in G3.
  destruct (reader_IEA dl x3 iea (er_iea _ _ _ _ _ _ _ R)) as (x4 & e0 & E0 & F4 & H4).
  rewrite L3, G3 in H4. change (str_eqb (cs "ISA") (cs "ISA")) with true in H4. cbv beta iota in H4.
  change ev with el in H4. rewrite (er_iea2 _ _ _ _ _ _ _ R), (er_iea1 _ _ _ _ _ _ _ R) in H4.
  change (oid_eqb ?a ?a) with (opt_eqb str_eqb a a) in H4.
  assert (OE : forall o, oid_eqb o o = true) by (intros [v|]; cbn; [apply str_eqb_refl|reflexivity]).
  rewrite OE in H4. unfold int_opt in H4. rewrite py_int_dec in H4. cbn [optZ_eqb Z.of_nat Pos.of_succ_nat Z.add Z.eqb Pos.eqb app] in H4.
  rewrite app_nil_r in H4.
  eexists; eexists; split; [|split].
  - unfold env_flat. eapply run_steps_cons; [exact H1|].
    replace (gs :: flat_map flatten_set ts ++ ge :: mid ++ [iea])
      with (flatten_group (the_group gs ts ge) ++ mid ++ [iea])
      by (unfold flatten_group, the_group; cbn [g_gs g_sets g_ge opt_list app]; rewrite <- app_assoc; reflexivity).
    eapply run_steps_app; [exact H2|]. eapply run_steps_app; [exact H3|].
    cbn [run_steps]. rewrite H4. reflexivity.
  - constructor; [cbn [app]; exact E1|]. apply Forall_app. split.
    + pose proof group_silent as GS. rewrite <- E2 in GS. rewrite Forall_map in GS. exact GS.
    + apply Forall_app. split.
      * assert (X : Forall (fun es => es = []) (map env_codes o3)).
        { rewrite E3. apply Forall_forall. intros x Hx. apply in_map_iff in Hx as (? & <- & _). reflexivity. }
        rewrite Forall_map in X. exact X.
      * constructor; [exact E0|constructor].
  - reflexivity.
Qed.
End Silent.

(* ================================================================== *)
(* Part 1c: the recount of C06 gives the reader what it needs          *)
(* ================================================================== *)
Lemma el_nth dl s k c : nth_error (els s) k = Some c -> el dl s (S k) = Some (format_comp (subele_term dl) c).
Proof.
  intros H. unfold el. assert (L : k < length (els s)) by (apply nth_error_Some; congruence).
  apply Nat.leb_gt in L. rewrite L. rewrite (nth_error_nth _ _ _ H). reflexivity.
Qed.

Lemma format_comp_single sub v : format_comp sub [v] = v.
Proof. reflexivity. Qed.

Lemma el_elc_is dl s k v : elc_is s (S k) v = true -> el dl s (S k) = Some v.
Proof. intros H. apply elc_is_E in H. rewrite (el_nth dl s k [v] H). reflexivity. Qed.

Lemma elc_same_E a i b j : elc_same a (S i) b (S j) = true ->
  exists c, nth_error (els a) i = Some c /\ nth_error (els b) j = Some c.
Proof.
  unfold elc_same, elc. destruct (nth_error (els a) i) as [x|]; [|discriminate].
  destruct (nth_error (els b) j) as [y|]; [|discriminate]. intros H. apply comp_eqb_eq in H. subst y. eauto.
Qed.

Lemma el_elc_same dl a i b j : elc_same a (S i) b (S j) = true -> el dl a (S i) = el dl b (S j).
Proof. intros H. apply elc_same_E in H as (c & A & B). rewrite (el_nth dl a i c A), (el_nth dl b j c B). reflexivity. Qed.

Lemma body_nonenv body : Forall body_seg body -> forallb nonenv body = true.
Proof.
  intros H. apply forallb_forall. intros s Hs. rewrite Forall_forall in H. specialize (H s Hs).
  unfold body_seg in H. unfold nonenv. rewrite <- is_env_envelope, H. reflexivity.
Qed.

Lemma sets_c_rd dl ts : forall n, sets_c n ts -> sets_rd dl n ts.
Proof.
  induction ts as [|t ts IH]; intros n H; [constructor|].
  inversion H as [|? ? ? (se & E & O1 & O2 & O3 & O4 & O5 & O6) HS]; subst. constructor; [|apply IH; exact HS].
  exists se. rewrite <- !has_sid_id. repeat split; auto using body_nonenv, el_elc_is.
Qed.

Lemma ta1_nonenv s : has_sid s "TA1" = true -> nonenv s = true.
Proof. intros H. apply has_sid_E in H. unfold nonenv, is_envelope. rewrite H. reflexivity. Qed.

Lemma env_c_rd dl isa gs ts ge mid iea : env_c isa gs ts ge mid iea -> env_rd dl isa gs ts ge mid iea.
Proof.
  intros [I1 I2 G1 SC G2 G3 G4 M IE]. unfold iea_ok in IE. rewrite !andb_true_iff in IE. destruct IE as [[IE1 IE2] IE3].
  constructor; rewrite <- ?has_sid_id; auto using sets_c_rd, el_elc_is, el_elc_same.
  destruct M as [->|(ta1 & T & ->)]; [reflexivity|]. cbn [forallb]. rewrite (ta1_nonenv _ T). reflexivity.
Qed.

(* the tree of Spec/C04_spec.v — it exists when nothing sits between GE and IEA *)
Lemma env_rd_doc dl isa gs ts ge iea : env_rd dl isa gs ts ge [] iea ->
  wf_doc (the_doc isa gs ts ge iea) = true /\ flatten (the_doc isa gs ts ge iea) = env_flat isa gs ts ge [] iea /\
  consistent dl (the_doc isa gs ts ge iea).
Proof.
  intros R. destruct (group_wf dl isa gs ts ge [] iea R) as [Wg Cg]. split; [|split].
  - unfold wf_doc, the_doc. cbn [forallb closed_but_last]. unfold wf_inter, inter_closed. cbn [i_isa i_groups i_iea forallb].
    rewrite (er_isa _ _ _ _ _ _ _ R), (er_16 _ _ _ _ _ _ _ R), Wg, Cg, (er_iea _ _ _ _ _ _ _ R). reflexivity.
  - unfold flatten, the_doc, env_flat. cbn [flat_map]. rewrite app_nil_r. unfold flatten_inter. cbn [i_isa i_groups i_iea flat_map opt_list].
    rewrite app_nil_r. unfold flatten_group, the_group. cbn [g_gs g_sets g_ge opt_list app]. rewrite <- app_assoc. reflexivity.
  - split; [|reflexivity]. unfold the_doc. cbn [recount]. rewrite app_nil_r. unfold recount_inter.
    cbn [i_isa i_groups i_iea dup existsb app recount_groups length]. rewrite app_nil_r.
    constructor; [reflexivity|]. apply Forall_app. split; [exact (group_silent dl isa gs ts ge [] iea R)|].
    rewrite (er_iea2 _ _ _ _ _ _ _ R), opt_str_eqb_refl, (er_iea1 _ _ _ _ _ _ _ R), count_is_dec.
    constructor; [reflexivity|constructor].
Qed.

(* nothing between GE and IEA: the last but one segment is the GE *)
Definition no_ta1 (segs : list seg) : bool :=
  match rev segs with _ :: p :: _ => has_sid p "GE" | _ => false end.

(* STEP 1.  The recount of Spec/C06_spec.v implies the tree of Spec/C04_spec.v, well formed and consistent for
   every delimiter triple — no further hypothesis on control numbers or counts is needed; only the optional TA1
   (which the C04 tree cannot hold) has to be absent. *)
Theorem envelope_ok_consistent_doc dl segs :
  envelope_ok segs = true -> no_ta1 segs = true ->
  exists d, wf_doc d = true /\ flatten d = segs /\ consistent dl d.
Proof.
  intros H N. apply envelope_shape in H as (isa & gs & ts & ge & mid & iea & -> & C).
  assert (M : mid = []).
  { destruct (ec_mid _ _ _ _ _ _ C) as [M|(ta1 & T & ->)]; [exact M|]. exfalso.
    unfold no_ta1, env_flat in N.
    replace (isa :: gs :: flat_map flatten_set ts ++ ge :: [ta1] ++ [iea])
      with ((isa :: gs :: flat_map flatten_set ts ++ [ge]) ++ [ta1; iea]) in N
      by (cbn [app]; rewrite <- app_assoc; reflexivity).
    rewrite rev_app_distr in N. cbn [rev app] in N.
    apply (has_sid_diff _ _ "GE") in T; [congruence|reflexivity]. }
  subst mid. apply (env_c_rd dl) in C. exists (the_doc isa gs ts ge iea).
  destruct (env_rd_doc dl _ _ _ _ _ C) as (W & F & K). auto.
Qed.

(* with or without the TA1: the reader reports no envelope error over the segments, and closes every loop *)
Theorem envelope_ok_reader_silent dl lx segs :
  envelope_ok segs = true ->
  exists out xf, run_steps dl (fresh lx) segs = Ok (out, xf) /\
    Forall (fun es => env_codes es = []) out /\ env_codes (cleanup xf) = [].
Proof.
  intros H. apply envelope_shape in H as (isa & gs & ts & ge & mid & iea & -> & C).
  apply (env_c_rd dl) in C. destruct (env_rd_silent dl _ _ _ _ _ _ C lx) as (out & xf & H & S & L).
  exists out, xf. split; [exact H|]. split; [exact S|]. unfold cleanup. rewrite L. reflexivity.
Qed.

(* ------------------------------------------------------------------ *)
(* the TA1 has no place in the C04 tree                                *)
(* ------------------------------------------------------------------ *)
(* in the flattening of a well-formed tree, what follows a GE is an envelope segment *)
Definition hd_env (xs : list seg) : bool := match xs with [] => true | x :: _ => is_envelope x end.
Fixpoint after_ge_ok (xs : list seg) : bool :=
  match xs with
  | [] => true
  | x :: r => (if has_id x "GE" then hd_env r else true) && after_ge_ok r
  end.

Lemma ago_app xs ys : after_ge_ok xs = true -> after_ge_ok ys = true -> hd_env ys = true -> after_ge_ok (xs ++ ys) = true.
Proof.
  intros A B H. induction xs as [|x r IH]; [exact B|]. cbn [app after_ge_ok] in *. apply andb_true_iff in A as [A1 A2].
  rewrite (IH A2), andb_true_r. destruct (has_id x "GE"); [|reflexivity]. destruct r; [exact H|exact A1].
Qed.

Lemma ago_cons x ys : has_id x "GE" = false -> after_ge_ok ys = true -> after_ge_ok (x :: ys) = true.
Proof. intros N A. cbn [after_ge_ok]. rewrite N, A. reflexivity. Qed.

Lemma ago_body xs ys : forallb nonenv xs = true -> after_ge_ok ys = true -> after_ge_ok (xs ++ ys) = true.
Proof.
  intros N A. induction xs as [|x r IH]; [exact A|]. cbn [forallb] in N. apply andb_true_iff in N as [N1 N2].
  cbn [app]. apply ago_cons; [|apply IH; exact N2].
  destruct (has_id x "GE") eqn:G; [|reflexivity]. apply (has_id_env x "GE") in G; [|reflexivity].
  unfold nonenv in N1. rewrite G in N1. discriminate.
Qed.

Lemma ago_flat_map {A} (f : A -> list seg) xs :
  (forall x, In x xs -> after_ge_ok (f x) = true /\ hd_env (f x) = true /\ f x <> []) ->
  after_ge_ok (flat_map f xs) = true /\ hd_env (flat_map f xs) = true.
Proof.
  induction xs as [|x r IH]; intros H; [split; reflexivity|]. cbn [flat_map].
  destruct (H x (or_introl eq_refl)) as (A1 & B1 & N). destruct IH as [IA IB]; [intros y Hy; apply H; right; exact Hy|].
  split; [apply ago_app; assumption|]. destruct (f x); [congruence|exact B1].
Qed.

Lemma id_not_ge s a : has_id s a = true -> str_eqb (C04_spec.cs a) (C04_spec.cs "GE") = false -> has_id s "GE" = false.
Proof. apply has_id_excl. Qed.

Lemma opt_list_ok (o : option seg) a : match o with Some s => has_id s a = true | None => True end ->
  mem_str (C04_spec.cs a) envelope_ids = true -> after_ge_ok (opt_list o) = true /\ hd_env (opt_list o) = true.
Proof.
  destruct o as [s|]; intros H M; [|split; reflexivity]. cbn [opt_list after_ge_ok hd_env].
  rewrite (has_id_env s a H M). destruct (has_id s "GE"); split; reflexivity.
Qed.

Lemma wf_doc_after_ge d : wf_doc d = true -> after_ge_ok (flatten d) = true.
Proof.
  unfold wf_doc. intros W. apply andb_true_iff in W as [W _]. rewrite forallb_forall in W.
  apply ago_flat_map. intros i Hi. specialize (W i Hi). unfold wf_inter in W.
  rewrite !andb_true_iff in W. destruct W as [[[W1 _] W2] W3]. rewrite forallb_forall in W2.
  unfold flatten_inter. split; [|split; [apply (has_id_env _ "ISA"); [exact W1|reflexivity]|discriminate]].
  apply ago_cons; [apply (id_not_ge _ "ISA"); [exact W1|reflexivity]|].
  destruct (opt_list_ok (i_iea i) "IEA") as [O1 O2]; [destruct (i_iea i); auto|reflexivity|].
  apply ago_app; [|exact O1|exact O2].
  apply ago_flat_map. intros g Hg. specialize (W2 g Hg). unfold wf_group in W2.
  rewrite !andb_true_iff in W2. destruct W2 as [[V1 V2] V3]. rewrite forallb_forall in V2.
  unfold flatten_group. split; [|split; [apply (has_id_env _ "GS"); [exact V1|reflexivity]|discriminate]].
  apply ago_cons; [apply (id_not_ge _ "GS"); [exact V1|reflexivity]|].
  destruct (opt_list_ok (g_ge g) "GE") as [P1 P2]; [destruct (g_ge g); auto|reflexivity|].
  apply ago_app; [|exact P1|exact P2].
  apply ago_flat_map. intros t Ht. specialize (V2 t Ht). unfold wf_set in V2.
  rewrite !andb_true_iff in V2. destruct V2 as [[U1 U2] U3].
  unfold flatten_set. split; [|split; [apply (has_id_env _ "ST"); [exact U1|reflexivity]|discriminate]].
  apply ago_cons; [apply (id_not_ge _ "ST"); [exact U1|reflexivity]|].
  apply ago_body; [exact U2|]. apply (opt_list_ok (t_se t) "SE"); [destruct (t_se t); auto|reflexivity].
Qed.

Lemma ago_ge_body pre ge x post : has_id ge "GE" = true -> is_envelope x = false ->
  after_ge_ok (pre ++ ge :: x :: post) = false.
Proof.
  intros G E. induction pre as [|p r IH]; cbn [app after_ge_ok].
  - rewrite G. cbn [hd_env]. rewrite E. reflexivity.
  - rewrite IH. apply andb_false_r.
Qed.

(* the hypothesis no_ta1 of envelope_ok_consistent_doc is exactly what is missing: with a TA1 no tree exists *)
Theorem envelope_ok_ta1_no_doc segs :
  envelope_ok segs = true -> no_ta1 segs = false -> forall d, wf_doc d = true -> flatten d <> segs.
Proof.
  intros H N d W F. apply envelope_shape in H as (isa & gs & ts & ge & mid & iea & -> & C).
  pose proof (ec_ge _ _ _ _ _ _ C) as G. destruct (ec_mid _ _ _ _ _ _ C) as [->|(ta1 & T & ->)].
  - unfold no_ta1, env_flat in N.
    replace (isa :: gs :: flat_map flatten_set ts ++ ge :: [] ++ [iea])
      with ((isa :: gs :: flat_map flatten_set ts) ++ [ge; iea]) in N by (cbn [app]; reflexivity).
    rewrite rev_app_distr in N. cbn [rev app] in N. congruence.
  - apply wf_doc_after_ge in W. rewrite F in W. unfold env_flat in W.
    change (isa :: gs :: flat_map flatten_set ts ++ ge :: [ta1] ++ [iea])
      with ((isa :: gs :: flat_map flatten_set ts) ++ ge :: ta1 :: [iea]) in W.
    rewrite ago_ge_body in W; [discriminate|rewrite <- has_sid_id; exact G|].
    apply ta1_nonenv in T. unfold nonenv in T. apply negb_true_iff in T. exact T.
Qed.

(* ================================================================== *)
(* Part 2a: the segments as the parser returns them (P = parse o format) *)
(* ================================================================== *)
Lemma P_parse d s : distinct_delims d = true -> clean_seg d s = true -> parse_seg d (format_seg d s) = P s.
Proof. intros Hd Hc. apply clean_iff in Hc. exact (parse_format d s Hd Hc). Qed.

Lemma P_has_id s a : has_id (P s) a = has_id s a. Proof. reflexivity. Qed.
Lemma P_envelope s : is_envelope (P s) = is_envelope s. Proof. reflexivity. Qed.

Lemma format_comp_trim sub c : format_comp sub (trim_comp c) = format_comp sub c.
Proof.
  change (join sub (keep ele_empty (keep ele_empty c)) = join sub (keep ele_empty c)). rewrite keep_idem. reflexivity.
Qed.

Lemma nth_keep {A} (emp : A -> bool) xs k c : nth_error xs k = Some c -> emp c = false -> nth_error (keep emp xs) k = Some c.
Proof.
  intros H E. unfold keep. rewrite nth_firstn_lt; [exact H|].
  destruct (Nat.ltb (last_nonempty_idx emp xs) k) eqn:L; [|apply Nat.ltb_ge in L; lia].
  apply Nat.ltb_lt in L. rewrite (after_idx_empty emp xs k c L H) in E. discriminate.
Qed.

Lemma rt_els_eq xs : xs <> [] -> rt_els xs = map trim_comp (keep comp_empty xs).
Proof. destruct xs; [congruence|reflexivity]. Qed.

(* a non-empty element is read back with the same value *)
Lemma el_P s k c : nth_error (els s) k = Some c -> comp_empty c = false ->
  el D (P s) (S k) = Some (format_comp ":"%char c).
Proof.
  intros H E. assert (N : nth_error (els (P s)) k = Some (trim_comp c)).
  { unfold P. cbn [els]. rewrite rt_els_eq by (intros Z; rewrite Z in H; destruct k; discriminate).
    apply map_nth_error. apply nth_keep; assumption. }
  rewrite (el_nth D _ _ _ N). cbn [subele_term D]. rewrite format_comp_trim. reflexivity.
Qed.

Lemma el_P_is s k v : elc_is s (S k) v = true -> v <> [] -> el D (P s) (S k) = Some v.
Proof.
  intros H N. apply elc_is_E in H. rewrite (el_P s k [v] H); [reflexivity|]. destruct v; [congruence|reflexivity].
Qed.

Definition Pt (t : tset) : tset :=
  {| t_st := P (t_st t); t_body := map P (t_body t); t_se := option_map P (t_se t) |}.

Lemma flatten_Pt t : flatten_set (Pt t) = map P (flatten_set t).
Proof.
  unfold flatten_set, Pt. cbn [t_st t_body t_se map]. rewrite map_app. f_equal. f_equal. destruct (t_se t); reflexivity.
Qed.

Lemma flat_Pt ts : flat_map flatten_set (map Pt ts) = map P (flat_map flatten_set ts).
Proof. induction ts as [|t r IH]; [reflexivity|]. cbn [map flat_map]. rewrite map_app, flatten_Pt, IH. reflexivity. Qed.

Lemma nonenv_P xs : forallb nonenv xs = true -> forallb nonenv (map P xs) = true.
Proof. intros H. rewrite forallb_map'. exact H. Qed.

Lemma sets_c_rd_P ts : forall n, sets_c n ts -> sets_rd D n (map Pt ts).
Proof.
  induction ts as [|t ts IH]; intros n H; [constructor|].
  inversion H as [|? ? ? (se & E & O1 & O2 & O3 & O4 & O5 & O6) HS]; subst. cbn [map]. constructor; [|apply IH; exact HS].
  exists (P se). unfold Pt. cbn [t_st t_body t_se]. rewrite E, !P_has_id, <- !has_sid_id, map_length.
  destruct (dec4_digits n) as [_ N4]. destruct (dec_digits (length (t_body t) + 2)) as [_ N2].
  repeat split; auto using el_P_is. apply nonenv_P, body_nonenv, O2.
Qed.

(* ------------------------------------------------------------------ *)
(* the interchange header as it is read back: ISA with the 15 printed fields and ISA16 = ":" *)
(* ------------------------------------------------------------------ *)
Lemma isa_for_facts f : length f = 15 ->
  has_id (isa_for D f) "ISA" = true /\ length (els (isa_for D f)) = 16 /\ el D (isa_for D f) 13 = Some (nth 12 f []).
Proof.
  intros L. do 15 (destruct f as [|? f]; [discriminate L|]). destruct f; [|discriminate L]. repeat split; reflexivity.
Qed.

Lemma isa_fields_13 f : isa_fields_ok f = true -> nth 12 f [] <> [].
Proof.
  intros H. unfold isa_fields_ok in H. rewrite !andb_true_iff in H. destruct H as [[L W] _]. apply Nat.eqb_eq in L.
  do 15 (destruct f as [|? f]; [discriminate L|]). destruct f; [|discriminate L].
  cbn [combine isa_widths forallb fst snd] in W. rewrite !andb_true_iff in W.
  repeat match goal with H : _ /\ _ |- _ => destruct H end. cbn [nth].
  match goal with H : (length ?s =? 9) = true |- ?s <> [] => apply Nat.eqb_eq in H; intros ->; discriminate H end.
Qed.

(* gs06_filled: the group control number echoed in GS06 is not empty (an empty GS06 prints as nothing, so the GE
   written as "GE*n" is read back without a second element while the GS keeps an empty sixth one) *)
Definition filled (s : seg) (i : nat) : bool :=
  match elc s i with Some c => negb (comp_empty c) | None => false end.

Lemma env_c_rd_P isa gs ts ge mid iea f :
  env_c isa gs ts ge mid iea -> isa_fields_ok f = true -> filled gs 6 = true ->
  (forall c, nth_error (els isa) 12 = Some c -> nth 12 f [] = format_comp ":"%char c) ->
  env_rd D (isa_for D f) (P gs) (map Pt ts) (P ge) (map P mid) (P iea).
Proof.
  intros [I1 I2 G1 SC G2 G3 G4 M IE] F G6 F13. unfold iea_ok in IE. rewrite !andb_true_iff in IE. destruct IE as [[IE1 IE2] IE3].
  destruct (isa_for_facts f (isa_fields_len f F)) as (A1 & A2 & A3).
  apply elc_same_E in G4 as (c6 & C6a & C6b). apply elc_same_E in IE3 as (c13 & C13a & C13b).
  unfold filled, elc in G6. rewrite C6b in G6. apply negb_true_iff in G6.
  assert (N13 : comp_empty c13 = false).
  { apply C11_writer.format_comp_nonempty with (sub := ":"%char). rewrite <- (F13 c13 C13b). apply isa_fields_13, F. }
  constructor; rewrite ?P_has_id, <- ?has_sid_id; auto using sets_c_rd_P.
  - rewrite map_length. apply el_P_is; [exact G3|apply dec_digits].
  - rewrite (el_P ge 1 c6 C6a G6), (el_P gs 5 c6 C6b G6). reflexivity.
  - apply nonenv_P. destruct M as [->|(ta1 & T & ->)]; [reflexivity|]. cbn [forallb]. rewrite (ta1_nonenv _ T). reflexivity.
  - apply el_P_is; [exact IE2|apply dec_digits].
  - rewrite (el_P iea 1 c13 C13a N13), A3, (F13 c13 C13b). reflexivity.
Qed.

(* ================================================================== *)
(* Part 2b: the raw lines through the reader = the parsed segments through reader_step *)
(* ================================================================== *)
Lemma seg1_env x s : env_codes (seg1_err x s) = [].
Proof. unfold seg1_err. destruct (forallb comp_empty (els s)); reflexivity. Qed.

Lemma read_lines_steps d : distinct_delims d = true -> forall segs x errs xf,
  forallb (clean_seg d) segs = true -> forallb id_starts_plain segs = true ->
  run_steps d x (map P segs) = Ok (errs, xf) ->
  exists out, read_lines d x [] (map (seg_body d) segs) = (out, Ok (xf, [])) /\
    map fst out = map P segs /\ Forall2 (fun p es => env_codes (snd p) = env_codes es) out errs.
Proof.
  intros Hd. induction segs as [|s segs IH]; intros x errs xf Hc Hp H.
  - cbn [map run_steps] in H. injection H as <- <-. exists []. cbn [map read_lines]. repeat split. constructor.
  - cbn [forallb] in Hc, Hp. apply andb_true_iff in Hc as [Hc1 Hc2]. apply andb_true_iff in Hp as [Hp1 Hp2].
    cbn [map run_steps] in H. destruct (reader_step d x (P s)) as [[x' es]|e] eqn:R; [|discriminate].
    destruct (run_steps d x' (map P segs)) as [[o2 xf']|e] eqn:R2; [|discriminate]. injection H as <- <-.
    destruct (IH x' o2 xf' Hc2 Hp2 R2) as (out & RL & F & E).
    exists ((P s, [] ++ (seg1_err x s ++ es)) :: out). cbn [map read_lines].
    rewrite (reader_line_opt_body d x s Hd Hc1 Hp1), R, RL. split; [reflexivity|]. split; [cbn [fst]; rewrite F; reflexivity|].
    constructor; [|exact E]. cbn [snd app]. rewrite env_codes_app, seg1_env. reflexivity.
Qed.

(* ================================================================== *)
(* Part 2c: the text                                                   *)
(* ================================================================== *)
Lemma D_distinct : distinct_delims D = true. Proof. reflexivity. Qed.
Lemma D_not_break : delims_not_break D = true. Proof. reflexivity. Qed.
Lemma LF_break : is_break [LF] = true. Proof. reflexivity. Qed.

(* the segments after the ISA: none of them is an ISA *)
Lemma not_isa_of s a : has_sid s a = true -> str_eqb (l a) (l "ISA") = false -> has_sid s "ISA" = false.
Proof. apply has_sid_diff. Qed.

Lemma nonenv_not_isa s : body_seg s -> has_sid s "ISA" = false.
Proof.
  unfold body_seg, is_env. cbn [existsb]. intros H. apply orb_false_iff in H as [H _]. exact H.
Qed.

Lemma sets_c_no_isa ts : forall n, sets_c n ts -> forallb (fun s => negb (has_sid s "ISA")) (flat_map flatten_set ts) = true.
Proof.
  induction ts as [|t ts IH]; intros n H; [reflexivity|].
  inversion H as [|? ? ? (se & E & O1 & O2 & O3 & _) HS]; subst. cbn [flat_map]. rewrite forallb_app, (IH _ HS), andb_true_r.
  unfold flatten_set. rewrite E. cbn [forallb opt_list]. rewrite forallb_app. cbn [forallb].
  rewrite (not_isa_of _ "ST" O1), (not_isa_of _ "SE" O3) by reflexivity. cbn [negb andb]. rewrite andb_true_r.
  apply forallb_forall. intros s Hs. rewrite Forall_forall in O2. rewrite (nonenv_not_isa s (O2 s Hs)). reflexivity.
Qed.

Lemma env_c_no_isa isa gs ts ge mid iea : env_c isa gs ts ge mid iea ->
  forallb (fun s => negb (has_sid s "ISA")) (gs :: flat_map flatten_set ts ++ ge :: mid ++ [iea]) = true.
Proof.
  intros [I1 I2 G1 SC G2 G3 G4 M IE]. unfold iea_ok in IE. rewrite !andb_true_iff in IE. destruct IE as [[IE1 _] _].
  cbn [forallb]. rewrite (not_isa_of _ "GS" G1) by reflexivity. rewrite forallb_app, (sets_c_no_isa ts 1 SC).
  cbn [forallb negb andb]. rewrite (not_isa_of _ "GE" G2) by reflexivity. rewrite forallb_app. cbn [forallb negb andb].
  rewrite (not_isa_of _ "IEA" IE1) by reflexivity. rewrite andb_true_r.
  destruct M as [->|(ta1 & T & ->)]; [reflexivity|]. cbn [forallb]. rewrite (not_isa_of _ "TA1" T) by reflexivity. reflexivity.
Qed.

Section Text.
(* the line a visitor writes for a segment *)
Variable line : seg -> str.
Hypothesis line_plain : forall s, has_sid s "ISA" = false -> line s = format_seg D s ++ [LF].

Lemma lines_encode rest : forallb (fun s => negb (has_sid s "ISA")) rest = true ->
  concat (map line rest) = encode D [LF] rest.
Proof.
  induction rest as [|s r IH]; intros H; [reflexivity|]. cbn [forallb] in H. apply andb_true_iff in H as [H1 H2].
  apply negb_true_iff in H1. unfold encode in *. cbn [map concat]. rewrite (line_plain s H1), (IH H2). reflexivity.
Qed.

(* STEP 2, for any writer of lines.  isa :: rest passes the recount; the ISA line is the fixed-width header made of
   the fields f; the other segments are clean for ~ * : and GS06 is not empty.  Then the text, tokenised under any
   read schedule and read, gives back the segments in the parser's canonical form, the version, no error at the end
   of input and NO envelope error anywhere. *)
Theorem reread_silent isa rest f lx sch :
  envelope_ok (isa :: rest) = true ->
  line isa = format_seg D (isa_for D f) ++ [LF] ->
  isa_fields_ok f = true -> clean_seg D (isa_for D f) = true ->
  (forall c, nth_error (els isa) 12 = Some c -> nth 12 f [] = format_comp ":"%char c) ->
  forallb (clean_seg D) rest = true -> forallb id_starts_plain rest = true ->
  match rest with gs :: _ => filled gs 6 | [] => false end = true ->
  exists out,
    reading lx (concat (map line (isa :: rest))) sch = Ok (nth 11 f [], out, Ok []) /\
    map fst out = {| sid := Some (l "ISA"); els := map (fun v => [v]) f |} ::
                  map (fun s => parse_seg D (format_seg D s)) rest /\
    Forall (fun p => env_codes (snd p) = []) out.
Proof.
  intros EO LI F CI F13 CR PR G6.
  apply envelope_shape in EO as (isa0 & gs & ts & ge & mid & iea & EQ & C).
  unfold env_flat in EQ. injection EQ as <- ->. cbn beta iota in G6.
  pose proof (env_c_no_isa _ _ _ _ _ _ C) as NI.
  set (rest := gs :: flat_map flatten_set ts ++ ge :: mid ++ [iea]) in *.
  assert (TXT : concat (map line (isa :: rest)) = encode D [LF] (isa_for D f :: rest)).
  { cbn [map concat]. rewrite LI, (lines_encode rest NI). unfold encode. cbn [map concat]. reflexivity. }
  rewrite TXT, (reading_encode D [LF] f rest lx sch D_distinct D_not_break LF_break F CI CR PR).
  pose proof (env_c_rd_P _ _ _ _ _ _ f C F G6 F13) as RD.
  destruct (env_rd_silent D _ _ _ _ _ _ RD lx) as (errs & xf & RS & SI & LP).
  assert (MP : env_flat (isa_for D f) (P gs) (map Pt ts) (P ge) (map P mid) (P iea) = map P (isa_for D f :: rest)).
  { unfold env_flat, rest. cbn [map]. rewrite isa_P, flat_Pt, map_app. cbn [map]. rewrite map_app. reflexivity. }
  rewrite MP in RS.
  assert (CA : forallb (clean_seg D) (isa_for D f :: rest) = true) by (cbn [forallb]; rewrite CI, CR; reflexivity).
  assert (PA : forallb id_starts_plain (isa_for D f :: rest) = true) by (cbn [forallb]; rewrite PR; reflexivity).
  destruct (read_lines_steps D D_distinct _ _ _ _ CA PA RS) as (out & RL & FS & EV).
  unfold run. change (x0 lx) with (fresh lx). rewrite RL. cbn [fst snd fin_of].
  unfold cleanup. rewrite LP. cbn [rev flat_map app].
  exists (masked out). split; [reflexivity|]. split.
  - unfold masked. rewrite map_map. cbn [fst]. rewrite <- map_map, FS. cbn [map]. rewrite isa_P, (mask_isa D f (isa_fields_len f F)).
    f_equal. rewrite map_map. apply map_ext_in. intros s Hs.
    rewrite forallb_forall in NI. specialize (NI s Hs). apply negb_true_iff in NI.
    unfold mask_isa16. cbn [P sid]. change (opt_eqb str_eqb (sid s) (Some (C12_spec.l "ISA"))) with (has_sid s "ISA"). rewrite NI.
    symmetry. apply P_parse; [reflexivity|]. rewrite forallb_forall in CR. auto.
  - unfold masked. rewrite Forall_map. cbn [snd].
    clear - EV SI. induction EV as [|p es out errs E _ IH]; [constructor|]. inversion SI; subst. constructor; [congruence|auto].
Qed.
End Text.

(* ================================================================== *)
(* Part 3: the two visitors                                            *)
(* ================================================================== *)
Lemma format_isa_for f :
  format_seg D (isa_for D f) = l "ISA" ++ "*"%char :: join "*"%char (f ++ [[":"%char]]) ++ ["~"%char].
Proof.
  unfold format_seg, isa_for. cbn [sid els show_sid seg_term ele_term subele_term D].
  change (firstn (S (last_nonempty_idx comp_empty ?x)) ?x) with (keep comp_empty x).
  rewrite keep_snoc by reflexivity. rewrite map_app, map_map. cbn [map].
  rewrite (map_ext _ (fun v => v)) by (intros v; reflexivity). rewrite map_id. reflexivity.
Qed.

(* ---- the 997: its ISA is printed without the (empty) sixteenth element, then "*:~" is put in place of "~" ---- *)
Definition isa_fields_997 (isa : seg) : list str := map (format_comp ":"%char) (keep comp_empty (els isa)).

Lemma line_997_plain s : has_sid s "ISA" = false -> line_997 s = format_seg D s ++ [LF].
Proof.
  intros H. unfold line_997. change (opt_eqb str_eqb (sid s) (Some (l "ISA"))) with (has_sid s "ISA"). rewrite H. reflexivity.
Qed.

Lemma line_997_isa isa : has_sid isa "ISA" = true -> els isa <> [] ->
  line_997 isa = format_seg D (isa_for D (isa_fields_997 isa)) ++ [LF].
Proof.
  intros H N. unfold line_997. pose proof H as HS. apply has_sid_E in HS.
  change (opt_eqb str_eqb (sid isa) (Some (l "ISA"))) with (has_sid isa "ISA"). rewrite H.
  rewrite format_isa_for. f_equal. rewrite format_seg_T, HS. cbn [show_sid].
  change (l "ISA" ++ "*"%char :: Tof isa ++ ["~"%char]) with ((l "ISA" ++ "*"%char :: Tof isa) ++ ["~"%char]) at 1.
  unfold but_last. rewrite removelast_last. cbn [ele_term subele_term seg_term D].
  unfold isa_fields_997. rewrite join_snoc.
  - unfold Tof. change (firstn (S (last_nonempty_idx comp_empty ?x)) ?x) with (keep comp_empty x).
    cbn [app]. rewrite <- !app_assoc. reflexivity.
  - intros E. apply map_eq_nil in E. revert E. apply keep_nonnil. exact N.
Qed.

Lemma isa_fields_997_13 isa c : isa_fields_ok (isa_fields_997 isa) = true -> nth_error (els isa) 12 = Some c ->
  nth 12 (isa_fields_997 isa) [] = format_comp ":"%char c.
Proof.
  intros F H. apply isa_fields_len in F. unfold isa_fields_997 in *. rewrite map_length in F.
  apply nth_error_nth. apply map_nth_error. unfold keep in *. rewrite firstn_length in F.
  rewrite nth_firstn_lt by lia. exact H.
Qed.

Definition text_ok_997 (segs : list seg) : bool :=
  match segs with
  | isa :: rest =>
      isa_fields_ok (isa_fields_997 isa) && clean_seg D (isa_for D (isa_fields_997 isa)) &&
      forallb (clean_seg D) rest && forallb id_starts_plain rest &&
      match rest with gs :: _ => filled gs 6 | [] => false end
  | [] => false
  end.

(* what comes back *)
Definition reread_997 (segs : list seg) : list seg :=
  match segs with
  | isa :: rest => {| sid := Some (l "ISA"); els := map (fun v => [v]) (isa_fields_997 isa) |} ::
                   map (fun s => parse_seg D (format_seg D s)) rest
  | [] => []
  end.
Definition version_997 (segs : list seg) : str :=
  match segs with isa :: _ => nth 11 (isa_fields_997 isa) [] | [] => [] end.

Theorem ack997_text_silent segs lx sch :
  envelope_ok segs = true -> text_ok_997 segs = true ->
  exists out,
    reading lx (concat (map line_997 segs)) sch = Ok (version_997 segs, out, Ok []) /\
    map fst out = reread_997 segs /\ Forall (fun p => env_codes (snd p) = []) out.
Proof.
  intros EO T. destruct segs as [|isa rest]; [discriminate|]. unfold text_ok_997 in T. rewrite !andb_true_iff in T.
  destruct T as ((((F & CI) & CR) & PR) & G6).
  assert (I : has_sid isa "ISA" = true /\ length (els isa) = 16).
  { apply envelope_shape in EO as (isa0 & gs & ts & ge & mid & iea & EQ & C). injection EQ as -> _. split; apply C. }
  destruct I as [I1 I2].
  apply (reread_silent line_997 line_997_plain isa rest (isa_fields_997 isa) lx sch); auto.
  - apply line_997_isa; [exact I1|]. intros E. rewrite E in I2. discriminate.
  - intros c Hc. apply isa_fields_997_13; assumption.
Qed.

(* ---- the 999: the writer sets ISA16 to ":" and prints the segment as it is ---- *)
Definition isa_fields_999 (isa : seg) : list str := map (format_comp ":"%char) (firstn 15 (els isa)).
Definition isa16_colon (isa : seg) : bool := str_eqb (format_comp ":"%char (nth 15 (els isa) [])) [":"%char].

Lemma line_999_plain s : has_sid s "ISA" = false -> line_999 s = format_seg D s ++ [LF].
Proof. reflexivity. Qed.

Lemma line_999_isa isa : has_sid isa "ISA" = true -> length (els isa) = 16 -> isa16_colon isa = true ->
  line_999 isa = format_seg D (isa_for D (isa_fields_999 isa)) ++ [LF].
Proof.
  intros H L C. unfold line_999, emit. cbn [wd w_eol w_init]. f_equal. apply has_sid_E in H.
  rewrite format_isa_for, format_seg_T, H. cbn [show_sid]. do 3 f_equal. unfold Tof, isa_fields_999.
  unfold isa16_colon in C. apply str_eqb_eq in C.
  destruct (els isa) as [|e1 r]; [discriminate L|]. do 15 (destruct r as [|? r]; [discriminate L|]). destruct r; [|discriminate L].
  cbn [nth] in C.
  match goal with |- context [last_nonempty_idx comp_empty ?x] =>
    change (firstn (S (last_nonempty_idx comp_empty x)) x) with (keep comp_empty x) end.
  match goal with |- context [keep comp_empty ?x] =>
    replace (keep comp_empty x) with x end.
  - cbn [firstn map app]. rewrite C. reflexivity.
  - match goal with |- ?a :: ?b :: ?c :: ?d :: ?e :: ?f :: ?g :: ?h :: ?i :: ?j :: ?k :: ?m :: ?n :: ?o :: ?p :: [?q] = _ =>
      change (a :: b :: c :: d :: e :: f :: g :: h :: i :: j :: k :: m :: n :: o :: p :: [q])
        with ([a; b; c; d; e; f; g; h; i; j; k; m; n; o; p] ++ [q]) end.
    symmetry. apply keep_snoc. apply C11_writer.format_comp_nonempty with (sub := ":"%char). rewrite C. discriminate.
Qed.

Lemma isa_fields_999_13 isa c : nth_error (els isa) 12 = Some c ->
  nth 12 (isa_fields_999 isa) [] = format_comp ":"%char c.
Proof.
  intros H. unfold isa_fields_999. apply nth_error_nth. apply map_nth_error. rewrite nth_firstn_lt by lia. exact H.
Qed.

Definition text_ok_999 (segs : list seg) : bool :=
  match segs with
  | isa :: rest =>
      isa16_colon isa &&
      isa_fields_ok (isa_fields_999 isa) && clean_seg D (isa_for D (isa_fields_999 isa)) &&
      forallb (clean_seg D) rest && forallb id_starts_plain rest &&
      match rest with gs :: _ => filled gs 6 | [] => false end
  | [] => false
  end.

Definition reread_999 (segs : list seg) : list seg :=
  match segs with
  | isa :: rest => {| sid := Some (l "ISA"); els := map (fun v => [v]) (isa_fields_999 isa) |} ::
                   map (fun s => parse_seg D (format_seg D s)) rest
  | [] => []
  end.
Definition version_999 (segs : list seg) : str :=
  match segs with isa :: _ => nth 11 (isa_fields_999 isa) [] | [] => [] end.

Theorem ack999_text_silent segs lx sch :
  envelope_ok segs = true -> text_ok_999 segs = true ->
  exists out,
    reading lx (concat (map line_999 segs)) sch = Ok (version_999 segs, out, Ok []) /\
    map fst out = reread_999 segs /\ Forall (fun p => env_codes (snd p) = []) out.
Proof.
  intros EO T. destruct segs as [|isa rest]; [discriminate|]. unfold text_ok_999 in T. rewrite !andb_true_iff in T.
  destruct T as (((((C16 & F) & CI) & CR) & PR) & G6).
  assert (I : has_sid isa "ISA" = true /\ length (els isa) = 16).
  { apply envelope_shape in EO as (isa0 & gs & ts & ge & mid & iea & EQ & C). injection EQ as -> _. split; apply C. }
  destruct I as [I1 I2].
  apply (reread_silent line_999 line_999_plain isa rest (isa_fields_999 isa) lx sch); auto.
  - apply line_999_isa; assumption.
  - intros c Hc. apply isa_fields_999_13; assumption.
Qed.

(* ---- composed with C06: what the visitors write ---- *)
Theorem ack997_reread ck h h' lines :
  clock_digits ck = true -> gs06_ok h = true ->
  render_997 ck h = (h', lines, None) ->
  exists segs, lines = map line_997 segs /\ envelope_ok segs = true /\
    (text_ok_997 segs = true -> forall lx sch, exists out,
       reading lx (concat lines) sch = Ok (version_997 segs, out, Ok []) /\
       map fst out = reread_997 segs /\ Forall (fun p => env_codes (snd p) = []) out).
Proof.
  intros CK GK H. destruct (ack997_envelope_real_clock ck h h' lines CK GK H) as (segs & -> & EO).
  exists segs. split; [reflexivity|]. split; [exact EO|]. intros T lx sch. apply ack997_text_silent; assumption.
Qed.

Theorem ack999_reread ck h h' lines :
  clock_digits ck = true ->
  render_999 ck h = (h', lines, None) ->
  exists segs, lines = map line_999 segs /\ envelope_ok segs = true /\
    (text_ok_999 segs = true -> forall lx sch, exists out,
       reading lx (concat lines) sch = Ok (version_999 segs, out, Ok []) /\
       map fst out = reread_999 segs /\ Forall (fun p => env_codes (snd p) = []) out).
Proof.
  intros CK H. destruct (ack999_envelope_real_clock ck h h' lines CK H) as (segs & -> & EO).
  exists segs. split; [reflexivity|]. split; [exact EO|]. intros T lx sch. apply ack999_text_silent; assumption.
Qed.

Print Assumptions envelope_ok_consistent_doc.
Print Assumptions envelope_ok_ta1_no_doc.
Print Assumptions envelope_ok_reader_silent.
Print Assumptions reread_silent.
Print Assumptions ack997_text_silent.
Print Assumptions ack999_text_silent.
Print Assumptions ack997_reread.
Print Assumptions ack999_reread.
