(* C05_forms.v — the AK3 / AK4 (IK3 / IK4) segments of Spec/C05_spec.v without the re-parse: Segment.set never
   raises there, and the code-list helpers never raise, so the defaults of the spec (`the_seg`, `okl`) are never
   used; the only defaults that matter are those for attributes that are None — and then the visitor raises. *)
From Coq Require Import String Lia.
From PX.Lib Require Import Base PyStr PyInt.
From PX.Model Require Import Show Path Segment Errh Ack997.
From PX.Spec Require Import C01_spec C06_spec C05_spec.
From PX.Proofs Require Import C01_roundtrip C11_writer C06_lemmas C06_ack997.
From PX.Proofs Require C06_ack999.

Local Notation l := list_ascii_of_string.

(* ------------------------------------------------------------------ *)
(* Segment.set(<id><nn>, value) on a segment with that id               *)
(* ------------------------------------------------------------------ *)
Lemma pad_to_len {A} (xs : list A) k b : k < length (pad_to xs (Z.of_nat k) b).
Proof. unfold pad_to. rewrite app_length, repeat_length. lia. Qed.

Lemma set_ix_elem s k x : opt_eqb str_eqb (sid s) (Some (l "ISA")) = false ->
  set_ix D s (Some (Z.of_nat k), None) x =
  Ok {| sid := sid s; els := set_nth (pad_to (els s) (Z.of_nat k) [[]]) k (split ":"%char x) |}.
Proof.
  intros NI. unfold set_ix. cbn [fst snd]. unl.
  match goal with |- context [opt_eqb str_eqb (sid s) ?y] => replace (opt_eqb str_eqb (sid s) y) with false by (symmetry; exact NI) end.
  cbn [andb]. unfold py_set.
  pose proof (pad_to_len (els s) k [[]]) as L.
  destruct (Z.of_nat k <? 0)%Z eqn:E0; [apply Z.ltb_lt in E0; lia|]. cbn [orb].
  replace (Z.of_nat (length (pad_to (els s) (Z.of_nat k) [[]])) <=? Z.of_nat k)%Z with false by (symmetry; apply Z.leb_gt; lia).
  cbn [bind subele_term D]. rewrite ?E0. cbn [orb bind]. rewrite Nat2Z.id. reflexivity.
Qed.

Lemma seg_set_known s rd id k x :
  sid s = Some id -> str_eqb id (l "ISA") = false ->
  parse_path rd = Ok {| relative := true; loop_list := []; seg_id := Some id; id_val := None;
                        ele_idx := Some (N.of_nat (S k)); subele_idx := None |} ->
  seg_set D s rd x = Ok {| sid := Some id; els := set_nth (pad_to (els s) (Z.of_nat k) [[]]) k (split ":"%char x) |}.
Proof.
  intros HS NI P. unfold seg_set, parse_refdes. rewrite P. cbn [bind seg_id ele_idx subele_idx option_map]. rewrite HS.
  cbn [opt_eqb]. rewrite str_eqb_refl. cbn [bind].
  replace (Z.of_N (N.of_nat (S k)) - 1)%Z with (Z.of_nat k) by lia.
  rewrite set_ix_elem; [rewrite HS; reflexivity|]. rewrite HS. cbn [opt_eqb]. exact NI.
Qed.

Lemma pp_AK304 : parse_path (l "AK304") = Ok {| relative := true; loop_list := []; seg_id := Some (l "AK3"); id_val := None; ele_idx := Some (N.of_nat 4); subele_idx := None |}.
Proof. vm_compute. reflexivity. Qed.
Lemma pp_AK403 : parse_path (l "AK403") = Ok {| relative := true; loop_list := []; seg_id := Some (l "AK4"); id_val := None; ele_idx := Some (N.of_nat 3); subele_idx := None |}.
Proof. vm_compute. reflexivity. Qed.
Lemma pp_AK404 : parse_path (l "AK404") = Ok {| relative := true; loop_list := []; seg_id := Some (l "AK4"); id_val := None; ele_idx := Some (N.of_nat 4); subele_idx := None |}.
Proof. vm_compute. reflexivity. Qed.

(* ------------------------------------------------------------------ *)
(* AK3 / AK4 without `the_seg`                                         *)
(* ------------------------------------------------------------------ *)
(* the first segment, as it is read back from its text *)
Definition ak3_reread (n : seg_node) : list composite := els (parse_seg D (format_seg D (ak3_base n))).
Definition ak4_reread (e : ele_node) : list composite := els (parse_seg D (format_seg D (ak4_base e))).

Theorem ak3_997_form n cde :
  ak3_997 n cde = {| sid := Some (l "AK3"); els := set_nth (pad_to (ak3_reread n) 3 [[]]) 3 (split ":"%char cde) |}.
Proof.
  unfold ak3_997. unl. change C05_spec.l with list_ascii_of_string.
  rewrite (seg_set_known _ _ (l "AK3") 3); [reflexivity| |reflexivity|exact pp_AK304].
  apply reparse_sid; [reflexivity|apply nostar; reflexivity].
Qed.

Theorem ak4_997_form e er :
  ak4_997 e er =
  let es := set_nth (pad_to (ak4_reread e) 2 [[]]) 2 (split ":"%char (fst (fst er))) in
  {| sid := Some (l "AK4");
     els := if truthy_s (snd er) then set_nth (pad_to es 3 [[]]) 3 (split ":"%char (val (snd er))) else es |}.
Proof.
  unfold ak4_997. unl. change C05_spec.l with list_ascii_of_string.
  rewrite (seg_set_known _ _ (l "AK4") 2); [| |reflexivity|exact pp_AK403].
  2:{ apply reparse_sid; [reflexivity|apply nostar; reflexivity]. }
  cbn [bind]. cbv zeta. destruct (truthy_s (snd er)); [|reflexivity].
  rewrite (seg_set_known _ _ (l "AK4") 3); [reflexivity|reflexivity|reflexivity|exact pp_AK404].
Qed.

(* ------------------------------------------------------------------ *)
(* the code lists never raise                                          *)
(* ------------------------------------------------------------------ *)
Lemma map_res_total {A B} (f : A -> result (list B)) xs : (forall x, exists y, f x = Ok y) -> exists ys, map_res f xs = Ok ys.
Proof.
  intros H. induction xs as [|x r (ys & IH)]; cbn [map_res]; [eauto|]. destruct (H x) as (y & ->). rewrite IH. cbn [bind]. eauto.
Qed.

Lemma dict_get_has d k : dict_has d k = true -> exists c, dict_get d k = Ok c.
Proof.
  unfold dict_has. induction d as [|[k' v] r IH]; cbn [existsb dict_get fst]; [discriminate|].
  destruct (k =? k')%Z; cbn [orb]; [eauto|exact IH].
Qed.

Lemma guarded_total d k (dflt : list str) :
  exists y, (if dict_has d k then do c <- dict_get d k; Ok [c] else Ok dflt) = Ok y.
Proof. destruct (dict_has d k) eqn:E; [|eauto]. destruct (dict_get_has d k E) as (c & ->). cbn [bind]. eauto. Qed.

Theorem get_st_errors_total h t : exists codes, get_st_errors h t = Ok codes.
Proof.
  unfold get_st_errors, element_codes.
  match goal with |- context [map_res ?f ?xs] => destruct (map_res_total f xs) as (ys & ->) end; [|cbn [bind]; eauto].
  intros e. apply map_res_total. intros er.
  destruct (contains _ _); [apply guarded_total|]. destruct (contains _ _); [apply guarded_total|eauto].
Qed.

Theorem get_gs_errors_total h g : exists codes, get_gs_errors h g = Ok codes.
Proof.
  unfold get_gs_errors, element_codes.
  match goal with |- context [map_res ?f ?xs] => destruct (map_res_total f xs) as (ys & ->) end; [|cbn [bind]; eauto].
  intros e. apply map_res_total. intros er.
  destruct (contains _ _); [apply guarded_total|]. destruct (contains _ _); [apply guarded_total|eauto].
Qed.

(* ------------------------------------------------------------------ *)
(* the AK3 line, when the segment id and the loop id contain no "~" and no "*" *)
(* ------------------------------------------------------------------ *)
Definition te_free (v : str) : Prop := ~ In "~"%char v /\ ~ In "*"%char v.

Lemma mkseg_clean id vals :
  l id <> [] -> freeP D (l id) -> str_eqb (l id) (l "ISA") = false -> Forall te_free vals -> cleanP D (mkseg id vals).
Proof.
  intros NE FR NI F. exists (l id). split; [reflexivity|]. split; [exact NE|]. split; [exact FR|].
  assert (P : forall c, In c (els (mkseg id vals)) -> exists x, In x vals /\ c = split ":"%char x).
  { intros c Hc. cbn [els mkseg] in Hc. apply in_map_iff in Hc as (x & <- & Hx). eauto. }
  split; [|split].
  - intros c Hc v Hv. destruct (P c Hc) as (x & Hx & ->). rewrite Forall_forall in F. destruct (F x Hx) as [F1 F2].
    split; intros I; [apply F1|apply F2]; eapply split_sub; eauto.
  - intros E. exfalso. change (cs "ISA") with (l "ISA") in E. rewrite E, str_eqb_refl in NI. discriminate.
  - intros _ c Hc. destruct (P c Hc) as (x & Hx & ->). split; [apply split_aux_nonnil|].
    intros v Hv. eapply split_In. exact Hv.
Qed.

Lemma fmt_Zi_nonnil z : fmt_Zi z <> [].
Proof.
  unfold fmt_Zi. destruct z; try discriminate; match goal with |- fmt_d ?n <> [] => destruct (fmt_d_spec n) as (ds & -> & _ & NE & _); exact NE end.
Qed.

Lemma comp_like_sym a b : comp_like a b -> comp_like b a.
Proof. intros [A B]. split; symmetry; assumption. Qed.

Lemma comp_like_empty a b : comp_empty a = true -> comp_empty b = true -> comp_like a b.
Proof. intros A B. split; [congruence|]. rewrite (fc_empty a A), (fc_empty b B). reflexivity. Qed.

Theorem ak3_line n cde id cnt :
  sn_seg_id n = Some id -> sn_seg_count n = Some cnt ->
  let ls := if truthy_s (sn_ls_id n) then val (sn_ls_id n) else [] in
  te_free id -> te_free ls ->
  line_997 (ak3_997 n cde) = line_997 (mkseg "AK3" [id; fmt_Zi cnt; ls; cde]).
Proof.
  intros EI EC ls FI FL. rewrite ak3_997_form. unfold line_997. cbn [sid mkseg opt_eqb str_eqb list_ascii_of_string Ascii.eqb Bool.eqb andb].
  f_equal. apply format_seg_like. cbn [map].
  assert (B : ak3_base n = mkseg "AK3" [id; fmt_Zi cnt; ls]).
  { unfold ak3_base. rewrite EI, EC. reflexivity. }
  assert (CL : cleanP D (mkseg "AK3" [id; fmt_Zi cnt; ls])).
  { apply mkseg_clean; [discriminate| |reflexivity|].
    - repeat split; intros I; cbn in I; repeat (destruct I as [I|I]; [discriminate I|]); exact I.
    - repeat constructor; try apply FI; try apply FL; apply C06_ack999.fmt_Zi_free. }
  unfold ak3_reread. rewrite B, (parse_format D _ eq_refl CL). cbn [els mkseg map rt_els sid].
  rewrite (split_free ":"%char (fmt_Zi cnt)) by apply C06_ack999.fmt_Zi_free.
  rewrite keep_cons. cbn [forallb comp_empty]. 
  assert (NZ : ele_empty (fmt_Zi cnt) = false) by (pose proof (fmt_Zi_nonnil cnt); destruct (fmt_Zi cnt); [congruence|reflexivity]).
  rewrite NZ. cbn [andb]. rewrite keep_cons. cbn [forallb]. rewrite andb_true_r.
  fold (comp_empty (split ":"%char ls)).
  destruct (comp_empty (split ":"%char ls)) eqn:EL; cbn [map].
  - cbv [pad_to]. cbn [length Z.of_nat Pos.of_succ_nat Pos.succ Z.add Z.sub Z.opp Z.pos_sub Pos.pred_double Z.to_nat Pos.to_nat Pos.iter_op Nat.add repeat app set_nth].
    repeat (apply Forall2_cons); try apply comp_like_sym, comp_like_trim; try apply comp_like_refl; [|constructor].
    apply comp_like_empty; [reflexivity|exact EL].
  - rewrite keep_cons. cbn [forallb map].
    cbv [pad_to]. cbn [length Z.of_nat Pos.of_succ_nat Pos.succ Z.add Z.sub Z.opp Z.pos_sub Pos.pred_double Z.to_nat Pos.to_nat Pos.iter_op Nat.add repeat app set_nth].
    repeat (apply Forall2_cons); try apply comp_like_sym, comp_like_trim; try apply comp_like_refl. constructor.
Qed.

(* ------------------------------------------------------------------ *)
(* the AK4 line, when the data element number contains no "~" and no "*" *)
(* ------------------------------------------------------------------ *)
Definition ak4_pos (e : ele_node) : str :=
  if truthy_Z (en_subpos e) then fmt_Zi (en_pos e) ++ l ":" ++ fmt_Zi (valZ (en_subpos e)) else fmt_Zi (en_pos e).

Lemma ak4_pos_free e : te_free (ak4_pos e).
Proof.
  unfold ak4_pos, te_free. destruct (C06_ack999.fmt_Zi_free (en_pos e)) as (A1 & A2 & _).
  destruct (C06_ack999.fmt_Zi_free (valZ (en_subpos e))) as (B1 & B2 & _).
  destruct (truthy_Z (en_subpos e)); [|auto].
  split; intros I; apply in_app_or in I as [I|I]; auto; cbn [app list_ascii_of_string] in I; destruct I as [I|I]; try discriminate; auto.
Qed.

Lemma ak4_pos_nonempty e : comp_empty (split ":"%char (ak4_pos e)) = false.
Proof.
  unfold ak4_pos. destruct (C06_ack999.fmt_Zi_free (en_pos e)) as (_ & _ & A3).
  assert (NZ : ele_empty (fmt_Zi (en_pos e)) = false) by (pose proof (fmt_Zi_nonnil (en_pos e)); destruct (fmt_Zi (en_pos e)); [congruence|reflexivity]).
  destruct (truthy_Z (en_subpos e)).
  - change (fmt_Zi (en_pos e) ++ l ":" ++ fmt_Zi (valZ (en_subpos e))) with (fmt_Zi (en_pos e) ++ ":"%char :: fmt_Zi (valZ (en_subpos e))).
    rewrite split_app by exact A3. cbn [comp_empty forallb]. rewrite NZ. reflexivity.
  - rewrite (split_free _ _ A3). cbn [comp_empty forallb]. rewrite NZ. reflexivity.
Qed.

Ltac pad_compute :=
  cbv [pad_to]; cbn [length Z.of_nat Pos.of_succ_nat Pos.succ Z.add Z.sub Z.opp Z.pos_sub Pos.pred_double Z.to_nat Pos.to_nat Pos.iter_op Nat.add repeat app set_nth].
Ltac like_all :=
  repeat (apply Forall2_cons); try apply comp_like_sym, comp_like_trim; try apply comp_like_refl; try constructor.

Theorem ak4_line e er :
  let ref := if truthy_s (en_ref_num e) then val (en_ref_num e) else [] in
  te_free ref ->
  line_997 (ak4_997 e er) =
  line_997 (mkseg "AK4" ([ak4_pos e; ref; fst (fst er)] ++ if truthy_s (snd er) then [val (snd er)] else [])).
Proof.
  intros ref FR. rewrite ak4_997_form. cbv zeta. unfold line_997.
  cbn [sid mkseg opt_eqb str_eqb list_ascii_of_string Ascii.eqb Bool.eqb andb].
  f_equal. apply format_seg_like.
  assert (B : ak4_base e = mkseg "AK4" (ak4_pos e :: if truthy_s (en_ref_num e) then [ref] else [])).
  { unfold ak4_base, ak4_pos, ref. destruct (truthy_s (en_ref_num e)); reflexivity. }
  assert (CL : cleanP D (mkseg "AK4" (ak4_pos e :: if truthy_s (en_ref_num e) then [ref] else []))).
  { apply mkseg_clean; [discriminate| |reflexivity|].
    - repeat split; intros I; cbn in I; repeat (destruct I as [I|I]; [discriminate I|]); exact I.
    - constructor; [apply ak4_pos_free|]. destruct (truthy_s (en_ref_num e)); repeat constructor; apply FR. }
  unfold ak4_reread. rewrite B, (parse_format D _ eq_refl CL). cbn [els mkseg map rt_els sid].
  pose proof (ak4_pos_nonempty e) as NP.
  subst ref. destruct (truthy_s (en_ref_num e)) eqn:TR; cbn [map app].
  - rewrite keep_cons. cbn [forallb]. rewrite andb_true_r.
    destruct (comp_empty (split ":"%char (val (en_ref_num e)))) eqn:ER; cbn [map].
    + destruct (truthy_s (snd er)); cbn [map app]; pad_compute; like_all; apply comp_like_empty; try reflexivity; exact ER.
    + rewrite keep_cons. cbn [forallb map]. destruct (truthy_s (snd er)); cbn [map app]; pad_compute; like_all.
  - rewrite keep_cons. cbn [forallb map].
    destruct (truthy_s (snd er)); cbn [map app]; pad_compute; like_all; apply comp_like_empty; reflexivity.
Qed.

Print Assumptions ak3_997_form.
Print Assumptions ak4_997_form.
Print Assumptions get_st_errors_total.
Print Assumptions get_gs_errors_total.
Print Assumptions ak3_line.
Print Assumptions ak4_line.
