(* C07_first_ev.v — the first call segment validation makes on the error handler is add_ele, when
   the segment has no more elements than the node has children and the node's first child is a
   simple element (the ISA of the control maps: its 16 elements). *)
From Coq Require Import String.
From PX.Lib Require Import Base PyStr PyInt Regex Xml.
From PX.Model Require Import Path Segment Syntax Validation MapLoad MapTree Element.
From PX.Spec Require Import C07_valid_wf.
From PX.Proofs Require Import C07_valid.

Lemma elem_main_pre c e pre v fs b evs :
  elem_main c e pre v fs = Ok (b, evs) -> exists rest, evs = pre ++ rest.
Proof.
  intros H. unfold elem_main in H. cbv zeta in H.
  destruct (MapTree.usage_is (e_usage e) "N" && _).
  { injection H as <- <-. eauto. }
  apply bind_ok in H as (de & _ & H). apply bind_ok in H as (numeric & _ & H).
  destruct (contains_control_character v).
  { injection H as <- <-. eauto. }
  apply bind_ok in H as (lastc & _ & H). apply bind_ok in H as (code_ok & _ & H).
  apply bind_ok in H as (type_ok & _ & H). apply bind_ok in H as (tl & _ & H).
  injection H as <- <-. eauto.
Qed.

Lemma elem_first sub c e pc d fs b evs :
  elem_is_valid sub c e pc d fs = Ok (b, evs) -> exists rest, evs = elem_pre e pc ++ rest.
Proof.
  assert (M : forall v, elem_is_valid sub c e pc d fs = elem_main c e (elem_pre e pc) v fs ->
                        elem_is_valid sub c e pc d fs = Ok (b, evs) -> exists rest, evs = elem_pre e pc ++ rest).
  { intros v E H. rewrite E in H. eapply elem_main_pre; eauto. }
  unfold elem_is_valid in *.
  destruct d as [[|v [|w r]]|]; cbn [ed_value] in *.
  - destruct (MapTree.usage_is (e_usage e) "N" || MapTree.usage_is (e_usage e) "S").
    { intros H. injection H as <- <-. exists []. rewrite app_nil_r. reflexivity. }
    destruct (MapTree.usage_is (e_usage e) "R").
    { intros H; injection H as <- <-; eexists; reflexivity. }
    apply (M []). reflexivity.
  - destruct v as [|a x].
    + destruct (MapTree.usage_is (e_usage e) "N" || MapTree.usage_is (e_usage e) "S").
      { intros H. injection H as <- <-. exists []. rewrite app_nil_r. reflexivity. }
      destruct (MapTree.usage_is (e_usage e) "R").
      { intros H; injection H as <- <-; eexists; reflexivity. }
      apply (M []). reflexivity.
    + apply (M (a :: x)). reflexivity.
  - intros H. injection H as <- <-. eexists; reflexivity.
  - destruct (MapTree.usage_is (e_usage e) "N" || MapTree.usage_is (e_usage e) "S").
    { intros H. injection H as <- <-. exists []. rewrite app_nil_r. reflexivity. }
    destruct (MapTree.usage_is (e_usage e) "R").
    { intros H; injection H as <- <-; eexists; reflexivity. }
    discriminate.
Qed.

Lemma seg_missing_acc d c sn sg : forall f j valid acc b evs,
  seg_missing d c sn sg j f valid acc = Ok (b, evs) -> exists more, evs = acc ++ more.
Proof.
  induction f as [|f IH]; intros j valid acc b evs H.
  - rewrite seg_missing_zero in H. apply bind_ok in H as (syn & _ & H). injection H as <- <-. eauto.
  - rewrite seg_missing_step in H. apply bind_ok in H as (ch & _ & H). apply bind_ok in H as (r & _ & H).
    apply IH in H as [more ->]. rewrite <- app_assoc. eauto.
Qed.

Lemma seg_present_acc d c sn sg : forall vals i dtype tl valid acc b evs,
  seg_present d c sn sg i vals dtype tl valid acc = Ok (b, evs) -> exists more, evs = acc ++ more.
Proof.
  induction vals as [|v vals IH]; intros i dtype tl valid acc b evs H.
  - cbn [seg_present] in H. eapply seg_missing_acc; eauto.
  - rewrite seg_present_step in H. destruct (length (s_children sn) <=? i); [eapply IH; eauto|].
    apply bind_ok in H as (ch & _ & H). destruct ch as [e|cn].
    + apply bind_ok in H as (r & _ & H). apply IH in H as [more ->]. rewrite <- app_assoc. eauto.
    + apply bind_ok in H as (r & _ & H). apply IH in H as [more ->]. rewrite <- !app_assoc. eauto.
Qed.

(* the statement *)
Theorem first_event_is_add d c sn sg b evs e0 :
  length (els sg) <= length (s_children sn) -> els sg <> [] ->
  child_by_idx sn 0 = Ok (SubE e0) ->
  seg_is_valid d c sn sg = Ok (b, evs) ->
  exists i rest, evs = HAddEle i :: rest.
Proof.
  intros L NE C H. rewrite seg_unfold in H.
  assert (M : seg_many d sn sg = []).
  { unfold seg_many. destruct (length (s_children sn) <? length (els sg)) eqn:E; [|reflexivity].
    apply Nat.ltb_lt in E. lia. }
  rewrite M in H. destruct (els sg) as [|v vals] eqn:Ev; [congruence|].
  rewrite seg_present_step in H.
  destruct (length (s_children sn) <=? 0) eqn:E0.
  { apply Nat.leb_le in E0. cbn [length] in L. lia. }
  rewrite C in H. cbn [bind] in H. apply bind_ok in H as ([b0 ev0] & R & H).
  apply elem_first in R as [rest0 ->]. apply seg_present_acc in H as [more ->].
  cbn [snd app elem_pre]. eauto.
Qed.
