(* C05_examples.v — small handler states, built with the handler's own API, that show where verdict, error
   tree and acknowledgement do NOT tell the same story. *)
From Coq Require Import String Lia.
From PX.Lib Require Import Base PyStr PyInt.
From PX.Model Require Import Show Path Segment Reader Writer Errh Ack997 Ack999.
From PX.Spec Require Import C06_spec C05_spec.
From PX.Proofs Require Import C06_lemmas C06_ack997 C06_ack C05_ack.
Local Notation l := list_ascii_of_string.
Open Scope string_scope.

Definition srcA (st : option string) (ln : Z) (cnt : Z) : src_info :=
  {| src_isa_id := Some (l "000000001"); src_gs_id := Some (l "17"); src_st_id := option_map l st; src_line := Some ln; src_st_count := cnt |}.
Definition ei (de : string) (seq : Z) (comp : bool) (pseq : Z) : ele_info :=
  {| ei_data_ele := Some (l de); ei_name := l "Name"; ei_seq := seq; ei_parent_composite := comp; ei_parent_seq := pseq |}.
Definition isa_line : string := "ISA|00|          |00|          |ZZ|SENDER         |ZZ|RECEIVER       |250101|1200|^|00501|000000001|0|P|>".

(* 1. An element error on the ST segment itself (here: ST02).  The driver's validation of the ST segment
      returns False for it (C07: validation_bool), so the verdict is False; but the error is stored in
      st_node.elements, which err_st.err_count does not look at: the set is closed with "A", the group with "A",
      get_error_count() is 0, and the 997 says AK5*A*7 / AK9*A*1*1*1. *)
Definition ev_st02 : list (SE errh unit) :=
  [add_isa_loop (xs2 isa_line) src0;
   add_gs_loop (xs2 "GS|HC|S|R|20250101|1200|17|X|005010X222A1") (srcA None 2 0);
   add_st_loop (xs2 "ST|837|1|005010X222A1") (srcA (Some "1") 3 1);
   add_ele (ei "329" 2 false 0);
   ele_error (l "4") (l "Data element ""Transaction Set Control Number"" (ST02) is too short: len(""1"") = 1 < 4") (Some (l "1"));
   close_st_loop (srcA (Some "1") 9 1);
   close_gs_loop (Some (xs2 "GE|1|17")) (srcA None 10 1);
   close_isa_loop (srcA None 11 1)].
Definition h_st02 : errh := run_events ev_st02 errh_init.

Example st_element_error_not_counted :
  get_error_count h_st02 = 0 /\
  (exists h', render_997 cex_ck h_st02 = (h', map l [
"ISA*00*          *00*          *ZZ*RECEIVER       *ZZ*SENDER         *260101*1200*^*00501*601011200*0*P*:~
"; "GS*FA*R*S*20260101*120000*17*X*004010~
"; "ST*997*0001~
"; "AK1*HC*17~
"; "AK2*837*1~
"; "AK5*A*7~
"; "AK9*A*1*1*1~
"; "SE*6*0001~
"; "GE*1*17~
"; "IEA*1*601011200~
"], None)).
Proof. split; [vm_compute; reflexivity|]. eexists. vm_compute. reflexivity. Qed.

(* 2. A group that is never closed (no GE before the next GS / the end): its sets can be closed and accepted,
      the AK9 still says R, 0 declared, 0 received, 0 accepted. *)
Definition ev_noge : list (SE errh unit) :=
  [add_isa_loop (xs2 isa_line) src0;
   add_gs_loop (xs2 "GS|HC|S|R|20250101|1200|17|X|005010X222A1") (srcA None 2 0);
   add_st_loop (xs2 "ST|837|0021|005010X222A1") (srcA (Some "0021") 3 1);
   close_st_loop (srcA (Some "0021") 9 1)].
Definition h_noge : errh := run_events ev_noge errh_init.

Example unclosed_group_totals :
  get_error_count h_noge = 0 /\
  (exists h', render_997 cex_ck h_noge = (h', map l [
"ISA*00*          *00*          *ZZ*RECEIVER       *ZZ*SENDER         *260101*1200*^*00501*601011200*0*P*:~
"; "GS*FA*R*S*20260101*120000*17*X*004010~
"; "ST*997*0001~
"; "AK1*HC*17~
"; "AK2*837*0021~
"; "AK5*A~
"; "AK9*R*0*0*0~
"; "SE*6*0001~
"; "GE*1*17~
"; "IEA*1*601011200~
"], None) /\ h' <> h_noge /\ h' = normalise_997 h_noge).
Proof. split; [vm_compute; reflexivity|]. eexists. split; [vm_compute; reflexivity|]. split; [discriminate|vm_compute; reflexivity]. Qed.

(* 2b. An element error on the GS segment (here GS06).  It IS counted by get_error_count (so the verdict is False),
       but err_gs._get_ack_code ignores element errors: the group is acknowledged "A", with note code 6. *)
Definition ev_gs06 : list (SE errh unit) :=
  [add_isa_loop (xs2 isa_line) src0;
   add_gs_loop (xs2 "GS|HC|S|R|20250101|1200|X|X|005010X222A1") (srcA None 2 0);
   add_ele (ei "28" 6 false 0);
   ele_error (l "6") (l "Data element ""Group Control Number"" (GS06) contains an invalid character") (Some (l "X"));
   add_st_loop (xs2 "ST|837|0021|005010X222A1") (srcA (Some "0021") 3 1);
   close_st_loop (srcA (Some "0021") 9 1);
   close_gs_loop (Some (xs2 "GE|1|X")) (srcA None 10 1);
   close_isa_loop (srcA None 11 1)].
Definition h_gs06 : errh := run_events ev_gs06 errh_init.

Example gs_element_error_acknowledged_A :
  get_error_count h_gs06 = 1 /\
  (exists h', render_997 cex_ck h_gs06 = (h', map l [
"ISA*00*          *00*          *ZZ*RECEIVER       *ZZ*SENDER         *260101*1200*^*00501*601011200*0*P*:~
"; "GS*FA*R*S*20260101*120000*X*X*004010~
"; "ST*997*0001~
"; "AK1*HC*17~
"; "AK2*837*0021~
"; "AK5*A~
"; "AK9*A*1*1*1*6~
"; "SE*6*0001~
"; "GE*1*X~
"; "IEA*1*601011200~
"], None)).
Proof. split; [vm_compute; reflexivity|]. eexists. vm_compute. reflexivity. Qed.

(* 3. A worked example: two groups, the first closed (two sets, one with segment and element errors and a set-level
      error, one clean; a group-level error), the second never closed.  Both acknowledgements, line by line. *)
Definition ev_full : list (SE errh unit) :=
  [add_isa_loop (xs2 "ISA|00|          |00|          |ZZ|SENDER         |ZZ|RECEIVER       |250101|1200|^|00501|000000001|1|P|>") src0;
   add_gs_loop (xs2 "GS|HC|S|R|20250101|1200|17|X|005010X222A1") (srcA None 2 0);
   add_st_loop (xs2 "ST|837|0021 |005010X222A1") (srcA (Some "0021 ") 3 1);
   add_seg (Some {| si_name := l "BHT"; si_pos := 10 |}) (xs2 "BHT|0019|00|X|20250101|1200|CH") (Some 2%Z) (Some 4%Z) None;
   seg_error (l "SEG1") (l "bad seg") None None;
   seg_error (l "3") (l "mandatory missing") None None;
   seg_error (l "3") (l "again") None None;
   add_ele (ei "1005" 1 false 0);
   ele_error (l "7") (l "bad code") (Some (l "0019"));
   ele_error (l "5") (l "too long") (Some (l "0019"));
   add_ele (ei "66" 2 true 3);
   ele_error (l "1") (l "missing") None;
   add_seg (Some {| si_name := l "NM1"; si_pos := 20 |}) (xs2 "NM1|41|2") (Some 3%Z) (Some 5%Z) (Some (l "1000A"));
   add_ele (ei "98" 1 false 0);
   ele_error (l "7") (l "bad") (Some (l "41"));
   st_error (l "4") (l "SE count");
   close_st_loop (srcA (Some "0021 ") 9 1);
   add_st_loop (xs2 "ST|837|0022|005010X222A1") (srcA (Some "0022") 10 2);
   add_seg (Some {| si_name := l "BHT"; si_pos := 10 |}) (xs2 "BHT|0019|00|X|20250101|1200|CH") (Some 2%Z) (Some 11%Z) None;
   close_st_loop (srcA (Some "0022") 12 2);
   gs_error (l "4") (l "GE count");
   close_gs_loop (Some (xs2 "GE|2|17")) (srcA None 13 2);
   add_gs_loop (xs2 "GS|HP|S|R|20250101|1200|18|X|005010X221A1") (srcA None 14 0);
   add_st_loop (xs2 "ST|835|0001") (srcA (Some "0001") 15 1)].
Definition h_full : errh := run_events ev_full errh_init.

Example worked_997 :
  get_error_count h_full = 3 /\
  render_997 cex_ck h_full = (normalise_997 h_full, map l [
"ISA*00*          *00*          *ZZ*RECEIVER       *ZZ*SENDER         *260101*1200*^*00501*601011200*0*P*:~
"; "GS*FA*R*S*20260101*120000*18*X*004010~
"; "ST*997*0001~
"; "AK1*HC*17~
"; "AK2*837*0021~
"; "AK3*BHT*2**3~
"; "AK3*BHT*2**8~
"; "AK4*1*1005*7*0019~
"; "AK4*1*1005*5*0019~
"; "AK4*3:2*66*1~
"; "AK3*NM1*3*1000A*8~
"; "AK4*1*98*7*41~
"; "AK5*R*4*5~
"; "AK2*837*0022~
"; "AK5*A~
"; "AK9*R*2*2*1*4~
"; "SE*15*0001~
"; "ST*997*0002~
"; "AK1*HP*17~
"; "AK2*835*0001~
"; "AK5*R~
"; "AK9*R*0*0*0~
"; "SE*6*0002~
"; "GE*2*18~
"; "TA1*000000001*250101*1200*A*000~
"; "IEA*1*601011200~
"], None).
Proof. split; vm_compute; reflexivity. Qed.

Example worked_999 :
  render_999 cex_ck h_full = (normalise_997 h_full, map l [
"ISA*00*          *00*          *ZZ*RECEIVER       *ZZ*SENDER         *260101*1200*^*00501*601011200*0*P*:~
"; "GS*FA*R*S*20260101*120000*12345678*X*005010X231~
"; "ST*999*0001*005010X231~
"; "AK1*HC*17*005010X222A1~
"; "AK2*837*0021*005010X222A1~
"; "IK3*BHT*2**3~
"; "IK3*BHT*2**8~
"; "IK4*1*1005*7*0019~
"; "IK4*1*1005*5*0019~
"; "IK4*3:2*66*1~
"; "IK3*NM1*3*1000A*8~
"; "IK4*1*98*7*41~
"; "IK5*R*4*5~
"; "AK2*837*0022*005010X222A1~
"; "IK5*A~
"; "AK9*R*2*2*1*4~
"; "SE*15*0001~
"; "ST*999*0002*005010X231~
"; "AK1*HP*17*005010X221A1~
"; "AK2*835*0001~
"; "IK5*R~
"; "AK9*R*0*0*0~
"; "SE*6*0002~
"; "GE*2*12345678~
"; "TA1*000000001*250101*1200*A*000~
"; "IEA*1*601011200~
"], None).
Proof. vm_compute. reflexivity. Qed.

Print Assumptions st_element_error_not_counted.
Print Assumptions unclosed_group_totals.
Print Assumptions worked_997.
Print Assumptions worked_999.
Print Assumptions gs_element_error_acknowledged_A.
