(* C19_doc_run.v — a COMPLETED run of the whole pipeline (Model/Pipeline.v) with the HTML sink on, read back as
   the views of the sink-less driver (Spec/C19_doc_spec.v doc_views), for ANY environment, clock and sink mask:

     p_lines_views   the loop: one gen_seg call per view, in order, with the view's arguments on an error_html
                     object whose pending heading is the escaped sv_info; the driver part of the state is the
                     one the sink-less loop reaches; the writes to fd_html are those of the calls
     p_finish_inv    after the loop: Driver.finish, then footer() on the handler it leaves; nothing else is
                     written to fd_html and no further gen_seg call is made *)
From Coq Require Import String.
From PX.Lib Require Import Base PyStr PyInt.
From PX.Model Require Import Path Segment Raw Reader MapLoad MapTree Walker MapEnv Driver Pipeline.
From PX.Model Require Errh ErrIter OutW Html XmlOut Ack997 Ack999.
From PX.Spec Require Import C09_spec C19_spec C19_doc_spec.
From PX.Proofs Require Import C19_lemmas.

Import OutW.

(* ------------------------------------------------------------------ *)
(* the monad P                                                          *)

Lemma p_bind_ok {A B} (m : P A) (f : A -> P B) s s' b :
  p_bind m f s = (s', Ok b) -> exists s1 a, m s = (s1, Ok a) /\ f a s1 = (s', Ok b).
Proof.
  unfold p_bind. destruct (m s) as [s1 [a|e]]; [|discriminate]. intros H. exists s1, a. split; [reflexivity | exact H].
Qed.

(* what the other sinks leave alone *)
Definition same_html (s s' : pstate) : Prop :=
  ps_d s' = ps_d s /\ ps_html s' = ps_html s /\ ps_iter s' = ps_iter s /\
  ps_html_out s' = ps_html_out s /\ ps_calls s' = ps_calls s.

Lemma same_html_refl s : same_html s s.
Proof. repeat split. Qed.

Lemma p_xml_same {A} (m : W XmlOut.xstate A) s : same_html s (fst (p_xml m s)).
Proof. unfold p_xml. destruct (m (ps_xml s)) as [[xs' ws] r]. repeat split. Qed.

Lemma xml_step_same E sg s : same_html s (fst (xml_step E sg s)).
Proof.
  unfold xml_step, p_bind, p_get.
  destruct (XmlOut.target_of _ _) as [t|]; [apply p_xml_same | apply same_html_refl].
Qed.

(* ------------------------------------------------------------------ *)
(* gen_seg leaves no heading pending                                    *)

Definition wkeep {S A} (m : W S A) : Prop := forall s s' o r, m s = (s', o, r) -> s' = s.

Lemma wkeep_ret {S A} (a : A) : wkeep (@w_ret S A a).
Proof. intros s s' o r [= <- _ _]. reflexivity. Qed.
Lemma wkeep_lift {S A} (x : result A) : wkeep (@w_lift S A x).
Proof. intros s s' o r [= <- _ _]. reflexivity. Qed.
Lemma wkeep_write {S} x : wkeep (@w_write S x).
Proof. intros s s' o r [= <- _ _]. reflexivity. Qed.
Lemma wkeep_bind {S A B} (m : W S A) (f : A -> W S B) : wkeep m -> (forall a, wkeep (f a)) -> wkeep (w_bind m f).
Proof.
  intros Hm Hf s s' o r. unfold w_bind. destruct (m s) as [[s1 o1] [a|e]] eqn:E1.
  - destruct (f a s1) as [[s2 o2] r2] eqn:E2. intros [= <- _ _]. apply Hm in E1. apply Hf in E2. congruence.
  - intros [= <- _ _]. apply Hm in E1. exact E1.
Qed.
Lemma wkeep_iter {S A} (f : A -> W S unit) xs : (forall x, wkeep (f x)) -> wkeep (w_iter f xs).
Proof.
  intros H. induction xs as [|x xs IH]; cbn [w_iter]; [apply wkeep_ret|].
  apply wkeep_bind; [apply H | intros _; exact IH].
Qed.

Lemma wkeep_pre h o r : wkeep (Html.write_pre_errors h o r).
Proof.
  unfold Html.write_pre_errors. apply wkeep_bind; [apply wkeep_lift | intros es].
  apply wkeep_iter. intros e. destruct (str_eqb _ _); [apply wkeep_write | apply wkeep_ret].
Qed.

Lemma wkeep_post h o r : wkeep (Html.write_post_errors h o r).
Proof.
  unfold Html.write_post_errors. apply wkeep_bind; [apply wkeep_lift | intros es].
  apply wkeep_bind.
  { apply wkeep_iter. intros e. destruct (str_eqb _ _); [apply wkeep_ret | apply wkeep_write]. }
  intros _. apply wkeep_bind; [apply wkeep_lift | intros els_].
  apply wkeep_iter. intros e. unfold Html.write_ele_errors. apply wkeep_bind; [apply wkeep_lift | intros es'].
  apply wkeep_iter. intros er. destruct (_ && _); [apply wkeep_ret | apply wkeep_write].
Qed.

Lemma gen_seg_state c h x cl nodes hs hs' ws :
  Html.html_gen_seg c h x cl nodes hs = (hs', ws, Ok tt) -> hs' = Html.html_init.
Proof.
  unfold Html.html_gen_seg. cbv zeta. intros H.
  apply w_bind_inv in H as (s1 & o1 & m & o2 & _ & H & _).
  apply w_bind_inv in H as (s2 & o3 & [] & o4 & _ & H & _).
  apply w_bind_inv in H as (s3 & o5 & st & o6 & _ & H & _).
  apply w_bind_inv in H as (s4 & o7 & [] & o8 & _ & H & _).
  apply w_bind_inv in H as (s5 & o9 & [] & o10 & H5 & H & _).
  unfold w_put in H5. injection H5 as <- _.
  revert H. generalize o10. generalize hs'.
  assert (K : wkeep (dow body <- w_lift (Html.html_seg_str c (sid (Errh.xs_s x)) (Html.tseg_items x m 1 (els (Errh.xs_s x))));
                     dow ln <- w_lift (Errh.fmt_i cl);
                     dow_ w_write (Html.l "<span class=""seg"">" ++ ln ++ Html.l ":&nbsp;" ++ body ++ Html.l "</span><br />" ++ Html.NLs);
                     w_iter (Html.write_post_errors h (sid (Errh.xs_s x))) nodes)).
  { apply wkeep_bind; [apply wkeep_lift | intros body]. apply wkeep_bind; [apply wkeep_lift | intros ln].
    apply wkeep_bind; [apply wkeep_write | intros _]. apply wkeep_iter. intros r. apply wkeep_post. }
  intros hs2 o H. apply K in H. exact H.
Qed.

(* ------------------------------------------------------------------ *)
(* one segment                                                          *)

(* x12n_document.py:209-220 when it completes, on an object with no heading pending *)
Lemma html_step_inv E sg s s' :
  ps_html s = Html.html_init ->
  html_step E sg s = (s', Ok tt) ->
  exists info it' nodes ws,
    heading_of (ds_node (ps_d s)) = Ok info /\
    ErrIter.collect_new (ds_errh (ps_d s)) (ps_iter s) = (it', Ok nodes) /\
    Html.html_gen_seg (cfg_of (de_d E)) (ds_errh (ps_d s)) {| Errh.xs_d := de_d E; Errh.xs_s := sg |}
       (Some (cur_line (ds_x (ps_d s)))) nodes {| Html.loop_info := option_map Html.esc info |} = (Html.html_init, ws, Ok tt) /\
    ps_d s' = ps_d s /\ ps_iter s' = it' /\ ps_html s' = Html.html_init /\
    ps_html_out s' = ws :: ps_html_out s /\
    ps_calls s' = ({| Errh.xs_d := de_d E; Errh.xs_s := sg |}, Some (cur_line (ds_x (ps_d s))), nodes) :: ps_calls s.
Proof.
  intros HI H. unfold html_step in H. cbv zeta in H.
  apply p_bind_ok in H as (s0 & sa & G & H). unfold p_get in G. injection G as <- <-.
  apply p_bind_ok in H as (s1 & [] & L & H).
  assert (L1 : exists info, heading_of (ds_node (ps_d s)) = Ok info /\
                 s1 = set_html s {| Html.loop_info := option_map Html.esc info |}).
  { unfold heading_of. destruct (node_is_first _ _).
    - apply p_bind_ok in L as (s2 & ln & L2 & L). unfold p_lift in L2. injection L2 as <- E2. rewrite E2. cbn [bind].
      destruct ln as [i nm ty|]; cbn [Html.html_loop_node] in L; [|discriminate L]. injection L as <-.
      unfold Html.html_loop.
      destruct (opt_eqb str_eqb ty _).
      + exists None. split; [reflexivity|]. rewrite HI. reflexivity.
      + eexists (Some _). split; [reflexivity|]. reflexivity.
    - unfold p_ret in L. injection L as <-. exists None. split; [reflexivity|].
      cbn [option_map]. change {| Html.loop_info := None |} with Html.html_init. rewrite <- HI. destruct s; reflexivity. }
  destruct L1 as (info & EH & ->).
  apply p_bind_ok in H as (s2 & nodes & C & H).
  cbn [ps_d ps_iter set_html] in C.
  destruct (ErrIter.collect_new _ _) as [it' res] eqn:EC. injection C as <- ->.
  apply p_bind_ok in H as (s3 & sb & G & H). unfold p_get in G. injection G as <- <-.
  apply p_bind_ok in H as (s4 & [] & M & H). unfold p_mod in M. injection M as <-.
  unfold p_html in H. cbn [ps_d ps_html set_html set_iter add_call] in H.
  destruct (Html.html_gen_seg _ _ _ _ _ _) as [[hs' ws] r] eqn:EG. injection H as <- ->.
  pose proof (gen_seg_state _ _ _ _ _ _ _ _ EG) as ->.
  exists info, it', nodes, ws. repeat split; try reflexivity; assumption.
Qed.

(* the body of the loop with the HTML sink on *)
Lemma p_step_inv E sk sg s s' :
  want_html sk = true -> ps_html s = Html.html_init ->
  p_step E sk sg s = (s', Ok tt) ->
  exists d2 info it' nodes ws,
    step E sg (ps_d s) = (d2, Ok tt) /\
    heading_of (ds_node d2) = Ok info /\
    ErrIter.collect_new (ds_errh d2) (ps_iter s) = (it', Ok nodes) /\
    Html.html_gen_seg (cfg_of (de_d E)) (ds_errh d2) {| Errh.xs_d := de_d E; Errh.xs_s := sg |}
       (Some (cur_line (ds_x d2))) nodes {| Html.loop_info := option_map Html.esc info |} = (Html.html_init, ws, Ok tt) /\
    ps_d s' = d2 /\ ps_iter s' = it' /\ ps_html s' = Html.html_init /\
    ps_html_out s' = ws :: ps_html_out s /\
    ps_calls s' = ({| Errh.xs_d := de_d E; Errh.xs_s := sg |}, Some (cur_line (ds_x d2)), nodes) :: ps_calls s.
Proof.
  intros WH HI H. unfold p_step in H. rewrite WH in H.
  apply p_bind_ok in H as (s1 & [] & S1 & H).
  unfold p_liftD in S1. destruct (step E sg (ps_d s)) as [d2 r] eqn:ES. injection S1 as <- ->.
  apply p_bind_ok in H as (s2 & [] & S2 & H).
  apply html_step_inv in S2; [|exact HI].
  destruct S2 as (info & it' & nodes & ws & EH & EC & EG & D2 & I2 & H2' & O2 & C2).
  cbn [ps_d ps_iter set_d ps_html_out ps_calls] in *.
  assert (X : same_html s2 s').
  { destruct (want_xml sk).
    - pose proof (xml_step_same E sg s2) as X. rewrite H in X. exact X.
    - unfold p_ret in H. injection H as <-. apply same_html_refl. }
  destruct X as (XD & XH & XI & XO & XC).
  exists d2, info, it', nodes, ws.
  split; [reflexivity|]. split; [exact EH|]. split; [exact EC|]. split; [exact EG|].
  repeat split; congruence.
Qed.

(* ------------------------------------------------------------------ *)
(* the loop                                                             *)

Lemma read_line_inv E ln d d' os :
  read_line E ln d = (d', Ok os) ->
  exists x' es, reader_line_opt (de_d E) (ds_x d) ln = Ok (x', os, es) /\
                d' = with_pending (with_x d x') (ds_pending d ++ es).
Proof.
  unfold read_line, d_bind, d_get, d_lift, d_mod, d_ret.
  destruct (reader_line_opt (de_d E) (ds_x d) ln) as [[[x' os'] es]|e]; [|discriminate].
  intros [= <- <-]. eauto.
Qed.

Theorem p_lines_views E sk : want_html sk = true ->
  forall lines s s', ps_html s = Html.html_init ->
    p_lines E sk lines s = (s', Ok tt) ->
    exists views,
      doc_views E lines (ps_d s) (ps_iter s) = Ok (views, ps_d s') /\
      ps_html s' = Html.html_init /\
      Forall (view_ok (de_d E)) views /\
      ps_calls s' = rev (map (view_call (de_d E)) views) ++ ps_calls s /\
      ps_html_out s' = rev (map (view_writes (de_d E)) views) ++ ps_html_out s.
Proof.
  intros WH. induction lines as [|ln rest IH]; intros s s' HI H; cbn [p_lines] in H.
  - unfold p_ret in H. injection H as <-. exists []. cbn [doc_views]. repeat split; try assumption. constructor.
  - apply p_bind_ok in H as (s1 & os & R & H).
    unfold p_liftD in R. destruct (read_line E ln (ps_d s)) as [d1 r1] eqn:ER. injection R as <- ->.
    apply p_bind_ok in H as (s2 & [] & S2 & H).
    cbn [doc_views]. rewrite ER.
    destruct os as [sg|].
    + apply p_step_inv in S2; [|exact WH|exact HI].
      destruct S2 as (d2 & info & it' & nodes & ws & ES & EH & EC & EG & D2 & I2 & H2' & O2 & C2).
      cbn [ps_d ps_iter set_d ps_html_out ps_calls] in *.
      destruct (IH s2 s' H2' H) as (views & EV & HF & VO & VC & VW).
      rewrite ES, EH. cbn [bind]. rewrite EC. rewrite D2, I2 in EV. rewrite EV. cbn [bind fst snd].
      eexists (_ :: views). split; [reflexivity|]. split; [exact HF|].
      split; [|split].
      * constructor; [|exact VO]. unfold view_ok, view_run. cbn [sv_errh sv_seg sv_line sv_nodes sv_info]. rewrite EG. reflexivity.
      * cbn [map rev]. rewrite VC, C2, <- app_assoc. reflexivity.
      * cbn [map rev]. rewrite VW, O2, <- app_assoc.
        match goal with |- context [view_writes ?d ?v] =>
          assert (EW : view_writes d v = ws)
            by (unfold view_writes, view_run; cbn [sv_errh sv_seg sv_line sv_nodes sv_info]; rewrite EG; reflexivity) end.
        rewrite EW. reflexivity.
    + unfold p_ret in S2. injection S2 as <-.
      destruct (IH (set_d s d1) s' HI H) as (views & EV & HF & VO & VC & VW).
      exists views. repeat split; assumption.
Qed.

(* ------------------------------------------------------------------ *)
(* after the loop                                                       *)

Definition same_out (s s' : pstate) : Prop := ps_html_out s' = ps_html_out s /\ ps_calls s' = ps_calls s.

Lemma ack_part_same clk sk s : same_out s (fst (ack_part clk sk s)).
Proof.
  unfold ack_part, p_bind, p_get, p_ret, run_visitor.
  destruct (want_ack sk && _); [|split; reflexivity].
  destruct (vriic_is _ "004010").
  - destruct (Ack997.render_997 clk _) as [[h' ws] o].
    destruct (vriic_is _ "005010"); [|split; reflexivity].
    cbn [ps_d add_ack_out set_d]. destruct (Ack999.render_999 clk _) as [[h'' ws'] o']. split; reflexivity.
  - destruct (vriic_is _ "005010"); [|split; reflexivity].
    destruct (Ack999.render_999 clk _) as [[h'' ws'] o']. split; reflexivity.
Qed.

(* x12n_document.py:230-275 when it completes: finish on the driver part, then footer() on the handler it leaves *)
Theorem p_finish_inv clk sk s s' b :
  want_html sk = true ->
  p_finish clk sk s = (s', Ok b) ->
  exists d2 b' fw,
    finish (ps_d s) = (d2, Ok b') /\
    Html.html_footer (ds_errh d2) tt = (tt, fw, Ok tt) /\
    ps_html_out s' = fw :: ps_html_out s /\ ps_calls s' = ps_calls s.
Proof.
  intros WH H. unfold p_finish in H. rewrite WH in H.
  apply p_bind_ok in H as (s1 & b' & F & H).
  unfold p_liftD in F. destruct (finish (ps_d s)) as [d2 r] eqn:EF. injection F as <- ->.
  apply p_bind_ok in H as (s2 & [] & FT & H).
  apply p_bind_ok in FT as (s3 & sa & G & FT). unfold p_get in G. injection G as <- <-.
  unfold p_html_unit in FT. cbn [ps_d set_d] in FT.
  destruct (Html.html_footer (ds_errh d2) tt) as [[[] fw] r] eqn:EFT. injection FT as <- ->.
  apply p_bind_ok in H as (s4 & [] & X & H).
  assert (XS : same_out (add_html_out (set_d s d2) fw) s4).
  { destruct (want_xml sk).
    - apply p_bind_ok in X as (s5 & [] & X1 & X2). unfold p_mod in X2. injection X2 as <-.
      pose proof (p_xml_same XmlOut.simple_del (add_html_out (set_d s d2) fw)) as (_ & _ & _ & O & C).
      rewrite X1 in O, C. split; [exact O | exact C].
    - unfold p_ret in X. injection X as <-. split; reflexivity. }
  apply p_bind_ok in H as (s6 & [] & A & H).
  pose proof (ack_part_same clk sk s4) as AS. rewrite A in AS. cbn [fst] in AS.
  unfold verdict, p_bind, p_get, p_ret in H. injection H as <- _.
  destruct XS as [O1 C1]. destruct AS as [O2 C2].
  exists d2, b', fw. split; [reflexivity|]. split; [exact EFT|].
  split; [rewrite O2, O1 | rewrite C2, C1]; reflexivity.
Qed.

Print Assumptions p_lines_views.
Print Assumptions p_finish_inv.
