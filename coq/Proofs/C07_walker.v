(* C07_walker.v — the map walker (Model/Walker.v) never raises on a map that
   satisfies `walker_wf`, the node it returns is a segment node that matches
   the data segment, and where that node lies relative to the start node. *)
From Coq Require Import String.
From PX.Lib Require Import Base PyStr PyInt Regex Xml.
From PX.Model Require Import Path Segment Syntax MapLoad MapTree Element Counter Walker.
From PX.Spec Require Import C07_walker_wf.
From PX.Proofs Require Import C07_walker_lemmas.

Local Definition l (x : string) : str := list_ascii_of_string x.

Section Walk.
Variable m : xmap.
Hypothesis WF : walker_wf m = true.
Variable a : wargs.

Notation ns := (root_nodes m).
Notation smatch s0 := (seg_is_match (xg_d (a_x a)) (m_dataele m) s0 (xg_s (a_x a))).

(* every node of the map satisfies first_single (only used for the exact form of the entry lemma) *)
Definition FSH : Prop := forall r n, node_at ns r = Some n -> first_single n = true.

(* ------------------------------------------------------------------ *)
(* what walker_wf says about one node                                   *)

Lemma wf_seg r sn :
  node_at ns r = Some (NSeg sn) ->
  usage_ok (s_usage sn) = true /\ (exists xp, node_x12path m r = Ok xp) /\
  (usage_is (s_usage sn) "N" = false -> exists z, seg_max_repeat sn = Ok z) /\
  seg_match_safe (m_dataele m) sn = true.
Proof.
  intros H. destruct (wf_ref _ _ _ WF H) as [R _]. cbn [ref_ok] in R.
  apply andb_true_iff in R as [R R4]. apply andb_true_iff in R as [R R3]. apply andb_true_iff in R as [R1 R2].
  repeat split; try assumption.
  - apply is_ok_Ok, R2.
  - intros E. rewrite E in R3. apply is_ok_Ok, R3.
Qed.

Lemma wf_loop_seg r id ty nm u p rep pm s0 rest :
  node_at ns r = Some (NLoop id ty nm u p rep pm) -> pm_nodes pm = NSeg s0 :: rest ->
  usage_ok u = true /\
  (usage_is u "N" = false -> (exists xp, node_x12path m r = Ok xp) /\ exists z, loop_max_repeat rep = Ok z).
Proof.
  intros H E. destruct (wf_ref _ _ _ WF H) as [R _]. cbn [ref_ok] in R. rewrite E in R.
  apply andb_true_iff in R as [R1 R2]. split; [exact R1|].
  intros EN. rewrite EN in R2. apply andb_true_iff in R2 as [R2 R3]. split; apply is_ok_Ok; assumption.
Qed.

Lemma wf_loop_loop r id ty nm u p rep pm c0 rest :
  node_at ns r = Some (NLoop id ty nm u p rep pm) -> pm_nodes pm = c0 :: rest -> node_is_loop c0 = true ->
  can_hit 40 (NLoop id ty nm u p rep pm) = true -> forallb (deep_ne 39) (pm_nodes pm) = true.
Proof.
  intros H E L C. destruct (wf_ref _ _ _ WF H) as [R _]. cbn [ref_ok] in R. rewrite E in R.
  destruct c0; [|discriminate]. rewrite <- E in R. rewrite C in R. exact R.
Qed.

Lemma smatch_ok r sn : node_at ns r = Some (NSeg sn) -> exists b, smatch sn = Ok b.
Proof. intros H. apply seg_is_match_ok. apply (wf_seg _ _ H). Qed.

Lemma node_truthy_seg r sn : node_at ns r = Some (NSeg sn) -> node_truthy m r = Ok true.
Proof.
  intros H. unfold node_truthy. rewrite (get_node_ok _ _ _ H). cbn [bind].
  destruct (wf_seg _ _ H) as [_ [_ [_ S]]]. apply seg_match_safe_children in S.
  destruct (s_children sn); [congruence | reflexivity].
Qed.

(* ------------------------------------------------------------------ *)
(* the small functions                                                  *)

Lemma check_seg_usage_wp r sn : node_at ns r = Some (NSeg sn) -> wp (check_seg_usage m r sn a) T.
Proof.
  intros H. destruct (wf_seg _ _ H) as [U [[xp Hxp] [MR _]]].
  unfold check_seg_usage. rewrite U. cbn [negb].
  destruct (usage_is (s_usage sn) "N") eqn:EN; [wunit|].
  destruct (MR eq_refl) as [z Hz].
  eapply wp_bind_lift; [exact Hxp|]. wstep. eapply wp_bind_lift; [exact Hz|].
  destruct (z <? get_count c xp)%Z; [|wunit]. wstep. wunit.
Qed.

Lemma check_loop_usage_wp r id ty nm u p rep pm s0 rest :
  node_at ns r = Some (NLoop id ty nm u p rep pm) -> pm_nodes pm = NSeg s0 :: rest ->
  wp (check_loop_usage m r (NLoop id ty nm u p rep pm) a) T.
Proof.
  intros H E. destruct (wf_loop_seg _ _ _ _ _ _ _ _ _ _ H E) as [U N].
  unfold check_loop_usage. rewrite U. cbn [negb].
  destruct (usage_is u "N") eqn:EN; [wunit|].
  destruct (N eq_refl) as [[xp Hxp] [z Hz]].
  eapply wp_bind_lift; [exact Hxp|]. wstep. wstep. eapply wp_bind_lift; [exact Hz|].
  match goal with |- wp (if ?b then _ else _) _ => destruct b end; [|wunit]. wstep. wunit.
Qed.

Lemma seg_not_found_error_wp r sn : node_at ns r = Some (NSeg sn) -> wp (seg_not_found_error m r a) T.
Proof.
  intros H. destruct (wf_seg _ _ H) as [_ [[xp Hxp] _]].
  destruct (node_x12path_path m r) as [p Hp]; [rewrite Hxp; reflexivity|].
  unfold seg_not_found_error.
  assert (S : exists s, (if opt_eqb str_eqb (sid (xg_s (a_x a))) (Some (Walker.l "HL"))
                         then Ok (removelast (format_seg D0 (xg_s (a_x a))))
                         else do v <- seg_get_value (xg_d (a_x a)) (xg_s (a_x a)) (Walker.l "01");
                              Ok (show_sid (sid (xg_s (a_x a))) ++ Walker.l "*" ++ ostr0 v)) = Ok s).
  { destruct (opt_eqb str_eqb (sid (xg_s (a_x a))) (Some (Walker.l "HL"))); [eauto|].
    destruct (seg_get_value_01 (xg_d (a_x a)) (xg_s (a_x a))) as [v Hv].
    change (Walker.l "01") with (C07_walker_lemmas.l "01"). rewrite Hv. cbn [bind]. eauto. }
  destruct S as [s Hs].
  eapply wp_bind_lift; [exact Hs|]. eapply wp_bind_lift; [exact Hp|].
  eapply wp_bind_lift; [exact (get_node_ok _ _ _ H)|]. wstep. wunit.
Qed.

Lemma node_eq_ok x y nx ny :
  node_at ns x = Some nx -> node_at ns y = Some ny -> exists b, node_eq m x y = Ok b.
Proof.
  intros Hx Hy. unfold node_eq. rewrite (get_node_ok _ _ _ Hx). cbn [bind].
  destruct y as [|j y']; [discriminate|]. rewrite (get_node_ok _ _ _ Hy). cbn [bind].
  destruct (negb (ostr_eqb (node_id nx) (node_id ny))); [eauto|].
  destruct (parent_id_ok m x) as [px ->].
  { destruct (node_at_removelast _ _ _ Hx) as [E | [q [Hq Lq]]]; [left; exact E | right; eauto]. }
  destruct (parent_id_ok m (j :: y')) as [py ->].
  { destruct (node_at_removelast _ _ _ Hy) as [E | [q [Hq Lq]]]; [left; exact E | right; eauto]. }
  cbn [bind]. eauto.
Qed.

(* _note_missing_children: only the counter and the pending list are read, pending entries are appended *)
Lemma wp_iter_In {A} (f : A -> W unit) xs : (forall x, In x xs -> wp (f x) T) -> wp (w_iter f xs) T.
Proof.
  induction xs as [|x xs IH]; intros H; cbn [w_iter].
  - apply wp_ret. exact I.
  - apply wp_seq; [apply H; left; reflexivity | intros _; apply IH; intros y Hy; apply H; right; exact Hy].
Qed.

Lemma note_missing_children_wp cur : lref m cur -> wp (note_missing_children m a cur) T.
Proof.
  intros Hl. unfold note_missing_children.
  eapply wp_bind_lift; [apply container_children_kids, Hl|]. apply wp_bind_mget; intro ms0. cbv zeta.
  apply wp_iter_In. intros [i c] Hin. cbn [fst snd].
  apply enumerate_nth in Hin as [_ Hin]. rewrite Nat.sub_0_r in Hin.
  assert (Hcr : node_at ns (cur ++ [i]) = Some c) by (rewrite (node_at_kids _ _ _ Hl); exact Hin).
  destruct (usage_is (node_usage c) "R") eqn:ER; cbn [negb]; [|wunit].
  destruct c as [id ty nm u p rep pm | s0].
  - (* a required loop: only one that begins with a segment is looked at; is_loop_match reads the same x12path *)
    destruct (pm_nodes pm) as [|[id1 ty1 nm1 u1 p1 rep1 pm1 | s1] rest] eqn:E; [wunit | wunit |].
    cbn [node_usage] in ER.
    destruct (wf_loop_seg _ _ _ _ _ _ _ _ _ _ Hcr E) as [_ N].
    destruct (N (usage_R_not_N _ ER)) as [[xp Hxp] _].
    eapply wp_bind_lift; [exact Hxp|]. apply wp_bind_cget; intro cn.
    destruct (get_count cn xp <? 1)%Z; cbn [negb]; [|wunit].
    assert (Hl' : lref m (removelast ((cur ++ [i]) ++ [0]))).
    { rewrite removelast_snoc. right. eexists. split; [exact Hcr | reflexivity]. }
    destruct (parent_id_ok m _ Hl') as [pid Hpid]. eapply wp_bind_lift; [exact Hpid|].
    match goal with |- wp (if ?b then _ else _) _ => destruct b end; [wunit | apply append_missing_wp, Hl'].
  - destruct (wf_seg _ _ Hcr) as [_ [[xp Hxp] _]].
    eapply wp_bind_lift; [exact Hxp|]. apply wp_bind_cget; intro cn.
    destruct (get_count cn xp <? 1)%Z; cbn [negb]; [|wunit].
    assert (Hl' : lref m (removelast (cur ++ [i]))) by (rewrite removelast_snoc; exact Hl).
    destruct (parent_id_ok m _ Hl') as [pid Hpid]. eapply wp_bind_lift; [exact Hpid|].
    match goal with |- wp (if ?b then _ else _) _ => destruct b end; [wunit | apply append_missing_wp, Hl'].
Qed.

(* ------------------------------------------------------------------ *)
(* _is_loop_match answers True only for a loop that the segment can open *)

Inductive lhit : node -> Prop :=
| lhit_seg id ty nm u p rep pm s0 rest :
    pm_nodes pm = NSeg s0 :: rest -> smatch s0 = Ok true -> lhit (NLoop id ty nm u p rep pm)
| lhit_loop id ty nm u p rep pm c0 rest c :
    pm_nodes pm = c0 :: rest -> node_is_loop c0 = true ->
    In c (pm_nodes pm) -> node_is_loop c = true -> lhit c -> lhit (NLoop id ty nm u p rep pm).

Lemma lhit_can_hit n : lhit n -> forall f, can_hit f n = true.
Proof.
  induction 1 as [id ty nm u p rep pm s0 rest E M | id ty nm u p rep pm c0 rest c E L0 Hin Lc Hc IH];
    intros [|f]; try reflexivity; cbn [can_hit]; rewrite E.
  - reflexivity.
  - destruct c0; [|discriminate]. rewrite <- E. apply existsb_exists. exists c. split; [exact Hin|].
    rewrite Lc, IH. reflexivity.
Qed.

Definition ilm_go (f : nat) (r : nref) :=
  fix go (i : nat) (cs : list node) : W bool :=
    match cs with
    | [] => w_ret false
    | c :: cs' =>
        match c with
        | NLoop _ _ _ _ _ _ _ =>
            dow b <- is_loop_match f m a (r ++ [i]) c;
            if b then w_ret true else go (S i) cs'
        | NSeg _ => go (S i) cs'
        end
    end.

Lemma ilm_go_wp f r pn :
  (forall i c, nth_error (node_children pn) i = Some c -> node_is_loop c = true ->
               wp (is_loop_match f m a (r ++ [i]) c) (fun b => b = true -> lhit c)) ->
  forall cs i,
    (forall j c, nth_error cs j = Some c -> nth_error (node_children pn) (i + j) = Some c) ->
    wp (ilm_go f r i cs) (fun b => b = true -> exists c, In c cs /\ node_is_loop c = true /\ lhit c).
Proof.
  intros IH. induction cs as [|c cs IHcs]; intros i Hs.
  - apply wp_ret. discriminate.
  - assert (Hs' : forall j c', nth_error cs j = Some c' -> nth_error (node_children pn) (S i + j) = Some c').
    { intros j c' Hj. replace (S i + j) with (i + S j) by lia. apply Hs. exact Hj. }
    assert (Tail : wp (ilm_go f r (S i) cs)
                      (fun b => b = true -> exists c', In c' (c :: cs) /\ node_is_loop c' = true /\ lhit c')).
    { eapply wp_conseq; [apply (IHcs (S i) Hs')|].
      intros b Hb E. destruct (Hb E) as [c' [Hin R]]. exists c'. split; [right; exact Hin | exact R]. }
    destruct c as [id ty nm u p rep pm | s0]; [|exact Tail].
    change (wp (dow b <- is_loop_match f m a (r ++ [i]) (NLoop id ty nm u p rep pm);
                if b then w_ret true else ilm_go f r (S i) cs)
               (fun b => b = true -> exists c', In c' (NLoop id ty nm u p rep pm :: cs) /\ node_is_loop c' = true /\ lhit c')).
    eapply wp_bind.
    + apply IH; [|reflexivity]. rewrite <- (Nat.add_0_r i). apply Hs. reflexivity.
    + intros b Hb. destruct b; [|exact Tail].
      apply wp_ret. intros _. eexists. split; [left; reflexivity|]. split; [reflexivity | apply Hb; reflexivity].
Qed.

Lemma is_loop_match_wp :
  forall f r n, node_at ns r = Some n -> node_is_loop n = true -> depth_ok f n = true ->
                wp (is_loop_match f m a r n) (fun b => b = true -> lhit n).
Proof.
  induction f as [|f IHf]; intros r n Hr Ln D; [discriminate|].
  destruct n as [id ty nm u p rep pm | s]; [|discriminate].
  cbn [is_loop_match]. destruct (pm_nodes pm) as [|first rest] eqn:E.
  - apply wp_ret. discriminate.
  - destruct first as [id1 ty1 nm1 u1 p1 rep1 pm1 | s0].
    + change (wp (ilm_go f r 0 (NLoop id1 ty1 nm1 u1 p1 rep1 pm1 :: rest))
                 (fun b => b = true -> lhit (NLoop id ty nm u p rep pm))).
      rewrite <- E.
      eapply wp_conseq.
      * apply (ilm_go_wp f r (NLoop id ty nm u p rep pm)); [|intros j c Hj; exact Hj].
        intros i c Hi Lc. apply IHf; [|exact Lc|].
        -- rewrite (node_at_snoc _ _ _ _ Hr). exact Hi.
        -- cbn [depth_ok node_children] in D. rewrite forallb_forall in D. apply D. exact (nth_error_In _ _ Hi).
      * intros b Hb Eb. destruct (Hb Eb) as [c [Hin [Lc Hc]]].
        apply (lhit_loop id ty nm u p rep pm (NLoop id1 ty1 nm1 u1 p1 rep1 pm1) rest c); auto.
    + assert (H0 : node_at ns (r ++ [0]) = Some (NSeg s0)).
      { rewrite (node_at_snoc _ _ _ _ Hr). cbn [node_children]. rewrite E. reflexivity. }
      destruct (smatch_ok _ _ H0) as [b Hb].
      eapply wp_bind_lift; [exact Hb|]. destruct b.
      * apply wp_ret. intros _. exact (lhit_seg id ty nm u p rep pm s0 rest E Hb).
      * destruct (usage_is u "R") eqn:ER; [|apply wp_ret; discriminate].
        destruct (wf_loop_seg _ _ _ _ _ _ _ _ _ _ Hr E) as [_ N].
        destruct (N (usage_R_not_N _ ER)) as [[xp Hxp] _].
        eapply wp_bind_lift; [exact Hxp|]. wstep.
        destruct (get_count c xp <? 1)%Z; [|apply wp_ret; discriminate].
        apply wp_seq; [|intros _; apply wp_ret; discriminate].
        apply append_missing_wp. rewrite removelast_snoc. right. eexists. split; [exact Hr | reflexivity].
Qed.


(* ------------------------------------------------------------------ *)
(* _goto_seg_match                                                      *)

(* the node returned is a matching segment, reached from r through loops and then a FIRST child *)
Definition gpost (r : nref) (res : option nref * list nref) : Prop :=
  match fst res with
  | Some r1 => exists js s1, r1 = r ++ js ++ [0] /\ node_at ns r1 = Some (NSeg s1) /\ smatch s1 = Ok true
  | None => True
  end.

Definition gpost' (r : nref) (n : node) (res : option nref * list nref) : Prop :=
  gpost r res /\ (lhit n -> fst res <> None /\ (FSH -> exists k, fst res = Some (r ++ repeat 0 (S k)))).

Definition goto_go (f : nat) (r : nref) :=
  fix go (i : nat) (cs : list node) : W (option nref * list nref) :=
    match cs with
    | [] => w_ret (None, [])
    | c :: cs' =>
        match c with
        | NLoop _ _ _ _ _ _ _ =>
            dow res <- goto_seg_match f m a (r ++ [i]) c;
            match fst res with
            | Some r1 =>
                dow t <- w_lift (node_truthy m r1);
                if t then w_ret (Some r1, r :: snd res) else go (S i) cs'
            | None => go (S i) cs'
            end
        | NSeg _ => go (S i) cs'
        end
    end.

Definition goto_spec (f : nat) : Prop :=
  forall r c, node_at ns r = Some c -> node_is_loop c = true -> deep_ne f c = true ->
              wp (goto_seg_match f m a r c) (gpost' r c).

Lemma goto_go_wp f r pn :
  node_at ns r = Some pn -> goto_spec f ->
  forall cs i,
    (forall j c, nth_error cs j = Some c -> nth_error (node_children pn) (i + j) = Some c) ->
    (forall c, In c cs -> deep_ne f c = true) ->
    wp (goto_go f r i cs)
       (fun res => gpost r res /\
                   ((exists c, In c cs /\ node_is_loop c = true /\ lhit c) -> fst res <> None) /\
                   (forall c cs', cs = c :: cs' -> node_is_loop c = true -> lhit c -> FSH ->
                                  exists k, fst res = Some ((r ++ [i]) ++ repeat 0 (S k)))).
Proof.
  intros Hr SP. induction cs as [|c cs IHcs]; intros i Hs Hd.
  - apply wp_ret. split; [exact I|]. split; [intros [c [[] _]] | intros c cs' E; discriminate].
  - assert (Hs' : forall j c', nth_error cs j = Some c' -> nth_error (node_children pn) (S i + j) = Some c').
    { intros j c' Hj. replace (S i + j) with (i + S j) by lia. apply Hs. exact Hj. }
    assert (Tail : forall (NH : node_is_loop c = true -> lhit c -> False),
               wp (goto_go f r (S i) cs)
                  (fun res => gpost r res /\
                     ((exists c', In c' (c :: cs) /\ node_is_loop c' = true /\ lhit c') -> fst res <> None) /\
                     (forall c' cs', c :: cs = c' :: cs' -> node_is_loop c' = true -> lhit c' -> FSH ->
                                  exists k, fst res = Some ((r ++ [i]) ++ repeat 0 (S k))))).
    { intros NH. eapply wp_conseq; [apply (IHcs (S i) Hs'); intros c' Hc'; apply Hd; right; exact Hc'|].
      intros res [G [C2 _]]. split; [exact G|]. split.
      - intros [c' [[<-|Hin] [Lc Hc]]]; [destruct (NH Lc Hc)|]. apply C2. eauto.
      - intros c' cs' E Lc Hc. injection E as <- <-. destruct (NH Lc Hc). }
    destruct c as [id ty nm u p rep pm | s0]; [|apply Tail; discriminate].
    change (wp (dow res <- goto_seg_match f m a (r ++ [i]) (NLoop id ty nm u p rep pm);
                match fst res with
                | Some r1 =>
                    dow t <- w_lift (node_truthy m r1);
                    if t then w_ret (Some r1, r :: snd res) else goto_go f r (S i) cs
                | None => goto_go f r (S i) cs
                end)
               (fun res => gpost r res /\
                   ((exists c, In c (NLoop id ty nm u p rep pm :: cs) /\ node_is_loop c = true /\ lhit c) -> fst res <> None) /\
                   (forall c cs', NLoop id ty nm u p rep pm :: cs = c :: cs' -> node_is_loop c = true -> lhit c -> FSH ->
                                  exists k, fst res = Some ((r ++ [i]) ++ repeat 0 (S k))))).
    assert (Hi : nth_error (node_children pn) i = Some (NLoop id ty nm u p rep pm)).
    { rewrite <- (Nat.add_0_r i). apply Hs. reflexivity. }
    eapply wp_bind.
    + apply SP; [rewrite (node_at_snoc _ _ _ _ Hr); exact Hi | reflexivity | apply Hd; left; reflexivity].
    + intros res [G L]. unfold gpost in G. destruct (fst res) as [r1|] eqn:Er1.
      * destruct G as [js [s1 [E1 [H1 M1]]]].
        eapply wp_bind_lift; [apply (node_truthy_seg _ _ H1)|]. apply wp_ret. split; [|split].
        -- unfold gpost. cbn [fst]. exists (i :: js), s1. split; [|split; assumption].
           rewrite E1. rewrite <- app_assoc. reflexivity.
        -- intros _. discriminate.
        -- intros c cs' E Lc Hc FS. injection E as <- <-. destruct (L Hc) as [_ Lk]. destruct (Lk FS) as [k Ek].
           exists k. exact Ek.
      * apply Tail. intros _ Hc. destruct (L Hc) as [N _]. apply N. reflexivity.
Qed.

Lemma goto_step f :
  goto_spec f ->
  forall r id ty nm u p rep pm first rest,
    node_at ns r = Some (NLoop id ty nm u p rep pm) -> pm_nodes pm = first :: rest ->
    ((exists s0, first = NSeg s0 /\ smatch s0 = Ok true) \/ forallb (deep_ne f) (pm_nodes pm) = true) ->
    wp (goto_seg_match (S f) m a r (NLoop id ty nm u p rep pm)) (gpost' r (NLoop id ty nm u p rep pm)).
Proof.
  intros SP r id ty nm u p rep pm first rest Hr E Pre.
  cbn [goto_seg_match]. rewrite E.
  change (wp (dow hit <- (match first with
                          | NSeg s0 => w_lift (smatch s0)
                          | NLoop _ _ _ _ _ _ _ => w_ret false
                          end);
              if hit then
                dow_ check_loop_usage m r (NLoop id ty nm u p rep pm) a;
                dow xp <- w_lift (node_x12path m (r ++ [0]));
                dow c <- w_counter_get;
                dow_ w_counter_set (increment c xp);
                dow_ flush_mandatory_segs None;
                w_ret (Some (r ++ [0]), [r])
              else goto_go f r 0 (first :: rest))
             (gpost' r (NLoop id ty nm u p rep pm))).
  assert (H0 : forall s0, first = NSeg s0 -> node_at ns (r ++ [0]) = Some (NSeg s0)).
  { intros s0 ->. rewrite (node_at_snoc _ _ _ _ Hr). cbn [node_children]. rewrite E. reflexivity. }
  eapply wp_bind with (Q := fun hit => (hit = true -> exists s0, first = NSeg s0 /\ smatch s0 = Ok true) /\
                                       (hit = false -> forall s0, first = NSeg s0 -> smatch s0 = Ok false)).
  - destruct first as [id1 ty1 nm1 u1 p1 rep1 pm1 | s0].
    + apply wp_ret. split; [discriminate | intros _ s0 E0; discriminate].
    + destruct (smatch_ok _ _ (H0 s0 eq_refl)) as [b Hb]. eapply wp_lift; [exact Hb|].
      split; intros ->; [eauto | intros s1 E1; injection E1 as <-; exact Hb].
  - intros hit [Q1 Q2]. destruct hit.
    + destruct (Q1 eq_refl) as [s0 [-> M0]]. specialize (H0 s0 eq_refl).
      apply wp_seq; [apply (check_loop_usage_wp _ _ _ _ _ _ _ _ _ _ Hr E)|intros _].
      destruct (wf_seg _ _ H0) as [_ [[xp Hxp] _]].
      eapply wp_bind_lift; [exact Hxp|]. wstep. wstep.
      apply wp_seq; [apply flush_mandatory_segs_wp|intros _]. apply wp_ret. split.
      * unfold gpost. cbn [fst]. exists [], s0. split; [reflexivity | split; assumption].
      * intros _. split; [discriminate|]. intros _. exists 0. reflexivity.
    + assert (D : forallb (deep_ne f) (pm_nodes pm) = true).
      { destruct Pre as [[s0 [-> M0]] | D]; [|exact D]. rewrite (Q2 eq_refl s0 eq_refl) in M0. discriminate. }
      rewrite <- E. eapply wp_conseq.
      * apply (goto_go_wp f r _ Hr SP (pm_nodes pm) 0); [intros j c Hj; exact Hj|].
        rewrite forallb_forall in D. exact D.
      * intros res [G [C2 C3]]. split; [exact G|]. intros LH.
        inversion LH as [id' ty' nm' u' p' rep' pm' s0 rest' E' M' | id' ty' nm' u' p' rep' pm' c0 rest' c E' L0 Hin Lc Hc]; subst.
        -- rewrite E in E'. injection E' as -> _. rewrite (Q2 eq_refl s0 eq_refl) in M'. discriminate.
        -- split; [apply C2; eauto|]. intros FS.
           rewrite E in E'. injection E' as <- <-.
           assert (Hc0 : lhit first).
           { pose proof (FS _ _ Hr) as F1. unfold first_single in F1. cbn [node_children] in F1. rewrite E in F1.
             destruct first; [|discriminate]. rewrite E in Hin. destruct Hin as [<- | Hin]; [exact Hc|].
             rewrite forallb_forall in F1. specialize (F1 _ Hin). rewrite Lc in F1. discriminate. }
           destruct (C3 first rest E L0 Hc0 FS) as [k Ek]. exists (S k). rewrite Ek.
           rewrite <- app_assoc. reflexivity.
Qed.

Lemma goto_spec_all f : goto_spec f.
Proof.
  induction f as [|f IHf]; intros r c Hr Lc D; [discriminate|].
  destruct c as [id ty nm u p rep pm | s]; [|discriminate].
  cbn [deep_ne] in D. destruct (pm_nodes pm) as [|first rest] eqn:E; [discriminate|].
  eapply goto_step; [exact IHf | exact Hr | exact E | right; rewrite E; exact D].
Qed.

Lemma goto_top r n :
  node_at ns r = Some n -> lhit n -> wp (goto_seg_match 40 m a r n) (gpost' r n).
Proof.
  intros Hr LH.
  inversion LH as [id ty nm u p rep pm s0 rest E M | id ty nm u p rep pm c0 rest c E L0 Hin Lc Hc]; subst.
  - eapply (goto_step 39 (goto_spec_all 39)); [exact Hr | exact E | left; eauto].
  - eapply (goto_step 39 (goto_spec_all 39)); [exact Hr | exact E | right].
    exact (wf_loop_loop _ _ _ _ _ _ _ _ _ _ Hr E L0 (lhit_can_hit _ LH 40)).
Qed.


(* ------------------------------------------------------------------ *)
(* walk: one turn of `while True`                                       *)

(* where the found node r' lies relative to the loop `cur` being scanned *)
Definition found_ok (cur r' : nref) : Prop :=
  (exists s1, node_at ns r' = Some (NSeg s1) /\ smatch s1 = Ok true) /\
  ((exists i, r' = cur ++ [i]) \/ (exists i js, r' = (cur ++ [i]) ++ js ++ [0])) /\
  (FSH -> (exists i, r' = cur ++ [i]) \/ (exists i k, r' = (cur ++ [i]) ++ repeat 0 (S k))).

Definition rpost (cur : nref) (res : walk_result) : Prop :=
  match fst (fst res) with Some r' => found_ok cur r' | None => True end.

Lemma found_self cur n res :
  gpost' cur n res -> lhit n -> match fst res with Some r' => found_ok cur r' | None => False end.
Proof.
  intros [G L] LH. destruct (L LH) as [N F]. unfold gpost in G.
  destruct (fst res) as [r'|]; [|congruence].
  destruct G as [js [s1 [E1 [H1 M1]]]]. split; [eauto|]. split.
  - destruct js as [|j js]; [left; exists 0; exact E1|].
    right. exists j, js. rewrite E1. rewrite <- app_assoc. reflexivity.
  - intros FS. destruct (F FS) as [[|k] Ek]; injection Ek as ->.
    + left. exists 0. reflexivity.
    + right. exists 0, k. rewrite <- app_assoc. reflexivity.
Qed.

Lemma found_child cur i n res :
  gpost' (cur ++ [i]) n res -> lhit n -> match fst res with Some r' => found_ok cur r' | None => False end.
Proof.
  intros [G L] LH. destruct (L LH) as [N F]. unfold gpost in G.
  destruct (fst res) as [r'|]; [|congruence].
  destruct G as [js [s1 [E1 [H1 M1]]]]. split; [eauto|]. split.
  - right. exists i, js. exact E1.
  - intros FS. destruct (F FS) as [k Ek]. injection Ek as ->. right. exists i, k. reflexivity.
Qed.

Lemma list_case {A B} (x : list A) (u v : B) :
  x <> [] -> match x with [] => u | _ :: _ => v end = v.
Proof. destruct x; congruence. Qed.

Lemma lm_wp cur :
  lref m cur ->
  wp (match cur with
      | [] => w_ret false
      | _ => dow n <- w_lift (get_node m cur); is_loop_match 40 m a cur n
      end)
     (fun lm => lm = true -> cur <> [] /\ exists n, node_at ns cur = Some n /\ lhit n).
Proof.
  intros [-> | [n [Hn Ln]]]; [apply wp_ret; discriminate|].
  assert (Hne : cur <> []) by (intros ->; discriminate).
  rewrite (list_case _ _ _ Hne).
  eapply wp_bind_lift; [apply get_node_ok, Hn|].
  eapply wp_conseq; [apply (is_loop_match_wp 40 _ _ Hn Ln); apply (wf_ref _ _ _ WF Hn)|].
  intros lm H E. split; [exact Hne|]. exists n. split; [exact Hn | apply H, E].
Qed.

Definition wl_scan (orig orig_loop cur : nref) (pop : list nref) :=
  fix scan (cs : list (nat * node)) : W (option walk_result) :=
    match cs with
    | [] => w_ret None
    | (i, c) :: rest =>
        let cr := cur ++ [i] in
        match c with
        | NSeg s0 =>
            dow b <- w_lift (seg_is_match (xg_d (a_x a)) (m_dataele m) s0 (xg_s (a_x a)));
            if b then
              dow lm <- (match cur with
                         | [] => w_ret false
                         | _ => dow n <- w_lift (get_node m cur); is_loop_match 40 m a cur n
                         end);
              if lm then
                dow_ (if orig_is_segment m orig then note_missing_children m a cur else w_ret tt);
                dow n <- w_lift (get_node m cur);
                dow g <- goto_seg_match 40 m a cur n;
                dow same <- w_lift (node_eq m cur orig_loop);
                if same then w_ret (Some (fst g, [cur], [cur]))
                else w_ret (Some (fst g, pop, snd g))
              else
                dow xp <- w_lift (node_x12path m cr);
                dow cn <- w_counter_get;
                dow_ w_counter_set (increment cn xp);
                dow_ check_seg_usage m cr s0 a;
                dow pid <- w_lift (parent_id m cr);
                dow ms <- w_missing_get;
                dow_ w_missing_set (filter (fun e => negb (ostr_eqb (me_id e) (s_id s0) && ostr_eqb (me_pid e) pid)) ms);
                dow_ flush_mandatory_segs (Some (s_pos s0));
                w_ret (Some (Some cr, pop, []))
            else if usage_is (s_usage s0) "R" then
              dow xp <- w_lift (node_x12path m cr);
              dow cn <- w_counter_get;
              dow_ (if (get_count cn xp <? 1)%Z
                    then append_missing m cr c (Walker.l "Mandatory segment """ ++ ostr0 (s_name s0) ++ Walker.l """ (" ++
                                                ostr0 (s_id s0) ++ Walker.l ") missing") a
                    else w_ret tt);
              scan rest
            else scan rest
        | NLoop _ _ _ _ _ _ _ =>
            dow lm <- is_loop_match 40 m a cr c;
            if lm then
              dow g <- goto_seg_match 40 m a cr c;
              w_ret (Some (fst g, pop, snd g))
            else scan rest
        end
    end.

Lemma walk_loop_S f orig orig_loop cur npos pop :
  walk_loop (S f) m a orig orig_loop cur npos pop =
  (dow kids <- w_lift (container_children m cur);
   dow found <- wl_scan orig orig_loop cur pop (filter (fun ic => (npos <=? node_pos (snd ic))%Z) (enumerate 0 kids));
   match found with
   | Some res => w_ret res
   | None =>
       match cur with
       | [] => dow_ seg_not_found_error m orig a; w_ret (None, [], [])
       | _ => dow n <- w_lift (get_node m cur);
              walk_loop f m a orig orig_loop (pop_to_parent_loop cur) (node_pos n) (pop ++ [cur])
       end
   end).
Proof. reflexivity. Qed.

Lemma scan_wp orig orig_loop cur pop :
  lref m cur -> (cur <> [] -> exists no, node_at ns orig_loop = Some no) ->
  forall cs, (forall i c, In (i, c) cs -> nth_error (kids m cur) i = Some c) ->
  wp (wl_scan orig orig_loop cur pop cs) (fun found => match found with Some res => rpost cur res | None => True end).
Proof.
  intros Hl Horig. induction cs as [|[i c] rest IH]; intros Hc; [apply wp_ret; exact I|].
  assert (Tail : wp (wl_scan orig orig_loop cur pop rest)
                    (fun found => match found with Some res => rpost cur res | None => True end)).
  { apply IH. intros i' c' Hin. apply Hc. right. exact Hin. }
  assert (Hcr : node_at ns (cur ++ [i]) = Some c).
  { rewrite (node_at_kids _ _ _ Hl). apply Hc. left. reflexivity. }
  destruct c as [id ty nm u p rep pm | s0]; cbn [wl_scan].
  - eapply wp_bind.
    + apply (is_loop_match_wp 40 _ _ Hcr); [reflexivity | apply (wf_ref _ _ _ WF Hcr)].
    + intros lm Hlm. destruct lm; [|exact Tail].
      eapply wp_bind; [apply (goto_top _ _ Hcr); apply Hlm; reflexivity|].
      intros g Hg. apply wp_ret. unfold rpost. cbn [fst].
      pose proof (found_child _ _ _ _ Hg (Hlm eq_refl)) as F. destruct (fst g); [exact F | exact I].
  - destruct (smatch_ok _ _ Hcr) as [b Hb]. eapply wp_bind_lift; [exact Hb|].
    destruct (wf_seg _ _ Hcr) as [_ [[xp Hxp] _]].
    destruct b.
    + eapply wp_bind; [apply (lm_wp cur Hl)|]. intros lm Hlm. destruct lm.
      * destruct (Hlm eq_refl) as [Hne [n [Hn LH]]].
        apply wp_seq; [destruct (orig_is_segment m orig); [apply (note_missing_children_wp cur Hl) | wunit] | intros _].
        eapply wp_bind_lift; [apply get_node_ok, Hn|].
        eapply wp_bind; [apply (goto_top _ _ Hn LH)|]. intros g Hg.
        destruct (Horig Hne) as [no Hno]. destruct (node_eq_ok _ _ _ _ Hn Hno) as [same Hsame].
        eapply wp_bind_lift; [exact Hsame|].
        pose proof (found_self _ _ _ Hg LH) as F.
        destruct same; apply wp_ret; unfold rpost; cbn [fst]; (destruct (fst g); [exact F | exact I]).
      * eapply wp_bind_lift; [exact Hxp|]. wstep. wstep.
        apply wp_seq; [apply (check_seg_usage_wp _ _ Hcr)|intros _].
        destruct (parent_id_ok m (cur ++ [i])) as [pid Hpid]; [rewrite removelast_snoc; exact Hl|].
        eapply wp_bind_lift; [exact Hpid|]. wstep. wstep.
        apply wp_seq; [apply flush_mandatory_segs_wp|intros _].
        apply wp_ret. unfold rpost. cbn [fst]. split; [eauto|]. split; [left; eauto | intros _; left; eauto].
    + destruct (usage_is (s_usage s0) "R"); [|exact Tail].
      eapply wp_bind_lift; [exact Hxp|]. wstep.
      apply wp_seq; [|intros _; exact Tail].
      destruct (get_count c xp <? 1)%Z; [|wunit].
      apply append_missing_wp. rewrite removelast_snoc. exact Hl.
Qed.

Lemma length_removelast {A} (r : list A) : r <> [] -> S (length (removelast r)) = length r.
Proof.
  intros H. destruct (exists_last H) as [r' [x ->]]. rewrite removelast_last, app_length. cbn [length]. lia.
Qed.

(* ------------------------------------------------------------------ *)
(* walk                                                                 *)

Definition wpost (start : nref) (res : walk_result) : Prop :=
  match fst (fst res) with
  | Some r' => exists anc, pfx anc (removelast start) /\ found_ok anc r'
  | None => True
  end.

Lemma walk_loop_wp start sn :
  node_at ns start = Some (NSeg sn) ->
  forall fuel cur npos pop,
    length cur < fuel -> lref m cur -> pfx cur (removelast start) ->
    wp (walk_loop fuel m a start (removelast start) cur npos pop) (wpost start).
Proof.
  intros Hstart. induction fuel as [|fuel IH]; intros cur npos pop Hlen Hl Hp; [lia|].
  rewrite walk_loop_S.
  eapply wp_bind_lift; [apply container_children_kids, Hl|].
  eapply wp_bind.
  - apply (scan_wp start (removelast start) cur pop Hl).
    + intros Hne. pose proof (pfx_nil_inv _ _ Hp Hne) as Hne'.
      destruct (node_at_removelast _ _ _ Hstart) as [E | [q [Hq _]]]; [congruence | eauto].
    + intros i c Hin. apply filter_In in Hin as [Hin _]. apply enumerate_nth in Hin as [_ Hin].
      rewrite Nat.sub_0_r in Hin. exact Hin.
  - intros found Hf. destruct found as [res|].
    + apply wp_ret. unfold wpost. unfold rpost in Hf. destruct (fst (fst res)); [eauto | exact I].
    + destruct Hl as [-> | [n [Hn Ln]]].
      * apply wp_seq; [apply (seg_not_found_error_wp _ _ Hstart) | intros _; apply wp_ret; exact I].
      * assert (Hne : cur <> []) by (intros ->; discriminate).
        rewrite (list_case _ _ _ Hne).
        eapply wp_bind_lift; [apply get_node_ok, Hn|]. unfold pop_to_parent_loop.
        apply IH.
        -- pose proof (length_removelast _ Hne). lia.
        -- apply lref_removelast. right. eauto.
        -- apply pfx_removelast, Hp.
Qed.

Lemma walk_body_wp start sn :
  node_at ns start = Some (NSeg sn) ->
  wp (dow_ w_missing_set [];
      match start with
      | [] => w_raise AttributeError
      | _ =>
          dow n0 <- w_lift (get_node m start);
          let cur0 := if node_is_loop n0 then start else pop_to_parent_loop start in
          walk_loop (S (length start)) m a start cur0 cur0 (node_pos n0) []
      end) (wpost start).
Proof.
  intros Hstart. wstep.
  assert (Hne : start <> []) by (intros ->; discriminate).
  rewrite (list_case _ _ _ Hne).
  eapply wp_bind_lift; [apply get_node_ok, Hstart|]. cbn [node_is_loop]. cbv zeta. unfold pop_to_parent_loop.
  apply (walk_loop_wp _ _ Hstart).
  - pose proof (length_removelast _ Hne). lia.
  - destruct (node_at_removelast _ _ _ Hstart) as [E | [q [Hq Lq]]]; [left; exact E | right; eauto].
  - apply pfx_refl.
Qed.

End Walk.

(* ------------------------------------------------------------------ *)
(* the theorems                                                         *)

Definition seg_ref (m : xmap) (r : nref) : Prop := exists sn, node_at (root_nodes m) r = Some (NSeg sn).

Definition mk_args (d : delims) (sg : seg) (seg_count cur_line : Z) (ls_id : option str) : wargs :=
  {| a_x := {| xg_d := d; xg_s := sg |}; a_seg_count := seg_count; a_cur_line := cur_line; a_ls := ls_id |}.

Lemma walk_w_wp m start d sg seg_count cur_line ls_id :
  walker_wf m = true -> seg_ref m start ->
  wp (walk_w m start d sg seg_count cur_line ls_id) (wpost m (mk_args d sg seg_count cur_line ls_id) start).
Proof. intros WF [sn Hs]. exact (walk_body_wp m WF (mk_args d sg seg_count cur_line ls_id) start sn Hs). Qed.

(* the walker never raises, and what it finds is a segment node *)
Theorem walker_total :
  forall m w start d sg seg_count cur_line ls_id,
    walker_wf m = true -> seg_ref m start ->
    match walk_st m w start d sg seg_count cur_line ls_id with
    | (_, _, Ok (Some r', _, _)) => seg_ref m r'
    | (_, _, Ok (None, _, _)) => True
    | (_, _, Raise e) => False
    end.
Proof.
  intros m w start d sg sc cl ls WF Hs. unfold walk_st.
  pose proof (walk_w_wp m start d sg sc cl ls WF Hs {| ws := w; wlog := [] |}) as H.
  destruct (walk_w m start d sg sc cl ls {| ws := w; wlog := [] |}) as [st [[[o pop] push]|e]]; [|exact H].
  unfold wpost in H. cbn [fst] in H. destruct o as [r'|]; [|exact I].
  destruct H as [anc [_ [[s1 [H1 _]] _]]]. exists s1. exact H1.
Qed.

(* what it finds matches the data segment *)
Theorem walker_match :
  forall m w start d sg sc cl ls r' pop push,
    walker_wf m = true -> seg_ref m start ->
    snd (walk_st m w start d sg sc cl ls) = Ok (Some r', pop, push) ->
    exists sn, node_at (root_nodes m) r' = Some (NSeg sn) /\ seg_is_match d (m_dataele m) sn sg = Ok true.
Proof.
  intros m w start d sg sc cl ls r' pop push WF Hs. unfold walk_st.
  pose proof (walk_w_wp m start d sg sc cl ls WF Hs {| ws := w; wlog := [] |}) as H.
  destruct (walk_w m start d sg sc cl ls {| ws := w; wlog := [] |}) as [st [res|e]]; [|destruct H].
  cbn [snd]. intros E. injection E as ->. unfold wpost in H. cbn [fst] in H.
  destruct H as [anc [_ [[s1 [H1 M1]] _]]]. exists s1. split; [exact H1 | exact M1].
Qed.

(* where it lies: a child of a loop that encloses `start`, or below such a child through loops and finally a
   FIRST child *)
Theorem walker_entry_gen :
  forall m w start d sg sc cl ls r' pop push,
    walker_wf m = true -> seg_ref m start ->
    snd (walk_st m w start d sg sc cl ls) = Ok (Some r', pop, push) ->
    exists anc, (exists n, length anc + n = length (removelast start) /\ anc = firstn (length anc) (removelast start)) /\
      ((exists i, r' = anc ++ [i]) \/ (exists i js, r' = (anc ++ [i]) ++ js ++ [0])).
Proof.
  intros m w start d sg sc cl ls r' pop push WF Hs. unfold walk_st.
  pose proof (walk_w_wp m start d sg sc cl ls WF Hs {| ws := w; wlog := [] |}) as H.
  destruct (walk_w m start d sg sc cl ls {| ws := w; wlog := [] |}) as [st [res|e]]; [|destruct H].
  cbn [snd]. intros E. injection E as ->. unfold wpost in H. cbn [fst] in H.
  destruct H as [anc [P [_ [S _]]]]. exists anc. split; [exact P | exact S].
Qed.

Definition first_chain (m : xmap) (anc r' : nref) : Prop :=
  exists k, r' = anc ++ repeat 0 (S k).

Theorem walker_entry' :
  forall m w start d sg sc cl ls r' pop push,
    walker_wf m = true -> walker_first_wf m = true -> seg_ref m start ->
    snd (walk_st m w start d sg sc cl ls) = Ok (Some r', pop, push) ->
    exists anc, (exists n, length anc + n = length (removelast start) /\ anc = firstn (length anc) (removelast start)) /\
      ((exists i, r' = anc ++ [i]) \/ (exists i, first_chain m (anc ++ [i]) r')).
Proof.
  intros m w start d sg sc cl ls r' pop push WF FW Hs. unfold walk_st.
  pose proof (walk_w_wp m start d sg sc cl ls WF Hs {| ws := w; wlog := [] |}) as H.
  destruct (walk_w m start d sg sc cl ls {| ws := w; wlog := [] |}) as [st [res|e]]; [|destruct H].
  cbn [snd]. intros E. injection E as ->. unfold wpost in H. cbn [fst] in H.
  destruct H as [anc [P [_ [_ S]]]]. exists anc. split; [exact P|].
  destruct S as [S | [i [k S]]].
  - intros r n Hn. exact (wf_first m r n WF FW Hn).
  - left. exact S.
  - right. exists i, k. exact S.
Qed.

(* the statement as asked for (the hypothesis says: the result component of walk_st is Ok (Some r', pop, push)) *)
Theorem walker_entry :
  forall m w start d sg sc cl ls r' pop push,
    walker_wf m = true -> walker_first_wf m = true -> seg_ref m start ->
    walk_st m w start d sg sc cl ls = (fst (fst (walk_st m w start d sg sc cl ls)), snd (fst (walk_st m w start d sg sc cl ls)), Ok (Some r', pop, push)) ->
    exists anc, (exists n, length anc + n = length (removelast start) /\ anc = firstn (length anc) (removelast start)) /\
      ((exists i, r' = anc ++ [i])
       \/ (exists i, first_chain m (anc ++ [i]) r')).
Proof.
  intros m w start d sg sc cl ls r' pop push WF FW Hs E.
  apply (walker_entry' m w start d sg sc cl ls r' pop push WF FW Hs). rewrite E. reflexivity.
Qed.

Print Assumptions walker_total.
Print Assumptions walker_match.
Print Assumptions walker_entry_gen.
Print Assumptions walker_entry.
