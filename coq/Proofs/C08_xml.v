(* C08_xml.v — the XML writer refines the event description of Spec/C08_spec.v; the events nest segments by map
   path; one segment's tree converts back to the segment. *)
From Coq Require Import String Lia.
From PX.Lib Require Import Base PyStr Xml.
From PX.Model Require Import Path Segment MapLoad MapTree OutW XmlOut XmlIn.
From PX.Spec Require Import C01_spec C08_spec.
From PX.Proofs Require Import C08_lemmas.

Local Definition l (s : string) : str := list_ascii_of_string s.

(* ---- escaping ---- *)
(* what an XML parser makes of character data / of a single-quoted attribute value *)
Fixpoint xml_unescape (s : str) : str :=
  match s with
  | "&"%char :: "a"%char :: "m"%char :: "p"%char :: ";"%char :: r => "&"%char :: xml_unescape r
  | "&"%char :: "l"%char :: "t"%char :: ";"%char :: r => "<"%char :: xml_unescape r
  | "&"%char :: "g"%char :: "t"%char :: ";"%char :: r => ">"%char :: xml_unescape r
  | "&"%char :: "a"%char :: "p"%char :: "o"%char :: "s"%char :: ";"%char :: r => "'"%char :: xml_unescape r
  | c :: r => c :: xml_unescape r
  | [] => []
  end.

Definition no_raw (bad : list ascii) (s : str) : bool := forallb (fun c => negb (mem_ascii c bad)) s.

Lemma unescape_cont_c : forall c r, xml_unescape (esc_cont_c c ++ r) = c :: xml_unescape r.
Proof. intros [[] [] [] [] [] [] [] []] r; reflexivity. Qed.

Lemma unescape_attr_c : forall c r, xml_unescape (esc_attr_c c ++ r) = c :: xml_unescape r.
Proof. intros [[] [] [] [] [] [] [] []] r; reflexivity. Qed.

Lemma unescape_flat (f : ascii -> str) :
  (forall c r, xml_unescape (f c ++ r) = c :: xml_unescape r) -> forall t, xml_unescape (flat_map f t) = t.
Proof. intros H t. induction t as [|c t IH]; [reflexivity|]. cbn [flat_map]. rewrite H, IH. reflexivity. Qed.

Lemma no_raw_flat bad (f : ascii -> str) :
  forallb (fun c => no_raw bad (f c)) all_ascii = true -> forall t, no_raw bad (flat_map f t) = true.
Proof.
  intros H t. unfold no_raw. rewrite forallb_flat_map. apply forallb_forall. intros c _.
  exact (forall_ascii (fun c => no_raw bad (f c)) H c).
Qed.

Theorem escape_cont_roundtrip : forall t, exists e, escape_cont (Some t) = Some e /\ xml_unescape e = t /\ no_raw ["<"%char; ">"%char] e = true.
Proof.
  intros t. exists (flat_map esc_cont_c t). split; [apply escape_cont_flat|]. split.
  - apply unescape_flat, unescape_cont_c.
  - apply no_raw_flat. vm_compute. reflexivity.
Qed.

Theorem escape_attr_roundtrip : forall t, exists e, escape_attr (Some t) = Some e /\ xml_unescape e = t /\ no_raw ["<"%char; ">"%char; "'"%char] e = true.
Proof.
  intros t. exists (flat_map esc_attr_c t). split; [apply escape_attr_flat|]. split.
  - apply unescape_flat, unescape_attr_c.
  - apply no_raw_flat. vm_compute. reflexivity.
Qed.

(* ---- the writer prints exactly the serialised events ---- *)
Definition run_model (xs : list located) : W xstate unit :=
  dow_ simple_init None;
  dow_ w_iter (fun x => simple_seg (TSeg (lc_gi x)) (lc_d x) (lc_seg x)) xs;
  simple_del.

(* every segment is located in a loop (no top-level segments), its recorded path is the path of its node, and
   no two consecutive paths are confused by the text-based prefix test *)
Fixpoint inputs_ok (last : list str) (xs : list located) : bool :=
  match xs with
  | [] => true
  | x :: r =>
      match gi_parent_path (lc_gi x) with
      | Ok pp => list_eqb str_eqb (path_list pp) (lc_path x)
      | Raise _ => false
      end && negb (match lc_path x with [] => true | _ => false end) && prefix_safe last (lc_path x) &&
      inputs_ok (lc_path x) r
  end.

(* The statement without the hypothesis inputs_fit,
     forall xs st chunks, inputs_ok [] xs = true -> run_model xs x_empty = (st, chunks, Ok tt) ->
       concat chunks = xml_decl ++ ser 0 (doc_events xs),
   held while the writer raised AttributeError on a composite with more components than its map node has
   sub-element nodes.  Since fix f38f280 the writer `break`s out of the loop instead: the run completes, but the
   components beyond the node's sub-elements are NOT written, while sub_events lists every component (with id None
   beyond the sub-ids).  So the statement is now FALSE (xml_text_refines_needs_fit, xml_text_refines_is_false).

   The other `break` of the same fix (more elements in the segment than children of the segment node) does not
   need a hypothesis: a run that completes has found exactly one child for every seq 1..len(children), so no child
   has a larger seq, child_for is None beyond len(children) and seg_events lists nothing there either
   (C08_lemmas.beyond_none).

   inputs_fit (fits_node, comp_fits in C08_lemmas.v) asks only what is needed: every composite element that is
   actually WRITTEN (its node is found, it is not a not-used element, it is not empty) has at most as many
   components as its node has sub-element nodes. *)
Definition inputs_fit (xs : list located) : bool := forallb (fun x => fits_node (lc_gi x) (lc_seg x)) xs.

Theorem xml_text_refines_corrected :
  forall xs st chunks,
    inputs_ok [] xs = true ->
    inputs_fit xs = true ->
    run_model xs x_empty = (st, chunks, Ok tt) ->
    concat chunks = xml_decl ++ ser 0 (doc_events xs).
Proof. intros xs st chunks OK FT H. exact (model_refines xs st chunks OK FT H). Qed.

(* one segment AB in loop L1; its only element is a composite whose node has ONE sub-element, the data has TWO
   components "x" and "y": the writer prints <subele id='AB01-1'>x</subele> only, the events also have
   <subele id='None'>y</subele> *)
Definition fit_cex_gi : seginfo :=
  {| gi_id := Some (l "AB"); gi_first := true; gi_parent_path := Ok (l "/L1");
     gi_children := [ {| ci_kind := CComp; ci_usage := None; ci_id := Some (l "AB01"); ci_seq := 1;
                         ci_subids := [Some (l "AB01-1")] |} ] |}.
Definition fit_cex_seg : seg := {| sid := Some (l "AB"); els := [[l "x"; l "y"]] |}.
Definition fit_cex : list located :=
  [ {| lc_gi := fit_cex_gi; lc_path := [l "L1"]; lc_d := XD; lc_seg := fit_cex_seg |} ].

Lemma xml_text_refines_needs_fit :
  inputs_ok [] fit_cex = true /\ inputs_fit fit_cex = false /\
  exists st chunks, run_model fit_cex x_empty = (st, chunks, Ok tt) /\
                    concat chunks <> xml_decl ++ ser 0 (doc_events fit_cex).
Proof.
  split; [vm_compute; reflexivity|]. split; [vm_compute; reflexivity|].
  destruct (run_model fit_cex x_empty) as [[st chunks] r] eqn:E. exists st, chunks.
  vm_compute in E. injection E as <- <- <-. split; [reflexivity|].
  intros C. apply (f_equal (@length ascii)) in C. vm_compute in C. discriminate C.
Qed.

Lemma xml_text_refines_is_false :
  ~ (forall xs st chunks, inputs_ok [] xs = true -> run_model xs x_empty = (st, chunks, Ok tt) ->
       concat chunks = xml_decl ++ ser 0 (doc_events xs)).
Proof.
  intros H. destruct xml_text_refines_needs_fit as (A & _ & st & chunks & R & D). exact (D (H _ _ _ A R)).
Qed.

(* ---- what the events guarantee ---- *)
Theorem doc_events_balanced : forall xs, balanced [] (doc_events xs) = true.
Proof. exact doc_balanced. Qed.

(* every segment element sits inside loop elements whose ids spell out exactly its path *)
Theorem seg_contexts_are_paths :
  forall xs, seg_contexts [] (doc_events xs) = map (fun x => map (@Some str) (lc_path x)) xs.
Proof. exact doc_contexts. Qed.

(* the first segment of a loop always opens a fresh element for that loop, also when the loop repeats *)
Theorem first_segment_opens_fresh_loop :
  forall last cur, cur <> [] ->
    exists pre, loop_events true last cur = pre ++ [XOpen (l "loop") (Some (Some (List.last cur [])))].
Proof. exact first_opens_fresh. Qed.

(* ---- one segment: tree -> segment ---- *)
Definition xd_free (s : seg) : bool :=
  match sid s with
  | Some id => negb (str_eqb id (l "ISA")) && free_of XD id && negb (match id with [] => true | _ => false end) &&
               forallb (fun c => forallb (free_of XD) c) (els s)
  | None => false
  end.

(* The statement without the hypothesis ids_parse is FALSE (seg_tree_roundtrip_is_false below).  get_segment reads the
   positions back by PARSING the id attributes ("CLM01", "CLM03-2") as reference designators
   (segment.py:_parse_refdes -> path.py:X12Path).  node_fits only says that the ids are sid ++ NN [++ "-" ++ M];
   such a string is a reference designator only when sid has the documented form (an upper-case letter followed
   by one or two upper-case letters/digits) and NN has two digits.  Otherwise the conversion raises:
     sid "a", one element "x":  id "a01"  is taken for a loop id      -> TypeError   (smallest counterexample)
     sid "A":                   id "A01"  is taken for the SEGMENT id -> EngineError
     sid "AB", 100 elements:    id "AB100" parses as segment "AB1", element 00 -> EngineError
   The statement does hold when no element is written at all (every element empty or not used).
   seg_tree_roundtrip_corrected adds the hypothesis ids_parse (C08_lemmas.v): every element that appears in the
   tree has a well-formed segment id and a position <= 99. *)

Definition cex_gi : seginfo :=
  {| gi_id := Some (l "a"); gi_first := true; gi_parent_path := Ok (l "/");
     gi_children := [ {| ci_kind := CEle; ci_usage := None; ci_id := Some (l "a01"); ci_seq := 1; ci_subids := [] |} ] |}.
Definition cex_seg : seg := {| sid := Some (l "a"); els := [[l "x"]] |}.

Lemma seg_tree_roundtrip_counterexample :
  node_fits cex_gi cex_seg = true /\ xd_free cex_seg = true /\
  get_segment (seg_tree cex_gi XD cex_seg) = Raise TypeError.
Proof. vm_compute. repeat split. Qed.

Lemma seg_tree_roundtrip_is_false :
  ~ (forall gi d s, node_fits gi s = true -> xd_free s = true ->
       exists s', get_segment (seg_tree gi d s) = Ok s' /\ format_seg XD s' = format_seg XD (blank_unused gi s)).
Proof.
  intros H. destruct seg_tree_roundtrip_counterexample as (A & B & C).
  destruct (H cex_gi XD cex_seg A B) as (s' & E & _). rewrite C in E. discriminate.
Qed.

Theorem seg_tree_roundtrip_corrected :
  forall gi d s, node_fits gi s = true -> xd_free s = true -> ids_parse gi s = true ->
    exists s', get_segment (seg_tree gi d s) = Ok s' /\ format_seg XD s' = format_seg XD (blank_unused gi s).
Proof.
  intros gi d s NF XF IP. unfold node_fits in NF. unfold xd_free in XF.
  destruct (sid s) as [sid0|] eqn:SID; [|discriminate]. destruct (gi_id gi) as [gid|] eqn:GID; [|discriminate].
  apply andb_true_iff in NF as [NF1 NF2]. apply str_eqb_eq in NF1. subst gid.
  apply andb_true_iff in XF as [XF X4]. apply andb_true_iff in XF as [XF X3]. apply andb_true_iff in XF as [X1 X2].
  apply negb_true_iff in X1. 
  assert (NE : sid0 <> []) by (destruct sid0; [discriminate | discriminate]).
  exact (seg_tree_back gi d s sid0 SID GID X1 X2 NE X4 NF2 IP).
Qed.

Print Assumptions escape_cont_roundtrip.
Print Assumptions escape_attr_roundtrip.
Print Assumptions xml_text_refines_corrected.
Print Assumptions xml_text_refines_needs_fit.
Print Assumptions xml_text_refines_is_false.
Print Assumptions doc_events_balanced.
Print Assumptions seg_contexts_are_paths.
Print Assumptions first_segment_opens_fresh_loop.
Print Assumptions seg_tree_roundtrip_corrected.
Print Assumptions seg_tree_roundtrip_counterexample.
Print Assumptions seg_tree_roundtrip_is_false.
