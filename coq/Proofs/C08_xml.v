(* C08_xml.v — the XML writer refines the event description of Spec/C08_spec.v; the events nest segments by map
   path; one segment's tree converts back to the segment. *)
From Coq Require Import String Lia.
From PX.Lib Require Import Base PyStr Xml.
From PX.Model Require Import Path Segment MapLoad MapTree OutW XmlOut XmlIn.
From PX.Spec Require Import C01_spec C08_spec.

Local Definition l (s : string) : str := list_ascii_of_string s.

(* ---- escaping ---- *)
(* what an XML parser makes of character data / of a single-quoted attribute value *)
Fixpoint xml_unescape (s : str) : str :=
  match s with
  | "&"%char :: "a"%char :: "m"%char :: "p"%char :: ";"%char :: r => "&"%char :: xml_unescape r
  | "&"%char :: "l"%char :: "t"%char :: ";"%char :: r => "<"%char :: xml_unescape r
  | "&"%char :: "g"%char :: "t"%char :: ";"%char :: r => ">"%char :: xml_unescape r
  | "&"%char :: "a"%char :: "p"%char :: "o"%char :: "s"%char :: ";"%char :: r => "'"%char :: xml_unescape r
  | c :: r => c :: xml_unescape r
  | [] => []
  end.

Definition no_raw (bad : list ascii) (s : str) : bool := forallb (fun c => negb (mem_ascii c bad)) s.

Theorem escape_cont_roundtrip : forall t, exists e, escape_cont (Some t) = Some e /\ xml_unescape e = t /\ no_raw ["<"%char; ">"%char] e = true.
Admitted.

Theorem escape_attr_roundtrip : forall t, exists e, escape_attr (Some t) = Some e /\ xml_unescape e = t /\ no_raw ["<"%char; ">"%char; "'"%char] e = true.
Admitted.

(* ---- the writer prints exactly the serialised events ---- *)
Definition run_model (xs : list located) : W xstate unit :=
  dow_ simple_init None;
  dow_ w_iter (fun x => simple_seg (TSeg (lc_gi x)) (lc_d x) (lc_seg x)) xs;
  simple_del.

(* every segment is located in a loop (no top-level segments), its recorded path is the path of its node, and
   no two consecutive paths are confused by the text-based prefix test *)
Fixpoint inputs_ok (last : list str) (xs : list located) : bool :=
  match xs with
  | [] => true
  | x :: r =>
      match gi_parent_path (lc_gi x) with
      | Ok pp => list_eqb str_eqb (path_list pp) (lc_path x)
      | Raise _ => false
      end && negb (match lc_path x with [] => true | _ => false end) && prefix_safe last (lc_path x) &&
      inputs_ok (lc_path x) r
  end.

Theorem xml_text_refines :
  forall xs st chunks,
    inputs_ok [] xs = true ->
    run_model xs x_empty = (st, chunks, Ok tt) ->
    concat chunks = xml_decl ++ ser 0 (doc_events xs).
Admitted.

(* ---- what the events guarantee ---- *)
Theorem doc_events_balanced : forall xs, balanced [] (doc_events xs) = true.
Admitted.

(* every segment element sits inside loop elements whose ids spell out exactly its path *)
Theorem seg_contexts_are_paths :
  forall xs, seg_contexts [] (doc_events xs) = map (fun x => map (@Some str) (lc_path x)) xs.
Admitted.

(* the first segment of a loop always opens a fresh element for that loop, also when the loop repeats *)
Theorem first_segment_opens_fresh_loop :
  forall last cur, cur <> [] ->
    exists pre, loop_events true last cur = pre ++ [XOpen (l "loop") (Some (Some (List.last cur [])))].
Admitted.

(* ---- one segment: tree -> segment ---- *)
Definition xd_free (s : seg) : bool :=
  match sid s with
  | Some id => negb (str_eqb id (l "ISA")) && free_of XD id && negb (match id with [] => true | _ => false end) &&
               forallb (fun c => forallb (free_of XD) c) (els s)
  | None => false
  end.

Theorem seg_tree_roundtrip :
  forall gi d s, node_fits gi s = true -> xd_free s = true ->
    exists s', get_segment (seg_tree gi d s) = Ok s' /\ format_seg XD s' = format_seg XD (blank_unused gi s).
Admitted.
