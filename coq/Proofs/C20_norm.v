(* C20_norm.v — the normaliser: formatting is stable under a read round trip
   (so normalising the output again changes nothing), and the count repair
   touches only the count field and removes exactly the count error. *)
From Coq Require Import String.
From PX.Lib Require Import Base PyStr PyInt.
From PX.Model Require Import Path Segment Raw Reader Writer Norm.
From PX.Spec Require Import C01_spec.
From PX.Proofs Require Import C01_roundtrip C17_segment.

(* ---------- N1 ---------- *)
Lemma format_comp_trim sub c : format_comp sub (trim_comp c) = format_comp sub c.
Proof.
  unfold format_comp. change (trim_comp c) with (keep ele_empty c).
  change (firstn (S (last_nonempty_idx ele_empty (keep ele_empty c))) (keep ele_empty c))
    with (keep ele_empty (keep ele_empty c)).
  rewrite keep_idem. reflexivity.
Qed.

Lemma format_rt d i xs :
  format_seg d {| sid := i; els := rt_els xs |} = format_seg d {| sid := i; els := xs |}.
Proof.
  rewrite !format_seg_body. f_equal. unfold seg_body. cbn [sid els]. f_equal. f_equal.
  destruct xs as [|c xs]; [reflexivity|]. f_equal.
  unfold rt_els. set (ys := c :: xs). clearbody ys.
  rewrite (keep_map trim_comp comp_empty comp_empty _ comp_empty_trim).
  rewrite keep_idem, map_map. apply map_ext. intros a. apply format_comp_trim.
Qed.

(* GOAL N1: what the normaliser writes for a segment is a fixed point of read-then-format *)
Theorem format_stable d s :
  distinct_delims d = true -> clean_seg d s = true ->
  format_seg d (parse_seg d (format_seg d s)) = format_seg d s.
Proof.
  intros Hd Hc. apply clean_iff in Hc. rewrite (parse_format d s Hd Hc).
  rewrite format_rt. destruct s; reflexivity.
Qed.

(* ---------- N2 ---------- *)
Lemma set_frame_other d s i v s' :
  set_ix d s (zi i, None) v = Ok s' ->
  sid s' = sid s /\ forall i' j', i' <> i -> cell s' i' j' = cell s i' j'.
Proof.
  intros H. rewrite set_ix_ele in H. injection H as <-. split; [reflexivity|].
  intros i' j' N. unfold cell; cbn [els].
  rewrite nth_set_nth by apply pad_lt.
  destruct (Nat.eqb_spec i' i); [contradiction|]. apply cell_pad_els.
Qed.

(* GOAL N2: the repair changes nothing but the first element (the count / sequence number) *)
Theorem fix_only_count d x s es s' :
  fix_seg d x s es = Ok s' ->
  sid s' = sid s /\ forall i j, i <> 0 -> cell s' i j = cell s i j.
Proof.
  unfold fix_seg. change (Some 0%Z) with (zi 0).
  intros H.
  repeat (match type of H with
          | (if ?b then _ else _) = _ => destruct b
          end; [apply set_frame_other in H; exact H|]).
  injection H as <-. split; reflexivity.
Qed.

(* GOAL N3: without a count error nothing is touched *)
Theorem fix_noop d x s es :
  has_code "021" es = false -> has_code "5" es = false -> has_code "4" es = false -> has_code "HL1" es = false ->
  fix_seg d x s es = Ok s.
Proof.
  intros H1 H2 H3 H4. unfold fix_seg. rewrite H1, H2, H3, H4, !andb_false_r. reflexivity.
Qed.

(* ---------- decimal numerals ---------- *)
Lemma digit_char_props : forall k, k < 10 ->
  is_digit (digit_char k) = true /\ digit_val (digit_char k) = k.
Proof.
  intros k H. do 10 (destruct k as [|k]; [split; reflexivity|]). lia.
Qed.

Lemma dec_val_snoc' u c : dec_val (u ++ [c]) = (dec_val u * 10 + N.of_nat (digit_val c))%N.
Proof. unfold dec_val. rewrite fold_left_app. reflexivity. Qed.

Lemma show_N_digits fuel : forall n acc, (n < 2 ^ N.of_nat (S fuel))%N ->
  exists u, show_N_fuel (S fuel) n acc = u ++ acc /\ all_digits u = true /\ u <> [] /\ dec_val u = n.
Proof.
  induction fuel as [|f IH]; intros n acc B.
  - cbn [show_N_fuel].
    assert (Q : (n / 10 = 0)%N) by (apply N.div_small; change (2 ^ N.of_nat 1)%N with 2%N in B; lia).
    rewrite Q. cbn [N.eqb].
    assert (M : (n mod 10 = n)%N) by (apply N.mod_small; change (2 ^ N.of_nat 1)%N with 2%N in B; lia).
    rewrite M.
    assert (K : N.to_nat n < 10) by (change (2 ^ N.of_nat 1)%N with 2%N in B; lia).
    destruct (digit_char_props _ K) as [D V].
    exists [digit_char (N.to_nat n)]. split; [reflexivity|]. split; [unfold all_digits; cbn [forallb]; rewrite D; reflexivity|].
    split; [discriminate|]. unfold dec_val. cbn [fold_left]. rewrite V. lia.
  - remember (S f) as g. cbn [show_N_fuel].
    pose proof (N.mod_lt n 10 ltac:(lia)) as ML.
    assert (K : N.to_nat (n mod 10) < 10) by lia.
    destruct (digit_char_props _ K) as [D V].
    pose proof (N.div_mod n 10 ltac:(lia)) as DM.
    destruct (N.eqb_spec (n / 10) 0) as [Q|Q].
    + exists [digit_char (N.to_nat (n mod 10))]. split; [reflexivity|]. split; [unfold all_digits; cbn [forallb]; rewrite D; reflexivity|].
      split; [discriminate|]. unfold dec_val. cbn [fold_left]. rewrite V. lia.
    + assert (B' : (n / 10 < 2 ^ N.of_nat g)%N).
      { rewrite Nat2N.inj_succ, N.pow_succ_r' in B. lia. }
      subst g. destruct (IH (n / 10)%N (digit_char (N.to_nat (n mod 10)) :: acc) B') as (u & E & A & _ & DV).
      exists (u ++ [digit_char (N.to_nat (n mod 10))]). split.
      * rewrite E, <- app_assoc. reflexivity.
      * split.
        { unfold all_digits in *. rewrite forallb_app, A. cbn [forallb]. rewrite D. reflexivity. }
        split; [destruct u; discriminate|].
        rewrite dec_val_snoc', DV, V. lia.
Qed.

Lemma fmt_d_digits n :
  all_digits (fmt_d n) = true /\ fmt_d n <> [] /\ dec_val (fmt_d n) = n.
Proof.
  unfold fmt_d.
  assert (B : (n < 2 ^ N.of_nat (S (N.to_nat (N.log2 n))))%N).
  { rewrite Nat2N.inj_succ, N2Nat.id. destruct n as [|p]; [reflexivity|].
    apply N.log2_spec. lia. }
  destruct (show_N_digits _ n [] B) as (u & E & A & NE & DV).
  rewrite E, app_nil_r. auto.
Qed.

Definition fZ (acc : Z) (c : ascii) : Z := (acc * 10 + Z.of_nat (digit_val c))%Z.

Lemma int_body_digits s : all_digits s = true -> forall acc,
  int_body s 1 acc = Some (fold_left fZ s acc).
Proof.
  induction s as [|c s IH]; intros A acc; [reflexivity|].
  cbn in A. apply andb_true_iff in A as [A1 A2].
  cbn [int_body fold_left]. rewrite A1. apply IH. exact A2.
Qed.

Lemma int_body_digits0 s : all_digits s = true -> s <> [] ->
  int_body s 0 0%Z = Some (fold_left fZ s 0%Z).
Proof.
  destruct s as [|c s]; [congruence|]. intros A _.
  cbn in A. apply andb_true_iff in A as [A1 A2].
  cbn [int_body fold_left]. rewrite A1. apply int_body_digits. exact A2.
Qed.

Lemma fold_fZ_dec s : forall a,
  fold_left fZ s (Z.of_N a) =
  Z.of_N (fold_left (fun acc c => (acc * 10 + N.of_nat (digit_val c))%N) s a).
Proof.
  induction s as [|c s IH]; intros a; [reflexivity|].
  cbn [fold_left]. rewrite <- IH. f_equal. unfold fZ. lia.
Qed.

Lemma int_body_fmt_d n : int_body (fmt_d n) 0 0%Z = Some (Z.of_N n).
Proof.
  destruct (fmt_d_digits n) as (A & NE & DV).
  rewrite int_body_digits0 by assumption.
  change 0%Z with (Z.of_N 0). rewrite fold_fZ_dec. fold (dec_val (fmt_d n)). rewrite DV. reflexivity.
Qed.

Definition numch (c : ascii) : bool := is_digit c || Ascii.eqb c "-"%char.

Lemma numch_nospace : forall c, numch c = true -> is_space c = false.
Proof.
  assert (H : forall c, implb (numch c) (negb (is_space c)) = true)
    by (apply forall_ascii; vm_compute; reflexivity).
  intros c N. specialize (H c). rewrite N in H. cbn in H. apply negb_true_iff in H. exact H.
Qed.

Lemma lstrip_nospace s : (forall c, In c s -> is_space c = false) -> lstrip_ws s = s.
Proof. destruct s as [|c s]; [reflexivity|]. intros H. cbn. rewrite H by (left; reflexivity). reflexivity. Qed.

Lemma strip_nospace s : (forall c, In c s -> is_space c = false) -> strip_ws s = s.
Proof.
  intros H. unfold strip_ws, rstrip_ws. rewrite (lstrip_nospace s H).
  rewrite lstrip_nospace; [apply rev_involutive|]. intros c Hc. apply H. apply in_rev. exact Hc.
Qed.

Lemma fmt_d_numch n c : In c (fmt_d n) -> is_digit c = true.
Proof.
  destruct (fmt_d_digits n) as (A & _). unfold all_digits in A. rewrite forallb_forall in A. apply A.
Qed.

Lemma fmt_Z_numch z c : In c (fmt_Z z) -> numch c = true.
Proof.
  unfold numch. destruct z as [|p|p]; cbn [fmt_Z].
  - intros H. rewrite (fmt_d_numch _ _ H). reflexivity.
  - intros H. rewrite (fmt_d_numch _ _ H). reflexivity.
  - intros [<-|H]; [reflexivity|]. rewrite (fmt_d_numch _ _ H). reflexivity.
Qed.

Lemma digit_not_sign : forall c, is_digit c = true ->
  Ascii.eqb c "+"%char = false /\ Ascii.eqb c "-"%char = false.
Proof.
  assert (H : forall c, implb (is_digit c) (negb (Ascii.eqb c "+"%char) && negb (Ascii.eqb c "-"%char)) = true)
    by (apply forall_ascii; vm_compute; reflexivity).
  intros c D. specialize (H c). rewrite D in H. cbn [implb] in H.
  apply andb_true_iff in H as [H1 H2]. apply negb_true_iff in H1, H2. auto.
Qed.

Lemma py_int_fmt_d n : py_int (fmt_d n) = Some (Z.of_N n).
Proof.
  unfold py_int. rewrite strip_nospace.
  2:{ intros c Hc. apply numch_nospace. unfold numch. rewrite (fmt_d_numch _ _ Hc). reflexivity. }
  pose proof (int_body_fmt_d n) as IB. pose proof (fmt_d_numch n) as DG.
  destruct (fmt_d_digits n) as (_ & NE & _).
  destruct (fmt_d n) as [|c r]; [congruence|].
  destruct (digit_not_sign c (DG c (or_introl eq_refl))) as [P M]. rewrite P, M. exact IB.
Qed.

Lemma py_int_fmt_Z z : py_int (fmt_Z z) = Some z.
Proof.
  destruct z as [|p|p]; cbn [fmt_Z].
  - rewrite py_int_fmt_d. reflexivity.
  - rewrite py_int_fmt_d. reflexivity.
  - unfold py_int. rewrite strip_nospace.
    2:{ intros c Hc. apply numch_nospace. apply (fmt_Z_numch (Zneg p)). exact Hc. }
    cbn [Ascii.eqb Bool.eqb]. cbn [andb]. 
    rewrite int_body_fmt_d. reflexivity.
Qed.

Lemma fmt_Z_nonnil z : fmt_Z z <> [].
Proof.
  destruct z as [|p|p]; cbn [fmt_Z]; try discriminate; apply fmt_d_digits.
Qed.

(* decimal numerals never contain the component separator unless it is a digit or '-' *)
Definition sep_not_numeric (d : delims) : Prop :=
  is_digit (subele_term d) = false /\ subele_term d <> "-"%char.

Definition codes_but (c : string) (es : list err) : list (str * str) :=
  map (fun e => (e_lvl e, e_code e)) (filter (fun e => negb (str_eqb (e_code e) (list_ascii_of_string c))) es).

Lemma fmt_Z_nosep d z : sep_not_numeric d -> ~ In (subele_term d) (fmt_Z z).
Proof.
  intros [H1 H2] H. apply fmt_Z_numch in H. unfold numch in H. rewrite H1 in H. cbn [orb] in H.
  apply Ascii.eqb_eq in H. contradiction.
Qed.

(* ---------- the repaired segment ---------- *)
Lemma set0_shape d s v s' :
  ~ In (subele_term d) v -> set_ix d s (zi 0, None) v = Ok s' ->
  s' = {| sid := sid s; els := [v] :: tl (els s) |}.
Proof.
  intros HV H. rewrite set_ix_ele in H. injection H as <-. f_equal.
  assert (I : is_isa16 s 0 = false) by (unfold is_isa16; apply andb_false_r).
  rewrite I, (split_notin _ _ HV).
  destruct (els s) as [|c r]; [reflexivity|].
  unfold pad_to.
  replace (Z.to_nat (0 + 1 - Z.of_nat (length (c :: r)))) with 0 by (cbn [length]; lia).
  cbn [repeat]. rewrite app_nil_r. reflexivity.
Qed.

Definition e_base (x : xstate) (s : seg) : list err :=
  (if seg_empty s then [mk_err "seg" "8" (Some (cur_line x + 1)%Z)] else []) ++
  (if seg_id_valid s then [] else [mk_err "seg" "1" (Some (cur_line x + 1)%Z)]).

Definition bump (x : xstate) : xstate :=
  {| loops := loops x; hl_stack := hl_stack x; gs_count := gs_count x; st_count := st_count x;
     hl_count := hl_count x; seg_count := seg_count x; cur_line := (cur_line x + 1)%Z;
     isa_ids := isa_ids x; gs_ids := gs_ids x; st_ids := st_ids x;
     lx_count := lx_count x; check_837_lx := check_837_lx x |}.

Lemma set0_props d s v s' :
  ~ In (subele_term d) v -> v <> [] -> set_ix d s (zi 0, None) v = Ok s' ->
  sid s' = sid s /\ seg_empty s' = false /\ ev d s' 1 = Some v /\ ev d s' 2 = ev d s 2.
Proof.
  intros HV NE H. rewrite (set0_shape d s v s' HV H). cbn [sid]. split; [reflexivity|].
  split; [|split].
  - unfold seg_empty. cbn [els forallb comp_empty]. destruct v; [congruence|reflexivity].
  - reflexivity.
  - unfold ev. cbn [els]. destruct (els s) as [|c [|c2 r]]; reflexivity.
Qed.

Lemma e_base_eq x s s' :
  sid s' = sid s -> seg_empty s = false -> seg_empty s' = false -> e_base x s' = e_base x s.
Proof.
  intros HS E E'. unfold e_base, seg_id_valid. rewrite HS, E, E'. reflexivity.
Qed.

Lemma sid_is_eq s a : sid_is s a = true -> sid s = Some (list_ascii_of_string a).
Proof.
  unfold sid_is. destruct (sid s) as [i|]; cbn [opt_eqb]; [|discriminate].
  intros H. apply str_eqb_eq in H. subst. reflexivity.
Qed.

Lemma sid_is_of s a b : sid s = Some (list_ascii_of_string a) ->
  sid_is s b = str_eqb (list_ascii_of_string a) (list_ascii_of_string b).
Proof. unfold sid_is. intros ->. reflexivity. Qed.

Lemma base_trailer_exact d x s a :
  sid s = Some (list_ascii_of_string a) -> In a ["SE"; "GE"; "IEA"]%string ->
  base_step d x s = Ok (bump x, e_base x s).
Proof.
  intros HS Ha. unfold base_step.
  assert (N : forall b, In b ["ISA"; "GS"; "ST"; "HL"; "CLM"; "LX"]%string -> sid_is s b = false).
  { intros b Hb. rewrite (sid_is_of s a b HS). cbn [In] in Ha, Hb.
    destruct Ha as [<-|[<-|[<-|[]]]]; destruct Hb as [<-|[<-|[<-|[<-|[<-|[<-|[]]]]]]]; reflexivity. }
  rewrite (N "ISA"%string), (N "GS"%string), (N "ST"%string), (N "HL"%string), (N "CLM"%string), (N "LX"%string)
    by (cbn [In]; tauto).
  rewrite !andb_false_r. rewrite HS.
  assert (U : mem_str (list_ascii_of_string a) SrcConsts.uncounted_ids = true).
  { cbn [In] in Ha. destruct Ha as [<-|[<-|[<-|[]]]]; reflexivity. }
  rewrite U. reflexivity.
Qed.

Lemma has_code_app c a b : has_code c (a ++ b) = has_code c a || has_code c b.
Proof. unfold has_code. apply existsb_app. Qed.

Lemma codes_but_app c a b : codes_but c (a ++ b) = codes_but c a ++ codes_but c b.
Proof. unfold codes_but. rewrite filter_app, map_app. reflexivity. Qed.

Lemma e_base_code c x s : seg_empty s = false ->
  str_eqb (list_ascii_of_string "1") (list_ascii_of_string c) = false ->
  has_code c (e_base x s) = false.
Proof.
  intros E N. unfold e_base. rewrite E. destruct (seg_id_valid s); [reflexivity|].
  change (str_eqb (list_ascii_of_string "1") (list_ascii_of_string c) || false = false).
  rewrite N. reflexivity.
Qed.

Lemma count_ok z : optZ_eqb (int_opt (Some (fmt_Z z))) z = true.
Proof. cbn [int_opt]. rewrite py_int_fmt_Z. cbn [optZ_eqb]. apply Z.eqb_refl. Qed.

(* ---------- exact forms of the trailer steps ---------- *)
Lemma reader_SE_exact d x s : sid s = Some (list_ascii_of_string "SE") ->
  reader_step d x s =
  match loops x with
  | [] => Ok (bump x, e_base x s ++ [mk_err "st" "3" None])
  | (kind, id) :: rest =>
      Ok (with_loops (bump x) rest,
          e_base x s ++
          (if str_eqb kind (list_ascii_of_string "ST") && oid_eqb id (ev d s 2) then [] else [mk_err "st" "3" None]) ++
          (if optZ_eqb (int_opt (ev d s 1)) (seg_count x + 1)%Z then [] else [mk_err "st" "4" None]))
  end.
Proof.
  intros HS. unfold reader_step.
  assert (H1 : sid_is s "ISA" = false) by (rewrite (sid_is_of s "SE") by exact HS; reflexivity).
  assert (H2 : sid_is s "GS" = false) by (rewrite (sid_is_of s "SE") by exact HS; reflexivity).
  assert (H3 : sid_is s "ST" = false) by (rewrite (sid_is_of s "SE") by exact HS; reflexivity).
  assert (H4 : sid_is s "IEA" = false) by (rewrite (sid_is_of s "SE") by exact HS; reflexivity).
  assert (H5 : sid_is s "GE" = false) by (rewrite (sid_is_of s "SE") by exact HS; reflexivity).
  assert (H6 : sid_is s "SE" = true) by (rewrite (sid_is_of s "SE") by exact HS; reflexivity).
  rewrite H1, H2, H3, H4, H5, H6.
  rewrite (base_trailer_exact d x s "SE" HS) by (cbn [In]; tauto).
  cbn [bind app]. cbn [bump loops seg_count]. fold (bump x).
  destruct (loops x) as [|[kind id] rest]; reflexivity.
Qed.

(* GOAL N4: after the repair the trailer is read without the count error and with
   exactly the same other errors and the same resulting state.
   ADDED HYPOTHESIS Hnonempty: the original trailer is not an empty segment
   (otherwise the repair also removes the seg/8 "segment is empty" error). *)
Theorem fix_repairs_se d x s x' es s' :
  sep_not_numeric d -> sid_is s "SE" = true ->
  forall Hnonempty : seg_empty s = false,
  reader_step d x s = Ok (x', es) -> has_code "4" es = true -> fix_seg d x' s es = Ok s' ->
  exists es', reader_step d x s' = Ok (x', es') /\ has_code "4" es' = false /\ codes_but "4" es' = codes_but "4" es.
Proof.
  intros SN HS Hne HR HC HF.
  pose proof (sid_is_eq s _ HS) as HS'.
  unfold fix_seg in HF.
  rewrite (sid_is_of s "SE" "IEA" HS'), (sid_is_of s "SE" "GE" HS'), HS, HC in HF.
  cbn [andb] in HF. change (str_eqb _ _ && _) with false in HF. cbv iota in HF.
  change (Some 0%Z) with (zi 0) in HF.
  rewrite (reader_SE_exact d x s HS') in HR.
  destruct (loops x) as [|[kind id] rest] eqn:L.
  - injection HR as <- <-. rewrite has_code_app, (e_base_code "4" x s Hne eq_refl) in HC. discriminate.
  - injection HR as <- <-. cbn [with_loops bump seg_count] in HF.
    destruct (set0_props d s _ s' (fmt_Z_nosep d _ SN) (fmt_Z_nonnil _) HF) as (S1 & S2 & S3 & S4).
    rewrite (reader_SE_exact d x s') by (rewrite S1; exact HS').
    rewrite L, S3, S4, count_ok, (e_base_eq x s s' S1 Hne S2).
    eexists. split; [reflexivity|].
    set (e1 := if _ && _ then _ else _).
    assert (E1 : has_code "4" e1 = false) by (subst e1; destruct (_ && _); reflexivity).
    split.
    + rewrite !has_code_app, (e_base_code "4" x s Hne eq_refl), E1. reflexivity.
    + rewrite !codes_but_app. f_equal. f_equal.
      destruct (optZ_eqb _ _); reflexivity.
Qed.

Definition pop_other (k lvl code : string) (lp : list (str * option str)) : list (str * option str) * list err :=
  match lp with
  | (kind, _) :: rest => if str_eqb kind (list_ascii_of_string k) then (lp, []) else (rest, [mk_err lvl code None])
  | [] => ([], [])
  end.

Lemma pop_other_code c k lvl code lp :
  str_eqb (list_ascii_of_string code) (list_ascii_of_string c) = false ->
  has_code c (snd (pop_other k lvl code lp)) = false.
Proof.
  intros N. unfold pop_other. destruct lp as [|[kind i] rest]; [reflexivity|].
  destruct (str_eqb kind _); [reflexivity|].
  change (str_eqb (list_ascii_of_string code) (list_ascii_of_string c) || false = false).
  rewrite N. reflexivity.
Qed.

Lemma reader_GE_exact d x s : sid s = Some (list_ascii_of_string "GE") ->
  reader_step d x s =
  let (lp, e1) := pop_other "GS" "gs" "3" (loops x) in
  match lp with
  | [] => Ok (with_loops (bump x) [], e_base x s ++ e1 ++ [mk_err "gs" "4" None])
  | (_, id) :: rest =>
      Ok (with_loops (bump x) rest,
          e_base x s ++ e1 ++
          (if oid_eqb id (ev d s 2) then [] else [mk_err "gs" "4" None]) ++
          (if optZ_eqb (int_opt (ev d s 1)) (st_count x) then [] else [mk_err "gs" "5" None]))
  end.
Proof.
  intros HS. unfold reader_step.
  assert (H1 : sid_is s "ISA" = false) by (rewrite (sid_is_of s "GE") by exact HS; reflexivity).
  assert (H2 : sid_is s "GS" = false) by (rewrite (sid_is_of s "GE") by exact HS; reflexivity).
  assert (H3 : sid_is s "ST" = false) by (rewrite (sid_is_of s "GE") by exact HS; reflexivity).
  assert (H4 : sid_is s "IEA" = false) by (rewrite (sid_is_of s "GE") by exact HS; reflexivity).
  assert (H5 : sid_is s "GE" = true) by (rewrite (sid_is_of s "GE") by exact HS; reflexivity).
  rewrite H1, H2, H3, H4, H5.
  rewrite (base_trailer_exact d x s "GE" HS) by (cbn [In]; tauto).
  cbn [bind app]. cbn [bump loops st_count]. fold (bump x).
  unfold pop_other.
  destruct (loops x) as [|[kind id] rest]; [reflexivity|].
  destruct (str_eqb kind _); [reflexivity|]. destruct rest as [|[k2 i2] r2]; reflexivity.
Qed.

Theorem fix_repairs_ge d x s x' es s' :
  sep_not_numeric d -> sid_is s "GE" = true ->
  forall Hnonempty : seg_empty s = false,
  reader_step d x s = Ok (x', es) -> has_code "5" es = true -> fix_seg d x' s es = Ok s' ->
  exists es', reader_step d x s' = Ok (x', es') /\ has_code "5" es' = false /\ codes_but "5" es' = codes_but "5" es.
Proof.
  intros SN HS Hne HR HC HF.
  pose proof (sid_is_eq s _ HS) as HS'.
  unfold fix_seg in HF.
  rewrite (sid_is_of s "GE" "IEA" HS'), HS, HC in HF.
  cbn [andb] in HF. change (str_eqb _ _ && _) with false in HF. cbv iota in HF.
  change (Some 0%Z) with (zi 0) in HF.
  rewrite (reader_GE_exact d x s HS') in HR.
  pose proof (pop_other_code "5" "GS" "gs" "3" (loops x) eq_refl) as E1.
  destruct (pop_other "GS" "gs" "3" (loops x)) as [lp e1] eqn:P. cbn [snd] in E1.
  destruct lp as [|[k id] rest].
  - injection HR as <- <-.
    rewrite !has_code_app, (e_base_code "5" x s Hne eq_refl), E1 in HC. discriminate.
  - injection HR as <- <-. cbn [with_loops bump st_count] in HF.
    destruct (set0_props d s _ s' (fmt_Z_nosep d _ SN) (fmt_Z_nonnil _) HF) as (S1 & S2 & S3 & S4).
    rewrite (reader_GE_exact d x s') by (rewrite S1; exact HS').
    rewrite P, S3, S4, count_ok, (e_base_eq x s s' S1 Hne S2).
    eexists. split; [reflexivity|].
    set (e2 := if oid_eqb _ _ then _ else _).
    assert (E2 : has_code "5" e2 = false) by (subst e2; destruct (oid_eqb _ _); reflexivity).
    split.
    + rewrite !has_code_app, (e_base_code "5" x s Hne eq_refl), E1, E2. reflexivity.
    + rewrite !codes_but_app. f_equal. f_equal. f_equal.
      destruct (optZ_eqb _ _); reflexivity.
Qed.

Lemma reader_IEA_exact d x s : sid s = Some (list_ascii_of_string "IEA") ->
  reader_step d x s =
  let (lp, e1) := pop_other "ISA" "isa" "024" (loops x) in
  match lp with
  | [] => Ok (with_loops (bump x) [], e_base x s ++ e1 ++ [mk_err "isa" "001" None])
  | (_, id) :: rest =>
      Ok (with_loops (bump x) rest,
          e_base x s ++ e1 ++
          (if oid_eqb id (ev d s 2) then [] else [mk_err "isa" "001" None]) ++
          (if optZ_eqb (int_opt (ev d s 1)) (gs_count x) then [] else [mk_err "isa" "021" None]))
  end.
Proof.
  intros HS. unfold reader_step.
  assert (H1 : sid_is s "ISA" = false) by (rewrite (sid_is_of s "IEA") by exact HS; reflexivity).
  assert (H2 : sid_is s "GS" = false) by (rewrite (sid_is_of s "IEA") by exact HS; reflexivity).
  assert (H3 : sid_is s "ST" = false) by (rewrite (sid_is_of s "IEA") by exact HS; reflexivity).
  assert (H4 : sid_is s "IEA" = true) by (rewrite (sid_is_of s "IEA") by exact HS; reflexivity).
  rewrite H1, H2, H3, H4.
  rewrite (base_trailer_exact d x s "IEA" HS) by (cbn [In]; tauto).
  cbn [bind app]. cbn [bump loops gs_count]. fold (bump x).
  unfold pop_other.
  destruct (loops x) as [|[kind id] rest]; [reflexivity|].
  destruct (str_eqb kind _); [reflexivity|]. destruct rest as [|[k2 i2] r2]; reflexivity.
Qed.

Theorem fix_repairs_iea d x s x' es s' :
  sep_not_numeric d -> sid_is s "IEA" = true ->
  forall Hnonempty : seg_empty s = false,
  reader_step d x s = Ok (x', es) -> has_code "021" es = true -> fix_seg d x' s es = Ok s' ->
  exists es', reader_step d x s' = Ok (x', es') /\ has_code "021" es' = false /\ codes_but "021" es' = codes_but "021" es.
Proof.
  intros SN HS Hne HR HC HF.
  pose proof (sid_is_eq s _ HS) as HS'.
  unfold fix_seg in HF.
  rewrite HS, HC in HF.
  cbn [andb] in HF. cbv iota in HF.
  change (Some 0%Z) with (zi 0) in HF.
  rewrite (reader_IEA_exact d x s HS') in HR.
  pose proof (pop_other_code "021" "ISA" "isa" "024" (loops x) eq_refl) as E1.
  destruct (pop_other "ISA" "isa" "024" (loops x)) as [lp e1] eqn:P. cbn [snd] in E1.
  destruct lp as [|[k id] rest].
  - injection HR as <- <-.
    rewrite !has_code_app, (e_base_code "021" x s Hne eq_refl), E1 in HC. discriminate.
  - injection HR as <- <-. cbn [with_loops bump gs_count] in HF.
    destruct (set0_props d s _ s' (fmt_Z_nosep d _ SN) (fmt_Z_nonnil _) HF) as (S1 & S2 & S3 & S4).
    rewrite (reader_IEA_exact d x s') by (rewrite S1; exact HS').
    rewrite P, S3, S4, count_ok, (e_base_eq x s s' S1 Hne S2).
    eexists. split; [reflexivity|].
    set (e2 := if oid_eqb _ _ then _ else _).
    assert (E2 : has_code "021" e2 = false) by (subst e2; destruct (oid_eqb _ _); reflexivity).
    split.
    + rewrite !has_code_app, (e_base_code "021" x s Hne eq_refl), E1, E2. reflexivity.
    + rewrite !codes_but_app. f_equal. f_equal. f_equal.
      destruct (optZ_eqb _ _); reflexivity.
Qed.


(* ---------- why Hnonempty is needed: the statements without it are false ----------
   An element-less trailer (e.g. "SE~") is reported both as empty (seg/8) and with a
   wrong count; the repair writes the count, so the re-read trailer is no longer empty
   and the seg/8 error disappears together with the count error. *)
Definition cx_d : delims := {| seg_term := "~"%char; ele_term := "*"%char; subele_term := ":"%char |}.
Definition cx_x : xstate :=
  {| loops := [(list_ascii_of_string "ST", Some (list_ascii_of_string "0001"));
               (list_ascii_of_string "GS", Some (list_ascii_of_string "1"));
               (list_ascii_of_string "ISA", Some (list_ascii_of_string "9"))];
     hl_stack := []; gs_count := 1; st_count := 1; hl_count := 0; seg_count := 5; cur_line := 8;
     isa_ids := []; gs_ids := []; st_ids := []; lx_count := 0; check_837_lx := false |}.
Definition cx_seg (id : string) : seg := {| sid := Some (list_ascii_of_string id); els := [] |}.

Lemma cx_sep : sep_not_numeric cx_d.
Proof. split; [reflexivity|discriminate]. Qed.

Ltac refute id c :=
  let H := fresh in intros H;
  destruct (reader_step cx_d cx_x (cx_seg id)) as [[x' es]|] eqn:R; [|vm_compute in R; discriminate];
  destruct (fix_seg cx_d x' (cx_seg id) es) as [s'|] eqn:F;
    [|vm_compute in R; injection R as <- <-; vm_compute in F; discriminate];
  specialize (H cx_d cx_x (cx_seg id) x' es s' cx_sep eq_refl R);
  vm_compute in R; injection R as <- <-;
  vm_compute in F; injection F as <-;
  destruct (H eq_refl eq_refl) as (es' & R' & _ & C);
  vm_compute in R'; injection R' as <-; vm_compute in C; discriminate.

Lemma fix_repairs_se_original_false :
  ~ (forall d x s x' es s',
      sep_not_numeric d -> sid_is s "SE" = true ->
      reader_step d x s = Ok (x', es) -> has_code "4" es = true -> fix_seg d x' s es = Ok s' ->
      exists es', reader_step d x s' = Ok (x', es') /\ has_code "4" es' = false /\ codes_but "4" es' = codes_but "4" es).
Proof. refute "SE"%string "4"%string. Qed.

Lemma fix_repairs_ge_original_false :
  ~ (forall d x s x' es s',
      sep_not_numeric d -> sid_is s "GE" = true ->
      reader_step d x s = Ok (x', es) -> has_code "5" es = true -> fix_seg d x' s es = Ok s' ->
      exists es', reader_step d x s' = Ok (x', es') /\ has_code "5" es' = false /\ codes_but "5" es' = codes_but "5" es).
Proof. refute "GE"%string "5"%string. Qed.

Lemma fix_repairs_iea_original_false :
  ~ (forall d x s x' es s',
      sep_not_numeric d -> sid_is s "IEA" = true ->
      reader_step d x s = Ok (x', es) -> has_code "021" es = true -> fix_seg d x' s es = Ok s' ->
      exists es', reader_step d x s' = Ok (x', es') /\ has_code "021" es' = false /\ codes_but "021" es' = codes_but "021" es).
Proof. refute "IEA"%string "021"%string. Qed.

Print Assumptions format_stable. Print Assumptions fix_only_count. Print Assumptions fix_noop. Print Assumptions fix_repairs_se. Print Assumptions fix_repairs_ge. Print Assumptions fix_repairs_iea.
Print Assumptions fix_repairs_se_original_false.
