(* C07_sink_html.v — the HTML report sink never raises over a well-formed error-handler heap:
   html_gen_seg on a list of visible nodes with a segment id, and html_footer. *)
From Coq Require Import String Lia List.
From PX.Lib Require Import Base PyStr.
From PX.Model Require Import Path Segment Errh ErrIter OutW Html.
From PX.Proofs Require Import C07_errh C07_sink_defs.

(* ---------- the writer monad: computations that end with Ok ---------- *)
Definition wok {S A} (m : W S A) : Prop := forall s, exists s' ws a, m s = (s', ws, Ok a).

Lemma wok_ret {S A} (a : A) : wok (@w_ret S A a).
Proof. intro s. exists s, [], a. reflexivity. Qed.

Lemma wok_bind {S A B} (m : W S A) (f : A -> W S B) :
  wok m -> (forall a, wok (f a)) -> wok (w_bind m f).
Proof.
  intros Hm Hf s. destruct (Hm s) as (s1 & o1 & a & E1).
  destruct (Hf a s1) as (s2 & o2 & b & E2).
  exists s2, (o1 ++ o2), b. unfold w_bind. rewrite E1, E2. reflexivity.
Qed.

Lemma wok_lift {S A} (r : result A) a : r = Ok a -> wok (@w_lift S A r).
Proof. intros -> s. exists s, [], a. reflexivity. Qed.

Lemma wok_lift_bind {S A B} (r : result A) (f : A -> W S B) a :
  r = Ok a -> wok (f a) -> wok (w_bind (w_lift r) f).
Proof.
  intros -> Hf s. destruct (Hf s) as (s2 & o2 & b & E2).
  exists s2, ([] ++ o2), b. unfold w_bind, w_lift. rewrite E2. reflexivity.
Qed.

Lemma wok_get {S} : wok (@w_get S).
Proof. intro s. exists s, [], s. reflexivity. Qed.

Lemma wok_put {S} (s' : S) : wok (w_put s').
Proof. intro s. exists s', [], tt. reflexivity. Qed.

Lemma wok_write {S} x : wok (@w_write S x).
Proof. intro s. exists s, [x], tt. reflexivity. Qed.

Lemma wok_iter {S A} (f : A -> W S unit) xs :
  Forall (fun x => wok (f x)) xs -> wok (w_iter f xs).
Proof.
  induction 1 as [|x r Hx _ IH]; cbn [w_iter].
  - apply wok_ret.
  - apply wok_bind; [exact Hx | intros _; exact IH].
Qed.

Lemma wok_iter_all {S A} (f : A -> W S unit) xs :
  (forall x, wok (f x)) -> wok (w_iter f xs).
Proof. intro H. apply wok_iter. apply Forall_forall. intros x _. apply H. Qed.

Lemma wok_unit {S} (m : W S unit) s : wok m -> exists s' ws, m s = (s', ws, Ok tt).
Proof. intro H. destruct (H s) as (s' & ws & [] & E). (timeout 20 eauto). Qed.

(* ---------- heap access ---------- *)
Lemma heap_nth_ok {A} (xs : list A) i :
  i < length xs -> exists a, heap_nth xs i = Ok a /\ nth_error xs i = Some a.
Proof.
  intro H. destruct (nth_error_lt xs i H) as (a & E). exists a. unfold heap_nth. rewrite E. auto.
Qed.

Lemma find_idx_some {A} (p : A -> bool) : forall xs k i,
  find_idx p xs k = Some i -> exists x, nth_error xs (i - k) = Some x /\ p x = true /\ k <= i.
Proof.
  induction xs as [|x r IH]; intros k i H; cbn [find_idx] in H; [discriminate|].
  destruct (p x) eqn:E.
  - injection H as <-. exists x. rewrite Nat.sub_diag. auto.
  - apply IH in H. destruct H as (y & Hn & Hp & Hk). exists y.
    replace (i - k) with (S (i - S k)) by lia. cbn [nth_error]. repeat split; auto. lia.
Qed.

Lemma mem_nat_In k xs : mem_nat k xs = true -> In k xs.
Proof.
  unfold mem_nat. intro H. apply existsb_exists in H. destruct H as (x & Hin & E).
  apply Nat.eqb_eq in E. subst. exact Hin.
Qed.

Lemma idx_ok_In n xs k : idx_ok n xs -> In k xs -> k < n.
Proof. unfold idx_ok. intros H Hin. rewrite Forall_forall in H. auto. Qed.

(* ---------- a visible node is a valid heap index ---------- *)
Definition ref_in (h : errh) (r : node_ref) : Prop :=
  match r with
  | RRoot => False
  | RIsa i => i < length (h_isa h)
  | RGs g => g < length (h_gs h)
  | RSt t => t < length (h_st h)
  | RSeg k => k < length (h_seg h)
  | REle _ => False
  end.

Lemma vis_ref_in h r : H2 h -> vis h r -> ref_in h r.
Proof.
  intros HH [Ha Hr]. destruct r as [|i|g|t|k|e]; cbn [ref_in]; cbn [attached par] in Ha.
  - congruence.
  - exact Ha.
  - destruct (gs_parent h g) as [p|] eqn:E; [|cbn in Ha; congruence].
    unfold gs_parent in E. apply find_idx_some in E. destruct E as (n & Hn & Hp & _).
    apply mem_nat_In in Hp. destruct (h2_isa_ch h HH _ _ Hn) as [_ Hi]. eapply idx_ok_In; (timeout 20 eauto).
  - destruct (st_parent h t) as [p|] eqn:E; [|cbn in Ha; congruence].
    unfold st_parent in E. apply find_idx_some in E. destruct E as (n & Hn & Hp & _).
    apply mem_nat_In in Hp. destruct (h2_gs_ch h HH _ _ Hn) as [_ Hi]. eapply idx_ok_In; (timeout 20 eauto).
  - destruct (seg_holder h k) as [p|] eqn:E; [|cbn in Ha; congruence].
    unfold seg_holder in E. apply find_idx_some in E. destruct E as (n & Hn & Hp & _).
    apply mem_nat_In in Hp. destruct (h2_st_ch h HH _ _ Hn) as [_ Hi]. eapply idx_ok_In; (timeout 20 eauto).
  - exact Ha.
Qed.

Lemma elements_of_ok h r : H2 h -> ref_in h r ->
  exists es, elements_of h r = Ok es /\ idx_ok (length (h_ele h)) es.
Proof.
  intros HH Hr. destruct r as [|i|g|t|k|e]; cbn [ref_in] in Hr; try contradiction;
    cbn [elements_of]; destruct (heap_nth_ok _ _ Hr) as (n & E & En); rewrite E; cbn [bind];
    eexists; (split; [reflexivity|]).
  - eapply h2_isa_el; (timeout 20 eauto).
  - eapply h2_gs_el; (timeout 20 eauto).
  - eapply h2_st_el; (timeout 20 eauto).
  - eapply h2_seg_el; (timeout 20 eauto).
Qed.

Lemma error_list_of_ok h r o : ref_in h r -> exists es, error_list_of h r o = Ok es.
Proof.
  intros Hr. destruct r as [|i|g|t|k|e]; cbn [ref_in] in Hr; try contradiction;
    cbn [error_list_of]; destruct (heap_nth_ok _ _ Hr) as (n & E & En); rewrite E; cbn [bind];
    eexists; reflexivity.
Qed.

Lemma error_list_of_ele_ok h e o : e < length (h_ele h) -> exists es, error_list_of h (REle e) o = Ok es.
Proof.
  intros Hr. cbn [error_list_of]. destruct (heap_nth_ok _ _ Hr) as (n & E & En). rewrite E. cbn [bind].
  eexists; reflexivity.
Qed.

(* ---------- build_pos_map ---------- *)
Lemma pm_add_eles_ok h : forall es m, idx_ok (length (h_ele h)) es -> exists m', pm_add_eles h m es = Ok m'.
Proof.
  induction es as [|e r IH]; intros m H; cbn [pm_add_eles].
  - (timeout 20 eauto).
  - inversion H as [|? ? He Hr]; subst. destruct (heap_nth_ok _ _ He) as (n & E & _). rewrite E. cbn [bind].
    apply IH. exact Hr.
Qed.

Lemma build_pos_map_ok h : H2 h -> forall nodes m, Forall (ref_in h) nodes ->
  exists m', build_pos_map h m nodes = Ok m'.
Proof.
  intros HH. induction nodes as [|r rest IH]; intros m H; cbn [build_pos_map].
  - (timeout 20 eauto).
  - inversion H as [|? ? Hr Hrest]; subst.
    destruct (elements_of_ok h r HH Hr) as (es & E & Hes). rewrite E. cbn [bind].
    destruct (pm_add_eles_ok h es m Hes) as (m' & E'). rewrite E'. cbn [bind].
    apply IH. exact Hrest.
Qed.

(* ---------- the segment line ---------- *)
Definition is_some {A} (o : option A) : Prop := o <> None.

Lemma esc_some v : is_some (escape_html_chars (Some v)).
Proof. unfold is_some, escape_html_chars. discriminate. Qed.

Lemma wrap_some o : is_some (wrap_ele_error o).
Proof. unfold is_some, wrap_ele_error. discriminate. Qed.

Lemma tseg_subs_some m i : forall subs j, Forall is_some (tseg_subs m i j subs).
Proof.
  induction subs as [|v r IH]; intros j; cbn [tseg_subs]; constructor; [|apply IH].
  destruct (pm_get m (Z.of_nat i)) as [[sp|]|]; try apply esc_some.
  destruct (sp =? Z.of_nat j)%Z; [apply wrap_some | apply esc_some].
Qed.

Definition titem_ok (t : titem) : Prop :=
  match t with TStr v => is_some v | TList vs => Forall is_some vs end.

Lemma tseg_items_ok x m : forall cs i, Forall titem_ok (tseg_items x m i cs).
Proof.
  induction cs as [|c r IH]; intros i; cbn [tseg_items]; constructor; [|apply IH].
  destruct (1 <? length c); cbn [titem_ok].
  - apply tseg_subs_some.
  - destruct (pm_get m (Z.of_nat i)); [apply wrap_some | apply esc_some].
Qed.

Lemma all_some_ok : forall xs, Forall is_some xs -> exists vs, all_some xs = Ok vs.
Proof.
  induction 1 as [|o r Ho _ IH]; cbn [all_some].
  - (timeout 20 eauto).
  - destruct o as [v|]; [|exfalso; apply Ho; reflexivity].
    destruct IH as (vs & E). rewrite E. cbn [bind]. (timeout 20 eauto).
Qed.

Lemma seg_str_items_ok st : forall seg, Forall titem_ok seg ->
  exists os, seg_str_items st seg = Ok os /\ Forall is_some os.
Proof.
  induction 1 as [|t r Ht _ IH]; cbn [seg_str_items].
  - (timeout 20 eauto).
  - destruct IH as (os & E & Hos). destruct t as [v|vs]; cbn [titem_ok] in Ht.
    + rewrite E. cbn [bind]. (timeout 20 eauto).
    + destruct (all_some_ok vs Ht) as (a' & Ea). rewrite Ea. cbn [bind]. rewrite E. cbn [bind].
      eexists; split; [reflexivity|]. constructor; [discriminate | exact Hos].
Qed.

Lemma seg_str_ok seg a b c d : Forall titem_ok seg -> exists s, seg_str seg a b c d = Ok s.
Proof.
  intro H. unfold seg_str. destruct (seg_str_items_ok c seg H) as (os & E & Hos). rewrite E. cbn [bind].
  destruct (all_some_ok os Hos) as (vs & E'). rewrite E'. cbn [bind]. (timeout 20 eauto).
Qed.

Lemma html_seg_str_ok c o seg : o <> None -> Forall titem_ok seg -> exists s, html_seg_str c o seg = Ok s.
Proof.
  intros Ho H. unfold html_seg_str. destruct o as [s0|]; [|congruence].
  destruct (seg_str_ok seg (esc (hc_seg_term c)) (esc (hc_ele_term c)) (esc (hc_subele_term c)) hc_eol H)
    as (s & E).
  rewrite E. cbn [bind]. (timeout 20 eauto).
Qed.

(* ---------- the error lines ---------- *)
Lemma write_pre_errors_ok h o r : ref_in h r -> wok (write_pre_errors h o r).
Proof.
  intro Hr. unfold write_pre_errors. destruct (error_list_of_ok h r o Hr) as (es & E).
  eapply wok_lift_bind; [exact E|]. apply wok_iter_all. intro e.
  destruct (str_eqb (fst e) _); [apply wok_write | apply wok_ret].
Qed.

Lemma write_ele_errors_ok h o e : e < length (h_ele h) -> wok (write_ele_errors h o e).
Proof.
  intro He. unfold write_ele_errors. destruct (error_list_of_ele_ok h e o He) as (es & E).
  eapply wok_lift_bind; [exact E|]. apply wok_iter_all. intro er.
  destruct (_ && _); [apply wok_ret | apply wok_write].
Qed.

Lemma write_post_errors_ok h o r : H2 h -> ref_in h r -> wok (write_post_errors h o r).
Proof.
  intros HH Hr. unfold write_post_errors. destruct (error_list_of_ok h r o Hr) as (es & E).
  eapply wok_lift_bind; [exact E|]. apply wok_bind.
  - apply wok_iter_all. intro e. destruct (str_eqb (fst e) _); [apply wok_ret | apply wok_write].
  - intros _. destruct (elements_of_ok h r HH Hr) as (els_ & E' & Hels).
    eapply wok_lift_bind; [exact E'|]. apply wok_iter. unfold idx_ok in Hels.
    eapply Forall_impl; [|exact Hels]. intros e He. apply write_ele_errors_ok. exact He.
Qed.

(* ---------- gen_seg ---------- *)
Lemma html_gen_seg_wok c h x z nodes :
  H2 h -> Forall (vis h) nodes -> sid (xs_s x) <> None -> wok (html_gen_seg c h x (Some z) nodes).
Proof.
  intros HH Hv Hs.
  assert (Hn : Forall (ref_in h) nodes).
  { eapply Forall_impl; [|exact Hv]. intros r. apply vis_ref_in. exact HH. }
  unfold html_gen_seg.
  destruct (build_pos_map_ok h HH nodes [] Hn) as (m & Em).
  eapply wok_lift_bind; [exact Em|].
  apply wok_bind.
  { apply wok_iter. eapply Forall_impl; [|exact Hn]. intros r. apply write_pre_errors_ok. }
  intros _. apply wok_bind; [apply wok_get|]. intros st.
  apply wok_bind.
  { destruct (loop_info st) as [[|ch rest]|]; try apply wok_ret. unfold gen_info. apply wok_write. }
  intros _. apply wok_bind; [apply wok_put|]. intros _.
  destruct (html_seg_str_ok c (sid (xs_s x)) (tseg_items x m 1 (els (xs_s x))) Hs (tseg_items_ok _ _ _ _))
    as (body & Eb).
  eapply wok_lift_bind; [exact Eb|].
  eapply wok_lift_bind; [unfold fmt_i; reflexivity|].
  apply wok_bind; [apply wok_write|]. intros _.
  apply wok_iter. eapply Forall_impl; [|exact Hn]. intros r. apply write_post_errors_ok. exact HH.
Qed.

Lemma html_gen_seg_safe c h x z nodes hs :
  H2 h -> Forall (vis h) nodes -> sid (xs_s x) <> None ->
  exists hs' ws, Html.html_gen_seg c h x (Some z) nodes hs = (hs', ws, Ok tt).
Proof. intros HH Hv Hs. apply wok_unit. apply html_gen_seg_wok; assumption. Qed.

(* ---------- footer ---------- *)
Lemma footer_part_ok {A} cur (heap : list A) closed errors code :
  (forall i, cur = Some i -> i < length heap) -> wok (footer_part cur heap closed errors code).
Proof.
  intro H. unfold footer_part. destruct cur as [i|]; [|apply wok_ret].
  destruct (heap_nth_ok heap i (H i eq_refl)) as (n & E & _).
  eapply wok_lift_bind; [exact E|].
  destruct (closed n); [apply wok_ret|]. apply wok_iter_all. intro e.
  destruct (str_eqb (fst e) _); [apply wok_write | apply wok_ret].
Qed.

Lemma html_footer_safe h u :
  H2 h -> exists u' ws, Html.html_footer h u = (u', ws, Ok tt).
Proof.
  intro HH. apply wok_unit. unfold html_footer.
  apply wok_bind; [apply footer_part_ok, (h2_cst h HH)|]. intros _.
  apply wok_bind; [apply footer_part_ok, (h2_cgs h HH)|]. intros _.
  apply wok_bind; [apply footer_part_ok, (h2_cisa h HH)|]. intros _.
  apply wok_bind; [apply wok_write|]. intros _.
  apply wok_bind; [apply wok_write|]. intros _.
  apply wok_write.
Qed.

Print Assumptions html_gen_seg_safe.
Print Assumptions html_footer_safe.
