(* C05_tree.v — the error tree built by the handler's API is a tree in creation order: every GS node is the
   child of exactly one ISA node, every ST node the child of exactly one GS node, children in creation order,
   parents in creation order.  Hence "the GS nodes the visitor reaches" are ALL GS nodes of the heap, once each. *)
From Coq Require Import String Lia.
From PX.Lib Require Import Base PyStr PyInt.
From PX.Model Require Import Path Segment Errh Ack997.
From PX.Spec Require Import C06_spec C05_spec.

Local Notation l := list_ascii_of_string.

Record Tree (h : errh) : Prop := {
  tr_gs : flat_map in_children (h_isa h) = seq 0 (length (h_gs h));
  tr_st : flat_map gn_children (h_gs h) = seq 0 (length (h_st h));
  tr_cisa : forall i, c_isa h = Some i -> S i = length (h_isa h);
  tr_cgs : forall g, c_gs h = Some g -> S g = length (h_gs h) }.

(* what Tree looks at *)
Definition shape (h : errh) := (map in_children (h_isa h), map gn_children (h_gs h), length (h_st h), c_isa h, c_gs h).

Lemma flat_map_id_map {A} (f : A -> list nat) xs : flat_map f xs = concat (map f xs).
Proof. induction xs as [|x r IH]; cbn [flat_map map concat]; [|rewrite IH]; reflexivity. Qed.

Lemma Tree_shape h h' : shape h = shape h' -> Tree h -> Tree h'.
Proof.
  unfold shape. intros E [T1 T2 T3 T4]. injection E as E1 E2 E3 E4 E5.
  assert (L1 : length (h_isa h) = length (h_isa h')) by (rewrite <- (map_length in_children), E1, map_length; reflexivity).
  assert (L2 : length (h_gs h) = length (h_gs h')) by (rewrite <- (map_length gn_children), E2, map_length; reflexivity).
  constructor.
  - rewrite flat_map_id_map, <- E1, <- flat_map_id_map, T1, L2. reflexivity.
  - rewrite flat_map_id_map, <- E2, <- flat_map_id_map, T2, E3. reflexivity.
  - rewrite <- E4, <- L1. exact T3.
  - rewrite <- E5, <- L2. exact T4.
Qed.

(* computations that do not touch the shape, whether they raise or not *)
Definition pres {A} (m : SE errh A) : Prop := forall h h' r, m h = (h', r) -> shape h' = shape h.

Lemma pres_bind {A B} (m : SE errh A) (f : A -> SE errh B) : pres m -> (forall a, pres (f a)) -> pres (se_bind m f).
Proof.
  intros Hm Hf h h' r H. unfold se_bind in H. destruct (m h) as [h1 [a|e]] eqn:E.
  - apply Hm in E. apply Hf in H. congruence.
  - injection H as <- _. eapply Hm; eauto.
Qed.
Lemma pres_ret {A} (a : A) : pres (se_ret a). Proof. intros h h' r H. injection H as <- _. reflexivity. Qed.
Lemma pres_get : pres (@se_get errh). Proof. intros h h' r H. injection H as <- _. reflexivity. Qed.
Lemma pres_lift {A} (x : result A) : pres (se_lift x). Proof. intros h h' r H. injection H as <- _. reflexivity. Qed.
Lemma pres_raise {A} e : pres (@se_raise errh A e). Proof. intros h h' r H. injection H as <- _. reflexivity. Qed.
Lemma pres_deref {A} (o : option A) : pres (deref o). Proof. apply pres_lift. Qed.
Lemma pres_mod f : (forall h, shape (f h) = shape h) -> pres (se_mod f).
Proof. intros Hf h h' r H. injection H as <- _. apply Hf. Qed.
Lemma pres_try {A} (m : SE errh A) : pres m -> pres (se_try m).
Proof. intros Hm h h' r H. unfold se_try in H. destruct (m h) as [h1 [a|e]] eqn:E; injection H as <- _; eapply Hm; eauto. Qed.
Lemma pres_iter {A} (f : A -> SE errh unit) xs : (forall x, pres (f x)) -> pres (se_iter f xs).
Proof. intros Hf. induction xs as [|x r IH]; cbn [se_iter]; [apply pres_ret|apply pres_bind; auto]. Qed.

Lemma map_upd_nth {A B} (p : A -> B) (f : A -> A) : (forall x, p (f x) = p x) -> forall xs i, map p (upd_nth xs i f) = map p xs.
Proof.
  intros H. induction xs as [|x xs IH]; intros [|i]; cbn [upd_nth map]; try reflexivity; [rewrite H|rewrite IH]; reflexivity.
Qed.
Lemma upd_nth_len {A} (f : A -> A) : forall xs i, length (upd_nth xs i f) = length xs.
Proof. induction xs as [|x xs IH]; intros [|i]; cbn [upd_nth length]; try reflexivity. rewrite IH. reflexivity. Qed.

Lemma pres_mod_isa i f : (forall n, in_children (f n) = in_children n) -> pres (mod_isa i f).
Proof. intros H. apply pres_mod. intros h. unfold shape. cbn [h_isa h_gs h_st c_isa c_gs set_h_isa set_heaps]. rewrite (map_upd_nth in_children f H). reflexivity. Qed.
Lemma pres_mod_gs i f : (forall n, gn_children (f n) = gn_children n) -> pres (mod_gs i f).
Proof. intros H. apply pres_mod. intros h. unfold shape. cbn [h_isa h_gs h_st c_isa c_gs set_h_gs set_heaps]. rewrite (map_upd_nth gn_children f H). reflexivity. Qed.
Lemma pres_mod_st i f : pres (mod_st i f).
Proof. apply pres_mod. intros h. unfold shape. cbn [h_isa h_gs h_st c_isa c_gs set_h_st set_heaps]. rewrite upd_nth_len. reflexivity. Qed.
Lemma pres_mod_seg i f : pres (mod_seg i f).
Proof. apply pres_mod. intros h. reflexivity. Qed.
Lemma pres_mod_ele i f : pres (mod_ele i f).
Proof. apply pres_mod. intros h. reflexivity. Qed.

Ltac pres_tac :=
  repeat first
    [ apply pres_bind; [|intros ?] | apply pres_ret | apply pres_get | apply pres_lift | apply pres_raise | apply pres_deref
    | apply pres_try | apply pres_mod_st | apply pres_mod_seg | apply pres_mod_ele
    | apply pres_mod_isa; intros ?; reflexivity | apply pres_mod_gs; intros ?; reflexivity
    | apply pres_mod; intros ?; reflexivity
    | match goal with |- pres (match ?x with _ => _ end) => destruct x end ].

Lemma pres_get_isa i : pres (get_isa i). Proof. unfold get_isa, heap_get. pres_tac. Qed.
Lemma pres_get_gs i : pres (get_gs i). Proof. unfold get_gs, heap_get. pres_tac. Qed.
Lemma pres_get_st i : pres (get_st i). Proof. unfold get_st, heap_get. pres_tac. Qed.
Lemma pres_get_seg i : pres (get_seg i). Proof. unfold get_seg, heap_get. pres_tac. Qed.
Lemma pres_node_cur_line r : pres (node_cur_line r).
Proof. destruct r; cbn [node_cur_line]; pres_tac; try first [apply pres_get_isa|apply pres_get_gs|apply pres_get_st|apply pres_get_seg]. Qed.

Lemma pres_add_seg mn x sc cl ls : pres (add_seg mn x sc cl ls).
Proof. unfold add_seg. pres_tac. Qed.
Lemma pres_add_cur_seg : pres add_cur_seg.
Proof. unfold add_cur_seg. pres_tac. Qed.
Lemma pres_add_ele mn : pres (add_ele mn).
Proof. unfold add_ele. pres_tac. Qed.
Lemma pres_append_element r e : pres (append_element r e).
Proof. destruct r; cbn [append_element]; pres_tac. Qed.
Lemma pres_add_cur_ele : pres add_cur_ele.
Proof. unfold add_cur_ele. apply pres_bind; [apply pres_add_cur_seg|intros _]. pres_tac; try apply pres_append_element. Qed.
Lemma pres_isa_error c m : pres (isa_error c m).
Proof. unfold isa_error. pres_tac; try apply pres_get_isa. Qed.
Lemma pres_gs_error c m : pres (gs_error c m).
Proof. unfold gs_error. pres_tac; try first [apply pres_isa_error|apply pres_get_gs]. Qed.
Lemma pres_st_error c m : pres (st_error c m).
Proof. unfold st_error. pres_tac; try first [apply pres_isa_error|apply pres_get_st]. Qed.
Lemma pres_seg_error c m v ln : pres (seg_error c m v ln).
Proof. unfold seg_error. pres_tac; try first [apply pres_add_cur_seg|apply pres_node_cur_line]. Qed.
Lemma pres_ele_error c m b : pres (ele_error c m b).
Proof. unfold ele_error. pres_tac; try first [apply pres_add_cur_ele|apply pres_node_cur_line|apply pres_append_element]. Qed.
Lemma pres_close_isa src : pres (close_isa_loop src).
Proof. unfold close_isa_loop. pres_tac. Qed.
Lemma pres_close_gs x src : pres (close_gs_loop x src).
Proof. unfold close_gs_loop. pres_tac; try apply pres_get_gs. Qed.
Lemma pres_close_st src : pres (close_st_loop src).
Proof. unfold close_st_loop. pres_tac; try apply pres_get_st. Qed.

(* ------------------------------------------------------------------ *)
(* the three calls that add a node to the tree                         *)
(* ------------------------------------------------------------------ *)
Lemma flat_map_upd_last {A} (f : A -> list nat) (g : A -> A) id : forall xs p,
  S p = length xs -> (forall x, f (g x) = f x ++ [id]) -> flat_map f (upd_nth xs p g) = flat_map f xs ++ [id].
Proof.
  induction xs as [|x xs IH]; intros p L H; [discriminate|]. destruct p as [|p]; cbn [upd_nth flat_map].
  - destruct xs; [|discriminate]. cbn [flat_map]. rewrite !app_nil_r. apply H.
  - rewrite IH; [rewrite app_assoc; reflexivity| |exact H]. cbn [length] in L. lia.
Qed.

Lemma seq_snoc n : seq 0 (S n) = seq 0 n ++ [n].
Proof. rewrite seq_S. reflexivity. Qed.

Lemma mk_isa_children x src n : mk_isa x src = Ok n -> in_children n = [].
Proof.
  unfold mk_isa. destruct (xget x "ISA13"); [|discriminate]. destruct (xget x "ISA14"); [|discriminate].
  destruct (xget x "ISA09"); [|discriminate]. destruct (xget x "ISA10"); [|discriminate]. cbn [bind]. intros H. injection H as <-. reflexivity.
Qed.
Lemma mk_gs_children x src n : mk_gs x src = Ok n -> gn_children n = [].
Proof.
  unfold mk_gs. destruct (xget x "GS01"); [|discriminate]. destruct (xget x "GS08"); [|discriminate].
  cbn [bind]. intros H. injection H as <-. reflexivity.
Qed.

Lemma Tree_add_isa x src h h' r : add_isa_loop x src h = (h', r) -> Tree h -> Tree h'.
Proof.
  unfold add_isa_loop. cbv [se_bind se_lift se_mod]. destruct (mk_isa x src) as [n|e] eqn:M; intros H; injection H as <- _; [|auto].
  intros [T1 T2 T3 T4]. constructor; cbn [h_isa h_gs h_st c_isa c_gs set_cursors set_h_isa set_heaps].
  - rewrite flat_map_app. cbn [flat_map]. rewrite (mk_isa_children _ _ _ M). cbn [app]. rewrite app_nil_r. exact T1.
  - exact T2.
  - intros i E. injection E as <-. rewrite app_length. cbn [length]. lia.
  - exact T4.
Qed.

Lemma Tree_add_gs x src h h' r : add_gs_loop x src h = (h', r) -> Tree h -> Tree h'.
Proof.
  unfold add_gs_loop. cbv [se_bind se_get deref se_lift se_mod mod_isa]. destruct (c_isa h) as [p|] eqn:C; [|intros H; injection H as <- _; auto].
  destruct (mk_gs x src) as [n|e] eqn:M; intros H; injection H as <- _; [|auto].
  intros [T1 T2 T3 T4]. constructor; cbn [h_isa h_gs h_st c_isa c_gs set_cursors set_h_isa set_h_gs set_heaps].
  - rewrite (flat_map_upd_last in_children _ (length (h_gs h))); [|apply T3; exact C|reflexivity].
    rewrite T1, app_length. cbn [length]. rewrite Nat.add_1_r, seq_snoc. reflexivity.
  - rewrite flat_map_app. cbn [flat_map]. rewrite (mk_gs_children _ _ _ M). cbn [app]. rewrite app_nil_r. exact T2.
  - intros i E. rewrite upd_nth_len. apply T3. congruence.
  - intros g E. injection E as <-. rewrite app_length. cbn [length]. lia.
Qed.

Lemma Tree_add_st x src h h' r : add_st_loop x src h = (h', r) -> Tree h -> Tree h'.
Proof.
  unfold add_st_loop. cbv [se_bind se_get deref se_lift se_mod mod_gs]. destruct (c_gs h) as [p|] eqn:C; [|intros H; injection H as <- _; auto].
  destruct (mk_st x src) as [n|e] eqn:M; intros H; injection H as <- _; [|auto].
  intros [T1 T2 T3 T4]. constructor; cbn [h_isa h_gs h_st c_isa c_gs set_cursors set_h_st set_h_gs set_heaps].
  - rewrite upd_nth_len. exact T1.
  - rewrite (flat_map_upd_last gn_children _ (length (h_st h))); [|apply T4; exact C|reflexivity].
    rewrite T2, app_length. cbn [length]. rewrite Nat.add_1_r, seq_snoc. reflexivity.
  - exact T3.
  - intros g E. rewrite upd_nth_len. apply T4. congruence.
Qed.

(* ------------------------------------------------------------------ *)
(* every call of the API keeps the tree                                *)
(* ------------------------------------------------------------------ *)
Inductive api_call : SE errh unit -> Prop :=
| api_add_isa x src : api_call (add_isa_loop x src)
| api_add_gs x src : api_call (add_gs_loop x src)
| api_add_st x src : api_call (add_st_loop x src)
| api_add_seg mn x sc cl ls : api_call (add_seg mn x sc cl ls)
| api_add_ele mn : api_call (add_ele mn)
| api_isa_error c m : api_call (isa_error c m)
| api_gs_error c m : api_call (gs_error c m)
| api_st_error c m : api_call (st_error c m)
| api_seg_error c m v ln : api_call (seg_error c m v ln)
| api_ele_error c m b : api_call (ele_error c m b)
| api_close_isa src : api_call (close_isa_loop src)
| api_close_gs x src : api_call (close_gs_loop x src)
| api_close_st src : api_call (close_st_loop src)
| api_handle_errors es : api_call (handle_errors es).

Lemma pres_handle_errors es : pres (handle_errors es).
Proof.
  unfold handle_errors. apply pres_iter. intros e. unfold handle_error.
  repeat match goal with |- pres (if ?c then _ else _) => destruct c end;
  first [apply pres_isa_error|apply pres_gs_error|apply pres_st_error|apply pres_seg_error|apply pres_ret].
Qed.

Theorem api_keeps_tree m h h' r : api_call m -> m h = (h', r) -> Tree h -> Tree h'.
Proof.
  intros A H T. destruct A;
  try (eapply Tree_add_isa; eassumption); try (eapply Tree_add_gs; eassumption); try (eapply Tree_add_st; eassumption);
  (eapply Tree_shape; [|exact T]; symmetry; revert H;
   first [apply pres_add_seg|apply pres_add_ele|apply pres_isa_error|apply pres_gs_error|apply pres_st_error
         |apply pres_seg_error|apply pres_ele_error|apply pres_close_isa|apply pres_close_gs|apply pres_close_st
         |apply pres_handle_errors]).
Qed.

Lemma Tree_init : Tree errh_init.
Proof. constructor; cbn; try reflexivity; discriminate. Qed.

(* any sequence of API calls from the empty handler, raises included (the state that comes out with a raise is
   the one the next call sees) *)
Fixpoint run_calls (ms : list (SE errh unit)) (h : errh) : errh :=
  match ms with [] => h | m :: r => run_calls r (fst (m h)) end.

Theorem built_is_tree ms : Forall api_call ms -> Tree (run_calls ms errh_init).
Proof.
  intros F. generalize errh_init Tree_init. induction F as [|m r A _ IH]; intros h T; cbn [run_calls]; [exact T|].
  apply IH. destruct (m h) as [h' x] eqn:E. cbn [fst]. eapply api_keeps_tree; eauto.
Qed.

(* ------------------------------------------------------------------ *)
(* in a tree the visitor reaches every GS node and every ST node, once, in creation order *)
(* ------------------------------------------------------------------ *)
Lemma nodes_at_app {A} (heap : list A) a b : nodes_at heap (a ++ b) = nodes_at heap a ++ nodes_at heap b.
Proof. unfold nodes_at. apply flat_map_app. Qed.

Lemma nodes_at_all {A} : forall (xs pre : list A), nodes_at (pre ++ xs) (seq (length pre) (length xs)) = xs.
Proof.
  unfold nodes_at. induction xs as [|x xs IH]; intros pre; cbn [length seq flat_map]; [reflexivity|].
  rewrite nth_error_app2 by lia. rewrite Nat.sub_diag. cbn [nth_error app]. f_equal.
  specialize (IH (pre ++ [x])). rewrite <- app_assoc, app_length in IH. cbn [app length] in IH.
  rewrite Nat.add_1_r in IH. exact IH.
Qed.

Lemma nodes_at_flat {A B} (heap : list A) (f : B -> list nat) xs :
  flat_map (fun x => nodes_at heap (f x)) xs = nodes_at heap (flat_map f xs).
Proof. induction xs as [|x r IH]; cbn [flat_map]; [reflexivity|]. rewrite nodes_at_app, IH. reflexivity. Qed.

Theorem tree_visits_all h : Tree h ->
  visited_gs h = h_gs h /\ flat_map (fun g => nodes_at (h_st h) (gn_children g)) (visited_gs h) = h_st h.
Proof.
  intros [T1 T2 _ _]. assert (V : visited_gs h = h_gs h).
  { unfold visited_gs. rewrite nodes_at_flat, T1. exact (nodes_at_all (h_gs h) []). }
  split; [exact V|]. rewrite V, nodes_at_flat, T2. exact (nodes_at_all (h_st h) []).
Qed.

(* so the AK1 / AK2 lines (C05_ack.ack_names_every_group_and_set) name EVERY GS node of the heap, in creation order, each
   followed by its own sets, and these groups of sets, put end to end, are ALL ST nodes of the heap in creation order *)
Theorem tree_names h : Tree h ->
  names_997 h = flat_map (fun g => ak1_997 g :: map ak2_997 (nodes_at (h_st h) (gn_children g))) (h_gs h) /\
  flat_map (fun g => nodes_at (h_st h) (gn_children g)) (h_gs h) = h_st h.
Proof.
  intros T. destruct (tree_visits_all h T) as [V S]. unfold names_997. rewrite V in *. split; [reflexivity|exact S].
Qed.

Print Assumptions api_keeps_tree.
Print Assumptions tree_names.
Print Assumptions built_is_tree.
Print Assumptions tree_visits_all.
