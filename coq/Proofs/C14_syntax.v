(* C14_syntax.v — is_syntax_valid computes exactly the X12 definition, for
   every note letter, every list of at least two positions in 1..99, and every
   segment (any length, any contents). *)
From Coq Require Import String.
From PX.Lib Require Import Base PyStr Regex.
From PX.Gen Require Import Regexes.
From PX.Model Require Import Path Segment Syntax.
From PX.Spec Require Import C14_spec.

(* presence as the property states it: position within the segment and the
   element there not empty *)
Definition present_spec (sg : seg) (i : N) : bool :=
  (i <=? N.of_nat (seg_len sg))%N && negb (comp_empty (nth (N.to_nat i - 1) (els sg) [])).

Definition idx_ok (i : N) : Prop := (1 <= i <= 99)%N.

(* ---- two-digit designators parse to (element i, no component), by a sweep over 1..99 ---- *)
Definition refdes_is (i : N) (r : result xpath) : bool :=
  match r with
  | Ok x => relative x && match loop_list x with [] => true | _ => false end &&
            match seg_id x with None => true | _ => false end &&
            match id_val x with None => true | _ => false end &&
            match ele_idx x with Some n => N.eqb n i | None => false end &&
            match subele_idx x with None => true | _ => false end
  | Raise _ => false
  end.

Definition idx_range : list N := map N.of_nat (seq 1 99).

Lemma idx_range_complete i : idx_ok i -> In i idx_range.
Proof.
  intros [H1 H2]. unfold idx_range. rewrite <- (N2Nat.id i). apply in_map. apply in_seq. lia.
Qed.

Lemma two_digit_sweep : forallb (fun i => refdes_is i (parse_path (fmt_02 i))) idx_range = true.
Proof. vm_compute. reflexivity. Qed.

Lemma parse_two_digit sg i : idx_ok i ->
  parse_refdes sg (fmt_02 i) = Ok (Some (Z.of_N i - 1)%Z, None).
Proof.
  intros H. pose proof two_digit_sweep as S. rewrite forallb_forall in S.
  specialize (S i (idx_range_complete i H)). unfold parse_refdes.
  destruct (parse_path (fmt_02 i)) as [x|e]; [|discriminate S]. cbn [bind]. unfold refdes_is in S.
  destruct x as [rel ll sid0 idv ei si]. cbn in S.
  destruct rel; [|discriminate S]. destruct ll; [|discriminate S]. destruct sid0; [discriminate S|].
  destruct idv; [discriminate S|]. destruct ei as [n|]; [|discriminate S]. destruct si; [cbn in S; rewrite andb_false_r in S; discriminate S|].
  cbn in S. rewrite andb_true_r in S. apply N.eqb_eq in S. subst n. reflexivity.
Qed.

(* ---- an element's printed value is empty exactly when all its components are ---- *)
Lemma join_nil_inv (c : ascii) (l : list str) : join c l = [] -> forallb ele_empty l = true.
Proof.
  destruct l as [|x [|y l]]; cbn [join]; intros H.
  - reflexivity.
  - subst x. reflexivity.
  - destruct x; discriminate H.
Qed.

Lemma forallb_firstn_last {A} (emp : A -> bool) (xs : list A) :
  forallb emp (firstn (S (last_nonempty_idx emp xs)) xs) = forallb emp xs.
Proof.
  induction xs as [|x xs IH]; [reflexivity|].
  cbn [last_nonempty_idx]. destruct (forallb emp xs) eqn:E.
  - cbn [firstn forallb]. rewrite E. destruct xs; reflexivity.
  - change (firstn (S (S (last_nonempty_idx emp xs))) (x :: xs)) with (x :: firstn (S (last_nonempty_idx emp xs)) xs).
    cbn [forallb]. rewrite IH, E. reflexivity.
Qed.

Lemma format_comp_empty (sub : ascii) (c : composite) : (match format_comp sub c with [] => true | _ => false end) = comp_empty c \/ c = [].
Proof.
  destruct c as [|x c]; [right; reflexivity|]. left. unfold format_comp, comp_empty.
  destruct (forallb ele_empty (x :: c)) eqn:E.
  - (* all empty: only the first (empty) component is kept *)
    assert (L : last_nonempty_idx ele_empty (x :: c) = 0).
    { cbn [last_nonempty_idx]. cbn [forallb] in E. apply andb_true_iff in E as [_ E]. rewrite E. reflexivity. }
    rewrite L. cbn [firstn join]. cbn [forallb] in E. apply andb_true_iff in E as [E _].
    destruct x; [reflexivity | discriminate E].
  - destruct (join sub (firstn (S (last_nonempty_idx ele_empty (x :: c))) (x :: c))) eqn:J; [|reflexivity].
    apply join_nil_inv in J. rewrite forallb_firstn_last in J. congruence.
Qed.

(* ---- presence ---- *)
Lemma nth_res_nth {A} (xs : list A) n d : n < length xs -> nth_res xs n = Ok (nth n xs d).
Proof.
  revert n; induction xs as [|x xs IH]; intros n H; [simpl in H; lia|].
  destruct n; [reflexivity|]. simpl. apply IH. simpl in H. lia.
Qed.

Lemma value_at d sg i : idx_ok i ->
  seg_get_value d sg (fmt_02 i) =
  Ok (if (N.of_nat (seg_len sg) <? i)%N then None
      else Some (format_comp (subele_term d) (nth (N.to_nat i - 1) (els sg) []))).
Proof.
  intros H. unfold seg_get_value, seg_get. rewrite (parse_two_digit sg i H). cbn [bind].
  unfold get_ix. cbn [fst snd]. unfold seg_len. destruct H as [H1 H2].
  destruct (N.ltb_spec (N.of_nat (length (els sg))) i) as [L|L].
  - destruct (Z.leb_spec (Z.of_nat (length (els sg))) (Z.of_N i - 1)) as [L2|L2]; [reflexivity | lia].
  - destruct (Z.leb_spec (Z.of_nat (length (els sg))) (Z.of_N i - 1)) as [L2|L2]; [lia|].
    unfold py_nth. destruct (Z.ltb_spec (Z.of_N i - 1) 0) as [L3|L3]; [lia|].
    replace (Z.to_nat (Z.of_N i - 1)) with (N.to_nat i - 1) by lia.
    rewrite (nth_res_nth (els sg) (N.to_nat i - 1) []) by lia. reflexivity.
Qed.

Lemma present_ok d sg i : idx_ok i ->
  (forall c, In c (els sg) -> c <> []) ->
  present d sg i = Ok (present_spec sg i).
Proof.
  intros H NE. unfold present, present_spec. rewrite (value_at d sg i H). cbn [bind].
  destruct (N.ltb_spec (N.of_nat (seg_len sg)) i) as [L|L].
  - destruct (N.leb_spec i (N.of_nat (seg_len sg))); [lia | reflexivity].
  - destruct (N.leb_spec i (N.of_nat (seg_len sg))) as [L2|L2]; [|lia]. cbn [andb]. f_equal.
    set (c := nth (N.to_nat i - 1) (els sg) []).
    assert (Hc : c <> []).
    { apply NE. apply nth_In. unfold seg_len in *. destruct H. lia. }
    destruct (format_comp_empty (subele_term d) c) as [E|E]; [|contradiction].
    rewrite <- E. destruct (format_comp (subele_term d) c); reflexivity.
Qed.

Lemma first_present_ok d sg i : idx_ok i ->
  (forall c, In c (els sg) -> c <> []) ->
  first_present d sg i = Ok (present_spec sg i).
Proof.
  intros H NE. pose proof (present_ok d sg i H NE) as P. unfold present in P. unfold first_present, present_spec in *.
  rewrite (value_at d sg i H) in *. cbn [bind] in P.
  destruct (N.leb_spec i (N.of_nat (seg_len sg))) as [L|L]; [|reflexivity].
  cbn [bind andb] in *. exact P.
Qed.

Lemma count_present_ok d sg idxs :
  Forall idx_ok idxs -> (forall c, In c (els sg) -> c <> []) ->
  count_present d sg idxs = Ok (length (filter id_b (map (present_spec sg) idxs))).
Proof.
  intros H NE. induction H as [|i idxs Hi _ IH]; [reflexivity|].
  cbn [count_present map filter]. rewrite (present_ok d sg i Hi NE), IH. cbn [bind].
  unfold id_b at 2. destruct (present_spec sg i); reflexivity.
Qed.

(* ---- counting vs. quantifiers ---- *)
Lemma count_zero (l : list bool) : (length (filter id_b l) =? 0) = negb (existsb id_b l).
Proof. induction l as [|[] l IH]; simpl; [reflexivity | reflexivity | exact IH]. Qed.

Lemma filter_len_le {A} (f : A -> bool) (l : list A) : length (filter f l) <= length l.
Proof. induction l as [|x l IH]; simpl; [lia|]. destruct (f x); simpl; lia. Qed.

Lemma count_all (l : list bool) : (length (filter id_b l) =? length l) = forallb id_b l.
Proof.
  induction l as [|b l IH]; [reflexivity|]. destruct b; simpl.
  - exact IH.
  - pose proof (filter_len_le id_b l). destruct (Nat.eqb_spec (length (filter id_b l)) (S (length l))); [lia | reflexivity].
Qed.

(* ---- the theorem ---- *)
Theorem syntax_exact d sg code idxs :
  note_letter code = true -> 2 <= length idxs -> Forall idx_ok idxs ->
  (forall c, In c (els sg) -> c <> []) ->
  is_syntax_valid d sg code idxs = Ok (negb (violated code (map (present_spec sg) idxs))).
Proof.
  intros HL Hlen Hidx NE. unfold is_syntax_valid, violated.
  destruct (Nat.ltb_spec (length idxs) 2) as [L|_]; [lia|].
  destruct (Ascii.eqb code "P"%char) eqn:EP.
  { rewrite (count_present_ok d sg idxs Hidx NE). cbn [bind]. f_equal.
    rewrite count_zero. rewrite <- (map_length (present_spec sg) idxs) at 1. rewrite count_all.
    rewrite negb_involutive. reflexivity. }
  destruct (Ascii.eqb code "R"%char) eqn:ER.
  { rewrite (count_present_ok d sg idxs Hidx NE). cbn [bind]. f_equal. rewrite count_zero. reflexivity. }
  destruct (Ascii.eqb code "E"%char) eqn:EE.
  { rewrite (count_present_ok d sg idxs Hidx NE). reflexivity. }
  destruct (Ascii.eqb code "C"%char) eqn:EC.
  { destruct idxs as [|i0 rest]; [simpl in Hlen; lia|]. inversion Hidx as [|? ? H0 Hrest]; subst.
    rewrite (first_present_ok d sg i0 H0 NE). cbn [bind map].
    destruct (present_spec sg i0); [|reflexivity].
    rewrite (count_present_ok d sg rest Hrest NE). cbn [bind andb]. f_equal.
    rewrite <- (map_length (present_spec sg) rest). rewrite count_all, negb_involutive. reflexivity. }
  destruct (Ascii.eqb code "L"%char) eqn:EL.
  { destruct idxs as [|i0 rest]; [simpl in Hlen; lia|]. inversion Hidx as [|? ? H0 Hrest]; subst.
    rewrite (first_present_ok d sg i0 H0 NE). cbn [bind map].
    destruct (present_spec sg i0); [|reflexivity].
    rewrite (count_present_ok d sg rest Hrest NE). cbn [bind andb]. f_equal.
    rewrite count_zero. reflexivity. }
  unfold note_letter in HL. rewrite EP, ER, EE, EC, EL in HL. discriminate HL.
Qed.

(* ---- every segment the reader can build satisfies the side condition ---- *)
Definition seg_wf (sg : seg) : Prop := forall c, In c (els sg) -> c <> [].

Lemma split_aux_nonnil c s cur : split_aux c s cur <> [].
Proof.
  revert cur; induction s as [|x s IH]; intros cur; cbn [split_aux]; [discriminate|].
  destruct (Ascii.eqb x c); [discriminate | apply IH].
Qed.

Lemma parse_seg_wf d text : seg_wf (parse_seg d text).
Proof.
  unfold seg_wf, parse_seg. destruct text as [|t0 text]; [intros c []|].
  destruct (split (ele_term d) _) as [|id rest]; [intros c []|].
  cbn [els]. intros c Hc. apply in_map_iff in Hc as [e [<- _]].
  destruct (str_eqb id _); apply split_aux_nonnil.
Qed.

(* ---- routing: one element error per violated note, 10 for E and 2 otherwise ---- *)
Definition note_ok (n : ascii * list N) : Prop :=
  note_letter (fst n) = true /\ 2 <= length (snd n) /\ Forall idx_ok (snd n).

Definition note_violated (sg : seg) (n : ascii * list N) : bool :=
  violated (fst n) (map (present_spec sg) (snd n)).

Theorem syntax_routing d sg notes :
  Forall note_ok notes -> seg_wf sg ->
  syntax_loop d sg notes = Ok (map (fun n => note_code (fst n)) (filter (note_violated sg) notes)).
Proof.
  intros H W. induction H as [|[code idxs] notes [H1 [H2 H3]] _ IH]; [reflexivity|].
  cbn [syntax_loop]. cbn [fst snd] in *. rewrite (syntax_exact d sg code idxs H1 H2 H3 W). cbn [bind].
  rewrite IH. cbn [bind filter].
  change (note_violated sg (code, idxs)) with (violated code (map (present_spec sg) idxs)).
  destruct (violated code (map (present_spec sg) idxs)); reflexivity.
Qed.

(* non-vacuity: a concrete segment, a violated paired note and a satisfied one *)
Example ex_syntax :
  let d := {| seg_term := "~"%char; ele_term := "*"%char; subele_term := ":"%char |} in
  let sg := parse_seg d (list_ascii_of_string "N4*CITY**12345") in
  seg_wf sg /\
  is_syntax_valid d sg "P"%char [2; 3]%N = Ok false /\ violated "P"%char (map (present_spec sg) [2; 3]%N) = true /\
  is_syntax_valid d sg "E"%char [2; 5]%N = Ok true.
Proof. cbv zeta. split; [apply parse_seg_wf|]. vm_compute. auto. Qed.
