(* C07_ctx_defs.v — shared definitions for the totality proof of the context reader
   (Spec/C07_ctx_spec.v): Hoare triples "result or allowed exception" for the store monad H and the
   reader monad C, the well-formedness of the store, parent chains, the shape of the walker's pop list. *)
From Coq Require Import String List Lia.
From PX.Lib Require Import Base PyStr PyInt Regex Xml.
From PX.Model Require Import Show Path Segment Raw Reader Syntax MapLoad MapTree Element Counter Walker MapEnv Driver Context CtxReader.
From PX.Spec Require Import C07_walker_wf C07_valid_wf C07_spec C07_ctx_spec.
Import ListNotations.

(* ---- Hoare triples ---- *)
Definition hsafe {A} (c : H A) (h : heap) (Q : A -> heap -> Prop) : Prop :=
  match c h with (h', Ok a) => Q a h' | (_, Raise e) => allowed e = true end.

Definition csafe {A} (c : C A) (s : cstate) (Q : A -> cstate -> Prop) : Prop :=
  match c s with (s', Ok a) => Q a s' | (_, Raise e) => allowed e = true end.

(* ---- map nodes that can be asked for id, pos, path, x12path ---- *)
Definition MnOK (mn : mnode) : Prop :=
  mn_ref mn <> [] /\
  (exists n, node_at (root_nodes (mn_map mn)) (mn_ref mn) = Some n) /\
  (exists xp, mn_x12path mn = Ok xp).

(* ---- the store ---- *)
Definition ObjOK (h : heap) (x : dobj) : Prop :=
  o_live x = true /\
  (exists mn, o_map x = Some mn /\ MnOK mn) /\
  Forall (fun c => c < length h) (o_children x) /\
  (forall p, o_parent x = RObj p -> exists px, nth_error h p = Some px /\ o_class px = CLoop) /\
  (o_class x = CLoop -> forall ms, o_parent x <> RList ms).

Definition HWF (h : heap) : Prop := forall o x, nth_error h o = Some x -> ObjOK h x.

(* the parent chain of a loop object ends in a root (parent None) whose map node has the id `lid` *)
Inductive chain (h : heap) (lid : str) : oid -> Prop :=
| chain_root o x mn :
    nth_error h o = Some x -> o_class x = CLoop -> o_parent x = RNone ->
    o_map x = Some mn -> mn_id mn = Ok (Some lid) -> chain h lid o
| chain_up o x p :
    nth_error h o = Some x -> o_class x = CLoop -> o_parent x = RObj p -> chain h lid p -> chain h lid o.

(* the store grows; class, liveness, map node and parent of the existing objects stay *)
Definition hext (h h' : heap) : Prop :=
  length h <= length h' /\
  forall o x, nth_error h o = Some x ->
    exists y, nth_error h' o = Some y /\ o_class y = o_class x /\ o_live y = o_live x /\
              o_map y = o_map x /\ o_parent y = o_parent x.

(* ---- the walker's pop list: the prefixes of P longer than anc, longest first ---- *)
Definition ups (anc P : nref) : list nref :=
  map (fun k => firstn k P) (rev (seq (S (length anc)) (length P - length anc))).
