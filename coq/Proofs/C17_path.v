(* C17_path.v — X12Path: parsing the printed form of a well-formed path yields
   its parts, printing reproduces the text, the reparsed path is equal, and the
   documented rejections raise the path error. *)
From Coq Require Import String.
From PX.Lib Require Import Base PyStr Regex.
From PX.Gen Require Import Regexes.
From PX.Model Require Import Path.
From PX.Spec Require Import C17_spec.
From PX.Proofs Require Import RegexLemmas RegexSem.

Definition shape_ok (r : refdes) : bool :=
  opt_ok wf_segid (r_seg r) && opt_ok wf_qual (r_qual r) &&
  opt_ok (fun e => (length e =? 2) && all_digits e) (r_ele r) &&
  opt_ok (fun u => negb (length u =? 0) && all_digits u) (r_sub r).

(* ---------- generic: span and outcome characterisations ---------- *)
Lemma span_ge c s : forall n mx,
  n <= span c mx s <->
  n <= length s /\ (match mx with Some k => n <= k | None => True end) /\
  forallb (cls_mem c) (firstn n s) = true.
Proof.
  induction s as [|x s IH]; intros n mx.
  - rewrite firstn_nil. cbn [span length forallb]. destruct mx; intuition lia.
  - destruct n as [|n].
    + cbn [firstn forallb]. destruct mx; intuition lia.
    + cbn [span firstn forallb length]. destruct mx as [[|k]|].
      * intuition lia.
      * destruct (cls_mem c x); cbn [andb].
        -- specialize (IH n (Some k)). cbv beta iota in IH. split.
           ++ intros H. assert (H' : n <= span c (Some k) s) by lia. apply IH in H'. intuition lia.
           ++ intros (A & B & C). assert (H' : n <= span c (Some k) s) by (apply IH; intuition lia). lia.
        -- split; [lia | intros (_ & _ & C); discriminate].
      * destruct (cls_mem c x); cbn [andb].
        -- specialize (IH n None). cbv beta iota in IH. split.
           ++ intros H. assert (H' : n <= span c None s) by lia. apply IH in H'. intuition lia.
           ++ intros (A & B & C). assert (H' : n <= span c None s) by (apply IH; intuition lia). lia.
        -- split; [lia | intros (_ & _ & C); discriminate].
Qed.

Definition charac {X} (R : re) (ok : X -> Prop) (enc : X -> str) (capf : X -> caps) (T : str -> Prop) : Prop :=
  forall pos s cs p' s' cs',
    In (p', s', cs') (ms R pos s cs) <->
    exists x, ok x /\ s = enc x ++ s' /\ T s' /\ p' = pos + length (enc x) /\ cs' = capf x ++ cs.

Definition TT : str -> Prop := fun _ => True.
Definition T4 (s : str) : Prop := s = [] \/ s = [NL].

Lemma charac_cls c : charac (RCls c) (fun x => cls_mem c x = true) (fun x => [x]) (fun _ => []) TT.
Proof.
  intros pos s cs p' s' cs'. rewrite in_ms_cls. split.
  - intros (x & s0 & -> & M & E). injection E as -> -> ->. exists x. cbn [length app].
    repeat split; auto. lia.
  - intros (x & M & -> & _ & -> & ->). exists x, s'. cbn [length app]. repeat split; auto.
    rewrite Nat.add_1_r. reflexivity.
Qed.

Lemma charac_rep c mn mx : charac (RRep c mn mx)
   (fun w => mn <= length w /\ (match mx with Some k => length w <= k | None => True end) /\
             forallb (cls_mem c) w = true)
   (fun w => w) (fun _ => []) TT.
Proof.
  intros pos s cs p' s' cs'. rewrite in_ms_rep. split.
  - intros (n & [L1 L2] & E). injection E as -> -> ->. apply span_ge in L2 as (A & B & C).
    exists (firstn n s). rewrite firstn_length_le by lia. repeat split; auto.
    symmetry; apply firstn_skipn.
  - intros (w & (A & B & C) & -> & _ & -> & ->). exists (length w). split.
    + split; [lia|]. apply span_ge. rewrite app_length, firstn_app, Nat.sub_diag, firstn_all, firstn_O, app_nil_r.
      repeat split; auto; lia.
    + rewrite skipn_app, skipn_all, Nat.sub_diag. reflexivity.
Qed.

Lemma charac_seq {XA XB} A B okA encA capA okB encB capB T :
  @charac XA A okA encA capA TT -> @charac XB B okB encB capB T ->
  charac (RSeq A B) (fun x => okA (fst x) /\ okB (snd x)) (fun x => encA (fst x) ++ encB (snd x))
         (fun x => capB (snd x) ++ capA (fst x)) T.
Proof.
  intros HA HB pos s cs p' s' cs'. rewrite in_ms_seq. split.
  - intros (p1 & s1 & cs1 & H1 & H2). apply HA in H1 as (a & Oa & -> & _ & -> & ->).
    apply HB in H2 as (b & Ob & -> & Tt & -> & ->). exists (a, b). cbn [fst snd].
    repeat split; auto.
    + rewrite app_assoc; reflexivity.
    + rewrite app_length; lia.
    + rewrite app_assoc; reflexivity.
  - intros ([a b] & [Oa Ob] & -> & Tt & -> & ->). cbn [fst snd] in *.
    exists (pos + length (encA a)), (encB b ++ s'), (capA a ++ cs). split.
    + apply HA. exists a. repeat split; auto. rewrite app_assoc; reflexivity.
    + apply HB. exists b. repeat split; auto.
      * rewrite app_length; lia.
      * rewrite app_assoc; reflexivity.
Qed.

Lemma firstn_pre (w t : str) pos : firstn (pos + length w - pos) (w ++ t) = w.
Proof.
  replace (pos + length w - pos) with (length w) by lia.
  rewrite firstn_app, Nat.sub_diag, firstn_all, firstn_O, app_nil_r. reflexivity.
Qed.

Lemma charac_group {X} name A ok enc capf :
  @charac X A ok enc capf TT ->
  charac (RGroup name A) ok enc (fun x => (name, enc x) :: capf x) TT.
Proof.
  intros HA pos s cs p' s' cs'. rewrite in_ms_group. split.
  - intros (p1 & s1 & cs1 & H & E). injection E as -> -> ->.
    apply HA in H as (x & O & -> & _ & -> & ->). exists x. repeat split; auto.
    rewrite firstn_pre. reflexivity.
  - intros (x & O & -> & _ & -> & ->). exists (pos + length (enc x)), s', (capf x ++ cs). split.
    + apply HA. exists x. repeat split; auto.
    + rewrite firstn_pre. reflexivity.
Qed.

Definition oenc {X} (enc : X -> str) (o : option X) : str := match o with Some x => enc x | None => [] end.
Definition ocap {X} (capf : X -> caps) (o : option X) : caps := match o with Some x => capf x | None => [] end.
Definition ook {X} (ok : X -> Prop) (o : option X) : Prop := match o with Some x => ok x | None => True end.

Lemma charac_opt {X} A ok enc capf :
  @charac X A ok enc capf TT -> charac (ROpt A) (ook ok) (oenc enc) (ocap capf) TT.
Proof.
  intros HA pos s cs p' s' cs'. rewrite in_ms_opt. split.
  - intros [H | E].
    + apply HA in H as (x & O & -> & _ & -> & ->). exists (Some x). repeat split; auto.
    + injection E as -> -> ->. exists None. cbn [oenc ocap ook app length]. repeat split; auto.
  - intros ([x|] & O & -> & _ & -> & ->); cbn [oenc ocap ook app length] in *.
    + left. apply HA. exists x. repeat split; auto.
    + right. rewrite Nat.add_0_r. reflexivity.
Qed.

Lemma charac_eol : charac REol (fun _ : unit => True) (fun _ => []) (fun _ => []) T4.
Proof.
  intros pos s cs p' s' cs'. cbn [ms app length]. rewrite Nat.add_0_r. unfold T4. split.
  - intros H. exists tt. destruct s as [|x [|y s]].
    + destruct H as [E|[]]. injection E as -> -> ->. auto 10.
    + destruct (Ascii.eqb x NL) eqn:Ex; [|destruct H]. apply Ascii.eqb_eq in Ex. subst x.
      destruct H as [E|[]]. injection E as -> -> ->. auto 10.
    + destruct H.
  - intros (_ & _ & -> & [-> | ->] & -> & ->).
    + left; reflexivity.
    + rewrite Ascii.eqb_refl. left; reflexivity.
Qed.

Lemma charac_iso {X Y} R ok enc capf T (ok' : Y -> Prop) enc' capf' (f : Y -> X) (g : X -> Y) :
  @charac X R ok enc capf T ->
  (forall y, ok' y -> ok (f y) /\ enc (f y) = enc' y /\ capf (f y) = capf' y) ->
  (forall x, ok x -> ok' (g x) /\ enc' (g x) = enc x /\ capf' (g x) = capf x) ->
  @charac Y R ok' enc' capf' T.
Proof.
  intros H F G pos s cs p' s' cs'. rewrite (H pos s cs p' s' cs'). split.
  - intros (x & O & -> & Tt & -> & ->). destruct (G x O) as (O' & E1 & E2). exists (g x).
    rewrite E1, E2. repeat split; auto.
  - intros (y & O & -> & Tt & -> & ->). destruct (F y O) as (O' & E1 & E2). exists (f y).
    rewrite E1, E2. repeat split; auto.
Qed.

(* ---------- the pieces of rec_path ---------- *)
Definition UP := Cls false [(65,90)].
Definition UPNUM := Cls false [(65,90);(48,57)].
Definition LBR := Cls false [(91,91)].
Definition RBR := Cls false [(93,93)].
Definition DIG := Cls false [(48,57)].
Definition MINUS := Cls false [(45,45)].

Lemma up_mem : forall a, cls_mem UP a = is_upper a.
Proof. apply sweep_eq. vm_compute. reflexivity. Qed.
Lemma upnum_mem : forall a, cls_mem UPNUM a = is_upnum a.
Proof. apply sweep_eq. vm_compute. reflexivity. Qed.
Lemma lbr_mem : forall a, cls_mem LBR a = Ascii.eqb a "["%char.
Proof. apply sweep_eq. vm_compute. reflexivity. Qed.
Lemma rbr_mem : forall a, cls_mem RBR a = Ascii.eqb a "]"%char.
Proof. apply sweep_eq. vm_compute. reflexivity. Qed.
Lemma dig_mem : forall a, cls_mem DIG a = is_digit a.
Proof. apply sweep_eq. vm_compute. reflexivity. Qed.
Lemma minus_mem : forall a, cls_mem MINUS a = Ascii.eqb a "-"%char.
Proof. apply sweep_eq. vm_compute. reflexivity. Qed.

Definition N_seg := cs "seg_id".
Definition N_idval := cs "id_val".
Definition N_ele := cs "ele_idx".
Definition N_sub := cs "subele_idx".
Definition N_2 := cs "2".
Definition N_5 := cs "5".

Definition SEG := RGroup N_seg (RSeq (RCls UP) (RRep UPNUM 1 (Some 2))).
Definition QUAL := RGroup N_2 (RSeq (RCls LBR) (RSeq (RGroup N_idval (RRep UPNUM 1 None)) (RCls RBR))).
Definition ELE := RGroup N_ele (RRep DIG 2 (Some 2)).
Definition SUB := RGroup N_5 (RSeq (RCls MINUS) (RGroup N_sub (RRep DIG 1 None))).
Definition BODY := RSeq (ROpt SEG) (RSeq (ROpt QUAL) (RSeq (ROpt ELE) (RSeq (ROpt SUB) REol))).
Lemma rec_path_eq : rec_path = RSeq RBol BODY.
Proof. reflexivity. Qed.

Lemma forallb_eq {A} (f g : A -> bool) l : (forall a, f a = g a) -> forallb f l = forallb g l.
Proof. intros H. induction l as [|x l IH]; simpl; [reflexivity|]. rewrite H, IH. reflexivity. Qed.

Lemma seg_charac : charac SEG (fun w => wf_segid w = true) (fun w => w) (fun w => [(N_seg, w)]) TT.
Proof.
  eapply charac_iso with (f := fun w => match w with a :: t => (a, t) | [] => (zero, []) end)
                         (g := fun x => fst x :: snd x).
  - unfold SEG. apply charac_group. apply charac_seq; [apply charac_cls | apply charac_rep].
  - intros [|a t] W; [discriminate|]. cbn [fst snd]. unfold wf_segid in W.
    apply andb_true_iff in W as [W F]. apply andb_true_iff in W as [U L].
    split; [|split; reflexivity]. rewrite up_mem. split; [exact U|].
    rewrite (forallb_eq _ _ t upnum_mem). apply orb_true_iff in L. rewrite !Nat.eqb_eq in L.
    repeat split; try lia; auto.
  - intros [a t] (U & L1 & L2 & F). cbn [fst snd] in *. split; [|split; reflexivity].
    unfold wf_segid. rewrite up_mem in U. rewrite (forallb_eq _ _ t upnum_mem) in F. rewrite U, F.
    rewrite andb_true_r. cbn [andb]. apply orb_true_iff. rewrite !Nat.eqb_eq. lia.
Qed.

Definition ok_ele (e : str) : bool := (length e =? 2) && all_digits e.
Definition ok_sub (u : str) : bool := negb (length u =? 0) && all_digits u.

Lemma ele_charac : charac ELE (fun e => ok_ele e = true) (fun e => e) (fun e => [(N_ele, e)]) TT.
Proof.
  eapply charac_iso with (f := fun w : str => w) (g := fun w : str => w).
  - unfold ELE. apply charac_group. apply charac_rep.
  - intros e W. unfold ok_ele in W. apply andb_true_iff in W as [L D]. apply Nat.eqb_eq in L.
    split; [|split; reflexivity]. rewrite (forallb_eq _ _ e dig_mem). repeat split; try lia; exact D.
  - intros e (L1 & L2 & D). split; [|split; reflexivity]. rewrite (forallb_eq _ _ e dig_mem) in D.
    unfold ok_ele. apply andb_true_iff. split; [apply Nat.eqb_eq; lia | exact D].
Qed.

Definition sub_enc (u : str) : str := "-"%char :: u.
Lemma sub_charac : charac SUB (fun u => ok_sub u = true) sub_enc
                          (fun u => [(N_5, sub_enc u); (N_sub, u)]) TT.
Proof.
  eapply charac_iso with (f := fun u : str => ("-"%char, u)) (g := fun x : ascii * str => snd x).
  - unfold SUB. apply charac_group. apply charac_seq; [apply charac_cls | apply charac_group, charac_rep].
  - intros u W. unfold ok_sub in W. apply andb_true_iff in W as [L D]. apply negb_true_iff, Nat.eqb_neq in L.
    cbn [fst snd]. split; [|split; reflexivity]. split; [reflexivity|].
    rewrite (forallb_eq _ _ u dig_mem). repeat split; try lia; exact D.
  - intros [a u] (M & L1 & _ & D). cbn [fst snd] in *. rewrite minus_mem in M. apply Ascii.eqb_eq in M. subst a.
    split; [|split; reflexivity]. rewrite (forallb_eq _ _ u dig_mem) in D.
    unfold ok_sub. apply andb_true_iff. split; [apply negb_true_iff, Nat.eqb_neq; lia | exact D].
Qed.

Definition qual_enc (q : str) : str := cs "[" ++ q ++ cs "]".
Lemma qual_charac : charac QUAL (fun q => wf_qual q = true) qual_enc
                           (fun q => [(N_2, qual_enc q); (N_idval, q)]) TT.
Proof.
  eapply charac_iso with (f := fun q : str => ("["%char, (q, "]"%char)))
                         (g := fun x : ascii * (str * ascii) => fst (snd x)).
  - unfold QUAL. apply charac_group. apply charac_seq; [apply charac_cls |].
    apply charac_seq; [apply charac_group, charac_rep | apply charac_cls].
  - intros q W. unfold wf_qual in W. apply andb_true_iff in W as [L D]. apply negb_true_iff, Nat.eqb_neq in L.
    cbn [fst snd]. split; [|split; reflexivity]. split; [reflexivity|]. split; [|reflexivity].
    rewrite (forallb_eq _ _ q upnum_mem). repeat split; try lia; exact D.
  - intros [a [q b]] (Ma & (L1 & _ & D) & Mb). cbn [fst snd] in *.
    rewrite lbr_mem in Ma. apply Ascii.eqb_eq in Ma. subst a.
    rewrite rbr_mem in Mb. apply Ascii.eqb_eq in Mb. subst b.
    split; [|split; reflexivity]. rewrite (forallb_eq _ _ q upnum_mem) in D.
    unfold wf_qual. apply andb_true_iff. split; [apply negb_true_iff, Nat.eqb_neq; lia | exact D].
Qed.

Definition caps_of (r : refdes) : caps :=
  ocap (fun u => [(N_5, sub_enc u); (N_sub, u)]) (r_sub r) ++
  ocap (fun e => [(N_ele, e)]) (r_ele r) ++
  ocap (fun q => [(N_2, qual_enc q); (N_idval, q)]) (r_qual r) ++
  ocap (fun w => [(N_seg, w)]) (r_seg r).

Lemma body_charac : charac BODY (fun r => shape_ok r = true) print_refdes caps_of T4.
Proof.
  eapply charac_iso with
    (f := fun r => (r_seg r, (r_qual r, (r_ele r, (r_sub r, tt)))))
    (g := fun x => {| r_seg := fst x; r_qual := fst (snd x); r_ele := fst (snd (snd x));
                      r_sub := fst (snd (snd (snd x))) |}).
  - unfold BODY. apply charac_seq; [apply charac_opt, seg_charac|].
    apply charac_seq; [apply charac_opt, qual_charac|].
    apply charac_seq; [apply charac_opt, ele_charac|].
    apply charac_seq; [apply charac_opt, sub_charac | apply charac_eol].
  - intros r W. unfold shape_ok in W.
    apply andb_true_iff in W as [W W4]. apply andb_true_iff in W as [W W3]. apply andb_true_iff in W as [W1 W2].
    cbn [fst snd].
    destruct r as [[w|] [q|] [e|] [u|]];
      cbn [r_seg r_qual r_ele r_sub opt_ok ook oenc ocap] in *;
      (split; [auto 10 | split;
        [unfold print_refdes, qual_enc, sub_enc, opt_str; cbn [r_seg r_qual r_ele r_sub app]; rewrite ?app_nil_r; reflexivity
        | unfold caps_of; cbn [r_seg r_qual r_ele r_sub ocap app]; rewrite ?app_nil_r; reflexivity]]).
  - intros [[w|] [[q|] [[e|] [[u|] []]]]] (W1 & W2 & W3 & W4 & _);
      cbn [fst snd r_seg r_qual r_ele r_sub opt_ok ook oenc ocap] in *;
      unfold ok_ele, ok_sub in *;
      (split; [unfold shape_ok; cbn [r_seg r_qual r_ele r_sub opt_ok];
               rewrite ?W1, ?W2, ?W3, ?W4; reflexivity | split;
        [unfold print_refdes, qual_enc, sub_enc, opt_str; cbn [r_seg r_qual r_ele r_sub app]; rewrite ?app_nil_r; reflexivity
        | unfold caps_of; cbn [r_seg r_qual r_ele r_sub ocap app]; rewrite ?app_nil_r; reflexivity]]).
Qed.

Lemma rec_path_in s p' s' cs' :
  In (p', s', cs') (ms rec_path 0 s []) <->
  exists r, shape_ok r = true /\ s = print_refdes r ++ s' /\ T4 s' /\
            p' = length (print_refdes r) /\ cs' = caps_of r.
Proof.
  rewrite rec_path_eq. rewrite in_ms_seq. split.
  - intros (p1 & s1 & cs1 & H1 & H2). cbn [ms Nat.eqb] in H1. destruct H1 as [E|[]].
    injection E as <- <- <-. apply body_charac in H2 as (r & W & E & Tt & -> & ->).
    exists r. rewrite app_nil_r. auto.
  - intros (r & W & E & Tt & -> & ->). exists 0, s, []. split; [left; reflexivity|].
    apply body_charac. exists r. rewrite app_nil_r. auto.
Qed.

Lemma find_map_some {A B} (f : A -> option B) l y :
  find_map f l = Some y -> exists x, In x l /\ f x = Some y.
Proof.
  induction l as [|x l IH]; simpl; [discriminate|]. destruct (f x) eqn:E.
  - intros H. injection H as <-. exists x. auto.
  - intros H. destruct (IH H) as [x0 [H1 H2]]. exists x0. auto.
Qed.

(* GOAL A2 *)
Lemma rec_path_shaped c x : search rec_path c = Some x -> refdes_shaped c.
Proof.
  rewrite rec_path_eq, search_bol, <- rec_path_eq. unfold match_at. rewrite m_ms. intros H.
  apply find_map_some in H as ([[p' s'] cs'] & Hin & _).
  apply rec_path_in in Hin as (r & W & -> & Tt & _). exists r. unfold shape_ok in W.
  apply andb_true_iff in W as [W W4]. apply andb_true_iff in W as [W W3]. apply andb_true_iff in W as [W1 W2].
  repeat split; auto. destruct Tt as [-> | ->]; [left; rewrite app_nil_r; reflexivity | right; reflexivity].
Qed.

(* ---------- unambiguity of the printed form ---------- *)
Definition nohd (P : ascii -> bool) (s : str) : Prop :=
  match s with [] => True | x :: _ => P x = false end.

Lemma span_unique P u1 : forall u2 t1 t2,
  forallb P u1 = true -> forallb P u2 = true -> nohd P t1 -> nohd P t2 ->
  u1 ++ t1 = u2 ++ t2 -> u1 = u2 /\ t1 = t2.
Proof.
  induction u1 as [|x u1 IH]; intros [|y u2] t1 t2 F1 F2 N1 N2 E; cbn [app forallb] in *.
  - auto.
  - subst t1. cbn [nohd] in N1. apply andb_true_iff in F2 as [F2 _]. congruence.
  - subst t2. cbn [nohd] in N2. apply andb_true_iff in F1 as [F1 _]. congruence.
  - injection E as -> E. apply andb_true_iff in F1 as [_ F1]. apply andb_true_iff in F2 as [_ F2].
    destruct (IH _ _ _ F1 F2 N1 N2 E) as [-> ->]. auto.
Qed.

Definition sub_str (o : option str) : str := match o with Some u => "-"%char :: u | None => [] end.
Definition qual_str (o : option str) : str := match o with Some q => cs "[" ++ q ++ cs "]" | None => [] end.

Definition R3 (t : str) : Prop := exists o s, opt_ok ok_sub o = true /\ T4 s /\ t = sub_str o ++ s.
Definition R2 (t : str) : Prop := exists o t3, opt_ok ok_ele o = true /\ R3 t3 /\ t = opt_str o ++ t3.
Definition R1 (t : str) : Prop := exists o t2, opt_ok wf_qual o = true /\ R2 t2 /\ t = qual_str o ++ t2.

Lemma T4_nohd P s : P NL = false -> T4 s -> nohd P s.
Proof. intros B [-> | ->]; cbn; auto. Qed.

Lemma R3_nohd P t : P "-"%char = false -> P NL = false -> R3 t -> nohd P t.
Proof.
  intros A B (o & s & _ & Tt & ->). destruct o; cbn [sub_str app nohd]; [exact A | apply T4_nohd; auto].
Qed.

Lemma ok_ele_2 e : ok_ele e = true -> exists a b, e = [a; b] /\ is_digit a = true /\ is_digit b = true.
Proof.
  unfold ok_ele. intros H. apply andb_true_iff in H as [L D]. apply Nat.eqb_eq in L.
  destruct e as [|a [|b [|c e]]]; try discriminate L. exists a, b. unfold all_digits in D. cbn [forallb] in D.
  apply andb_true_iff in D as [D1 D]. apply andb_true_iff in D as [D2 _]. auto.
Qed.

Lemma R2_nohd P t : P "-"%char = false -> P NL = false -> (forall d, is_digit d = true -> P d = false) ->
  R2 t -> nohd P t.
Proof.
  intros A B C (o & t3 & O & H3 & ->). destruct o as [e|]; cbn [opt_str app opt_ok] in *.
  - destruct (ok_ele_2 e O) as (a & b & -> & Da & _). cbn [app nohd]. apply C, Da.
  - apply R3_nohd; auto.
Qed.

Lemma R1_nohd P t : P "-"%char = false -> P NL = false -> (forall d, is_digit d = true -> P d = false) ->
  P "["%char = false -> R1 t -> nohd P t.
Proof.
  intros A B C D (o & t2 & O & H2 & ->). destruct o as [q|]; cbn [qual_str app opt_ok] in *.
  - cbn. exact D.
  - apply R2_nohd; auto.
Qed.

Lemma digit_not_lbr : forall d, is_digit d = true -> Ascii.eqb d "["%char = false.
Proof.
  assert (H : forall d, implb (is_digit d) (negb (Ascii.eqb d "["%char)) = true) by (apply forall_ascii; vm_compute; reflexivity).
  intros d D. specialize (H d). rewrite D in H. cbn [implb] in H. apply negb_true_iff in H. exact H.
Qed.

Lemma digit_not_upper : forall d, is_digit d = true -> is_upper d = false.
Proof.
  assert (H : forall d, implb (is_digit d) (negb (is_upper d)) = true) by (apply forall_ascii; vm_compute; reflexivity).
  intros d D. specialize (H d). rewrite D in H. cbn [implb] in H. apply negb_true_iff in H. exact H.
Qed.

Lemma U3 o1 o2 s1 s2 : opt_ok ok_sub o1 = true -> opt_ok ok_sub o2 = true -> T4 s1 -> T4 s2 ->
  sub_str o1 ++ s1 = sub_str o2 ++ s2 -> o1 = o2 /\ s1 = s2.
Proof.
  destruct o1 as [u1|], o2 as [u2|]; cbn [sub_str app opt_ok]; intros O1 O2 T1 T2 E.
  - injection E as E. unfold ok_sub in O1, O2. apply andb_true_iff in O1 as [_ O1]. apply andb_true_iff in O2 as [_ O2].
    destruct (span_unique is_digit u1 u2 s1 s2) as [-> ->]; auto; apply T4_nohd; auto.
  - destruct T2 as [-> | ->]; discriminate E.
  - destruct T1 as [-> | ->]; discriminate E.
  - auto.
Qed.

Lemma U2 o1 o2 t1 t2 : opt_ok ok_ele o1 = true -> opt_ok ok_ele o2 = true -> R3 t1 -> R3 t2 ->
  opt_str o1 ++ t1 = opt_str o2 ++ t2 -> o1 = o2 /\ t1 = t2.
Proof.
  destruct o1 as [e1|], o2 as [e2|]; cbn [opt_str app opt_ok]; intros O1 O2 T1 T2 E.
  - destruct (ok_ele_2 e1 O1) as (a & b & -> & _). destruct (ok_ele_2 e2 O2) as (c & d & -> & _).
    injection E as -> -> ->. auto.
  - destruct (ok_ele_2 e1 O1) as (a & b & -> & Da & _). subst t2.
    apply (R3_nohd is_digit) in T2; [|reflexivity|reflexivity]. cbn in T2. congruence.
  - destruct (ok_ele_2 e2 O2) as (a & b & -> & Da & _). subst t1.
    apply (R3_nohd is_digit) in T1; [|reflexivity|reflexivity]. cbn in T1. congruence.
  - auto.
Qed.

Lemma qual_str_app q t : qual_str (Some q) ++ t = "["%char :: q ++ "]"%char :: t.
Proof. cbn [qual_str cs list_ascii_of_string app]. rewrite <- app_assoc. reflexivity. Qed.

Lemma U1 o1 o2 t1 t2 : opt_ok wf_qual o1 = true -> opt_ok wf_qual o2 = true -> R2 t1 -> R2 t2 ->
  qual_str o1 ++ t1 = qual_str o2 ++ t2 -> o1 = o2 /\ t1 = t2.
Proof.
  destruct o1 as [q1|], o2 as [q2|]; rewrite ?qual_str_app; cbn [qual_str app opt_ok]; intros O1 O2 T1 T2 E.
  - injection E as E. unfold wf_qual in O1, O2. apply andb_true_iff in O1 as [_ O1]. apply andb_true_iff in O2 as [_ O2].
    destruct (span_unique is_upnum q1 q2 ("]"%char :: t1) ("]"%char :: t2) O1 O2) as [-> E2];
      [reflexivity | reflexivity | exact E |]. injection E2 as ->. auto.
  - subst t2. apply (R2_nohd (fun x => Ascii.eqb x "["%char)) in T2; [discriminate T2 | reflexivity | reflexivity | apply digit_not_lbr].
  - subst t1. apply (R2_nohd (fun x => Ascii.eqb x "["%char)) in T1; [discriminate T1 | reflexivity | reflexivity | apply digit_not_lbr].
  - auto.
Qed.

Lemma segid_form w : wf_segid w = true ->
  exists a b r, w = a :: b :: r /\ is_upper a = true /\ is_upnum b = true /\
                (r = [] \/ exists c, r = [c] /\ is_upnum c = true).
Proof.
  destruct w as [|a rest]; [discriminate|]. unfold wf_segid. intros H.
  apply andb_true_iff in H as [H F]. apply andb_true_iff in H as [U L].
  apply orb_true_iff in L. rewrite !Nat.eqb_eq in L.
  destruct rest as [|b [|c [|d rest]]]; cbn [length] in L; try lia; cbn [forallb] in F.
  - apply andb_true_iff in F as [Fb _]. exists a, b, []. auto 10.
  - apply andb_true_iff in F as [Fb F]. apply andb_true_iff in F as [Fc _]. exists a, b, [c]. eauto 10.
Qed.

Lemma R1_digit c t : is_upnum c = true -> R1 (c :: t) ->
  exists d t3, t = d :: t3 /\ is_digit d = true /\ R3 t3.
Proof.
  intros U (o & t2 & O & H2 & E). destruct o as [q|].
  - rewrite qual_str_app in E. injection E as -> _. discriminate U.
  - cbn [qual_str app] in E. subst t2. destruct H2 as (o & t3 & O' & H3 & E). destruct o as [e|]; cbn [opt_str app opt_ok] in *.
    + destruct (ok_ele_2 e O') as (a & b & -> & Da & Db). injection E as -> ->. exists b, t3. auto.
    + subst t3. apply (R3_nohd is_upnum) in H3; [|reflexivity|reflexivity]. cbn in H3. congruence.
Qed.

Lemma seg_amb c t : is_upnum c = true -> R1 (c :: t) -> R1 t -> False.
Proof.
  intros U H1 H2. destruct (R1_digit c t U H1) as (d & t3 & -> & D & H3).
  assert (Ud : is_upnum d = true) by (unfold is_upnum; rewrite D; apply orb_true_r).
  destruct (R1_digit d t3 Ud H2) as (d' & t4 & -> & D' & _).
  apply (R3_nohd is_digit) in H3; [|reflexivity|reflexivity]. cbn in H3. congruence.
Qed.

Lemma U0 o1 o2 t1 t2 : opt_ok wf_segid o1 = true -> opt_ok wf_segid o2 = true -> R1 t1 -> R1 t2 ->
  opt_str o1 ++ t1 = opt_str o2 ++ t2 -> o1 = o2 /\ t1 = t2.
Proof.
  destruct o1 as [w1|], o2 as [w2|]; cbn [opt_str app opt_ok]; intros O1 O2 T1 T2 E.
  - destruct (segid_form w1 O1) as (a1 & b1 & r1 & -> & _ & _ & R1').
    destruct (segid_form w2 O2) as (a2 & b2 & r2 & -> & _ & _ & R2').
    cbn [app] in E. injection E as -> -> E.
    destruct R1' as [-> | (c1 & -> & U1')], R2' as [-> | (c2 & -> & U2')]; cbn [app] in E.
    + subst. auto.
    + subst t1. exfalso. exact (seg_amb c2 t2 U2' T1 T2).
    + subst t2. exfalso. exact (seg_amb c1 t1 U1' T2 T1).
    + injection E as -> ->. auto.
  - destruct (segid_form w1 O1) as (a1 & b1 & r1 & -> & Ua & _). cbn [app] in E. subst t2.
    apply (R1_nohd is_upper) in T2; [cbn in T2; congruence | reflexivity | reflexivity | apply digit_not_upper | reflexivity].
  - destruct (segid_form w2 O2) as (a1 & b1 & r1 & -> & Ua & _). cbn [app] in E. subst t1.
    apply (R1_nohd is_upper) in T1; [cbn in T1; congruence | reflexivity | reflexivity | apply digit_not_upper | reflexivity].
  - auto.
Qed.

Lemma print_app r s :
  print_refdes r ++ s =
  opt_str (r_seg r) ++ qual_str (r_qual r) ++ opt_str (r_ele r) ++ sub_str (r_sub r) ++ s.
Proof. unfold print_refdes. rewrite <- !app_assoc. reflexivity. Qed.

Lemma print_unique r1 r2 s1 s2 :
  shape_ok r1 = true -> shape_ok r2 = true -> T4 s1 -> T4 s2 ->
  print_refdes r1 ++ s1 = print_refdes r2 ++ s2 -> r1 = r2 /\ s1 = s2.
Proof.
  intros W1 W2 T1 T2 E. rewrite !print_app in E.
  unfold shape_ok in W1, W2. fold ok_ele ok_sub in W1, W2.
  apply andb_true_iff in W1 as [W1 A4]. apply andb_true_iff in W1 as [W1 A3]. apply andb_true_iff in W1 as [A1 A2].
  apply andb_true_iff in W2 as [W2 B4]. apply andb_true_iff in W2 as [W2 B3]. apply andb_true_iff in W2 as [B1 B2].
  assert (X3 : R3 (sub_str (r_sub r1) ++ s1)) by (exists (r_sub r1), s1; auto).
  assert (Y3 : R3 (sub_str (r_sub r2) ++ s2)) by (exists (r_sub r2), s2; auto).
  assert (X2 : R2 (opt_str (r_ele r1) ++ sub_str (r_sub r1) ++ s1)) by (eexists _, _; eauto).
  assert (Y2 : R2 (opt_str (r_ele r2) ++ sub_str (r_sub r2) ++ s2)) by (eexists _, _; eauto).
  assert (X1 : R1 (qual_str (r_qual r1) ++ opt_str (r_ele r1) ++ sub_str (r_sub r1) ++ s1)) by (eexists _, _; eauto).
  assert (Y1 : R1 (qual_str (r_qual r2) ++ opt_str (r_ele r2) ++ sub_str (r_sub r2) ++ s2)) by (eexists _, _; eauto).
  destruct (U0 _ _ _ _ A1 B1 X1 Y1 E) as [E0 E'].
  destruct (U1 _ _ _ _ A2 B2 X2 Y2 E') as [E1 E''].
  destruct (U2 _ _ _ _ A3 B3 X3 Y3 E'') as [E2 E'''].
  destruct (U3 _ _ _ _ A4 B4 T1 T2 E''') as [E3 E4].
  destruct r1 as [a1 a2 a3 a4], r2 as [b1 b2 b3 b4]; cbn [r_seg r_qual r_ele r_sub] in *. subst. auto.
Qed.

(* GOAL A1 *)
Lemma rec_path_finds r :
  shape_ok r = true ->
  exists caps0,
    search rec_path (print_refdes r) = Some (0, length (print_refdes r), caps0) /\
    cap_get (cs "seg_id") caps0 = r_seg r /\ cap_get (cs "id_val") caps0 = r_qual r /\
    cap_get (cs "ele_idx") caps0 = r_ele r /\ cap_get (cs "subele_idx") caps0 = r_sub r.
Proof.
  intros W. exists (caps_of r). split.
  - rewrite rec_path_eq, search_bol, <- rec_path_eq. unfold match_at. rewrite m_ms. apply find_map_unique.
    + exists (length (print_refdes r), [], caps_of r). split; [|reflexivity].
      apply rec_path_in. exists r. rewrite app_nil_r. unfold T4. auto 10.
    + intros [[p' s'] cs'] z Hin E. cbn [ko] in E. injection E as <-.
      apply rec_path_in in Hin as (r0 & W0 & E & Tt & -> & ->).
      destruct (print_unique r r0 [] s' W W0 (or_introl eq_refl) Tt) as [<- _]; [rewrite app_nil_r; exact E|].
      reflexivity.
  - destruct r as [[w|] [q|] [e|] [u|]]; repeat split; reflexivity.
Qed.

(* ---------- GOAL A3: numerals ---------- *)
Lemma fmt_02_sweep : forall c1 c2,
  wf_ele [c1; c2] = true ->
  str_eqb (fmt_02 (dec_val [c1; c2])) [c1; c2] && negb (N.eqb (dec_val [c1; c2]) 0) = true.
Proof.
  assert (H : forallb (fun c1 => forallb (fun c2 =>
     implb (wf_ele [c1; c2])
       (str_eqb (fmt_02 (dec_val [c1; c2])) [c1; c2] && negb (N.eqb (dec_val [c1; c2]) 0)))
     all_ascii) all_ascii = true) by (vm_compute; reflexivity).
  intros c1 c2 W. rewrite forallb_forall in H. specialize (H c1 (all_ascii_complete c1)).
  rewrite forallb_forall in H. specialize (H c2 (all_ascii_complete c2)).
  rewrite W in H. exact H.
Qed.

Lemma fmt_02_dec e : wf_ele e = true -> fmt_02 (dec_val e) = e /\ dec_val e <> 0%N.
Proof.
  intros W. assert (L : length e = 2).
  { unfold wf_ele in W. apply andb_true_iff in W as [W _]. apply andb_true_iff in W as [W _].
    apply Nat.eqb_eq in W. exact W. }
  destruct e as [|c1 [|c2 [|c3 e]]]; try discriminate L.
  pose proof (fmt_02_sweep c1 c2 W) as H. apply andb_true_iff in H as [H1 H2].
  apply str_eqb_eq in H1. split; [exact H1|].
  apply negb_true_iff in H2. apply N.eqb_neq in H2. exact H2.
Qed.

Lemma dec_val_snoc u d : dec_val (u ++ [d]) = (dec_val u * 10 + N.of_nat (digit_val d))%N.
Proof. unfold dec_val. rewrite fold_left_app. reflexivity. Qed.

Lemma digit_char_val : forall d, is_digit d = true -> digit_char (digit_val d) = d /\ digit_val d < 10.
Proof.
  assert (H : forall d, implb (is_digit d) (Ascii.eqb (digit_char (digit_val d)) d && (digit_val d <? 10)) = true).
  { apply forall_ascii. vm_compute. reflexivity. }
  intros d D. specialize (H d). rewrite D in H. cbn [implb] in H. apply andb_true_iff in H as [H1 H2].
  apply Ascii.eqb_eq in H1. apply Nat.ltb_lt in H2. auto.
Qed.

Lemma digit_val_pos : forall d, is_digit d = true -> d <> "0"%char -> 1 <= digit_val d.
Proof.
  assert (H : forall d, implb (is_digit d && negb (Ascii.eqb d "0"%char)) (1 <=? digit_val d) = true).
  { apply forall_ascii. vm_compute. reflexivity. }
  intros d D Z. specialize (H d). rewrite D in H. apply Ascii.eqb_neq in Z. rewrite Z in H. cbn [implb negb andb] in H.
  apply Nat.leb_le in H. exact H.
Qed.

Definition canon (u : str) : Prop :=
  all_digits u = true /\ match u with a :: _ => a <> "0"%char | [] => False end.

Lemma canon_snoc u d : canon (u ++ [d]) -> is_digit d = true /\ (u <> [] -> canon u).
Proof.
  intros [A B]. unfold all_digits in A. rewrite forallb_app in A. apply andb_true_iff in A as [A1 A2].
  simpl in A2. rewrite andb_true_r in A2. split; [exact A2|]. intros N. split; [exact A1|].
  destruct u as [|a u]; [congruence|]. exact B.
Qed.

Lemma canon_pow u : canon u -> (2 ^ N.of_nat (length u) <= 2 * dec_val u)%N.
Proof.
  induction u as [|d u IH] using rev_ind; intros C.
  - destruct C as [_ []].
  - destruct (canon_snoc u d C) as [D Cu]. rewrite dec_val_snoc, app_length. simpl length.
    replace (length u + 1) with (S (length u)) by lia. rewrite Nat2N.inj_succ, N.pow_succ_r'.
    destruct u as [|a u'].
    + destruct C as [_ C]. cbn [app] in C. pose proof (digit_val_pos d D C).
      change (dec_val []) with 0%N. change (N.of_nat (length (@nil ascii))) with 0%N. rewrite N.pow_0_r. lia.
    + specialize (IH (Cu ltac:(discriminate))). lia.
Qed.

Lemma canon_pos u : canon u -> dec_val u <> 0%N.
Proof.
  intros C. pose proof (canon_pow u C) as H. intros E. rewrite E in H.
  pose proof (N.pow_nonzero 2 (N.of_nat (length u)) ltac:(lia)). lia.
Qed.

Lemma show_canon u : canon u -> forall fuel acc, length u <= fuel ->
  show_N_fuel fuel (dec_val u) acc = u ++ acc.
Proof.
  induction u as [|d u IH] using rev_ind; intros C fuel acc L.
  - destruct C as [_ []].
  - destruct (canon_snoc u d C) as [D Cu]. rewrite app_length in L. simpl in L.
    destruct fuel as [|f]; [lia|]. cbn [show_N_fuel]. rewrite dec_val_snoc.
    destruct (digit_char_val d D) as [DC DV].
    assert (Q : ((dec_val u * 10 + N.of_nat (digit_val d)) / 10 = dec_val u)%N).
    { rewrite N.add_comm. rewrite N.div_add by lia. rewrite N.div_small by lia. lia. }
    assert (M : ((dec_val u * 10 + N.of_nat (digit_val d)) mod 10 = N.of_nat (digit_val d))%N).
    { rewrite N.add_comm. rewrite N.mod_add by lia. apply N.mod_small. lia. }
    rewrite Q, M, Nat2N.id, DC.
    destruct u as [|a u'].
    + reflexivity.
    + specialize (Cu ltac:(discriminate)). pose proof (canon_pos _ Cu) as P.
      apply N.eqb_neq in P. rewrite P. rewrite IH by (auto; lia). rewrite <- app_assoc. reflexivity.
Qed.

Lemma wf_sub_canon u : wf_sub u = true -> canon u.
Proof.
  unfold wf_sub, canon. destruct u as [|a u]; [discriminate|]. intros H.
  apply andb_true_iff in H as [H1 H2]. split; [exact H1|]. apply negb_true_iff in H2.
  apply Ascii.eqb_neq in H2. exact H2.
Qed.

Lemma fmt_d_dec u : wf_sub u = true -> fmt_d (dec_val u) = u /\ dec_val u <> 0%N.
Proof.
  intros W. apply wf_sub_canon in W. pose proof (canon_pos u W) as P. split; [|exact P].
  unfold fmt_d. rewrite show_canon; [apply app_nil_r | exact W |].
  pose proof (canon_pow u W) as H.
  assert (H2 : (N.log2 (2 ^ N.of_nat (length u)) <= N.log2 (2 * dec_val u))%N) by (apply N.log2_le_mono; exact H).
  rewrite N.log2_pow2 in H2 by lia. rewrite N.log2_double in H2 by lia. lia.
Qed.

(* ---------- GOAL A4: the property-level statements ---------- *)

(* split / join *)
Lemma split_aux_nosep c x : forall cur, ~ In c x -> split_aux c x cur = [rev cur ++ x].
Proof.
  induction x as [|a x IH]; intros cur H; cbn [split_aux].
  - rewrite app_nil_r. reflexivity.
  - assert (E : Ascii.eqb a c = false) by (apply Ascii.eqb_neq; intros ->; apply H; left; reflexivity).
    rewrite E, IH by (intros I; apply H; right; exact I). cbn [rev]. rewrite <- app_assoc. reflexivity.
Qed.

Lemma split_aux_sep c x rest : forall cur, ~ In c x ->
  split_aux c (x ++ c :: rest) cur = (rev cur ++ x) :: split_aux c rest [].
Proof.
  induction x as [|a x IH]; intros cur H; cbn [split_aux app].
  - rewrite Ascii.eqb_refl, app_nil_r. reflexivity.
  - assert (E : Ascii.eqb a c = false) by (apply Ascii.eqb_neq; intros ->; apply H; left; reflexivity).
    rewrite E, IH by (intros I; apply H; right; exact I). cbn [rev]. rewrite <- app_assoc. reflexivity.
Qed.

Lemma split_join c l : l <> [] -> (forall x, In x l -> ~ In c x) -> split c (join c l) = l.
Proof.
  induction l as [|x l IH]; intros NE H; [congruence|]. destruct l as [|y l].
  - cbn [join]. unfold split. rewrite split_aux_nosep by (apply H; left; reflexivity). reflexivity.
  - change (join c (x :: y :: l)) with (x ++ c :: join c (y :: l)). unfold split.
    rewrite split_aux_sep by (apply H; left; reflexivity). cbn [rev app]. f_equal.
    apply IH; [discriminate | intros z Hz; apply H; right; exact Hz].
Qed.

Lemma join_snoc c l z : l <> [] -> join c (l ++ [z]) = join c l ++ c :: z.
Proof.
  induction l as [|x l IH]; intros NE; [congruence|]. destruct l as [|y l].
  - reflexivity.
  - change (join c ((x :: y :: l) ++ [z])) with (x ++ c :: join c ((y :: l) ++ [z])).
    rewrite IH by discriminate. change (join c (x :: y :: l)) with (x ++ c :: join c (y :: l)).
    rewrite <- app_assoc. reflexivity.
Qed.

(* the part of parse_path after the leading-slash test *)
Definition mk (rel : bool) (ll : list str) (sid idv : option str) (ei si : option N) : xpath :=
  {| relative := rel; loop_list := ll; seg_id := sid; id_val := idv; ele_idx := ei; subele_idx := si |}.

Definition parse_body (rel : bool) (ll : list str) : result xpath :=
    match rev ll with
    | [] => Ok (mk rel [] None None None None)
    | last :: before_rev =>
      let before := rev before_rev in
      match last with
      | [] => Ok (mk rel before None None None None)
      | _ =>
        match search rec_path last with
        | None => Ok (mk rel ll None None None None)
        | Some (_, _, caps0) =>
          let sid := cap_get (cs "seg_id") caps0 in
          let idv := cap_get (cs "id_val") caps0 in
          let ei := option_map dec_val (cap_get (cs "ele_idx") caps0) in
          let si := option_map dec_val (cap_get (cs "subele_idx") caps0) in
          match sid, idv with
          | None, Some _ => Raise X12PathError
          | _, _ =>
            match sid, (match ei, si with None, None => false | _, _ => true end), before with
            | None, true, _ :: _ => Raise X12PathError
            | _, _, _ => Ok (mk rel before sid idv ei si)
            end
          end
        end
      end
    end.

Lemma parse_path_abs body : parse_path (SL :: body) = parse_body false (split SL body).
Proof. reflexivity. Qed.

Lemma parse_path_rel c0 rest : c0 <> SL -> parse_path (c0 :: rest) = parse_body true (split SL (c0 :: rest)).
Proof. intros H. apply Ascii.eqb_neq in H. unfold parse_path. rewrite H. reflexivity. Qed.

Lemma parse_join (rel : bool) (ll : list str) :
  ll <> [] -> (forall x, In x ll -> ~ In SL x) -> hd [] ll <> [] ->
  parse_path ((if rel then [] else [SL]) ++ join SL ll) = parse_body rel ll.
Proof.
  intros NE NS HD. destruct rel; cbn [app].
  - destruct ll as [|[|a x] l']; [congruence | exfalso; apply HD; reflexivity |].
    assert (A : a <> SL) by (intros ->; apply (NS (SL :: x)); left; reflexivity).
    match goal with |- parse_path ?j = _ =>
      assert (J : exists rest, j = a :: rest) by (destruct l'; cbn [join app]; eauto) end.
    destruct J as [rest J]. rewrite J, parse_path_rel by exact A. rewrite <- J, split_join by assumption. reflexivity.
  - rewrite parse_path_abs, split_join by assumption. reflexivity.
Qed.

(* facts about the printed designator *)
Lemma wf_loop_spec s : wf_loop s = true -> s <> [] /\ ~ In SL s.
Proof.
  unfold wf_loop. intros H. apply andb_true_iff in H as [H1 H2]. split.
  - destruct s; [discriminate | discriminate].
  - apply negb_true_iff in H2. intros I. apply mem_ascii_In in I. unfold SL in I. congruence.
Qed.

Lemma no_slash_upnum w : forallb is_upnum w = true -> ~ In SL w.
Proof. intros F H. rewrite forallb_forall in F. specialize (F _ H). vm_compute in F. discriminate F. Qed.

Lemma digits_upnum w : all_digits w = true -> forallb is_upnum w = true.
Proof.
  unfold all_digits. induction w as [|a w IH]; cbn [forallb]; [reflexivity|]. intros H.
  apply andb_true_iff in H as [H1 H2]. rewrite IH by exact H2. unfold is_upnum. rewrite H1, orb_true_r. reflexivity.
Qed.

Lemma print_no_slash r : shape_ok r = true -> ~ In SL (print_refdes r).
Proof.
  intros W I. unfold shape_ok in W. fold ok_ele ok_sub in W.
  apply andb_true_iff in W as [W W4]. apply andb_true_iff in W as [W W3]. apply andb_true_iff in W as [W1 W2].
  rewrite <- (app_nil_r (print_refdes r)), print_app, app_nil_r in I.
  apply in_app_or in I as [I|I].
  { destruct (r_seg r) as [w|]; cbn [opt_str opt_ok] in *; [|destruct I].
    destruct (segid_form w W1) as (a & b & t & -> & Ua & Ub & Ht).
    assert (Una : is_upnum a = true) by (unfold is_upnum; rewrite Ua; reflexivity).
    revert I. apply no_slash_upnum. cbn [forallb]. rewrite Una, Ub.
    destruct Ht as [-> | (c & -> & Uc)]; cbn [forallb andb]; rewrite ?Uc; reflexivity. }
  apply in_app_or in I as [I|I].
  { destruct (r_qual r) as [q|]; cbn [qual_str opt_ok] in *; [|destruct I].
    unfold wf_qual in W2. apply andb_true_iff in W2 as [_ W2].
    apply in_app_or in I as [I|I]; [destruct I as [I|[]]; discriminate I|].
    apply in_app_or in I as [I|I]; [revert I; apply no_slash_upnum; exact W2 | destruct I as [I|[]]; discriminate I]. }
  apply in_app_or in I as [I|I].
  { destruct (r_ele r) as [e|]; cbn [opt_str opt_ok] in *; [|destruct I].
    unfold ok_ele in W3. apply andb_true_iff in W3 as [_ W3]. revert I. apply no_slash_upnum, digits_upnum, W3. }
  destruct (r_sub r) as [u|]; cbn [sub_str opt_ok] in *; [|destruct I].
  unfold ok_sub in W4. apply andb_true_iff in W4 as [_ W4].
  destruct I as [I|I]; [discriminate I|]. revert I. apply no_slash_upnum, digits_upnum, W4.
Qed.

Lemma print_nil r : shape_ok r = true -> print_refdes r = [] ->
  r_seg r = None /\ r_qual r = None /\ r_ele r = None /\ r_sub r = None.
Proof.
  intros W E. unfold shape_ok in W. fold ok_ele ok_sub in W.
  apply andb_true_iff in W as [W W4]. apply andb_true_iff in W as [W W3]. apply andb_true_iff in W as [W1 W2].
  rewrite <- (app_nil_r (print_refdes r)), print_app, app_nil_r in E.
  apply app_eq_nil in E as [E1 E]. apply app_eq_nil in E as [E2 E]. apply app_eq_nil in E as [E3 E4].
  repeat split.
  - destruct (r_seg r) as [w|]; [|reflexivity]. cbn [opt_str opt_ok] in *. subst w. discriminate W1.
  - destruct (r_qual r) as [q|]; [|reflexivity]. discriminate E2.
  - destruct (r_ele r) as [e|]; [|reflexivity]. cbn [opt_str opt_ok] in *. subst e. discriminate W3.
  - destruct (r_sub r) as [u|]; [|reflexivity]. discriminate E4.
Qed.

Lemma wf_shape r : wf_refdes r = true -> shape_ok r = true.
Proof.
  unfold wf_refdes, shape_ok. intros H.
  apply andb_true_iff in H as [H _]. apply andb_true_iff in H as [H _]. apply andb_true_iff in H as [H _].
  apply andb_true_iff in H as [H W4]. apply andb_true_iff in H as [H W3]. apply andb_true_iff in H as [W1 W2].
  rewrite W1, W2. cbn [andb]. apply andb_true_iff. split.
  - destruct (r_ele r) as [e|]; [|reflexivity]. cbn [opt_ok] in *. unfold wf_ele in W3.
    apply andb_true_iff in W3 as [W3 _]. exact W3.
  - destruct (r_sub r) as [u|]; [|reflexivity]. cbn [opt_ok] in *. unfold wf_sub in W4.
    destruct u as [|a u]; [discriminate|]. apply andb_true_iff in W4 as [W4 _]. rewrite W4. reflexivity.
Qed.

Definition has_idx (r : refdes) : bool :=
  match option_map dec_val (r_ele r), option_map dec_val (r_sub r) with None, None => false | _, _ => true end.

Lemma parse_body_ref rel loops r :
  shape_ok r = true -> print_refdes r <> [] ->
  parse_body rel (loops ++ [print_refdes r]) =
  match r_seg r, r_qual r with
  | None, Some _ => Raise X12PathError
  | _, _ =>
      match r_seg r, has_idx r, loops with
      | None, true, _ :: _ => Raise X12PathError
      | _, _, _ => Ok (mk rel loops (r_seg r) (r_qual r) (option_map dec_val (r_ele r)) (option_map dec_val (r_sub r)))
      end
  end.
Proof.
  intros W NE. unfold parse_body. rewrite rev_app_distr. cbn [rev app]. rewrite rev_involutive.
  destruct (rec_path_finds r W) as (caps0 & S & C1 & C2 & C3 & C4).
  destruct (print_refdes r) as [|c pr] eqn:E; [congruence|]. cbv iota. rewrite S. cbv zeta.
  rewrite C1, C2, C3, C4. reflexivity.
Qed.

Lemma parse_body_noref (rel : bool) (ll : list str) last br :
  rev ll = last :: br -> last <> [] -> ~ refdes_shaped last ->
  parse_body rel ll = Ok (mk rel ll None None None None).
Proof.
  unfold parse_body. intros -> NE NS. destruct last as [|a last]; [congruence|].
  destruct (search rec_path (a :: last)) eqn:S; [exfalso; eapply NS, rec_path_shaped; eauto | reflexivity].
Qed.

Lemma loops_ok (loops : list str) (z : str) : forallb wf_loop loops = true -> z <> [] -> ~ In SL z ->
  loops ++ [z] <> [] /\ (forall x, In x (loops ++ [z]) -> ~ In SL x) /\ hd [] (loops ++ [z]) <> [].
Proof.
  intros WL NE NS. rewrite forallb_forall in WL. split; [|split].
  - destruct loops; discriminate.
  - intros x I. apply in_app_or in I as [I|[<-|[]]]; [apply wf_loop_spec, WL, I | exact NS].
  - destruct loops as [|y l]; cbn [app hd]; [exact NE | apply wf_loop_spec, WL; left; reflexivity].
Qed.

Lemma print_path_ref rel loops r :
  print_path {| p_rel := rel; p_loops := loops; p_ref := Some r |} =
  (if rel then [] else [SL]) ++ join SL (loops ++ [print_refdes r]).
Proof.
  unfold print_path. cbn [p_rel p_loops p_ref]. destruct loops as [|x l].
  - cbn [join app]. rewrite app_nil_r. reflexivity.
  - rewrite join_snoc by discriminate. rewrite <- !app_assoc. reflexivity.
Qed.

Lemma parse_print_ref rel loops r :
  forallb wf_loop loops = true -> wf_refdes r = true -> (r_seg r = None -> loops = [] /\ rel = true) ->
  parse_path (print_path {| p_rel := rel; p_loops := loops; p_ref := Some r |}) =
  Ok (mk rel loops (r_seg r) (r_qual r) (option_map dec_val (r_ele r)) (option_map dec_val (r_sub r))).
Proof.
  intros WL WF ALONE. pose proof (wf_shape r WF) as W.
  assert (NE : print_refdes r <> []).
  { intros E. destruct (print_nil r W E) as (E1 & _ & E3 & _). unfold wf_refdes in WF.
    rewrite E1, E3 in WF. cbn [is_some orb] in WF. rewrite andb_false_r in WF. discriminate WF. }
  destruct (loops_ok loops (print_refdes r) WL NE (print_no_slash r W)) as (L1 & L2 & L3).
  rewrite print_path_ref, parse_join by assumption. rewrite parse_body_ref by assumption.
  destruct (r_seg r) as [w|] eqn:Es.
  - destruct (r_qual r); reflexivity.
  - destruct (ALONE eq_refl) as [-> ->]. unfold wf_refdes in WF. rewrite Es in WF.
    destruct (r_qual r) as [q|]; [cbn [is_some implb] in WF; rewrite !andb_false_r in WF; discriminate WF|].
    destruct (has_idx r); reflexivity.
Qed.

Theorem parse_print p :
  wf_path p ->
  exists x, parse_path (print_path p) = Ok x /\
    relative x = p_rel p /\ loop_list x = p_loops p /\ seg_id x = expected_seg p /\
    id_val x = expected_qual p /\ ele_idx x = expected_ele p /\ subele_idx x = expected_sub p.
Proof.
  destruct p as [rel loops [r|]]; unfold wf_path, expected_seg, expected_qual, expected_ele, expected_sub;
    cbn [p_rel p_loops p_ref]; intros (WL & WR & _).
  - destruct WR as [WF ALONE]. eexists. split; [apply parse_print_ref; assumption|]. repeat split; reflexivity.
  - destruct (rev loops) as [|last br] eqn:R.
    + assert (loops = []) by (rewrite <- (rev_involutive loops), R; reflexivity). subst loops.
      destruct rel; (eexists; split; [reflexivity | repeat split; reflexivity]).
    + assert (I : In last loops) by (apply in_rev; rewrite R; left; reflexivity).
      rewrite forallb_forall in WL. destruct (wf_loop_spec last (WL _ I)) as [NE _].
      exists (mk rel loops None None None None). split; [|repeat split; reflexivity].
      unfold print_path. cbn [p_rel p_loops p_ref].
      rewrite parse_join.
      * eapply parse_body_noref; eauto.
      * intros ->. discriminate R.
      * intros x Hx. apply wf_loop_spec, WL, Hx.
      * destruct loops as [|y l]; [discriminate R|]. cbn [hd]. apply wf_loop_spec, WL. left; reflexivity.
Qed.

(* printing the parsed parts *)
Lemma truthy_seg w : wf_segid w = true -> truthy_str (Some w) = true.
Proof. destruct w; [discriminate | reflexivity]. Qed.
Lemma truthy_qual q : wf_qual q = true -> truthy_str (Some q) = true.
Proof. destruct q; [discriminate | reflexivity]. Qed.
Lemma truthy_ele e : wf_ele e = true -> truthy_N (Some (dec_val e)) = true.
Proof.
  intros H. destruct (fmt_02_dec e H) as [_ N]. cbn [truthy_N]. apply negb_true_iff, N.eqb_neq. exact N.
Qed.
Lemma truthy_sub u : wf_sub u = true -> truthy_N (Some (dec_val u)) = true.
Proof.
  intros H. destruct (fmt_d_dec u H) as [_ N]. cbn [truthy_N]. apply negb_true_iff, N.eqb_neq. exact N.
Qed.

Lemma format_refdes_ok rel loops r :
  wf_refdes r = true ->
  format_refdes {| relative := rel; loop_list := loops; seg_id := r_seg r; id_val := r_qual r;
                   ele_idx := option_map dec_val (r_ele r); subele_idx := option_map dec_val (r_sub r) |}
  = print_refdes r.
Proof.
  unfold wf_refdes. intros H.
  apply andb_true_iff in H as [H I3]. apply andb_true_iff in H as [H I2]. apply andb_true_iff in H as [H I1].
  apply andb_true_iff in H as [H W4]. apply andb_true_iff in H as [H W3]. apply andb_true_iff in H as [W1 W2].
  unfold format_refdes, print_refdes. cbn [seg_id id_val ele_idx subele_idx].
  destruct (r_seg r) as [w|]; destruct (r_qual r) as [q|]; destruct (r_ele r) as [e|]; destruct (r_sub r) as [u|];
    cbn [opt_ok is_some implb orb option_map opt_str] in *; try discriminate;
    rewrite ?(truthy_seg _ W1), ?(truthy_qual _ W2), ?(truthy_ele _ W3), ?(proj1 (fmt_02_dec _ W3)),
            ?(truthy_sub _ W4), ?(proj1 (fmt_d_dec _ W4));
    cbn [truthy_str truthy_N]; rewrite <- ?app_assoc; reflexivity.
Qed.

Lemma ret_cond (rel : bool) (y : str) (l : list str) :
  wf_loop y = true ->
  str_eqb ((if rel then [] else [SL]) ++ join SL (y :: l)) [] = false /\
  str_eqb ((if rel then [] else [SL]) ++ join SL (y :: l)) [SL] = false.
Proof.
  intros WL. destruct (wf_loop_spec y WL) as [NE NS]. destruct y as [|a y']; [congruence|].
  assert (A : Ascii.eqb a SL = false) by (apply Ascii.eqb_neq; intros ->; apply NS; left; reflexivity).
  match goal with |- context [join SL ?ll] => set (j := join SL ll) end.
  assert (J : exists rest, j = a :: rest) by (subst j; destruct l; cbn [join app]; eauto).
  clearbody j. destruct J as [rest ->].
  destruct rel; cbn [app str_eqb]; rewrite ?A, ?andb_false_r; auto.
Qed.

Lemma format_path_ref rel loops r :
  forallb wf_loop loops = true -> wf_refdes r = true -> (r_seg r = None -> loops = [] /\ rel = true) ->
  format_path (mk rel loops (r_seg r) (r_qual r) (option_map dec_val (r_ele r)) (option_map dec_val (r_sub r)))
  = print_path {| p_rel := rel; p_loops := loops; p_ref := Some r |}.
Proof.
  intros WL WF ALONE. unfold format_path, mk. rewrite format_refdes_ok by exact WF.
  cbn [relative loop_list seg_id]. unfold print_path. cbn [p_rel p_loops p_ref].
  destruct loops as [|y l].
  - destruct rel; destruct (truthy_str (r_seg r)); reflexivity.
  - cbn [forallb] in WL. apply andb_true_iff in WL as [WLy _].
    destruct (ret_cond rel y l WLy) as [C1 C2]. rewrite C1, C2.
    destruct (r_seg r) as [w|] eqn:Es; [|destruct (ALONE eq_refl) as [? _]; discriminate].
    unfold wf_refdes in WF. rewrite Es in WF.
    assert (W1 : wf_segid w = true).
    { cbn [opt_ok] in WF. destruct (wf_segid w); [reflexivity | discriminate WF]. }
    rewrite (truthy_seg w W1). reflexivity.
Qed.

Theorem format_parse p x :
  wf_path p -> parse_path (print_path p) = Ok x -> format_path x = print_path p.
Proof.
  destruct p as [rel loops [r|]].
  - unfold wf_path. cbn [p_rel p_loops p_ref]. intros (WL & (WF & ALONE) & _) H.
    rewrite parse_print_ref in H by assumption. injection H as <-. apply format_path_ref; assumption.
  - intros WP H. destruct (parse_print _ WP) as (x' & H' & F1 & F2 & F3 & F4 & F5 & F6).
    rewrite H in H'. injection H' as <-. destruct x as [xr xl xs xq xe xu].
    unfold expected_seg, expected_qual, expected_ele, expected_sub in *.
    cbn [relative loop_list seg_id id_val ele_idx subele_idx p_rel p_loops p_ref] in *. subst.
    unfold format_path, format_refdes, print_path.
    cbn [relative loop_list seg_id id_val ele_idx subele_idx p_rel p_loops p_ref truthy_str truthy_N andb app].
    rewrite app_nil_r. reflexivity.
Qed.

Lemma list_eqb_refl (l : list str) : list_eqb str_eqb l l = true.
Proof. induction l as [|x l IH]; cbn [list_eqb]; [reflexivity|]. rewrite str_eqb_refl, IH. reflexivity. Qed.

Lemma path_eqb_refl x : path_eqb x x = true.
Proof.
  unfold path_eqb. rewrite list_eqb_refl, eqb_reflx.
  destruct (seg_id x), (id_val x), (ele_idx x), (subele_idx x); cbn [opt_eqb];
    rewrite ?str_eqb_refl, ?N.eqb_refl; reflexivity.
Qed.

Theorem reparse_equal p x :
  wf_path p -> parse_path (print_path p) = Ok x ->
  exists y, parse_path (format_path x) = Ok y /\ path_eqb x y = true.
Proof.
  intros WP H. rewrite (format_parse p x WP H). exists x. split; [exact H | apply path_eqb_refl].
Qed.

Theorem rejects (rel : bool) loops r :
  loops <> [] -> forallb wf_loop loops = true -> shape_ok r = true ->
  r_seg r = None -> (r_qual r <> None \/ r_ele r <> None \/ r_sub r <> None) ->
  parse_path ((if rel then [] else ["/"%char]) ++ join "/"%char loops ++ "/"%char :: print_refdes r)
    = Raise X12PathError.
Proof.
  intros NEL WL W Es ANY.
  assert (NE : print_refdes r <> []).
  { intros E. destruct (print_nil r W E) as (_ & E2 & E3 & E4). tauto. }
  rewrite <- join_snoc by exact NEL.
  destruct (loops_ok loops (print_refdes r) WL NE (print_no_slash r W)) as (L1 & L2 & L3).
  change ["/"%char] with [SL]. change "/"%char with SL.
  rewrite parse_join by assumption. rewrite parse_body_ref by assumption. rewrite Es.
  destruct loops as [|y l]; [congruence|]. unfold has_idx.
  destruct (r_qual r) as [q|]; [reflexivity|].
  destruct (r_ele r) as [e|]; [reflexivity|].
  destruct (r_sub r) as [u|]; [reflexivity|]. tauto.
Qed.

Print Assumptions parse_print.
Print Assumptions format_parse.
Print Assumptions rejects.
Print Assumptions reparse_equal.
