(* C07_ctx_all.v — the context reader on the shipped configuration, for EVERY loop id except the three
   whose loop starts with a loop (DETAIL, TABLE2AREA2, TABLE2AREA3). *)
From Coq Require Import String List Lia.
From PX.Lib Require Import Base PyStr Xml.
From PX.Model Require Import Segment MapLoad MapTree Walker Driver Context CtxReader.
From PX.Spec Require Import C07_walker_wf C07_valid_wf C07_spec C07_ctx_spec.
From PX.Proofs Require Import C07_walker_lemmas C07_zone C07_driver_maps C07_ctx_refs C07_ctx_step C07_ctx_maps.
Import ListNotations.

(* ---- a loop id that no loop of the map carries ---- *)
Lemma dedup_In x xs : In x (dedup xs) <-> In x xs.
Proof.
  induction xs as [|y xs IH]; [reflexivity|]. cbn [dedup]. destruct (existsb (str_eqb y) xs) eqn:E.
  - rewrite IH. split; [right; assumption|]. intros [<-|H]; [|exact H].
    apply existsb_exists in E as [z [Hz Ez]]. apply str_eqb_eq in Ez. subst z. exact Hz.
  - cbn [In]. rewrite IH. reflexivity.
Qed.

Lemma existsb_str_false x xs : existsb (str_eqb x) xs = false -> ~ In x xs.
Proof.
  intros E H. assert (T : existsb (str_eqb x) xs = true) by (apply existsb_exists; exists x; split; [exact H | apply str_eqb_refl]).
  congruence.
Qed.

Section Fresh.
Variable m : xmap.
Variable x : str.
Hypothesis WF : walker_wf m = true.
Hypothesis NX : ~ In x (loop_ids m).

Lemma no_loop_x r i t nm u ps rp pm : node_at (root_nodes m) r = Some (NLoop i t nm u ps rp pm) -> i <> Some x.
Proof.
  intros H ->. apply NX. unfold loop_ids. apply dedup_In. apply in_flat_map. exists r.
  split; [eapply all_refs_in; eauto|]. rewrite H. left. reflexivity.
Qed.

Lemma fresh_not_in_tree r : in_tree_ref (Some x) m r = false.
Proof.
  destruct (in_tree_ref (Some x) m r) eqn:E; [|reflexivity]. exfalso.
  apply in_tree_split in E as (p & q & _ & _ & L). unfold loop_id_at in L.
  destruct (node_at (root_nodes m) p) as [[i t nm u ps rp pm|sn]|] eqn:H; try discriminate.
  exact (no_loop_x _ _ _ _ _ _ _ _ H L).
Qed.

Lemma forallb_all {A} (f : A -> bool) xs : (forall a, f a = true) -> forallb f xs = true.
Proof. intros H. apply forallb_forall. intros a _. apply H. Qed.

Lemma fresh_lid_good : lid_good (Some x) m = true.
Proof.
  cbn [lid_good]. apply forallb_all. intros r.
  destruct (node_at (root_nodes m) r) as [[i t nm u ps rp pm|sn]|] eqn:H; try reflexivity.
  destruct (ostr_eqb i (Some x)) eqn:E; [|reflexivity]. apply ostr_eqb_eq in E.
  destruct (no_loop_x _ _ _ _ _ _ _ _ H E).
Qed.

Lemma fresh_jump_ok : jump_ok 1 (Some x) m = true.
Proof.
  cbn [jump_ok]. unfold tgt_not_inside, bht_all, inside_ref. cbn [prof_is].
  assert (T : forall r, negb (in_tree_ref (Some x) m r) = true) by (intros r; rewrite fresh_not_in_tree; reflexivity).
  rewrite forallb_all.
  - destruct (getnode m "/ISA_LOOP/ISA"); destruct (getnode m "/ISA_LOOP/GS_LOOP/GS");
      destruct (getnode m "/ISA_LOOP/GS_LOOP/ST_LOOP/HEADER/BHT"); rewrite ?fresh_not_in_tree; reflexivity.
  - intros r. destruct (node_at (root_nodes m) r) as [[? ? ? ? ? ? ?|sn]|]; try reflexivity. rewrite T. apply orb_true_r.
Qed.
End Fresh.

Lemma fresh_cmap_ok m x : cmap_ok 1 None m = true -> ~ In x (loop_ids m) -> cmap_ok 1 (Some x) m = true.
Proof.
  unfold cmap_ok. intros H NX. destruct (unusable m); [reflexivity|]. cbn [orb] in *.
  apply andb_true_iff in H as [H _]. apply andb_true_iff in H as [H _]. apply andb_true_iff in H as [FO CW].
  pose proof (proj1 (full_ok_parts m FO)) as WF.
  rewrite FO, CW, (fresh_lid_good m x WF NX), (fresh_jump_ok m x WF NX). reflexivity.
Qed.

(* ---- the shipped maps, loaded once ---- *)
Definition loaded : list (result xmap) := map (fun e => load_tree (snd e)) shipped.

Definition res_ok (k : nat) (lid : option str) (r : result xmap) : bool :=
  match r with Ok m => cmap_ok k lid m | Raise e => allowed e end.

Lemma shipped_lid_ok_loaded k lid : shipped_lid_ok k lid = forallb (res_ok k lid) loaded.
Proof.
  unfold shipped_lid_ok, loaded. induction shipped as [|e es IH]; [reflexivity|]. cbn [forallb map]. rewrite IH. reflexivity.
Qed.

Definition ids_of_res (r : result xmap) : list str := match r with Ok m => loop_ids m | Raise _ => [] end.
Definition all_ids (rs : list (result xmap)) : list str := dedup (flat_map ids_of_res rs).

Lemma fresh_all rs x : forallb (res_ok 1 None) rs = true -> ~ In x (all_ids rs) -> forallb (res_ok 1 (Some x)) rs = true.
Proof.
  unfold all_ids. intros H NX. rewrite dedup_In in NX. induction rs as [|r rs IH]; [reflexivity|].
  cbn [forallb flat_map] in *. apply andb_true_iff in H as [H1 H2]. rewrite IH; [|exact H2 | intros I; apply NX, in_or_app; right; exact I].
  rewrite andb_true_r. destruct r as [m|e]; [|exact H1]. cbn [res_ok] in *. apply fresh_cmap_ok; [exact H1|].
  intros I. apply NX, in_or_app. left. exact I.
Qed.

(* the three loop ids that are not covered (and on which the reader does raise AttributeError) *)
Definition shipped_bad : list str := [sl "DETAIL"; sl "TABLE2AREA2"; sl "TABLE2AREA3"].

(* the expensive, loop-id independent part of cmap_ok is evaluated once per map *)
Inductive pre := PMap (m : xmap) (u f : bool) | PErr (a : bool).
Definition pre_of (r : result xmap) : pre :=
  match r with Ok m => PMap m (unusable m) (full_ok m && ctx_wf m) | Raise e => PErr (allowed e) end.
Definition pre_ok (k : nat) (lid : option str) (p : pre) : bool :=
  match p with PMap m u f => u || (f && lid_good lid m && jump_ok k lid m) | PErr a => a end.

Lemma pre_ok_eq k lid r : pre_ok k lid (pre_of r) = res_ok k lid r.
Proof. destruct r; reflexivity. Qed.

Lemma forallb_pre k lid rs : forallb (pre_ok k lid) (map pre_of rs) = forallb (res_ok k lid) rs.
Proof. induction rs as [|r rs IH]; [reflexivity|]. cbn [map forallb]. rewrite IH, pre_ok_eq. reflexivity. Qed.

(* every other loop id of the shipped maps passes one of the four alternatives on the whole environment *)
Example shipped_known_ids :
  (let L := loaded in
   let P := map pre_of L in
   forallb (fun i => existsb (str_eqb i) shipped_bad || existsb (fun k => forallb (pre_ok k (Some i)) P) [0; 1; 2; 3]) (all_ids L)) = true.
Proof. vm_compute. reflexivity. Qed.

Theorem shipped_ctx_total_all :
  forall loop_id text,
    match loop_id with Some x => existsb (str_eqb x) shipped_bad = false | None => True end ->
    plain_delims text = true ->
    match ir_res (iter_segments_gen shipped_load shipped_idx loop_id text) with Ok _ => True | Raise e => allowed e = true end.
Proof.
  intros [x|] text NB P; [|apply shipped_ctx_total_none; exact P].
  assert (K : exists k, shipped_lid_ok k (Some x) = true).
  { destruct (existsb (str_eqb x) (all_ids loaded)) eqn:EI.
    - apply existsb_exists in EI as [i [Hi Ei]]. apply str_eqb_eq in Ei. subst i.
      pose proof shipped_known_ids as KN. cbv zeta in KN. rewrite forallb_forall in KN. specialize (KN x Hi).
      rewrite NB in KN. cbn [orb] in KN. apply existsb_exists in KN as [k [_ Hk]]. exists k.
      rewrite shipped_lid_ok_loaded, <- forallb_pre. exact Hk.
    - exists 1. rewrite shipped_lid_ok_loaded. apply fresh_all.
      + rewrite <- shipped_lid_ok_loaded. exact shipped_none.
      + apply existsb_str_false. exact EI. }
  destruct K as [k Hk]. exact (shipped_ctx_total k (Some x) text Hk P).
Qed.

Print Assumptions shipped_ctx_total_all.
